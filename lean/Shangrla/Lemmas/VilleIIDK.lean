/-
  Ville's inequality on the tree of independent draws from a finitely supported law whose WEIGHTS live
  in an arbitrary linearly ordered field `K` (in particular `K = ℝ`: real, possibly irrational,
  probabilities).  The VALUES stay rational: the observations handed to the library are IEEE doubles,
  every finite double is a rational number, and the doubles in `[0,u]` are finitely many — so a law on
  the library's input space is a finite list of (rational value, weight) pairs; only the weights can be
  irrational.

  `VilleIID.lean` is the instance `K = ℚ` (`expLK_rat`, `hitIIDK_rat`), and a rational-weight law
  read in `K` has the cast of its rational hitting probability (`hitIIDK_cast`).
-/
import Shangrla.Lemmas.VilleIID
import Mathlib.Data.Rat.Cast.Order
import Mathlib.Data.Rat.Cast.CharZero

namespace Shangrla.Ville

variable {K : Type} [Field K] [LinearOrder K] [IsStrictOrderedRing K]

/-- expectation of `f` under the law `L` (rational values, weights in `K`) -/
def expLK (L : List (ℚ × K)) (f : ℚ → K) : K := (L.map (fun p => p.2 * f p.1)).sum

/-- exact probability (an element of `K`) that `ev` holds at some node within `n` further independent
draws from `L` after history `h` -/
def hitIIDK (L : List (ℚ × K)) (ev : List ℚ → Bool) : Nat → List ℚ → K
  | 0, h => if ev h then 1 else 0
  | n + 1, h => if ev h then 1 else expLK L (fun v => hitIIDK L ev n (h ++ [v]))

theorem expLK_le (L : List (ℚ × K)) (hw : ∀ p ∈ L, 0 ≤ p.2) (f g : ℚ → K)
    (h : ∀ p ∈ L, f p.1 ≤ g p.1) : expLK L f ≤ expLK L g := by
  unfold expLK
  induction L with
  | nil => simp
  | cons a L ih =>
    simp only [List.map_cons, List.sum_cons]
    have h1 : a.2 * f a.1 ≤ a.2 * g a.1 := mul_le_mul_of_nonneg_left (h a (by simp)) (hw a (by simp))
    have h2 := ih (fun p hp => hw p (by simp [hp])) (fun p hp => h p (by simp [hp]))
    linarith

theorem expLK_div (L : List (ℚ × K)) (f : ℚ → K) (c : K) :
    expLK L (fun v => f v / c) = expLK L f / c := by
  unfold expLK
  induction L with
  | nil => simp
  | cons a L ih => simp only [List.map_cons, List.sum_cons, ih]; ring

omit [LinearOrder K] [IsStrictOrderedRing K] in
theorem expLK_const (L : List (ℚ × K)) (hs : (L.map Prod.snd).sum = 1) (c : K) :
    expLK L (fun _ => c) = c := by
  unfold expLK
  have : ∀ L : List (ℚ × K), (L.map (fun p => p.2 * c)).sum = (L.map Prod.snd).sum * c := by
    intro L
    induction L with
    | nil => simp
    | cons a L ih => simp only [List.map_cons, List.sum_cons, ih]; ring
  rw [this, hs, one_mul]

omit [LinearOrder K] [IsStrictOrderedRing K] in
theorem expLK_mul_left (L : List (ℚ × K)) (f : ℚ → K) (c : K) :
    expLK L (fun v => c * f v) = c * expLK L f := by
  unfold expLK
  induction L with
  | nil => simp
  | cons a L ih => simp only [List.map_cons, List.sum_cons, ih]; ring

omit [LinearOrder K] [IsStrictOrderedRing K] in
/-- `E[1 + lam (X - m)] = 1 + lam (E X - m)` -/
theorem expLK_affine (L : List (ℚ × K)) (hs : (L.map Prod.snd).sum = 1) (lam m : K) :
    expLK L (fun v => 1 + lam * ((v : K) - m)) = 1 + lam * (expLK L (fun v => (v : K)) - m) := by
  unfold expLK
  have : ∀ L : List (ℚ × K), (L.map (fun p => p.2 * (1 + lam * ((p.1 : K) - m)))).sum
      = (1 - lam * m) * (L.map Prod.snd).sum + lam * (L.map (fun p => p.2 * (p.1 : K))).sum := by
    intro L
    induction L with
    | nil => simp
    | cons a L ih => simp only [List.map_cons, List.sum_cons, ih]; ring
  rw [this, hs]; ring

/-- the expectation of the cast of a rational function that is affine in the observation, with
rational coefficients -/
theorem expLK_affine_cast (L : List (ℚ × K)) (hs : (L.map Prod.snd).sum = 1) (lam m : ℚ) :
    expLK L (fun v => ((1 + lam * (v - m) : ℚ) : K))
      = 1 + (lam : K) * (expLK L (fun v => (v : K)) - (m : K)) := by
  rw [← expLK_affine L hs]
  congr 1
  funext v
  push_cast
  ring

/-- a supermartingale factor: affine in the observation with a non-negative slope, mean of the law
at most the centre -/
theorem expLK_affine_cast_le_one (L : List (ℚ × K)) (hs : (L.map Prod.snd).sum = 1) (lam m : ℚ)
    (hlam : 0 ≤ lam) (hmean : expLK L (fun v => (v : K)) ≤ (m : K)) :
    expLK L (fun v => ((1 + lam * (v - m) : ℚ) : K)) ≤ 1 := by
  rw [expLK_affine_cast L hs]
  have h1 : (0 : K) ≤ (lam : K) := by exact_mod_cast hlam
  have h2 : (lam : K) * (expLK L (fun v => (v : K)) - (m : K)) ≤ 0 :=
    mul_nonpos_of_nonneg_of_nonpos h1 (by linarith)
  linarith

/-- **Ville's inequality for independent draws, weights in an ordered field.** -/
theorem hitIIDK_le (L : List (ℚ × K)) (hw : ∀ p ∈ L, 0 ≤ p.2)
    (ev : List ℚ → Bool) (val : List ℚ → K) (c : K) (hc : 0 < c)
    (Inv : List ℚ → Prop)
    (hev : ∀ h, Inv h → ev h = true → c ≤ val h)
    (hnn : ∀ h, Inv h → 0 ≤ val h)
    (hstep : ∀ h, Inv h → ∀ p ∈ L, Inv (h ++ [p.1]))
    (hsuper : ∀ h, Inv h → expLK L (fun v => val (h ++ [v])) ≤ val h) :
    ∀ n h, Inv h → hitIIDK L ev n h ≤ val h / c := by
  intro n
  induction n with
  | zero =>
    intro h hI
    unfold hitIIDK
    split
    · rename_i he
      rw [le_div_iff₀ hc]; linarith [hev h hI he]
    · exact div_nonneg (hnn h hI) hc.le
  | succ n ih =>
    intro h hI
    unfold hitIIDK
    split
    · rename_i he
      rw [le_div_iff₀ hc]; linarith [hev h hI he]
    · calc expLK L (fun v => hitIIDK L ev n (h ++ [v]))
          ≤ expLK L (fun v => val (h ++ [v]) / c) :=
            expLK_le L hw _ _ (fun p hp => ih _ (hstep h hI p hp))
        _ = expLK L (fun v => val (h ++ [v])) / c := expLK_div _ _ _
        _ ≤ val h / c := div_le_div_of_nonneg_right (hsuper h hI) hc.le

theorem hitIIDK_nonneg (L : List (ℚ × K)) (hw : ∀ p ∈ L, 0 ≤ p.2) (hs : (L.map Prod.snd).sum = 1)
    (ev : List ℚ → Bool) : ∀ n h, 0 ≤ hitIIDK L ev n h := by
  intro n
  induction n with
  | zero => intro h; unfold hitIIDK; split <;> norm_num
  | succ n ih =>
    intro h
    unfold hitIIDK
    split
    · norm_num
    · have := expLK_le L hw (fun _ => 0) (fun v => hitIIDK L ev n (h ++ [v])) (fun p _ => ih _)
      rwa [expLK_const L hs] at this

theorem hitIIDK_le_one (L : List (ℚ × K)) (hw : ∀ p ∈ L, 0 ≤ p.2) (hs : (L.map Prod.snd).sum = 1)
    (ev : List ℚ → Bool) : ∀ n h, hitIIDK L ev n h ≤ 1 := by
  intro n
  induction n with
  | zero => intro h; unfold hitIIDK; split <;> norm_num
  | succ n ih =>
    intro h
    unfold hitIIDK
    split
    · exact le_refl _
    · have := expLK_le L hw (fun v => hitIIDK L ev n (h ++ [v])) (fun _ => 1) (fun p _ => ih _)
      rwa [expLK_const L hs] at this

/-! ### the rational-weight notion of `VilleIID.lean` is the instance `K = ℚ` -/

theorem expLK_rat (L : List (ℚ × ℚ)) (f : ℚ → ℚ) : expLK (K := ℚ) L f = expL L f := rfl

theorem hitIIDK_rat (L : List (ℚ × ℚ)) (ev : List ℚ → Bool) :
    ∀ n h, hitIIDK (K := ℚ) L ev n h = hitIID L ev n h := by
  intro n
  induction n with
  | zero => intro h; rfl
  | succ n ih =>
    intro h
    unfold hitIIDK hitIID
    split
    · rfl
    · rw [expLK_rat]
      congr 1
      funext v
      exact ih _

/-- a rational-weight law read with its weights cast into `K` -/
def castLaw (K : Type) [Field K] (L : List (ℚ × ℚ)) : List (ℚ × K) := L.map (fun p => (p.1, (p.2 : K)))

theorem expLK_cast (L : List (ℚ × ℚ)) (f : ℚ → ℚ) :
    expLK (castLaw K L) (fun v => ((f v : ℚ) : K)) = ((expL L f : ℚ) : K) := by
  unfold expLK expL castLaw
  induction L with
  | nil => simp
  | cons a L ih =>
    simp only [List.map_cons, List.sum_cons, List.map_map] at ih ⊢
    rw [ih]
    push_cast
    rfl

/-- the hitting probability of a rational-weight law computed in `K` is the cast of the rational one:
the theorems about `hitIIDK` contain those about `hitIID` for every `K`, not only for `K = ℚ` -/
theorem hitIIDK_cast (L : List (ℚ × ℚ)) (ev : List ℚ → Bool) :
    ∀ n h, hitIIDK (castLaw K L) ev n h = ((hitIID L ev n h : ℚ) : K) := by
  intro n
  induction n with
  | zero =>
    intro h
    unfold hitIIDK hitIID
    split <;> simp
  | succ n ih =>
    intro h
    unfold hitIIDK hitIID
    split
    · simp
    · rw [← expLK_cast]
      congr 1
      funext v
      exact ih _

end Shangrla.Ville
