/-
  (S1) of DESIGN.md Appendix F: what is true of every node the RAIRE search creates (`NodeOK`: tail
  duplicate-free within the candidates, assertion/estimate = `find_best_audit` of the tail, best ancestor
  = a cheapest proper suffix), and the store extension relation `Ext`.  Core Lean only.
-/
import Shangrla.Lemmas.RaireStore

namespace Shangrla.Raire
open Spec

set_option linter.unusedSectionVars false
set_option linter.unusedVariables false

section Loop
variable {α : Type} [DecidableEq α] {D : Type} [DiffOrd D] [DiffOrd.Lawful D]
variable (asn : Nat → Nat → Nat → Nat → D) (C : Contest α) (cvrs : List (Option (Ballot α))) (winner : α)

/-- `find_best_audit` with the contest's ballots and NEB table -/
def fbaOf (tail : List α) : Option (Assertion α D) × Diff D :=
  findBestAudit asn C (cvrs.filterMap id) (nebTable asn C cvrs) tail

/-- (S1) what is true of every node ever created -/
structure NodeOK (s : Store α D) (id : Nat) : Prop where
  nodup : (s.get id).tail.Nodup
  sub : ∀ y ∈ (s.get id).tail, y ∈ C.candidates
  len : 2 ≤ (s.get id).tail.length
  alt : ∃ pre c, (s.get id).tail = pre ++ [c] ∧ c ≠ winner
  best : (s.get id).best = (fbaOf asn C cvrs (s.get id).tail).1
  est : (s.get id).estimate = (fbaOf asn C cvrs (s.get id).tail).2
  expLen : (s.get id).expandable = true → (s.get id).tail.length < C.candidates.length
  anc : ∀ j, (s.get id).bestAnc = some j → j < id ∧ ∃ pre, pre ≠ [] ∧ (s.get id).tail = pre ++ (s.get j).tail
  ancMin : ∀ j, (s.get id).bestAnc = some j → ∀ t, t <:+ (s.get id).tail → 2 ≤ t.length →
    t.length < (s.get id).tail.length → Diff.le (s.get j).estimate (fbaOf asn C cvrs t).2 = true
  ancNone : (s.get id).bestAnc = none → (s.get id).tail.length = 2

def StoreOK (s : Store α D) : Prop := ∀ id, id < s.size → NodeOK asn C cvrs winner s id

/-- the immutable part of a node is unchanged, `expandable` can only be switched off -/
def NodeExt (n n' : Node α D) : Prop :=
  n'.tail = n.tail ∧ n'.best = n.best ∧ n'.estimate = n.estimate ∧ n'.bestAnc = n.bestAnc ∧
  n'.diveNode = n.diveNode ∧ (n'.expandable = true → n.expandable = true)

theorem NodeExt.refl (n : Node α D) : NodeExt n n := ⟨rfl, rfl, rfl, rfl, rfl, id⟩

def Ext (s s' : Store α D) : Prop := s.size ≤ s'.size ∧ ∀ k, k < s.size → NodeExt (s.get k) (s'.get k)

theorem Ext.refl (s : Store α D) : Ext s s := ⟨Nat.le_refl _, fun k _ => NodeExt.refl _⟩

theorem Ext.trans {s s' s'' : Store α D} (h1 : Ext s s') (h2 : Ext s' s'') : Ext s s'' := by
  refine ⟨Nat.le_trans h1.1 h2.1, fun k hk => ?_⟩
  obtain ⟨a1, a2, a3, a4, a5, a6⟩ := h1.2 k hk
  obtain ⟨b1, b2, b3, b4, b5, b6⟩ := h2.2 k (Nat.lt_of_lt_of_le hk h1.1)
  exact ⟨b1.trans a1, b2.trans a2, b3.trans a3, b4.trans a4, b5.trans a5, fun h => a6 (b6 h)⟩

theorem NodeOK.ext {s s' : Store α D} {id : Nat} (h : NodeOK asn C cvrs winner s id)
    (he : ∀ k, k ≤ id → NodeExt (s.get k) (s'.get k)) : NodeOK asn C cvrs winner s' id := by
  obtain ⟨e1, e2, e3, e4, e5, e6⟩ := he id (Nat.le_refl _)
  refine ⟨by rw [e1]; exact h.nodup, by rw [e1]; exact h.sub, by rw [e1]; exact h.len,
    by rw [e1]; exact h.alt, by rw [e1, e2]; exact h.best, by rw [e1, e3]; exact h.est,
    fun hx => by rw [e1]; exact h.expLen (e6 hx), ?_, ?_, by rw [e1, e4]; exact h.ancNone⟩
  · intro j hj
    rw [e4] at hj
    obtain ⟨h1, h2⟩ := h.anc j hj
    refine ⟨h1, ?_⟩
    rw [e1, (he j (Nat.le_of_lt h1)).1]; exact h2
  · intro j hj
    rw [e4] at hj
    obtain ⟨h1, _⟩ := h.anc j hj
    rw [e1, (he j (Nat.le_of_lt h1)).2.2.1]
    exact h.ancMin j hj

theorem StoreOK.ext {s s' : Store α D} (h : StoreOK asn C cvrs winner s) (he : Ext s s') :
    ∀ id, id < s.size → NodeOK asn C cvrs winner s' id :=
  fun id hid => (h id hid).ext asn C cvrs winner (fun k hk => he.2 k (Nat.lt_of_le_of_lt hk hid))

theorem ext_push (s : Store α D) (n : Node α D) : Ext s (s.push n) := by
  refine ⟨by rw [Array.size_push]; omega, fun k hk => ?_⟩
  rw [Store.get_push_lt s n hk]; exact NodeExt.refl _

theorem ext_set (s : Store α D) (i : Nat) (n : Node α D) (hn : NodeExt (s.get i) n) :
    Ext s (s.setIfInBounds i n) := by
  refine ⟨by rw [Array.size_setIfInBounds]; omega, fun k hk => ?_⟩
  by_cases h : i = k
  · subst h; rw [Store.get_set_eq s n hk]; exact hn
  · rw [Store.get_set_ne s n h]; exact NodeExt.refl _


end Loop
end Shangrla.Raire
