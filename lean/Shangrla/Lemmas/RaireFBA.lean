/-
  Single-node lemmas of DESIGN.md Appendix F about `findBestAudit` (no loop):
  the list `candAt` of assertions examined at a node, FBA-sound, FBA-min.  Core Lean only.
-/
import Shangrla.Lemmas.RaireSpec

namespace Shangrla.Raire
open Spec

set_option linter.unusedSectionVars false

variable {α : Type} [DecidableEq α] {D : Type} [DiffOrd D]

/-! ### the order on `D` and `Diff D` -/

theorem dle_refl [DiffOrd.Lawful D] (a : D) : DiffOrd.le a a = true := by
  rcases DiffOrd.Lawful.le_total a a with h | h <;> exact h

theorem dle_of_not_lt [DiffOrd.Lawful D] {a b : D} (h : DiffOrd.lt a b = false) : DiffOrd.le b a = true := by
  cases hb : DiffOrd.le b a
  · have := (DiffOrd.Lawful.lt_iff_not_le a b).2 hb
    rw [this] at h; cases h
  · rfl

theorem dle_of_lt [DiffOrd.Lawful D] {a b : D} (h : DiffOrd.lt a b = true) : DiffOrd.le a b = true := by
  have := (DiffOrd.Lawful.lt_iff_not_le a b).1 h
  rcases DiffOrd.Lawful.le_total a b with h1 | h1
  · exact h1
  · rw [h1] at this; cases this

namespace Diff
theorem le_refl [DiffOrd.Lawful D] (a : Diff D) : Diff.le a a = true := by
  cases a <;> simp [Diff.le, dle_refl]

theorem le_trans [DiffOrd.Lawful D] {a b c : Diff D} (h1 : Diff.le a b = true) (h2 : Diff.le b c = true) :
    Diff.le a c = true := by
  cases a <;> cases b <;> cases c <;> simp_all [Diff.le]
  exact DiffOrd.Lawful.le_trans _ _ _ h1 h2

theorem le_total [DiffOrd.Lawful D] (a b : Diff D) : Diff.le a b = true ∨ Diff.le b a = true := by
  cases a <;> cases b <;> simp [Diff.le]
  exact DiffOrd.Lawful.le_total _ _

theorem lt_iff_not_le [DiffOrd.Lawful D] (a b : Diff D) : Diff.lt a b = true ↔ Diff.le b a = false := by
  cases a with
  | fin x => cases b with
    | fin y => exact DiffOrd.Lawful.lt_iff_not_le x y
    | inf => simp [Diff.lt, Diff.le]
  | inf => cases b <;> simp [Diff.lt, Diff.le]

theorem le_inf (a : Diff D) : Diff.le a Diff.inf = true := by cases a <;> rfl

theorem isInf_iff (a : Diff D) : a.isInf = true ↔ a = Diff.inf := by cases a <;> simp [Diff.isInf]

theorem inf_le_iff (a : Diff D) : Diff.le Diff.inf a = true ↔ a = Diff.inf := by
  cases a <;> simp [Diff.le]
end Diff

/-! ### `pick` and folds of `pick` -/

omit [DecidableEq α] in
theorem pick_eq_none {best c : Option (Assertion α D)} : pick best c = none ↔ best = none ∧ c = none := by
  cases best <;> cases c <;> simp [pick]
  split <;> simp

omit [DecidableEq α] in
theorem pick_mem {best c : Option (Assertion α D)} {a : Assertion α D} (h : pick best c = some a) :
    best = some a ∨ c = some a := by
  cases best <;> cases c <;> simp [pick] at h ⊢
  · exact h
  · exact h
  · split at h <;> simp_all

omit [DecidableEq α] in
theorem pick_le [DiffOrd.Lawful D] {best c : Option (Assertion α D)} {a : Assertion α D}
    (h : pick best c = some a) :
    (∀ b, best = some b → DiffOrd.le a.difficulty b.difficulty = true) ∧
    (∀ b, c = some b → DiffOrd.le a.difficulty b.difficulty = true) := by
  cases best with
  | none =>
    cases c with
    | none => simp [pick] at h
    | some x =>
      simp [pick] at h; subst h
      exact ⟨by simp, by intro b hb; cases hb; exact dle_refl _⟩
  | some y =>
    cases c with
    | none =>
      simp [pick] at h; subst h
      exact ⟨by intro b hb; cases hb; exact dle_refl _, by simp⟩
    | some x =>
      simp only [pick] at h
      by_cases hl : DiffOrd.lt x.difficulty y.difficulty = true
      · rw [if_pos hl] at h; cases h
        exact ⟨by intro b hb; cases hb; exact dle_of_lt hl, by intro b hb; cases hb; exact dle_refl _⟩
      · rw [if_neg hl] at h; cases h
        have hl' : DiffOrd.lt x.difficulty a.difficulty = false := by simpa using hl
        exact ⟨by intro b hb; cases hb; exact dle_refl _, by intro b hb; cases hb; exact dle_of_not_lt hl'⟩

omit [DecidableEq α] in
theorem foldl_pick_none (l : List (Option (Assertion α D))) (init : Option (Assertion α D)) :
    l.foldl pick init = none ↔ init = none ∧ ∀ x ∈ l, x = none := by
  induction l generalizing init with
  | nil => simp
  | cons x l ih =>
    simp only [List.foldl_cons, ih, pick_eq_none, List.mem_cons, forall_eq_or_imp]
    constructor
    · rintro ⟨⟨h1, h2⟩, h3⟩; exact ⟨h1, h2, h3⟩
    · rintro ⟨h1, h2, h3⟩; exact ⟨⟨h1, h2⟩, h3⟩

omit [DecidableEq α] in
theorem foldl_pick_mem (l : List (Option (Assertion α D))) (init : Option (Assertion α D))
    {a : Assertion α D} (h : l.foldl pick init = some a) : init = some a ∨ some a ∈ l := by
  induction l generalizing init with
  | nil => left; simpa using h
  | cons x l ih =>
    rw [List.foldl_cons] at h
    rcases ih _ h with h1 | h1
    · rcases pick_mem h1 with h2 | h2
      · exact Or.inl h2
      · right; rw [h2]; exact List.mem_cons_self
    · right; exact List.mem_cons_of_mem _ h1

omit [DecidableEq α] in
theorem foldl_pick_le [DiffOrd.Lawful D] (l : List (Option (Assertion α D)))
    (init : Option (Assertion α D)) {a : Assertion α D} (h : l.foldl pick init = some a) :
    (∀ b, init = some b → DiffOrd.le a.difficulty b.difficulty = true) ∧
    (∀ b, some b ∈ l → DiffOrd.le a.difficulty b.difficulty = true) := by
  induction l generalizing init with
  | nil =>
    simp only [List.foldl_nil] at h; subst h
    exact ⟨by intro b hb; cases hb; exact dle_refl _, by simp⟩
  | cons x l ih =>
    rw [List.foldl_cons] at h
    obtain ⟨h1, h2⟩ := ih _ h
    cases hp : pick init x with
    | none =>
      rw [pick_eq_none] at hp
      obtain ⟨rfl, rfl⟩ := hp
      refine ⟨by simp, ?_⟩
      intro b hb
      simp only [List.mem_cons] at hb
      rcases hb with hb | hb
      · cases hb
      · exact h2 b hb
    | some m =>
      have hm := h1 m hp
      obtain ⟨p1, p2⟩ := pick_le hp
      refine ⟨fun b hb => DiffOrd.Lawful.le_trans _ _ _ hm (p1 b hb), ?_⟩
      intro b hb
      simp only [List.mem_cons] at hb
      rcases hb with hb | hb
      · exact DiffOrd.Lawful.le_trans _ _ _ hm (p2 b hb.symm)
      · exact h2 b hb

/-! ### the NEB table -/

theorem lookup_map_self {β : Type} (f : α → β) (l : List α) (c : α) (hc : c ∈ l) :
    (l.map fun x => (x, f x)).lookup c = some (f c) := by
  induction l with
  | nil => cases hc
  | cons x l ih =>
    simp only [List.map_cons, List.lookup_cons]
    by_cases h : c = x
    · subst h; simp
    · have : (c == x) = false := by simpa using h
      rw [this]
      simp only [List.mem_cons] at hc
      rcases hc with hc | hc
      · exact absurd hc h
      · exact ih hc

theorem nebLookup_table (asn : Nat → Nat → Nat → Nat → D) (C : Contest α) (cvrs : List (Option (Ballot α)))
    (c d : α) (hc : c ∈ C.candidates) (hd : d ∈ C.candidates) :
    nebLookup (nebTable asn C cvrs) c d = if c = d then none else mkNeb asn C cvrs c d := by
  unfold nebLookup nebTable
  rw [lookup_map_self (fun c => C.candidates.map fun d => (d, if c = d then none else mkNeb asn C cvrs c d)) _ c hc]
  simp only
  rw [lookup_map_self (fun d => if c = d then none else mkNeb asn C cvrs c d) _ d hd]

/-! ### the assertions examined at a node -/

/-- the candidate assertions `find_best_audit` examines for a node with tail `tail`, in examination
order (`none` where the tally inequality fails) -/
def candAt (asn : Nat → Nat → Nat → Nat → D) (C : Contest α) (ballots : List (Ballot α))
    (nebs : NebTable α D) (tail : List α) : List (Option (Assertion α D)) :=
  match tail with
  | [] => []
  | first :: rest =>
    rest.map (fun later => nebLookup nebs first later)
    ++ (notIn C tail).flatMap (fun cand => tail.map fun cit => nebLookup nebs cand cit)
    ++ rest.map (fun later => mkNen asn C ballots tail first later)

theorem findBestAudit_eq (asn : Nat → Nat → Nat → Nat → D) (C : Contest α) (ballots : List (Ballot α))
    (nebs : NebTable α D) (tail : List α) :
    findBestAudit asn C ballots nebs tail =
      match (candAt asn C ballots nebs tail).foldl pick none with
      | none => (none, Diff.inf)
      | some a => (some a, Diff.fin a.difficulty) := by
  cases tail with
  | nil => simp [findBestAudit, candAt]
  | cons first rest =>
    simp only [findBestAudit, candAt, List.foldl_append, List.foldl_map, List.foldl_flatMap]
    rfl

/-- FBA-min, first half: the estimate is `inf` exactly when no candidate assertion exists -/
theorem fba_none_iff (asn : Nat → Nat → Nat → Nat → D) (C : Contest α) (ballots : List (Ballot α))
    (nebs : NebTable α D) (tail : List α) :
    (findBestAudit asn C ballots nebs tail).1 = none ↔ ∀ x ∈ candAt asn C ballots nebs tail, x = none := by
  rw [findBestAudit_eq]
  cases h : (candAt asn C ballots nebs tail).foldl pick none with
  | none => simp only [true_iff]; exact ((foldl_pick_none _ _).1 h).2
  | some a =>
    simp only [false_iff, reduceCtorEq]
    intro hall
    have := (foldl_pick_none _ none).2 ⟨rfl, hall⟩
    rw [this] at h; cases h

theorem fba_estimate (asn : Nat → Nat → Nat → Nat → D) (C : Contest α) (ballots : List (Ballot α))
    (nebs : NebTable α D) (tail : List α) :
    (findBestAudit asn C ballots nebs tail).2 =
      match (findBestAudit asn C ballots nebs tail).1 with
      | none => Diff.inf
      | some a => Diff.fin a.difficulty := by
  rw [findBestAudit_eq]
  cases (candAt asn C ballots nebs tail).foldl pick none <;> rfl

theorem fba_mem (asn : Nat → Nat → Nat → Nat → D) (C : Contest α) (ballots : List (Ballot α))
    (nebs : NebTable α D) (tail : List α) {a : Assertion α D}
    (h : (findBestAudit asn C ballots nebs tail).1 = some a) : some a ∈ candAt asn C ballots nebs tail := by
  rw [findBestAudit_eq] at h
  cases h' : (candAt asn C ballots nebs tail).foldl pick none with
  | none => rw [h'] at h; cases h
  | some b =>
    rw [h'] at h; simp only [Option.some.injEq] at h; subst h
    rcases foldl_pick_mem _ _ h' with h1 | h1
    · cases h1
    · exact h1

/-- FBA-min, second half: the chosen assertion is the cheapest examined -/
theorem fba_min [DiffOrd.Lawful D] (asn : Nat → Nat → Nat → Nat → D) (C : Contest α)
    (ballots : List (Ballot α)) (nebs : NebTable α D) (tail : List α) {a : Assertion α D}
    (h : (findBestAudit asn C ballots nebs tail).1 = some a) :
    ∀ b, some b ∈ candAt asn C ballots nebs tail → DiffOrd.le a.difficulty b.difficulty = true := by
  rw [findBestAudit_eq] at h
  cases h' : (candAt asn C ballots nebs tail).foldl pick none with
  | none => rw [h'] at h; cases h
  | some b =>
    rw [h'] at h; simp only [Option.some.injEq] at h; subst h
    exact (foldl_pick_le _ _ h').2

/-- FBA-min in terms of the estimate: it is below the difficulty of every examined assertion -/
theorem fba_estimate_le [DiffOrd.Lawful D] (asn : Nat → Nat → Nat → Nat → D) (C : Contest α)
    (ballots : List (Ballot α)) (nebs : NebTable α D) (tail : List α) (b : Assertion α D)
    (hb : some b ∈ candAt asn C ballots nebs tail) :
    Diff.le (findBestAudit asn C ballots nebs tail).2 (Diff.fin b.difficulty) = true := by
  rw [fba_estimate]
  cases h : (findBestAudit asn C ballots nebs tail).1 with
  | none =>
    have := (fba_none_iff asn C ballots nebs tail).1 h _ hb
    cases this
  | some a => exact fba_min asn C ballots nebs tail h b hb

/-! ### what the examined assertions are: FBA-sound -/

theorem mkNeb_some {asn : Nat → Nat → Nat → Nat → D} {C : Contest α} {cvrs : List (Option (Ballot α))}
    {c d : α} {a : Assertion α D} (h : mkNeb asn C cvrs c d = some a) :
    a.kind = .neb ∧ a.winner = c ∧ a.loser = d ∧ a.eliminated = [] ∧ a.rulesOut = [] ∧
    a.votesW = (cvrs.map (nebVoteW c)).sum ∧ a.votesL = (cvrs.map (nebVoteL c d)).sum ∧
    a.votesL < a.votesW ∧
    a.difficulty = asn a.votesW a.votesL (C.totBallots - (a.votesW + a.votesL)) C.totBallots := by
  unfold mkNeb at h
  simp only at h
  split at h
  · cases h; simp_all
  · cases h

theorem mkNen_some {asn : Nat → Nat → Nat → Nat → D} {C : Contest α} {ballots : List (Ballot α)}
    {tail : List α} {f l : α} {a : Assertion α D} (h : mkNen asn C ballots tail f l = some a) :
    a.kind = .nen ∧ a.winner = f ∧ a.loser = l ∧ a.eliminated = notIn C tail ∧ a.rulesOut = [tail] ∧
    a.votesW = tally ballots f (notIn C tail) ∧ a.votesL = tally ballots l (notIn C tail) ∧
    a.votesL < a.votesW ∧
    a.difficulty = asn a.votesW a.votesL (C.totBallots - (a.votesW + a.votesL)) C.totBallots := by
  unfold mkNen at h
  simp only at h
  split at h
  · cases h; simp_all
  · cases h

theorem mem_notIn {C : Contest α} {tail : List α} {y : α} :
    y ∈ notIn C tail ↔ y ∈ C.candidates ∧ y ∉ tail := by
  simp [notIn]

/-- the shape of an assertion examined at `tail = first :: rest` -/
def Shape (C : Contest α) (first : α) (rest : List α) (a : Assertion α D) : Prop :=
  (a.kind = .neb ∧ a.rulesOut = [] ∧ a.eliminated = [] ∧
    ((a.winner = first ∧ a.loser ∈ rest) ∨
     (a.winner ∈ C.candidates ∧ a.winner ∉ first :: rest ∧ a.loser ∈ first :: rest)))
  ∨ (a.kind = .nen ∧ a.rulesOut = [first :: rest] ∧ a.eliminated = notIn C (first :: rest) ∧
      a.winner = first ∧ a.loser ∈ rest)

/-- every assertion examined at a node has the expected shape and belongs to the family of true
assertions (tallies recomputed from the CVRs, strict inequality, difficulty = asn of the tallies) -/
theorem candAt_spec (asn : Nat → Nat → Nat → Nat → D) (C : Contest α) (cvrs : List (Option (Ballot α)))
    (first : α) (rest : List α) (hnd : (first :: rest).Nodup) (hsub : ∀ y ∈ first :: rest, y ∈ C.candidates)
    (a : Assertion α D)
    (ha : some a ∈ candAt asn C (cvrs.filterMap id) (nebTable asn C cvrs) (first :: rest)) :
    Shape C first rest a ∧ Fam asn C cvrs a := by
  have hfirst : first ∈ C.candidates := hsub first List.mem_cons_self
  have hfr : first ∉ rest := (List.nodup_cons.1 hnd).1
  simp only [candAt, List.mem_append, List.mem_map, List.mem_flatMap] at ha
  rcases ha with (⟨later, hl, he⟩ | ⟨cand, hc, cit, hcit, he⟩) | ⟨later, hl, he⟩
  · -- NEB(first, later)
    have hlc : later ∈ C.candidates := hsub later (List.mem_cons_of_mem _ hl)
    have hne : first ≠ later := fun h => hfr (h ▸ hl)
    rw [nebLookup_table asn C cvrs first later hfirst hlc, if_neg hne] at he
    obtain ⟨h1, h2, h3, h4, h5, h6, h7, h8, h9⟩ := mkNeb_some he
    refine ⟨Or.inl ⟨h1, h5, h4, Or.inl ⟨h2, h3 ▸ hl⟩⟩, ?_⟩
    refine ⟨h2 ▸ hfirst, h3 ▸ hlc, by rw [h2, h3]; exact hne, by simp [h1], ?_, h9⟩
    simp only [holds, tallies, h1, h2, h3]
    exact ⟨h6, h7, h8⟩
  · -- NEB(cand, cit)
    obtain ⟨hcc, hct⟩ := mem_notIn.1 hc
    have hcitc : cit ∈ C.candidates := hsub cit hcit
    have hne : cand ≠ cit := fun h => hct (h ▸ hcit)
    rw [nebLookup_table asn C cvrs cand cit hcc hcitc, if_neg hne] at he
    obtain ⟨h1, h2, h3, h4, h5, h6, h7, h8, h9⟩ := mkNeb_some he
    refine ⟨Or.inl ⟨h1, h5, h4, Or.inr ⟨h2 ▸ hcc, h2 ▸ hct, h3 ▸ hcit⟩⟩, ?_⟩
    refine ⟨h2 ▸ hcc, h3 ▸ hcitc, by rw [h2, h3]; exact hne, by simp [h1], ?_, h9⟩
    simp only [holds, tallies, h1, h2, h3]
    exact ⟨h6, h7, h8⟩
  · -- NEN(first, later, notIn tail)
    have hlc : later ∈ C.candidates := hsub later (List.mem_cons_of_mem _ hl)
    have hne : first ≠ later := fun h => hfr (h ▸ hl)
    obtain ⟨h1, h2, h3, h4, h5, h6, h7, h8, h9⟩ := mkNen_some he
    refine ⟨Or.inr ⟨h1, h5, h4, h2, h3 ▸ hl⟩, ?_⟩
    refine ⟨h2 ▸ hfirst, h3 ▸ hlc, by rw [h2, h3]; exact hne, ?_, ?_, h9⟩
    · intro _
      rw [h4, h2, h3]
      refine ⟨fun h => (mem_notIn.1 h).2 List.mem_cons_self,
        fun h => (mem_notIn.1 h).2 (List.mem_cons_of_mem _ hl), fun y hy => (mem_notIn.1 hy).1⟩
    · simp only [holds, tallies, h1, h2, h3, h4]
      exact ⟨h6, h7, h8⟩

/-- an assertion of the shape examined at `tail` contradicts every complete order ending in `tail` -/
theorem shape_contradicts (C : Contest α) (hC : C.candidates.Nodup) (first : α) (rest : List α)
    (a : Assertion α D) (hs : Shape C first rest a) (π : List α) (hπ : π.Perm C.candidates)
    (hsuf : first :: rest <:+ π) : contradicts a π := by
  obtain ⟨pre, rfl⟩ := hsuf
  have hπnd : (pre ++ first :: rest).Nodup := hπ.nodup_iff.2 hC
  unfold contradicts
  rcases hs with ⟨hk, _, _, h | ⟨hwc, hwt, hlt⟩⟩ | ⟨hk, _, he, hw, hl⟩
  · rw [hk, h.1]; exact ⟨pre, rest, rfl, h.2⟩
  · rw [hk]
    have hwπ : a.winner ∈ pre ++ first :: rest := hπ.mem_iff.2 hwc
    have hwpre : a.winner ∈ pre := by
      rcases List.mem_append.1 hwπ with h | h
      · exact h
      · exact absurd h hwt
    obtain ⟨p1, p2, rfl⟩ := List.append_of_mem hwpre
    refine ⟨p1, p2 ++ first :: rest, by simp, ?_⟩
    exact List.mem_append_right _ hlt
  · rw [hk, hw, he]
    refine ⟨pre, rest, rfl, ?_, hl⟩
    intro y
    rw [mem_notIn]
    constructor
    · rintro ⟨hy1, hy2⟩
      rcases List.mem_append.1 (hπ.mem_iff.2 hy1) with h | h
      · exact h
      · exact absurd h hy2
    · intro hy
      refine ⟨hπ.mem_iff.1 (List.mem_append_left _ hy), ?_⟩
      intro hy2
      exact (List.nodup_append.1 hπnd).2.2 y hy y hy2 rfl

/-- **FBA-sound.** After `find_best_audit` on a node whose tail is duplicate-free, within the candidates
and of length ≥ 2: if an assertion was found, it is a true assertion of the family (reported tallies =
tallies of the CVRs, winner strictly larger, difficulty = asn of the tallies), the node's estimate is
its difficulty, and it contradicts every complete order having the node's tail as a suffix. -/
theorem fba_sound (asn : Nat → Nat → Nat → Nat → D) (C : Contest α) (hC : C.candidates.Nodup)
    (cvrs : List (Option (Ballot α))) (tail : List α) (hnd : tail.Nodup)
    (hsub : ∀ y ∈ tail, y ∈ C.candidates) (a : Assertion α D)
    (h : (findBestAudit asn C (cvrs.filterMap id) (nebTable asn C cvrs) tail).1 = some a) :
    Fam asn C cvrs a ∧
    (findBestAudit asn C (cvrs.filterMap id) (nebTable asn C cvrs) tail).2 = Diff.fin a.difficulty ∧
    (∀ π, π.Perm C.candidates → tail <:+ π → contradicts a π) ∧
    (∃ first rest, tail = first :: rest ∧ Shape C first rest a) := by
  have hmem := fba_mem asn C _ _ tail h
  cases tail with
  | nil => simp [candAt] at hmem
  | cons first rest =>
    obtain ⟨hs, hf⟩ := candAt_spec asn C cvrs first rest hnd hsub a hmem
    refine ⟨hf, ?_, fun π hπ hsuf => shape_contradicts C hC first rest a hs π hπ hsuf, first, rest, rfl, hs⟩
    rw [fba_estimate, h]

end Shangrla.Raire
