/-
  Helper lemmas for C08 (first sentence): closed form of the phantom list built by the style branch of
  `Shangrla.Phantoms.makePhantoms`.  Core Lean + `Std.Data.String.ToNat` (injectivity of `Nat.repr`).
-/
import Shangrla.Model.Phantoms
import Shangrla.Lemmas.Sampling
import Std.Data.String.ToNat

namespace Shangrla.Phantoms
open Shangrla.Sampling (ContestId Contest id_inj_of_nodup)

/-- shortfall of a contest after `setParams`: `con.cards - con.cvrs` (0 when negative) -/
def needed (con : Contest) : Nat := (con.cards.getD 0) - con.cvrs

/-- largest shortfall (0 without contests) -/
def maxNeeded (cons : List Contest) : Nat := cons.foldl (fun m con => max m (needed con)) 0

/-- the `k`-th phantom after the contests `done` have been processed -/
def phantomAt (pfx : String) (done : List Contest) (k : Nat) : Rec :=
  { id := pfx ++ toString (k + 1),
    styles := (done.filter (fun con => decide (k < needed con))).map (·.id),
    phantom := true }

def closed (pfx : String) (done : List Contest) : List Rec :=
  (List.range' 0 (maxNeeded done)).map (phantomAt pfx done)

theorem grow_eq (pfx : String) : ∀ (m : Nat) (ph : List Rec),
    grow pfx m ph = ph ++ (List.range' ph.length m).map (mkPhantom pfx) := by
  intro m
  induction m with
  | zero => intro ph; simp [grow]
  | succ m ih =>
    intro ph
    rw [grow, ih]
    simp [List.range'_succ]

theorem markFirst_map_range' (c : ContestId) (f : Nat → Rec) : ∀ (N n s : Nat),
    markFirst c n ((List.range' s N).map f) =
      (List.range' s N).map (fun k => if k < s + n then listContest c (f k) else f k) := by
  intro N
  induction N with
  | zero => intro n s; cases n <;> simp [markFirst]
  | succ N ih =>
    intro n s
    cases n with
    | zero =>
      simp only [markFirst, Nat.add_zero]
      apply List.map_congr_left
      intro k hk
      rw [List.mem_range'_1] at hk
      rw [if_neg (by omega)]
    | succ n =>
      simp only [List.range'_succ, List.map_cons, markFirst]
      rw [ih n (s + 1)]
      congr 1
      · rw [if_pos (by omega)]
      · apply List.map_congr_left
        intro k _
        have : (k < s + 1 + n) = (k < s + (n + 1)) := by rw [Nat.add_assoc, Nat.add_comm 1 n]
        simp only [this]

theorem maxNeeded_append (done : List Contest) (con : Contest) :
    maxNeeded (done ++ [con]) = max (maxNeeded done) (needed con) := by
  unfold maxNeeded; rw [List.foldl_append]; rfl

theorem foldl_max_ge : ∀ (cons : List Contest) (m : Nat),
    m ≤ cons.foldl (fun m con => max m (needed con)) m ∧
    ∀ con ∈ cons, needed con ≤ cons.foldl (fun m con => max m (needed con)) m := by
  intro cons
  induction cons with
  | nil => intro m; simp
  | cons x xs ih =>
    intro m
    rw [List.foldl_cons]
    obtain ⟨h1, h2⟩ := ih (max m (needed x))
    refine ⟨by omega, ?_⟩
    intro con hm
    rw [List.mem_cons] at hm
    rcases hm with rfl | hm
    · omega
    · exact h2 con hm

theorem needed_le_maxNeeded (cons : List Contest) (con : Contest) (hm : con ∈ cons) :
    needed con ≤ maxNeeded cons := (foldl_max_ge cons 0).2 con hm

/-- one iteration of the style loop keeps the list in closed form -/
theorem styleStep_closed (pfx : String) (done : List Contest) (con : Contest)
    (hnew : con.id ∉ done.map (·.id)) :
    styleStep pfx (closed pfx done) con = closed pfx (done ++ [con]) := by
  unfold styleStep
  show markFirst con.id (needed con) (grow pfx (needed con - (closed pfx done).length) (closed pfx done)) = _
  have hlen : (closed pfx done).length = maxNeeded done := by simp [closed]
  rw [grow_eq, hlen]
  -- the grown list is again a map over a range
  have hgrown : closed pfx done ++ (List.range' (maxNeeded done) (needed con - maxNeeded done)).map (mkPhantom pfx)
      = (List.range' 0 (max (maxNeeded done) (needed con))).map (phantomAt pfx done) := by
    have h1 : (List.range' (maxNeeded done) (needed con - maxNeeded done)).map (mkPhantom pfx)
        = (List.range' (maxNeeded done) (needed con - maxNeeded done)).map (phantomAt pfx done) := by
      apply List.map_congr_left
      intro k hk
      rw [List.mem_range'_1] at hk
      unfold mkPhantom phantomAt
      congr 1
      symm
      rw [List.map_eq_nil_iff, List.filter_eq_nil_iff]
      intro c hc
      have := needed_le_maxNeeded done c hc
      simp only [decide_eq_true_eq]; omega
    have h2 : maxNeeded done + (needed con - maxNeeded done) = max (maxNeeded done) (needed con) := by omega
    unfold closed
    rw [h1, ← List.map_append]
    have := @List.range'_append_1 0 (maxNeeded done) (needed con - maxNeeded done)
    rw [Nat.zero_add] at this
    rw [this, h2]
  rw [hgrown, markFirst_map_range', closed, maxNeeded_append]
  apply List.map_congr_left
  intro k _
  unfold phantomAt listContest
  have hnot : ((done.filter (fun c => decide (k < needed c))).map (·.id)).contains con.id = false := by
    rw [List.contains_eq_mem, decide_eq_false_iff_not]
    intro hm
    rw [List.mem_map] at hm
    obtain ⟨c, hc, he⟩ := hm
    exact hnew (List.mem_map.2 ⟨c, (List.mem_filter.1 hc).1, he⟩)
  simp only [Nat.zero_add, List.filter_append, List.map_append]
  by_cases hk : k < needed con
  · rw [if_pos hk]
    simp only [hnot, Bool.false_eq_true, if_false, hk, decide_true, List.filter_cons, List.filter_nil, if_true,
      List.map_cons, List.map_nil]
  · rw [if_neg hk]
    simp [hk]

theorem foldl_styleStep_closed (pfx : String) : ∀ (rest done : List Contest),
    ((done ++ rest).map (·.id)).Nodup →
    rest.foldl (styleStep pfx) (closed pfx done) = closed pfx (done ++ rest) := by
  intro rest
  induction rest with
  | nil => intro done _; simp
  | cons con rest ih =>
    intro done hnd
    have hnd' : (((done ++ [con]) ++ rest).map (·.id)).Nodup := by simpa using hnd
    have hnew : con.id ∉ done.map (·.id) := by
      rw [List.map_append, List.nodup_append] at hnd
      intro hm
      exact hnd.2.2 _ hm con.id (by simp) rfl
    rw [List.foldl_cons, styleStep_closed pfx done con hnew, ih (done ++ [con]) hnd']
    simp

/-- the style branch in closed form -/
theorem style_phantoms (pfx : String) (cons : List Contest) (hid : (cons.map (·.id)).Nodup) :
    cons.foldl (styleStep pfx) [] = closed pfx cons := by
  have h0 : closed pfx [] = [] := by simp [closed, maxNeeded]
  have := foldl_styleStep_closed pfx cons [] (by simpa using hid)
  rw [h0] at this
  simpa using this

theorem count_lt_range' : ∀ (M n : Nat), ((List.range' 0 M).filter (fun k => decide (k < n))).length = min M n := by
  intro M
  induction M with
  | zero => intro n; simp
  | succ M ih =>
    intro n
    rw [List.range'_concat, List.filter_append, List.length_append, ih]
    by_cases h : M < n
    · simp [h]; omega
    · simp [h]; omega

/-- number of phantoms of the closed form that list contest `con` -/
theorem count_closed (pfx : String) (cons : List Contest) (hid : (cons.map (·.id)).Nodup) (con : Contest)
    (hm : con ∈ cons) : ((closed pfx cons).filter (fun r => r.has con.id)).length = needed con := by
  unfold closed
  rw [List.filter_map, List.length_map]
  have : (List.range' 0 (maxNeeded cons)).filter ((fun r : Rec => r.has con.id) ∘ phantomAt pfx cons)
      = (List.range' 0 (maxNeeded cons)).filter (fun k => decide (k < needed con)) := by
    apply List.filter_congr
    intro k _
    simp only [Function.comp, Rec.has, phantomAt]
    rw [Bool.eq_iff_iff, List.contains_iff_mem, List.mem_map, decide_eq_true_eq]
    constructor
    · rintro ⟨c, hc, he⟩
      rw [List.mem_filter] at hc
      have := id_inj_of_nodup hid c hc.1 con hm he
      subst this
      simpa using hc.2
    · intro hk
      exact ⟨con, List.mem_filter.2 ⟨hm, by simpa using hk⟩, rfl⟩
  rw [this, count_lt_range']
  have := needed_le_maxNeeded cons con hm
  omega

/-- a phantom of the closed form lists only audited contests -/
theorem closed_styles (pfx : String) (cons : List Contest) (r : Rec) (hr : r ∈ closed pfx cons) :
    r.phantom = true ∧ ∀ c ∈ r.styles, c ∈ cons.map (·.id) := by
  unfold closed at hr
  rw [List.mem_map] at hr
  obtain ⟨k, _, rfl⟩ := hr
  refine ⟨rfl, ?_⟩
  intro c hc
  simp only [phantomAt, List.mem_map] at hc ⊢
  obtain ⟨con, hcon, he⟩ := hc
  exact ⟨con, (List.mem_filter.1 hcon).1, he⟩

theorem ids_nodup (pfx : String) (f : Nat → Rec) (hf : ∀ k, (f k).id = pfx ++ toString (k + 1)) (s N : Nat) :
    (((List.range' s N).map f).map (·.id)).Nodup := by
  rw [List.map_map]
  refine List.Pairwise.map _ (fun a b hab => ?_) (List.nodup_range' (s := s) (n := N))
  simp only [Function.comp, hf]
  intro h
  rw [String.append_right_inj] at h
  have : Nat.repr (a + 1) = Nat.repr (b + 1) := h
  rw [Nat.repr_inj] at this
  omega

end Shangrla.Phantoms
