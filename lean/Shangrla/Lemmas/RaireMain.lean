/-
  From the loop invariants to the result of `computeRaireAssertions`: the initial frontier establishes
  the invariant, at exit every frontier node carries an assertion, and de-duplication / sorting /
  subsumption keep truth and sufficiency.  Core Lean only.
-/
import Shangrla.Lemmas.RaireLoop
import Shangrla.Lemmas.RairePost

namespace Shangrla.Raire
open Spec

set_option linter.unusedSectionVars false
set_option linter.unusedVariables false

section Main
variable {α : Type} [DecidableEq α] {D : Type} [DiffOrd D] [DiffOrd.Lawful D]
variable (asn : Nat → Nat → Nat → Nat → D) (C : Contest α) (cvrs : List (Option (Ballot α))) (winner : α)

/-! ### the initial frontier -/

/-- a tail `[d, c]` of the initial frontier -/
def InitTail (t : List α) : Prop :=
  ∃ d c, t = [d, c] ∧ c ≠ winner ∧ d ≠ c ∧ d ∈ C.candidates ∧ c ∈ C.candidates

theorem mem_initTails (t : List α) : t ∈ initTails C winner ↔ InitTail C winner t := by
  unfold initTails InitTail
  simp only [List.mem_flatMap]
  constructor
  · rintro ⟨c, hc, h⟩
    split at h
    · cases h
    · rename_i hcw
      simp only [List.mem_filterMap] at h
      obtain ⟨d, hd, h⟩ := h
      split at h
      · cases h
      · rename_i hcd
        simp only [Option.some.injEq] at h
        exact ⟨d, c, h.symm, hcw, fun h => hcd h.symm, hd, hc⟩
  · rintro ⟨d, c, rfl, hcw, hdc, hd, hc⟩
    refine ⟨c, hc, ?_⟩
    rw [if_neg hcw]
    simp only [List.mem_filterMap]
    exact ⟨d, hd, by rw [if_neg (fun h => hdc h.symm)]⟩

theorem initLoop_spec (hC : C.candidates.Nodup) (hn : 2 ≤ C.candidates.length) :
    ∀ (ts : List (List α)) (st : St α D) (r : Option (St α D)),
    initLoop asn C (cvrs.filterMap id) (nebTable asn C cvrs) ts st = r →
    (∀ t ∈ ts, InitTail C winner t) → StoreOK asn C cvrs winner st.store → FInv asn C cvrs winner st →
    match r with
    | none => BadLeaf asn C cvrs winner
    | some st' =>
      StoreOK asn C cvrs winner st'.store ∧ FInv asn C cvrs winner st' ∧ st'.lb = st.lb ∧
      (∀ π, SC st π → SC st' π) ∧ (∀ t ∈ ts, ∀ π, t <:+ π → SC st' π) ∧
      Phi C st' ≤ Phi C st + ts.length * W C.candidates.length (C.candidates.length - 2) := by
  intro ts
  induction ts with
  | nil =>
    intro st r h _ hok hF
    simp only [initLoop] at h
    subst h
    exact ⟨hok, hF, rfl, fun _ h => h, by simp, by simp⟩
  | cons t ts ih =>
    intro st r h hts hok hF
    rw [initLoop] at h
    simp only at h
    by_cases hcond : (!decide (C.candidates.length > 2) &&
        (findBestAudit asn C (cvrs.filterMap id) (nebTable asn C cvrs) t).fst.isNone) = true
    · rw [if_pos hcond] at h
      subst h
      simp only [Bool.and_eq_true, Bool.not_eq_true', decide_eq_false_iff_not, Option.isNone_iff_eq_none] at hcond
      obtain ⟨hlen2, hbest⟩ := hcond
      obtain ⟨d, c, rfl, hcw, hdc, hd, hc⟩ := hts _ List.mem_cons_self
      -- the node that was not inserted, put into a store of its own
      let newn : Node α D := Node.mk [d, c] none none false Diff.inf [] false
      have hnew : Store.get ((#[] : Store α D).push newn) 0 = newn := Store.get_push_eq _ _
      have hnok : NodeOK asn C cvrs winner ((#[] : Store α D).push newn) 0 := by
        refine ⟨?_, ?_, ?_, ?_, ?_, ?_, ?_, ?_, ?_, ?_⟩
        · rw [hnew]; simp [newn, hdc]
        · rw [hnew]; intro y hy; simp only [newn, List.mem_cons, List.not_mem_nil, or_false] at hy
          rcases hy with rfl | rfl <;> assumption
        · rw [hnew]; simp [newn]
        · rw [hnew]; exact ⟨[d], c, rfl, hcw⟩
        · rw [hnew]; exact hbest.symm
        · rw [hnew]
          show Diff.inf = (findBestAudit asn C (cvrs.filterMap id) (nebTable asn C cvrs) [d, c]).2
          rw [fba_estimate, hbest]
        · rw [hnew]; intro h; cases h
        · rw [hnew]; intro j hj; cases hj
        · rw [hnew]; intro j hj; cases hj
        · rw [hnew]; intro _; rfl
      refine leaf_bad asn C cvrs winner hC hnok ?_ (by rw [hnew]) ?_
      · rw [hnew]; show 2 = C.candidates.length; omega
      · rw [hnew]; intro j hj; cases hj
    · rw [if_neg hcond] at h
      generalize hnewn : (Node.mk t (findBestAudit asn C (cvrs.filterMap id) (nebTable asn C cvrs) t).fst
          none (decide (C.candidates.length > 2))
          (findBestAudit asn C (cvrs.filterMap id) (nebTable asn C cvrs) t).snd [] false : Node α D) = newn at h
      obtain ⟨d, c, rfl, hcw, hdc, hd, hc⟩ := hts _ List.mem_cons_self
      have g1 : newn.tail = [d, c] := by rw [← hnewn]
      have g2 : newn.best = (findBestAudit asn C (cvrs.filterMap id) (nebTable asn C cvrs) [d, c]).fst := by rw [← hnewn]
      have g3 : newn.bestAnc = none := by rw [← hnewn]
      have g4 : newn.expandable = decide (C.candidates.length > 2) := by rw [← hnewn]
      have g5 : newn.estimate = (findBestAudit asn C (cvrs.filterMap id) (nebTable asn C cvrs) [d, c]).snd := by rw [← hnewn]
      have g6 : newn.explored = [] := by rw [← hnewn]
      have hsz : (st.store.push newn).size = st.store.size + 1 := Array.size_push _
      have hold : ∀ k, k < st.store.size → Store.get (st.store.push newn) k = st.store.get k :=
        fun k hk => Store.get_push_lt _ _ hk
      have hnew : Store.get (st.store.push newn) st.store.size = newn := Store.get_push_eq _ _
      have hok1 : StoreOK asn C cvrs winner (st.store.push newn) := by
        intro k hk
        rw [hsz] at hk
        by_cases hk' : k < st.store.size
        · exact hok.ext asn C cvrs winner (ext_push _ _) k hk'
        · have : k = st.store.size := by omega
          subst this
          refine ⟨?_, ?_, ?_, ?_, ?_, ?_, ?_, ?_, ?_, ?_⟩
          · rw [hnew, g1]; simp [hdc]
          · rw [hnew, g1]; intro y hy; simp only [List.mem_cons, List.not_mem_nil, or_false] at hy
            rcases hy with rfl | rfl <;> assumption
          · rw [hnew, g1]; simp
          · rw [hnew, g1]; exact ⟨[d], c, rfl, hcw⟩
          · rw [hnew, g1, g2]; rfl
          · rw [hnew, g1, g5]; rfl
          · rw [hnew, g1, g4]; intro h; simp only [decide_eq_true_eq] at h; simpa using h
          · rw [hnew, g3]; intro j hj; cases hj
          · rw [hnew, g3]; intro j hj; cases hj
          · rw [hnew, g1]; intro _; rfl
      have hF1 : FInv asn C cvrs winner ({ st with store := st.store.push newn } : St α D) :=
        hF.congr rfl (by show st.store.size ≤ (st.store.push newn).size; omega)
          (fun k hk => by
            show (Store.get (st.store.push newn) k).estimate = _ ∧ (Store.get (st.store.push newn) k).expandable = _
            rw [hold k (hF.inRange k hk)]; exact ⟨rfl, rfl⟩) rfl
      have hidlt : st.store.size < (st.store.push newn).size := by omega
      have hfin : (Store.get (st.store.push newn) st.store.size).expandable = false →
          (Store.get (st.store.push newn) st.store.size).estimate ≠ Diff.inf ∧
          LeOPT asn C cvrs winner (Store.get (st.store.push newn) st.store.size).estimate := by
        intro hexp
        have hnk := hok1 st.store.size hidlt
        refine ⟨?_, leaf_leOPT_root asn C cvrs winner hC hnk ?_ (by rw [hnew]; exact g3)⟩
        · rw [hnew] at hexp ⊢
          intro hinf
          apply hcond
          rw [g4] at hexp
          rw [hexp]
          simp only [Bool.not_false, Bool.true_and]
          rw [g5, fba_estimate] at hinf
          cases hb : (findBestAudit asn C (cvrs.filterMap id) (nebTable asn C cvrs) [d, c]).1 with
          | none => rfl
          | some a => rw [hb] at hinf; cases hinf
        · rw [hnew] at hexp ⊢
          rw [g4] at hexp
          simp only [decide_eq_false_iff_not] at hexp
          rw [g1]; show 2 = C.candidates.length; omega
      have hF2 := hF1.insertNode st.store.size hidlt hfin
      have hrec := ih _ r h (fun t ht => hts t (List.mem_cons_of_mem _ ht)) hok1 hF2
      cases r with
      | none => exact hrec
      | some st' =>
      obtain ⟨i1, i2, i3, i4, i5, i6⟩ := hrec
      refine ⟨i1, i2, i3, ?_, ?_, ?_⟩
      rotate_left 2
      · have h1 : Phi C (St.mk (st.store.push newn) st.fr st.lb) ≤ Phi C st := by
          refine Phi_le_of C (st := st) (st' := St.mk (st.store.push newn) st.fr st.lb) rfl ?_
          intro k hk
          show wt _ (Store.get (st.store.push newn) k) st.lb ≤ _
          rw [hold k (hF.inRange k hk)]
          exact Nat.le_refl _
        have h3 := Phi_insert C (St.mk (st.store.push newn) st.fr st.lb) st.store.size
        have h4 : wt C.candidates.length (Store.get (st.store.push newn) st.store.size) st.lb ≤
            W C.candidates.length (C.candidates.length - 2) := by
          have := wt_le_W C.candidates.length (Store.get (st.store.push newn) st.store.size) st.lb
            (by rw [hnew, g1]; exact hn)
          rw [hnew, g1] at this
          rw [hnew]; exact this
        have i6' : Phi C st' ≤ Phi C (St.mk (st.store.push newn)
            (insertNode (st.store.push newn) st.fr st.store.size) st.lb) +
            ts.length * W C.candidates.length (C.candidates.length - 2) := i6
        simp only at h1 h3 h4
        rw [h3] at i6'
        simp only [List.length_cons, Nat.succ_mul]
        omega
      · intro π hsc
        apply i4
        exact hsc.mono (fun x hx => ⟨(mem_insertNode _ _ _ _).2 (Or.inr hx), by
          show (Store.get (st.store.push newn) x).tail = _ ∧ (Store.get (st.store.push newn) x).estimate = _ ∧
            (Store.get (st.store.push newn) x).explored = _
          rw [hold x (hF.inRange x hx)]; exact ⟨rfl, rfl, rfl⟩⟩) (LB.le_refl _)
      · intro t ht π hπ
        simp only [List.mem_cons] at ht
        rcases ht with rfl | ht
        · apply i4
          refine ⟨st.store.size, (mem_insertNode _ _ _ _).2 (Or.inl rfl), ?_, Or.inr ?_⟩
          · show (Store.get (st.store.push newn) st.store.size).tail <:+ π
            rw [hnew, g1]; exact hπ
          · show ∀ c' ∈ (Store.get (st.store.push newn) st.store.size).explored, _
            rw [hnew, g6]; simp
        · exact i5 t ht π hπ

/-- every alternative order ends in one of the initial tails -/
theorem alt_initTail (hC : C.candidates.Nodup) (hn : 2 ≤ C.candidates.length) {π : List α}
    (hπ : Alt C.candidates winner π) : ∃ t, InitTail C winner t ∧ t <:+ π := by
  obtain ⟨hperm, pre, c, rfl, hcw⟩ := hπ
  have hnd : (pre ++ [c]).Nodup := hperm.nodup_iff.2 hC
  have hl := hperm.length_eq
  simp only [List.length_append, List.length_cons, List.length_nil] at hl
  have hne : pre ≠ [] := by
    intro h; subst h; simp at hl; omega
  obtain ⟨pre', d, rfl⟩ : ∃ pre' d, pre = pre' ++ [d] :=
    ⟨pre.dropLast, pre.getLast hne, (List.dropLast_concat_getLast hne).symm⟩
  refine ⟨[d, c], ⟨d, c, rfl, hcw, ?_, hperm.mem_iff.1 (by simp), hperm.mem_iff.1 (by simp)⟩, ⟨pre', by simp⟩⟩
  intro hdc
  subst hdc
  exact (List.nodup_append.1 hnd).2.2 d (by simp) d (by simp) rfl

/-- a number of iterations of the main loop that always suffices (the initial value of the measure) -/
def raireFuel : Nat :=
  (initTails C winner).length * W C.candidates.length (C.candidates.length - 2) + 1

theorem init_inv (hC : C.candidates.Nodup) (hn : 2 ≤ C.candidates.length) :
    match initLoop asn C (cvrs.filterMap id) (nebTable asn C cvrs) (initTails C winner) ⟨#[], [], none⟩ with
    | none => BadLeaf asn C cvrs winner
    | some st0 => Inv asn C cvrs winner st0 ∧ st0.lb = none ∧ Phi C st0 < raireFuel C winner := by
  have hok0 : StoreOK asn C cvrs winner (#[] : Store α D) := fun id hid => by simp at hid
  have hF0 : FInv asn C cvrs winner (⟨#[], [], none⟩ : St α D) :=
    ⟨by simp, by simp, List.Pairwise.nil, (by intro h; cases h), (by intro x hx; cases hx), by simp,
     List.Pairwise.nil⟩
  have := initLoop_spec asn C cvrs winner hC hn _ _ _ rfl
    (fun t ht => (mem_initTails C winner t).1 ht) hok0 hF0
  cases hi : initLoop asn C (cvrs.filterMap id) (nebTable asn C cvrs) (initTails C winner) ⟨#[], [], none⟩ with
  | none => rw [hi] at this; exact this
  | some st0 =>
    rw [hi] at this
    obtain ⟨i1, i2, i3, _, i5, i6⟩ := this
    refine ⟨⟨i1, i2, ?_⟩, i3, ?_⟩
    · intro π hπ
      obtain ⟨t, ht, hsuf⟩ := alt_initTail C winner hC hn hπ
      exact i5 t ((mem_initTails C winner t).2 ht) π hsuf
    · have : Phi C (⟨#[], [], none⟩ : St α D) = 0 := rfl
      rw [this] at i6
      unfold raireFuel
      omega

/-! ### at exit every frontier node carries an assertion -/

/-- what FBA-sound gives for a frontier node with a finite estimate -/
theorem node_assertion (hC : C.candidates.Nodup) {s : Store α D} {i : Nat}
    (hok : NodeOK asn C cvrs winner s i) (hfin : (s.get i).estimate ≠ Diff.inf) :
    ∃ a, (s.get i).best = some a ∧ Fam asn C cvrs a ∧ (s.get i).estimate = Diff.fin a.difficulty ∧
      CoversTail C.candidates a (s.get i).tail ∧
      (a.kind = .neb → a.rulesOut = []) ∧ (a.kind = .nen → a.rulesOut = [(s.get i).tail]) := by
  have hb := hok.best
  have he := hok.est
  unfold fbaOf at hb he
  cases hba : (findBestAudit asn C (cvrs.filterMap id) (nebTable asn C cvrs) (s.get i).tail).1 with
  | none =>
    rw [fba_estimate, hba] at he
    exact absurd he hfin
  | some a =>
    obtain ⟨h1, h2, h3, first, rest, h4, h5⟩ := fba_sound asn C hC cvrs (s.get i).tail hok.nodup hok.sub a hba
    refine ⟨a, by rw [hb, hba], h1, by rw [he, h2], h3, ?_, ?_⟩
    · intro hk
      rcases h5 with ⟨_, h, _⟩ | ⟨hk', _⟩
      · exact h
      · rw [hk] at hk'; cases hk'
    · intro hk
      rcases h5 with ⟨hk', _⟩ | ⟨_, h, _⟩
      · rw [hk] at hk'; cases hk'
      · rw [h, h4]

theorem fam_good {a : Assertion α D} (h : Fam asn C cvrs a) : Good C.candidates a := ⟨h.1, h.2.1, h.2.2.1⟩

theorem fam_of_core {a b : Assertion α D} (hc : core a = core b) (h : Fam asn C cvrs b) : Fam asn C cvrs a := by
  obtain ⟨c1, c2, c3, c4, c5, c6, c7⟩ := core_fields hc
  unfold Fam holds at h ⊢
  rw [c1, c2, c3, c4, c5, c6, c7]; exact h

/-- the de-duplication loop over a frontier all of whose nodes carry an assertion -/
theorem dedupe_spec (hC : C.candidates.Nodup) (s : Store α D) : ∀ (ids : List Nat) (acc L : List (Assertion α D))
    (T : List α → Prop),
    dedupe s ids acc = Res.ok L → PostInv C.candidates acc T →
    (∀ id ∈ ids, NodeOK asn C cvrs winner s id ∧ (s.get id).estimate ≠ Diff.inf) →
    (∀ y ∈ acc, Fam asn C cvrs y) →
    PostInv C.candidates L (fun u => T u ∨ ∃ id ∈ ids, u = (s.get id).tail) ∧
    (∀ y ∈ L, Fam asn C cvrs y) ∧
    (∀ y ∈ L, (∃ z ∈ acc, core y = core z) ∨ ∃ id ∈ ids, ∃ a, (s.get id).best = some a ∧ core y = core a) := by
  intro ids
  induction ids with
  | nil =>
    intro acc L T h hP _ hfam
    simp only [dedupe, Res.ok.injEq] at h
    subst h
    refine ⟨⟨hP.good, hP.ro, fun t ht => ?_⟩, hfam, fun y hy => Or.inl ⟨y, hy, rfl⟩⟩
    rcases ht with ht | ⟨id, hid, _⟩
    · exact hP.need t ht
    · cases hid
  | cons id ids ih =>
    intro acc L T h hP hids hfam
    obtain ⟨hnok, hfin⟩ := hids id List.mem_cons_self
    obtain ⟨a, ha, hafam, _, hcov, hneb, hnen⟩ := node_assertion asn C cvrs winner hC hnok hfin
    rw [dedupe, ha] at h
    simp only at h
    have hro : ∀ r ∈ a.rulesOut, CoversTail C.candidates a r := by
      intro r hr
      cases hk : a.kind with
      | neb => rw [hneb hk] at hr; cases hr
      | nen => rw [hnen hk] at hr; simp only [List.mem_singleton] at hr; rw [hr]; exact hcov
    have hP' := hP.dedupeInsert a (s.get id).tail (fam_good asn C cvrs hafam) hro hcov
      (fun hk => by rw [hnen hk]; simp)
    have hfam' : ∀ y ∈ dedupeInsert a acc, Fam asn C cvrs y := by
      intro y hy
      rcases dedupeInsert_core a acc y hy with hc | ⟨z, hz, hc⟩
      · exact fam_of_core asn C cvrs hc hafam
      · exact fam_of_core asn C cvrs hc (hfam z hz)
    obtain ⟨j1, j2, j3⟩ := ih _ L _ h hP' (fun i hi => hids i (List.mem_cons_of_mem _ hi)) hfam'
    refine ⟨⟨j1.good, j1.ro, ?_⟩, j2, ?_⟩
    · intro t ht
      apply j1.need
      rcases ht with ht | ⟨i, hi, rfl⟩
      · exact Or.inl (Or.inl ht)
      · simp only [List.mem_cons] at hi
        rcases hi with rfl | hi
        · exact Or.inl (Or.inr rfl)
        · exact Or.inr ⟨i, hi, rfl⟩
    · intro y hy
      rcases j3 y hy with ⟨z, hz, hc⟩ | ⟨i, hi, b, hb, hc⟩
      · rcases dedupeInsert_core a acc z hz with hc' | ⟨z', hz', hc'⟩
        · exact Or.inr ⟨id, List.mem_cons_self, a, ha, hc.trans hc'⟩
        · exact Or.inl ⟨z', hz', hc.trans hc'⟩
      · exact Or.inr ⟨i, List.mem_cons_of_mem _ hi, b, hb, hc⟩

/-- if the largest estimate on the frontier is finite, every estimate on it is -/
theorem maxEst_fin (s : Store α D) (te : Nat) (rest : List Nat) (h : maxEst s te rest ≠ Diff.inf) :
    ∀ id ∈ te :: rest, (s.get id).estimate ≠ Diff.inf := by
  unfold maxEst at h
  have key : ∀ (l : List Nat) (m : Diff D),
      l.foldl (fun m i => if Diff.lt m (s.get i).estimate then (s.get i).estimate else m) m ≠ Diff.inf →
      m ≠ Diff.inf ∧ ∀ id ∈ l, (s.get id).estimate ≠ Diff.inf := by
    intro l
    induction l with
    | nil => intro m hm; exact ⟨hm, fun _ h => nomatch h⟩
    | cons i l ih =>
      intro m hm
      rw [List.foldl_cons] at hm
      obtain ⟨h1, h2⟩ := ih _ hm
      cases hmi : m with
      | inf =>
        exfalso
        rw [hmi] at h1
        simp [Diff.lt] at h1
      | fin d =>
        refine ⟨(fun hh => nomatch hh), ?_⟩
        intro id hid
        simp only [List.mem_cons] at hid
        rcases hid with rfl | hid
        · intro hinf
          rw [hmi, hinf] at h1
          simp [Diff.lt] at h1
        · exact h2 id hid
  obtain ⟨h1, h2⟩ := key rest _ h
  intro id hid
  simp only [List.mem_cons] at hid
  rcases hid with rfl | hid
  · exact h1
  · exact h2 id hid

theorem exit_all_finite {st : St α D} (h : ExitState asn C cvrs winner st) :
    ∀ id ∈ st.fr, (st.store.get id).estimate ≠ Diff.inf := by
  obtain ⟨hI, te, rest, hfr, hne⟩ := h
  have hte : (st.store.get te).estimate ≠ Diff.inf := by
    intro hinf
    have := hI.fr.infExp te (by rw [hfr]; exact List.mem_cons_self) hinf
    rw [this] at hne; cases hne
  intro id hid
  rw [hfr] at hid
  simp only [List.mem_cons] at hid
  rcases hid with rfl | hid
  · exact hte
  · intro hinf
    have hp := hI.fr.infPre
    rw [hfr] at hp
    exact hte ((List.pairwise_cons.1 hp).1 id hid hinf)

/-- an `agap` test that is false when the largest estimate on the frontier is `inf` (`inf - lowerbound` is
`inf` or `nan`, never `<= agap` for a finite `agap`) -/
def GapOK (gap : Diff D → Diff D → Bool) : Prop := ∀ l, gap Diff.inf l = false

theorem gapOK_noGap : GapOK (noGap : Diff D → Diff D → Bool) := fun _ => rfl

/-- at either exit every node of the frontier has a finite estimate (hence carries an assertion) -/
theorem exitG_all_finite {gap : Diff D → Diff D → Bool} (hgap : GapOK gap) {st : St α D}
    (h : ExitG asn C cvrs winner gap st) :
    ∀ id ∈ st.fr, (st.store.get id).estimate ≠ Diff.inf := by
  obtain ⟨hI, te, rest, hfr, hne | hg⟩ := h
  · exact exit_all_finite asn C cvrs winner ⟨hI, te, rest, hfr, hne⟩
  · rw [hfr]
    apply maxEst_fin
    intro hinf
    rw [hinf] at hg
    cases hlb : st.lb with
    | none => rw [hlb] at hg; simp [gapExit] at hg
    | some l => rw [hlb] at hg; simp only [gapExit] at hg; rw [hgap l] at hg; cases hg

/-- the post-processing of an exit state yields true assertions that exclude every alternative winner,
each of them (up to `rules_out`) the assertion of a frontier node -/
theorem post_spec (hC : C.candidates.Nodup) {st : St α D} (hI : Inv asn C cvrs winner st)
    (hfin : ∀ id ∈ st.fr, (st.store.get id).estimate ≠ Diff.inf)
    {L : List (Assertion α D)} (hd : dedupe st.store st.fr [] = Res.ok L) :
    (∀ a ∈ subsumePass (sortAssertions L), Fam asn C cvrs a) ∧
    Sufficient C.candidates winner (subsumePass (sortAssertions L)) ∧
    (∀ a ∈ subsumePass (sortAssertions L), ∃ id ∈ st.fr, ∃ b, (st.store.get id).best = some b ∧ core a = core b) := by
  have hP0 : PostInv C.candidates ([] : List (Assertion α D)) (fun _ => False) :=
    ⟨by simp, by simp, fun _ h => h.elim⟩
  obtain ⟨d1, d2, d3⟩ := dedupe_spec asn C cvrs winner hC st.store st.fr [] L _ hd hP0
    (fun id hid => ⟨hI.ok id (hI.fr.inRange id hid), hfin id hid⟩) (by simp)
  have hsort : PostInv C.candidates (sortAssertions L) _ :=
    d1.of_mem_iff (fun x => (sortAssertions_perm L).mem_iff)
  have hsub := hsort.subsumePass
  have hcore : ∀ a ∈ subsumePass (sortAssertions L), ∃ z ∈ L, core a = core z := by
    intro a ha
    obtain ⟨z, hz, hc⟩ := subsumePass_core _ a ha
    exact ⟨z, (sortAssertions_perm L).mem_iff.1 hz, hc⟩
  refine ⟨?_, ?_, ?_⟩
  · intro a ha
    obtain ⟨z, hz, hc⟩ := hcore a ha
    exact fam_of_core asn C cvrs hc (d2 z hz)
  · intro π hπ
    obtain ⟨id, hid, hsuf, _⟩ := hI.cover π hπ
    obtain ⟨x, hx, hcov, _⟩ := hsub.need (st.store.get id).tail (Or.inr ⟨id, hid, rfl⟩)
    exact ⟨x, hx, hcov π hπ.1 hsuf⟩
  · intro a ha
    obtain ⟨z, hz, hc⟩ := hcore a ha
    rcases d3 z hz with ⟨z', hz', _⟩ | ⟨id, hid, b, hb, hc'⟩
    · cases hz'
    · exact ⟨id, hid, b, hb, hc.trans hc'⟩

/-- the ways `computeRaireAssertionsG` can return a list -/
theorem computeG_cases {gap : Diff D → Diff D → Bool} {fuel : Nat} {as : List (Assertion α D)}
    (h : computeRaireAssertionsG gap asn C cvrs winner fuel = Res.ok as) :
    (as = [] ∧ initLoop asn C (cvrs.filterMap id) (nebTable asn C cvrs) (initTails C winner) ⟨#[], [], none⟩ = none) ∨
    (∃ st0, initLoop asn C (cvrs.filterMap id) (nebTable asn C cvrs) (initTails C winner) ⟨#[], [], none⟩ = some st0 ∧
      ((as = [] ∧ mainLoopG gap asn C (cvrs.filterMap id) (nebTable asn C cvrs) fuel st0 = Res.ok none) ∨
       ∃ st L, mainLoopG gap asn C (cvrs.filterMap id) (nebTable asn C cvrs) fuel st0 = Res.ok (some st) ∧
         dedupe st.store st.fr [] = Res.ok L ∧ as = subsumePass (sortAssertions L))) := by
  unfold computeRaireAssertionsG at h
  simp only at h
  split at h
  · rename_i hi
    left; cases h; exact ⟨rfl, hi⟩
  · rename_i st0 hi
    right
    refine ⟨st0, hi, ?_⟩
    split at h
    · cases h
    · cases h
    · rename_i hm
      left; cases h; exact ⟨rfl, hm⟩
    · rename_i st hm
      right
      split at h
      · rename_i L hd
        cases h
        exact ⟨st, L, hm, hd, rfl⟩
      · cases h
      · cases h

/-- the ways `computeRaireAssertions` can return a list -/
theorem compute_cases {fuel : Nat} {as : List (Assertion α D)}
    (h : computeRaireAssertions asn C cvrs winner fuel = Res.ok as) :
    (as = [] ∧ initLoop asn C (cvrs.filterMap id) (nebTable asn C cvrs) (initTails C winner) ⟨#[], [], none⟩ = none) ∨
    (∃ st0, initLoop asn C (cvrs.filterMap id) (nebTable asn C cvrs) (initTails C winner) ⟨#[], [], none⟩ = some st0 ∧
      ((as = [] ∧ mainLoop asn C (cvrs.filterMap id) (nebTable asn C cvrs) fuel st0 = Res.ok none) ∨
       ∃ st L, mainLoop asn C (cvrs.filterMap id) (nebTable asn C cvrs) fuel st0 = Res.ok (some st) ∧
         dedupe st.store st.fr [] = Res.ok L ∧ as = subsumePass (sortAssertions L))) :=
  computeG_cases asn C cvrs winner h

/-- at exit the estimate of every frontier node is below the largest difficulty of every sufficient
set of true assertions (O2, O3 and O1 at the exit test) -/
theorem exit_all_leOPT {st : St α D} (h : ExitState asn C cvrs winner st) :
    ∀ i ∈ st.fr, LeOPT asn C cvrs winner (st.store.get i).estimate := by
  obtain ⟨hI, te, rest, hfr, hne⟩ := h
  have hte : LeOPT asn C cvrs winner (st.store.get te).estimate :=
    hI.fr.nonexpOpt te (by rw [hfr]; exact List.mem_cons_self) hne
  intro i hi
  cases hexp : (st.store.get i).expandable with
  | false => exact hI.fr.nonexpOpt i hi hexp
  | true =>
    rw [hfr] at hi
    simp only [List.mem_cons] at hi
    rcases hi with rfl | hi
    · rw [hexp] at hne; cases hne
    · have hp := hI.fr.sorted
      rw [hfr] at hp
      rcases (List.pairwise_cons.1 hp).1 i hi hexp with h' | h'
      · exact hte.mono asn C cvrs winner h'
      · exact hI.fr.leOPT_of_leLB h'

/-- **Main statement about the result, for every `agap` test.** An empty result comes with an alternative
order that no true assertion contradicts. A non-empty result consists of true assertions of the family and
excludes every alternative winner — whenever the gap exit fires. -/
theorem computeG_spec {gap : Diff D → Diff D → Bool} (hgap : GapOK gap)
    (hC : C.candidates.Nodup) (hn : 2 ≤ C.candidates.length) {fuel : Nat}
    {as : List (Assertion α D)} (h : computeRaireAssertionsG gap asn C cvrs winner fuel = Res.ok as) :
    (as = [] → BadLeaf asn C cvrs winner) ∧
    (as ≠ [] → (∀ a ∈ as, Fam asn C cvrs a) ∧ Sufficient C.candidates winner as) := by
  have hinit := init_inv asn C cvrs winner hC hn
  rcases computeG_cases asn C cvrs winner h with ⟨h1, hi⟩ | ⟨st0, hi, ⟨h1, hm⟩ | ⟨st, L, hm, hd, rfl⟩⟩
  · rw [hi] at hinit
    exact ⟨fun _ => hinit, fun hne => absurd h1 hne⟩
  · rw [hi] at hinit
    exact ⟨fun _ => (mainLoopG_spec asn C cvrs winner gap hC hn fuel st0 _ hm hinit.1).1, fun hne => absurd h1 hne⟩
  · rw [hi] at hinit
    have hE : ExitG asn C cvrs winner gap st := (mainLoopG_spec asn C cvrs winner gap hC hn fuel st0 _ hm hinit.1).1
    have hfin := exitG_all_finite asn C cvrs winner hgap hE
    obtain ⟨p1, p2, _⟩ := post_spec asn C cvrs winner hC hE.1 hfin hd
    refine ⟨fun h0 => ?_, fun _ => ⟨p1, p2⟩⟩
    exfalso
    obtain ⟨π, hπ⟩ := exists_alt C winner hC hn
    obtain ⟨a, ha, _⟩ := p2 π hπ
    rw [h0] at ha; cases ha

/-- **Main statement about the result.** An empty result comes with an alternative order that no true
assertion contradicts. A non-empty result consists of true assertions of the family, excludes every
alternative winner, and the difficulty of each returned assertion is below the largest difficulty of every
sufficient set of true assertions. -/
theorem compute_spec (hC : C.candidates.Nodup) (hn : 2 ≤ C.candidates.length) {fuel : Nat}
    {as : List (Assertion α D)} (h : computeRaireAssertions asn C cvrs winner fuel = Res.ok as) :
    (as = [] → BadLeaf asn C cvrs winner) ∧
    (as ≠ [] → (∀ a ∈ as, Fam asn C cvrs a) ∧ Sufficient C.candidates winner as ∧
      ∀ a ∈ as, LeOPT asn C cvrs winner (Diff.fin a.difficulty)) := by
  have hinit := init_inv asn C cvrs winner hC hn
  rcases compute_cases asn C cvrs winner h with ⟨h1, hi⟩ | ⟨st0, hi, ⟨h1, hm⟩ | ⟨st, L, hm, hd, rfl⟩⟩
  · rw [hi] at hinit
    exact ⟨fun _ => hinit, fun hne => absurd h1 hne⟩
  · rw [hi] at hinit
    exact ⟨fun _ => (mainLoop_spec asn C cvrs winner hC hn fuel st0 _ hm hinit.1).1, fun hne => absurd h1 hne⟩
  · rw [hi] at hinit
    have hE : ExitState asn C cvrs winner st := (mainLoop_spec asn C cvrs winner hC hn fuel st0 _ hm hinit.1).1
    have hopt := exit_all_leOPT asn C cvrs winner hE
    have hfin := exit_all_finite asn C cvrs winner hE
    obtain ⟨p1, p2, p3⟩ := post_spec asn C cvrs winner hC hE.1 hfin hd
    refine ⟨fun h0 => ?_, fun _ => ⟨p1, p2, ?_⟩⟩
    · exfalso
      obtain ⟨π, hπ⟩ := exists_alt C winner hC hn
      obtain ⟨a, ha, _⟩ := p2 π hπ
      rw [h0] at ha; cases ha
    · intro a ha
      obtain ⟨i, hi', b, hb, hc⟩ := p3 a ha
      obtain ⟨b', hb', _, hest, _⟩ := node_assertion asn C cvrs winner hC (hE.1.ok i (hE.1.fr.inRange i hi'))
        (hfin i hi')
      rw [hb] at hb'; cases hb'
      rw [(core_fields hc).2.2.2.2.2.2, ← hest]
      exact hopt i hi'

/-- every estimate on the frontier is at most the largest one -/
theorem le_maxEst (s : Store α D) (te : Nat) (rest : List Nat) :
    ∀ id ∈ te :: rest, Diff.le (s.get id).estimate (maxEst s te rest) = true := by
  unfold maxEst
  have key : ∀ (l : List Nat) (m : Diff D),
      Diff.le m (l.foldl (fun m i => if Diff.lt m (s.get i).estimate then (s.get i).estimate else m) m) = true ∧
      ∀ id ∈ l, Diff.le (s.get id).estimate
        (l.foldl (fun m i => if Diff.lt m (s.get i).estimate then (s.get i).estimate else m) m) = true := by
    intro l
    induction l with
    | nil => intro m; exact ⟨Diff.le_refl m, fun _ h => nomatch h⟩
    | cons i l ih =>
      intro m
      rw [List.foldl_cons]
      obtain ⟨h1, h2⟩ := ih (if Diff.lt m (s.get i).estimate then (s.get i).estimate else m)
      have hm : Diff.le m (if Diff.lt m (s.get i).estimate then (s.get i).estimate else m) = true ∧
          Diff.le (s.get i).estimate (if Diff.lt m (s.get i).estimate then (s.get i).estimate else m) = true := by
        cases hlt : Diff.lt m (s.get i).estimate with
        | true =>
          simp only [if_true]
          refine ⟨?_, Diff.le_refl _⟩
          have := (Diff.lt_iff_not_le m (s.get i).estimate).1 hlt
          rcases Diff.le_total m (s.get i).estimate with h | h
          · exact h
          · rw [this] at h; cases h
        | false =>
          simp only [Bool.false_eq_true, if_false]
          refine ⟨Diff.le_refl _, ?_⟩
          cases hle : Diff.le (s.get i).estimate m with
          | true => rfl
          | false =>
            have := (Diff.lt_iff_not_le m (s.get i).estimate).2 hle
            rw [this] at hlt; cases hlt
      refine ⟨Diff.le_trans hm.1 h1, ?_⟩
      intro id hid
      simp only [List.mem_cons] at hid
      rcases hid with rfl | hid
      · exact Diff.le_trans hm.2 h1
      · exact h2 id hid
  obtain ⟨h1, h2⟩ := key rest (s.get te).estimate
  intro id hid
  simp only [List.mem_cons] at hid
  rcases hid with rfl | hid
  · exact h1
  · exact h2 id hid

/-- **What optimality becomes with a positive allowed gap.** For a non-empty result: either the search ran to
its normal end and every returned difficulty is below the largest difficulty of every sufficient set of true
assertions (as for `agap = 0`), or the `agap` test was true of a pair `(mx, l)` where `mx` bounds every returned
difficulty from above and `l` is a lower bound of the largest difficulty of every sufficient set. With the
Python test `mx - l <= agap`: the result is within `agap` of the optimum. -/
theorem computeG_near_opt {gap : Diff D → Diff D → Bool} (hgap : GapOK gap)
    (hC : C.candidates.Nodup) (hn : 2 ≤ C.candidates.length) {fuel : Nat}
    {as : List (Assertion α D)} (h : computeRaireAssertionsG gap asn C cvrs winner fuel = Res.ok as)
    (hne : as ≠ []) :
    (∀ a ∈ as, LeOPT asn C cvrs winner (Diff.fin a.difficulty)) ∨
    ∃ mx l, gap mx l = true ∧ LeOPT asn C cvrs winner l ∧
      ∀ a ∈ as, Diff.le (Diff.fin a.difficulty) mx = true := by
  have hinit := init_inv asn C cvrs winner hC hn
  rcases computeG_cases asn C cvrs winner h with ⟨h1, _⟩ | ⟨st0, hi, ⟨h1, _⟩ | ⟨st, L, hm, hd, rfl⟩⟩
  · exact absurd h1 hne
  · exact absurd h1 hne
  · rw [hi] at hinit
    have hE : ExitG asn C cvrs winner gap st := (mainLoopG_spec asn C cvrs winner gap hC hn fuel st0 _ hm hinit.1).1
    have hfin := exitG_all_finite asn C cvrs winner hgap hE
    obtain ⟨_, _, p3⟩ := post_spec asn C cvrs winner hC hE.1 hfin hd
    have hdiff : ∀ a ∈ subsumePass (sortAssertions L), ∃ i ∈ st.fr,
        (st.store.get i).estimate = Diff.fin a.difficulty := by
      intro a ha
      obtain ⟨i, hi', b, hb, hc⟩ := p3 a ha
      obtain ⟨b', hb', _, hest, _⟩ := node_assertion asn C cvrs winner hC (hE.1.ok i (hE.1.fr.inRange i hi'))
        (hfin i hi')
      rw [hb] at hb'; cases hb'
      exact ⟨i, hi', by rw [(core_fields hc).2.2.2.2.2.2, ← hest]⟩
    obtain ⟨hI, te, rest, hfr, hne' | hg⟩ := hE
    · left
      have hopt := exit_all_leOPT asn C cvrs winner ⟨hI, te, rest, hfr, hne'⟩
      intro a ha
      obtain ⟨i, hi', he⟩ := hdiff a ha
      rw [← he]; exact hopt i hi'
    · right
      cases hlb : st.lb with
      | none => rw [hlb] at hg; simp [gapExit] at hg
      | some l =>
        rw [hlb] at hg
        refine ⟨maxEst st.store te rest, l, hg, hI.fr.lbOpt l hlb, ?_⟩
        intro a ha
        obtain ⟨i, hi', he⟩ := hdiff a ha
        rw [← he]
        exact le_maxEst st.store te rest i (by rw [← hfr]; exact hi')

/-- the de-duplication loop raises no AttributeError when every frontier node carries an assertion -/
theorem dedupe_ok (s : Store α D) : ∀ (ids : List Nat) (acc : List (Assertion α D)),
    (∀ i ∈ ids, (s.get i).best ≠ none) → ∃ L, dedupe s ids acc = Res.ok L := by
  intro ids
  induction ids with
  | nil => intro acc _; exact ⟨acc, rfl⟩
  | cons i ids ih =>
    intro acc h
    cases hb : (s.get i).best with
    | none => exact absurd hb (h i List.mem_cons_self)
    | some a =>
      rw [dedupe, hb]
      exact ih _ (fun j hj => h j (List.mem_cons_of_mem _ hj))

/-- **No exception**, for every `agap` test. The model never reaches one of its error exits: the frontier is
never empty when `max` / `nodes[0]` are evaluated (ValueError), `rem_cands[0]` exists in every dive
(IndexError), and every node of the final frontier carries an assertion (AttributeError). -/
theorem computeG_no_err {gap : Diff D → Diff D → Bool} (hgap : GapOK gap)
    (hC : C.candidates.Nodup) (hn : 2 ≤ C.candidates.length) (fuel : Nat) (e : Err) :
    computeRaireAssertionsG gap asn C cvrs winner fuel ≠ Res.err e := by
  intro h
  have hinit := init_inv asn C cvrs winner hC hn
  unfold computeRaireAssertionsG at h
  simp only at h
  split at h
  · cases h
  · rename_i st0 hi
    rw [hi] at hinit
    have hloop := (mainLoopG_spec asn C cvrs winner gap hC hn fuel st0 _ rfl hinit.1).1
    split at h
    · cases h
    · rename_i e' hm
      rw [hm] at hloop; exact hloop
    · cases h
    · rename_i st hm
      rw [hm] at hloop
      have hE : ExitG asn C cvrs winner gap st := hloop
      have hfin := exitG_all_finite asn C cvrs winner hgap hE
      obtain ⟨L, hL⟩ := dedupe_ok st.store st.fr [] (fun i hi' hb => by
        obtain ⟨a, ha, _⟩ := node_assertion asn C cvrs winner hC (hE.1.ok i (hE.1.fr.inRange i hi')) (hfin i hi')
        rw [ha] at hb; cases hb)
      rw [hL] at h
      cases h

theorem compute_no_err (hC : C.candidates.Nodup) (hn : 2 ≤ C.candidates.length) (fuel : Nat) (e : Err) :
    computeRaireAssertions asn C cvrs winner fuel ≠ Res.err e :=
  computeG_no_err asn C cvrs winner gapOK_noGap hC hn fuel e

/-- **Termination**, for every `agap` test. With at least `raireFuel` iterations allowed the model returns a
list: the search terminates (the measure `Phi` decreases in every iteration of the main loop, a dive takes at
most as many steps as there are candidates) and raises no exception. -/
theorem computeG_terminates {gap : Diff D → Diff D → Bool} (hgap : GapOK gap)
    (hC : C.candidates.Nodup) (hn : 2 ≤ C.candidates.length) (fuel : Nat)
    (hfuel : raireFuel C winner ≤ fuel) :
    ∃ as, computeRaireAssertionsG gap asn C cvrs winner fuel = Res.ok as := by
  cases hres : computeRaireAssertionsG gap asn C cvrs winner fuel with
  | ok as => exact ⟨as, rfl⟩
  | err e => exact absurd hres (computeG_no_err asn C cvrs winner hgap hC hn fuel e)
  | fuel =>
    exfalso
    have hinit := init_inv asn C cvrs winner hC hn
    unfold computeRaireAssertionsG at hres
    simp only at hres
    split at hres
    · cases hres
    · rename_i st0 hi
      rw [hi] at hinit
      obtain ⟨hloop, hlf⟩ := mainLoopG_spec asn C cvrs winner gap hC hn fuel st0 _ rfl hinit.1
      split at hres
      · rename_i hm
        have := hlf hm
        have := hinit.2.2
        omega
      · cases hres
      · cases hres
      · rename_i st hm
        rw [hm] at hloop
        have hE : ExitG asn C cvrs winner gap st := hloop
        have hfin := exitG_all_finite asn C cvrs winner hgap hE
        obtain ⟨L, hL⟩ := dedupe_ok st.store st.fr [] (fun i hi' hb => by
          obtain ⟨a, ha, _⟩ := node_assertion asn C cvrs winner hC (hE.1.ok i (hE.1.fr.inRange i hi')) (hfin i hi')
          rw [ha] at hb; cases hb)
        rw [hL] at hres
        cases hres

theorem compute_terminates (hC : C.candidates.Nodup) (hn : 2 ≤ C.candidates.length) (fuel : Nat)
    (hfuel : raireFuel C winner ≤ fuel) : ∃ as, computeRaireAssertions asn C cvrs winner fuel = Res.ok as :=
  computeG_terminates asn C cvrs winner gapOK_noGap hC hn fuel hfuel

end Main
end Shangrla.Raire
