/-
  Structural ("who looks at what") lemmas about the building blocks of the literal model of
  `NonnegMean.py`: lengths, behaviour under `++` and `List.take` of running sums, null means,
  Welford's recursion, indexed maps, the shift-by-one and cumulative products; the predicates
  `Causal` (entry `j` looks at observations `1..j`) and `StrictlyCausal` (entry `j` looks at
  observations `1..j-1` only) and their closure properties.

  Used by `Props/C05.lean` (non-anticipation).
-/
import Shangrla.Model.NonnegMean

namespace Shangrla.NM

/-! ### generic list facts -/

theorem take_zip {α β} (l : List α) (l' : List β) (k : Nat) :
    (l.zip l').take k = (l.take k).zip (l'.take k) := by
  simp [List.zip, List.take_zipWith]

theorem take_succ_of_append_cons {α} (x : List α) (a : α) (y : List α) :
    (x ++ a :: y).take (x.length + 1) = x ++ [a] := by
  have : x ++ a :: y = (x ++ [a]) ++ y := by simp
  rw [this]
  exact List.take_left' (by simp)

theorem exists_cons_of_ne_nil {α} {y : List α} (h : y ≠ []) : ∃ a y', y = a :: y' := by
  cases y with
  | nil => exact absurd rfl h
  | cons a y' => exact ⟨a, y', rfl⟩

/-! ### running sums -/

@[simp] theorem length_prefixSumsFrom (S : Rat) (x : List Rat) :
    (prefixSumsFrom S x).length = x.length := by
  induction x generalizing S with
  | nil => rfl
  | cons a x ih => simp [prefixSumsFrom, ih]

@[simp] theorem length_prefixSums (x : List Rat) : (prefixSums x).length = x.length :=
  length_prefixSumsFrom 0 x

theorem xsumFrom_append (S : Rat) (x y : List Rat) :
    xsumFrom S (x ++ y) = xsumFrom (xsumFrom S x) y := by
  induction x generalizing S with
  | nil => rfl
  | cons a x ih => simp [xsumFrom, ih]

theorem prefixSumsFrom_append (S : Rat) (x y : List Rat) :
    prefixSumsFrom S (x ++ y) = prefixSumsFrom S x ++ prefixSumsFrom (xsumFrom S x) y := by
  induction x generalizing S with
  | nil => rfl
  | cons a x ih => simp [prefixSumsFrom, xsumFrom, ih]

theorem prefixSumsFrom_take (S : Rat) (x : List Rat) (k : Nat) :
    (prefixSumsFrom S x).take k = prefixSumsFrom S (x.take k) := by
  induction x generalizing S k with
  | nil => simp [prefixSumsFrom]
  | cons a x ih =>
    cases k with
    | zero => simp [prefixSumsFrom]
    | succ k => simp [prefixSumsFrom, ih]

/-- the first `|x|+1` prefix sums of `x ++ a :: y` do not look at `a` or `y` -/
theorem prefixSumsFrom_take_succ (S : Rat) (x : List Rat) (a : Rat) (y : List Rat) :
    (prefixSumsFrom S (x ++ a :: y)).take (x.length + 1) = prefixSumsFrom S x ++ [xsumFrom S x] := by
  rw [prefixSumsFrom_append]
  simp only [prefixSumsFrom]
  have h := take_succ_of_append_cons (prefixSumsFrom S x) (xsumFrom S x)
    (prefixSumsFrom (xsumFrom S x + a) y)
  rwa [length_prefixSumsFrom] at h

/-! ### null means -/

@[simp] theorem length_nullMeansFrom (N : Option Nat) (t S : Rat) (j : Nat) (x : List Rat) :
    (nullMeansFrom N t S j x).length = x.length := by
  induction x generalizing S j with
  | nil => rfl
  | cons a x ih => simp [nullMeansFrom, ih]

theorem nullMeansFrom_append (N : Option Nat) (t S : Rat) (j : Nat) (x y : List Rat) :
    nullMeansFrom N t S j (x ++ y)
      = nullMeansFrom N t S j x ++ nullMeansFrom N t (xsumFrom S x) (j + x.length) y := by
  induction x generalizing S j with
  | nil => rfl
  | cons a x ih =>
    simp only [List.cons_append, nullMeansFrom, xsumFrom, ih, List.length_cons]
    have : j + 1 + x.length = j + (x.length + 1) := by omega
    rw [this]

theorem nullMeansFrom_take (N : Option Nat) (t S : Rat) (j : Nat) (x : List Rat) (k : Nat) :
    (nullMeansFrom N t S j x).take k = nullMeansFrom N t S j (x.take k) := by
  induction x generalizing S j k with
  | nil => simp [nullMeansFrom]
  | cons a x ih =>
    cases k with
    | zero => simp [nullMeansFrom]
    | succ k => simp [nullMeansFrom, ih]

/-- the first `|x|+1` null means of `x ++ a :: y` do not look at `a` or `y` -/
theorem nullMeansFrom_take_succ (N : Option Nat) (t S : Rat) (j : Nat) (x : List Rat) (a : Rat)
    (y : List Rat) :
    (nullMeansFrom N t S j (x ++ a :: y)).take (x.length + 1)
      = nullMeansFrom N t S j x ++ [mu N t (xsumFrom S x) (j + x.length)] := by
  rw [nullMeansFrom_append]
  simp only [nullMeansFrom]
  have h := take_succ_of_append_cons (nullMeansFrom N t S j x) (mu N t (xsumFrom S x) (j + x.length))
    (nullMeansFrom N t (xsumFrom S x + a) (j + x.length + 1) y)
  rwa [length_nullMeansFrom] at h

/-! ### indexed map -/

@[simp] theorem length_mapIdxFrom {α β} (f : Nat → α → β) (j : Nat) (l : List α) :
    (mapIdxFrom f j l).length = l.length := by
  induction l generalizing j with
  | nil => rfl
  | cons a l ih => simp [mapIdxFrom, ih]

theorem mapIdxFrom_append {α β} (f : Nat → α → β) (j : Nat) (l l' : List α) :
    mapIdxFrom f j (l ++ l') = mapIdxFrom f j l ++ mapIdxFrom f (j + l.length) l' := by
  induction l generalizing j with
  | nil => rfl
  | cons a l ih =>
    simp only [List.cons_append, mapIdxFrom, ih, List.length_cons]
    have : j + 1 + l.length = j + (l.length + 1) := by omega
    rw [this]

theorem mapIdxFrom_take {α β} (f : Nat → α → β) (j : Nat) (l : List α) (k : Nat) :
    (mapIdxFrom f j l).take k = mapIdxFrom f j (l.take k) := by
  induction l generalizing j k with
  | nil => simp [mapIdxFrom]
  | cons a l ih =>
    cases k with
    | zero => simp [mapIdxFrom]
    | succ k => simp [mapIdxFrom, ih]

theorem nullMeansFrom_eq_mapIdxFrom (N : Option Nat) (t S : Rat) (j : Nat) (x : List Rat) :
    nullMeansFrom N t S j x = mapIdxFrom (fun i s => mu N t s i) j (prefixSumsFrom S x) := by
  induction x generalizing S j with
  | nil => rfl
  | cons a x ih => simp [nullMeansFrom, prefixSumsFrom, mapIdxFrom, ih]

/-! ### Welford -/

/-- the state (running mean, running M2) of Welford's recursion after the observations `x` -/
def welfordEnd (m v : Rat) (i : Nat) : List Rat → Rat × Rat
  | [] => (m, v)
  | xi :: rest =>
    let mNew := m + (xi - m) / ((i + 1 : Nat) : Rat)
    welfordEnd mNew (v + (xi - m) * (xi - mNew)) (i + 1) rest

@[simp] theorem length_welfordFrom_fst (m v : Rat) (i : Nat) (x : List Rat) :
    (welfordFrom m v i x).1.length = x.length := by
  induction x generalizing m v i with
  | nil => rfl
  | cons a x ih => simp [welfordFrom, ih]

@[simp] theorem length_welfordFrom_snd (m v : Rat) (i : Nat) (x : List Rat) :
    (welfordFrom m v i x).2.length = x.length := by
  induction x generalizing m v i with
  | nil => rfl
  | cons a x ih => simp [welfordFrom, ih]

theorem welfordFrom_append (m v : Rat) (i : Nat) (x y : List Rat) :
    welfordFrom m v i (x ++ y)
      = ((welfordFrom m v i x).1 ++ (welfordFrom (welfordEnd m v i x).1 (welfordEnd m v i x).2 (i + x.length) y).1,
         (welfordFrom m v i x).2 ++ (welfordFrom (welfordEnd m v i x).1 (welfordEnd m v i x).2 (i + x.length) y).2) := by
  induction x generalizing m v i with
  | nil => rfl
  | cons a x ih =>
    simp only [List.cons_append, welfordFrom, welfordEnd, ih, List.length_cons]
    have : i + 1 + x.length = i + (x.length + 1) := by omega
    rw [this]

theorem welfordFrom_take_fst (m v : Rat) (i : Nat) (x : List Rat) (k : Nat) :
    (welfordFrom m v i x).1.take k = (welfordFrom m v i (x.take k)).1 := by
  induction x generalizing m v i k with
  | nil => simp [welfordFrom]
  | cons a x ih =>
    cases k with
    | zero => simp [welfordFrom]
    | succ k => simp [welfordFrom, ih]

theorem welfordFrom_take_snd (m v : Rat) (i : Nat) (x : List Rat) (k : Nat) :
    (welfordFrom m v i x).2.take k = (welfordFrom m v i (x.take k)).2 := by
  induction x generalizing m v i k with
  | nil => simp [welfordFrom]
  | cons a x ih =>
    cases k with
    | zero => simp [welfordFrom]
    | succ k => simp [welfordFrom, ih]

@[simp] theorem length_welford_fst (x : List Rat) : (welford x).1.length = x.length := by
  cases x with
  | nil => rfl
  | cons a x => simp [welford]

@[simp] theorem length_welford_snd (x : List Rat) : (welford x).2.length = x.length := by
  cases x with
  | nil => rfl
  | cons a x => simp [welford]

theorem welford_take_fst (x : List Rat) (k : Nat) : (welford x).1.take k = (welford (x.take k)).1 := by
  cases x with
  | nil => simp [welford]
  | cons a x =>
    cases k with
    | zero => simp [welford]
    | succ k => simp [welford, welfordFrom_take_fst]

theorem welford_take_snd (x : List Rat) (k : Nat) : (welford x).2.take k = (welford (x.take k)).2 := by
  cases x with
  | nil => simp [welford]
  | cons a x =>
    cases k with
    | zero => simp [welford]
    | succ k => simp [welford, welfordFrom_take_snd]

/-! ### shift by one -/

@[simp] theorem length_shiftIn {α} (a : α) (v : List α) : (shiftIn a v).length = v.length := by
  simp [shiftIn]

theorem shiftIn_eq_take {α} (a : α) (v : List α) : shiftIn a v = (a :: v).take v.length := by
  simp [shiftIn, List.dropLast_eq_take]

/-- entries `0..k` of `shiftIn a v` are `a` followed by entries `0..k-1` of `v` -/
theorem shiftIn_take_succ {α} (a : α) (v : List α) (k : Nat) (h : k < v.length) :
    (shiftIn a v).take (k + 1) = a :: v.take k := by
  rw [shiftIn_eq_take, List.take_take, Nat.min_eq_left (by omega), List.take_succ_cons]

/-- `shiftIn` of an append: entries `0..|v|` look only at `v` (when something follows) -/
theorem shiftIn_append_take {α} (a : α) (v w : List α) (hw : w ≠ []) :
    (shiftIn a (v ++ w)).take (v.length + 1) = a :: v := by
  obtain ⟨b, w', rfl⟩ := exists_cons_of_ne_nil hw
  rw [shiftIn_take_succ _ _ _ (by simp), List.take_left' rfl]

theorem shiftIn_take {α} (a : α) (v : List α) (k : Nat) (h : k ≤ v.length) :
    (shiftIn a v).take k = shiftIn a (v.take k) := by
  rw [shiftIn_eq_take, shiftIn_eq_take, List.take_take, List.length_take, Nat.min_eq_left h]
  cases k with
  | zero => simp
  | succ k => simp [List.take_take]

/-! ### cumulative product -/

/-- the running product after the factors `l` -/
def prodFrom (acc : XR) : List XR → XR
  | [] => acc
  | a :: l => prodFrom (acc * a) l

@[simp] theorem length_cumprodFrom (acc : XR) (l : List XR) : (XR.cumprodFrom acc l).length = l.length := by
  induction l generalizing acc with
  | nil => rfl
  | cons a l ih => simp [XR.cumprodFrom, ih]

@[simp] theorem length_cumprod (l : List XR) : (XR.cumprod l).length = l.length :=
  length_cumprodFrom 1 l

theorem cumprodFrom_append (acc : XR) (l l' : List XR) :
    XR.cumprodFrom acc (l ++ l') = XR.cumprodFrom acc l ++ XR.cumprodFrom (prodFrom acc l) l' := by
  induction l generalizing acc with
  | nil => rfl
  | cons a l ih => simp [XR.cumprodFrom, prodFrom, ih]

theorem cumprodFrom_append_take (acc : XR) (l l' : List XR) :
    (XR.cumprodFrom acc (l ++ l')).take l.length = XR.cumprodFrom acc l := by
  rw [cumprodFrom_append]
  exact List.take_left' (by simp)

theorem cumprodFrom_take (acc : XR) (l : List XR) (k : Nat) :
    (XR.cumprodFrom acc l).take k = XR.cumprodFrom acc (l.take k) := by
  induction l generalizing acc k with
  | nil => simp [XR.cumprodFrom]
  | cons a l ih =>
    cases k with
    | zero => simp [XR.cumprodFrom]
    | succ k => simp [XR.cumprodFrom, ih]

theorem cumprod_take (l : List XR) (k : Nat) : (XR.cumprod l).take k = XR.cumprod (l.take k) :=
  cumprodFrom_take 1 l k

/-! ### `Causal` and `StrictlyCausal`

Positions are 0-based.  `Causal f`: entries `0..k-1` of `f l` are a function of `l[0..k-1]`
(entry `j` may look at observation `j` itself).  `StrictlyCausal f`: entries `0..k` of `f l` are a
function of `l[0..k-1]` as long as `l` is longer than `k` — entry `j` does not look at observation `j`
or any later one: it is *predictable*. -/

def Causal {β} (f : List Rat → List β) : Prop :=
  ∀ x y, (f (x ++ y)).take x.length = f x

/-- ONE formulation: two samples that share the head `x` and both continue beyond it (`y`, `z`
non-empty, of any lengths) give the same entries `0..|x|`. -/
def StrictlyCausal {β} (f : List Rat → List β) : Prop :=
  ∀ x y z, y ≠ [] → z ≠ [] → (f (x ++ y)).take (x.length + 1) = (f (x ++ z)).take (x.length + 1)

/-- `f` returns a vector as long as its argument -/
def LenPres {β} (f : List Rat → List β) : Prop := ∀ x, (f x).length = x.length

theorem causal_iff_take {β} (f : List Rat → List β) :
    Causal f ↔ ∀ l k, (f l).take k = f (l.take k) := by
  constructor
  · intro h l k
    by_cases hk : k ≤ l.length
    · have := h (l.take k) (l.drop k)
      rwa [List.take_append_drop, List.length_take, Nat.min_eq_left hk] at this
    · have hk' : l.length ≤ k := by omega
      have h0 := h l []
      rw [List.append_nil] at h0
      have hl : (f l).length ≤ l.length := by
        have := congrArg List.length h0
        rw [List.length_take] at this
        omega
      rw [List.take_of_length_le hk', List.take_of_length_le (by omega)]
  · intro h x y
    rw [h, List.take_left' rfl]

theorem Causal.take {β} {f : List Rat → List β} (h : Causal f) (l : List Rat) (k : Nat) :
    (f l).take k = f (l.take k) := (causal_iff_take f).1 h l k

theorem causal_of_take {β} {f : List Rat → List β} (h : ∀ l k, (f l).take k = f (l.take k)) :
    Causal f := (causal_iff_take f).2 h

/-- equivalent formulation: entries `0..|x|` of `f (x ++ a :: y)` are a function of `x` alone -/
theorem strictlyCausal_of_fun {β} {f : List Rat → List β} (g : List Rat → List β)
    (h : ∀ x a y, (f (x ++ a :: y)).take (x.length + 1) = g x) : StrictlyCausal f := by
  intro x y z hy hz
  obtain ⟨a, y', rfl⟩ := exists_cons_of_ne_nil hy
  obtain ⟨b, z', rfl⟩ := exists_cons_of_ne_nil hz
  rw [h, h]

/-- a predictable vector agrees on the shorter prefix too -/
theorem StrictlyCausal.take_le {β} {f : List Rat → List β} (h : StrictlyCausal f)
    (x y z : List Rat) (hy : y ≠ []) (hz : z ≠ []) (k : Nat) (hk : k ≤ x.length + 1) :
    (f (x ++ y)).take k = (f (x ++ z)).take k := by
  have := congrArg (List.take k) (h x y z hy hz)
  rwa [List.take_take, List.take_take, Nat.min_eq_left hk] at this

/-- a predictable, length-preserving vector function is causal -/
theorem StrictlyCausal.causal {β} {f : List Rat → List β} (h : StrictlyCausal f) (hl : LenPres f) :
    Causal f := by
  intro x y
  rcases List.eq_nil_or_concat x with rfl | ⟨x', a, rfl⟩
  · have := hl []
    simp only [List.length_nil, List.take_zero]
    exact (List.eq_nil_of_length_eq_zero this).symm
  · by_cases hy : y = []
    · subst hy
      rw [List.append_nil]
      exact List.take_of_length_le (by rw [hl]; exact Nat.le_refl _)
    · have h1 := h x' ([a] ++ y) [a] (by simp) (by simp)
      simp only [List.concat_eq_append, List.append_assoc, List.length_append, List.length_cons,
        List.length_nil, Nat.zero_add]
      rw [h1]
      exact List.take_of_length_le (by rw [hl]; simp)

/-! #### closure: `Causal` -/

theorem causal_id : Causal (fun x : List Rat => x) := fun _ _ => List.take_left' rfl

theorem Causal.map {β γ} {f : List Rat → List β} (h : Causal f) (g : β → γ) :
    Causal (fun x => (f x).map g) := by
  intro x y
  rw [← List.map_take, h]

theorem Causal.zip {β γ} {f : List Rat → List β} {g : List Rat → List γ} (hf : Causal f) (hg : Causal g) :
    Causal (fun x => (f x).zip (g x)) := by
  intro x y
  rw [take_zip, hf, hg]

theorem Causal.zipWith {β γ δ} {f : List Rat → List β} {g : List Rat → List γ} (hf : Causal f)
    (hg : Causal g) (op : β → γ → δ) : Causal (fun x => List.zipWith op (f x) (g x)) := by
  intro x y
  rw [List.take_zipWith, hf, hg]

theorem Causal.mapIdxFrom {β γ} {f : List Rat → List β} (h : Causal f) (g : Nat → β → γ) (j : Nat) :
    Causal (fun x => NM.mapIdxFrom g j (f x)) := by
  intro x y
  rw [mapIdxFrom_take, h]

theorem Causal.cumprodFrom {f : List Rat → List XR} (h : Causal f) (acc : XR) :
    Causal (fun x => XR.cumprodFrom acc (f x)) := by
  intro x y
  rw [cumprodFrom_take, h]

theorem Causal.cumprod {f : List Rat → List XR} (h : Causal f) : Causal (fun x => XR.cumprod (f x)) :=
  h.cumprodFrom 1

/-- pre-composition with an entrywise transformation of the observations -/
theorem Causal.comp_map {β} {f : List Rat → List β} (h : Causal f) (g : Rat → Rat) :
    Causal (fun x => f (x.map g)) := by
  intro x y
  have := h (x.map g) (y.map g)
  rwa [List.length_map, ← List.map_append] at this

theorem causal_prefixSumsFrom (S : Rat) : Causal (prefixSumsFrom S) :=
  causal_of_take (prefixSumsFrom_take S)

theorem causal_prefixSums : Causal prefixSums := causal_prefixSumsFrom 0

theorem causal_nullMeansFrom (N : Option Nat) (t S : Rat) (j : Nat) : Causal (nullMeansFrom N t S j) :=
  causal_of_take (nullMeansFrom_take N t S j)

theorem causal_welford_fst : Causal (fun x => (welford x).1) := causal_of_take welford_take_fst

theorem causal_welford_snd : Causal (fun x => (welford x).2) := causal_of_take welford_take_snd

/-! #### closure: `StrictlyCausal` -/

theorem StrictlyCausal.map {β γ} {f : List Rat → List β} (h : StrictlyCausal f) (g : β → γ) :
    StrictlyCausal (fun x => (f x).map g) := by
  intro x y z hy hz
  rw [← List.map_take, ← List.map_take, h x y z hy hz]

theorem StrictlyCausal.zip {β γ} {f : List Rat → List β} {g : List Rat → List γ}
    (hf : StrictlyCausal f) (hg : StrictlyCausal g) : StrictlyCausal (fun x => (f x).zip (g x)) := by
  intro x y z hy hz
  rw [take_zip, take_zip, hf x y z hy hz, hg x y z hy hz]

theorem StrictlyCausal.zipWith {β γ δ} {f : List Rat → List β} {g : List Rat → List γ}
    (hf : StrictlyCausal f) (hg : StrictlyCausal g) (op : β → γ → δ) :
    StrictlyCausal (fun x => List.zipWith op (f x) (g x)) := by
  intro x y z hy hz
  rw [List.take_zipWith, List.take_zipWith, hf x y z hy hz, hg x y z hy hz]

theorem StrictlyCausal.mapIdxFrom {β γ} {f : List Rat → List β} (h : StrictlyCausal f)
    (g : Nat → β → γ) (j : Nat) : StrictlyCausal (fun x => NM.mapIdxFrom g j (f x)) := by
  intro x y z hy hz
  rw [mapIdxFrom_take, mapIdxFrom_take, h x y z hy hz]

theorem StrictlyCausal.cumprodFrom {f : List Rat → List XR} (h : StrictlyCausal f) (acc : XR) :
    StrictlyCausal (fun x => XR.cumprodFrom acc (f x)) := by
  intro x y z hy hz
  rw [cumprodFrom_take, cumprodFrom_take, h x y z hy hz]

/-- a vector that ignores the values (only the length of the sample matters) is predictable -/
theorem strictlyCausal_const {β} (c : β) : StrictlyCausal (fun x : List Rat => x.map (fun _ => c)) := by
  apply strictlyCausal_of_fun (fun x => x.map (fun _ => c) ++ [c])
  intro x a y
  have := take_succ_of_append_cons (x.map (fun _ => c)) c (y.map (fun _ => c))
  rw [List.length_map] at this
  simpa using this

/-- shift-by-one turns a causal, length-preserving vector into a predictable one
(`np.insert(v, 0, a)[0:-1]`) -/
theorem Causal.shiftIn {β} {f : List Rat → List β} (h : Causal f) (hl : LenPres f) (a : β) :
    StrictlyCausal (fun x => NM.shiftIn a (f x)) := by
  apply strictlyCausal_of_fun (fun x => a :: f x)
  intro x b y
  rw [shiftIn_take_succ _ _ _ (by rw [hl]; simp), h]

theorem strictlyCausal_prefixSumsFrom (S : Rat) : StrictlyCausal (prefixSumsFrom S) :=
  strictlyCausal_of_fun _ (prefixSumsFrom_take_succ S)

theorem strictlyCausal_prefixSums : StrictlyCausal prefixSums := strictlyCausal_prefixSumsFrom 0

theorem strictlyCausal_nullMeansFrom (N : Option Nat) (t S : Rat) (j : Nat) :
    StrictlyCausal (nullMeansFrom N t S j) :=
  strictlyCausal_of_fun _ (nullMeansFrom_take_succ N t S j)

/-! #### lengths -/

theorem lenPres_prefixSums : LenPres prefixSums := length_prefixSums
theorem lenPres_nullMeansFrom (N : Option Nat) (t S : Rat) (j : Nat) : LenPres (nullMeansFrom N t S j) :=
  length_nullMeansFrom N t S j
theorem lenPres_welford_fst : LenPres (fun x => (welford x).1) := length_welford_fst
theorem lenPres_welford_snd : LenPres (fun x => (welford x).2) := length_welford_snd

theorem LenPres.map {β γ} {f : List Rat → List β} (h : LenPres f) (g : β → γ) :
    LenPres (fun x => (f x).map g) := fun x => by simp [h x]

theorem LenPres.zip {β γ} {f : List Rat → List β} {g : List Rat → List γ} (hf : LenPres f)
    (hg : LenPres g) : LenPres (fun x => (f x).zip (g x)) := fun x => by simp [hf x, hg x]

theorem LenPres.mapIdxFrom {β γ} {f : List Rat → List β} (h : LenPres f) (g : Nat → β → γ) (j : Nat) :
    LenPres (fun x => NM.mapIdxFrom g j (f x)) := fun x => by simp [h x]

theorem LenPres.shiftIn {β} {f : List Rat → List β} (h : LenPres f) (a : β) :
    LenPres (fun x => NM.shiftIn a (f x)) := fun x => by simp [h x]

theorem LenPres.cumprod {f : List Rat → List XR} (h : LenPres f) :
    LenPres (fun x => XR.cumprod (f x)) := fun x => by simp [h x]

end Shangrla.NM
