/-
  Chain lemma of DESIGN.md Appendix F: every true assertion that contradicts a complete order `π` is
  (up to the representation of its eliminated set) one of the assertions `find_best_audit` examines at a
  suffix of `π` of length ≥ 2; consequences for a leaf of the search tree (a complete alternative order):
  the cheapest examined assertion along its ancestor chain bounds every sufficient set from below, and
  if the chain has no assertion at all no audit is possible.
-/
import Shangrla.Lemmas.RaireNode
import Shangrla.Lemmas.RaireSocial
import Mathlib.Data.List.Perm.Subperm

namespace Shangrla.Raire
open Spec

set_option linter.unusedSectionVars false
set_option linter.unusedVariables false

section Chain
variable {α : Type} [DecidableEq α] {D : Type} [DiffOrd D] [DiffOrd.Lawful D]
variable (asn : Nat → Nat → Nat → Nat → D) (C : Contest α) (cvrs : List (Option (Ballot α))) (winner : α)

theorem perm_of_nodup_subset_length {l cands : List α} (hl : l.Nodup) (hsub : ∀ y ∈ l, y ∈ cands)
    (hlen : l.length = cands.length) : l.Perm cands :=
  (List.subperm_of_subset hl hsub).perm_of_length_le (by omega)

/-- a duplicate-free candidate list longer than `t` has a candidate outside `t` -/
theorem exists_not_mem_of_length_lt {cands t : List α} (hC : cands.Nodup) (hlen : t.length < cands.length) :
    ∃ c ∈ cands, c ∉ t := by
  apply Classical.byContradiction
  intro h
  have hsub : cands ⊆ t := by
    intro c hc
    apply Classical.byContradiction
    intro hct
    exact h ⟨c, hc, hct⟩
  have := (List.subperm_of_subset hC hsub).length_le
  omega

/-- **Chain.** -/
theorem chain (hC : C.candidates.Nodup) (π : List α) (hπ : π.Perm C.candidates) (a : Assertion α D)
    (ha : Fam asn C cvrs a) (hc : contradicts a π) :
    ∃ t, t <:+ π ∧ 2 ≤ t.length ∧
      ∃ b, some b ∈ candAt asn C (cvrs.filterMap id) (nebTable asn C cvrs) t ∧ b.difficulty = a.difficulty := by
  obtain ⟨hw, hl, hne, hnen, ⟨hv1, hv2, hv3⟩, hd⟩ := ha
  have hnd : π.Nodup := hπ.nodup_iff.2 hC
  unfold contradicts contra at hc
  cases hk : a.kind with
  | neb =>
    rw [hk] at hc hv1 hv2
    obtain ⟨pre, post, rfl, hlp⟩ := hc
    refine ⟨a.winner :: post, ⟨pre, rfl⟩, ?_, ?_⟩
    · cases post with
      | nil => cases hlp
      | cons x xs => simp
    · simp only [tallies] at hv1 hv2
      have hmk : mkNeb asn C cvrs a.winner a.loser =
          some { kind := .neb, winner := a.winner, loser := a.loser, eliminated := [], votesW := a.votesW,
                 votesL := a.votesL,
                 difficulty := asn a.votesW a.votesL (C.totBallots - (a.votesW + a.votesL)) C.totBallots,
                 rulesOut := [] } := by
        unfold mkNeb
        simp only [← hv1, ← hv2]
        rw [if_pos hv3]
      refine ⟨{ kind := .neb, winner := a.winner, loser := a.loser, eliminated := [], votesW := a.votesW,
                 votesL := a.votesL,
                 difficulty := asn a.votesW a.votesL (C.totBallots - (a.votesW + a.votesL)) C.totBallots,
                 rulesOut := [] }, ?_, hd.symm⟩
      simp only [candAt, List.mem_append, List.mem_map]
      left; left
      refine ⟨a.loser, hlp, ?_⟩
      rw [nebLookup_table asn C cvrs _ _ hw hl, if_neg hne, hmk]
  | nen =>
    rw [hk] at hc hv1 hv2
    obtain ⟨pre, post, rfl, hE, hlp⟩ := hc
    refine ⟨a.winner :: post, ⟨pre, rfl⟩, ?_, ?_⟩
    · cases post with
      | nil => cases hlp
      | cons x xs => simp
    · simp only [tallies] at hv1 hv2
      have hset : ∀ y, y ∈ notIn C (a.winner :: post) ↔ y ∈ a.eliminated := by
        intro y
        rw [hE, mem_notIn]
        constructor
        · rintro ⟨h1, h2⟩
          rcases List.mem_append.1 (hπ.mem_iff.2 h1) with h | h
          · exact h
          · exact absurd h h2
        · intro hy
          exact ⟨hπ.mem_iff.1 (List.mem_append_left _ hy),
            fun h2 => (List.nodup_append.1 hnd).2.2 y hy y h2 rfl⟩
      have hmk : mkNen asn C (cvrs.filterMap id) (a.winner :: post) a.winner a.loser =
          some { kind := .nen, winner := a.winner, loser := a.loser, eliminated := notIn C (a.winner :: post),
                 votesW := a.votesW, votesL := a.votesL,
                 difficulty := asn a.votesW a.votesL (C.totBallots - (a.votesW + a.votesL)) C.totBallots,
                 rulesOut := [a.winner :: post] } := by
        unfold mkNen
        simp only
        rw [tally_congr _ a.winner hset, tally_congr _ a.loser hset, ← hv1, ← hv2, if_pos hv3]
      refine ⟨{ kind := .nen, winner := a.winner, loser := a.loser, eliminated := notIn C (a.winner :: post),
                 votesW := a.votesW, votesL := a.votesL,
                 difficulty := asn a.votesW a.votesL (C.totBallots - (a.votesW + a.votesL)) C.totBallots,
                 rulesOut := [a.winner :: post] }, ?_, hd.symm⟩
      simp only [candAt, List.mem_append, List.mem_map]
      right
      exact ⟨a.loser, hlp, hmk⟩

/-- the difficulty every sufficient set of true assertions must reach is at least `x` -/
def LeOPT (x : Diff D) : Prop :=
  ∀ S : List (Assertion α D), (∀ a ∈ S, Fam asn C cvrs a) → Sufficient C.candidates winner S →
    ∃ a ∈ S, Diff.le x (Diff.fin a.difficulty) = true

theorem LeOPT.mono {x y : Diff D} (h : LeOPT asn C cvrs winner x) (hle : Diff.le y x = true) :
    LeOPT asn C cvrs winner y := by
  intro S h1 h2
  obtain ⟨a, ha, hx⟩ := h S h1 h2
  exact ⟨a, ha, Diff.le_trans hle hx⟩

/-- some alternative order is contradicted by no true assertion: no audit is possible -/
def BadLeaf : Prop := ∃ π, Alt C.candidates winner π ∧ ∀ a : Assertion α D, Fam asn C cvrs a → ¬ contradicts a π

/-- a node whose tail is a complete order is an alternative order -/
theorem leaf_alt {s : Store α D} {i : Nat} (hok : NodeOK asn C cvrs winner s i)
    (hlen : (s.get i).tail.length = C.candidates.length) : Alt C.candidates winner (s.get i).tail :=
  ⟨perm_of_nodup_subset_length hok.nodup hok.sub hlen, hok.alt⟩

/-- every true assertion contradicting a leaf is at least as difficult as the leaf's own estimate or as
its best ancestor's -/
theorem leaf_bound (hC : C.candidates.Nodup) {s : Store α D} {i : Nat} (hok : NodeOK asn C cvrs winner s i)
    (hlen : (s.get i).tail.length = C.candidates.length) (a : Assertion α D) (ha : Fam asn C cvrs a)
    (hc : contradicts a (s.get i).tail) :
    Diff.le (s.get i).estimate (Diff.fin a.difficulty) = true ∨
    ∃ j, (s.get i).bestAnc = some j ∧ Diff.le (s.get j).estimate (Diff.fin a.difficulty) = true := by
  have hperm := (leaf_alt asn C cvrs winner hok hlen).1
  obtain ⟨t, ht, ht2, b, hb, hbd⟩ := chain asn C cvrs hC _ hperm a ha hc
  have hle := fba_estimate_le asn C (cvrs.filterMap id) (nebTable asn C cvrs) t b hb
  rw [hbd] at hle
  by_cases hl : t.length = (s.get i).tail.length
  · left
    have := ht.eq_of_length hl
    rw [hok.est, ← this]; exact hle
  · right
    have hlt : t.length < (s.get i).tail.length := by have := ht.length_le; omega
    cases hanc : (s.get i).bestAnc with
    | none => have := hok.ancNone hanc; omega
    | some j => exact ⟨j, rfl, Diff.le_trans (hok.ancMin j hanc t ht ht2 hlt) hle⟩

/-- (O1) the value by which `manage_node` raises the lower bound at a leaf is below every sufficient set -/
theorem leaf_leOPT (hC : C.candidates.Nodup) {s : Store α D} {i j : Nat} (hok : NodeOK asn C cvrs winner s i)
    (hlen : (s.get i).tail.length = C.candidates.length) (hj : (s.get i).bestAnc = some j) :
    LeOPT asn C cvrs winner
      (if Diff.le (s.get j).estimate (s.get i).estimate then (s.get j).estimate else (s.get i).estimate) := by
  intro S h1 h2
  obtain ⟨a, ha, hc⟩ := h2 _ (leaf_alt asn C cvrs winner hok hlen)
  refine ⟨a, ha, ?_⟩
  rcases leaf_bound asn C cvrs winner hC hok hlen a (h1 a ha) hc with h | ⟨j', hj', h⟩
  · split
    · rename_i hle; exact Diff.le_trans hle h
    · exact h
  · rw [hj] at hj'; cases hj'
    split
    · exact h
    · rename_i hle
      rcases Diff.le_total (s.get j).estimate (s.get i).estimate with h' | h'
      · exact absurd h' hle
      · exact Diff.le_trans h' h

/-- a leaf without ancestor (two-candidate contest): its own estimate is the bound -/
theorem leaf_leOPT_root (hC : C.candidates.Nodup) {s : Store α D} {i : Nat} (hok : NodeOK asn C cvrs winner s i)
    (hlen : (s.get i).tail.length = C.candidates.length) (hj : (s.get i).bestAnc = none) :
    LeOPT asn C cvrs winner (s.get i).estimate := by
  intro S h1 h2
  obtain ⟨a, ha, hc⟩ := h2 _ (leaf_alt asn C cvrs winner hok hlen)
  refine ⟨a, ha, ?_⟩
  rcases leaf_bound asn C cvrs winner hC hok hlen a (h1 a ha) hc with h | ⟨j', hj', _⟩
  · exact h
  · rw [hj] at hj'; cases hj'

/-- a leaf whose whole ancestor chain has no assertion cannot be excluded -/
theorem leaf_bad (hC : C.candidates.Nodup) {s : Store α D} {i : Nat} (hok : NodeOK asn C cvrs winner s i)
    (hlen : (s.get i).tail.length = C.candidates.length) (hinf : (s.get i).estimate = Diff.inf)
    (hanc : ∀ j, (s.get i).bestAnc = some j → (s.get j).estimate = Diff.inf) :
    BadLeaf asn C cvrs winner := by
  refine ⟨_, leaf_alt asn C cvrs winner hok hlen, ?_⟩
  intro a ha hc
  rcases leaf_bound asn C cvrs winner hC hok hlen a ha hc with h | ⟨j, hj, h⟩
  · rw [hinf] at h; cases h
  · rw [hanc j hj] at h; cases h

end Chain
end Shangrla.Raire
