/-
  Post-processing of the RAIRE frontier (raire.py L271-311): de-duplication (`same_as`), `sorted`, and the
  subsumption pass keep, for every tail that has to be ruled out, an assertion that contradicts every
  complete order ending in that tail; and every kept assertion is one of the frontier's assertions up to
  its `rules_out` field.  DESIGN.md Appendix F, "Post-processing".  Core Lean only.
-/
import Shangrla.Lemmas.RaireSpec

namespace Shangrla.Raire
open Spec

set_option linter.unusedSectionVars false

variable {α : Type} [DecidableEq α] {D : Type} [DiffOrd D]

/-- `x` contradicts every complete order that ends in the tail `t` -/
def CoversTail (cands : List α) (x : Assertion α D) (t : List α) : Prop :=
  ∀ π, π.Perm cands → t <:+ π → contradicts x π

/-- an assertion without its `rules_out` field -/
def core (x : Assertion α D) : Assertion α D := { x with rulesOut := [] }

theorem core_fields {x y : Assertion α D} (h : core x = core y) :
    x.kind = y.kind ∧ x.winner = y.winner ∧ x.loser = y.loser ∧ x.eliminated = y.eliminated ∧
    x.votesW = y.votesW ∧ x.votesL = y.votesL ∧ x.difficulty = y.difficulty :=
  ⟨(congrArg Assertion.kind h : _), (congrArg Assertion.winner h : _), (congrArg Assertion.loser h : _),
   (congrArg Assertion.eliminated h : _), (congrArg Assertion.votesW h : _), (congrArg Assertion.votesL h : _),
   (congrArg Assertion.difficulty h : _)⟩

theorem core_update (x : Assertion α D) (r : List (List α)) : core { x with rulesOut := r } = core x := rfl

theorem contradicts_of_core {x y : Assertion α D} (h : core x = core y) (π : List α) :
    contradicts x π ↔ contradicts y π := by
  obtain ⟨h1, h2, h3, h4, _⟩ := core_fields h
  unfold contradicts; rw [h1, h2, h3, h4]

theorem coversTail_of_core {cands : List α} {x y : Assertion α D} (h : core x = core y) (t : List α) :
    CoversTail cands x t ↔ CoversTail cands y t := by
  unfold CoversTail
  constructor
  · intro hx π h1 h2; exact (contradicts_of_core h π).1 (hx π h1 h2)
  · intro hx π h1 h2; exact (contradicts_of_core h π).2 (hx π h1 h2)

theorem coversTail_suffix {cands : List α} {x : Assertion α D} {r t : List α} (h : CoversTail cands x r)
    (hs : r <:+ t) : CoversTail cands x t :=
  fun π h1 h2 => h π h1 (hs.trans h2)

/-- membership facts every assertion of the family satisfies -/
def Good (cands : List α) (x : Assertion α D) : Prop :=
  x.winner ∈ cands ∧ x.loser ∈ cands ∧ x.winner ≠ x.loser

theorem good_of_core {cands : List α} {x y : Assertion α D} (h : core x = core y) (hy : Good cands y) :
    Good cands x := by
  obtain ⟨_, h2, h3, _⟩ := core_fields h
  unfold Good; rw [h2, h3]; exact hy

/-! ### `same_as` -/

theorem sameAs_contra {a x : Assertion α D} (h : sameAs a x = true) (π : List α) :
    contradicts a π ↔ contradicts x π := by
  unfold sameAs at h
  unfold contradicts
  cases hk : a.kind with
  | neb =>
    rw [hk] at h
    simp only [Bool.and_eq_true, beq_iff_eq] at h
    rw [h.1.1, h.1.2, h.2]
    rfl
  | nen =>
    rw [hk] at h
    simp only [Bool.and_eq_true, beq_iff_eq] at h
    rw [h.1.1.1, h.1.1.2, h.1.2, h.2]

theorem sameAs_kind {a x : Assertion α D} (h : sameAs a x = true) : a.kind = x.kind := by
  unfold sameAs at h
  cases hk : a.kind with
  | neb => rw [hk] at h; simp only [Bool.and_eq_true, beq_iff_eq] at h; exact h.1.1.symm
  | nen => rw [hk] at h; simp only [Bool.and_eq_true, beq_iff_eq] at h; exact h.1.1.1.symm

/-! ### `rules_out.update` -/

theorem mem_unionRO (x y : List (List α)) (t : List α) : t ∈ unionRO x y ↔ t ∈ x ∨ t ∈ y := by
  unfold unionRO
  induction y generalizing x with
  | nil => simp
  | cons a y ih =>
    rw [List.foldl_cons, ih]
    by_cases h : x.contains a = true
    · rw [if_pos h]
      have : a ∈ x := by simpa using h
      simp only [List.mem_cons]
      constructor
      · rintro (h1 | h1)
        · exact Or.inl h1
        · exact Or.inr (Or.inr h1)
      · rintro (h1 | h1 | h1)
        · exact Or.inl h1
        · exact Or.inl (h1 ▸ this)
        · exact Or.inr h1
    · rw [if_neg h]
      simp only [List.mem_append, List.mem_cons, List.not_mem_nil, or_false]
      constructor
      · rintro ((h1 | h1) | h1)
        · exact Or.inl h1
        · exact Or.inr (Or.inl h1)
        · exact Or.inr (Or.inr h1)
      · rintro (h1 | h1 | h1)
        · exact Or.inl (Or.inl h1)
        · exact Or.inl (Or.inr h1)
        · exact Or.inr h1

/-! ### the invariant of the post-processing passes -/

/-- `T` = the tails that must be ruled out (the frontier's tails). Every listed assertion is well
formed, contradicts every order ending in one of its own `rules_out` tails, and every required tail has a
listed assertion contradicting all orders ending in it (recorded in `rules_out` if that assertion is NEN). -/
structure PostInv (cands : List α) (L : List (Assertion α D)) (T : List α → Prop) : Prop where
  good : ∀ x ∈ L, Good cands x
  ro : ∀ x ∈ L, ∀ r ∈ x.rulesOut, CoversTail cands x r
  need : ∀ t, T t → ∃ x ∈ L, CoversTail cands x t ∧ (x.kind = .nen → t ∈ x.rulesOut)

theorem PostInv.of_mem_iff {cands : List α} {L L' : List (Assertion α D)} {T : List α → Prop}
    (h : PostInv cands L T) (hm : ∀ x, x ∈ L' ↔ x ∈ L) : PostInv cands L' T :=
  ⟨fun x hx => h.good x ((hm x).1 hx), fun x hx => h.ro x ((hm x).1 hx),
   fun t ht => by obtain ⟨x, hx, h1⟩ := h.need t ht; exact ⟨x, (hm x).2 hx, h1⟩⟩

/-- replacing a listed assertion by one with the same core and a larger, still covered, `rules_out` -/
theorem PostInv.update {cands : List α} {l1 l2 : List (Assertion α D)} {x x' : Assertion α D}
    {T : List α → Prop} (h : PostInv cands (l1 ++ x :: l2) T) (hc : core x' = core x)
    (hsub : ∀ r ∈ x.rulesOut, r ∈ x'.rulesOut) (hcov : ∀ r ∈ x'.rulesOut, CoversTail cands x r) :
    PostInv cands (l1 ++ x' :: l2) T := by
  have hx : x ∈ l1 ++ x :: l2 := by simp
  refine ⟨?_, ?_, ?_⟩
  · intro y hy
    simp only [List.mem_append, List.mem_cons] at hy
    rcases hy with hy | rfl | hy
    · exact h.good y (by simp [hy])
    · exact good_of_core hc (h.good x hx)
    · exact h.good y (by simp [hy])
  · intro y hy r hr
    simp only [List.mem_append, List.mem_cons] at hy
    rcases hy with hy | rfl | hy
    · exact h.ro y (by simp [hy]) r hr
    · exact (coversTail_of_core hc r).2 (hcov r hr)
    · exact h.ro y (by simp [hy]) r hr
  · intro t ht
    obtain ⟨y, hy, h1, h2⟩ := h.need t ht
    simp only [List.mem_append, List.mem_cons] at hy
    rcases hy with hy | rfl | hy
    · exact ⟨y, by simp [hy], h1, h2⟩
    · refine ⟨x', by simp, (coversTail_of_core hc t).2 h1, ?_⟩
      intro hk
      rw [(core_fields hc).1] at hk
      exact hsub t (h2 hk)
    · exact ⟨y, by simp [hy], h1, h2⟩

/-! ### de-duplication (raire.py L275-286) -/

theorem dedupeInsert_cases (a : Assertion α D) (L : List (Assertion α D)) :
    (dedupeInsert a L = L ++ [a]) ∨
    (∃ l1 x l2, L = l1 ++ x :: l2 ∧ sameAs a x = true ∧
      dedupeInsert a L = l1 ++ { x with rulesOut := unionRO x.rulesOut a.rulesOut } :: l2) := by
  induction L with
  | nil => left; rfl
  | cons y L ih =>
    unfold dedupeInsert
    by_cases h : sameAs a y = true
    · right; rw [if_pos h]; exact ⟨[], y, L, rfl, h, rfl⟩
    · rw [if_neg h]
      rcases ih with ih | ⟨l1, x, l2, h1, h2, h3⟩
      · left; rw [ih]; rfl
      · right; exact ⟨y :: l1, x, l2, by rw [h1]; rfl, h2, by rw [h3]; rfl⟩

/-- one step of the de-duplication loop: the node with tail `t` and assertion `a` is accounted for -/
theorem PostInv.dedupeInsert {cands : List α} {L : List (Assertion α D)} {T : List α → Prop}
    (h : PostInv cands L T) (a : Assertion α D) (t : List α) (hg : Good cands a)
    (hro : ∀ r ∈ a.rulesOut, CoversTail cands a r) (hcov : CoversTail cands a t)
    (hnen : a.kind = .nen → t ∈ a.rulesOut) :
    PostInv cands (dedupeInsert a L) (fun u => T u ∨ u = t) := by
  rcases dedupeInsert_cases a L with h1 | ⟨l1, x, l2, h1, h2, h3⟩
  · rw [h1]
    refine ⟨?_, ?_, ?_⟩
    · intro y hy
      simp only [List.mem_append, List.mem_singleton] at hy
      rcases hy with hy | rfl
      · exact h.good y hy
      · exact hg
    · intro y hy
      simp only [List.mem_append, List.mem_singleton] at hy
      rcases hy with hy | rfl
      · exact h.ro y hy
      · exact hro
    · rintro u (hu | rfl)
      · obtain ⟨y, hy, h2⟩ := h.need u hu
        exact ⟨y, by simp [hy], h2⟩
      · exact ⟨a, by simp, hcov, hnen⟩
  · rw [h3]
    subst h1
    have hcx : ∀ r, CoversTail cands a r → CoversTail cands x r := fun r hr π p1 p2 =>
      (sameAs_contra h2 π).1 (hr π p1 p2)
    have hupd : PostInv cands (l1 ++ { x with rulesOut := unionRO x.rulesOut a.rulesOut } :: l2) T := by
      refine h.update (core_update x _) (fun r hr => (mem_unionRO _ _ _).2 (Or.inl hr)) ?_
      intro r hr
      rcases (mem_unionRO _ _ _).1 hr with hr | hr
      · exact h.ro x (by simp) r hr
      · exact hcx r (hro r hr)
    refine ⟨hupd.good, hupd.ro, ?_⟩
    rintro u (hu | rfl)
    · exact hupd.need u hu
    · refine ⟨{ x with rulesOut := unionRO x.rulesOut a.rulesOut }, by simp, ?_, ?_⟩
      · exact (coversTail_of_core (core_update x _) _).2 (hcx _ hcov)
      · intro hk
        have hk' : a.kind = .nen := by rw [sameAs_kind h2]; exact hk
        exact (mem_unionRO _ _ _).2 (Or.inr (hnen hk'))

theorem dedupeInsert_core (a : Assertion α D) (L : List (Assertion α D)) :
    ∀ y ∈ dedupeInsert a L, core y = core a ∨ ∃ z ∈ L, core y = core z := by
  intro y hy
  rcases dedupeInsert_cases a L with h1 | ⟨l1, x, l2, h1, _, h3⟩
  · rw [h1] at hy
    simp only [List.mem_append, List.mem_singleton] at hy
    rcases hy with hy | rfl
    · exact Or.inr ⟨y, hy, rfl⟩
    · exact Or.inl rfl
  · rw [h3] at hy; subst h1
    simp only [List.mem_append, List.mem_cons] at hy
    rcases hy with hy | rfl | hy
    · exact Or.inr ⟨y, by simp [hy], rfl⟩
    · exact Or.inr ⟨x, by simp, rfl⟩
    · exact Or.inr ⟨y, by simp [hy], rfl⟩

/-! ### `sorted` (raire.py L290) -/

theorem insertByKey_perm (x : Assertion α D) (l : List (Assertion α D)) : (insertByKey x l).Perm (x :: l) := by
  induction l with
  | nil => exact List.Perm.refl _
  | cons y l ih =>
    unfold insertByKey
    split
    · exact List.Perm.refl _
    · exact (List.Perm.cons y ih).trans (List.Perm.swap x y l)

theorem sortAssertions_perm (l : List (Assertion α D)) : (sortAssertions l).Perm l := by
  unfold sortAssertions
  suffices h : ∀ acc : List (Assertion α D), (l.foldl (fun acc x => insertByKey x acc) acc).Perm (acc ++ l) by
    simpa using h []
  induction l with
  | nil => intro acc; simp
  | cons x l ih =>
    intro acc
    rw [List.foldl_cons]
    refine (ih _).trans ?_
    refine (List.Perm.append_right l (insertByKey_perm x acc)).trans ?_
    simp only [List.cons_append]
    exact List.perm_middle.symm

/-! ### subsumption (raire.py L293-311) -/

theorem isSuffix_iff (a b : List α) : isSuffix a b = true ↔ a <:+ b := by
  unfold isSuffix
  split
  · rename_i h
    simp only [Bool.false_eq_true, false_iff]
    intro hs
    have := hs.length_le
    omega
  · rw [beq_iff_eq, List.suffix_iff_eq_drop]
    exact ⟨fun h => h.symm, fun h => h.symm⟩

theorem mem_foldl_filter (fro : List (List α)) (oro : List (List α)) (t : List α) :
    t ∈ fro.foldl (fun oro ro => oro.filter fun t => !isSuffix ro t) oro ↔
      t ∈ oro ∧ ∀ ro ∈ fro, isSuffix ro t = false := by
  induction fro generalizing oro with
  | nil => simp
  | cons r fro ih =>
    rw [List.foldl_cons, ih]
    simp only [List.mem_filter, Bool.not_eq_true', List.mem_cons, forall_eq_or_imp]
    constructor
    · rintro ⟨⟨h1, h2⟩, h3⟩; exact ⟨h1, h2, h3⟩
    · rintro ⟨h1, h2, h3⟩; exact ⟨⟨h1, h2⟩, h3⟩

/-- NENAssertion.subsumes is sound: every tail of `o` extends a tail `f` rules out -/
theorem nenSubsumes_sound {cands : List α} {f o : Assertion α D}
    (hfro : ∀ r ∈ f.rulesOut, CoversTail cands f r) (h : nenSubsumes f o = true) :
    o.kind = .nen ∧ ∀ t ∈ o.rulesOut, CoversTail cands f t := by
  unfold nenSubsumes at h
  split at h
  · cases h
  · rename_i hk
    refine ⟨by cases hk' : o.kind <;> simp_all, ?_⟩
    intro t ht
    rw [List.isEmpty_iff] at h
    have hnot : ¬ (t ∈ o.rulesOut ∧ ∀ ro ∈ f.rulesOut, isSuffix ro t = false) := by
      rw [← mem_foldl_filter, h]; simp
    have : ∃ ro ∈ f.rulesOut, isSuffix ro t = true := by
      apply Classical.byContradiction
      intro hne
      apply hnot
      refine ⟨ht, fun ro hro => ?_⟩
      cases hs : isSuffix ro t
      · rfl
      · exact absurd ⟨ro, hro, hs⟩ hne
    obtain ⟨ro, hro, hs⟩ := this
    exact coversTail_suffix (hfro ro hro) ((isSuffix_iff _ _).1 hs)

theorem idxOf_lt_split {w l : α} {ro : List α} (hw : w ∈ ro) (hl : l ∈ ro)
    (hlt : ro.idxOf w < ro.idxOf l) : ∃ s t, ro = s ++ w :: t ∧ l ∈ t := by
  obtain ⟨s, t, rfl, hws⟩ := List.eq_append_cons_of_mem hw
  refine ⟨s, t, rfl, ?_⟩
  rw [List.idxOf_append, List.idxOf_append, if_neg hws] at hlt
  simp only [List.idxOf_cons_self, Nat.zero_add] at hlt
  by_cases hls : l ∈ s
  · rw [if_pos hls] at hlt
    have := List.idxOf_lt_length_of_mem hls
    omega
  · rw [if_neg hls] at hlt
    have hne : l ≠ w := by
      intro he; subst he
      simp at hlt
    simp only [List.mem_append, List.mem_cons] at hl
    rcases hl with hl | hl | hl
    · exact absurd hl hls
    · exact absurd hl hne
    · exact hl

/-- NEBAssertion.subsumes is sound, branch by branch -/
theorem nebSubsumes_sound {cands : List α} {f o : Assertion α D} (hk : f.kind = .neb)
    (hg : Good cands f) (horo : ∀ r ∈ o.rulesOut, CoversTail cands o r) (h : nebSubsumes f o = true) :
    o.kind = .nen ∧ ∀ t ∈ o.rulesOut, CoversTail cands f t := by
  obtain ⟨hwc, hlc, hne⟩ := hg
  unfold nebSubsumes at h
  split at h
  · cases h
  · rename_i hok
    have hon : o.kind = .nen := by cases hk' : o.kind <;> simp_all
    refine ⟨hon, ?_⟩
    -- branches 1-3: whatever `o` contradicts, `f` contradicts
    have via : (∀ π, π.Perm cands → contradicts o π → contradicts f π) →
        ∀ t ∈ o.rulesOut, CoversTail cands f t :=
      fun hv t ht π p1 p2 => hv π p1 (horo t ht π p1 p2)
    split at h
    · -- same winner and loser
      rename_i h1
      simp only [Bool.and_eq_true, beq_iff_eq] at h1
      apply via
      intro π _ hc
      unfold contradicts contra at hc ⊢
      rw [hon] at hc; rw [hk]
      obtain ⟨pre, post, hπ, _, hl⟩ := hc
      exact ⟨pre, post, by rw [h1.1]; exact hπ, by rw [h1.2]; exact hl⟩
    · split at h
      · -- same winner, f.loser not eliminated in o's context
        rename_i _ h2
        simp only [Bool.and_eq_true, beq_iff_eq, Bool.not_eq_true', List.contains_eq_mem,
          decide_eq_false_iff_not] at h2
        apply via
        intro π hπp hc
        unfold contradicts contra at hc ⊢
        rw [hon] at hc; rw [hk]
        obtain ⟨pre, post, hπ, hE, _⟩ := hc
        refine ⟨pre, post, by rw [h2.1]; exact hπ, ?_⟩
        have hlπ : f.loser ∈ π := hπp.mem_iff.2 hlc
        rw [hπ] at hlπ
        simp only [List.mem_append, List.mem_cons] at hlπ
        rcases hlπ with hl | hl | hl
        · exact absurd ((hE _).2 hl) h2.2
        · exact absurd (hl.trans h2.1.symm).symm hne
        · exact hl
      · split at h
        · -- f.winner eliminated in o's context, f.loser not
          rename_i _ _ h3
          simp only [Bool.and_eq_true, Bool.not_eq_true', List.contains_eq_mem, decide_eq_true_eq,
            decide_eq_false_iff_not] at h3
          apply via
          intro π hπp hc
          unfold contradicts contra at hc ⊢
          rw [hon] at hc; rw [hk]
          obtain ⟨pre, post, hπ, hE, _⟩ := hc
          have hwpre : f.winner ∈ pre := (hE _).1 h3.1
          obtain ⟨p1, p2, rfl⟩ := List.append_of_mem hwpre
          refine ⟨p1, p2 ++ o.winner :: post, by rw [hπ]; simp, ?_⟩
          have hlπ : f.loser ∈ π := hπp.mem_iff.2 hlc
          rw [hπ] at hlπ
          simp only [List.mem_append, List.mem_cons] at hlπ ⊢
          rcases hlπ with (hl | hl | hl) | hl | hl
          · exact absurd ((hE _).2 (by simp [hl])) h3.2
          · exact absurd hl hne.symm
          · exact absurd ((hE _).2 (by simp [hl])) h3.2
          · exact Or.inr (Or.inl hl)
          · exact Or.inr (Or.inr hl)
        · -- every tail of `o` has f.winner before f.loser (or lacks f.winner and has f.loser)
          rw [List.all_eq_true] at h
          intro t ht π hπp hsuf
          have ht' := h t ht
          unfold contradicts contra
          rw [hk]
          obtain ⟨pre, rfl⟩ := hsuf
          by_cases hwt : f.winner ∈ t
          · by_cases hlt : f.loser ∈ t
            · have : t.idxOf f.winner < t.idxOf f.loser := by
                simp [idxOrNeg, hwt, hlt] at ht'
                omega
              obtain ⟨s, u, rfl, hlu⟩ := idxOf_lt_split hwt hlt this
              exact ⟨pre ++ s, u, by simp, hlu⟩
            · exfalso
              simp [idxOrNeg, hwt, hlt] at ht'
              omega
          · by_cases hlt : f.loser ∈ t
            · have hwπ : f.winner ∈ pre ++ t := hπp.mem_iff.2 hwc
              have hwpre : f.winner ∈ pre := by
                rcases List.mem_append.1 hwπ with h | h
                · exact h
                · exact absurd h hwt
              obtain ⟨p1, p2, rfl⟩ := List.append_of_mem hwpre
              exact ⟨p1, p2 ++ t, by simp, List.mem_append_right _ hlt⟩
            · exfalso
              simp [idxOrNeg, hwt, hlt] at ht'

theorem subsumes_sound {cands : List α} {f o : Assertion α D} (hg : Good cands f)
    (hfro : ∀ r ∈ f.rulesOut, CoversTail cands f r) (horo : ∀ r ∈ o.rulesOut, CoversTail cands o r)
    (h : subsumes f o = true) : o.kind = .nen ∧ ∀ t ∈ o.rulesOut, CoversTail cands f t := by
  unfold subsumes at h
  cases hk : f.kind with
  | neb => rw [hk] at h; exact nebSubsumes_sound hk hg horo h
  | nen => rw [hk] at h; exact nenSubsumes_sound hfro h

theorem absorb_cases (a : Assertion α D) (L : List (Assertion α D)) :
    (absorb a L = none) ∨
    (∃ l1 f l2, L = l1 ++ f :: l2 ∧ subsumes f a = true ∧
      absorb a L = some (l1 ++ { f with rulesOut := unionRO f.rulesOut a.rulesOut } :: l2)) := by
  induction L with
  | nil => left; rfl
  | cons y L ih =>
    unfold absorb
    by_cases h : subsumes y a = true
    · right; rw [if_pos h]; exact ⟨[], y, L, rfl, h, rfl⟩
    · rw [if_neg h]
      rcases ih with ih | ⟨l1, f, l2, h1, h2, h3⟩
      · left; rw [ih]; rfl
      · right; exact ⟨y :: l1, f, l2, by rw [h1]; rfl, h2, by rw [h3]; rfl⟩

/-- one step of the subsumption loop, with `rest` = the assertions not yet looked at -/
theorem PostInv.absorb_step {cands : List α} {fin rest : List (Assertion α D)} {a : Assertion α D}
    {T : List α → Prop} (h : PostInv cands (fin ++ a :: rest) T) :
    PostInv cands ((match absorb a fin with | some fin' => fin' | none => fin ++ [a]) ++ rest) T := by
  rcases absorb_cases a fin with h1 | ⟨l1, f, l2, h1, h2, h3⟩
  · rw [h1]; simpa using h
  · rw [h3]; subst h1
    have hf : f ∈ (l1 ++ f :: l2) ++ a :: rest := by simp
    have ha : a ∈ (l1 ++ f :: l2) ++ a :: rest := by simp
    obtain ⟨hak, hcov⟩ := subsumes_sound (h.good f hf) (h.ro f hf) (h.ro a ha) h2
    let f' : Assertion α D := { f with rulesOut := unionRO f.rulesOut a.rulesOut }
    have hcf : core f' = core f := rfl
    show PostInv cands ((l1 ++ f' :: l2) ++ rest) T
    refine ⟨?_, ?_, ?_⟩
    · intro y hy
      simp only [List.mem_append, List.mem_cons] at hy
      rcases hy with (hy | rfl | hy) | hy
      · exact h.good y (by simp [hy])
      · exact good_of_core hcf (h.good f hf)
      · exact h.good y (by simp [hy])
      · exact h.good y (by simp [hy])
    · intro y hy r hr
      simp only [List.mem_append, List.mem_cons] at hy
      rcases hy with (hy | rfl | hy) | hy
      · exact h.ro y (by simp [hy]) r hr
      · apply (coversTail_of_core hcf r).2
        rcases (mem_unionRO _ _ _).1 hr with hr | hr
        · exact h.ro f hf r hr
        · exact hcov r hr
      · exact h.ro y (by simp [hy]) r hr
      · exact h.ro y (by simp [hy]) r hr
    · intro t ht
      obtain ⟨y, hy, c1, c2⟩ := h.need t ht
      simp only [List.mem_append, List.mem_cons] at hy
      rcases hy with (hy | rfl | hy) | rfl | hy
      · exact ⟨y, by simp [hy], c1, c2⟩
      · refine ⟨f', by simp, (coversTail_of_core hcf t).2 c1, ?_⟩
        intro hk
        exact (mem_unionRO _ _ _).2 (Or.inl (c2 hk))
      · exact ⟨y, by simp [hy], c1, c2⟩
      · have hta : t ∈ y.rulesOut := c2 hak
        refine ⟨f', by simp, (coversTail_of_core hcf t).2 (hcov t hta), ?_⟩
        intro _
        exact (mem_unionRO _ _ _).2 (Or.inr hta)
      · exact ⟨y, by simp [hy], c1, c2⟩

theorem PostInv.subsumePass {cands : List α} {L : List (Assertion α D)} {T : List α → Prop}
    (h : PostInv cands L T) : PostInv cands (subsumePass L) T := by
  cases L with
  | nil => exact h
  | cons x xs =>
    unfold Raire.subsumePass
    suffices hs : ∀ (rest fin : List (Assertion α D)), PostInv cands (fin ++ rest) T →
        PostInv cands (rest.foldl (fun fin a => match absorb a fin with
          | some fin' => fin'
          | none => fin ++ [a]) fin) T from hs xs [x] (by simpa using h)
    intro rest
    induction rest with
    | nil => intro fin hf; simpa using hf
    | cons a rest ih =>
      intro fin hf
      rw [List.foldl_cons]
      exact ih _ hf.absorb_step

theorem absorb_core (a : Assertion α D) (L L' : List (Assertion α D)) (h : absorb a L = some L') :
    ∀ y ∈ L', ∃ z ∈ L, core y = core z := by
  intro y hy
  rcases absorb_cases a L with h1 | ⟨l1, f, l2, h1, _, h3⟩
  · rw [h1] at h; cases h
  · rw [h3] at h; cases h; subst h1
    simp only [List.mem_append, List.mem_cons] at hy
    rcases hy with hy | rfl | hy
    · exact ⟨y, by simp [hy], rfl⟩
    · exact ⟨f, by simp, rfl⟩
    · exact ⟨y, by simp [hy], rfl⟩

theorem subsumePass_core (L : List (Assertion α D)) :
    ∀ y ∈ subsumePass L, ∃ z ∈ L, core y = core z := by
  cases L with
  | nil => intro y hy; cases hy
  | cons x xs =>
    unfold subsumePass
    suffices hs : ∀ (rest fin : List (Assertion α D)),
        ∀ y ∈ rest.foldl (fun fin a => match absorb a fin with
          | some fin' => fin'
          | none => fin ++ [a]) fin, ∃ z ∈ fin ++ rest, core y = core z by
      intro y hy
      obtain ⟨z, hz, hc⟩ := hs xs [x] y hy
      exact ⟨z, by simpa using hz, hc⟩
    intro rest
    induction rest with
    | nil => intro fin y hy; exact ⟨y, by simpa using hy, rfl⟩
    | cons a rest ih =>
      intro fin y hy
      rw [List.foldl_cons] at hy
      obtain ⟨z, hz, hc⟩ := ih _ y hy
      cases hab : absorb a fin with
      | none =>
        rw [hab] at hz
        exact ⟨z, by simpa using hz, hc⟩
      | some fin' =>
        rw [hab] at hz
        simp only [List.mem_append] at hz
        rcases hz with hz | hz
        · obtain ⟨z', hz', hc'⟩ := absorb_core a fin fin' hab z hz
          exact ⟨z', by simp [hz'], hc.trans hc'⟩
        · exact ⟨z, by simp [hz], hc⟩

end Shangrla.Raire
