/-
  Basic lemmas about `XR` (extended rationals): arithmetic on finite values, the predicate `Good`
  (a non-negative finite value or +inf: what a masked test statistic must be), and reciprocals.
-/
import Shangrla.Num.XR
import Mathlib.Tactic.Linarith
import Mathlib.Tactic.Positivity
import Mathlib.Algebra.Order.Field.Basic
import Mathlib.Algebra.Order.Ring.Rat

namespace Shangrla.XR

@[simp] theorem fin_add (a b : Rat) : (fin a + fin b : XR) = fin (a + b) := rfl
@[simp] theorem fin_mul (a b : Rat) : (fin a * fin b : XR) = fin (a * b) := rfl
@[simp] theorem fin_neg (a : Rat) : (-(fin a) : XR) = fin (-a) := rfl
@[simp] theorem fin_sub (a b : Rat) : (fin a - fin b : XR) = fin (a - b) := by
  show add (fin a) (neg (fin b)) = _
  simp [add, neg, sub_eq_add_neg]
theorem fin_div (a b : Rat) (hb : b ≠ 0) : (fin a / fin b : XR) = fin (a / b) := by
  show div (fin a) (fin b) = _
  simp [div, hb]
@[simp] theorem one_def : (1 : XR) = fin 1 := rfl
@[simp] theorem zero_def : (0 : XR) = fin 0 := rfl
theorem ofNat_def (n : Nat) : (OfNat.ofNat n : XR) = fin (n : Rat) := rfl

@[simp] theorem lt_fin (a b : Rat) : lt (fin a) (fin b) = decide (a < b) := rfl
@[simp] theorem le_fin (a b : Rat) : le (fin a) (fin b) = decide (a ≤ b) := rfl
@[simp] theorem isNan_fin (a : Rat) : (fin a).isNan = false := rfl
@[simp] theorem isNan_pinf : pinf.isNan = false := rfl
@[simp] theorem isNan_nan : nan.isNan = true := rfl

/-- a value a masked test statistic may take: a non-negative rational or `+inf` -/
def Good : XR → Prop
  | fin q => 0 ≤ q
  | pinf => True
  | _ => False

theorem good_fin {q : Rat} (h : 0 ≤ q) : Good (fin q) := h
theorem good_pinf : Good pinf := trivial
theorem good_one : Good (1 : XR) := by show (0 : Rat) ≤ 1; norm_num
theorem good_zero : Good (0 : XR) := by show (0 : Rat) ≤ 0; norm_num
theorem not_good_nan : ¬ Good nan := id
theorem not_good_ninf : ¬ Good ninf := id

theorem Good.cases {x : XR} (h : Good x) : x = pinf ∨ ∃ q : Rat, 0 ≤ q ∧ x = fin q := by
  cases x with
  | fin q => exact Or.inr ⟨q, h, rfl⟩
  | pinf => exact Or.inl rfl
  | ninf => exact absurd h not_good_ninf
  | nan => exact absurd h not_good_nan

/-- a p-value: a rational in `[0,1]` -/
def IsP : XR → Prop
  | fin q => 0 ≤ q ∧ q ≤ 1
  | _ => False

theorem isP_fin {q : Rat} (h0 : 0 ≤ q) (h1 : q ≤ 1) : IsP (fin q) := ⟨h0, h1⟩

/-- `np.minimum(1, 1/T)` of a good statistic is a p-value -/
theorem isP_npmin_one_inv {T : XR} (h : Good T) : IsP (npmin 1 ((1 : XR) / T)) := by
  rcases h.cases with rfl | ⟨q, hq, rfl⟩
  · -- 1/inf = 0
    show IsP (npmin (fin 1) (div (fin 1) pinf))
    simp only [div, npmin, isNan_fin, Bool.or_self, Bool.false_eq_true, ↓reduceIte, lt_fin]
    norm_num [IsP]
  · by_cases h0 : q = 0
    · subst h0
      show IsP (npmin (fin 1) (div (fin 1) (fin 0)))
      simp [div, npmin, lt, IsP, isNan]
    · have hpos : 0 < q := lt_of_le_of_ne hq (Ne.symm h0)
      rw [one_def, fin_div _ _ h0]
      simp only [npmin, isNan_fin, Bool.or_self, Bool.false_eq_true, ↓reduceIte, lt_fin, decide_eq_true_eq]
      split
      · rename_i h1
        exact ⟨by positivity, le_of_lt h1⟩
      · exact ⟨by norm_num, le_refl _⟩

/-- `np.minimum(1/T, 1)` (argument order of the Kaplan tests) -/
theorem isP_npmin_inv_one {T : XR} (h : Good T) : IsP (npmin ((1 : XR) / T) 1) := by
  rcases h.cases with rfl | ⟨q, hq, rfl⟩
  · show IsP (npmin (div (fin 1) pinf) (fin 1))
    simp only [div, npmin, isNan_fin, Bool.or_self, Bool.false_eq_true, ↓reduceIte, lt_fin]
    norm_num [IsP]
  · by_cases h0 : q = 0
    · subst h0
      show IsP (npmin (div (fin 1) (fin 0)) (fin 1))
      simp [div, npmin, lt, IsP, isNan]
    · have hpos : 0 < q := lt_of_le_of_ne hq (Ne.symm h0)
      rw [one_def, fin_div _ _ h0]
      simp only [npmin, isNan_fin, Bool.or_self, Bool.false_eq_true, ↓reduceIte, lt_fin, decide_eq_true_eq]
      split
      · exact ⟨by norm_num, le_refl _⟩
      · rename_i h1
        exact ⟨by positivity, not_lt.mp h1⟩

theorem good_npmax {a b : XR} (ha : Good a) (hb : Good b) : Good (npmax a b) := by
  rcases ha.cases with rfl | ⟨p, hp, rfl⟩ <;> rcases hb.cases with rfl | ⟨q, hq, rfl⟩
  · simp [npmax, isNan, lt, Good]
  · simp [npmax, isNan, lt, Good]
  · simp [npmax, isNan, lt, Good]
  · simp only [npmax, isNan_fin, Bool.or_self, Bool.false_eq_true, ↓reduceIte, lt_fin, decide_eq_true_eq]
    by_cases h : p < q
    · rw [if_pos h]; exact hq
    · rw [if_neg h]; exact hp

theorem good_mul {a b : Rat} (ha : 0 ≤ a) (hb : 0 ≤ b) : Good (fin a * fin b) := by
  rw [fin_mul]; exact mul_nonneg ha hb

end Shangrla.XR
