/-
  Helper lemmas for C07 / C10: the specification of consistent sampling (`firstCards`, `inUnion`, `thrSpec`)
  and the refinement of the literal walk `Shangrla.Sampling.walk` to it.  Core Lean only.
-/
import Shangrla.Model.Sampling

namespace Shangrla.Sampling

/-! ### specification -/

/-- the cards listing contest `c`, in the order of `S` (for `S = sortedPairs cards`: sample-number order) -/
def cCards (S : List (Card × Nat)) (c : ContestId) : List (Card × Nat) := S.filter (fun p => p.1.has c)

/-- contest `c`'s first `n` cards -/
def firstCards (S : List (Card × Nat)) (c : ContestId) (n : Nat) : List (Card × Nat) := (cCards S c).take n

/-- is the card among the first `n_c` cards of some contest -/
def inUnion (S : List (Card × Nat)) (contests : List Contest) (p : Card × Nat) : Bool :=
  contests.any (fun con => (firstCards S con.id con.sampleSize).contains p)

/-- the threshold after the walk: sample number of the last of the first `n` cards; untouched when there is none -/
def thrSpec (S : List (Card × Nat)) (c : ContestId) (n : Nat) (old : Option Nat) : Option Nat :=
  match (firstCards S c n).getLast? with
  | some p => some p.1.sampleNum
  | none => old

/-! ### `updContests` -/

def upd1 (cd : Card) (cur : ContestId → Nat) (con : Contest) : Contest :=
  if cd.has con.id && inProgress cur con then { con with sampleThreshold := some cd.sampleNum } else con

def curAfter (cd : Card) (cur : ContestId → Nat) (cons : List Contest) : ContestId → Nat :=
  fun x => if cons.any (fun con => decide (con.id = x) && (cd.has con.id && inProgress cur con)) then cur x + 1 else cur x

theorem inProgress_congr {cur cur' : ContestId → Nat} {con : Contest} (h : cur con.id = cur' con.id) :
    inProgress cur con = inProgress cur' con := by
  unfold inProgress; rw [h]

theorem any_congr_mem {α} {l : List α} {p q : α → Bool} (h : ∀ a ∈ l, p a = q a) : l.any p = l.any q := by
  induction l with
  | nil => rfl
  | cons a l ih =>
    simp only [List.any_cons]
    rw [h a (by simp), ih (fun b hb => h b (by simp [hb]))]

theorem updContests_spec (cd : Card) : ∀ (cons : List Contest) (cur : ContestId → Nat),
    (cons.map (·.id)).Nodup →
    updContests cd cur cons = (curAfter cd cur cons, cons.map (upd1 cd cur)) := by
  intro cons
  induction cons with
  | nil => intro cur _; simp [updContests]; funext x; simp [curAfter]
  | cons con rest ih =>
    intro cur hnd
    simp only [List.map_cons, List.nodup_cons, List.mem_map, not_exists, not_and] at hnd
    obtain ⟨hnot, hnd'⟩ := hnd
    have hne : ∀ con' ∈ rest, con'.id ≠ con.id := fun con' h => hnot con' h
    have hrest : ∀ x, rest.any (fun con' => decide (con'.id = x) && (cd.has con'.id && inProgress (bump cur con.id) con'))
        = rest.any (fun con' => decide (con'.id = x) && (cd.has con'.id && inProgress cur con')) := by
      intro x
      apply any_congr_mem
      intro con' hm
      rw [inProgress_congr (cur := bump cur con.id) (cur' := cur)]
      unfold bump; rw [if_neg (hne con' hm)]
    have hself : rest.any (fun con' => decide (con'.id = con.id) && (cd.has con'.id && inProgress cur con')) = false := by
      rw [List.any_eq_false]
      intro con' hm
      simp [hne con' hm]
    unfold updContests
    by_cases hc : (cd.has con.id && inProgress cur con) = true
    · rw [if_pos hc]
      simp only [ih (bump cur con.id) hnd']
      have h1 : rest.map (upd1 cd (bump cur con.id)) = rest.map (upd1 cd cur) := by
        apply List.map_congr_left
        intro con' hm
        unfold upd1
        rw [inProgress_congr (cur := bump cur con.id) (cur' := cur)]
        unfold bump; rw [if_neg (hne con' hm)]
      have h2 : curAfter cd (bump cur con.id) rest = curAfter cd cur (con :: rest) := by
        funext x
        unfold curAfter
        rw [hrest x]
        by_cases hx : x = con.id
        · subst hx
          rw [hself]
          simp [List.any_cons, hc, bump]
        · have hx' : ¬ con.id = x := fun h => hx h.symm
          simp [List.any_cons, hx', bump, hx]
      rw [h1, h2]
      simp [upd1, hc]
    · rw [if_neg hc]
      simp only [ih cur hnd']
      have h2 : curAfter cd cur rest = curAfter cd cur (con :: rest) := by
        funext x
        unfold curAfter
        simp only [List.any_cons]
        simp only [Bool.not_eq_true] at hc
        simp [hc]
      rw [h2]
      simp [upd1, hc]

/-! ### one step of the walk, for one contest -/

/-- cards still needed by a contest when its current size is `cur con.id` -/
def need (cur : ContestId → Nat) (con : Contest) : Nat := con.sampleSize - cur con.id

/-- the need after the walk has looked at card `hd` -/
def stepNeed (hd : Card × Nat) (c : ContestId) (r : Nat) : Nat := if hd.1.has c && decide (0 < r) then r - 1 else r

theorem inProgress_eq (cur : ContestId → Nat) (con : Contest) : inProgress cur con = decide (0 < need cur con) := by
  unfold inProgress need
  rw [decide_eq_decide]; omega

theorem firstCards_cons (hd : Card × Nat) (rest : List (Card × Nat)) (c : ContestId) (r : Nat) :
    firstCards (hd :: rest) c r =
      (if hd.1.has c && decide (0 < r) then [hd] else []) ++ firstCards rest c (stepNeed hd c r) := by
  unfold firstCards cCards stepNeed
  by_cases hh : hd.1.has c = true
  · cases r with
    | zero => simp [hh]
    | succ r => simp [hh, List.take_succ_cons]
  · simp only [Bool.not_eq_true] at hh
    simp [hh]

theorem firstCards_sublist (S : List (Card × Nat)) (c : ContestId) (r : Nat) : (firstCards S c r).Sublist S :=
  (List.take_sublist _ _).trans List.filter_sublist

theorem mem_of_mem_firstCards {S : List (Card × Nat)} {c : ContestId} {r : Nat} {p : Card × Nat}
    (h : p ∈ firstCards S c r) : p ∈ S := (firstCards_sublist S c r).subset h

theorem firstCards_zero (S : List (Card × Nat)) (c : ContestId) : firstCards S c 0 = [] := by
  simp [firstCards]

theorem contains_head (hd : Card × Nat) (rest : List (Card × Nat)) (c : ContestId) (r : Nat) (hn : hd ∉ rest) :
    (firstCards (hd :: rest) c r).contains hd = (hd.1.has c && decide (0 < r)) := by
  rw [firstCards_cons]
  by_cases h : (hd.1.has c && decide (0 < r)) = true
  · rw [if_pos h, h]; simp
  · rw [if_neg h]
    simp only [Bool.not_eq_true] at h
    rw [h]
    simp only [List.nil_append, List.contains_eq_mem, decide_eq_false_iff_not]
    intro hm; exact hn (mem_of_mem_firstCards hm)

theorem contains_tail (hd p : Card × Nat) (rest : List (Card × Nat)) (c : ContestId) (r : Nat) (hne : p ≠ hd) :
    (firstCards (hd :: rest) c r).contains p = (firstCards rest c (stepNeed hd c r)).contains p := by
  rw [firstCards_cons]
  by_cases h : (hd.1.has c && decide (0 < r)) = true
  · rw [if_pos h]; simp [hne]
  · rw [if_neg h]; simp

theorem thrSpec_cons (hd : Card × Nat) (rest : List (Card × Nat)) (c : ContestId) (r : Nat) (old : Option Nat) :
    thrSpec (hd :: rest) c r old =
      thrSpec rest c (stepNeed hd c r) (if hd.1.has c && decide (0 < r) then some hd.1.sampleNum else old) := by
  unfold thrSpec
  rw [firstCards_cons]
  by_cases h : (hd.1.has c && decide (0 < r)) = true
  · rw [if_pos h, if_pos h]
    simp only [List.singleton_append, List.getLast?_cons]
    cases (firstCards rest c (stepNeed hd c r)).getLast? <;> simp
  · rw [if_neg h, if_neg h]; simp

theorem cCards_length_cons (hd : Card × Nat) (rest : List (Card × Nat)) (c : ContestId) :
    (cCards (hd :: rest) c).length = (if hd.1.has c then 1 else 0) + (cCards rest c).length := by
  unfold cCards
  by_cases hh : hd.1.has c = true
  · simp [hh]; omega
  · simp only [Bool.not_eq_true] at hh
    simp [hh]

/-! ### the walk -/

def inU (cur : ContestId → Nat) (cons : List Contest) (order : List (Card × Nat)) (p : Card × Nat) : Bool :=
  cons.any (fun con => (firstCards order con.id (need cur con)).contains p)

def updThr (cur : ContestId → Nat) (order : List (Card × Nat)) (con : Contest) : Contest :=
  { con with sampleThreshold := thrSpec order con.id (need cur con) con.sampleThreshold }

theorem id_inj_of_nodup : ∀ {cons : List Contest}, (cons.map (·.id)).Nodup →
    ∀ a ∈ cons, ∀ b ∈ cons, a.id = b.id → a = b := by
  intro cons
  induction cons with
  | nil => intro _ a ha; simp at ha
  | cons x xs ih =>
    intro hnd a ha b hb hab
    simp only [List.map_cons, List.nodup_cons, List.mem_map, not_exists, not_and] at hnd
    simp only [List.mem_cons] at ha hb
    rcases ha with rfl | ha <;> rcases hb with rfl | hb
    · rfl
    · exact absurd hab.symm (hnd.1 b hb)
    · exact absurd hab (hnd.1 a ha)
    · exact ih hnd.2 a ha b hb hab

theorem need_curAfter (cd : Card) (i : Nat) (cur : ContestId → Nat) (cons : List Contest)
    (hid : (cons.map (·.id)).Nodup) (con : Contest) (hm : con ∈ cons) :
    con.sampleSize - curAfter cd cur cons con.id = stepNeed (cd, i) con.id (need cur con) := by
  have hany : cons.any (fun con' => decide (con'.id = con.id) && (cd.has con'.id && inProgress cur con'))
      = (cd.has con.id && inProgress cur con) := by
    rw [Bool.eq_iff_iff, List.any_eq_true]
    constructor
    · rintro ⟨con', hm', h⟩
      simp only [Bool.and_eq_true, decide_eq_true_eq] at h
      have := id_inj_of_nodup hid con' hm' con hm h.1
      subst this
      simp [h.2.1, h.2.2]
    · intro h
      exact ⟨con, hm, by simp only [Bool.and_eq_true] at h; simp [h.1, h.2]⟩
  unfold curAfter stepNeed
  rw [hany, inProgress_eq]
  unfold need
  by_cases h : (cd.has con.id && decide (0 < con.sampleSize - cur con.id)) = true
  · rw [if_pos h, if_pos h]; omega
  · rw [if_neg h, if_neg h]

theorem upd1_id (cd : Card) (cur : ContestId → Nat) (con : Contest) : (upd1 cd cur con).id = con.id := by
  unfold upd1; split <;> rfl

theorem upd1_size (cd : Card) (cur : ContestId → Nat) (con : Contest) :
    (upd1 cd cur con).sampleSize = con.sampleSize := by
  unfold upd1; split <;> rfl

theorem walk_spec (already : List Nat) : ∀ (order : List (Card × Nat)) (cons : List Contest)
    (cur : ContestId → Nat), (cons.map (·.id)).Nodup → order.Nodup →
    (∀ con ∈ cons, need cur con ≤ (cCards order con.id).length) →
    walk already cur cons order =
      .ok ((((order.filter (inU cur cons order)).filter (fun p => !already.contains p.2)).map (·.2)),
           cons.map (updThr cur order)) := by
  -- when nothing is in progress, nothing is selected and no threshold moves
  have done : ∀ (order : List (Card × Nat)) (cons : List Contest) (cur : ContestId → Nat),
      cons.any (inProgress cur) = false →
      order.filter (inU cur cons order) = [] ∧ cons.map (updThr cur order) = cons := by
    intro order cons cur h
    rw [List.any_eq_false] at h
    have hz : ∀ con ∈ cons, need cur con = 0 := by
      intro con hm
      have := h con hm
      rw [inProgress_eq] at this
      simpa using this
    constructor
    · rw [List.filter_eq_nil_iff]
      intro p _
      unfold inU
      rw [Bool.not_eq_true, List.any_eq_false]
      intro con hm
      rw [hz con hm, firstCards_zero]; simp
    · conv => rhs; rw [← List.map_id cons]
      apply List.map_congr_left
      intro con hm
      unfold updThr thrSpec
      rw [hz con hm, firstCards_zero]
      rfl
  intro order
  induction order with
  | nil =>
    intro cons cur _ _ hsz
    have h : cons.any (inProgress cur) = false := by
      rw [List.any_eq_false]
      intro con hm
      have := hsz con hm
      rw [inProgress_eq]
      simp [cCards] at this
      simp [this]
    have := done [] cons cur h
    simp [walk, h, this.2]
  | cons hd rest ih =>
    obtain ⟨cd, i⟩ := hd
    intro cons cur hid hnd hsz
    rw [List.nodup_cons] at hnd
    obtain ⟨hnot, hnd'⟩ := hnd
    unfold walk
    by_cases hp : cons.any (inProgress cur) = true
    · rw [if_pos hp]
      -- the test of L866-874 is "the head card is in the union"
      have htest : cons.any (fun con => inProgress cur con && cd.has con.id) = inU cur cons ((cd, i) :: rest) (cd, i) := by
        unfold inU
        apply any_congr_mem
        intro con _
        rw [contains_head _ _ _ _ hnot, inProgress_eq, Bool.and_comm]
      by_cases ht : cons.any (fun con => inProgress cur con && cd.has con.id) = true
      · rw [if_pos ht, updContests_spec cd cons cur hid]
        simp only
        have hid' : ((cons.map (upd1 cd cur)).map (·.id)).Nodup := by
          rw [List.map_map]
          have : ((fun x : Contest => x.id) ∘ upd1 cd cur) = (fun x : Contest => x.id) := by
            funext x; exact upd1_id cd cur x
          rw [this]; exact hid
        have hneed : ∀ con ∈ cons, need (curAfter cd cur cons) (upd1 cd cur con) = stepNeed (cd, i) con.id (need cur con) := by
          intro con hm
          unfold need
          rw [upd1_id, upd1_size]
          exact need_curAfter cd i cur cons hid con hm
        have hsz' : ∀ con ∈ cons.map (upd1 cd cur), need (curAfter cd cur cons) con ≤ (cCards rest con.id).length := by
          intro con' hm'
          rw [List.mem_map] at hm'
          obtain ⟨con, hm, rfl⟩ := hm'
          rw [hneed con hm, upd1_id]
          have h1 := hsz con hm
          rw [cCards_length_cons] at h1
          unfold stepNeed
          simp only at h1 ⊢
          by_cases hh : cd.has con.id = true
          · by_cases h0 : 0 < need cur con
            · simp [hh, h0]; simp [hh] at h1; omega
            · simp [hh, h0]; omega
          · simp only [Bool.not_eq_true] at hh
            simp [hh] at h1 ⊢; exact h1
        rw [ih (cons.map (upd1 cd cur)) (curAfter cd cur cons) hid' hnd' hsz']
        simp only
        -- the selected list
        have hfilter : rest.filter (inU (curAfter cd cur cons) (cons.map (upd1 cd cur)) rest)
            = rest.filter (inU cur cons ((cd, i) :: rest)) := by
          apply List.filter_congr
          intro p hpm
          have hne : p ≠ (cd, i) := fun h => hnot (h ▸ hpm)
          unfold inU
          rw [List.any_map]
          apply any_congr_mem
          intro con hm
          simp only [Function.comp]
          rw [hneed con hm, upd1_id, contains_tail _ _ _ _ _ hne]
        have hhead : inU cur cons ((cd, i) :: rest) (cd, i) = true := by rw [← htest]; exact ht
        -- the thresholds
        have hthr : (cons.map (upd1 cd cur)).map (updThr (curAfter cd cur cons) rest)
            = cons.map (updThr cur ((cd, i) :: rest)) := by
          rw [List.map_map]
          apply List.map_congr_left
          intro con hm
          simp only [Function.comp]
          unfold updThr
          rw [hneed con hm, upd1_id, thrSpec_cons]
          unfold upd1
          rw [inProgress_eq]
          by_cases h : (cd.has con.id && decide (0 < need cur con)) = true
          · rw [if_pos h, if_pos h]
          · rw [if_neg h, if_neg h]
        rw [hfilter, hthr, List.filter_cons, hhead]
        by_cases ha : i ∈ already
        · simp [ha]
        · simp [ha]
      · rw [if_neg ht]
        -- nothing changes: every contest either does not list the card or is finished
        have hstep : ∀ con ∈ cons, stepNeed (cd, i) con.id (need cur con) = need cur con := by
          intro con hm
          simp only [Bool.not_eq_true] at ht
          rw [List.any_eq_false] at ht
          have := ht con hm
          rw [inProgress_eq] at this
          unfold stepNeed
          rw [Bool.and_comm] at this
          simp only [Bool.not_eq_true] at this
          simp [this]
        have hsz' : ∀ con ∈ cons, need cur con ≤ (cCards rest con.id).length := by
          intro con hm
          have h1 := hsz con hm
          have h2 := hstep con hm
          rw [cCards_length_cons] at h1
          unfold stepNeed at h2
          simp only at h1 h2
          by_cases hh : cd.has con.id = true
          · by_cases h0 : 0 < need cur con
            · simp [hh, h0] at h2; omega
            · omega
          · simp only [Bool.not_eq_true] at hh
            simp [hh] at h1; exact h1
        rw [ih cons cur hid hnd' hsz']
        have hfilter : rest.filter (inU cur cons rest) = rest.filter (inU cur cons ((cd, i) :: rest)) := by
          apply List.filter_congr
          intro p hpm
          have hne : p ≠ (cd, i) := fun h => hnot (h ▸ hpm)
          unfold inU
          apply any_congr_mem
          intro con hm
          rw [contains_tail _ _ _ _ _ hne, hstep con hm]
        have hhead : inU cur cons ((cd, i) :: rest) (cd, i) = false := by
          rw [← htest]; simpa using ht
        have hthr : cons.map (updThr cur rest) = cons.map (updThr cur ((cd, i) :: rest)) := by
          apply List.map_congr_left
          intro con hm
          unfold updThr
          rw [thrSpec_cons, hstep con hm]
          have : (cd.has con.id && decide (0 < need cur con)) = false := by
            have h2 := hstep con hm
            unfold stepNeed at h2
            simp only at h2
            by_cases h : (cd.has con.id && decide (0 < need cur con)) = true
            · rw [if_pos h] at h2
              simp only [Bool.and_eq_true, decide_eq_true_eq] at h
              omega
            · simpa using h
          simp only [this]
          simp
        rw [hfilter, hthr, List.filter_cons, hhead]
        simp
    · rw [if_neg hp]
      simp only [Bool.not_eq_true] at hp
      have := done ((cd, i) :: rest) cons cur hp
      rw [this.1, this.2]
      simp

/-! ### the sorted card list -/

/-- the hypothesis of C07: sample numbers are pairwise distinct -/
def DistinctNums (cards : List Card) : Prop := (cards.map (·.sampleNum)).Nodup

instance (cards : List Card) : Decidable (DistinctNums cards) :=
  inferInstanceAs (Decidable (cards.map (·.sampleNum)).Nodup)

def numLT (a b : Card × Nat) : Prop := a.1.sampleNum < b.1.sampleNum

theorem numLE_trans (a b c : Card × Nat) : numLE a b = true → numLE b c = true → numLE a c = true := by
  unfold numLE; simp only [decide_eq_true_eq]; omega

theorem numLE_total (a b : Card × Nat) : (numLE a b || numLE b a) = true := by
  unfold numLE; simp only [Bool.or_eq_true, decide_eq_true_eq]; omega

theorem sortedPairs_perm (cards : List Card) : (sortedPairs cards).Perm cards.zipIdx :=
  List.mergeSort_perm _ _

/-- the pair `(cd, i)` occurs in the sorted list iff `cd` is the `i`-th card: `cvr_list[sorted_cvr_indices[inx]]`
is the card the walk looks at -/
theorem mem_sortedPairs {cards : List Card} {p : Card × Nat} : p ∈ sortedPairs cards ↔ cards[p.2]? = some p.1 := by
  rw [(sortedPairs_perm cards).mem_iff, List.mem_zipIdx_iff_getElem?]

theorem snd_lt_of_mem_sortedPairs {cards : List Card} {p : Card × Nat} (h : p ∈ sortedPairs cards) :
    p.2 < cards.length := by
  rw [mem_sortedPairs] at h
  exact (List.getElem?_eq_some_iff.1 h).1

theorem eq_of_mem_sortedPairs_of_snd {cards : List Card} {p q : Card × Nat} (hp : p ∈ sortedPairs cards)
    (hq : q ∈ sortedPairs cards) (h : p.2 = q.2) : p = q := by
  rw [mem_sortedPairs] at hp hq
  rw [h, hq] at hp
  cases p; cases q
  simp only at h hp
  simp only [Option.some.injEq] at hp
  rw [h, hp]

theorem sortedPairs_ne {cards : List Card} (h : DistinctNums cards) :
    (sortedPairs cards).Pairwise (fun a b => a.1.sampleNum ≠ b.1.sampleNum) := by
  have h0 : ((cards.zipIdx.map Prod.fst).map (·.sampleNum)).Nodup := by rw [List.zipIdx_map_fst]; exact h
  rw [List.map_map, List.nodup_iff_pairwise_ne, List.pairwise_map] at h0
  exact (sortedPairs_perm cards).symm.pairwise h0 (fun hxy => fun h => hxy h.symm)

theorem sortedPairs_strict {cards : List Card} (h : DistinctNums cards) : (sortedPairs cards).Pairwise numLT := by
  have h1 : (sortedPairs cards).Pairwise (fun a b => numLE a b = true) :=
    List.pairwise_mergeSort numLE_trans numLE_total _
  refine List.Pairwise.imp₂ ?_ h1 (sortedPairs_ne h)
  intro a b hle hne
  unfold numLE at hle; unfold numLT
  simp only [decide_eq_true_eq] at hle
  omega

theorem sortedPairs_nodup {cards : List Card} (h : DistinctNums cards) : (sortedPairs cards).Nodup := by
  refine (sortedPairs_strict h).imp ?_
  intro a b hlt hab
  unfold numLT at hlt; rw [hab] at hlt; omega

/-- distinct cards of the sorted list have distinct sample numbers -/
theorem num_inj {cards : List Card} (h : DistinctNums cards) {a b : Card × Nat} (ha : a ∈ sortedPairs cards)
    (hb : b ∈ sortedPairs cards) (hn : a.1.sampleNum = b.1.sampleNum) : a = b := by
  have key : ∀ (l : List (Card × Nat)), l.Pairwise (fun a b => a.1.sampleNum ≠ b.1.sampleNum) →
      ∀ a ∈ l, ∀ b ∈ l, a.1.sampleNum = b.1.sampleNum → a = b := by
    intro l
    induction l with
    | nil => intro _ a ha; simp at ha
    | cons x xs ih =>
      intro hp a ha b hb hn
      rw [List.pairwise_cons] at hp
      simp only [List.mem_cons] at ha hb
      rcases ha with rfl | ha <;> rcases hb with rfl | hb
      · rfl
      · exact absurd hn (hp.1 b hb)
      · exact absurd hn.symm (hp.1 a ha)
      · exact ih hp.2 a ha b hb hn
  exact key _ (sortedPairs_ne h) a ha b hb hn

/-- two strictly sorted lists with the same elements are equal -/
theorem eq_of_perm_of_strict {α : Type} {R : α → α → Prop} (asymm : ∀ a b, R a b → R b a → False) :
    ∀ {l₁ l₂ : List α}, l₁.Perm l₂ → l₁.Pairwise R → l₂.Pairwise R → l₁ = l₂ := by
  intro l₁
  induction l₁ with
  | nil => intro l₂ hp _ _; exact (hp.symm.eq_nil).symm
  | cons a t₁ ih =>
    intro l₂ hp h1 h2
    cases l₂ with
    | nil => exact absurd hp.eq_nil (by simp)
    | cons b t₂ =>
      rw [List.pairwise_cons] at h1 h2
      have hab : a = b := by
        have ha : a ∈ b :: t₂ := hp.mem_iff.1 (by simp)
        have hb : b ∈ a :: t₁ := hp.mem_iff.2 (by simp)
        simp only [List.mem_cons] at ha hb
        rcases ha with ha | ha
        · exact ha
        · rcases hb with hb | hb
          · exact hb.symm
          · exact absurd (h1.1 b hb) (fun h => asymm _ _ h (h2.1 a ha))
      subst hab
      rw [ih hp.cons_inv h1.2 h2.2]

/-- L888-890 on a duplicate-free list of valid indices: the cards of the list in sample-number order -/
theorem sortBySampleNum_spec {cards : List Card} (h : DistinctNums cards) {l : List Nat} (hl : l.Nodup)
    (hr : ∀ i ∈ l, i < cards.length) :
    sortBySampleNum cards l = .ok (((sortedPairs cards).filter (fun p => l.contains p.2)).map (·.2)) := by
  unfold sortBySampleNum
  have hall : l.all (fun i => decide (i < cards.length)) = true := by
    rw [List.all_eq_true]; intro i hi; simpa using hr i hi
  rw [if_pos hall]
  congr 2
  -- the list of pairs that is sorted
  have hPmem : ∀ p : Card × Nat, p ∈ l.filterMap (fun i => cards[i]?.map (fun cd => (cd, i))) ↔
      (p ∈ sortedPairs cards ∧ p.2 ∈ l) := by
    intro p
    rw [List.mem_filterMap, mem_sortedPairs]
    constructor
    · rintro ⟨i, hi, he⟩
      cases hc : cards[i]? with
      | none => rw [hc] at he; simp at he
      | some cd =>
        rw [hc] at he
        simp only [Option.map_some, Option.some.injEq] at he
        subst he
        exact ⟨hc, hi⟩
    · rintro ⟨hc, hi⟩
      exact ⟨p.2, hi, by rw [hc]; rfl⟩
  have hPnd : (l.filterMap (fun i => cards[i]?.map (fun cd => (cd, i)))).Nodup := by
    refine List.Pairwise.filterMap _ ?_ hl
    intro i j hij p hp q hq hpq
    subst hpq
    cases hc : cards[i]? with
    | none => rw [hc] at hp; simp at hp
    | some cd =>
      cases hd : cards[j]? with
      | none => rw [hd] at hq; simp at hq
      | some cd' =>
        rw [hc] at hp; rw [hd] at hq
        simp only [Option.map_some, Option.some.injEq] at hp hq
        rw [← hq] at hp
        exact hij (by simpa using (Prod.mk.inj hp).2)
  have hTnd : ((sortedPairs cards).filter (fun p => l.contains p.2)).Nodup :=
    List.Nodup.sublist List.filter_sublist (sortedPairs_nodup h)
  have hperm : ((l.filterMap (fun i => cards[i]?.map (fun cd => (cd, i)))).mergeSort numLE).Perm
      ((sortedPairs cards).filter (fun p => l.contains p.2)) := by
    refine (List.mergeSort_perm _ _).trans ?_
    rw [List.perm_ext_iff_of_nodup hPnd hTnd]
    intro p
    rw [hPmem, List.mem_filter]
    simp
  apply eq_of_perm_of_strict (R := numLT) (fun a b h1 h2 => by unfold numLT at h1 h2; omega) hperm
  · -- the merge sort output is ≤-sorted, duplicate-free and consists of cards of the list
    have h1 : ((l.filterMap (fun i => cards[i]?.map (fun cd => (cd, i)))).mergeSort numLE).Pairwise
        (fun a b => numLE a b = true) := List.pairwise_mergeSort numLE_trans numLE_total _
    have h2 : ((l.filterMap (fun i => cards[i]?.map (fun cd => (cd, i)))).mergeSort numLE).Nodup :=
      (List.mergeSort_perm _ _).symm.nodup hPnd
    refine List.Pairwise.imp_of_mem ?_ (h1.and h2)
    intro a b ha hb hab
    have ha' := ((hPmem a).1 ((List.mergeSort_perm _ _).mem_iff.1 ha)).1
    have hb' := ((hPmem b).1 ((List.mergeSort_perm _ _).mem_iff.1 hb)).1
    have hle := hab.1
    unfold numLE at hle; unfold numLT
    simp only [decide_eq_true_eq] at hle
    have : a.1.sampleNum ≠ b.1.sampleNum := fun hn => hab.2 (num_inj h ha' hb' hn)
    omega
  · exact (sortedPairs_strict h).sublist List.filter_sublist

/-! ### `consistentSampling` -/

theorem inU_zero (contests : List Contest) (S : List (Card × Nat)) :
    inU (fun _ => 0) contests S = inUnion S contests := by
  funext p; unfold inU inUnion need; simp

theorem updThr_zero (S : List (Card × Nat)) (con : Contest) :
    updThr (fun _ => 0) S con = { con with sampleThreshold := thrSpec S con.id con.sampleSize con.sampleThreshold } := by
  unfold updThr need; simp

/-- the selection in closed form: the cards of the union of the per-contest prefixes and of the carried-over
list, in sample-number order -/
def selSpec (cards : List Card) (contests : List Contest) (prev0 : List Nat) : List Nat :=
  ((sortedPairs cards).filter (fun p => inUnion (sortedPairs cards) contests p || prev0.contains p.2)).map (·.2)

def consSpec (cards : List Card) (contests : List Contest) : List Contest :=
  contests.map (fun con =>
    { con with sampleThreshold := thrSpec (sortedPairs cards) con.id con.sampleSize con.sampleThreshold })

/-- **refinement**: for distinct sample numbers, distinct contest ids, feasible sizes and a duplicate-free
carried-over list of valid indices, the literal `consistentSampling` computes `selSpec`, `consSpec` -/
theorem consistentSampling_spec (cards : List Card) (contests : List Contest) (prev : Option (List Nat))
    (hnum : DistinctNums cards) (hid : (contests.map (·.id)).Nodup)
    (hsz : ∀ con ∈ contests, con.sampleSize ≤ (cCards (sortedPairs cards) con.id).length)
    (hprev : (prev.getD []).Nodup) (hrange : ∀ i ∈ prev.getD [], i < cards.length) :
    consistentSampling cards contests prev =
      .ok (selSpec cards contests (prev.getD []), consSpec cards contests,
           (List.range cards.length).map (fun i => (selSpec cards contests (prev.getD [])).contains i)) := by
  unfold consistentSampling
  have hS := sortedPairs_nodup hnum
  have hsz' : ∀ con ∈ contests, need (fun _ => 0) con ≤ (cCards (sortedPairs cards) con.id).length := by
    intro con hm; unfold need; simpa using hsz con hm
  simp only
  rw [walk_spec (prev.getD []) (sortedPairs cards) contests (fun _ => 0) hid hS hsz', inU_zero]
  simp only
  -- the unsorted list: carried-over ++ new
  have hnew_mem : ∀ i, i ∈ (((sortedPairs cards).filter (inUnion (sortedPairs cards) contests)).filter
        (fun p => !(prev.getD []).contains p.2)).map (·.2) ↔
      ∃ p ∈ sortedPairs cards, inUnion (sortedPairs cards) contests p = true ∧ p.2 ∉ prev.getD [] ∧ p.2 = i := by
    intro i
    simp only [List.mem_map, List.mem_filter, Bool.not_eq_true', List.contains_eq_mem, decide_eq_false_iff_not]
    constructor
    · rintro ⟨p, ⟨⟨h1, h2⟩, h3⟩, h4⟩; exact ⟨p, h1, h2, h3, h4⟩
    · rintro ⟨p, h1, h2, h3, h4⟩; exact ⟨p, ⟨⟨h1, h2⟩, h3⟩, h4⟩
  have hidx : ((sortedPairs cards).map (·.2)).Nodup := by
    have : ((sortedPairs cards).map (·.2)).Perm (cards.zipIdx.map (·.2)) := (sortedPairs_perm cards).map _
    refine this.symm.nodup ?_
    have h2 : cards.zipIdx.map (·.2) = List.range' 0 cards.length := List.zipIdx_map_snd 0 cards
    rw [h2]; exact List.nodup_range'
  have hnd : (prev.getD [] ++ (((sortedPairs cards).filter (inUnion (sortedPairs cards) contests)).filter
        (fun p => !(prev.getD []).contains p.2)).map (·.2)).Nodup := by
    rw [List.nodup_append]
    refine ⟨hprev, ?_, ?_⟩
    · exact List.Nodup.sublist ((List.filter_sublist.trans List.filter_sublist).map _) hidx
    · intro a ha b hb hab
      rw [hnew_mem] at hb
      obtain ⟨p, _, _, h3, h4⟩ := hb
      exact h3 (h4 ▸ hab ▸ ha)
  have hrg : ∀ i ∈ (prev.getD [] ++ (((sortedPairs cards).filter (inUnion (sortedPairs cards) contests)).filter
        (fun p => !(prev.getD []).contains p.2)).map (·.2)), i < cards.length := by
    intro i hi
    rw [List.mem_append] at hi
    rcases hi with hi | hi
    · exact hrange i hi
    · rw [hnew_mem] at hi
      obtain ⟨p, h1, _, _, h4⟩ := hi
      exact h4 ▸ snd_lt_of_mem_sortedPairs h1
  rw [sortBySampleNum_spec hnum hnd hrg]
  simp only
  have hsel : ((sortedPairs cards).filter (fun p => (prev.getD [] ++ (((sortedPairs cards).filter
        (inUnion (sortedPairs cards) contests)).filter (fun p => !(prev.getD []).contains p.2)).map (·.2)).contains p.2)).map (·.2)
      = selSpec cards contests (prev.getD []) := by
    unfold selSpec
    congr 1
    apply List.filter_congr
    intro p hp
    rw [Bool.eq_iff_iff, Bool.or_eq_true, List.contains_iff_mem, List.contains_iff_mem, List.mem_append, hnew_mem]
    constructor
    · rintro (h | ⟨q, hq, h2, _, h4⟩)
      · exact Or.inr h
      · have := eq_of_mem_sortedPairs_of_snd hq hp h4
        subst this
        exact Or.inl h2
    · rintro (h | h)
      · by_cases hm : p.2 ∈ prev.getD []
        · exact Or.inl hm
        · exact Or.inr ⟨p, hp, h, hm, rfl⟩
      · exact Or.inl h
  rw [hsel]
  have hcons : contests.map (updThr (fun _ => 0) (sortedPairs cards)) = consSpec cards contests := by
    unfold consSpec
    apply List.map_congr_left
    intro con _
    exact updThr_zero _ con
  rw [hcons]

/-! ### thresholds and the data filter -/

theorem firstCards_ne_nil {S : List (Card × Nat)} {c : ContestId} {n : Nat} (h1 : 1 ≤ n)
    (h2 : n ≤ (cCards S c).length) : firstCards S c n ≠ [] := by
  unfold firstCards
  intro h
  have := congrArg List.length h
  rw [List.length_take, List.length_nil] at this
  omega

/-- for `1 ≤ n ≤ #cards listing c` the threshold is the sample number of the contest's `n`-th card -/
theorem thrSpec_eq {S : List (Card × Nat)} {c : ContestId} {n : Nat} (h1 : 1 ≤ n)
    (h2 : n ≤ (cCards S c).length) (old : Option Nat) :
    ∃ p, (cCards S c)[n - 1]? = some p ∧ (firstCards S c n).getLast? = some p ∧
      thrSpec S c n old = some p.1.sampleNum := by
  have hlt : n - 1 < (cCards S c).length := by omega
  refine ⟨(cCards S c)[n - 1], List.getElem?_eq_getElem hlt, ?_, ?_⟩
  · unfold firstCards
    rw [List.getLast?_take, if_neg (by omega), List.getElem?_eq_getElem hlt]; rfl
  · unfold thrSpec firstCards
    rw [List.getLast?_take, if_neg (by omega), List.getElem?_eq_getElem hlt]; rfl

theorem thrSpec_zero (S : List (Card × Nat)) (c : ContestId) (old : Option Nat) : thrSpec S c 0 old = old := by
  unfold thrSpec; rw [firstCards_zero]; rfl

/-- in a strictly sorted list, the cards listing `c` whose sample number is at most that of the last of the
first `n` are exactly the first `n` -/
theorem keep_iff_mem_firstCards {S : List (Card × Nat)} (hS : S.Pairwise numLT) {c : ContestId} {n : Nat}
    {l : Card × Nat} (hl : (firstCards S c n).getLast? = some l) (p : Card × Nat) (hp : p ∈ S) :
    (p.1.has c && decide (p.1.sampleNum ≤ l.1.sampleNum)) = (firstCards S c n).contains p := by
  have hL : (cCards S c).Pairwise numLT := hS.sublist List.filter_sublist
  have hsplit : firstCards S c n ++ (cCards S c).drop n = cCards S c := List.take_append_drop n _
  rw [← hsplit, List.pairwise_append] at hL
  obtain ⟨hF, _, hFG⟩ := hL
  obtain ⟨ys, hys⟩ := List.getLast?_eq_some_iff.1 hl
  have hle : ∀ q ∈ firstCards S c n, q.1.sampleNum ≤ l.1.sampleNum := by
    intro q hq
    rw [hys] at hq hF
    rw [List.pairwise_append] at hF
    rw [List.mem_append] at hq
    rcases hq with hq | hq
    · have := hF.2.2 q hq l (by simp); unfold numLT at this; omega
    · simp at hq; rw [hq]; exact Nat.le_refl _
  have hlmem : l ∈ firstCards S c n := List.mem_of_getLast? hl
  rw [Bool.eq_iff_iff, Bool.and_eq_true, decide_eq_true_eq, List.contains_iff_mem]
  constructor
  · rintro ⟨hh, hn⟩
    have hpL : p ∈ cCards S c := by unfold cCards; rw [List.mem_filter]; exact ⟨hp, hh⟩
    rw [← hsplit, List.mem_append] at hpL
    rcases hpL with h | h
    · exact h
    · have := hFG l hlmem p h; unfold numLT at this; omega
  · intro h
    refine ⟨?_, hle p h⟩
    have : p ∈ cCards S c := (List.take_sublist _ _).subset h
    unfold cCards at this; rw [List.mem_filter] at this; exact this.2

/-- filtering a duplicate-free list by membership in one of its sublists returns the sublist -/
theorem filter_contains_sublist {α : Type} [DecidableEq α] : ∀ {sub l : List α}, sub.Sublist l → l.Nodup →
    l.filter (fun x => sub.contains x) = sub := by
  intro sub l h
  induction h with
  | slnil => intro _; rfl
  | @cons sub l a hs ih =>
    intro hnd
    rw [List.nodup_cons] at hnd
    have : a ∉ sub := fun hm => hnd.1 (hs.subset hm)
    rw [List.filter_cons]
    simp only [List.contains_eq_mem, decide_eq_true_eq, this, if_false]
    simpa using ih hnd.2
  | @cons_cons sub l a hs ih =>
    intro hnd
    rw [List.nodup_cons] at hnd
    rw [List.filter_cons]
    simp only [List.contains_eq_mem, List.mem_cons, true_or, decide_true, if_true]
    congr 1
    have hc : l.filter (fun x => decide (x = a ∨ x ∈ sub)) = l.filter (fun x => sub.contains x) := by
      apply List.filter_congr
      intro x hx
      have : x ≠ a := fun h => hnd.1 (h ▸ hx)
      simp [this]
    rw [hc]; exact ih hnd.2

/-- positions that pass a filter, looked up again, are the elements that pass it -/
theorem positions_lookup {γ α β : Type} (g : γ → α) (h : γ → β) (f : α → Bool) : ∀ (l : List γ) (pre : List β),
    ((((l.map g).zipIdx pre.length).filter (fun q => f q.1)).map (·.2)).filterMap (fun pos => (pre ++ l.map h)[pos]?)
      = (l.filter (fun x => f (g x))).map h := by
  intro l
  induction l with
  | nil => intro pre; simp
  | cons x xs ih =>
    intro pre
    have hpre : pre ++ List.map h (x :: xs) = (pre ++ [h x]) ++ List.map h xs := by simp
    have hlen : (pre ++ [h x]).length = pre.length + 1 := by simp
    have ih' := ih (pre ++ [h x])
    rw [hlen] at ih'
    simp only [List.map_cons, List.zipIdx_cons, List.filter_cons]
    by_cases hf : f (g x) = true
    · simp only [hf, if_true, List.map_cons]
      rw [List.filterMap_cons_some (b := h x)]
      · rw [← List.map_cons, hpre, ih']
      · rw [List.getElem?_append_right (Nat.le_refl _)]; simp
    · rw [if_neg hf, if_neg hf, ← List.map_cons, hpre, ih']

theorem lookup_cards {cards : List Card} : ∀ {T : List (Card × Nat)}, (∀ p ∈ T, p ∈ sortedPairs cards) →
    (T.map (·.2)).filterMap (fun i => cards[i]?) = T.map (·.1) := by
  intro T
  induction T with
  | nil => intro _; rfl
  | cons p T ih =>
    intro h
    have hp := mem_sortedPairs.1 (h p (by simp))
    rw [List.map_cons, List.filterMap_cons_some hp, List.map_cons, ih (fun q hq => h q (by simp [hq]))]

/-- **the data of a contest**: on any selection that is a filter of the sorted list containing the contest's
first `n ≥ 1` cards, the cards passing `mvrs_to_data`'s filter (style information used, threshold = the
sample number of the contest's `n`-th card) are exactly the contest's first `n` cards, in that order -/
theorem dataCards_filter {cards : List Card} (hnum : DistinctNums cards) (Q : Card × Nat → Bool)
    (con : Contest) {n : Nat} (h1 : 1 ≤ n) (h2 : n ≤ (cCards (sortedPairs cards) con.id).length)
    (hQ : ∀ p ∈ firstCards (sortedPairs cards) con.id n, Q p = true)
    (hthr : con.sampleThreshold = thrSpec (sortedPairs cards) con.id n none) :
    Rounds.dataCards true cards con (((sortedPairs cards).filter Q).map (·.2)) =
      .ok ((firstCards (sortedPairs cards) con.id n).map (·.2)) := by
  obtain ⟨l, _, hlast, hthr'⟩ := thrSpec_eq h1 h2 none
  rw [hthr'] at hthr
  unfold Rounds.dataCards
  rw [lookup_cards (fun p hp => (List.mem_filter.1 hp).1)]
  unfold dataIndices
  simp only [hthr]
  have := positions_lookup (γ := Card × Nat) (fun p => p.1) (fun p => p.2)
    (keep true false con.id l.1.sampleNum) ((sortedPairs cards).filter Q) []
  simp only [List.length_nil, List.nil_append] at this
  rw [this, List.filter_filter]
  congr 2
  rw [← filter_contains_sublist (firstCards_sublist (sortedPairs cards) con.id n) (sortedPairs_nodup hnum)]
  apply List.filter_congr
  intro p hp
  have hk := keep_iff_mem_firstCards (sortedPairs_strict hnum) hlast p hp
  unfold keep
  simp only [Bool.not_true, Bool.false_or]
  rw [hk]
  by_cases hm : p ∈ firstCards (sortedPairs cards) con.id n
  · have hq := hQ p hm
    simp [hm, hq]
  · simp [hm]

/-- "the cards available": the number of cards of the sorted list that list `c` is the number of cards that list `c` -/
theorem cCards_length (cards : List Card) (c : ContestId) :
    (cCards (sortedPairs cards) c).length = (cards.filter (fun cd => cd.has c)).length := by
  unfold cCards
  rw [((sortedPairs_perm cards).filter _).length_eq]
  have : cards.filter (fun cd => cd.has c) = (cards.zipIdx.map Prod.fst).filter (fun cd => cd.has c) := by
    rw [List.zipIdx_map_fst]
  rw [this, List.filter_map, List.length_map]
  rfl

end Shangrla.Sampling
