/-
  Helper lemmas for the Kaplan tests and the SPRT of `Shangrla.NM` (properties C11, C12):

  * A. the p-value of a good statistic as a rational (`pv`), in all four argument orders used by the
       code, and the order-reversal lemma `min(1, 1/max L) = min (map (min(1,1/.)) L)`;
  * B. the same for statistics that are themselves p-values (Kaplan-Markov): `cap`;
  * C. what `XR.minList` of a list of p-values is (a member, below every member);
  * D. `XR.cumprodFrom`: length, entries when the factors are finite, closure properties, `nan`/`pinf`;
  * E. indexing into the vectors built by the model (`prefixSumsFrom`, `nullMeansFrom`, `mapIdxFrom`);
  * F. monotonicity of the null means (numerators non-increasing; once above `u`, always above `u`).
-/
import Shangrla.Lemmas.XRBasic
import Shangrla.Model.NonnegMean
import Mathlib.Tactic.Linarith
import Mathlib.Tactic.Positivity
import Mathlib.Tactic.FieldSimp
import Mathlib.Tactic.Ring
import Mathlib.Tactic.NormNum
import Mathlib.Algebra.Order.Field.Basic
import Mathlib.Algebra.Order.Ring.Rat

namespace Shangrla.XR

/-! ### A. reciprocal p-values -/

/-- `min(1, 1/q)` for `q ≥ 0`, reading `1/0` as `+inf` -/
def rho (q : Rat) : Rat := if 1 < q then 1 / q else 1

theorem rho_pos (q : Rat) : 0 < rho q := by
  unfold rho; split
  · rename_i h; have : (0 : Rat) < q := by linarith
    positivity
  · norm_num

theorem rho_le_one (q : Rat) : rho q ≤ 1 := by
  unfold rho; split
  · rename_i h
    have h0 : (0 : Rat) < q := by linarith
    rw [div_le_one h0]; exact le_of_lt h
  · exact le_refl _

theorem rho_antitone {p q : Rat} (h : p ≤ q) : rho q ≤ rho p := by
  unfold rho
  by_cases hq : 1 < q
  · rw [if_pos hq]
    have hq0 : (0 : Rat) < q := by linarith
    by_cases hp : 1 < p
    · rw [if_pos hp]
      have hp0 : (0 : Rat) < p := by linarith
      exact one_div_le_one_div_of_le hp0 h
    · rw [if_neg hp, div_le_one hq0]; exact le_of_lt hq
  · have hp : ¬ 1 < p := fun hp => hq (lt_of_lt_of_le hp h)
    rw [if_neg hq, if_neg hp]

theorem rho_eq_min {q : Rat} (h : 0 < q) : rho q = min 1 (1 / q) := by
  unfold rho
  by_cases hq : 1 < q
  · rw [if_pos hq, min_eq_right]
    rw [div_le_one h]; exact le_of_lt hq
  · rw [if_neg hq, min_eq_left]
    rw [le_div_iff₀ h]; linarith

theorem rho_zero : rho 0 = 1 := by unfold rho; norm_num

/-- the p-value `min(1, 1/T)` of a good statistic, as a rational (`1/inf = 0`, `1/0 = inf`) -/
def pv : XR → Rat
  | fin q => rho q
  | _ => 0

@[simp] theorem pv_fin (q : Rat) : pv (fin q) = rho q := rfl
@[simp] theorem pv_pinf : pv pinf = 0 := rfl

theorem pv_nonneg (T : XR) : 0 ≤ pv T := by
  cases T <;> simp [pv, le_of_lt (rho_pos _)]

theorem pv_le_one (T : XR) : pv T ≤ 1 := by
  cases T <;> simp [pv, rho_le_one]

theorem isP_pv (T : XR) : IsP (fin (pv T)) := ⟨pv_nonneg T, pv_le_one T⟩

theorem npmin_fin_fin (a b : Rat) : npmin (fin a) (fin b) = fin (min a b) := by
  simp only [npmin, isNan_fin, Bool.or_self, Bool.false_eq_true, ↓reduceIte, lt_fin, decide_eq_true_eq]
  by_cases h : b < a
  · rw [if_pos h, min_eq_right (le_of_lt h)]
  · rw [if_neg h, min_eq_left (not_lt.mp h)]

theorem pymin_fin_fin (a b : Rat) : pymin (fin a) (fin b) = fin (min a b) := by
  simp only [pymin, lt_fin, decide_eq_true_eq]
  by_cases h : b < a
  · rw [if_pos h, min_eq_right (le_of_lt h)]
  · rw [if_neg h, min_eq_left (not_lt.mp h)]

theorem one_div_pinf : ((1 : XR) / pinf) = fin 0 := rfl
theorem one_div_zero : ((1 : XR) / fin 0) = pinf := by
  show div (fin 1) (fin 0) = pinf
  simp [div]
theorem one_div_fin {q : Rat} (h : q ≠ 0) : ((1 : XR) / fin q) = fin (1 / q) := by
  rw [one_def, fin_div _ _ h]

/-- `1/T` of a good statistic is `fin (1/q)`, `q > 0`, or `+inf`, or `0`; in every case the minimum
with `1`, in either order and with either minimum function, is `fin (pv T)` -/
theorem min_inv_all {T : XR} (h : Good T) :
    npmin 1 ((1 : XR) / T) = fin (pv T) ∧ npmin ((1 : XR) / T) 1 = fin (pv T) ∧
    pymin 1 ((1 : XR) / T) = fin (pv T) ∧ pymin ((1 : XR) / T) 1 = fin (pv T) := by
  rcases h.cases with rfl | ⟨q, hq, rfl⟩
  · rw [one_div_pinf, one_def, npmin_fin_fin, npmin_fin_fin, pymin_fin_fin, pymin_fin_fin]
    simp [pv]
  · by_cases h0 : q = 0
    · subst h0
      rw [one_div_zero]
      simp [npmin, pymin, lt, isNan, pv, rho_zero]
    · have hpos : 0 < q := lt_of_le_of_ne hq (Ne.symm h0)
      rw [one_div_fin h0, one_def, npmin_fin_fin, npmin_fin_fin, pymin_fin_fin, pymin_fin_fin,
        pv_fin, rho_eq_min hpos, min_comm (1 / q) 1]
      exact ⟨rfl, rfl, rfl, rfl⟩

theorem npmin_one_inv {T : XR} (h : Good T) : npmin 1 ((1 : XR) / T) = fin (pv T) := (min_inv_all h).1
theorem npmin_inv_one {T : XR} (h : Good T) : npmin ((1 : XR) / T) 1 = fin (pv T) := (min_inv_all h).2.1
theorem pymin_one_inv {T : XR} (h : Good T) : pymin 1 ((1 : XR) / T) = fin (pv T) := (min_inv_all h).2.2.1
theorem pymin_inv_one {T : XR} (h : Good T) : pymin ((1 : XR) / T) 1 = fin (pv T) := (min_inv_all h).2.2.2

theorem npmax_pinf_left {b : XR} (hb : Good b) : npmax pinf b = pinf := by
  rcases hb.cases with rfl | ⟨q, _, rfl⟩ <;> simp [npmax, isNan, lt]
theorem npmax_pinf_right {a : XR} (ha : Good a) : npmax a pinf = pinf := by
  rcases ha.cases with rfl | ⟨q, _, rfl⟩ <;> simp [npmax, isNan, lt]
theorem npmax_fin_fin (a b : Rat) : npmax (fin a) (fin b) = fin (max a b) := by
  simp only [npmax, isNan_fin, Bool.or_self, Bool.false_eq_true, ↓reduceIte, lt_fin, decide_eq_true_eq]
  by_cases h : a < b
  · rw [if_pos h, max_eq_right (le_of_lt h)]
  · rw [if_neg h, max_eq_left (not_lt.mp h)]

/-- order reversal, one step: the p-value of the larger statistic is the smaller p-value -/
theorem pv_npmax {a b : XR} (ha : Good a) (hb : Good b) : pv (npmax a b) = min (pv a) (pv b) := by
  rcases ha.cases with rfl | ⟨p, hp, rfl⟩
  · rw [npmax_pinf_left hb, pv_pinf, min_eq_left (pv_nonneg b)]
  · rcases hb.cases with rfl | ⟨q, hq, rfl⟩
    · rw [npmax_pinf_right (good_fin hp), pv_pinf, min_eq_right (pv_nonneg _)]
    · rw [npmax_fin_fin, pv_fin, pv_fin, pv_fin]
      rcases le_total p q with h | h
      · rw [max_eq_right h, min_eq_right (rho_antitone h)]
      · rw [max_eq_left h, min_eq_left (rho_antitone h)]

theorem good_foldl_npmax (l : List XR) : ∀ a : XR, Good a → (∀ b ∈ l, Good b) → Good (l.foldl npmax a) := by
  induction l with
  | nil => intro a ha _; exact ha
  | cons b l ih =>
    intro a ha hl
    exact ih _ (good_npmax ha (hl b (by simp))) (fun c hc => hl c (by simp [hc]))

theorem good_maxList {L : List XR} (hne : L ≠ []) (hL : ∀ T ∈ L, Good T) : Good (maxList L) := by
  cases L with
  | nil => exact absurd rfl hne
  | cons a l => exact good_foldl_npmax l a (hL a (by simp)) (fun b hb => hL b (by simp [hb]))

theorem pv_foldl_npmax (l : List XR) : ∀ a : XR, Good a → (∀ b ∈ l, Good b) →
    fin (pv (l.foldl npmax a)) = (l.map (fun T => fin (pv T))).foldl npmin (fin (pv a)) := by
  induction l with
  | nil => intro a _ _; rfl
  | cons b l ih =>
    intro a ha hl
    have hb : Good b := hl b (by simp)
    simp only [List.foldl_cons, List.map_cons]
    rw [ih _ (good_npmax ha hb) (fun c hc => hl c (by simp [hc])), pv_npmax ha hb, npmin_fin_fin]

/-- order reversal for `np.max`: `fin (pv (max L)) = min (map pv L)` -/
theorem pv_maxList {L : List XR} (hne : L ≠ []) (hL : ∀ T ∈ L, Good T) :
    fin (pv (maxList L)) = minList (L.map (fun T => fin (pv T))) := by
  cases L with
  | nil => exact absurd rfl hne
  | cons a l => exact pv_foldl_npmax l a (hL a (by simp)) (fun b hb => hL b (by simp [hb]))

theorem map_congr_good {L : List XR} {f g : XR → XR} (hL : ∀ T ∈ L, Good T)
    (h : ∀ T, Good T → f T = g T) : L.map f = L.map g :=
  List.map_congr_left (fun T hT => h T (hL T hT))

/-- **order reversal** (`alpha_mart`, `betting_mart`, `wald_sprt`):
`min(1, 1/np.max(terms)) = np.min(np.minimum(1, 1/terms))` -/
theorem pymin_one_inv_maxList {L : List XR} (hne : L ≠ []) (hL : ∀ T ∈ L, Good T) :
    pymin 1 ((1 : XR) / maxList L) = minList (L.map (fun T => npmin 1 ((1 : XR) / T))) := by
  rw [pymin_one_inv (good_maxList hne hL), pv_maxList hne hL,
    map_congr_good hL (fun T hT => npmin_one_inv hT)]

/-- order reversal, argument order of `kaplan_kolmogorov`: `min(1/np.max(terms), 1)` vs `np.minimum(1/terms, 1)` -/
theorem pymin_inv_one_maxList {L : List XR} (hne : L ≠ []) (hL : ∀ T ∈ L, Good T) :
    pymin ((1 : XR) / maxList L) 1 = minList (L.map (fun T => npmin ((1 : XR) / T) 1)) := by
  rw [pymin_inv_one (good_maxList hne hL), pv_maxList hne hL,
    map_congr_good hL (fun T hT => npmin_inv_one hT)]

/-- order reversal, argument order of `kaplan_wald`: `np.min([1, 1/np.max(T)])` vs `np.minimum(1/T, 1)` -/
theorem npmin_one_inv_maxList {L : List XR} (hne : L ≠ []) (hL : ∀ T ∈ L, Good T) :
    npmin 1 ((1 : XR) / maxList L) = minList (L.map (fun T => npmin ((1 : XR) / T) 1)) := by
  rw [npmin_one_inv (good_maxList hne hL), pv_maxList hne hL,
    map_congr_good hL (fun T hT => npmin_inv_one hT)]

/-! ### B. statistics that are p-values (Kaplan-Markov): capping at one -/

/-- `min(p, 1)` of a good value -/
def cap : XR → Rat
  | fin q => min q 1
  | _ => 1

@[simp] theorem cap_fin (q : Rat) : cap (fin q) = min q 1 := rfl
@[simp] theorem cap_pinf : cap pinf = 1 := rfl

theorem cap_le_one (T : XR) : cap T ≤ 1 := by
  cases T <;> simp [cap]

theorem isP_cap {T : XR} (h : Good T) : IsP (fin (cap T)) := by
  refine ⟨?_, cap_le_one T⟩
  rcases h.cases with rfl | ⟨q, hq, rfl⟩
  · simp
  · rw [cap_fin]; exact le_min hq (by norm_num)

theorem npmin_cap {T : XR} (h : Good T) : npmin T 1 = fin (cap T) ∧ npmin 1 T = fin (cap T) := by
  rcases h.cases with rfl | ⟨q, hq, rfl⟩
  · simp [npmin, isNan, lt]
  · rw [one_def, npmin_fin_fin, npmin_fin_fin, cap_fin, min_comm]
    exact ⟨rfl, rfl⟩

theorem good_npmin {a b : XR} (ha : Good a) (hb : Good b) : Good (npmin a b) := by
  rcases ha.cases with rfl | ⟨p, hp, rfl⟩ <;> rcases hb.cases with rfl | ⟨q, hq, rfl⟩
  · simp [npmin, isNan, lt, Good]
  · simp only [npmin, isNan, lt, Bool.or_self, Bool.false_eq_true, ↓reduceIte]; exact hq
  · simp only [npmin, isNan, lt, Bool.or_self, Bool.false_eq_true, ↓reduceIte]; exact hp
  · rw [npmin_fin_fin]; exact le_min hp hq

theorem cap_npmin {a b : XR} (ha : Good a) (hb : Good b) : cap (npmin a b) = min (cap a) (cap b) := by
  rcases ha.cases with rfl | ⟨p, hp, rfl⟩ <;> rcases hb.cases with rfl | ⟨q, hq, rfl⟩
  · simp [npmin, isNan, lt]
  · simp only [npmin, isNan, lt, Bool.or_self, Bool.false_eq_true, ↓reduceIte, cap_pinf, cap_fin]
    rw [min_eq_right (min_le_right _ _)]
  · simp only [npmin, isNan, lt, Bool.or_self, Bool.false_eq_true, ↓reduceIte, cap_pinf, cap_fin]
    rw [min_eq_left (min_le_right _ _)]
  · rw [npmin_fin_fin, cap_fin, cap_fin, cap_fin]
    rw [min_min_min_comm, min_self]

theorem good_foldl_npmin (l : List XR) : ∀ a : XR, Good a → (∀ b ∈ l, Good b) → Good (l.foldl npmin a) := by
  induction l with
  | nil => intro a ha _; exact ha
  | cons b l ih =>
    intro a ha hl
    exact ih _ (good_npmin ha (hl b (by simp))) (fun c hc => hl c (by simp [hc]))

theorem good_minList {L : List XR} (hne : L ≠ []) (hL : ∀ T ∈ L, Good T) : Good (minList L) := by
  cases L with
  | nil => exact absurd rfl hne
  | cons a l => exact good_foldl_npmin l a (hL a (by simp)) (fun b hb => hL b (by simp [hb]))

theorem cap_foldl_npmin (l : List XR) : ∀ a : XR, Good a → (∀ b ∈ l, Good b) →
    fin (cap (l.foldl npmin a)) = (l.map (fun T => fin (cap T))).foldl npmin (fin (cap a)) := by
  induction l with
  | nil => intro a _ _; rfl
  | cons b l ih =>
    intro a ha hl
    have hb : Good b := hl b (by simp)
    simp only [List.foldl_cons, List.map_cons]
    rw [ih _ (good_npmin ha hb) (fun c hc => hl c (by simp [hc])), cap_npmin ha hb, npmin_fin_fin]

/-- `kaplan_markov`: `np.min([1, np.min(p_history)]) = np.min(np.minimum(p_history, 1))` -/
theorem npmin_one_minList {L : List XR} (hne : L ≠ []) (hL : ∀ T ∈ L, Good T) :
    npmin 1 (minList L) = minList (L.map (fun T => npmin T 1)) := by
  rw [(npmin_cap (good_minList hne hL)).2, map_congr_good hL (fun T hT => (npmin_cap hT).1)]
  cases L with
  | nil => exact absurd rfl hne
  | cons a l => exact cap_foldl_npmin l a (hL a (by simp)) (fun b hb => hL b (by simp [hb]))

/-! ### C. `minList` of a list of p-values -/

theorem foldl_npmin_isP (l : List XR) : ∀ a : XR, IsP a → (∀ b ∈ l, IsP b) →
    IsP (l.foldl npmin a) ∧ (l.foldl npmin a) ∈ a :: l ∧ ∀ h ∈ a :: l, le (l.foldl npmin a) h = true := by
  induction l with
  | nil =>
    intro a ha _
    refine ⟨ha, by simp, ?_⟩
    intro h hh
    simp only [List.mem_singleton] at hh
    subst hh
    cases h <;> simp_all [IsP, le]
  | cons b l ih =>
    intro a ha hl
    have hb : IsP b := hl b (by simp)
    obtain ⟨p, rfl⟩ : ∃ p, a = fin p := by cases a <;> simp_all [IsP]
    obtain ⟨q, rfl⟩ : ∃ q, b = fin q := by cases b <;> simp_all [IsP]
    have hab : IsP (npmin (fin p) (fin q)) := by
      rw [npmin_fin_fin]; exact ⟨le_min ha.1 hb.1, le_trans (min_le_left _ _) ha.2⟩
    obtain ⟨h1, h2, h3⟩ := ih _ hab (fun c hc => hl c (by simp [hc]))
    simp only [List.foldl_cons]
    refine ⟨h1, ?_, ?_⟩
    · rw [List.mem_cons] at h2
      rcases h2 with h2 | h2
      · rw [h2, npmin_fin_fin]
        rcases le_total p q with h | h
        · rw [min_eq_left h]; simp
        · rw [min_eq_right h]; simp
      · simp [h2]
    · intro h hh
      have hmin := h3 _ (List.mem_cons_self)
      obtain ⟨r, hr⟩ : ∃ r, l.foldl npmin (npmin (fin p) (fin q)) = fin r := by
        cases hx : l.foldl npmin (npmin (fin p) (fin q)) with
        | fin r => exact ⟨r, rfl⟩
        | pinf => rw [hx] at h1; exact absurd h1 id
        | ninf => rw [hx] at h1; exact absurd h1 id
        | nan => rw [hx] at h1; exact absurd h1 id
      rw [hr, npmin_fin_fin, le_fin, decide_eq_true_eq] at hmin
      simp only [List.mem_cons] at hh
      rcases hh with rfl | rfl | hh
      · rw [hr, le_fin, decide_eq_true_eq]; exact le_trans hmin (min_le_left _ _)
      · rw [hr, le_fin, decide_eq_true_eq]; exact le_trans hmin (min_le_right _ _)
      · exact h3 h (by simp [hh])

/-- `np.min` of a non-empty list of p-values is a p-value, occurs in the list, and is `≤` every entry -/
theorem minList_isP {L : List XR} (hne : L ≠ []) (hL : ∀ h ∈ L, IsP h) :
    IsP (minList L) ∧ minList L ∈ L ∧ ∀ h ∈ L, le (minList L) h = true := by
  cases L with
  | nil => exact absurd rfl hne
  | cons a l => exact foldl_npmin_isP l a (hL a (by simp)) (fun b hb => hL b (by simp [hb]))

/-! ### D. `cumprodFrom` -/

theorem cumprodFrom_length (l : List XR) : ∀ acc : XR, (cumprodFrom acc l).length = l.length := by
  induction l with
  | nil => intro _; rfl
  | cons a l ih => intro acc; simp [cumprodFrom, ih]

theorem cumprod_length (l : List XR) : (cumprod l).length = l.length := cumprodFrom_length l 1

theorem nan_mul (a : XR) : (nan * a : XR) = nan := by
  show mul nan a = nan
  cases a <;> rfl

theorem mul_nan (a : XR) : (a * nan : XR) = nan := by
  show mul a nan = nan
  cases a <;> rfl

/-- once the running product is `nan` it stays `nan` -/
theorem cumprodFrom_nan (l : List XR) : cumprodFrom nan l = l.map (fun _ => nan) := by
  induction l with
  | nil => rfl
  | cons a l ih => simp [cumprodFrom, nan_mul, ih]

/-- the partial products of a list of rationals, started from `acc` -/
def cumprodRat (acc : Rat) : List Rat → List Rat
  | [] => []
  | a :: l => (acc * a) :: cumprodRat (acc * a) l

/-- the cumulative product of finite values is the list of finite partial products -/
theorem cumprodFrom_fin (l : List Rat) : ∀ acc : Rat,
    cumprodFrom (fin acc) (l.map fin) = (cumprodRat acc l).map fin := by
  induction l with
  | nil => intro _; rfl
  | cons a l ih => intro acc; simp [cumprodFrom, cumprodRat, ih]

/-- `∏_{i<k} f i`: `T_0 = 1`, `T_{k+1} = T_k · f_k` -/
def prodTo (f : Nat → Rat) : Nat → Rat
  | 0 => 1
  | k + 1 => prodTo f k * f k

theorem prodTo_shift (f : Nat → Rat) (k : Nat) :
    prodTo f (k + 1) = f 0 * prodTo (fun i => f (i + 1)) k := by
  induction k with
  | zero => simp [prodTo]
  | succ k ih => rw [prodTo, ih, prodTo]; ring

theorem prodTo_congr {f g : Nat → Rat} {k : Nat} (h : ∀ i < k, f i = g i) : prodTo f k = prodTo g k := by
  induction k with
  | zero => rfl
  | succ k ih =>
    rw [prodTo, prodTo, ih (fun i hi => h i (Nat.lt_succ_of_lt hi)), h k (Nat.lt_succ_self k)]

theorem prodTo_nonneg {f : Nat → Rat} {k : Nat} (h : ∀ i < k, 0 ≤ f i) : 0 ≤ prodTo f k := by
  induction k with
  | zero => simp [prodTo]
  | succ k ih =>
    rw [prodTo]
    exact mul_nonneg (ih (fun i hi => h i (Nat.lt_succ_of_lt hi))) (h k (Nat.lt_succ_self k))

theorem prodTo_pos {f : Nat → Rat} {k : Nat} (h : ∀ i < k, 0 < f i) : 0 < prodTo f k := by
  induction k with
  | zero => simp [prodTo]
  | succ k ih =>
    rw [prodTo]
    exact mul_pos (ih (fun i hi => h i (Nat.lt_succ_of_lt hi))) (h k (Nat.lt_succ_self k))

/-- entry `j` of a cumulative product whose first `j+1` factors are the finite values `f 0 .. f j` -/
theorem cumprodFrom_getElem?_fin (F : List XR) : ∀ (acc : Rat) (f : Nat → Rat) (j : Nat),
    (∀ i ≤ j, F[i]? = some (fin (f i))) →
    (cumprodFrom (fin acc) F)[j]? = some (fin (acc * prodTo f (j + 1))) := by
  induction F with
  | nil => intro acc f j h; have := h 0 (Nat.zero_le _); simp at this
  | cons a F ih =>
    intro acc f j h
    have h0 : a = fin (f 0) := by simpa using h 0 (Nat.zero_le _)
    subst h0
    cases j with
    | zero => simp [cumprodFrom, prodTo]
    | succ j =>
      have hs : ∀ i ≤ j, F[i]? = some (fin ((fun i => f (i + 1)) i)) := by
        intro i hi
        have := h (i + 1) (Nat.succ_le_succ hi)
        simpa using this
      have := ih (acc * f 0) (fun i => f (i + 1)) j hs
      simp only [cumprodFrom, fin_mul, List.getElem?_cons_succ]
      rw [this, prodTo_shift f (j + 1)]
      congr 2; ring

/-- entry `j` of a cumulative product lies in any class `C` closed under multiplication that contains
the starting value and the first `j+1` factors -/
theorem cumprodFrom_getElem?_closed (C : XR → Prop) (hmul : ∀ a b, C a → C b → C (a * b))
    (F : List XR) : ∀ (acc : XR) (j : Nat), C acc → j < F.length →
    (∀ i ≤ j, ∀ a, F[i]? = some a → C a) →
    ∃ T, (cumprodFrom acc F)[j]? = some T ∧ C T := by
  induction F with
  | nil => intro acc j _ hj _; simp at hj
  | cons a F ih =>
    intro acc j hacc hj h
    have ha : C a := h 0 (Nat.zero_le _) a (by simp)
    cases j with
    | zero => exact ⟨acc * a, by simp [cumprodFrom], hmul _ _ hacc ha⟩
    | succ j =>
      have hj' : j < F.length := by simpa using hj
      obtain ⟨T, hT, hC⟩ := ih (acc * a) j (hmul _ _ hacc ha) hj'
        (fun i hi b hb => h (i + 1) (Nat.succ_le_succ hi) b (by simpa using hb))
      exact ⟨T, by simpa [cumprodFrom] using hT, hC⟩

/-- a strictly positive rational or `+inf` -/
def Pos : XR → Prop
  | fin q => 0 < q
  | pinf => True
  | _ => False

theorem Pos.good {x : XR} (h : Pos x) : Good x := by
  cases x with
  | fin q => exact le_of_lt h
  | pinf => trivial
  | ninf => exact h
  | nan => exact h

theorem pos_mul {a b : XR} (ha : Pos a) (hb : Pos b) : Pos (a * b) := by
  cases a with
  | fin p =>
    cases b with
    | fin q => exact mul_pos ha hb
    | pinf =>
      show Pos (mul (fin p) pinf)
      have hp : (0 : Rat) < p := ha
      simp [mul, infTimes, ne_of_gt hp, hp, Pos]
    | ninf => exact absurd hb id
    | nan => exact absurd hb id
  | pinf =>
    cases b with
    | fin q =>
      show Pos (mul pinf (fin q))
      have hq : (0 : Rat) < q := hb
      simp [mul, infTimes, ne_of_gt hq, hq, Pos]
    | pinf => trivial
    | ninf => exact absurd hb id
    | nan => exact absurd hb id
  | ninf => exact absurd ha id
  | nan => exact absurd ha id

/-- `+inf` times a positive factor stays `+inf`: once a Kaplan-Markov product is infinite it stays so -/
theorem cumprodFrom_pinf (l : List XR) (h : ∀ a ∈ l, Pos a) : cumprodFrom pinf l = l.map (fun _ => pinf) := by
  induction l with
  | nil => rfl
  | cons a l ih =>
    have ha : Pos a := h a (by simp)
    have : (pinf * a : XR) = pinf := by
      cases a with
      | fin q =>
        show mul pinf (fin q) = pinf
        have hq : (0 : Rat) < q := ha
        simp [mul, infTimes, ne_of_gt hq, hq]
      | pinf => rfl
      | ninf => exact absurd ha id
      | nan => exact absurd ha id
    simp [cumprodFrom, this, ih (fun b hb => h b (by simp [hb]))]

/-- "good or nan": a non-negative rational, `+inf`, or `nan` (what a Kaplan-Kolmogorov running product
can be while the null means are still non-negative) -/
def GN (x : XR) : Prop := x = nan ∨ Good x

theorem gn_mul {a b : XR} (ha : GN a) (hb : GN b) : GN (a * b) := by
  rcases ha with rfl | ha
  · left; exact nan_mul b
  rcases hb with rfl | hb
  · left; exact mul_nan a
  rcases ha.cases with rfl | ⟨p, hp, rfl⟩ <;> rcases hb.cases with rfl | ⟨q, hq, rfl⟩
  · right; trivial
  · show GN (mul pinf (fin q))
    by_cases h0 : q = 0
    · left; simp [mul, infTimes, h0]
    · right
      have : 0 < q := lt_of_le_of_ne hq (Ne.symm h0)
      simp [mul, infTimes, h0, this, Good]
  · show GN (mul (fin p) pinf)
    by_cases h0 : p = 0
    · left; simp [mul, infTimes, h0]
    · right
      have : 0 < p := lt_of_le_of_ne hp (Ne.symm h0)
      simp [mul, infTimes, h0, this, Good]
  · right; exact good_mul hp hq

/-- `a / m` for `a ≥ 0`, `m ≥ 0` is good or nan -/
theorem gn_div {a m : Rat} (ha : 0 ≤ a) (hm : 0 ≤ m) : GN (fin a / fin m) := by
  by_cases h0 : m = 0
  · subst h0
    show GN (div (fin a) (fin 0))
    by_cases ha0 : a = 0
    · left; simp [div, ha0]
    · right
      have : 0 < a := lt_of_le_of_ne ha (Ne.symm ha0)
      simp [div, ha0, this, Good]
  · right
    rw [fin_div _ _ h0]
    exact div_nonneg ha hm

theorem getElem?_mem_all {α} {l : List α} {P : α → Prop} (h : ∀ (j : Nat) (a : α), l[j]? = some a → P a) :
    ∀ a ∈ l, P a := by
  intro a ha
  obtain ⟨j, hj⟩ := List.mem_iff_getElem?.1 ha
  exact h j a hj

end Shangrla.XR

namespace Shangrla.NM
open Shangrla.XR

/-! ### E. indexing into the model's vectors -/

/-- the sum of the first `i` entries -/
def psum (l : List Rat) (i : Nat) : Rat := (l.take i).sum

@[simp] theorem psum_zero (l : List Rat) : psum l 0 = 0 := by simp [psum]
@[simp] theorem psum_nil (i : Nat) : psum [] i = 0 := by simp [psum]
@[simp] theorem psum_cons_succ (a : Rat) (l : List Rat) (i : Nat) : psum (a :: l) (i + 1) = a + psum l i := by
  simp [psum]

theorem psum_succ (l : List Rat) (i : Nat) (a : Rat) (h : l[i]? = some a) : psum l (i + 1) = psum l i + a := by
  induction l generalizing i with
  | nil => simp at h
  | cons b l ih =>
    cases i with
    | zero => simp at h; subst h; simp
    | succ i =>
      have h' : l[i]? = some a := by simpa using h
      rw [psum_cons_succ, psum_cons_succ, ih i h']; ring

theorem psum_map_add (l : List Rat) (g : Rat) (i : Nat) (hi : i ≤ l.length) :
    psum (l.map (· + g)) i = psum l i + (i : Rat) * g := by
  induction l generalizing i with
  | nil =>
    have : i = 0 := by simpa using hi
    subst this; simp
  | cons a l ih =>
    cases i with
    | zero => simp
    | succ i =>
      have hi' : i ≤ l.length := by simpa using hi
      rw [List.map_cons, psum_cons_succ, psum_cons_succ, ih i hi']
      push_cast; ring

theorem prefixSumsFrom_length (l : List Rat) : ∀ S, (prefixSumsFrom S l).length = l.length := by
  induction l with
  | nil => intro _; rfl
  | cons a l ih => intro S; simp [prefixSumsFrom, ih]

theorem prefixSumsFrom_getElem? (l : List Rat) : ∀ (S : Rat) (i : Nat), i < l.length →
    (prefixSumsFrom S l)[i]? = some (S + psum l i) := by
  induction l with
  | nil => intro S i hi; simp at hi
  | cons a l ih =>
    intro S i hi
    cases i with
    | zero => simp [prefixSumsFrom]
    | succ i =>
      have hi' : i < l.length := by simpa using hi
      simp only [prefixSumsFrom, List.getElem?_cons_succ, psum_cons_succ]
      rw [ih (S + a) i hi', add_assoc]

theorem nullMeansFrom_length (N : Option Nat) (t : Rat) (l : List Rat) :
    ∀ S j, (nullMeansFrom N t S j l).length = l.length := by
  induction l with
  | nil => intro _ _; rfl
  | cons a l ih => intro S j; simp [nullMeansFrom, ih]

theorem nullMeansFrom_getElem? (N : Option Nat) (t : Rat) (l : List Rat) : ∀ (S : Rat) (j i : Nat),
    i < l.length → (nullMeansFrom N t S j l)[i]? = some (mu N t (S + psum l i) (j + i)) := by
  induction l with
  | nil => intro S j i hi; simp at hi
  | cons a l ih =>
    intro S j i hi
    cases i with
    | zero => simp [nullMeansFrom]
    | succ i =>
      have hi' : i < l.length := by simpa using hi
      simp only [nullMeansFrom, List.getElem?_cons_succ, psum_cons_succ]
      rw [ih (S + a) (j + 1) i hi', add_assoc, Nat.add_assoc, Nat.add_comm 1 i]

theorem mapIdxFrom_length {α β} (f : Nat → α → β) (l : List α) : ∀ j, (mapIdxFrom f j l).length = l.length := by
  induction l with
  | nil => intro _; rfl
  | cons a l ih => intro j; simp [mapIdxFrom, ih]

theorem mapIdxFrom_getElem? {α β} (f : Nat → α → β) (l : List α) : ∀ (j i : Nat),
    (mapIdxFrom f j l)[i]? = (l[i]?).map (f (j + i)) := by
  induction l with
  | nil => intro j i; simp [mapIdxFrom]
  | cons a l ih =>
    intro j i
    cases i with
    | zero => simp [mapIdxFrom]
    | succ i =>
      simp only [mapIdxFrom, List.getElem?_cons_succ]
      rw [ih (j + 1) i, Nat.add_assoc, Nat.add_comm 1 i]

/-! ### F. monotonicity of prefix sums and null means -/

theorem psum_nonneg {l : List Rat} (h : ∀ a ∈ l, 0 ≤ a) (i : Nat) : 0 ≤ psum l i := by
  induction l generalizing i with
  | nil => simp
  | cons a l ih =>
    cases i with
    | zero => simp
    | succ i =>
      rw [psum_cons_succ]
      exact add_nonneg (h a (by simp)) (ih (fun b hb => h b (by simp [hb])) i)

/-- prefix sums of non-negative values are non-decreasing -/
theorem psum_mono {l : List Rat} (h : ∀ a ∈ l, 0 ≤ a) {i k : Nat} (hik : i ≤ k) : psum l i ≤ psum l k := by
  induction l generalizing i k with
  | nil => simp
  | cons a l ih =>
    cases i with
    | zero => rw [psum_zero]; exact psum_nonneg h k
    | succ i =>
      cases k with
      | zero => omega
      | succ k =>
        rw [psum_cons_succ, psum_cons_succ]
        have := ih (fun b hb => h b (by simp [hb])) (Nat.le_of_succ_le_succ hik)
        linarith

/-- prefix sums of values `≤ u` grow by at most `u` per step -/
theorem psum_le_add {l : List Rat} {u : Rat} (hu : 0 ≤ u) (h : ∀ a ∈ l, a ≤ u) {i k : Nat} (hik : i ≤ k) :
    psum l k ≤ psum l i + ((k : Rat) - (i : Rat)) * u := by
  induction l generalizing i k with
  | nil =>
    simp only [psum_nil, zero_add]
    have : (i : Rat) ≤ (k : Rat) := by exact_mod_cast hik
    exact mul_nonneg (by linarith) hu
  | cons a l ih =>
    have hl : ∀ b ∈ l, b ≤ u := fun b hb => h b (by simp [hb])
    cases k with
    | zero =>
      have : i = 0 := by omega
      subst this; simp
    | succ k =>
      cases i with
      | zero =>
        have := ih hl (Nat.zero_le k)
        rw [psum_cons_succ, psum_zero]
        rw [psum_zero] at this
        have ha := h a (by simp)
        push_cast at this ⊢
        linarith
      | succ i =>
        have := ih hl (Nat.le_of_succ_le_succ hik)
        rw [psum_cons_succ, psum_cons_succ]
        push_cast
        linarith

theorem mu_some (n : Nat) (t S : Rat) (j : Nat) :
    mu (some n) t S j = ((n : Rat) * t - S) / ((n : Rat) - (j : Rat) + 1) := rfl

theorem mu_none (t S : Rat) (j : Nat) : mu none t S j = t := rfl

theorem den_pos {n j : Nat} (h : j ≤ n) : 0 < (n : Rat) - (j : Rat) + 1 := by
  have : (j : Rat) ≤ (n : Rat) := by exact_mod_cast h
  linarith

/-- the sign of a finite-population null mean is the sign of its numerator `N t − S` -/
theorem mu_pos_iff {n j : Nat} (h : j ≤ n) (t S : Rat) : 0 < mu (some n) t S j ↔ S < (n : Rat) * t := by
  rw [mu_some, div_pos_iff_of_pos_right (den_pos h)]
  constructor <;> intro h <;> linarith

theorem mu_neg_iff {n j : Nat} (h : j ≤ n) (t S : Rat) : mu (some n) t S j < 0 ↔ (n : Rat) * t < S := by
  rw [mu_some, div_neg_iff]
  constructor
  · rintro (⟨_, h2⟩ | ⟨h1, _⟩)
    · have := den_pos (n := n) (j := j) h; linarith
    · linarith
  · intro h1; exact Or.inr ⟨by linarith, den_pos h⟩

theorem mu_nonneg_iff {n j : Nat} (h : j ≤ n) (t S : Rat) : 0 ≤ mu (some n) t S j ↔ S ≤ (n : Rat) * t := by
  rw [← not_lt, mu_neg_iff h, not_lt]

/-- **Kaplan-Kolmogorov / ALPHA monotonicity**: with non-negative observations the numerator `N t − S_i`
is non-increasing, so a null mean that is positive (non-negative) at draw `k` was so at every earlier draw,
and once it is `≤ 0` (`< 0`) it stays so -/
theorem mu_pos_of_later {n : Nat} {l : List Rat} (hl : ∀ a ∈ l, 0 ≤ a) (t S : Rat) {i k j j' : Nat}
    (hik : i ≤ k) (hj : j ≤ n) (hj' : j' ≤ n) (h : 0 < mu (some n) t (S + psum l k) j') :
    0 < mu (some n) t (S + psum l i) j := by
  rw [mu_pos_iff hj'] at h
  rw [mu_pos_iff hj]
  have := psum_mono hl hik
  linarith

theorem mu_nonneg_of_later {n : Nat} {l : List Rat} (hl : ∀ a ∈ l, 0 ≤ a) (t S : Rat) {i k j j' : Nat}
    (hik : i ≤ k) (hj : j ≤ n) (hj' : j' ≤ n) (h : 0 ≤ mu (some n) t (S + psum l k) j') :
    0 ≤ mu (some n) t (S + psum l i) j := by
  rw [mu_nonneg_iff hj'] at h
  rw [mu_nonneg_iff hj]
  have := psum_mono hl hik
  linarith

theorem mu_nonpos_of_earlier {n : Nat} {l : List Rat} (hl : ∀ a ∈ l, 0 ≤ a) (t S : Rat) {i k j j' : Nat}
    (hik : i ≤ k) (hj : j ≤ n) (hj' : j' ≤ n) (h : mu (some n) t (S + psum l i) j ≤ 0) :
    mu (some n) t (S + psum l k) j' ≤ 0 := by
  rw [← not_lt] at h ⊢
  exact fun h' => h (mu_pos_of_later hl t S hik hj hj' h')

theorem mu_neg_of_earlier {n : Nat} {l : List Rat} (hl : ∀ a ∈ l, 0 ≤ a) (t S : Rat) {i k j j' : Nat}
    (hik : i ≤ k) (hj : j ≤ n) (hj' : j' ≤ n) (h : mu (some n) t (S + psum l i) j < 0) :
    mu (some n) t (S + psum l k) j' < 0 := by
  rw [← not_le] at h ⊢
  exact fun h' => h (mu_nonneg_of_later hl t S hik hj hj' h')

/-- **SPRT / ALPHA monotonicity at the upper end**: with observations `≤ u`, a null mean `≥ u` at draw
`i+1` stays `≥ u` at every later draw; hence a null mean `< u` at draw `k+1` was `< u` at every earlier one -/
theorem mu_lt_u_of_later {n : Nat} {l : List Rat} {u : Rat} (hu : 0 ≤ u) (hl : ∀ a ∈ l, a ≤ u) (t : Rat)
    {i k : Nat} (hik : i ≤ k) (hk : k + 1 ≤ n) (h : mu (some n) t (psum l k) (k + 1) < u) :
    mu (some n) t (psum l i) (i + 1) < u := by
  have hi : i + 1 ≤ n := by omega
  rw [mu_some, div_lt_iff₀ (den_pos hk)] at h
  rw [mu_some, div_lt_iff₀ (den_pos hi)]
  have := psum_le_add hu hl hik
  push_cast at h ⊢
  nlinarith

/-! ### G. the return statements -/

theorem cumprod_isEmpty (l : List XR) : (cumprod l).isEmpty = l.isEmpty := by
  cases l <;> rfl

/-- every entry of a cumulative product lies in any class closed under multiplication that contains
the starting value and all the factors -/
theorem cumprodFrom_all (C : XR → Prop) (hmul : ∀ a b, C a → C b → C (a * b)) (F : List XR) :
    ∀ acc, C acc → (∀ a ∈ F, C a) → ∀ T ∈ cumprodFrom acc F, C T := by
  induction F with
  | nil => intro acc _ _ T hT; simp [cumprodFrom] at hT
  | cons a F ih =>
    intro acc hacc hF T hT
    have ha : C a := hF a (by simp)
    simp only [cumprodFrom, List.mem_cons] at hT
    rcases hT with rfl | hT
    · exact hmul _ _ hacc ha
    · exact ih _ (hmul _ _ hacc ha) (fun b hb => hF b (by simp [hb])) T hT

/-- a non-negative rational -/
def FinNN (x : XR) : Prop := ∃ q : Rat, 0 ≤ q ∧ x = fin q

theorem FinNN.good {x : XR} (h : FinNN x) : Good x := by
  obtain ⟨q, hq, rfl⟩ := h; exact hq

theorem finNN_mul {a b : XR} (ha : FinNN a) (hb : FinNN b) : FinNN (a * b) := by
  obtain ⟨p, hp, rfl⟩ := ha
  obtain ⟨q, hq, rfl⟩ := hb
  exact ⟨p * q, mul_nonneg hp hq, rfl⟩

theorem getElem?_zip_some {α β} {l1 : List α} {l2 : List β} {i : Nat} {a : α} {b : β}
    (h1 : l1[i]? = some a) (h2 : l2[i]? = some b) : (l1.zip l2)[i]? = some (a, b) := by
  induction l1 generalizing l2 i with
  | nil => simp at h1
  | cons x l1 ih =>
    cases l2 with
    | nil => simp at h2
    | cons y l2 =>
      cases i with
      | zero => simp at h1 h2; simp [h1, h2]
      | succ i =>
        simp only [List.getElem?_cons_succ] at h1 h2
        simp only [List.zip_cons_cons, List.getElem?_cons_succ]
        exact ih h1 h2

theorem getElem?_some_of_lt {α} {l : List α} {i : Nat} (h : i < l.length) : ∃ a, l[i]? = some a :=
  ⟨l[i], List.getElem?_eq_getElem h⟩

theorem lastD_eq {L : List XR} (hne : L ≠ []) : L.getLast? = some (lastD L) ∧ lastD L ∈ L := by
  unfold lastD
  rw [List.getLast?_eq_some_getLast hne]
  exact ⟨rfl, List.getLast_mem hne⟩

/-- what "well-formed" means for a returned pair (C11) -/
def WellFormed (n : Nat) (ro : Bool) (p : XR) (hist : List XR) : Prop :=
  hist.length = n ∧ (∀ h ∈ hist, IsP h) ∧ IsP p ∧
    (ro = true → p = minList hist) ∧ (ro = false → hist.getLast? = some p)

/-- the return statements of `kaplan_kolmogorov`, `kaplan_wald`, `wald_sprt` (and of the martingale
tests): the overall p-value computed by `fp` from `np.max` / the last term, the history by `fh`, where
both are `T ↦ min(1, 1/T)` on good statistics -/
theorem finish_stat (fp fh : XR → XR) (hfp : ∀ T, Good T → fp T = fin (pv T))
    (hfh : ∀ T, Good T → fh T = fin (pv T)) (ro : Bool) {L : List XR} (hne : L ≠ [])
    (hL : ∀ T ∈ L, Good T) :
    WellFormed L.length ro (fp (if ro = true then maxList L else lastD L)) (L.map fh) := by
  have hmap : L.map fh = L.map (fun T => fin (pv T)) := map_congr_good hL hfh
  refine ⟨by simp, ?_, ?_, ?_, ?_⟩
  · intro h hh
    rw [hmap, List.mem_map] at hh
    obtain ⟨T, _, rfl⟩ := hh
    exact isP_pv T
  · cases ro
    · simp only [Bool.false_eq_true, ↓reduceIte]
      rw [hfp _ (hL _ (lastD_eq hne).2)]; exact isP_pv _
    · simp only [↓reduceIte]
      rw [hfp _ (good_maxList hne hL)]; exact isP_pv _
  · intro hro
    subst hro
    simp only [↓reduceIte]
    rw [hfp _ (good_maxList hne hL), hmap, pv_maxList hne hL]
  · intro hro
    subst hro
    simp only [Bool.false_eq_true, ↓reduceIte]
    rw [List.getLast?_map, (lastD_eq hne).1, Option.map_some, hfp _ (hL _ (lastD_eq hne).2),
      hfh _ (hL _ (lastD_eq hne).2)]

/-- the return statement of `kaplan_markov`: the statistic is itself a p-value -/
theorem finish_pval (ro : Bool) {L : List XR} (hne : L ≠ []) (hL : ∀ T ∈ L, Good T) :
    WellFormed L.length ro (npmin 1 (if ro = true then minList L else lastD L))
      (L.map (fun p => npmin p 1)) := by
  have hmap : L.map (fun p => npmin p 1) = L.map (fun T => fin (cap T)) :=
    map_congr_good hL (fun T hT => (npmin_cap hT).1)
  refine ⟨by simp, ?_, ?_, ?_, ?_⟩
  · intro h hh
    rw [hmap, List.mem_map] at hh
    obtain ⟨T, hT, rfl⟩ := hh
    exact isP_cap (hL T hT)
  · cases ro
    · simp only [Bool.false_eq_true, ↓reduceIte]
      rw [(npmin_cap (hL _ (lastD_eq hne).2)).2]; exact isP_cap (hL _ (lastD_eq hne).2)
    · simp only [↓reduceIte]
      rw [(npmin_cap (good_minList hne hL)).2]; exact isP_cap (good_minList hne hL)
  · intro hro
    subst hro
    simp only [↓reduceIte]
    exact npmin_one_minList hne hL
  · intro hro
    subst hro
    simp only [Bool.false_eq_true, ↓reduceIte]
    rw [List.getLast?_map, (lastD_eq hne).1, Option.map_some,
      (npmin_cap (hL _ (lastD_eq hne).2)).1, (npmin_cap (hL _ (lastD_eq hne).2)).2]

/-- `min(1, 1/T)` of a rational statistic, a zero statistic giving `1` (`1/0 = +inf`) -/
def pOfQ (T : Rat) : Rat := if T = 0 then 1 else min 1 (1 / T)

theorem pOfQ_zero : pOfQ 0 = 1 := by simp [pOfQ]
theorem pOfQ_of_ne {T : Rat} (h : T ≠ 0) : pOfQ T = min 1 (1 / T) := by simp [pOfQ, h]

/-- all four ways the code writes `min(1, 1/T)` agree with `pOfQ` on every finite statistic -/
theorem min_inv_fin (T : Rat) :
    npmin 1 ((1 : XR) / fin T) = fin (pOfQ T) ∧ npmin ((1 : XR) / fin T) 1 = fin (pOfQ T) ∧
    pymin 1 ((1 : XR) / fin T) = fin (pOfQ T) ∧ pymin ((1 : XR) / fin T) 1 = fin (pOfQ T) := by
  by_cases h0 : T = 0
  · subst h0
    rw [one_div_zero, pOfQ_zero]
    simp [npmin, pymin, lt, isNan]
  · rw [one_div_fin h0, one_def, npmin_fin_fin, npmin_fin_fin, pymin_fin_fin, pymin_fin_fin,
      pOfQ_of_ne h0, min_comm (1 / T) 1]
    exact ⟨rfl, rfl, rfl, rfl⟩

theorem pv_fin_eq_pOf {T : Rat} (h : 0 ≤ T) : pv (fin T) = pOfQ T := by
  have h1 := (min_inv_all (good_fin h)).1
  rw [(min_inv_fin T).1] at h1
  exact (XR.fin.inj h1).symm

/-! ### H. `np.isclose` and the masks of `wald_sprt` -/

theorem ite_abs (d : Rat) : (if d < 0 then -d else d) = |d| := by
  split
  · rename_i h; rw [abs_of_neg h]
  · rename_i h; rw [abs_of_nonneg (not_lt.mp h)]

/-- `np.isclose(a, b, rtol, atol)` on finite values: `|a − b| ≤ atol + rtol·|b|` -/
theorem isclose_fin (a b rtol atol : Rat) :
    XR.isclose (fin a) (fin b) rtol atol = decide (|a - b| ≤ atol + rtol * |b|) := by
  simp only [XR.isclose, ite_abs]

theorem isclose_self (a rtol atol : Rat) (h1 : 0 ≤ atol) (h2 : 0 ≤ rtol) :
    XR.isclose (fin a) (fin a) rtol atol = true := by
  rw [isclose_fin, decide_eq_true_eq, sub_self, abs_zero]
  exact add_nonneg h1 (mul_nonneg h2 (abs_nonneg a))

theorem maskTermX_neg (u atol rtol m : Rat) (T : XR) (h : m < 0) :
    maskTermX u atol rtol (fin m) T = pinf := by
  simp [maskTermX, h]

/-- `m > u ≥ 0`: the term is set to `0` and then (being `isclose` to `0`) to `1` -/
theorem maskTermX_above (u atol rtol m : Rat) (T : XR) (hu : 0 ≤ u) (hat : 0 ≤ atol) (h : u < m) :
    maskTermX u atol rtol (fin m) T = 1 := by
  have hm : ¬ m < 0 := by linarith
  have h00 : XR.isclose (0 : XR) (0 : XR) (1 / 100000) atol = true :=
    isclose_self 0 _ _ hat (by norm_num)
  simp only [maskTermX, lt_fin, h, decide_true, ↓reduceIte, zero_def, hm, decide_false, Bool.false_eq_true]
  split_ifs <;> simp_all

/-- a null mean outside every mask: the term survives unless it is itself `isclose` to `0` -/
theorem maskTermX_regular (u atol rtol m : Rat) (T : XR) (h1 : ¬ u < m)
    (h2 : ¬ |0 - m| ≤ atol + 1 / 100000 * |m|) (h3 : ¬ |u - m| ≤ atol + rtol * |m|) (h4 : ¬ m < 0) :
    maskTermX u atol rtol (fin m) T = if XR.isclose (0 : XR) T (1 / 100000) atol = true then (1 : XR) else T := by
  simp only [maskTermX, lt_fin, zero_def, isclose_fin, h1, h2, h3, h4, decide_false, Bool.false_eq_true, ↓reduceIte]

/-- whatever the null mean, the masked term is good as soon as the raw product is a non-negative
rational whenever `0 < m < u` -/
theorem maskTermX_good (u atol rtol m : Rat) (T : XR) (hu : 0 ≤ u) (hat : 0 ≤ atol) (hrt : 0 ≤ rtol)
    (hT : 0 < m → m < u → FinNN T) : Good (maskTermX u atol rtol (fin m) T) := by
  by_cases h4 : m < 0
  · rw [maskTermX_neg _ _ _ _ _ h4]; trivial
  by_cases h1 : u < m
  · rw [maskTermX_above _ _ _ _ _ hu hat h1]; exact good_one
  by_cases h2 : |0 - m| ≤ atol + 1 / 100000 * |m|
  · have : maskTermX u atol rtol (fin m) T = 1 := by
      simp only [maskTermX, lt_fin, zero_def, isclose_fin, h2, h4, decide_false, decide_true,
        Bool.false_eq_true, ↓reduceIte]
      split_ifs <;> rfl
    rw [this]; exact good_one
  by_cases h3 : |u - m| ≤ atol + rtol * |m|
  · have : maskTermX u atol rtol (fin m) T = 1 := by
      simp only [maskTermX, lt_fin, zero_def, isclose_fin, h3, h4, decide_false, decide_true,
        Bool.false_eq_true, ↓reduceIte]
      split_ifs <;> rfl
    rw [this]; exact good_one
  · rw [maskTermX_regular _ _ _ _ _ h1 h2 h3 h4]
    have hm0 : m ≠ 0 := by
      rintro rfl
      apply h2; simp [hat]
    have hmu : m ≠ u := by
      rintro rfl
      apply h3; rw [sub_self, abs_zero]; exact add_nonneg hat (mul_nonneg hrt (abs_nonneg _))
    have hG := (hT (lt_of_le_of_ne (not_lt.mp h4) (Ne.symm hm0)) (lt_of_le_of_ne (not_lt.mp h1) hmu)).good
    split
    · exact good_one
    · exact hG

end Shangrla.NM
