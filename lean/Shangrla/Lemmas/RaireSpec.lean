/-
  Specification vocabulary for the RAIRE properties C04 / C15 (DESIGN.md Appendix F):
  elimination orders, "assertion contradicts order", "assertion holds on the CVRs", the family `Fam`
  of all true NEB/NEN assertions, alternative orders `Alt`, valid IRV counts, and the laws required
  of the comparison on difficulty values.  Core Lean only.
-/
import Shangrla.Model.Raire

namespace Shangrla.Raire

/-- the comparison on difficulty values is a total preorder and `lt` is its strict part
(true of Python floats that are not NaN) -/
class DiffOrd.Lawful (D : Type) [DiffOrd D] : Prop where
  le_total : ∀ a b : D, DiffOrd.le a b = true ∨ DiffOrd.le b a = true
  le_trans : ∀ a b c : D, DiffOrd.le a b = true → DiffOrd.le b c = true → DiffOrd.le a c = true
  lt_iff_not_le : ∀ a b : D, DiffOrd.lt a b = true ↔ DiffOrd.le b a = false

instance : DiffOrd Nat := ⟨fun a b => decide (a < b), fun a b => decide (a ≤ b)⟩
instance : DiffOrd.Lawful Nat where
  le_total a b := by simp only [DiffOrd.le, decide_eq_true_eq]; omega
  le_trans a b c := by simp only [DiffOrd.le, decide_eq_true_eq]; omega
  lt_iff_not_le a b := by simp only [DiffOrd.lt, DiffOrd.le, decide_eq_true_eq, decide_eq_false_iff_not]; omega

namespace Spec

variable {α : Type} [DecidableEq α] {D : Type}

/-- a complete elimination order: every candidate exactly once, first eliminated first, winner last -/
def order (cands π : List α) : Prop := π.Perm cands

/-- an alternative outcome: a complete order whose last candidate is not the reported winner -/
def Alt (cands : List α) (winner : α) (π : List α) : Prop :=
  π.Perm cands ∧ ∃ pre c, π = pre ++ [c] ∧ c ≠ winner

/-- NEB(w, l) "w is never eliminated before l" contradicts `π` iff `w` occurs before `l` in `π`;
NEN(w, l, E) "w is not the next eliminated once exactly E are gone (l has fewer votes)" contradicts `π`
iff the candidates before `w` in `π` are exactly `E` (and `l` is still standing, i.e. comes after `w`) -/
def contra (k : Kind) (w l : α) (E : List α) (π : List α) : Prop :=
  match k with
  | .neb => ∃ pre post, π = pre ++ w :: post ∧ l ∈ post
  | .nen => ∃ pre post, π = pre ++ w :: post ∧ (∀ y, y ∈ E ↔ y ∈ pre) ∧ l ∈ post

def contradicts (a : Assertion α D) (π : List α) : Prop :=
  contra a.kind a.winner a.loser a.eliminated π

/-- the two tallies an assertion compares, recomputed from the CVRs -/
def tallies (cvrs : List (Option (Ballot α))) (k : Kind) (w l : α) (E : List α) : Nat × Nat :=
  match k with
  | .neb => ((cvrs.map (nebVoteW w)).sum, (cvrs.map (nebVoteL w l)).sum)
  | .nen => (tally (cvrs.filterMap id) w E, tally (cvrs.filterMap id) l E)

/-- the assertion is true of the CVRs with exactly the tallies it reports, winner strictly larger -/
def holds (cvrs : List (Option (Ballot α))) (a : Assertion α D) : Prop :=
  a.votesW = (tallies cvrs a.kind a.winner a.loser a.eliminated).1 ∧
  a.votesL = (tallies cvrs a.kind a.winner a.loser a.eliminated).2 ∧
  a.votesL < a.votesW

/-- the complete family of true assertions: all ordered pairs, for NEN every eliminated set (given as any
list), with the difficulty the contest's difficulty function assigns to the tallies -/
def Fam (asn : Nat → Nat → Nat → Nat → D) (C : Contest α) (cvrs : List (Option (Ballot α)))
    (a : Assertion α D) : Prop :=
  a.winner ∈ C.candidates ∧ a.loser ∈ C.candidates ∧ a.winner ≠ a.loser ∧
  (a.kind = .nen → a.winner ∉ a.eliminated ∧ a.loser ∉ a.eliminated ∧ ∀ y ∈ a.eliminated, y ∈ C.candidates) ∧
  holds cvrs a ∧
  a.difficulty = asn a.votesW a.votesL (C.totBallots - (a.votesW + a.votesL)) C.totBallots

/-- a well-formed ballot: no candidate twice, no position twice -/
def BallotWF (b : Ballot α) : Prop := (b.map (·.1)).Nodup ∧ (b.map (·.2)).Nodup

/-- `π` is a possible IRV count of the ballots: at every round the eliminated candidate has a smallest
tally among the candidates still standing (ties may be broken either way) -/
def validIRV (ballots : List (Ballot α)) (π : List α) : Prop :=
  ∀ pre x post, π = pre ++ x :: post → ∀ y ∈ post, tally ballots x pre ≤ tally ballots y pre

/-- a set of assertions excludes every alternative winner -/
def Sufficient (cands : List α) (winner : α) (S : List (Assertion α D)) : Prop :=
  ∀ π, Alt cands winner π → ∃ a ∈ S, contradicts a π

end Spec
end Shangrla.Raire
