/-
  Helper lemmas for C09 (`Props/C09.lean`):
    * order facts about `XR.le` / `XR.npmax` (IEEE `<=` and nan-propagating `np.max`)
    * `foldMax a l` = `np.max` accumulated left to right, starting from `a`
    * closed forms of the loops of `Shangrla.Status.setPValues / resetPValues / summarizeStatus`
  Core Lean only.
-/
import Shangrla.Model.Status
namespace Shangrla.StatusL
open Shangrla Shangrla.Status

theorem maxList_pair (a b : XR) : XR.maxList [a, b] = XR.npmax a b := rfl

theorem npmax_of_nan {a b : XR} (h : (a.isNan || b.isNan) = true) : XR.npmax a b = XR.nan := by
  unfold XR.npmax; rw [if_pos h]

theorem npmax_of_not_nan {a b : XR} (ha : a.isNan = false) (hb : b.isNan = false) :
    XR.npmax a b = if XR.lt a b then b else a := by
  unfold XR.npmax; simp [ha, hb]

theorem npmax_isNan (a b : XR) : (XR.npmax a b).isNan = (a.isNan || b.isNan) := by
  cases ha : a.isNan
  · cases hb : b.isNan
    · rw [npmax_of_not_nan ha hb]; split <;> simp [ha, hb]
    · rw [npmax_of_nan (by simp [hb])]; rfl
  · rw [npmax_of_nan (by simp [ha])]; rfl

theorem le_refl {a : XR} (h : a.isNan = false) : XR.le a a = true := by
  cases a <;> simp_all [XR.le, XR.isNan]

theorem le_trans {a b c : XR} : XR.le a b = true → XR.le b c = true → XR.le a c = true := by
  cases a <;> cases b <;> cases c <;> simp [XR.le] <;> exact Rat.le_trans

theorem le_antisymm {a b : XR} : XR.le a b = true → XR.le b a = true → a = b := by
  cases a <;> cases b <;> simp [XR.le] <;> exact Rat.le_antisymm

theorem le_of_lt {a b : XR} : XR.lt a b = true → XR.le a b = true := by
  cases a <;> cases b <;> simp [XR.le, XR.lt] <;> exact Rat.le_of_lt

theorem le_of_not_lt {a b : XR} (ha : a.isNan = false) (hb : b.isNan = false) :
    XR.lt a b = false → XR.le b a = true := by
  cases a <;> cases b <;> simp_all [XR.le, XR.lt, XR.isNan, Rat.not_lt]

theorem le_npmax_left {a b : XR} (ha : a.isNan = false) (hb : b.isNan = false) :
    XR.le a (XR.npmax a b) = true := by
  rw [npmax_of_not_nan ha hb]
  cases h : XR.lt a b
  · simp [le_refl ha]
  · simp [le_of_lt h]

theorem le_npmax_right {a b : XR} (ha : a.isNan = false) (hb : b.isNan = false) :
    XR.le b (XR.npmax a b) = true := by
  rw [npmax_of_not_nan ha hb]
  cases h : XR.lt a b
  · simp [le_of_not_lt ha hb h]
  · simp [le_refl hb]

theorem npmax_eq_or {a b : XR} (ha : a.isNan = false) (hb : b.isNan = false) :
    XR.npmax a b = a ∨ XR.npmax a b = b := by
  rw [npmax_of_not_nan ha hb]; split <;> simp

/-- `np.max([a] + l)` computed left to right as the code does -/
def foldMax (a : XR) (l : List XR) : XR := l.foldl XR.npmax a

theorem foldMax_isNan (l : List XR) : ∀ a, (foldMax a l).isNan = (a.isNan || l.any XR.isNan) := by
  induction l with
  | nil => intro a; simp [foldMax]
  | cons b l ih => intro a; simp only [foldMax, List.foldl_cons] at *; rw [ih, npmax_isNan]; simp [Bool.or_assoc]

theorem foldMax_spec (l : List XR) : ∀ a, a.isNan = false → (∀ p ∈ l, XR.isNan p = false) →
    (foldMax a l = a ∨ foldMax a l ∈ l) ∧ XR.le a (foldMax a l) = true ∧ ∀ p ∈ l, XR.le p (foldMax a l) = true := by
  induction l with
  | nil => intro a ha _; simp [foldMax, le_refl ha]
  | cons b l ih =>
    intro a ha hl
    have hb : b.isNan = false := hl b (by simp)
    have hm : (XR.npmax a b).isNan = false := by rw [npmax_isNan]; simp [ha, hb]
    obtain ⟨h1, h2, h3⟩ := ih (XR.npmax a b) hm (fun p hp => hl p (by simp [hp]))
    have e : foldMax a (b :: l) = foldMax (XR.npmax a b) l := rfl
    rw [e]
    refine ⟨?_, le_trans (le_npmax_left ha hb) h2, ?_⟩
    · rcases h1 with h1 | h1
      · rcases npmax_eq_or ha hb with h | h
        · left; rw [h1, h]
        · right; rw [h1, h]; simp
      · right; simp [h1]
    · intro p hp
      rcases List.mem_cons.1 hp with rfl | hp
      · exact le_trans (le_npmax_right ha hb) h2
      · exact h3 p hp

/-! ### closed forms of the loops of the model -/

/-- the assertion after L2330-2331 -/
def updAssertion (test : Test) (c : Contest) (a : Assertion) : Assertion :=
  { a with pValue := (test c.id a.name).1, pHistory := (test c.id a.name).2,
           proved := XR.le (test c.id a.name).1 (XR.fin c.riskLimit) || a.proved }

/-- `d.update({a.name: f a})` for every assertion in turn -/
def dictFold {β : Type} (f : Assertion → β) (d : List (String × β)) (l : List Assertion) : List (String × β) :=
  l.foldl (fun d a => dictUpdate d a.name (f a)) d

theorem dictUpdate_fresh {β : Type} (d : List (String × β)) (k : String) (v : β)
    (h : ∀ e ∈ d, e.1 ≠ k) : dictUpdate d k v = d ++ [(k, v)] := by
  unfold dictUpdate
  have : d.any (fun e => e.1 == k) = false := by
    rw [List.any_eq_false]; intro e he; simpa using h e he
  simp [this]

theorem dictFold_nodup {β : Type} (f : Assertion → β) (l : List Assertion) :
    ∀ d : List (String × β), (∀ a ∈ l, ∀ e ∈ d, e.1 ≠ a.name) → (l.map (·.name)).Nodup →
      dictFold f d l = d ++ l.map (fun a => (a.name, f a)) := by
  induction l with
  | nil => intro d _ _; simp [dictFold]
  | cons a l ih =>
    intro d hd hn
    have e : dictFold f d (a :: l) = dictFold f (dictUpdate d a.name (f a)) l := rfl
    rw [e, dictUpdate_fresh d a.name (f a) (hd a (by simp))]
    rw [List.map_cons, List.nodup_cons] at hn
    rw [ih _ ?_ hn.2]
    · simp
    · intro b hb e he
      rcases List.mem_append.1 he with he | he
      · exact hd b (by simp [hb]) e he
      · simp only [List.mem_singleton] at he
        subst he
        intro h
        exact hn.1 (List.mem_map.2 ⟨b, hb, h.symm⟩)

theorem foldl_setStep (test : Test) (c : Contest) (l : List Assertion) :
    ∀ acc : SetAcc,
      l.foldl (setStep test c.id c.riskLimit) acc =
        { done := acc.done ++ l.map (updAssertion test c),
          pv := dictFold (fun a => (test c.id a.name).1) acc.pv l,
          pr := dictFold (fun a => XR.le (test c.id a.name).1 (XR.fin c.riskLimit) || a.proved) acc.pr l,
          cmax := foldMax acc.cmax (l.map (fun a => (test c.id a.name).1)) } := by
  induction l with
  | nil => intro acc; simp [dictFold, foldMax]
  | cons a l ih =>
    intro acc
    rw [List.foldl_cons, ih]
    simp [setStep, updAssertion, dictFold, foldMax, maxList_pair]

/-- p-values the test returns for the assertions of `c`, in order -/
def testPs (test : Test) (c : Contest) : List XR := c.assertions.map (fun a => (test c.id a.name).1)

theorem setContest_eq (test : Test) (c : Contest) :
    setContest test c =
      (foldMax 0 (testPs test c),
       { c with assertions := c.assertions.map (updAssertion test c),
                pValues := some (dictFold (fun a => (test c.id a.name).1) [] c.assertions),
                provedD := some (dictFold (fun a => XR.le (test c.id a.name).1 (XR.fin c.riskLimit) || a.proved) [] c.assertions),
                maxP := some (foldMax 0 (testPs test c)) }) := by
  unfold setContest
  rw [foldl_setStep]
  simp [testPs]

theorem foldl_setOuter (test : Test) (l : List Contest) :
    ∀ acc : XR × List Contest,
      l.foldl (setOuter test) acc =
        (foldMax acc.1 (l.map (fun c => (setContest test c).1)), acc.2 ++ l.map (fun c => (setContest test c).2)) := by
  induction l with
  | nil => intro acc; simp [foldMax]
  | cons c l ih =>
    intro acc
    rw [List.foldl_cons, ih]
    simp [setOuter, foldMax, maxList_pair]

theorem setPValues_eq (test : Test) (s : State) :
    setPValues test s =
      (foldMax 0 (s.map (fun c => (setContest test c).1)), s.map (fun c => (setContest test c).2)) := by
  unfold setPValues
  rw [foldl_setOuter]
  simp

theorem cpmax_eq (c : Contest) : cpmax c = foldMax 0 (c.assertions.map (·.pValue)) := by
  unfold cpmax foldMax
  rw [List.foldl_map]
  rfl

theorem foldl_resetStep (l : List Assertion) :
    ∀ acc : List Assertion × List (String × XR) × List (String × Bool),
      l.foldl resetStep acc =
        (acc.1 ++ l.map (fun a => { a with pValue := 1, pHistory := [], proved := false }),
         dictFold (fun _ => (1 : XR)) acc.2.1 l, dictFold (fun _ => false) acc.2.2 l) := by
  induction l with
  | nil => intro acc; simp [dictFold]
  | cons a l ih =>
    intro acc
    rw [List.foldl_cons, ih]
    simp [resetStep, dictFold]

theorem foldl_summarize (l : List Contest) :
    ∀ d : Bool,
      l.foldl (fun done con => if XR.le (cpmax con) (XR.fin con.riskLimit) then done else false) d =
        (d && l.all (fun con => XR.le (cpmax con) (XR.fin con.riskLimit))) := by
  induction l with
  | nil => intro d; simp
  | cons c l ih =>
    intro d
    rw [List.foldl_cons, ih]
    cases h : XR.le (cpmax c) (XR.fin c.riskLimit) <;> simp [h]

/-- `cpmax <= limit` unfolded: no nan, `0 <= limit` and every p-value `<= limit` -/
theorem foldMax0_le_iff (l : List XR) (r : Rat) :
    XR.le (foldMax 0 l) (XR.fin r) = true ↔ 0 ≤ r ∧ ∀ p ∈ l, XR.le p (XR.fin r) = true := by
  have h0 : (0 : XR).isNan = false := rfl
  by_cases hn : l.any XR.isNan = true
  · have : (foldMax 0 l).isNan = true := by rw [foldMax_isNan]; simp [hn]
    have e : foldMax 0 l = XR.nan := by
      cases h : foldMax 0 l <;> simp_all [XR.isNan]
    rw [e]
    constructor
    · intro h; simp [XR.le] at h
    · rintro ⟨_, h⟩
      obtain ⟨p, hp, hpn⟩ := List.any_eq_true.1 hn
      have := h p hp
      cases p <;> simp_all [XR.isNan, XR.le]
  · have hl : ∀ p ∈ l, XR.isNan p = false := by
      intro p hp
      cases h : p.isNan
      · rfl
      · exact absurd (List.any_eq_true.2 ⟨p, hp, h⟩) hn
    obtain ⟨h1, h2, h3⟩ := foldMax_spec l 0 h0 hl
    constructor
    · intro h
      refine ⟨?_, fun p hp => le_trans (h3 p hp) h⟩
      have := le_trans h2 h
      have e : (0 : XR) = XR.fin 0 := rfl
      rw [e] at this
      simpa [XR.le] using this
    · rintro ⟨hr, h⟩
      rcases h1 with h1 | h1
      · rw [h1]
        have e : (0 : XR) = XR.fin 0 := rfl
        rw [e]; simpa [XR.le] using hr
      · exact h _ h1

end Shangrla.StatusL
