/-
  Helper lemmas for the range properties (C13) of the estimators and bets of
  `Shangrla.NM` (the literal model of `shangrla/core/NonnegMean.py`):

  * `XR` arithmetic on finite values (`npmin`, `npmax`, `sqrtX`, division);
  * lengths and entrywise (`getElem?`) descriptions of `prefixSumsFrom`, `nullMeansFrom`,
    `mapIdxFrom`, `shiftIn`, `welford`;
  * closed forms `… = .ok (explicit list)` of every shipped estimator / bet under its guard;
  * finiteness of every entry of these lists under the parameter guards;
  * the driver's `sqrtRat` satisfies the two hypotheses made on `sqrtF`.
-/
import Shangrla.Model.NonnegMean
import Shangrla.Lemmas.XRBasic
import Mathlib.Tactic.Ring
import Mathlib.Tactic.FieldSimp
import Mathlib.Tactic.NormNum
import Mathlib.Tactic.Linarith
import Mathlib.Tactic.Positivity
import Mathlib.Algebra.Order.Field.Basic
import Mathlib.Algebra.Order.Ring.Rat

namespace Shangrla.XRRange
open Shangrla Shangrla.XR

/-! ### `XR` on finite values -/

theorem npmin_fin (a b : Rat) : npmin (fin a) (fin b) = fin (min a b) := by
  simp only [npmin, isNan_fin, Bool.or_self, Bool.false_eq_true, ↓reduceIte, lt_fin, decide_eq_true_eq]
  by_cases h : b < a
  · rw [if_pos h, min_eq_right (le_of_lt h)]
  · rw [if_neg h, min_eq_left (not_lt.mp h)]

theorem npmax_fin (a b : Rat) : npmax (fin a) (fin b) = fin (max a b) := by
  simp only [npmax, isNan_fin, Bool.or_self, Bool.false_eq_true, ↓reduceIte, lt_fin, decide_eq_true_eq]
  by_cases h : a < b
  · rw [if_pos h, max_eq_right (le_of_lt h)]
  · rw [if_neg h, max_eq_left (not_lt.mp h)]

theorem npmin_fin_pinf (a : Rat) : npmin (fin a) pinf = fin a := by
  simp [npmin, isNan, lt]

theorem npmin_fin_ninf (a : Rat) : npmin (fin a) ninf = ninf := by
  simp [npmin, isNan, lt]

theorem npmax_fin_ninf (a : Rat) : npmax (fin a) ninf = fin a := by
  simp [npmax, isNan, lt]

theorem npmin_pinf_fin (a : Rat) : npmin pinf (fin a) = fin a := by
  simp [npmin, isNan, lt]

theorem npmin_ninf_fin (a : Rat) : npmin ninf (fin a) = ninf := by
  simp [npmin, isNan, lt]

theorem npmin_pinf_pinf : npmin pinf pinf = pinf := by
  simp [npmin, isNan, lt]

theorem npmin_ninf_ninf : npmin ninf ninf = ninf := by
  simp [npmin, isNan, lt]

theorem npmin_pinf_ninf : npmin pinf ninf = ninf := by
  simp [npmin, isNan, lt]

theorem npmin_ninf_pinf : npmin ninf pinf = ninf := by
  simp [npmin, isNan, lt]

theorem npmax_fin_pinf (a : Rat) : npmax (fin a) pinf = pinf := by
  simp [npmax, isNan, lt]

/-- `fin a / fin 0` is never finite -/
theorem fin_div_zero (a : Rat) :
    (fin a / fin 0 : XR) = if a = 0 then nan else if 0 < a then pinf else ninf := by
  show div (fin a) (fin 0) = _
  simp [div]

end Shangrla.XRRange

namespace Shangrla.NM

/-! ### the parameters as the methods resolve them (`getattr(self, name, default)`) -/

/-- `getattr(self, "eta", u*(1-eps))` -/
def Cfg.etaV (cfg : Cfg) : Rat := cfg.kw.eta.getD (cfg.u * (1 - eps))
def Cfg.cV (cfg : Cfg) : Rat := cfg.kw.c.getD (1 / 2)
def Cfg.dV (cfg : Cfg) : Rat := cfg.kw.d.getD 100
def Cfg.fV (cfg : Cfg) : Rat := cfg.kw.f.getD 0
def Cfg.minsdV (cfg : Cfg) : Rat := cfg.kw.minsd.getD (1 / 1000000)
def Cfg.lamV (cfg : Cfg) : Rat := cfg.kw.lam.getD (1 / 2)
def Cfg.c0V (cfg : Cfg) : Rat := cfg.kw.cG0.getD (1 - eps)
def Cfg.cmV (cfg : Cfg) : Rat := cfg.kw.cGmax.getD (1 - eps)
def Cfg.cgV (cfg : Cfg) : Rat := cfg.kw.cGgrow.getD 0
def Cfg.p2V (cfg : Cfg) : Rat := cfg.kw.rateError2.getD (1 / 10000)
end Shangrla.NM

namespace Shangrla.NMRange
open Shangrla Shangrla.NM
open Shangrla.XR (fin)

/-! ### `eps` -/

theorem eps_pos : 0 < eps := by unfold eps; norm_num
theorem eps_lt_one : eps < 1 := by unfold eps; norm_num
theorem one_sub_eps_pos : 0 < 1 - eps := by unfold eps; norm_num
theorem one_sub_eps_le_one : 1 - eps ≤ 1 := by unfold eps; norm_num

/-- the sample is not longer than the population -/
def LenOK (N : Option Nat) (x : List Rat) : Prop := ∀ n, N = some n → x.length ≤ n

theorem lenOK_none (x : List Rat) : LenOK none x := by intro n h; cases h

/-! ### `sqrtX` -/

theorem sqrtX_fin (sqrtF : Rat → Rat) {q : Rat} (h : 0 ≤ q) : sqrtX sqrtF (fin q) = fin (sqrtF q) := by
  simp [sqrtX, not_lt.mpr h]

/-! ### lengths -/

@[simp] theorem length_prefixSumsFrom (S : Rat) (x : List Rat) : (prefixSumsFrom S x).length = x.length := by
  induction x generalizing S with
  | nil => rfl
  | cons a x ih => simp [prefixSumsFrom, ih]

@[simp] theorem length_prefixSums (x : List Rat) : (prefixSums x).length = x.length :=
  length_prefixSumsFrom 0 x

@[simp] theorem length_nullMeansFrom (N : Option Nat) (t S : Rat) (j : Nat) (x : List Rat) :
    (nullMeansFrom N t S j x).length = x.length := by
  induction x generalizing S j with
  | nil => rfl
  | cons a x ih => simp [nullMeansFrom, ih]

@[simp] theorem length_mapIdxFrom {α β} (f : Nat → α → β) (j : Nat) (l : List α) :
    (mapIdxFrom f j l).length = l.length := by
  induction l generalizing j with
  | nil => rfl
  | cons a l ih => simp [mapIdxFrom, ih]

@[simp] theorem length_shiftIn {α} (a : α) (v : List α) : (shiftIn a v).length = v.length := by
  simp [shiftIn]

theorem length_welfordFrom (m v : Rat) (i : Nat) (x : List Rat) :
    (welfordFrom m v i x).1.length = x.length ∧ (welfordFrom m v i x).2.length = x.length := by
  induction x generalizing m v i with
  | nil => exact ⟨rfl, rfl⟩
  | cons a x ih =>
    simp only [welfordFrom, List.length_cons]
    exact ⟨by rw [(ih _ _ _).1], by rw [(ih _ _ _).2]⟩

@[simp] theorem length_welford_fst (x : List Rat) : (welford x).1.length = x.length := by
  cases x with
  | nil => rfl
  | cons a x => simp [welford, (length_welfordFrom a 0 1 x).1]

@[simp] theorem length_welford_snd (x : List Rat) : (welford x).2.length = x.length := by
  cases x with
  | nil => rfl
  | cons a x => simp [welford, (length_welfordFrom a 0 1 x).2]

/-! ### entrywise descriptions -/

theorem getElem?_mapIdxFrom {α β} (f : Nat → α → β) (j : Nat) (l : List α) (i : Nat) :
    (mapIdxFrom f j l)[i]? = (l[i]?).map (f (j + i)) := by
  induction l generalizing j i with
  | nil => simp [mapIdxFrom]
  | cons a l ih =>
    cases i with
    | zero => simp [mapIdxFrom]
    | succ i =>
      simp only [mapIdxFrom, List.getElem?_cons_succ, ih]
      congr 2; omega

/-- entry `i` of the prefix sums is the start value plus the first `i` observations -/
theorem getElem?_prefixSumsFrom (S : Rat) (x : List Rat) (i : Nat) :
    (prefixSumsFrom S x)[i]? = if i < x.length then some (xsumFrom S (x.take i)) else none := by
  induction x generalizing S i with
  | nil => simp [prefixSumsFrom]
  | cons a x ih =>
    cases i with
    | zero => simp [prefixSumsFrom, xsumFrom]
    | succ i => simp [prefixSumsFrom, xsumFrom, ih]

/-- the null means are a function of the prefix sums and the (1-based) index -/
theorem nullMeansFrom_eq_mapIdxFrom (N : Option Nat) (t S : Rat) (j : Nat) (x : List Rat) :
    nullMeansFrom N t S j x = mapIdxFrom (fun k s => mu N t s k) j (prefixSumsFrom S x) := by
  induction x generalizing S j with
  | nil => rfl
  | cons a x ih => simp [nullMeansFrom, prefixSumsFrom, mapIdxFrom, ih]

theorem getElem?_nullMeansFrom (N : Option Nat) (t S : Rat) (j : Nat) (x : List Rat) (i : Nat) :
    (nullMeansFrom N t S j x)[i]? =
      if i < x.length then some (mu N t (xsumFrom S (x.take i)) (j + i)) else none := by
  rw [nullMeansFrom_eq_mapIdxFrom, getElem?_mapIdxFrom, getElem?_prefixSumsFrom]
  split <;> rfl

/-- entry `i` of the null means, given entry `i` of the prefix sums -/
theorem nullMeans_of_prefixSums {N : Option Nat} {t S : Rat} {j : Nat} {x : List Rat} {i : Nat} {s : Rat}
    (h : (prefixSumsFrom S x)[i]? = some s) : (nullMeansFrom N t S j x)[i]? = some (mu N t s (j + i)) := by
  rw [nullMeansFrom_eq_mapIdxFrom, getElem?_mapIdxFrom, h]; rfl

/-- and conversely: every entry of the null means comes from a prefix sum -/
theorem prefixSums_of_nullMeans {N : Option Nat} {t S : Rat} {j : Nat} {x : List Rat} {i : Nat} {m : Rat}
    (h : (nullMeansFrom N t S j x)[i]? = some m) :
    ∃ s, (prefixSumsFrom S x)[i]? = some s ∧ m = mu N t s (j + i) := by
  rw [nullMeansFrom_eq_mapIdxFrom, getElem?_mapIdxFrom] at h
  cases hs : (prefixSumsFrom S x)[i]? with
  | none => rw [hs] at h; cases h
  | some s => rw [hs] at h; exact ⟨s, rfl, by injection h with h; exact h.symm⟩

theorem lt_length_of_getElem? {α} {l : List α} {i : Nat} {a : α} (h : l[i]? = some a) : i < l.length := by
  rcases List.getElem?_eq_some_iff.mp h with ⟨hi, _⟩; exact hi

theorem exists_getElem? {α} (l : List α) {i : Nat} (h : i < l.length) : ∃ a, l[i]? = some a :=
  ⟨l[i], List.getElem?_eq_getElem h⟩

/-- with infinite `N` every null mean is `t` -/
theorem nullMeans_none {t S : Rat} {j : Nat} {x : List Rat} {i : Nat} {m : Rat}
    (h : (nullMeansFrom none t S j x)[i]? = some m) : m = t := by
  obtain ⟨s, _, hm⟩ := prefixSums_of_nullMeans h
  exact hm

/-- the first null mean is `t` -/
theorem nullMeans_zero (N : Option Nat) (t : Rat) (a : Rat) (x : List Rat) (hN : LenOK N (a :: x)) :
    (nullMeansFrom N t 0 1 (a :: x))[0]? = some t := by
  cases N with
  | none => simp [nullMeansFrom, mu]
  | some n =>
    have hn : 1 ≤ n := by have := hN n rfl; simp at this; omega
    have : (n : Rat) ≠ 0 := by
      have : (0 : Rat) < n := by exact_mod_cast hn
      exact ne_of_gt this
    simp [nullMeansFrom, mu]
    field_simp

/-! ### `sjm` -/

theorem sjm_ok (N : Option Nat) (t : Rat) (x : List Rat) (hx : x ≠ []) (hN : LenOK N x) :
    sjm N t x = .ok (prefixSums x, xsum x, nullMeansFrom N t 0 1 x) := by
  unfold sjm
  have : x.isEmpty = false := by cases x with
    | nil => exact absurd rfl hx
    | cons a x => rfl
  rw [this]
  cases N with
  | none => rfl
  | some n =>
    have h := hN n rfl
    simp only [Bool.false_eq_true, ↓reduceIte, gt_iff_lt, not_lt.mpr h]

theorem sjm_nil (N : Option Nat) (t : Rat) : sjm N t [] = .error .index := rfl

/-! ### Welford: the running variance is non-negative -/

theorem welford_step_nonneg (xi m : Rat) (k : Nat) :
    0 ≤ (xi - m) * (xi - (m + (xi - m) / ((k + 1 : Nat) : Rat))) := by
  have hk : (1 : Rat) ≤ ((k + 1 : Nat) : Rat) := by
    have : (1 : Nat) ≤ k + 1 := Nat.le_add_left 1 k
    exact_mod_cast this
  have hk0 : (0 : Rat) < ((k + 1 : Nat) : Rat) := lt_of_lt_of_le one_pos hk
  have e : (xi - m) * (xi - (m + (xi - m) / ((k + 1 : Nat) : Rat)))
      = (xi - m) ^ 2 * (1 - 1 / ((k + 1 : Nat) : Rat)) := by ring
  rw [e]
  apply mul_nonneg (sq_nonneg _)
  have : 1 / ((k + 1 : Nat) : Rat) ≤ 1 := by
    rw [div_le_iff₀ hk0]; linarith
  linarith

theorem welfordFrom_var_nonneg (m v : Rat) (i : Nat) (x : List Rat) (hv : 0 ≤ v) :
    ∀ w ∈ (welfordFrom m v i x).2, 0 ≤ w := by
  induction x generalizing m v i with
  | nil => intro w hw; cases hw
  | cons a x ih =>
    have hstep : 0 ≤ v + (a - m) * (a - (m + (a - m) / ((i + 1 : Nat) : Rat))) :=
      add_nonneg hv (welford_step_nonneg a m i)
    intro w hw
    simp only [welfordFrom, List.mem_cons] at hw
    rcases hw with rfl | hw
    · apply div_nonneg hstep
      exact_mod_cast Nat.zero_le (i + 1)
    · exact ih _ _ _ hstep w hw

theorem welford_var_nonneg (x : List Rat) : ∀ w ∈ (welford x).2, 0 ≤ w := by
  cases x with
  | nil => intro w hw; cases hw
  | cons a x =>
    intro w hw
    simp only [welford, List.mem_cons] at hw
    rcases hw with rfl | hw
    · exact le_refl _
    · exact welfordFrom_var_nonneg a 0 1 x (le_refl _) w hw

/-! ### the standard deviations used by `shrink_trunc` are finite and positive -/

/-- every entry is a positive rational -/
def AllPosFin (l : List XR) : Prop := ∀ e ∈ l, ∃ p : Rat, e = fin p ∧ 0 < p

/-- `sdj` of `shrink_trunc` (L313-316) -/
def sdList (sqrtF : Rat → Rat) (minsd : Rat) (x : List Rat) : List XR :=
  mapIdxFrom (fun i s => if i = 1 then (1 : XR) else s) 0
    (shiftIn (1 : XR) ((welford x).2.map (fun vi => XR.npmax (sqrtX sqrtF (.fin vi)) (.fin minsd))))

@[simp] theorem length_sdList (sqrtF : Rat → Rat) (minsd : Rat) (x : List Rat) :
    (sdList sqrtF minsd x).length = x.length := by
  simp [sdList]

theorem mem_mapIdxFrom {α β} {f : Nat → α → β} {j : Nat} {l : List α} {b : β}
    (h : b ∈ mapIdxFrom f j l) : ∃ k a, a ∈ l ∧ b = f k a := by
  induction l generalizing j with
  | nil => cases h
  | cons a l ih =>
    simp only [mapIdxFrom, List.mem_cons] at h
    rcases h with rfl | h
    · exact ⟨j, a, List.mem_cons_self, rfl⟩
    · obtain ⟨k, a', ha', hb⟩ := ih h
      exact ⟨k, a', List.mem_cons_of_mem _ ha', hb⟩

theorem mem_shiftIn {α} {a b : α} {v : List α} (h : b ∈ shiftIn a v) : b = a ∨ b ∈ v := by
  have := List.mem_of_mem_dropLast h
  simpa using this

theorem sdList_posFin (sqrtF : Rat → Rat) (minsd : Rat) (hm : 0 < minsd)
    (x : List Rat) : AllPosFin (sdList sqrtF minsd x) := by
  intro e he
  obtain ⟨k, a, ha, rfl⟩ := mem_mapIdxFrom he
  by_cases hk : k = 1
  · exact ⟨1, by simp [hk], one_pos⟩
  · simp only [hk, ↓reduceIte]
    rcases mem_shiftIn ha with rfl | ha
    · exact ⟨1, rfl, one_pos⟩
    · rw [List.mem_map] at ha
      obtain ⟨v, hv, rfl⟩ := ha
      have hv0 := welford_var_nonneg x v hv
      rw [sqrtX_fin sqrtF hv0, XRRange.npmax_fin]
      exact ⟨_, rfl, lt_of_lt_of_le hm (le_max_right _ _)⟩

/-! ### closed forms of the estimators -/

/-- the alternative before draw `i+1` under `fixed_alternative_mean`, from the null-style mean for `eta` -/
theorem fixedAlternativeMean_eq (cfg : Cfg) (x : List Rat) (hx : x ≠ []) (hN : LenOK cfg.N x) :
    fixedAlternativeMean cfg x =
      .ok ((nullMeansFrom cfg.N cfg.etaV 0 1 x).map (fun mj => fin (if cfg.u < mj then cfg.u else mj))) := by
  unfold fixedAlternativeMean
  show (sjm cfg.N cfg.etaV x >>= _) = _
  rw [sjm_ok _ _ _ hx hN]
  rfl

/-- one entry of `shrink_trunc` (L317-322): draw `j`, prefix sum `s`, null mean `mj`, thresholded sd `sd` -/
def stEntry (sqrtF : Rat → Rat) (u eta c d f : Rat) (j : Nat) (row : Rat × Rat × XR) : XR :=
  let (s, mj, sd) := row
  let dj : XR := .fin (d + (j : Rat) - 1)
  let weighted : XR := ((XR.fin (d * eta + s)) / dj + (XR.fin (u * f)) / sd) / ((1 : XR) + (XR.fin f) / sd)
  let lower : XR := (XR.fin mj) + (XR.fin c) / sqrtX sqrtF dj
  XR.npmin (.fin (u * (1 - eps))) (XR.npmax weighted lower)

theorem shrinkTrunc_eq (sqrtF : Rat → Rat) (cfg : Cfg) (x : List Rat) (hx : x ≠ []) (hN : LenOK cfg.N x) :
    shrinkTrunc sqrtF cfg x =
      .ok (mapIdxFrom (stEntry sqrtF cfg.u cfg.etaV cfg.cV cfg.dV cfg.fV) 1
        ((prefixSums x).zip ((nullMeansFrom cfg.N cfg.t 0 1 x).zip (sdList sqrtF cfg.minsdV x)))) := by
  unfold shrinkTrunc
  show (sjm cfg.N cfg.t x >>= _) = _
  rw [sjm_ok _ _ _ hx hN]
  rfl

/-- the shrunk estimate before truncation -/
def stWeighted (u eta d f : Rat) (j : Nat) (s p : Rat) : Rat :=
  ((d * eta + s) / (d + (j : Rat) - 1) + u * f / p) / (1 + f / p)

/-- the value of one entry of `shrink_trunc` when the sd is a positive rational -/
theorem stEntry_fin (sqrtF : Rat → Rat) (hs : ∀ q, 0 < q → 0 < sqrtF q) (u eta c d f : Rat) (hd : 0 < d)
    (hf : 0 ≤ f) (j : Nat) (hj : 1 ≤ j) (s mj p : Rat) (hp : 0 < p) :
    stEntry sqrtF u eta c d f j (s, mj, fin p) =
      fin (min (u * (1 - eps)) (max (stWeighted u eta d f j s p) (mj + c / sqrtF (d + (j : Rat) - 1)))) := by
  have hj' : (1 : Rat) ≤ (j : Rat) := by exact_mod_cast hj
  have hdj : 0 < d + (j : Rat) - 1 := by linarith
  have hsq : 0 < sqrtF (d + (j : Rat) - 1) := hs _ hdj
  have hfp : 0 ≤ f / p := div_nonneg hf (le_of_lt hp)
  have h1 : (1 + f / p) ≠ 0 := by positivity
  unfold stEntry stWeighted
  simp only [sqrtX_fin sqrtF (le_of_lt hdj), XR.fin_div _ _ (ne_of_gt hdj), XR.fin_div _ _ (ne_of_gt hp),
    XR.fin_div _ _ (ne_of_gt hsq), XR.one_def, XR.fin_add, XR.fin_div _ _ h1, XRRange.npmax_fin, XRRange.npmin_fin]

/-! ### closed forms of the bets -/

theorem optimalComparison_eq (cfg : Cfg) (x : List Rat) (hu : cfg.u ≠ 1) :
    optimalComparison cfg x = .ok (List.replicate x.length (fin (min cfg.u (max 0
      ((1 - cfg.u * (1 - cfg.p2V)) / (2 - 2 * cfg.u) + cfg.u * (1 - cfg.p2V) - 1 / 2))))) := by
  have h2 : (2 : Rat) - 2 * cfg.u ≠ 0 := by
    intro h; apply hu; linarith
  unfold optimalComparison
  simp only [h2, ↓reduceIte]
  congr 1
  rw [List.map_const']
  congr 2
  simp only [Cfg.p2V]
  set eta := (1 - cfg.u * (1 - cfg.kw.rateError2.getD (1 / 10000))) / (2 - 2 * cfg.u) +
    cfg.u * (1 - cfg.kw.rateError2.getD (1 / 10000)) - 1 / 2 with heta
  by_cases h0 : 0 < eta
  · rw [if_pos h0, max_eq_right (le_of_lt h0)]
    by_cases h1 : eta < cfg.u
    · rw [if_pos h1, min_eq_right (le_of_lt h1)]
    · rw [if_neg h1, min_eq_left (not_lt.mp h1)]
  · rw [if_neg h0, max_eq_left (not_lt.mp h0)]
    by_cases h1 : 0 < cfg.u
    · rw [if_pos h1, min_eq_right (le_of_lt h1)]
    · rw [if_neg h1, min_eq_left (not_lt.mp h1)]

theorem optimalComparison_zerodiv (cfg : Cfg) (x : List Rat) (hu : cfg.u = 1) :
    optimalComparison cfg x = .error .zerodiv := by
  unfold optimalComparison
  simp [hu]

theorem fixedBet_eq (cfg : Cfg) (x : List Rat) (lam : Rat) (h : cfg.kw.lam = some lam) :
    fixedBet cfg x = .ok (List.replicate x.length (fin lam)) := by
  unfold fixedBet
  rw [h]
  simp only [List.map_const']

/-- the truncation level `c_j` of aGRAPA before draw `i+1` (L431): a rational -/
def cJ (sqrtF : Rat → Rat) (c0 cm cg : Rat) (i : Nat) : Rat :=
  c0 + (cm - c0) * (1 - 1 / (1 + cg * sqrtF (i : Rat)))

/-- one entry of `agrapa` (L431-432): index `i` (0-based), shifted raw bet `l`, adjusted null mean `ta` -/
def agEntry (sqrtF : Rat → Rat) (c0 cm cg : Rat) (i : Nat) (row : XR × XR) : XR :=
  let (l, ta) := row
  let c : XR := (XR.fin c0) + (XR.fin (cm - c0)) *
    ((1 : XR) - (1 : XR) / ((1 : XR) + (XR.fin cg) * sqrtX sqrtF (.fin (i : Rat))))
  XR.npmax (0 : XR) (XR.npmin (c / ta) l)

/-- the raw aGRAPA bets (L424-425), NaN replaced by 0 -/
def agRaw (x : List Rat) (tAdj : List XR) : List XR :=
  ((welford x).1.zip ((welford x).2.zip tAdj)).map fun (mu, s2, ta) =>
    let r : XR := ((XR.fin mu) - ta) / ((XR.fin s2) + (ta - (XR.fin mu)) * (ta - (XR.fin mu)))
    if r.isNan then (0 : XR) else r

/-- `t_adj` of `agrapa` (L419-423) -/
def agTAdj (cfg : Cfg) (x : List Rat) : List XR :=
  match cfg.N with
  | none => x.map (fun _ => XR.fin cfg.t)
  | some n => mapIdxFrom (fun i s => (XR.fin ((n : Rat) * cfg.t - s)) / (XR.fin ((n : Rat) - (i : Rat)))) 0
      (prefixSums x)

theorem agrapa_eq (sqrtF : Rat → Rat) (cfg : Cfg) (x : List Rat) (hx : x ≠ []) :
    agrapa sqrtF cfg x =
      .ok (mapIdxFrom (agEntry sqrtF cfg.c0V cfg.cmV cfg.cgV) 0
        ((shiftIn (fin cfg.lamV) (agRaw x (agTAdj cfg x))).zip (agTAdj cfg x))) := by
  unfold agrapa
  have : x.isEmpty = false := by cases x with
    | nil => exact absurd rfl hx
    | cons a x => rfl
  rw [this]
  rfl

theorem agrapa_nil (sqrtF : Rat → Rat) (cfg : Cfg) : agrapa sqrtF cfg [] = .error .index := rfl

/-- the model's `t_adj` is the list of null means (when the sample fits in the population) -/
theorem agTAdj_eq (cfg : Cfg) (x : List Rat) (hN : LenOK cfg.N x) :
    agTAdj cfg x = (nullMeansFrom cfg.N cfg.t 0 1 x).map fin := by
  unfold agTAdj
  apply List.ext_getElem?
  intro i
  cases hNn : cfg.N with
  | none =>
    simp only [List.getElem?_map, getElem?_nullMeansFrom, mu]
    by_cases hi : i < x.length
    · simp [hi]
    · simp [hi]
  | some n =>
    have hlen : x.length ≤ n := hN n hNn
    simp only [getElem?_mapIdxFrom, List.getElem?_map, nullMeansFrom_eq_mapIdxFrom, prefixSums]
    cases hs : (prefixSumsFrom 0 x)[i]? with
    | none => rfl
    | some s =>
      have hi : i < x.length := by simpa using lt_length_of_getElem? hs
      have hin : (i : Rat) < (n : Rat) := by exact_mod_cast lt_of_lt_of_le hi hlen
      have hne : (n : Rat) - (i : Rat) ≠ 0 := by linarith
      simp only [Option.map_some, Nat.zero_add, mu]
      rw [XR.fin_div _ _ hne]
      congr 3
      push_cast
      ring

@[simp] theorem length_agTAdj (cfg : Cfg) (x : List Rat) : (agTAdj cfg x).length = x.length := by
  unfold agTAdj
  cases cfg.N <;> simp

@[simp] theorem length_agRaw (x : List Rat) (tAdj : List XR) (h : tAdj.length = x.length) :
    (agRaw x tAdj).length = x.length := by
  simp [agRaw, h]

theorem agRaw_not_nan (x : List Rat) (tAdj : List XR) : ∀ r ∈ agRaw x tAdj, r.isNan = false := by
  intro r hr
  simp only [agRaw, List.mem_map] at hr
  obtain ⟨⟨mu, s2, ta⟩, _, rfl⟩ := hr
  simp only
  split
  · rfl
  · rename_i h; simpa using h

/-- the truncation level `c_j` as the model computes it is the rational `cJ` -/
theorem cJ_xr (sqrtF : Rat → Rat) (hs0 : ∀ q, 0 ≤ sqrtF q) (c0 cm cg : Rat) (hg : 0 ≤ cg) (i : Nat) :
    ((XR.fin c0) + (XR.fin (cm - c0)) *
      ((1 : XR) - (1 : XR) / ((1 : XR) + (XR.fin cg) * sqrtX sqrtF (.fin (i : Rat))))) = fin (cJ sqrtF c0 cm cg i) := by
  have hi : (0 : Rat) ≤ (i : Rat) := by exact_mod_cast Nat.zero_le i
  have h1 : (1 + cg * sqrtF (i : Rat)) ≠ 0 := by
    have := mul_nonneg hg (hs0 (i : Rat))
    intro h; linarith
  simp only [sqrtX_fin sqrtF hi, XR.one_def, XR.fin_mul, XR.fin_add, XR.fin_div _ _ h1, XR.fin_sub, cJ]

theorem cJ_between (sqrtF : Rat → Rat) (hs0 : ∀ q, 0 ≤ sqrtF q) (c0 cm cg : Rat) (hg : 0 ≤ cg)
    (h0m : c0 ≤ cm) (i : Nat) : c0 ≤ cJ sqrtF c0 cm cg i ∧ cJ sqrtF c0 cm cg i ≤ cm := by
  have hpos : 0 < 1 + cg * sqrtF (i : Rat) := by
    have := mul_nonneg hg (hs0 (i : Rat)); linarith
  have hle : 1 / (1 + cg * sqrtF (i : Rat)) ≤ 1 := by
    rw [div_le_iff₀ hpos]
    have := mul_nonneg hg (hs0 (i : Rat)); linarith
  have hge : 0 < 1 / (1 + cg * sqrtF (i : Rat)) := by positivity
  unfold cJ
  constructor
  · have : 0 ≤ (cm - c0) * (1 - 1 / (1 + cg * sqrtF (i : Rat))) :=
      mul_nonneg (by linarith) (by linarith)
    linarith
  · have : (cm - c0) * (1 - 1 / (1 + cg * sqrtF (i : Rat))) ≤ (cm - c0) * 1 :=
      mul_le_mul_of_nonneg_left (by linarith) (by linarith)
    linarith

/-- one entry of `agrapa` where the null mean is positive and the shifted raw bet is not NaN -/
theorem agEntry_range (sqrtF : Rat → Rat) (hs0 : ∀ q, 0 ≤ sqrtF q) (c0 cm cg : Rat) (hg : 0 ≤ cg) (i : Nat)
    (l : XR) (hl : l.isNan = false) (m : Rat) (hm : 0 < m) :
    ∃ b : Rat, agEntry sqrtF c0 cm cg i (l, fin m) = fin b ∧ 0 ≤ b ∧ b ≤ max 0 (cJ sqrtF c0 cm cg i / m) := by
  unfold agEntry
  simp only [cJ_xr sqrtF hs0 c0 cm cg hg i, XR.fin_div _ _ (ne_of_gt hm), XR.zero_def]
  cases l with
  | fin q =>
    rw [XRRange.npmin_fin, XRRange.npmax_fin]
    exact ⟨_, rfl, le_max_left _ _, max_le_max (le_refl _) (min_le_left _ _)⟩
  | pinf =>
    rw [XRRange.npmin_fin_pinf, XRRange.npmax_fin]
    exact ⟨_, rfl, le_max_left _ _, le_refl _⟩
  | ninf =>
    rw [XRRange.npmin_fin_ninf, XRRange.npmax_fin_ninf]
    exact ⟨0, rfl, le_refl _, le_max_left _ _⟩
  | nan => simp at hl

/-- the exact value of an entry of `agrapa` whose shifted raw bet is the rational `q` -/
theorem agEntry_fin (sqrtF : Rat → Rat) (hs0 : ∀ q, 0 ≤ sqrtF q) (c0 cm cg : Rat) (hg : 0 ≤ cg) (i : Nat)
    (q m : Rat) (hm : m ≠ 0) :
    agEntry sqrtF c0 cm cg i (fin q, fin m) = fin (max 0 (min (cJ sqrtF c0 cm cg i / m) q)) := by
  unfold agEntry
  simp only [cJ_xr sqrtF hs0 c0 cm cg hg i, XR.fin_div _ _ hm, XR.zero_def, XRRange.npmin_fin, XRRange.npmax_fin]

/-- with a finite `t_adj` every raw aGRAPA bet is finite: the denominator `s2 + (t_adj - mean)^2` vanishes
only when the numerator does (the running variance is non-negative), and that `0/0` is replaced by 0 -/
theorem agRaw_fin (x : List Rat) (tAdj : List XR) (ht : ∀ ta ∈ tAdj, ∃ τ : Rat, ta = fin τ) :
    ∀ r ∈ agRaw x tAdj, ∃ q : Rat, r = fin q := by
  intro r hr
  simp only [agRaw, List.mem_map] at hr
  obtain ⟨⟨mu, s2, ta⟩, hmem, rfl⟩ := hr
  have h2 := (List.of_mem_zip hmem).2
  have hs2 : 0 ≤ s2 := welford_var_nonneg x s2 (List.of_mem_zip h2).1
  obtain ⟨τ, rfl⟩ := ht ta (List.of_mem_zip h2).2
  simp only [XR.fin_sub, XR.fin_mul, XR.fin_add]
  by_cases hden : s2 + (τ - mu) * (τ - mu) = 0
  · have hsq : 0 ≤ (τ - mu) * (τ - mu) := mul_self_nonneg _
    have h0 : (τ - mu) * (τ - mu) = 0 := by linarith
    have h1 : τ - mu = 0 := by simpa using h0
    have h3 : mu - τ = 0 := by linarith
    rw [hden, h3, XRRange.fin_div_zero]
    exact ⟨0, by simp⟩
  · rw [XR.fin_div _ _ hden]
    exact ⟨(mu - τ) / (s2 + (τ - mu) * (τ - mu)), by simp⟩

/-- an entry of `agrapa` whose adjusted null mean is 0 is still finite when `c_j ≠ 0` and the raw bet is -/
theorem agEntry_fin_zero (sqrtF : Rat → Rat) (hs0 : ∀ q, 0 ≤ sqrtF q) (c0 cm cg : Rat) (hg : 0 ≤ cg) (i : Nat)
    (q : Rat) (hc : cJ sqrtF c0 cm cg i ≠ 0) :
    ∃ b : Rat, agEntry sqrtF c0 cm cg i (fin q, fin 0) = fin b ∧ 0 ≤ b := by
  unfold agEntry
  simp only [cJ_xr sqrtF hs0 c0 cm cg hg i, XRRange.fin_div_zero, hc, ↓reduceIte, XR.zero_def]
  split
  · rw [XRRange.npmin_pinf_fin, XRRange.npmax_fin]; exact ⟨_, rfl, le_max_left _ _⟩
  · rw [XRRange.npmin_ninf_fin, XRRange.npmax_fin_ninf]; exact ⟨0, rfl, le_refl _⟩

/-- finiteness of `agrapa`: for `cGgrow ≥ 0`, a sample not longer than the population (so that no denominator
`N - i` vanishes) and truncation levels `c_j ≠ 0` (e.g. `0 < cG0 ≤ cGmax`), every bet is a non-negative
rational.  (If `c_j = 0` and the null mean is exactly 0 the code computes `0/0`: the bet is NaN.) -/
theorem agrapa_all_fin (sqrtF : Rat → Rat) (hs0 : ∀ q, 0 ≤ sqrtF q) (cfg : Cfg) (x : List Rat)
    (hx : x ≠ []) (hN : LenOK cfg.N x) (hg : 0 ≤ cfg.cgV)
    (hc : ∀ i, cJ sqrtF cfg.c0V cfg.cmV cfg.cgV i ≠ 0) :
    ∃ l, agrapa sqrtF cfg x = .ok l ∧ l.length = x.length ∧ ∀ e ∈ l, ∃ b : Rat, e = fin b ∧ 0 ≤ b := by
  have hlenRaw : (agRaw x (agTAdj cfg x)).length = x.length := length_agRaw x _ (length_agTAdj cfg x)
  refine ⟨_, agrapa_eq sqrtF cfg x hx, by simp [hlenRaw], ?_⟩
  intro e he
  obtain ⟨k, ⟨li, ta⟩, hmem, rfl⟩ := mem_mapIdxFrom he
  have htfin : ∀ ta ∈ agTAdj cfg x, ∃ τ : Rat, ta = fin τ := by
    intro ta hta
    rw [agTAdj_eq cfg x hN, List.mem_map] at hta
    obtain ⟨τ, _, rfl⟩ := hta
    exact ⟨τ, rfl⟩
  obtain ⟨τ, rfl⟩ := htfin ta (List.of_mem_zip hmem).2
  obtain ⟨q, rfl⟩ : ∃ q : Rat, li = fin q := by
    rcases mem_shiftIn (List.of_mem_zip hmem).1 with rfl | h
    · exact ⟨_, rfl⟩
    · exact agRaw_fin x _ htfin li h
  by_cases hτ : τ = 0
  · subst hτ
    exact agEntry_fin_zero sqrtF hs0 _ _ _ hg k q (hc k)
  · exact ⟨_, agEntry_fin sqrtF hs0 _ _ _ hg k q τ hτ, le_max_left _ _⟩

/-- finiteness of `shrink_trunc` for `d > 0`, `minsd > 0`, `f ≥ 0` (any `c`, `eta`): every entry is rational -/
theorem shrinkTrunc_all_fin (sqrtF : Rat → Rat) (hs : ∀ q, 0 < q → 0 < sqrtF q) (cfg : Cfg) (x : List Rat)
    (hx : x ≠ []) (hN : LenOK cfg.N x) (hd : 0 < cfg.dV) (hf : 0 ≤ cfg.fV) (hmin : 0 < cfg.minsdV) :
    ∃ l, shrinkTrunc sqrtF cfg x = .ok l ∧ l.length = x.length ∧ ∀ e ∈ l, ∃ q : Rat, e = fin q := by
  refine ⟨_, shrinkTrunc_eq sqrtF cfg x hx hN, by simp, ?_⟩
  intro e he
  rcases List.getElem_of_mem he with ⟨i, hi, rfl⟩
  have hsome := List.getElem?_eq_getElem hi
  rw [getElem?_mapIdxFrom] at hsome
  cases hz : ((prefixSums x).zip ((nullMeansFrom cfg.N cfg.t 0 1 x).zip (sdList sqrtF cfg.minsdV x)))[i]? with
  | none => rw [hz] at hsome; cases hsome
  | some row =>
    obtain ⟨s, m, sd⟩ := row
    rw [hz, Option.map_some] at hsome
    have h2 := (List.getElem?_zip_eq_some.mp hz).2
    have hsd := (List.getElem?_zip_eq_some.mp h2).2
    obtain ⟨p, hp, hp0⟩ := sdList_posFin sqrtF _ hmin x sd (List.mem_of_getElem? hsd)
    subst hp
    rw [stEntry_fin sqrtF hs _ _ _ _ _ hd hf (1 + i) (Nat.le_add_right 1 i) s m p hp0] at hsome
    injection hsome with hsome
    exact ⟨_, hsome.symm⟩

/-- finiteness of `fixed_alternative_mean`: every entry is rational -/
theorem fixedAlternativeMean_all_fin (cfg : Cfg) (x : List Rat) (hx : x ≠ []) (hN : LenOK cfg.N x) :
    ∃ l, fixedAlternativeMean cfg x = .ok l ∧ l.length = x.length ∧ ∀ e ∈ l, ∃ q : Rat, e = fin q := by
  refine ⟨_, fixedAlternativeMean_eq cfg x hx hN, by simp, ?_⟩
  intro e he
  rw [List.mem_map] at he
  obtain ⟨m, _, rfl⟩ := he
  exact ⟨_, rfl⟩

/-! ### the driver's square root satisfies the hypotheses made on `sqrtF` -/

theorem sqrtRat_nonneg (q : Rat) : 0 ≤ sqrtRat q := by
  unfold sqrtRat
  split
  · exact le_refl _
  · apply div_nonneg <;> exact_mod_cast Nat.zero_le _

theorem sqrtRat_pos (q : Rat) (hq : 0 < q) : 0 < sqrtRat q := by
  unfold sqrtRat
  rw [if_neg (not_le.mpr hq)]
  have hnum : 0 < q.num := Rat.num_pos.mpr hq
  have hn : 0 < q.num.toNat := by omega
  have hd : 0 < q.den := q.den_pos
  have hk : 0 < 10 ^ 30 := by norm_num
  have hprod : 0 < q.num.toNat * q.den * 10 ^ 30 * 10 ^ 30 :=
    Nat.mul_pos (Nat.mul_pos (Nat.mul_pos hn hd) hk) hk
  have hsq : 0 < Nat.sqrt (q.num.toNat * q.den * 10 ^ 30 * 10 ^ 30) := Nat.sqrt_pos.mpr hprod
  have hdk : 0 < q.den * 10 ^ 30 := Nat.mul_pos hd hk
  apply div_pos <;> exact_mod_cast (by assumption)

end Shangrla.NMRange
