/-
  Loop invariants of the RAIRE search (DESIGN.md Appendix F, S2-S3, O1-O3): the strengthened Cover
  invariant `SC` and the frontier-local invariants `FInv`, shown to be preserved by `insertNode`,
  `replaceDescendents`, `manageNode`, `pruneChecks`, `performDive`, `expandLoop`, and `mainLoop`; the
  "audit not possible" exits produce an alternative order no true assertion contradicts (`BadLeaf`).
-/
import Shangrla.Lemmas.RaireChain

namespace Shangrla.Raire
open Spec

set_option linter.unusedSectionVars false
set_option linter.unusedVariables false

section Loop
variable {α : Type} [DecidableEq α] {D : Type} [DiffOrd D] [DiffOrd.Lawful D]
variable (asn : Nat → Nat → Nat → Nat → D) (C : Contest α) (cvrs : List (Option (Ballot α))) (winner : α)

/-! ### the strengthened Cover invariant -/

/-- node `n` still accounts for `π`: it will never be expanded (`estimate <= lowerbound`), or `π` does not
run through one of the children already handed over to a dive -/
def Eff (n : Node α D) (lb : LB D) (π : List α) : Prop :=
  leLB n.estimate lb = true ∨ ∀ c ∈ n.explored, ¬ (c :: n.tail) <:+ π

/-- (S2) `π` is covered by a frontier node that still accounts for it -/
def SC (st : St α D) (π : List α) : Prop :=
  ∃ id ∈ st.fr, (st.store.get id).tail <:+ π ∧ Eff (st.store.get id) st.lb π

theorem Eff.mono {n : Node α D} {lb lb' : LB D} {π : List α} (h : Eff n lb π) (hl : LB.le lb lb') :
    Eff n lb' π := by
  rcases h with h | h
  · exact Or.inl (leLB_mono hl h)
  · exact Or.inr h

/-- `SC` survives any change that keeps the witnesses in the frontier, keeps their nodes, and only
raises the lower bound -/
theorem SC.mono {st st' : St α D} {π : List α} (h : SC st π)
    (hfr : ∀ id ∈ st.fr, id ∈ st'.fr ∧ (st'.store.get id).tail = (st.store.get id).tail ∧
      (st'.store.get id).estimate = (st.store.get id).estimate ∧
      (st'.store.get id).explored = (st.store.get id).explored) (hl : LB.le st.lb st'.lb) :
    SC st' π := by
  obtain ⟨id, hid, h1, h2⟩ := h
  obtain ⟨h3, h4, h5, h6⟩ := hfr id hid
  refine ⟨id, h3, by rw [h4]; exact h1, ?_⟩
  have := h2.mono hl
  unfold Eff at this ⊢
  rw [h4, h5, h6]; exact this

/-! ### frontier-local invariants (S3) -/

structure FInv (st : St α D) : Prop where
  inRange : ∀ id ∈ st.fr, id < st.store.size
  infExp : ∀ id ∈ st.fr, (st.store.get id).estimate = Diff.inf → (st.store.get id).expandable = true
  infPre : st.fr.Pairwise fun a b =>
    (st.store.get b).estimate = Diff.inf → (st.store.get a).estimate = Diff.inf
  lbFin : LBfin st.lb
  /-- (O1) the lower bound is below the largest difficulty of every sufficient set of true assertions -/
  lbOpt : ∀ x, st.lb = some x → LeOPT asn C cvrs winner x
  /-- (O2) so is the estimate of every frontier node that will not be expanded -/
  nonexpOpt : ∀ id ∈ st.fr, (st.store.get id).expandable = false →
    LeOPT asn C cvrs winner (st.store.get id).estimate
  /-- (O3) an expandable node is cheaper than everything before it, unless it is below the lower bound -/
  sorted : st.fr.Pairwise fun a b => (st.store.get b).expandable = true →
    Diff.le (st.store.get b).estimate (st.store.get a).estimate = true ∨
    leLB (st.store.get b).estimate st.lb = true

variable {asn C cvrs winner}

theorem FInv.leOPT_of_leLB {st : St α D} (h : FInv asn C cvrs winner st) {e : Diff D}
    (he : leLB e st.lb = true) : LeOPT asn C cvrs winner e := by
  cases hl : st.lb with
  | none => rw [hl] at he; cases he
  | some l =>
    rw [hl] at he
    exact (h.lbOpt l hl).mono asn C cvrs winner he

theorem FInv.congr {st st' : St α D} (h : FInv asn C cvrs winner st) (hfr : st'.fr = st.fr)
    (hsz : st.store.size ≤ st'.store.size)
    (hn : ∀ id ∈ st.fr, (st'.store.get id).estimate = (st.store.get id).estimate ∧
      (st'.store.get id).expandable = (st.store.get id).expandable)
    (hlb : st'.lb = st.lb) : FInv asn C cvrs winner st' := by
  refine ⟨?_, ?_, ?_, by rw [hlb]; exact h.lbFin, by rw [hlb]; exact h.lbOpt, ?_, ?_⟩
  · intro id hid; rw [hfr] at hid; exact Nat.lt_of_lt_of_le (h.inRange id hid) hsz
  · intro id hid; rw [hfr] at hid
    rw [(hn id hid).1, (hn id hid).2]; exact h.infExp id hid
  · rw [hfr]
    refine h.infPre.imp_of_mem ?_
    intro a b ha hb hab
    rw [(hn a ha).1, (hn b hb).1]; exact hab
  · intro id hid; rw [hfr] at hid
    rw [(hn id hid).1, (hn id hid).2]; exact h.nonexpOpt id hid
  · rw [hfr, hlb]
    refine h.sorted.imp_of_mem ?_
    intro a b ha hb hab
    rw [(hn a ha).1, (hn b hb).1, (hn b hb).2]; exact hab

theorem pairwise_insert {R : Nat → Nat → Prop} {pre post : List Nat} {id : Nat}
    (h : (pre ++ post).Pairwise R) (h1 : ∀ a ∈ pre, R a id) (h2 : ∀ b ∈ post, R id b) :
    (pre ++ id :: post).Pairwise R := by
  rw [List.pairwise_append] at h ⊢
  obtain ⟨p1, p2, p3⟩ := h
  refine ⟨p1, List.pairwise_cons.2 ⟨h2, p2⟩, ?_⟩
  intro a ha b hb
  simp only [List.mem_cons] at hb
  rcases hb with rfl | hb
  · exact h1 a ha
  · exact p3 a ha b hb

/-- `insert_node` preserves the frontier invariants (a non-expandable node must have a finite estimate
that is below every sufficient set) -/
theorem FInv.insertNode {st : St α D} (h : FInv asn C cvrs winner st) (id : Nat) (hid : id < st.store.size)
    (hne : (st.store.get id).expandable = false →
      (st.store.get id).estimate ≠ Diff.inf ∧ LeOPT asn C cvrs winner (st.store.get id).estimate) :
    FInv asn C cvrs winner { st with fr := Raire.insertNode st.store st.fr id } := by
  obtain ⟨pre, post, h1, h2, c1, c2, c3⟩ := insertNode_split st.store st.fr id
  refine ⟨?_, ?_, ?_, h.lbFin, h.lbOpt, ?_, ?_⟩
  · intro x hx
    rcases (mem_insertNode _ _ _ _).1 hx with rfl | hx
    · exact hid
    · exact h.inRange x hx
  · intro x hx hinf
    rcases (mem_insertNode _ _ _ _).1 hx with rfl | hx
    · cases he : (st.store.get x).expandable with
      | true => rfl
      | false => exact absurd hinf (hne he).1
    · exact h.infExp x hx hinf
  · show (Raire.insertNode st.store st.fr id).Pairwise _
    rw [h2]
    have hp := h.infPre
    rw [h1] at hp
    apply pairwise_insert hp
    · intro a _ hinf
      cases he : (st.store.get id).expandable with
      | false => exact absurd hinf (hne he).1
      | true =>
        have := c2 he hinf
        subst this
        rename_i ha; cases ha
    · intro b hb hinf
      cases he : (st.store.get id).expandable with
      | false => rw [c1 he] at hb; cases hb
      | true =>
        apply Classical.byContradiction
        intro hfin
        obtain ⟨_, c4⟩ := c3 he hfin
        cases post with
        | nil => cases hb
        | cons y post' =>
          have hy := c4 y rfl
          have hyfin : (st.store.get y).estimate ≠ Diff.inf := by
            intro hyi
            rw [hyi, Diff.inf_le_iff] at hy
            exact hfin hy
          simp only [List.mem_cons] at hb
          rcases hb with rfl | hb
          · exact hyfin hinf
          · have hpp := (List.pairwise_append.1 hp).2.1
            exact hyfin ((List.pairwise_cons.1 hpp).1 b hb hinf)
  · intro x hx hexp
    rcases (mem_insertNode _ _ _ _).1 hx with rfl | hx
    · exact (hne hexp).2
    · exact h.nonexpOpt x hx hexp
  · show (Raire.insertNode st.store st.fr id).Pairwise _
    rw [h2]
    have hp := h.sorted
    rw [h1] at hp
    apply pairwise_insert hp
    · intro a ha hexp
      by_cases hinf : (st.store.get id).estimate = Diff.inf
      · have := c2 hexp hinf
        subst this; cases ha
      · left
        have := (c3 hexp hinf).1 a ha
        rcases Diff.le_total (st.store.get a).estimate (st.store.get id).estimate with h' | h'
        · rw [h'] at this; cases this
        · exact h'
    · intro b hb hexpb
      cases he : (st.store.get id).expandable with
      | false => rw [c1 he] at hb; cases hb
      | true =>
        by_cases hinf : (st.store.get id).estimate = Diff.inf
        · left; rw [hinf]; exact Diff.le_inf _
        · obtain ⟨_, c4⟩ := c3 he hinf
          cases post with
          | nil => cases hb
          | cons y post' =>
            have hy := c4 y rfl
            simp only [List.mem_cons] at hb
            rcases hb with rfl | hb
            · exact Or.inl hy
            · have hpp := (List.pairwise_append.1 hp).2.1
              rcases (List.pairwise_cons.1 hpp).1 b hb hexpb with h' | h'
              · exact Or.inl (Diff.le_trans h' hy)
              · exact Or.inr h'

theorem FInv.filter {st : St α D} (h : FInv asn C cvrs winner st) (p : Nat → Bool) :
    FInv asn C cvrs winner { st with fr := st.fr.filter p } :=
  ⟨fun id hid => h.inRange id (List.mem_filter.1 hid).1,
   fun id hid => h.infExp id (List.mem_filter.1 hid).1,
   h.infPre.filter p, h.lbFin, h.lbOpt,
   fun id hid => h.nonexpOpt id (List.mem_filter.1 hid).1,
   h.sorted.filter p⟩

theorem FInv.replaceDescendents {st : St α D} (h : FInv asn C cvrs winner st) (id : Nat) (hid : id < st.store.size)
    (hne : (st.store.get id).estimate ≠ Diff.inf) (hopt : LeOPT asn C cvrs winner (st.store.get id).estimate) :
    FInv asn C cvrs winner { st with fr := Raire.replaceDescendents st.store st.fr id } :=
  (h.filter _).insertNode id hid (fun _ => ⟨hne, hopt⟩)

/-- raising the lower bound to a value that is still below every sufficient set -/
theorem FInv.setLb {st : St α D} (h : FInv asn C cvrs winner st) (lb : LB D) (hle : LB.le st.lb lb)
    (hlb : LBfin lb) (hopt : ∀ x, lb = some x → LeOPT asn C cvrs winner x) :
    FInv asn C cvrs winner { st with lb := lb } :=
  ⟨h.inRange, h.infExp, h.infPre, hlb, hopt, h.nonexpOpt,
   h.sorted.imp (fun hab hexp => (hab hexp).imp id (leLB_mono hle))⟩

variable (asn C cvrs winner)

/-! ### termination measure

Every iteration of the main loop strictly decreases `Phi`, the sum over the frontier of the weights of the
expandable nodes: a node that will never be expanded (`estimate <= lowerbound`) weighs its tail length, any
other expandable node weighs `W (N - length)`, more than everything its processing can add to the frontier. -/

/-- weight of an expandable node that may still be expanded, `d` = number of candidates not in its tail -/
def W (N : Nat) : Nat → Nat
  | 0 => N + 1
  | d + 1 => (2 * N + 1) * W N d

theorem W_pos (N d : Nat) : N + 1 ≤ W N d := by
  induction d with
  | zero => exact Nat.le_refl _
  | succ d ih =>
    show N + 1 ≤ (2 * N + 1) * W N d
    calc N + 1 ≤ W N d := ih
      _ = 1 * W N d := (Nat.one_mul _).symm
      _ ≤ (2 * N + 1) * W N d := Nat.mul_le_mul_right _ (by omega)

theorem W_mono (N : Nat) {d d' : Nat} (h : d ≤ d') : W N d ≤ W N d' := by
  induction h with
  | refl => exact Nat.le_refl _
  | step _ ih =>
    refine Nat.le_trans ih ?_
    show W N _ ≤ (2 * N + 1) * W N _
    calc W N _ = 1 * W N _ := (Nat.one_mul _).symm
      _ ≤ (2 * N + 1) * W N _ := Nat.mul_le_mul_right _ (by omega)

def wt (N : Nat) (n : Node α D) (lb : LB D) : Nat :=
  if n.expandable then (if leLB n.estimate lb then n.tail.length else W N (N - n.tail.length)) else 0

def Phi (st : St α D) : Nat :=
  (st.fr.map fun id => wt C.candidates.length (st.store.get id) st.lb).sum

theorem wt_le_W (N : Nat) (n : Node α D) (lb : LB D) (hlen : n.tail.length ≤ N) :
    wt N n lb ≤ W N (N - n.tail.length) := by
  have := W_pos N (N - n.tail.length)
  unfold wt
  split
  · split
    · omega
    · exact Nat.le_refl _
  · omega

theorem wt_final_le (N : Nat) (n : Node α D) (lb : LB D) (h : leLB n.estimate lb = true) :
    wt N n lb ≤ n.tail.length := by
  unfold wt
  rw [if_pos h]
  split
  · exact Nat.le_refl _
  · omega

theorem le_wt_of_exp (N : Nat) (n : Node α D) (lb : LB D) (h : n.expandable = true)
    (hlen : n.tail.length ≤ N) : n.tail.length ≤ wt N n lb := by
  have := W_pos N (N - n.tail.length)
  unfold wt
  rw [if_pos h]
  split
  · exact Nat.le_refl _
  · omega

theorem wt_mono_lb (N : Nat) (n : Node α D) {lb lb' : LB D} (hle : LB.le lb lb')
    (hlen : n.tail.length ≤ N) : wt N n lb' ≤ wt N n lb := by
  have hW := W_pos N (N - n.tail.length)
  unfold wt
  split
  · by_cases h : leLB n.estimate lb = true
    · rw [if_pos h, if_pos (leLB_mono hle h)]; exact Nat.le_refl _
    · rw [if_neg h]
      split
      · omega
      · exact Nat.le_refl _
  · exact Nat.le_refl _

theorem Phi_le_of {st st' : St α D} (hfr : st'.fr = st.fr)
    (h : ∀ id ∈ st.fr, wt C.candidates.length (st'.store.get id) st'.lb ≤
      wt C.candidates.length (st.store.get id) st.lb) : Phi C st' ≤ Phi C st := by
  unfold Phi
  rw [hfr]
  exact sum_map_le _ _ _ h

theorem Phi_insert (st : St α D) (id : Nat) :
    Phi C ({ st with fr := Raire.insertNode st.store st.fr id } : St α D) =
      Phi C st + wt C.candidates.length (st.store.get id) st.lb := by
  obtain ⟨pre, post, h1, h2, _⟩ := insertNode_split st.store st.fr id
  unfold Phi
  show ((Raire.insertNode st.store st.fr id).map _).sum = (st.fr.map _).sum + _
  rw [h2, h1]
  simp only [List.map_append, List.map_cons, List.sum_append, List.sum_cons]
  omega

theorem sum_map_filter_le {β : Type} (l : List β) (p : β → Bool) (f : β → Nat) :
    ((l.filter p).map f).sum ≤ (l.map f).sum := by
  induction l with
  | nil => simp
  | cons a l ih =>
    simp only [List.filter_cons]
    split
    · simp only [List.map_cons, List.sum_cons]; omega
    · simp only [List.map_cons, List.sum_cons]; omega

theorem Phi_filter (st : St α D) (p : Nat → Bool) :
    Phi C ({ st with fr := st.fr.filter p } : St α D) ≤ Phi C st :=
  sum_map_filter_le _ _ _

/-- expandable frontier nodes have incomplete tails (from the node invariant) -/
theorem len_le_of_ok {s : Store α D} {id : Nat} (h : NodeOK asn C cvrs winner s id) (hC : C.candidates.Nodup) :
    (s.get id).tail.length ≤ C.candidates.length :=
  (List.subperm_of_subset h.nodup h.sub).length_le

theorem Phi_setLb (hC : C.candidates.Nodup) (st : St α D) (lb' : LB D) (hle : LB.le st.lb lb')
    (hok : StoreOK asn C cvrs winner st.store) (hin : ∀ id ∈ st.fr, id < st.store.size) :
    Phi C ({ st with lb := lb' } : St α D) ≤ Phi C st :=
  Phi_le_of C rfl (fun id hid => wt_mono_lb _ _ hle (len_le_of_ok asn C cvrs winner (hok id (hin id hid)) hC))

/-! ### manage_node -/

theorem manageNode_expandable (st : St α D) (id : Nat) (h : (st.store.get id).expandable = true) :
    manageNode st id = (false, false, { st with fr := Raire.insertNode st.store st.fr id }) := by
  simp [manageNode, h]

theorem manageNode_leaf (st : St α D) (id anc : Nat) (h : (st.store.get id).expandable = false)
    (ha : (st.store.get id).bestAnc = some anc) :
    manageNode st id =
      if (st.store.get id).estimate.isInf && (st.store.get anc).estimate.isInf then
        (true, true, { st with lb := some Diff.inf })
      else if Diff.le (st.store.get anc).estimate (st.store.get id).estimate then
        (false, true, { st with lb := maxLB st.lb (st.store.get anc).estimate,
                                fr := Raire.replaceDescendents st.store st.fr anc })
      else
        (false, true, { st with lb := maxLB st.lb (st.store.get id).estimate,
                                fr := Raire.insertNode st.store st.fr id }) := by
  simp [manageNode, h, ha]

theorem LBfin_maxLB {lb : LB D} {x : Diff D} (h : LBfin lb) (hx : x ≠ Diff.inf) : LBfin (maxLB lb x) := by
  rcases maxLB_cases lb x with h1 | h1
  · rw [h1]; intro he; cases he; exact hx rfl
  · rw [h1]; exact h

theorem LBopt_maxLB {lb : LB D} {x : Diff D} (h : ∀ y, lb = some y → LeOPT asn C cvrs winner y)
    (hx : LeOPT asn C cvrs winner x) : ∀ y, maxLB lb x = some y → LeOPT asn C cvrs winner y := by
  intro y hy
  rcases maxLB_cases lb x with h1 | h1
  · rw [h1] at hy; cases hy; exact hx
  · rw [h1] at hy; exact h y hy

/-- `manage_node` reporting "audit not possible": the new leaf is an alternative order that no true
assertion contradicts -/
theorem manageNode_anp (hC : C.candidates.Nodup) (st : St α D) (id : Nat) (hid : id < st.store.size)
    (hok : StoreOK asn C cvrs winner st.store)
    (hanc : (st.store.get id).expandable = false → ∃ j, (st.store.get id).bestAnc = some j)
    (hleaf : (st.store.get id).expandable = false → (st.store.get id).tail.length = C.candidates.length)
    (h : (manageNode st id).1 = true) : BadLeaf asn C cvrs winner := by
  cases he : (st.store.get id).expandable with
  | true => rw [manageNode_expandable st id he] at h; cases h
  | false =>
    obtain ⟨anc, ha⟩ := hanc he
    rw [manageNode_leaf st id anc he ha] at h
    by_cases c1 : ((st.store.get id).estimate.isInf && (st.store.get anc).estimate.isInf) = true
    · simp only [Bool.and_eq_true, Diff.isInf_iff] at c1
      refine leaf_bad asn C cvrs winner hC (hok id hid) (hleaf he) c1.1 ?_
      intro j hj
      rw [ha] at hj; cases hj; exact c1.2
    · rw [if_neg c1] at h
      split at h <;> cases h

/-- what `manage_node` does to the invariants when it does not report "audit not possible":
the store is untouched, nothing that was covered gets uncovered, and every order through the new
node's tail is covered afterwards -/
theorem manageNode_spec (hC : C.candidates.Nodup) (st : St α D) (id : Nat) (hid : id < st.store.size)
    (hok : StoreOK asn C cvrs winner st.store) (hF : FInv asn C cvrs winner st)
    (hexp0 : (st.store.get id).explored = [])
    (hanc : (st.store.get id).expandable = false → ∃ j, (st.store.get id).bestAnc = some j)
    (hleaf : (st.store.get id).expandable = false → (st.store.get id).tail.length = C.candidates.length)
    (h : (manageNode st id).1 = false) :
    (manageNode st id).2.2.store = st.store ∧ FInv asn C cvrs winner (manageNode st id).2.2 ∧
    LB.le st.lb (manageNode st id).2.2.lb ∧
    (∀ π, SC st π → SC (manageNode st id).2.2 π) ∧
    (∀ π, (st.store.get id).tail <:+ π → SC (manageNode st id).2.2 π) ∧
    (manageNode st id).2.1 = !(st.store.get id).expandable ∧
    Phi C (manageNode st id).2.2 ≤
      Phi C st + W C.candidates.length (C.candidates.length - (st.store.get id).tail.length) := by
  have hlenid := len_le_of_ok asn C cvrs winner (hok id hid) hC
  cases he : (st.store.get id).expandable with
  | true =>
    rw [manageNode_expandable st id he]
    refine ⟨rfl, hF.insertNode id hid (by simp [he]), LB.le_refl _, ?_, ?_, rfl, ?_⟩
    rotate_left 2
    · rw [Phi_insert]
      exact Nat.add_le_add_left (wt_le_W _ _ _ hlenid) _
    · intro π hsc
      exact hsc.mono (fun x hx => ⟨(mem_insertNode _ _ _ _).2 (Or.inr hx), rfl, rfl, rfl⟩) (LB.le_refl _)
    · intro π hπ
      exact ⟨id, (mem_insertNode _ _ _ _).2 (Or.inl rfl), hπ, Or.inr (by rw [hexp0]; simp)⟩
  | false =>
    obtain ⟨anc, ha⟩ := hanc he
    obtain ⟨hlt, pre, hpre, htail⟩ := (hok id hid).anc anc ha
    have hancsz : anc < st.store.size := Nat.lt_trans hlt hid
    have hopt := leaf_leOPT asn C cvrs winner hC (hok id hid) (hleaf he) ha
    rw [manageNode_leaf st id anc he ha] at h ⊢
    by_cases c1 : ((st.store.get id).estimate.isInf && (st.store.get anc).estimate.isInf) = true
    · rw [if_pos c1] at h; cases h
    · rw [if_neg c1] at h ⊢
      by_cases c2 : Diff.le (st.store.get anc).estimate (st.store.get id).estimate = true
      · rw [if_pos c2]
        rw [if_pos c2] at hopt
        have hafin : (st.store.get anc).estimate ≠ Diff.inf := by
          intro hi
          rw [hi, Diff.inf_le_iff] at c2
          rw [hi, c2] at c1
          exact c1 rfl
        have hle := le_maxLB_left st.lb (st.store.get anc).estimate
        have hsuf : (st.store.get anc).tail <:+ (st.store.get id).tail := ⟨pre, htail.symm⟩
        refine ⟨rfl, ?_, hle, ?_, ?_, by simp, ?_⟩
        rotate_left 3
        · have h1 := Phi_setLb asn C cvrs winner hC st (maxLB st.lb (st.store.get anc).estimate) hle hok hF.inRange
          have h2 := Phi_filter C (St.mk st.store st.fr (maxLB st.lb (st.store.get anc).estimate))
            (fun j => !isDescendentOf (st.store.get j).tail (st.store.get anc).tail)
          have h3 := Phi_insert C (St.mk st.store
            (st.fr.filter (fun j => !isDescendentOf (st.store.get j).tail (st.store.get anc).tail))
            (maxLB st.lb (st.store.get anc).estimate)) anc
          have h4 := wt_final_le C.candidates.length (st.store.get anc) (maxLB st.lb (st.store.get anc).estimate)
            (le_maxLB_right _ _)
          have h5 := len_le_of_ok asn C cvrs winner (hok anc hancsz) hC
          have h6 := W_pos C.candidates.length (C.candidates.length - (st.store.get id).tail.length)
          show Phi C (St.mk st.store (Raire.insertNode st.store
              (st.fr.filter (fun j => !isDescendentOf (st.store.get j).tail (st.store.get anc).tail)) anc)
              (maxLB st.lb (st.store.get anc).estimate)) ≤ _
          simp only at h1 h2 h3 h4 ⊢
          rw [h3]
          omega
        · exact (hF.replaceDescendents anc hancsz hafin hopt).setLb _ hle (LBfin_maxLB hF.lbFin hafin)
            (LBopt_maxLB asn C cvrs winner hF.lbOpt hopt)
        · intro π ⟨w, hw, hw1, hw2⟩
          by_cases hd : isDescendentOf (st.store.get w).tail (st.store.get anc).tail = true
          · obtain ⟨q, _, hq⟩ := (isDescendentOf_iff _ _).1 hd
            refine ⟨anc, (mem_replaceDescendents _ _ _ _).2 (Or.inl rfl), ?_, Or.inl (le_maxLB_right _ _)⟩
            exact (List.IsSuffix.trans ⟨q, hq.symm⟩ hw1)
          · refine ⟨w, (mem_replaceDescendents _ _ _ _).2 (Or.inr ⟨hw, by simpa using hd⟩), hw1, hw2.mono hle⟩
        · intro π hπ
          exact ⟨anc, (mem_replaceDescendents _ _ _ _).2 (Or.inl rfl), hsuf.trans hπ,
            Or.inl (le_maxLB_right _ _)⟩
      · rw [if_neg c2]
        rw [if_neg c2] at hopt
        have hnfin : (st.store.get id).estimate ≠ Diff.inf := by
          intro hi; rw [hi, Diff.le_inf] at c2; exact c2 rfl
        have hle := le_maxLB_left st.lb (st.store.get id).estimate
        refine ⟨rfl, ?_, hle, ?_, ?_, by simp, ?_⟩
        rotate_left 3
        · have h1 := Phi_setLb asn C cvrs winner hC st (maxLB st.lb (st.store.get id).estimate) hle hok hF.inRange
          have h3 := Phi_insert C (St.mk st.store st.fr (maxLB st.lb (st.store.get id).estimate)) id
          have h4 : wt C.candidates.length (st.store.get id) (maxLB st.lb (st.store.get id).estimate) = 0 := by
            unfold wt; rw [he]; rfl
          show Phi C (St.mk st.store (Raire.insertNode st.store st.fr id)
            (maxLB st.lb (st.store.get id).estimate)) ≤ _
          simp only at h1 h3 h4 ⊢
          rw [h3]
          omega
        · exact (hF.insertNode id hid (fun _ => ⟨hnfin, hopt⟩)).setLb _ hle (LBfin_maxLB hF.lbFin hnfin)
            (LBopt_maxLB asn C cvrs winner hF.lbOpt hopt)
        · intro π hsc
          exact hsc.mono (fun x hx => ⟨(mem_insertNode _ _ _ _).2 (Or.inr hx), rfl, rfl, rfl⟩) hle
        · intro π hπ
          exact ⟨id, (mem_insertNode _ _ _ _).2 (Or.inl rfl), hπ, Or.inr (by rw [hexp0]; simp)⟩

/-! ### creating a child node -/

/-- the ancestor chosen at raire.py L240-243 / raire_utils.py L889-891 -/
def childAnc (s : Store α D) (p : Nat) : Nat :=
  match (s.get p).bestAnc with
  | some a => if Diff.le (s.get a).estimate (s.get p).estimate then a else p
  | none => p

theorem mkChild_fields (s : Store α D) (p : Nat) (c : α) (dive : Bool) :
    let n := mkChild asn C (cvrs.filterMap id) (nebTable asn C cvrs) s p c dive
    n.tail = c :: (s.get p).tail ∧ n.best = (fbaOf asn C cvrs (c :: (s.get p).tail)).1 ∧
    n.estimate = (fbaOf asn C cvrs (c :: (s.get p).tail)).2 ∧ n.bestAnc = some (childAnc s p) ∧
    n.expandable = !(((s.get p).tail.length + 1) == C.candidates.length) ∧ n.explored = [] ∧
    n.diveNode = dive := by
  refine ⟨rfl, rfl, rfl, ?_, rfl, rfl, rfl⟩
  simp only [mkChild, childAnc]
  cases (s.get p).bestAnc <;> rfl

/-- a freshly created child satisfies the node invariant -/
theorem child_ok (s s1 : Store α D) (hok : StoreOK asn C cvrs winner s) (p : Nat) (hp : p < s.size)
    (c : α) (hc : c ∈ C.candidates) (hct : c ∉ (s.get p).tail) (hexp : (s.get p).expandable = true)
    (dive : Bool) (hs1 : ∀ k, k < s.size → NodeExt (s.get k) (Store.get s1 k))
    (hnew : Store.get s1 s.size = mkChild asn C (cvrs.filterMap id) (nebTable asn C cvrs) s p c dive) :
    NodeOK asn C cvrs winner s1 s.size := by
  obtain ⟨f1, f2, f3, f4, f5, f6, f7⟩ := mkChild_fields asn C cvrs s p c dive
  have hP := hok p hp
  have hplen := hP.expLen hexp
  -- the chosen ancestor
  have hanc : childAnc s p < s.size ∧
      (∃ pre, pre ≠ [] ∧ c :: (s.get p).tail = pre ++ (s.get (childAnc s p)).tail) ∧
      Diff.le (s.get (childAnc s p)).estimate (s.get p).estimate = true ∧
      (∀ t, t <:+ (s.get p).tail → 2 ≤ t.length → t.length < (s.get p).tail.length →
        Diff.le (s.get (childAnc s p)).estimate (fbaOf asn C cvrs t).2 = true) := by
    unfold childAnc
    cases hb : (s.get p).bestAnc with
    | none =>
      refine ⟨hp, ⟨[c], by simp, rfl⟩, Diff.le_refl _, ?_⟩
      intro t _ h2 h3
      have := hP.ancNone hb
      omega
    | some a =>
      obtain ⟨hap, pre, hpre, htl⟩ := hP.anc a hb
      simp only
      by_cases hle : Diff.le (s.get a).estimate (s.get p).estimate = true
      · rw [if_pos hle]
        refine ⟨Nat.lt_trans hap hp, ⟨c :: pre, by simp, by rw [htl]; rfl⟩, hle, hP.ancMin a hb⟩
      · rw [if_neg hle]
        have hle' : Diff.le (s.get p).estimate (s.get a).estimate = true := by
          rcases Diff.le_total (s.get a).estimate (s.get p).estimate with h | h
          · exact absurd h hle
          · exact h
        refine ⟨hp, ⟨[c], by simp, rfl⟩, Diff.le_refl _, ?_⟩
        intro t h1 h2 h3
        exact Diff.le_trans hle' (hP.ancMin a hb t h1 h2 h3)
  obtain ⟨ha1, ha2, ha3, ha4⟩ := hanc
  have hancE := hs1 _ ha1
  refine ⟨?_, ?_, ?_, ?_, ?_, ?_, ?_, ?_, ?_, ?_⟩
  · rw [hnew, f1]; exact List.nodup_cons.2 ⟨hct, hP.nodup⟩
  · rw [hnew, f1]
    intro y hy
    simp only [List.mem_cons] at hy
    rcases hy with rfl | hy
    · exact hc
    · exact hP.sub y hy
  · rw [hnew, f1]; simp only [List.length_cons]; have := hP.len; omega
  · rw [hnew, f1]
    obtain ⟨pre, x, h1, h2⟩ := hP.alt
    exact ⟨c :: pre, x, by rw [h1]; rfl, h2⟩
  · rw [hnew, f2, f1]
  · rw [hnew, f3, f1]
  · rw [hnew, f5, f1]
    intro h
    simp only [List.length_cons]
    simp only [Bool.not_eq_true', beq_eq_false_iff_ne, ne_eq] at h
    omega
  · intro j hj
    rw [hnew, f4] at hj
    cases hj
    refine ⟨ha1, ?_⟩
    rw [hnew, f1, hancE.1]; exact ha2
  · intro j hj t h1 h2 h3
    rw [hnew, f4] at hj
    cases hj
    rw [hnew, f1] at h1 h3
    rw [hancE.2.2.1]
    rcases List.suffix_cons_iff.1 h1 with h | h
    · rw [h] at h3; simp at h3
    · by_cases hl : t.length = (s.get p).tail.length
      · have := h.eq_of_length hl
        rw [this, ← hP.est]; exact ha3
      · have := h.length_le
        exact ha4 t h h2 (by omega)
  · intro h
    rw [hnew, f4] at h; cases h


/-! ### the two pruning tests on the popped node -/

theorem pruneChecks_none {st : St α D} {te : Nat} (h : pruneChecks st te = none) :
    leLB (st.store.get te).estimate st.lb = false := by
  unfold pruneChecks at h
  simp only at h
  split at h
  · cases h
  · split at h
    · cases h
    · rename_i h1; simpa using h1

theorem pruneChecks_cases {st st' : St α D} {te : Nat} (h : pruneChecks st te = some st') :
    (∃ a, (st.store.get te).bestAnc = some a ∧ leLB (st.store.get a).estimate st.lb = true ∧
      st' = { st with fr := replaceDescendents st.store st.fr a }) ∨
    (leLB (st.store.get te).estimate st.lb = true ∧
      st' = { st with store := st.store.setIfInBounds te { st.store.get te with expandable := false },
                      fr := insertNode (st.store.setIfInBounds te { st.store.get te with expandable := false })
                              st.fr te }) := by
  unfold pruneChecks at h
  simp only at h
  split at h
  · rename_i a ha
    left
    cases hb : (st.store.get te).bestAnc with
    | none => rw [hb] at ha; cases ha
    | some b =>
      rw [hb] at ha
      simp only at ha
      split at ha
      · rename_i hl
        simp only [Option.some.injEq] at ha
        subst ha
        exact ⟨b, rfl, hl, by cases h; rfl⟩
      · cases ha
  · right
    split at h
    · rename_i hl
      exact ⟨hl, by cases h; rfl⟩
    · cases h

theorem pruneChecks_spec (hC : C.candidates.Nodup) (st st' : St α D) (te : Nat) (hte : te < st.store.size)
    (hok : StoreOK asn C cvrs winner st.store) (hF : FInv asn C cvrs winner st) (h : pruneChecks st te = some st') :
    StoreOK asn C cvrs winner st'.store ∧ FInv asn C cvrs winner st' ∧ st'.lb = st.lb ∧
    (∀ π, SC st π → SC st' π) ∧ (∀ π, (st.store.get te).tail <:+ π → SC st' π) ∧
    Phi C st' ≤ Phi C st + ((st.store.get te).tail.length - 1) := by
  rcases pruneChecks_cases h with ⟨a, ha, hl, rfl⟩ | ⟨hl, rfl⟩
  · obtain ⟨hlt, pre, hpre, htail⟩ := (hok te hte).anc a ha
    have hasz : a < st.store.size := Nat.lt_trans hlt hte
    have hafin := leLB_fin hF.lbFin hl
    refine ⟨hok, hF.replaceDescendents a hasz hafin (hF.leOPT_of_leLB hl), rfl, ?_, ?_, ?_⟩
    rotate_left 2
    · have h2 := Phi_filter C st (fun j => !isDescendentOf (st.store.get j).tail (st.store.get a).tail)
      have h3 := Phi_insert C (St.mk st.store
        (st.fr.filter (fun j => !isDescendentOf (st.store.get j).tail (st.store.get a).tail)) st.lb) a
      have h4 := wt_final_le C.candidates.length (st.store.get a) st.lb hl
      have h5 : (st.store.get a).tail.length + 1 ≤ (st.store.get te).tail.length := by
        rw [htail, List.length_append]
        have : pre.length ≠ 0 := fun h0 => hpre (List.length_eq_zero_iff.1 h0)
        omega
      show Phi C (St.mk st.store (Raire.insertNode st.store
        (st.fr.filter (fun j => !isDescendentOf (st.store.get j).tail (st.store.get a).tail)) a) st.lb) ≤ _
      simp only at h2 h3 h4 ⊢
      rw [h3]
      omega
    · intro π ⟨w, hw, hw1, hw2⟩
      by_cases hd : isDescendentOf (st.store.get w).tail (st.store.get a).tail = true
      · obtain ⟨q, _, hq⟩ := (isDescendentOf_iff _ _).1 hd
        exact ⟨a, (mem_replaceDescendents _ _ _ _).2 (Or.inl rfl),
          List.IsSuffix.trans ⟨q, hq.symm⟩ hw1, Or.inl hl⟩
      · exact ⟨w, (mem_replaceDescendents _ _ _ _).2 (Or.inr ⟨hw, by simpa using hd⟩), hw1, hw2⟩
    · intro π hπ
      exact ⟨a, (mem_replaceDescendents _ _ _ _).2 (Or.inl rfl),
        List.IsSuffix.trans ⟨pre, htail.symm⟩ hπ, Or.inl hl⟩
  · have hfin := leLB_fin hF.lbFin hl
    let n' : Node α D := { st.store.get te with expandable := false }
    have hext : NodeExt (st.store.get te) n' := ⟨rfl, rfl, rfl, rfl, rfl, by intro h; cases h⟩
    have hE : Ext st.store (st.store.setIfInBounds te n') := ext_set _ _ _ hext
    have hsz : (st.store.setIfInBounds te n').size = st.store.size := Array.size_setIfInBounds
    have hget : ∀ k, (Store.get (st.store.setIfInBounds te n') k).tail = (st.store.get k).tail ∧
        (Store.get (st.store.setIfInBounds te n') k).estimate = (st.store.get k).estimate ∧
        (Store.get (st.store.setIfInBounds te n') k).explored = (st.store.get k).explored := by
      intro k
      by_cases hk : te = k
      · subst hk; rw [Store.get_set_eq _ _ hte]; exact ⟨rfl, rfl, rfl⟩
      · rw [Store.get_set_ne _ _ hk]; exact ⟨rfl, rfl, rfl⟩
    have hoptte : LeOPT asn C cvrs winner (st.store.get te).estimate := hF.leOPT_of_leLB hl
    have hF1 : FInv asn C cvrs winner { st with store := st.store.setIfInBounds te n' } := by
      refine ⟨fun id hid => by rw [hsz]; exact hF.inRange id hid, ?_, ?_, hF.lbFin, hF.lbOpt, ?_, ?_⟩
      · intro id hid hinf
        by_cases hk : te = id
        · subst hk
          rw [(hget te).2.1] at hinf
          exact absurd hinf hfin
        · rw [Store.get_set_ne _ _ hk] at hinf ⊢
          exact hF.infExp id hid hinf
      · refine hF.infPre.imp ?_
        intro x y hxy
        rw [(hget x).2.1, (hget y).2.1]; exact hxy
      · intro id hid hexp
        by_cases hk : te = id
        · subst hk
          rw [(hget te).2.1]; exact hoptte
        · rw [Store.get_set_ne _ _ hk] at hexp ⊢
          exact hF.nonexpOpt id hid hexp
      · refine hF.sorted.imp ?_
        intro x y hxy hexp
        rw [(hget x).2.1, (hget y).2.1]
        apply hxy
        by_cases hk : te = y
        · subst hk
          rw [Store.get_set_eq _ _ hte] at hexp
          cases hexp
        · rw [Store.get_set_ne _ _ hk] at hexp
          exact hexp
    have hte' : (Store.get (st.store.setIfInBounds te n') te) = n' := Store.get_set_eq _ _ hte
    refine ⟨?_, ?_, rfl, ?_, ?_, ?_⟩
    rotate_left 4
    · have h1 : Phi C (St.mk (st.store.setIfInBounds te n') st.fr st.lb) ≤ Phi C st := by
        refine Phi_le_of C (st := st) (st' := St.mk (st.store.setIfInBounds te n') st.fr st.lb) rfl ?_
        intro k hk
        by_cases hkt : te = k
        · subst hkt
          show wt _ (Store.get (st.store.setIfInBounds te n') te) st.lb ≤ _
          rw [hte']
          unfold wt
          simp [n']
        · show wt _ (Store.get (st.store.setIfInBounds te n') k) st.lb ≤ _
          rw [Store.get_set_ne _ _ hkt]
          exact Nat.le_refl _
      have h3 := Phi_insert C (St.mk (st.store.setIfInBounds te n') st.fr st.lb) te
      have h4 : wt C.candidates.length (Store.get (st.store.setIfInBounds te n') te) st.lb = 0 := by
        rw [hte']; unfold wt; simp [n']
      show Phi C (St.mk (st.store.setIfInBounds te n')
        (Raire.insertNode (st.store.setIfInBounds te n') st.fr te) st.lb) ≤ _
      simp only at h1 h3 h4 ⊢
      rw [h3]
      omega
    · intro id hid
      rw [hsz] at hid
      exact hok.ext asn C cvrs winner hE id hid
    · exact hF1.insertNode te (by rw [hsz]; exact hte) (fun _ => by rw [hte']; exact ⟨hfin, hoptte⟩)
    · intro π hsc
      exact hsc.mono (fun x hx => ⟨(mem_insertNode _ _ _ _).2 (Or.inr hx), (hget x).1, (hget x).2.1,
        (hget x).2.2⟩) (LB.le_refl _)
    · intro π hπ
      refine ⟨te, (mem_insertNode _ _ _ _).2 (Or.inl rfl), by rw [(hget te).1]; exact hπ, Or.inl ?_⟩
      rw [(hget te).2.1]; exact hl


/-! ### perform_dive -/

theorem nextCand_mem (outcome : List α) (c0 : α) (rest : List α) : nextCand outcome c0 rest ∈ c0 :: rest := by
  unfold nextCand
  split
  · exact List.mem_cons_self
  · suffices h : ∀ (l : List α) (acc : α × Nat), acc.1 ∈ c0 :: rest → (∀ x ∈ l, x ∈ c0 :: rest) →
        (l.foldl (fun (acc : α × Nat) c =>
          if outcome.idxOf c > acc.2 then (c, outcome.idxOf c) else acc) acc).1 ∈ c0 :: rest from
      h rest _ List.mem_cons_self (fun x hx => List.mem_cons_of_mem _ hx)
    intro l
    induction l with
    | nil => intro acc h _; exact h
    | cons x l ih =>
      intro acc h hl
      rw [List.foldl_cons]
      apply ih
      · split
        · exact hl x List.mem_cons_self
        · exact h
      · exact fun y hy => hl y (List.mem_cons_of_mem _ hy)

/-- the effect of a dive from node `nid` that does not end in "audit not possible" -/
def DiveOut (st : St α D) (nid : Nat) (sd : St α D) : Prop :=
  ∃ next, next ∈ C.candidates ∧ next ∉ (st.store.get nid).tail ∧
    StoreOK asn C cvrs winner sd.store ∧ FInv asn C cvrs winner sd ∧ LB.le st.lb sd.lb ∧
    (∀ π, SC st π → SC sd π) ∧ (∀ π, (next :: (st.store.get nid).tail) <:+ π → SC sd π) ∧
    st.store.size ≤ sd.store.size ∧
    (∀ k, k < st.store.size → k ≠ nid → sd.store.get k = st.store.get k) ∧
    sd.store.get nid = { st.store.get nid with explored := (st.store.get nid).explored ++ [next] } ∧
    Phi C sd ≤ Phi C st + (C.candidates.length - (st.store.get nid).tail.length) *
      W C.candidates.length (C.candidates.length - (st.store.get nid).tail.length - 1)

theorem LB.isInf_false_of_fin {lb : LB D} (h : LBfin lb) : LB.isInf lb = false := by
  cases lb with
  | none => rfl
  | some d =>
    cases d with
    | fin x => rfl
    | inf => exact absurd rfl h

/-- what a dive returns: never an exception; "audit not possible" comes with a witness order; otherwise
`DiveOut` -/
def DiveRes (st : St α D) (nid : Nat) (res : Res (St α D)) : Prop :=
  match res with
  | Res.ok sd => (LB.isInf sd.lb = true → BadLeaf asn C cvrs winner) ∧
      (LB.isInf sd.lb = false → DiveOut asn C cvrs winner st nid sd)
  | Res.fuel => True
  | Res.err _ => False

theorem performDive_spec (hC : C.candidates.Nodup) : ∀ (fuel nid : Nat) (st : St α D) (res : Res (St α D)),
    performDive asn C (cvrs.filterMap id) (nebTable asn C cvrs) fuel nid st = res →
    nid < st.store.size → StoreOK asn C cvrs winner st.store → FInv asn C cvrs winner st →
    (st.store.get nid).expandable = true →
    DiveRes asn C cvrs winner st nid res ∧
    (res = Res.fuel → fuel + (st.store.get nid).tail.length ≤ C.candidates.length) := by
  intro fuel
  induction fuel with
  | zero =>
    intro nid st res h hnid hok _ _; simp only [performDive] at h; subst h
    exact ⟨trivial, fun _ => by
      have := len_le_of_ok asn C cvrs winner (hok nid hnid) hC
      omega⟩
  | succ fuel ih =>
    intro nid st res h hnid hok hF hexp
    have hklt := (hok nid hnid).expLen hexp
    rw [performDive] at h
    simp only at h
    split at h
    · rename_i hrem
      exfalso
      obtain ⟨c, hc, hct⟩ := exists_not_mem_of_length_lt (t := (st.store.get nid).tail) hC
        ((hok nid hnid).expLen hexp)
      have : c ∈ notIn C (st.store.get nid).tail := mem_notIn.2 ⟨hc, hct⟩
      rw [hrem] at this; cases this
    · rename_i c0 rest hrem
      -- names for the pieces of the step
      generalize hnext : nextCand C.outcome c0 rest = next at h
      have hnmem : next ∈ notIn C (st.store.get nid).tail := by
        rw [hrem, ← hnext]; exact nextCand_mem _ _ _
      obtain ⟨hnc, hnt⟩ := mem_notIn.1 hnmem
      generalize hnode' : ({ st.store.get nid with explored := (st.store.get nid).explored ++ [next] } : Node α D) = node' at h
      generalize hnewn : mkChild asn C (cvrs.filterMap id) (nebTable asn C cvrs) st.store nid next true = newn at h
      generalize hs1 : (st.store.setIfInBounds nid node').push newn = s1 at h
      have hs0sz : (st.store.setIfInBounds nid node').size = st.store.size := Array.size_setIfInBounds
      have hs1sz : s1.size = st.store.size + 1 := by rw [← hs1, Array.size_push, hs0sz]
      have hget_old : ∀ k, k < st.store.size → k ≠ nid → Store.get s1 k = st.store.get k := by
        intro k hk hne
        rw [← hs1, Store.get_push_lt _ _ (by rw [hs0sz]; exact hk), Store.get_set_ne _ _ (Ne.symm hne)]
      have hget_nid : Store.get s1 nid = node' := by
        rw [← hs1, Store.get_push_lt _ _ (by rw [hs0sz]; exact hnid), Store.get_set_eq _ _ hnid]
      have hget_new : Store.get s1 st.store.size = newn := by
        rw [← hs1, ← hs0sz]; exact Store.get_push_eq _ _
      have hnodeExt : ∀ k, k < st.store.size → NodeExt (st.store.get k) (Store.get s1 k) := by
        intro k hk
        by_cases hkn : k = nid
        · subst hkn; rw [hget_nid, ← hnode']; exact ⟨rfl, rfl, rfl, rfl, rfl, id⟩
        · rw [hget_old k hk hkn]; exact NodeExt.refl _
      have hsame : ∀ k, k < st.store.size → (Store.get s1 k).tail = (st.store.get k).tail ∧
          (Store.get s1 k).estimate = (st.store.get k).estimate ∧
          (Store.get s1 k).expandable = (st.store.get k).expandable := by
        intro k hk
        by_cases hkn : k = nid
        · subst hkn; rw [hget_nid, ← hnode']; exact ⟨rfl, rfl, rfl⟩
        · rw [hget_old k hk hkn]; exact ⟨rfl, rfl, rfl⟩
      obtain ⟨f1, f2, f3, f4, f5, f6, f7⟩ := mkChild_fields asn C cvrs st.store nid next true
      rw [hnewn] at f1 f2 f3 f4 f5 f6 f7
      have hok1 : StoreOK asn C cvrs winner s1 := by
        intro k hk
        rw [hs1sz] at hk
        by_cases hk' : k < st.store.size
        · exact hok.ext asn C cvrs winner ⟨by omega, hnodeExt⟩ k hk'
        · have : k = st.store.size := by omega
          subst this
          exact child_ok asn C cvrs winner st.store s1 hok nid hnid next hnc hnt hexp true hnodeExt
            (by rw [hget_new, hnewn])
      have hF1 : FInv asn C cvrs winner ({ st with store := s1 } : St α D) :=
        hF.congr rfl (by show st.store.size ≤ s1.size; omega)
          (fun k hk => ⟨(hsame k (hF.inRange k hk)).2.1, (hsame k (hF.inRange k hk)).2.2⟩) rfl
      have hidlt : st.store.size < s1.size := by omega
      -- `SC` across the `explored.append`
      have hscapp : ∀ π, SC st π → ¬ (next :: (st.store.get nid).tail) <:+ π →
          SC ({ st with store := s1 } : St α D) π := by
        intro π ⟨w, hw, hw1, hw2⟩ hnot
        have hwsz := hF.inRange w hw
        by_cases hwn : w = nid
        · subst hwn
          refine ⟨w, hw, ?_, ?_⟩
          · show (Store.get s1 w).tail <:+ π
            rw [hget_nid, ← hnode']; exact hw1
          · show Eff (Store.get s1 w) st.lb π
            rw [hget_nid, ← hnode']
            rcases hw2 with h2 | h2
            · exact Or.inl h2
            · right
              intro c hc
              simp only [List.mem_append, List.mem_singleton] at hc
              rcases hc with hc | rfl
              · exact h2 c hc
              · exact hnot
        · refine ⟨w, hw, ?_, ?_⟩
          · show (Store.get s1 w).tail <:+ π
            rw [hget_old w hwsz hwn]; exact hw1
          · show Eff (Store.get s1 w) st.lb π
            rw [hget_old w hwsz hwn]; exact hw2
      have hancNew : (Store.get s1 st.store.size).expandable = false →
          ∃ j, (Store.get s1 st.store.size).bestAnc = some j :=
        fun _ => ⟨_, by rw [hget_new]; exact f4⟩
      have hleafNew : (Store.get s1 st.store.size).expandable = false →
          (Store.get s1 st.store.size).tail.length = C.candidates.length := by
        rw [hget_new, f5, f1]
        intro hx
        simp only [Bool.not_eq_false', beq_iff_eq] at hx
        simpa using hx
      have hm := manageNode_spec asn C cvrs winner hC ({ st with store := s1 } : St α D) st.store.size hidlt
        hok1 hF1 (by show (Store.get s1 st.store.size).explored = []; rw [hget_new]; exact f6)
        hancNew hleafNew
      have hbad := manageNode_anp asn C cvrs winner hC ({ st with store := s1 } : St α D) st.store.size hidlt
        hok1 hancNew hleafNew
      cases hr : manageNode ({ st with store := s1 } : St α D) st.store.size with
      | mk r1 rr =>
        cases rr with
        | mk r2 st2 =>
          rw [hr] at h hm hbad
          simp only at h hm hbad
          cases r1 with
          | true =>
            simp only [if_true] at h
            subst h
            exact ⟨⟨fun _ => hbad rfl, fun hinf => by simp [LB.isInf, Diff.isInf] at hinf⟩, fun h => nomatch h⟩
          | false =>
            simp only [Bool.false_eq_true, if_false] at h
            obtain ⟨m1, m2, m3, m4, m5, m6, m7⟩ := hm rfl
            have m1' : st2.store = s1 := m1
            have hPhi1 : Phi C ({ st with store := s1 } : St α D) ≤ Phi C st := by
              refine Phi_le_of C (st := st) (st' := St.mk s1 st.fr st.lb) rfl ?_
              intro k hk
              obtain ⟨q1, q2, q3⟩ := hsame k (hF.inRange k hk)
              show wt _ (Store.get s1 k) st.lb ≤ _
              unfold wt
              rw [q1, q2, q3]
              exact Nat.le_refl _
            have hPhi2 : Phi C st2 ≤ Phi C st +
                W C.candidates.length (C.candidates.length - (st.store.get nid).tail.length - 1) := by
              have : (Store.get s1 st.store.size).tail.length = (st.store.get nid).tail.length + 1 := by
                rw [hget_new, f1]; rfl
              have m7' : Phi C st2 ≤ Phi C (St.mk s1 st.fr st.lb) +
                  W C.candidates.length (C.candidates.length - (Store.get s1 st.store.size).tail.length) := m7
              rw [this] at m7'
              have e : C.candidates.length - ((st.store.get nid).tail.length + 1) =
                  C.candidates.length - (st.store.get nid).tail.length - 1 := by omega
              rw [e] at m7'
              omega
            have hsc_all : ∀ π, SC st π → SC st2 π := by
              intro π hsc
              by_cases hthru : (next :: (st.store.get nid).tail) <:+ π
              · apply m5
                show (Store.get s1 st.store.size).tail <:+ π
                rw [hget_new, f1]; exact hthru
              · exact m4 π (hscapp π hsc hthru)
            have hsc_thru : ∀ π, (next :: (st.store.get nid).tail) <:+ π → SC st2 π := by
              intro π hthru
              apply m5
              show (Store.get s1 st.store.size).tail <:+ π
              rw [hget_new, f1]; exact hthru
            cases r2 with
            | true =>
              simp only [if_true] at h
              subst h
              refine ⟨⟨fun hinf => ?_, fun _ => ?_⟩, fun h => nomatch h⟩
              · rw [LB.isInf_false_of_fin m2.lbFin] at hinf; cases hinf
              refine ⟨next, hnc, hnt, by rw [m1']; exact hok1, m2, m3, hsc_all, hsc_thru,
                by rw [m1']; omega, ?_, ?_, ?_⟩
              · intro k hk hne; rw [m1']; exact hget_old k hk hne
              · rw [m1', hget_nid, hnode']
              · have : W C.candidates.length (C.candidates.length - (st.store.get nid).tail.length - 1) ≤
                    (C.candidates.length - (st.store.get nid).tail.length) *
                      W C.candidates.length (C.candidates.length - (st.store.get nid).tail.length - 1) :=
                  Nat.le_mul_of_pos_left _ (by omega)
                omega
            | false =>
              simp only [Bool.false_eq_true, if_false] at h
              have hexp_new : (st2.store.get st.store.size).expandable = true := by
                rw [m1']
                have : (false : Bool) = !(Store.get s1 st.store.size).expandable := m6
                cases hx : (Store.get s1 st.store.size).expandable with
                | true => rfl
                | false => rw [hx] at this; cases this
              obtain ⟨ihres, ihfuel⟩ :=
                ih st.store.size st2 res h (by rw [m1']; exact hidlt) (by rw [m1']; exact hok1) m2 hexp_new
              have hlen2 : (st2.store.get st.store.size).tail.length = (st.store.get nid).tail.length + 1 := by
                rw [m1', hget_new, f1]; rfl
              refine ⟨?_, fun hr => by have := ihfuel hr; rw [hlen2] at this; omega⟩
              cases res with
              | fuel => trivial
              | err e => exact ihres
              | ok sd =>
              obtain ⟨ihbad, ihgood⟩ := ihres
              refine ⟨ihbad, fun hinf => ?_⟩
              obtain ⟨next', _, _, d1, d2, d3, d4, d5, d6, d7, d8, d9⟩ := ihgood hinf
              refine ⟨next, hnc, hnt, d1, d2, LB.le_trans m3 d3, fun π hsc => d4 π (hsc_all π hsc),
                fun π hthru => d4 π (hsc_thru π hthru), by rw [m1'] at d6; omega, ?_, ?_, ?_⟩
              · intro k hk hne
                rw [d7 k (by rw [m1']; omega) (by omega), m1']
                exact hget_old k hk hne
              · rw [d7 nid (by rw [m1']; omega) (by omega), m1', hget_nid, hnode']
              · rw [hlen2] at d9
                -- d9 : Phi sd ≤ Phi st2 + (N - (k+1)) * W (N - (k+1) - 1)
                generalize hN : C.candidates.length = N at d9 hPhi2 hklt ⊢
                generalize hk : (st.store.get nid).tail.length = k at d9 hPhi2 hklt ⊢
                have hmono : W N (N - (k + 1) - 1) ≤ W N (N - k - 1) := W_mono N (by omega)
                have h1 : (N - (k + 1)) * W N (N - (k + 1) - 1) ≤ (N - (k + 1)) * W N (N - k - 1) :=
                  Nat.mul_le_mul_left _ hmono
                have h2 : (N - k) * W N (N - k - 1) = (N - (k + 1)) * W N (N - k - 1) + W N (N - k - 1) := by
                  have : N - k = (N - (k + 1)) + 1 := by omega
                  rw [this, Nat.succ_mul]
                omega

/-! ### the expansion loop -/

theorem expandLoop_spec (hC : C.candidates.Nodup) (te : Nat) : ∀ (cs : List α) (st st' : St α D) (b : Bool),
    expandLoop asn C (cvrs.filterMap id) (nebTable asn C cvrs) te cs st = (b, st') →
    te < st.store.size → StoreOK asn C cvrs winner st.store → FInv asn C cvrs winner st →
    (∀ c ∈ cs, c ∈ C.candidates) → (st.store.get te).expandable = true →
    (b = true → BadLeaf asn C cvrs winner) ∧
    (b = false →
      StoreOK asn C cvrs winner st'.store ∧ FInv asn C cvrs winner st' ∧ LB.le st.lb st'.lb ∧
      (∀ π, SC st π → SC st' π) ∧
      (∀ c ∈ cs, c ∉ (st.store.get te).tail → c ∉ (st.store.get te).explored →
        ∀ π, (c :: (st.store.get te).tail) <:+ π → SC st' π) ∧
      st.store.size ≤ st'.store.size ∧ (∀ k, k < st.store.size → st'.store.get k = st.store.get k) ∧
      Phi C st' ≤ Phi C st + cs.length *
        W C.candidates.length (C.candidates.length - (st.store.get te).tail.length - 1)) := by
  intro cs
  induction cs with
  | nil =>
    intro st st' b h _ hok hF _ _
    simp only [expandLoop, Prod.mk.injEq] at h
    obtain ⟨rfl, rfl⟩ := h
    exact ⟨fun h => (by cases h),
      fun _ => ⟨hok, hF, LB.le_refl _, fun _ h => h, by simp, Nat.le_refl _, fun _ _ => rfl, by simp⟩⟩
  | cons c cs ih =>
    intro st st' b h hte hok hF hcs hexp
    rw [expandLoop] at h
    simp only at h
    have hcs' : ∀ c' ∈ cs, c' ∈ C.candidates := fun c' hc' => hcs c' (List.mem_cons_of_mem _ hc')
    split at h
    · rename_i hcond
      simp only [Bool.and_eq_true, Bool.not_eq_true', List.contains_eq_mem, decide_eq_false_iff_not] at hcond
      obtain ⟨hct, hce⟩ := hcond
      generalize hnewn : mkChild asn C (cvrs.filterMap id) (nebTable asn C cvrs) st.store te c false = newn at h
      obtain ⟨f1, f2, f3, f4, f5, f6, f7⟩ := mkChild_fields asn C cvrs st.store te c false
      rw [hnewn] at f1 f2 f3 f4 f5 f6 f7
      have hsz : (st.store.push newn).size = st.store.size + 1 := Array.size_push _
      have hold : ∀ k, k < st.store.size → Store.get (st.store.push newn) k = st.store.get k :=
        fun k hk => Store.get_push_lt _ _ hk
      have hnew : Store.get (st.store.push newn) st.store.size = newn := Store.get_push_eq _ _
      have hok1 : StoreOK asn C cvrs winner (st.store.push newn) := by
        intro k hk
        rw [hsz] at hk
        by_cases hk' : k < st.store.size
        · exact hok.ext asn C cvrs winner (ext_push _ _) k hk'
        · have : k = st.store.size := by omega
          subst this
          exact child_ok asn C cvrs winner st.store _ hok te hte c (hcs c List.mem_cons_self) hct hexp false
            (fun k hk => by rw [hold k hk]; exact NodeExt.refl _) (by rw [hnew, hnewn])
      have hF1 : FInv asn C cvrs winner ({ st with store := st.store.push newn } : St α D) :=
        hF.congr rfl (by show st.store.size ≤ (st.store.push newn).size; omega)
          (fun k hk => by
            show (Store.get (st.store.push newn) k).estimate = _ ∧ (Store.get (st.store.push newn) k).expandable = _
            rw [hold k (hF.inRange k hk)]; exact ⟨rfl, rfl⟩) rfl
      have hidlt : st.store.size < (st.store.push newn).size := by omega
      have hancNew : (Store.get (st.store.push newn) st.store.size).expandable = false →
          ∃ j, (Store.get (st.store.push newn) st.store.size).bestAnc = some j :=
        fun _ => ⟨_, by rw [hnew]; exact f4⟩
      have hleafNew : (Store.get (st.store.push newn) st.store.size).expandable = false →
          (Store.get (st.store.push newn) st.store.size).tail.length = C.candidates.length := by
        rw [hnew, f5, f1]
        intro hx
        simp only [Bool.not_eq_false', beq_iff_eq] at hx
        simpa using hx
      have hm := manageNode_spec asn C cvrs winner hC ({ st with store := st.store.push newn } : St α D)
        st.store.size hidlt hok1 hF1
        (by show (Store.get (st.store.push newn) st.store.size).explored = []; rw [hnew]; exact f6)
        hancNew hleafNew
      have hbad := manageNode_anp asn C cvrs winner hC ({ st with store := st.store.push newn } : St α D)
        st.store.size hidlt hok1 hancNew hleafNew
      cases hr : manageNode ({ st with store := st.store.push newn } : St α D) st.store.size with
      | mk r1 rr =>
        cases rr with
        | mk r2 st2 =>
          rw [hr] at h hm hbad
          simp only at h hm hbad
          cases r1 with
          | true =>
            simp only [if_true, Prod.mk.injEq] at h
            obtain ⟨rfl, _⟩ := h
            exact ⟨fun _ => hbad rfl, fun h => (by cases h)⟩
          | false =>
            simp only [Bool.false_eq_true, if_false] at h
            obtain ⟨m1, m2, m3, m4, m5, _, m7⟩ := hm rfl
            have m1' : st2.store = st.store.push newn := m1
            have hte2 : st2.store.get te = st.store.get te := by rw [m1']; exact hold te hte
            obtain ⟨ihbad, ihgood⟩ := ih st2 st' b h (by rw [m1', hsz]; omega)
              (by rw [m1']; exact hok1) m2 hcs' (by rw [hte2]; exact hexp)
            refine ⟨ihbad, fun hb => ?_⟩
            obtain ⟨i1, i2, i3, i4, i5, i6, i7, i8⟩ := ihgood hb
            have hPhi1 : Phi C (St.mk (st.store.push newn) st.fr st.lb) ≤ Phi C st := by
              refine Phi_le_of C (st := st) (st' := St.mk (st.store.push newn) st.fr st.lb) rfl ?_
              intro k hk
              show wt _ (Store.get (st.store.push newn) k) st.lb ≤ _
              rw [hold k (hF.inRange k hk)]
              exact Nat.le_refl _
            have hPhi2 : Phi C st2 ≤ Phi C st +
                W C.candidates.length (C.candidates.length - (st.store.get te).tail.length - 1) := by
              have hl : (Store.get (st.store.push newn) st.store.size).tail.length =
                  (st.store.get te).tail.length + 1 := by rw [hnew, f1]; rfl
              have m7' : Phi C st2 ≤ Phi C (St.mk (st.store.push newn) st.fr st.lb) +
                  W C.candidates.length
                    (C.candidates.length - (Store.get (st.store.push newn) st.store.size).tail.length) := m7
              rw [hl] at m7'
              have e : C.candidates.length - ((st.store.get te).tail.length + 1) =
                  C.candidates.length - (st.store.get te).tail.length - 1 := by omega
              rw [e] at m7'
              omega
            have hsc1 : ∀ π, SC st π → SC st2 π := by
              intro π hsc
              apply m4
              exact hsc.mono (fun x hx => ⟨hx, by
                show (Store.get (st.store.push newn) x).tail = _ ∧ (Store.get (st.store.push newn) x).estimate = _ ∧
                  (Store.get (st.store.push newn) x).explored = _
                rw [hold x (hF.inRange x hx)]; exact ⟨rfl, rfl, rfl⟩⟩) (LB.le_refl _)
            refine ⟨i1, i2, LB.le_trans m3 i3, fun π hsc => i4 π (hsc1 π hsc), ?_, by rw [m1', hsz] at i6; omega, ?_, ?_⟩
            rotate_left 2
            · rw [hte2] at i8
              simp only [List.length_cons, Nat.succ_mul]
              omega
            · intro c' hc' h1 h2 π hπ
              simp only [List.mem_cons] at hc'
              rcases hc' with rfl | hc'
              · apply i4
                apply m5
                show (Store.get (st.store.push newn) st.store.size).tail <:+ π
                rw [hnew, f1]; exact hπ
              · rw [hte2] at i5
                exact i5 c' hc' h1 h2 π hπ
            · intro k hk
              rw [i7 k (by rw [m1', hsz]; omega), m1']
              exact hold k hk
    · rename_i hcond
      obtain ⟨ihbad, ihgood⟩ := ih st st' b h hte hok hF hcs' hexp
      refine ⟨ihbad, fun hb => ?_⟩
      obtain ⟨i1, i2, i3, i4, i5, i6, i7, i8⟩ := ihgood hb
      refine ⟨i1, i2, i3, i4, ?_, i6, i7, ?_⟩
      rotate_left 1
      · simp only [List.length_cons, Nat.succ_mul]
        omega
      intro c' hc' h1 h2 π hπ
      simp only [List.mem_cons] at hc'
      rcases hc' with rfl | hc'
      · exfalso
        apply hcond
        simp [h1, h2]
      · exact i5 c' hc' h1 h2 π hπ

/-! ### the main loop -/

/-- the loop invariant at the loop head (S1, S2, S3, O1-O3) -/
structure Inv (st : St α D) : Prop where
  ok : StoreOK asn C cvrs winner st.store
  fr : FInv asn C cvrs winner st
  cover : ∀ π, Alt C.candidates winner π → SC st π

variable {asn C cvrs winner} in
theorem FInv.tail {st : St α D} {te : Nat} {rest : List Nat} (h : FInv asn C cvrs winner st)
    (hfr : st.fr = te :: rest) : FInv asn C cvrs winner { st with fr := rest } := by
  have hsub : ∀ id ∈ rest, id ∈ st.fr := fun id hid => by rw [hfr]; exact List.mem_cons_of_mem _ hid
  refine ⟨fun id hid => h.inRange id (hsub id hid), fun id hid => h.infExp id (hsub id hid), ?_,
    h.lbFin, h.lbOpt, fun id hid => h.nonexpOpt id (hsub id hid), ?_⟩
  · have := h.infPre
    rw [hfr] at this
    exact (List.pairwise_cons.1 this).2
  · have := h.sorted
    rw [hfr] at this
    exact (List.pairwise_cons.1 this).2

/-- a complete order that ends in a strictly shorter tail `t` passes through exactly one child of `t` -/
theorem alt_through (hC : C.candidates.Nodup) {π t : List α} (hπ : π.Perm C.candidates) (ht : t <:+ π)
    (hlen : t.length < C.candidates.length) :
    ∃ c, (c :: t) <:+ π ∧ c ∈ C.candidates ∧ c ∉ t := by
  obtain ⟨pre, rfl⟩ := ht
  have hnd : (pre ++ t).Nodup := hπ.nodup_iff.2 hC
  have hl := hπ.length_eq
  rw [List.length_append] at hl
  have hne : pre ≠ [] := by
    intro h; subst h; simp at hl; omega
  obtain ⟨pre', c, rfl⟩ : ∃ pre' c, pre = pre' ++ [c] :=
    ⟨pre.dropLast, pre.getLast hne, (List.dropLast_concat_getLast hne).symm⟩
  refine ⟨c, ⟨pre', by simp⟩, hπ.mem_iff.1 (by simp), ?_⟩
  intro hct
  exact (List.nodup_append.1 hnd).2.2 c (by simp) c hct rfl

theorem LBfin_maxLB2 {a b : LB D} (ha : LBfin a) (hb : LBfin b) : LBfin (maxLB2 a b) := by
  rcases maxLB2_cases a b with h | h <;> rw [h] <;> assumption

/-- what remains to be shown after the popped node `te` has been processed: everything that was
covered by the rest of the frontier stays covered, and so does everything `te` still accounted for -/
theorem inv_of_step (hC : C.candidates.Nodup) {st st2 : St α D} {te : Nat} {rest : List Nat}
    (hI : Inv asn C cvrs winner st) (hfr : st.fr = te :: rest)
    (hok2 : StoreOK asn C cvrs winner st2.store) (hF2 : FInv asn C cvrs winner st2)
    (h1 : ∀ π, SC { st with fr := rest } π → SC st2 π)
    (h2 : ∀ π, Alt C.candidates winner π → (st.store.get te).tail <:+ π → Eff (st.store.get te) st.lb π →
      SC st2 π) : Inv asn C cvrs winner st2 := by
  refine ⟨hok2, hF2, ?_⟩
  intro π hπ
  obtain ⟨w, hw, hw1, hw2⟩ := hI.cover π hπ
  rw [hfr] at hw
  simp only [List.mem_cons] at hw
  rcases hw with rfl | hw
  · exact h2 π hπ hw1 hw2
  · exact h1 π ⟨w, hw, hw1, hw2⟩

/-- the exit state of the main loop: invariant plus a non-expandable head -/
def ExitState (st : St α D) : Prop :=
  Inv asn C cvrs winner st ∧ ∃ te rest, st.fr = te :: rest ∧ (st.store.get te).expandable = false

/-- the exit state of the main loop with an `agap` test: the head is not expandable, or the test was true -/
def ExitG (gap : Diff D → Diff D → Bool) (st : St α D) : Prop :=
  Inv asn C cvrs winner st ∧ ∃ te rest, st.fr = te :: rest ∧
    ((st.store.get te).expandable = false ∨ gapExit gap (maxEst st.store te rest) st.lb = true)

/-- what the main loop returns: never an exception; an exit state, or "audit not possible" with a
witness order -/
def LoopOutG (gap : Diff D → Diff D → Bool) (res : Res (Option (St α D))) : Prop :=
  match res with
  | Res.ok (some st') => ExitG asn C cvrs winner gap st'
  | Res.ok none => BadLeaf asn C cvrs winner
  | Res.fuel => True
  | Res.err _ => False

/-- the same for `agap = 0` -/
def LoopOut (res : Res (Option (St α D))) : Prop :=
  match res with
  | Res.ok (some st') => ExitState asn C cvrs winner st'
  | Res.ok none => BadLeaf asn C cvrs winner
  | Res.fuel => True
  | Res.err _ => False

theorem exitG_noGap {st : St α D} (h : ExitG asn C cvrs winner noGap st) : ExitState asn C cvrs winner st := by
  obtain ⟨hI, te, rest, hfr, h1 | h1⟩ := h
  · exact ⟨hI, te, rest, hfr, h1⟩
  · exfalso
    cases hlb : st.lb with
    | none => rw [hlb] at h1; simp [gapExit] at h1
    | some l => rw [hlb] at h1; simp [gapExit, noGap] at h1

theorem loopOutG_noGap {res : Res (Option (St α D))} (h : LoopOutG asn C cvrs winner noGap res) :
    LoopOut asn C cvrs winner res := by
  cases res with
  | ok o =>
    cases o with
    | none => exact h
    | some st => exact exitG_noGap asn C cvrs winner h
  | fuel => trivial
  | err e => exact h

/-- some alternative order exists when there are at least two candidates -/
theorem exists_alt (hC : C.candidates.Nodup) (hn : 2 ≤ C.candidates.length) :
    ∃ π, Alt C.candidates winner π := by
  obtain ⟨c, hc, hcw⟩ : ∃ c ∈ C.candidates, c ≠ winner := by
    cases hcs : C.candidates with
    | nil => rw [hcs] at hn; simp at hn
    | cons a l =>
      cases l with
      | nil => rw [hcs] at hn; simp at hn
      | cons b l' =>
        by_cases ha : a = winner
        · refine ⟨b, by simp, ?_⟩
          intro hb
          rw [hcs] at hC
          have := (List.nodup_cons.1 hC).1
          apply this
          rw [ha, ← hb]; simp
        · exact ⟨a, by simp, ha⟩
  refine ⟨C.candidates.erase c ++ [c], ?_, C.candidates.erase c, c, rfl, hcw⟩
  exact List.perm_append_comm.trans (List.perm_cons_erase hc).symm

theorem Phi_cons {st : St α D} {te : Nat} {rest : List Nat} (hfr : st.fr = te :: rest) :
    Phi C st = wt C.candidates.length (st.store.get te) st.lb + Phi C ({ st with fr := rest } : St α D) := by
  unfold Phi
  rw [hfr]
  simp only [List.map_cons, List.sum_cons]

theorem mainLoopG_spec (gap : Diff D → Diff D → Bool) (hC : C.candidates.Nodup) (hn : 2 ≤ C.candidates.length) :
    ∀ (fuel : Nat) (st : St α D) (r : Res (Option (St α D))),
    mainLoopG gap asn C (cvrs.filterMap id) (nebTable asn C cvrs) fuel st = r →
    Inv asn C cvrs winner st →
    LoopOutG asn C cvrs winner gap r ∧ (r = Res.fuel → fuel ≤ Phi C st) := by
  intro fuel
  induction fuel with
  | zero =>
    intro st r h _; simp only [mainLoopG] at h; subst h
    exact ⟨trivial, fun _ => Nat.zero_le _⟩
  | succ fuel ih =>
    intro st r h hI
    -- a recursive call on a state of smaller measure
    have recurse : ∀ st2 : St α D, Inv asn C cvrs winner st2 → Phi C st2 < Phi C st →
        mainLoopG gap asn C (cvrs.filterMap id) (nebTable asn C cvrs) fuel st2 = r →
        LoopOutG asn C cvrs winner gap r ∧ (r = Res.fuel → fuel + 1 ≤ Phi C st) := by
      intro st2 hI2 hlt hrun
      obtain ⟨o1, o2⟩ := ih st2 r hrun hI2
      exact ⟨o1, fun hr => by have := o2 hr; omega⟩
    rw [mainLoopG] at h
    split at h
    · rename_i hfr
      exfalso
      obtain ⟨π, hπ⟩ := exists_alt C winner hC hn
      obtain ⟨w, hw, _⟩ := hI.cover π hπ
      rw [hfr] at hw; cases hw
    · rename_i te rest hfr
      simp only at h
      split at h
      · -- exit: the `agap` test is true
        rename_i hgap
        subst h
        exact ⟨⟨hI, te, rest, hfr, Or.inr hgap⟩, fun h => nomatch h⟩
      split at h
      · -- exit: the first frontier node is not expandable
        rename_i hne
        subst h
        exact ⟨⟨hI, te, rest, hfr, Or.inl (by simpa using hne)⟩, fun h => nomatch h⟩
      · rename_i hne
        have hexp : (st.store.get te).expandable = true := by simpa using hne
        have hte : te < st.store.size := hI.fr.inRange te (by rw [hfr]; exact List.mem_cons_self)
        have hF0 : FInv asn C cvrs winner ({ st with fr := rest } : St α D) := hI.fr.tail hfr
        have hteOK := hI.ok te hte
        have hlen := hteOK.expLen hexp
        have hlen2 := hteOK.len
        have hPhi := Phi_cons C hfr
        have hwt_ge := le_wt_of_exp C.candidates.length (st.store.get te) st.lb hexp (Nat.le_of_lt hlen)
        -- arithmetic of the weights, with `X = W (N - k - 1)` and `Y = N * X`
        have hWsucc : W C.candidates.length (C.candidates.length - (st.store.get te).tail.length) =
            2 * (C.candidates.length *
              W C.candidates.length (C.candidates.length - (st.store.get te).tail.length - 1)) +
            W C.candidates.length (C.candidates.length - (st.store.get te).tail.length - 1) := by
          have e : C.candidates.length - (st.store.get te).tail.length =
              (C.candidates.length - (st.store.get te).tail.length - 1) + 1 := by omega
          rw [e]
          show (2 * C.candidates.length + 1) * W _ _ = _
          rw [Nat.add_mul, Nat.one_mul, Nat.mul_assoc]
          simp only [Nat.add_sub_cancel]
        have hXpos := W_pos C.candidates.length (C.candidates.length - (st.store.get te).tail.length - 1)
        have hYge : C.candidates.length ≤ C.candidates.length *
            W C.candidates.length (C.candidates.length - (st.store.get te).tail.length - 1) :=
          Nat.le_mul_of_pos_right _ (by omega)
        -- the expansion step, shared by the two places where it occurs
        have expandCase : ∀ (st1 : St α D), te < st1.store.size → StoreOK asn C cvrs winner st1.store →
            FInv asn C cvrs winner st1 → (st1.store.get te).tail = (st.store.get te).tail →
            (st1.store.get te).expandable = true →
            (∀ π, SC { st with fr := rest } π → SC st1 π) →
            (∀ π, Alt C.candidates winner π → (st.store.get te).tail <:+ π →
              (∀ c ∈ (st.store.get te).explored, ¬ (c :: (st.store.get te).tail) <:+ π) →
              ∀ c, (c :: (st.store.get te).tail) <:+ π → c ∈ (st1.store.get te).explored → SC st1 π) →
            leLB (st.store.get te).estimate st.lb = false →
            Phi C st1 + C.candidates.length *
              W C.candidates.length (C.candidates.length - (st.store.get te).tail.length - 1) < Phi C st →
            (if (expandLoop asn C (cvrs.filterMap id) (nebTable asn C cvrs) te C.candidates st1).1 = true
              then Res.ok none
              else mainLoopG gap asn C (cvrs.filterMap id) (nebTable asn C cvrs) fuel
                (expandLoop asn C (cvrs.filterMap id) (nebTable asn C cvrs) te C.candidates st1).2)
              = r →
            LoopOutG asn C cvrs winner gap r ∧ (r = Res.fuel → fuel + 1 ≤ Phi C st) := by
          intro st1 hte1 hok1 hF1 htail1 hexp1 hsc1 hexpl hnle hPhi1 hrun
          cases hr : expandLoop asn C (cvrs.filterMap id) (nebTable asn C cvrs) te C.candidates st1 with
          | mk r1 st2 =>
            rw [hr] at hrun
            obtain ⟨ebad, egood⟩ := expandLoop_spec asn C cvrs winner hC te C.candidates st1 st2 r1 hr
              hte1 hok1 hF1 (fun c hc => hc) hexp1
            cases r1 with
            | true =>
              simp only [if_true] at hrun
              subst hrun
              exact ⟨ebad rfl, fun h => nomatch h⟩
            | false =>
              simp only [Bool.false_eq_true, if_false] at hrun
              obtain ⟨e1, e2, e3, e4, e5, e6, e7, e8⟩ := egood rfl
              rw [htail1] at e8
              refine recurse st2 ?_ (by omega) hrun
              apply inv_of_step asn C cvrs winner hC hI hfr e1 e2 (fun π hsc => e4 π (hsc1 π hsc))
              intro π hπ hthru heff
              rcases heff with heff | heff
              · rw [heff] at hnle; cases hnle
              · obtain ⟨c, hc1, hc2, hc3⟩ := alt_through C hC hπ.1 hthru hlen
                by_cases hce : c ∈ (st1.store.get te).explored
                · exact e4 π (hexpl π hπ hthru heff c hc1 hce)
                · rw [htail1] at e5
                  exact e5 c hc2 hc3 hce π hc1
        cases hp : pruneChecks ({ st with fr := rest } : St α D) te with
        | some stp =>
          rw [hp] at h
          simp only at h
          obtain ⟨p1, p2, p3, p4, p5, p6⟩ := pruneChecks_spec asn C cvrs winner hC ({ st with fr := rest } : St α D) stp te hte hI.ok hF0 hp
          refine recurse stp ?_ ?_ h
          · exact inv_of_step asn C cvrs winner hC hI hfr p1 p2 p4 (fun π _ hthru _ => p5 π hthru)
          · have p6' : Phi C stp ≤ Phi C ({ st with fr := rest } : St α D) +
                ((st.store.get te).tail.length - 1) := p6
            omega
        | none =>
          rw [hp] at h
          simp only at h
          have hnle := pruneChecks_none hp
          have hnle' : leLB (st.store.get te).estimate st.lb = false := hnle
          have hwt_te : wt C.candidates.length (st.store.get te) st.lb =
              W C.candidates.length (C.candidates.length - (st.store.get te).tail.length) := by
            unfold wt
            rw [if_pos hexp, hnle']
            rfl
          split at h
          · -- dive first
            rename_i hdn
            obtain ⟨hdres, hdfuel⟩ := performDive_spec asn C cvrs winner hC (C.candidates.length + 1) te
              ({ st with fr := rest } : St α D) _ rfl hte hI.ok hF0 hexp
            split at h
            · rename_i hdive
              exfalso
              have := hdfuel hdive
              omega
            · rename_i e hdive
              rw [hdive] at hdres; exact hdres.elim
            · rename_i sd hdive
              rw [hdive] at hdres
              obtain ⟨dbad, dgood⟩ := hdres
              split at h
              · rename_i hinf
                subst h
                exact ⟨dbad hinf, fun h => nomatch h⟩
              · rename_i hinf
                have hinf' : LB.isInf sd.lb = false := by simpa using hinf
                obtain ⟨next, hnc, hnt, d1, d2, d3, d4, d5, d6, d7, d8, d9⟩ := dgood hinf'
                have hsdte_tail : (sd.store.get te).tail = (st.store.get te).tail := by
                  have : sd.store.get te = _ := d8
                  rw [this]
                have hsdte_exp : (sd.store.get te).expandable = true := by
                  have : sd.store.get te = _ := d8
                  rw [this]; exact hexp
                have hsdte_expl : (sd.store.get te).explored = (st.store.get te).explored ++ [next] := by
                  have : sd.store.get te = _ := d8
                  rw [this]
                have hF1 : FInv asn C cvrs winner ({ sd with lb := maxLB2 st.lb sd.lb } : St α D) := by
                  refine d2.setLb _ (le_maxLB2_right _ _) (LBfin_maxLB2 hI.fr.lbFin d2.lbFin) ?_
                  intro x hx
                  rcases maxLB2_cases st.lb sd.lb with h' | h'
                  · rw [h'] at hx; exact d2.lbOpt x hx
                  · rw [h'] at hx; exact hI.fr.lbOpt x hx
                have hsc1 : ∀ π, SC { st with fr := rest } π → SC ({ sd with lb := maxLB2 st.lb sd.lb } : St α D) π := by
                  intro π hsc
                  exact (d4 π hsc).mono (fun x hx => ⟨hx, rfl, rfl, rfl⟩) (le_maxLB2_right _ _)
                have hte1 : te < sd.store.size := Nat.lt_of_lt_of_le hte d6
                -- measure after the dive and the update of the lower bound
                have hPhi_sd : Phi C sd ≤ Phi C ({ st with fr := rest } : St α D) +
                    C.candidates.length *
                      W C.candidates.length (C.candidates.length - (st.store.get te).tail.length - 1) := by
                  have d9' : Phi C sd ≤ Phi C ({ st with fr := rest } : St α D) +
                      (C.candidates.length - (st.store.get te).tail.length) *
                        W C.candidates.length (C.candidates.length - (st.store.get te).tail.length - 1) := d9
                  have : (C.candidates.length - (st.store.get te).tail.length) *
                      W C.candidates.length (C.candidates.length - (st.store.get te).tail.length - 1) ≤
                      C.candidates.length *
                      W C.candidates.length (C.candidates.length - (st.store.get te).tail.length - 1) :=
                    Nat.mul_le_mul_right _ (Nat.sub_le _ _)
                  omega
                have hPhi_st1 : Phi C ({ sd with lb := maxLB2 st.lb sd.lb } : St α D) ≤ Phi C sd :=
                  Phi_setLb asn C cvrs winner hC sd _ (le_maxLB2_right _ _) d1 d2.inRange
                cases hp2 : pruneChecks ({ sd with lb := maxLB2 st.lb sd.lb } : St α D) te with
                | some stp =>
                  rw [hp2] at h
                  simp only at h
                  obtain ⟨p1, p2, p3, p4, p5, p6⟩ := pruneChecks_spec asn C cvrs winner hC ({ sd with lb := maxLB2 st.lb sd.lb } : St α D) stp te hte1 d1 hF1 hp2
                  refine recurse stp ?_ ?_ h
                  · refine inv_of_step asn C cvrs winner hC hI hfr p1 p2 (fun π hsc => p4 π (hsc1 π hsc)) ?_
                    intro π _ hthru _
                    apply p5
                    show (sd.store.get te).tail <:+ π
                    rw [hsdte_tail]; exact hthru
                  · have p6' : Phi C stp ≤ Phi C ({ sd with lb := maxLB2 st.lb sd.lb } : St α D) +
                        ((sd.store.get te).tail.length - 1) := p6
                    rw [hsdte_tail] at p6'
                    omega
                | none =>
                  rw [hp2] at h
                  simp only at h
                  refine expandCase ({ sd with lb := maxLB2 st.lb sd.lb } : St α D) hte1 d1 hF1 hsdte_tail hsdte_exp hsc1 ?_ hnle (by omega) h
                  intro π hπ hthru heff c hc1 hce
                  have hce' : c ∈ (st.store.get te).explored ++ [next] := by
                    rw [← hsdte_expl]; exact hce
                  simp only [List.mem_append, List.mem_singleton] at hce'
                  rcases hce' with hce' | rfl
                  · exact absurd hc1 (heff c hce')
                  · show SC ({ sd with lb := maxLB2 st.lb sd.lb } : St α D) π
                    exact (d5 π hc1).mono (fun x hx => ⟨hx, rfl, rfl, rfl⟩) (le_maxLB2_right _ _)
          · -- the node was created by a dive: expand directly
            refine expandCase ({ st with fr := rest } : St α D) hte hI.ok hF0 rfl hexp (fun π hsc => hsc) ?_ hnle (by omega) h
            intro π hπ hthru heff c hc1 hce
            exact absurd hc1 (heff c hce)

/-- the main loop with `agap = 0` -/
theorem mainLoop_spec (hC : C.candidates.Nodup) (hn : 2 ≤ C.candidates.length)
    (fuel : Nat) (st : St α D) (r : Res (Option (St α D)))
    (h : mainLoop asn C (cvrs.filterMap id) (nebTable asn C cvrs) fuel st = r)
    (hI : Inv asn C cvrs winner st) :
    LoopOut asn C cvrs winner r ∧ (r = Res.fuel → fuel ≤ Phi C st) := by
  obtain ⟨h1, h2⟩ := mainLoopG_spec asn C cvrs winner noGap hC hn fuel st r h hI
  exact ⟨loopOutG_noGap asn C cvrs winner h1, h2⟩

end Loop
end Shangrla.Raire
