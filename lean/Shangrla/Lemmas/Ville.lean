/-
  Ville's (maximal) inequality on the finite tree of draws *without replacement*, and with
  replacement from a finitely supported law: exact rational probabilities, induction over the
  number of remaining items; valid for every population size.
-/
import Mathlib.Tactic.Linarith
import Mathlib.Tactic.Positivity
import Mathlib.Tactic.FieldSimp
import Mathlib.Tactic.Ring
import Mathlib.Algebra.Order.Field.Basic
import Mathlib.Algebra.Order.Ring.Rat
import Mathlib.Algebra.BigOperators.Group.List.Basic
import Mathlib.Algebra.Order.BigOperators.Group.List

namespace Shangrla.Ville

/-- average of `f i` over indices `i < n` -/
def avgIdx (n : Nat) (f : Nat → ℚ) : ℚ := ((List.range n).map f).sum / n

/-- exact probability that the event `ev` holds at some node on the path, when the remaining items
`R` are drawn one by one uniformly at random without replacement after history `h`
(`fuel ≥ R.length`).  `hitEv ev pop.length pop []` is the probability, over the `N!` orderings of
`pop`, that some prefix of the ordering satisfies `ev`. -/
def hitEv (ev : List ℚ → Bool) : (fuel : Nat) → List ℚ → List ℚ → ℚ
  | 0, _, h => if ev h then 1 else 0
  | fuel + 1, R, h =>
    if ev h then 1
    else if R = [] then 0
    else avgIdx R.length (fun i => hitEv ev fuel (R.eraseIdx i) (h ++ [R.getD i 0]))

theorem avgIdx_le {n : Nat} (hn : 0 < n) (f g : Nat → ℚ) (h : ∀ i < n, f i ≤ g i) :
    avgIdx n f ≤ avgIdx n g := by
  unfold avgIdx
  have : (0 : ℚ) < n := by exact_mod_cast hn
  apply div_le_div_of_nonneg_right _ this.le
  apply List.sum_le_sum
  intro i hi
  exact h i (List.mem_range.mp hi)

theorem avgIdx_div (n : Nat) (f : Nat → ℚ) (c : ℚ) :
    avgIdx n (fun i => f i / c) = avgIdx n f / c := by
  unfold avgIdx
  have : ((List.range n).map (fun i => f i / c)).sum = ((List.range n).map f).sum / c := by
    induction (List.range n) with
    | nil => simp
    | cons a l ih => simp [List.sum_cons, ih, add_div]
  rw [this]; ring

theorem avgIdx_const (n : Nat) (hn : 0 < n) (c : ℚ) : avgIdx n (fun _ => c) = c := by
  unfold avgIdx
  have h : ((List.range n).map (fun _ => c)).sum = n * c := by
    induction n with
    | zero => simp
    | succ k ih =>
      cases k with
      | zero => simp
      | succ k' =>
        have := ih (by omega)
        rw [List.range_succ, List.map_append, List.sum_append, this]
        simp; ring
  rw [h]
  have : (n : ℚ) ≠ 0 := by exact_mod_cast (by omega : n ≠ 0)
  field_simp

theorem avgIdx_mul_left (n : Nat) (f : Nat → ℚ) (c : ℚ) :
    avgIdx n (fun i => c * f i) = c * avgIdx n f := by
  unfold avgIdx
  have : ((List.range n).map (fun i => c * f i)).sum = c * ((List.range n).map f).sum := by
    induction (List.range n) with
    | nil => simp
    | cons a l ih => simp [List.sum_cons, ih, mul_add]
  rw [this]; ring

/-- **Ville's inequality on the draw tree.**  If, on the states satisfying an invariant preserved by
drawing, `val` is non-negative and its average over the next uniform draw does not exceed its current
value, and the event implies `c ≤ val`, then the probability that the event ever happens is at most
`val h / c`. -/
theorem hitEv_le (ev : List ℚ → Bool) (val : List ℚ → ℚ) (c : ℚ) (hc : 0 < c)
    (Inv : List ℚ → List ℚ → Prop)
    (hev : ∀ R h, Inv R h → ev h = true → c ≤ val h)
    (hnn : ∀ R h, Inv R h → 0 ≤ val h)
    (hstep : ∀ R h, Inv R h → ∀ i < R.length, Inv (R.eraseIdx i) (h ++ [R.getD i 0]))
    (hsuper : ∀ R h, Inv R h → R ≠ [] →
      avgIdx R.length (fun i => val (h ++ [R.getD i 0])) ≤ val h) :
    ∀ fuel R h, Inv R h → R.length ≤ fuel → hitEv ev fuel R h ≤ val h / c := by
  intro fuel
  induction fuel with
  | zero =>
    intro R h hI _
    unfold hitEv
    split
    · rename_i he
      rw [le_div_iff₀ hc]; linarith [hev R h hI he]
    · exact div_nonneg (hnn R h hI) hc.le
  | succ fuel ih =>
    intro R h hI hlen
    unfold hitEv
    split
    · rename_i he
      rw [le_div_iff₀ hc]; linarith [hev R h hI he]
    · split
      · exact div_nonneg (hnn R h hI) hc.le
      · rename_i hR
        have hpos : 0 < R.length := List.length_pos_iff.mpr hR
        calc avgIdx R.length (fun i => hitEv ev fuel (R.eraseIdx i) (h ++ [R.getD i 0]))
            ≤ avgIdx R.length (fun i => val (h ++ [R.getD i 0]) / c) := by
              apply avgIdx_le hpos
              intro i hi
              apply ih _ _ (hstep R h hI i hi)
              rw [List.length_eraseIdx]; simp [hi]; omega
          _ = avgIdx R.length (fun i => val (h ++ [R.getD i 0])) / c := avgIdx_div _ _ _
          _ ≤ val h / c := by
              apply div_le_div_of_nonneg_right (hsuper R h hI hR) hc.le

theorem sum_range_getD (R : List ℚ) :
    ((List.range R.length).map (fun i => R.getD i 0)).sum = R.sum := by
  have : (List.range R.length).map (fun i => R.getD i 0) = R := by
    apply List.ext_getElem
    · simp
    · intro i h1 h2
      simp at h1
      simp [List.getD_eq_getElem?_getD, h1]
  rw [this]

theorem sum_map_affine (l : List Nat) (g : Nat → ℚ) (a b : ℚ) :
    (l.map (fun i => a + b * g i)).sum = a * l.length + b * (l.map g).sum := by
  induction l with
  | nil => simp
  | cons x l ih => simp [List.sum_cons, ih]; ring

/-- one step of a betting supermartingale under the null: if the remaining items sum to at most
`m * #remaining` and `lam ≥ 0`, the average of `1 + lam (x - m)` over the next draw is at most 1 -/
theorem superstep (R : List ℚ) (hR : R ≠ []) (lam m : ℚ) (hlam : 0 ≤ lam)
    (hnull : R.sum ≤ m * R.length) :
    avgIdx R.length (fun i => 1 + lam * (R.getD i 0 - m)) ≤ 1 := by
  unfold avgIdx
  have hpos : (0 : ℚ) < R.length := by
    have := List.length_pos_iff.mpr hR
    exact_mod_cast this
  have h1 : (fun i => 1 + lam * (R.getD i 0 - m)) = (fun i => (1 - lam * m) + lam * R.getD i 0) := by
    funext i; ring
  rw [h1, sum_map_affine, sum_range_getD, div_le_one hpos]
  simp only [List.length_range]
  nlinarith [mul_le_mul_of_nonneg_left hnull hlam]

theorem sum_eraseIdx (R : List ℚ) (i : Nat) (hi : i < R.length) :
    (R.eraseIdx i).sum = R.sum - R.getD i 0 := by
  induction R generalizing i with
  | nil => simp at hi
  | cons a R ih =>
    cases i with
    | zero => simp
    | succ k =>
      simp only [List.length_cons, Nat.add_lt_add_iff_right] at hi
      simp only [List.eraseIdx_cons_succ, List.sum_cons, List.getD_cons_succ]
      rw [ih k hi]; ring

theorem mem_eraseIdx_of {R : List ℚ} {i : Nat} {a : ℚ} (h : a ∈ R.eraseIdx i) : a ∈ R :=
  (List.eraseIdx_sublist R i).subset h

theorem getD_mem {R : List ℚ} {i : Nat} (hi : i < R.length) : R.getD i 0 ∈ R := by
  rw [List.getD_eq_getElem?_getD, List.getElem?_eq_getElem hi]
  simp

end Shangrla.Ville
