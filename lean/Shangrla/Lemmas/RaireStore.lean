/-
  The node store and the frontier primitives of the RAIRE model: `Store.get` after `push` /
  `setIfInBounds`, the order on lower bounds, and the shape of `insertNode` / `replaceDescendents`
  results (the inserted node splits the old frontier).  Core Lean only.
-/
import Shangrla.Lemmas.RaireFBA

namespace Shangrla.Raire

set_option linter.unusedSectionVars false

variable {α : Type} [DecidableEq α] {D : Type} [DiffOrd D]

/-! ### store -/

theorem Store.get_push_lt (s : Store α D) (n : Node α D) {i : Nat} (h : i < s.size) :
    Store.get (s.push n) i = s.get i := by
  unfold Store.get
  rw [Array.getElem?_push, if_neg (by omega)]

theorem Store.get_push_eq (s : Store α D) (n : Node α D) : Store.get (s.push n) s.size = n := by
  unfold Store.get
  rw [Array.getElem?_push, if_pos rfl]; rfl

theorem Store.get_set_ne (s : Store α D) (n : Node α D) {i j : Nat} (h : i ≠ j) :
    Store.get (s.setIfInBounds i n) j = s.get j := by
  unfold Store.get
  rw [Array.getElem?_setIfInBounds, if_neg h]

theorem Store.get_set_eq (s : Store α D) (n : Node α D) {i : Nat} (h : i < s.size) :
    Store.get (s.setIfInBounds i n) i = n := by
  unfold Store.get
  rw [Array.getElem?_setIfInBounds, if_pos rfl, if_pos h]; rfl

/-! ### lower bounds -/

/-- order on lower bounds: the sentinel is below everything -/
def LB.le : LB D → LB D → Prop
  | none, _ => True
  | some _, none => False
  | some a, some b => Diff.le a b = true

theorem LB.le_refl [DiffOrd.Lawful D] (a : LB D) : LB.le a a := by
  cases a with
  | none => trivial
  | some x => exact Diff.le_refl x

theorem LB.le_trans [DiffOrd.Lawful D] {a b c : LB D} (h1 : LB.le a b) (h2 : LB.le b c) : LB.le a c := by
  cases a with
  | none => trivial
  | some x =>
    cases b with
    | none => cases h1
    | some y =>
      cases c with
      | none => cases h2
      | some z => exact Diff.le_trans h1 h2

theorem leLB_mono [DiffOrd.Lawful D] {e : Diff D} {a b : LB D} (h : LB.le a b) (he : leLB e a = true) :
    leLB e b = true := by
  cases a with
  | none => cases he
  | some x =>
    cases b with
    | none => cases h
    | some y => exact Diff.le_trans he h

theorem leLB_trans [DiffOrd.Lawful D] {e e' : Diff D} {a : LB D} (h : Diff.le e e' = true)
    (he : leLB e' a = true) : leLB e a = true := by
  cases a with
  | none => cases he
  | some x => exact Diff.le_trans h he

theorem le_maxLB_left [DiffOrd.Lawful D] (lb : LB D) (x : Diff D) : LB.le lb (maxLB lb x) := by
  cases lb with
  | none => trivial
  | some l =>
    unfold maxLB
    simp only
    split
    · rename_i h
      have := (Diff.lt_iff_not_le l x).1 h
      rcases Diff.le_total l x with h1 | h1
      · exact h1
      · rw [h1] at this; cases this
    · exact Diff.le_refl l

theorem le_maxLB_right [DiffOrd.Lawful D] (lb : LB D) (x : Diff D) : leLB x (maxLB lb x) = true := by
  cases lb with
  | none => exact Diff.le_refl x
  | some l =>
    unfold maxLB
    simp only
    split
    · exact Diff.le_refl x
    · rename_i h
      have h' : Diff.lt l x = false := by simpa using h
      cases hle : Diff.le x l with
      | true => exact hle
      | false => rw [(Diff.lt_iff_not_le l x).2 hle] at h'; cases h'

theorem maxLB_cases (lb : LB D) (x : Diff D) : maxLB lb x = some x ∨ maxLB lb x = lb := by
  cases lb with
  | none => left; rfl
  | some l => unfold maxLB; simp only; split <;> simp

theorem le_maxLB2_left [DiffOrd.Lawful D] (lb x : LB D) : LB.le lb (maxLB2 lb x) := by
  cases x with
  | none => exact LB.le_refl lb
  | some d => exact le_maxLB_left lb d

theorem le_maxLB2_right [DiffOrd.Lawful D] (lb x : LB D) : LB.le x (maxLB2 lb x) := by
  cases x with
  | none => trivial
  | some d =>
    have := le_maxLB_right lb d
    unfold maxLB2
    simp only
    cases h : maxLB lb d with
    | none => rw [h] at this; cases this
    | some y => rw [h] at this; exact this

theorem maxLB2_cases (lb x : LB D) : maxLB2 lb x = x ∨ maxLB2 lb x = lb := by
  cases x with
  | none => right; rfl
  | some d => exact maxLB_cases lb d

/-- a lower bound that is the sentinel or a finite difficulty -/
def LBfin (lb : LB D) : Prop := lb ≠ some Diff.inf

theorem leLB_fin {e : Diff D} {lb : LB D} (hf : LBfin lb) (h : leLB e lb = true) : e ≠ Diff.inf := by
  intro he; subst he
  cases lb with
  | none => cases h
  | some l =>
    have := (Diff.inf_le_iff l).1 h
    subst this
    exact hf rfl

/-! ### frontier primitives -/

theorem insertSorted_split (s : Store α D) (est : Diff D) (id : Nat) (F : List Nat) :
    ∃ pre post, F = pre ++ post ∧ insertSorted s est id F = pre ++ id :: post ∧
      (∀ x ∈ pre, Diff.le (s.get x).estimate est = false) ∧
      (∀ y, post.head? = some y → Diff.le (s.get y).estimate est = true) := by
  induction F with
  | nil => exact ⟨[], [], rfl, rfl, by simp, by simp⟩
  | cons x xs ih =>
    unfold insertSorted
    by_cases h : Diff.le (s.get x).estimate est = true
    · rw [if_pos h]
      exact ⟨[], x :: xs, rfl, rfl, by simp, by simp [h]⟩
    · rw [if_neg h]
      obtain ⟨pre, post, h1, h2, h3, h4⟩ := ih
      refine ⟨x :: pre, post, by rw [h1]; rfl, by rw [h2]; rfl, ?_, h4⟩
      intro y hy
      simp only [List.mem_cons] at hy
      rcases hy with rfl | hy
      · simpa using h
      · exact h3 y hy

/-- `insert_node` puts the node somewhere into the old frontier; where depends on its three cases -/
theorem insertNode_split (s : Store α D) (F : List Nat) (id : Nat) :
    ∃ pre post, F = pre ++ post ∧ insertNode s F id = pre ++ id :: post ∧
      ((s.get id).expandable = false → post = []) ∧
      ((s.get id).expandable = true → (s.get id).estimate = Diff.inf → pre = []) ∧
      ((s.get id).expandable = true → (s.get id).estimate ≠ Diff.inf →
        (∀ x ∈ pre, Diff.le (s.get x).estimate (s.get id).estimate = false) ∧
        (∀ y, post.head? = some y → Diff.le (s.get y).estimate (s.get id).estimate = true)) := by
  unfold insertNode
  simp only
  cases he : (s.get id).expandable with
  | false =>
    simp only [Bool.not_false, if_true]
    exact ⟨F, [], by simp, by simp, by simp, by simp, by simp⟩
  | true =>
    simp only [Bool.not_true, Bool.false_eq_true, if_false]
    cases hi : (s.get id).estimate.isInf with
    | true =>
      simp only [if_true]
      exact ⟨[], F, rfl, rfl, by simp, by simp,
        fun _ h => absurd ((Diff.isInf_iff _).1 hi) h⟩
    | false =>
      simp only [Bool.false_eq_true, if_false]
      obtain ⟨pre, post, h1, h2, h3, h4⟩ := insertSorted_split s (s.get id).estimate id F
      refine ⟨pre, post, h1, h2, by simp, ?_, fun _ _ => ⟨h3, h4⟩⟩
      intro _ h
      rw [h] at hi; cases hi

theorem mem_insertNode (s : Store α D) (F : List Nat) (id x : Nat) :
    x ∈ insertNode s F id ↔ x = id ∨ x ∈ F := by
  obtain ⟨pre, post, h1, h2, _⟩ := insertNode_split s F id
  rw [h2, h1]
  simp only [List.mem_append, List.mem_cons]
  constructor
  · rintro (h | h | h)
    · exact Or.inr (Or.inl h)
    · exact Or.inl h
    · exact Or.inr (Or.inr h)
  · rintro (h | h | h)
    · exact Or.inr (Or.inl h)
    · exact Or.inl h
    · exact Or.inr (Or.inr h)

theorem mem_replaceDescendents (s : Store α D) (F : List Nat) (id x : Nat) :
    x ∈ replaceDescendents s F id ↔
      x = id ∨ (x ∈ F ∧ isDescendentOf (s.get x).tail (s.get id).tail = false) := by
  unfold replaceDescendents
  simp only [mem_insertNode, List.mem_filter, Bool.not_eq_true']

theorem isDescendentOf_iff (t1 t2 : List α) :
    isDescendentOf t1 t2 = true ↔ ∃ pre, pre ≠ [] ∧ t1 = pre ++ t2 := by
  unfold isDescendentOf
  split
  · rename_i h
    simp only [Bool.false_eq_true, false_iff, not_exists, not_and]
    intro pre hpre he
    rw [he, List.length_append] at h
    have : pre.length ≠ 0 := fun h0 => hpre (List.length_eq_zero_iff.1 h0)
    omega
  · rename_i h
    rw [beq_iff_eq]
    constructor
    · intro hd
      refine ⟨t1.take (t1.length - t2.length), ?_, ?_⟩
      · intro h0
        have := congrArg List.length h0
        simp only [List.length_take, List.length_nil] at this
        omega
      · conv => lhs; rw [← List.take_append_drop (t1.length - t2.length) t1]
        rw [hd]
    · rintro ⟨pre, _, rfl⟩
      simp

end Shangrla.Raire
