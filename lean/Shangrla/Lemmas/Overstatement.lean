/-
  Helper lemmas about `Shangrla.Model.Overstatement` shared by the property files C03, C06, C08b:
  `XR` arithmetic on finite values, sums over lists, the closed form of `poolMeans`,
  and the shape of `compData` (a filter of the zipped sample followed by `mapM`).
-/
import Shangrla.Model.Overstatement
import Mathlib.Tactic.Linarith
import Mathlib.Tactic.FieldSimp
import Mathlib.Tactic.Ring
import Mathlib.Tactic.Positivity
import Mathlib.Algebra.Order.Field.Basic
import Mathlib.Algebra.Order.Ring.Rat
import Mathlib.Algebra.BigOperators.Group.List.Basic

namespace Shangrla.Overstatement
open Shangrla

/-! ### `XR` on finite values -/

theorem fin_add (a b : Rat) : XR.fin a + XR.fin b = XR.fin (a + b) := rfl
theorem fin_sub (a b : Rat) : XR.fin a - XR.fin b = XR.fin (a - b) := by
  show XR.fin (a + -b) = _
  rw [sub_eq_add_neg]
theorem fin_mul (a b : Rat) : XR.fin a * XR.fin b = XR.fin (a * b) := rfl
theorem fin_div (a b : Rat) (hb : b ≠ 0) : XR.fin a / XR.fin b = XR.fin (a / b) := by
  show XR.div (XR.fin a) (XR.fin b) = _
  simp [XR.div, hb]
theorem one_eq : (1 : XR) = XR.fin 1 := by
  show XR.fin ((1 : Nat) : Rat) = _
  norm_num
theorem two_eq : (2 : XR) = XR.fin 2 := by
  show XR.fin ((2 : Nat) : Rat) = _
  norm_num

/-! ### sums over lists -/

theorem sum_filter_split {α : Type} (p : α → Bool) (f : α → Rat) (l : List α) :
    (l.map f).sum = ((l.filter p).map f).sum + ((l.filter (fun x => !p x)).map f).sum := by
  induction l with
  | nil => simp
  | cons a l ih =>
    cases h : p a <;> simp [h, ih] <;> ring

theorem sum_map_congr {α : Type} (f g : α → Rat) (l : List α) (h : ∀ x ∈ l, f x = g x) :
    (l.map f).sum = (l.map g).sum := by
  induction l with
  | nil => simp
  | cons a l ih =>
    simp only [List.map_cons, List.sum_cons]
    rw [h a (by simp), ih (fun x hx => h x (by simp [hx]))]

theorem sum_map_const {α : Type} (k : Rat) (l : List α) : (l.map (fun _ => k)).sum = (l.length : Rat) * k := by
  induction l with
  | nil => simp
  | cons a l ih => simp only [List.map_cons, List.sum_cons, List.length_cons, ih]; push_cast; ring

theorem sum_nonneg' (l : List Rat) (h : ∀ x ∈ l, 0 ≤ x) : 0 ≤ l.sum := by
  induction l with
  | nil => simp
  | cons a l ih =>
    simp only [List.sum_cons]
    have := h a (by simp)
    have := ih (fun x hx => h x (by simp [hx]))
    linarith

theorem sum_le_length_mul (u : Rat) (l : List Rat) (h : ∀ x ∈ l, x ≤ u) : l.sum ≤ (l.length : Rat) * u := by
  induction l with
  | nil => simp
  | cons a l ih =>
    simp only [List.sum_cons, List.length_cons]
    have := h a (by simp)
    have := ih (fun x hx => h x (by simp [hx]))
    push_cast
    linarith

/-- grouping: if `m` is a "mean" of `g` on every group of `l` (groups = fibres of `f`), then replacing each
element's `g` by its group's `m` does not change the sum -/
theorem group_sum {α κ : Type} [DecidableEq κ] (f : α → κ) (g : α → Rat) (m : κ → Rat) :
    ∀ (n : Nat) (l : List α), l.length ≤ n →
      (∀ c ∈ l, ((l.filter (fun x => decide (f x = f c))).length : Rat) * m (f c)
                  = ((l.filter (fun x => decide (f x = f c))).map g).sum) →
      (l.map (fun c => m (f c))).sum = (l.map g).sum := by
  intro n
  induction n with
  | zero =>
    intro l hl _
    have : l = [] := List.length_eq_zero_iff.mp (Nat.le_zero.mp hl)
    subst this; simp
  | succ n ih =>
    intro l hl h
    cases l with
    | nil => simp
    | cons c0 l' =>
      set l := c0 :: l' with hl_def
      set p := f c0 with hp
      rw [sum_filter_split (fun x => decide (f x = p)) (fun c => m (f c)) l,
          sum_filter_split (fun x => decide (f x = p)) g l]
      -- the group of `c0`
      have h1 : ((l.filter (fun x => decide (f x = p))).map (fun c => m (f c))).sum
              = ((l.filter (fun x => decide (f x = p))).map g).sum := by
        rw [sum_map_congr (fun c => m (f c)) (fun _ => m p) _ (by
              intro x hx
              have := (List.mem_filter.mp hx).2
              simp only [decide_eq_true_eq] at this
              show m (f x) = m p
              rw [this]),
            sum_map_const]
        exact h c0 (by simp [hl_def])
      -- the rest
      have hlen : (l.filter (fun x => !decide (f x = p))).length ≤ n := by
        have h0 : (l.filter (fun x => !decide (f x = p))) = (l'.filter (fun x => !decide (f x = p))) := by
          simp [hl_def, hp]
        rw [h0]
        have := List.length_filter_le (fun x => !decide (f x = p)) l'
        simp only [hl_def, List.length_cons] at hl
        omega
      have h2 := ih (l.filter (fun x => !decide (f x = p))) hlen (by
        intro c hc
        have hcp : f c ≠ p := by
          have := (List.mem_filter.mp hc).2
          simpa using this
        have hcl : c ∈ l := (List.mem_filter.mp hc).1
        have hff : (l.filter (fun x => !decide (f x = p))).filter (fun x => decide (f x = f c))
                  = l.filter (fun x => decide (f x = f c)) := by
          rw [List.filter_filter]
          apply List.filter_congr
          intro x _
          by_cases hx : f x = f c
          · simp [hx, hcp]
          · simp [hx]
        rw [hff]
        exact h c hcl)
      rw [h1, h2]

/-! ### closed form of `poolMeans` -/

/-- number of cards of `L` labelled with pool `p` -/
def cnt (L : List Cvr) (p : PoolKey) : Nat := (L.filter (fun c => decide (c.tallyPool = p))).length
def tot (L : List Cvr) (p : PoolKey) : Rat := ((L.filter (fun c => decide (c.tallyPool = p))).map (·.a)).sum

theorem bump_some {p : PoolKey} {a : Rat} : ∀ {acc acc' : List (PoolKey × Nat × Rat)}, bump p a acc = some acc' →
    (acc.lookup p).isSome ∧
    ∀ q, acc'.lookup q = if q = p then (acc.lookup p).map (fun e => (e.1 + 1, e.2 + a)) else acc.lookup q := by
  intro acc
  induction acc with
  | nil => intro acc' h; simp [bump] at h
  | cons e rest ih =>
    intro acc' h
    obtain ⟨q0, n, t⟩ := e
    by_cases hq : q0 = p
    · subst hq
      simp only [bump, if_true] at h
      cases h
      refine ⟨by simp, ?_⟩
      intro q
      by_cases hqq : q = q0
      · subst hqq; simp
      · have : (q == q0) = false := by simp [hqq]
        simp [List.lookup_cons, hqq, this]
    · simp only [bump, if_neg hq] at h
      cases hb : bump p a rest with
      | none => simp [hb] at h
      | some r =>
        simp only [hb, Option.map_some, Option.some.injEq] at h
        subst h
        obtain ⟨i1, i2⟩ := ih hb
        have hpq : (p == q0) = false := by simp [Ne.symm hq]
        refine ⟨by simpa [List.lookup_cons, hpq] using i1, ?_⟩
        intro q
        by_cases hqq : q = q0
        · subst hqq
          simp [hq]
        · have : (q == q0) = false := by simp [hqq]
          simp only [List.lookup_cons, this, hpq]
          exact i2 q

theorem cnt_cons (c : Cvr) (cs : List Cvr) (q : PoolKey) :
    cnt (c :: cs) q = (if c.tallyPool = q then 1 else 0) + cnt cs q := by
  unfold cnt
  by_cases h : c.tallyPool = q <;> simp [h]; omega

theorem tot_cons (c : Cvr) (cs : List Cvr) (q : PoolKey) :
    tot (c :: cs) q = (if c.tallyPool = q then c.a else 0) + tot cs q := by
  unfold tot
  by_cases h : c.tallyPool = q <;> simp [h]

theorem accumulate_ok : ∀ (cards : List Cvr) {acc acc' : List (PoolKey × Nat × Rat)},
    accumulate acc cards = .ok acc' →
    (∀ c ∈ cards, (acc.lookup c.tallyPool).isSome) ∧
    ∀ q, acc'.lookup q = (acc.lookup q).map (fun e => (e.1 + cnt cards q, e.2 + tot cards q)) := by
  intro cards
  induction cards with
  | nil =>
    intro acc acc' h
    simp only [accumulate, Except.ok.injEq] at h
    subst h
    refine ⟨by simp, ?_⟩
    intro q
    cases hq : List.lookup q acc <;> simp [cnt, tot]
  | cons c cs ih =>
    intro acc acc' h
    simp only [accumulate] at h
    cases hb : bump c.tallyPool c.a acc with
    | none => simp [hb] at h
    | some acc1 =>
      simp only [hb] at h
      obtain ⟨b1, b2⟩ := bump_some hb
      obtain ⟨i1, i2⟩ := ih h
      constructor
      · intro c' hc'
        rcases List.mem_cons.mp hc' with rfl | hc'
        · exact b1
        · have := i1 c' hc'
          rw [b2] at this
          by_cases hq : c'.tallyPool = c.tallyPool
          · rw [hq]; exact b1
          · simpa [hq] using this
      · intro q
        rw [i2 q, b2 q, cnt_cons, tot_cons]
        by_cases hq : q = c.tallyPool
        · subst hq
          cases hl : List.lookup c.tallyPool acc with
          | none => simp
          | some e =>
            simp only [if_true, Option.map_some, Option.some.injEq, Prod.mk.injEq]
            constructor
            · omega
            · ring
        · have hq' : ¬ c.tallyPool = q := fun h => hq h.symm
          simp [hq, hq']

theorem lookup_init (K : List PoolKey) (q : PoolKey) (e : Nat × Rat) :
    (K.map (fun p => (p, (0 : Nat), (0 : Rat)))).lookup q = some e → e = (0, 0) := by
  induction K with
  | nil => simp
  | cons k K ih =>
    simp only [List.map_cons, List.lookup_cons]
    cases hq : q == k
    · exact ih
    · intro h; cases h; rfl

theorem lookup_map_val {β γ : Type} (f : β → γ) (l : List (PoolKey × β)) (q : PoolKey) :
    (l.map (fun e => (e.1, f e.2))).lookup q = (l.lookup q).map f := by
  induction l with
  | nil => simp
  | cons e l ih =>
    obtain ⟨k, b⟩ := e
    cases hq : q == k <;> simp [List.lookup_cons, hq, ih]

/-- the pooled cards that pass the style filter: the cards over which the pool means are taken -/
def pooledAud (useStyle : Bool) (cvrs : List Cvr) : List Cvr :=
  cvrs.filter (fun c => passes useStyle c && c.pool)

theorem means_of_acc (K : List PoolKey) (L : List Cvr) (acc : List (PoolKey × Nat × Rat))
    (hacc : accumulate (K.map (fun p => (p, (0 : Nat), (0 : Rat)))) L = .ok acc) (c : Cvr) (hc : c ∈ L) :
    (acc.map (fun e => (e.1, if e.2.1 = 0 then XR.nan else XR.fin (e.2.2 / (e.2.1 : Rat))))).lookup c.tallyPool
      = some (XR.fin (tot L c.tallyPool / (cnt L c.tallyPool : Rat))) := by
  have hcnt : 1 ≤ cnt L c.tallyPool := by
    unfold cnt
    exact List.length_pos_of_mem (List.mem_filter.mpr ⟨hc, by simp⟩)
  obtain ⟨a1, a2⟩ := accumulate_ok _ hacc
  have hs := a1 c hc
  have := lookup_map_val (fun (x : Nat × Rat) => if x.1 = 0 then XR.nan else XR.fin (x.2 / (x.1 : Rat))) acc c.tallyPool
  rw [this, a2 c.tallyPool]
  cases hl : List.lookup c.tallyPool (List.map (fun p => (p, (0 : Nat), (0 : Rat))) K) with
  | none => rw [hl] at hs; simp at hs
  | some e =>
    have he := lookup_init _ _ _ hl
    subst he
    have hne : ¬ (cnt L c.tallyPool = 0) := by omega
    simp [hne]

/-- closed form of `set_tally_pool_means`: every pooled card passing the filter finds the mean `tot/n`
of the assorter over exactly the pooled cards of its pool that pass the same filter (`n ≥ 1`) -/
theorem poolMeans_lookup {useStyle : Bool} {cvrs : List Cvr} {keys : Option (List PoolKey)} {d : Means}
    (h : poolMeans useStyle cvrs keys = .ok d) (c : Cvr) (hc : c ∈ cvrs) (hp : passes useStyle c = true)
    (hpool : c.pool = true) :
    1 ≤ cnt (pooledAud useStyle cvrs) c.tallyPool ∧
    d.lookup c.tallyPool
      = some (XR.fin (tot (pooledAud useStyle cvrs) c.tallyPool / (cnt (pooledAud useStyle cvrs) c.tallyPool : Rat))) := by
  have hcL : c ∈ pooledAud useStyle cvrs := by
    unfold pooledAud
    exact List.mem_filter.mpr ⟨hc, by simp [hp, hpool]⟩
  have hcnt : 1 ≤ cnt (pooledAud useStyle cvrs) c.tallyPool := by
    unfold cnt
    exact List.length_pos_of_mem (List.mem_filter.mpr ⟨hcL, by simp⟩)
  refine ⟨hcnt, ?_⟩
  unfold poolMeans at h
  simp only [bind, Except.bind, pure, Except.pure] at h
  split at h
  · cases h
  · rename_i acc hacc
    simp only [Except.ok.injEq] at h
    subst h
    exact means_of_acc _ _ acc hacc c hcL

/-! ### where the pool means come from -/

/-- The dict of pool means installed in the assorter: never set (`None`: plain card comparison), or set by
`set_tally_pool_means` from the same CVR list under the same style flag, for any `tally_pools` argument
with which the call does not raise. -/
inductive MeansFrom (useStyle : Bool) (cvrs : List Cvr) : Option Means → Prop
  | unset : MeansFrom useStyle cvrs none
  | set (keys : Option (List PoolKey)) (d : Means) :
      poolMeans useStyle cvrs keys = .ok d → MeansFrom useStyle cvrs (some d)

/-! ### scores of single pairs -/

/-- the CVR's score is read from the dict of pool means (`cvr.pool and self.tally_pool_means is not None`) -/
def usesPool (means : Option Means) (c : Cvr) : Bool := c.pool && means.isSome

/-- the score of a CVR that is not read from a pool mean: 1/2 for a phantom, `A(cvr)` otherwise -/
def ownScore (c : Cvr) : Rat := if c.phantom then 1 / 2 else c.a

theorem cvrAssort_own (means : Option Means) (c : Cvr) (h : usesPool means c = false) :
    cvrAssort means c = .ok (XR.fin (ownScore c)) := by
  unfold usesPool at h
  unfold cvrAssort ownScore
  cases hp : c.pool <;> cases means <;> cases hph : c.phantom <;> simp_all

theorem cvrAssort_pool (d : Means) (c : Cvr) (hpool : c.pool = true) (m : XR)
    (h : d.lookup c.tallyPool = some m) : cvrAssort (some d) c = .ok m := by
  unfold cvrAssort
  simp [hpool, h]

theorem cvrAssort_pool_missing (d : Means) (c : Cvr) (hpool : c.pool = true)
    (h : d.lookup c.tallyPool = none) : cvrAssort (some d) c = .error Err.KeyError := by
  unfold cvrAssort
  simp [hpool, h]

/-- the rational value of the overstatement assorter `(1 - (cvr_assort - mvr_assort)/u) / (2 - v/u)` -/
def ovA (v u ca ma : Rat) : Rat := (1 - (ca - ma) / u) / (2 - v / u)

theorem overstatementAssorter_fin {v u : Rat} {useStyle : Bool} {means : Option Means} {m : Mvr} {c : Cvr}
    {ca : Rat} (hu : u ≠ 0) (hd : 2 - v / u ≠ 0) (hs : (useStyle && !c.hasContest) = false)
    (hc : cvrAssort means c = .ok (XR.fin ca)) :
    overstatementAssorter (XR.fin v) u useStyle means m c = .ok (XR.fin (ovA v u ca (mvrAssort useStyle m))) := by
  unfold overstatementAssorter overstatement ovA
  simp only [hs, Bool.false_eq_true, if_false, hc, bind, Except.bind, pure, Except.pure]
  rw [one_eq, two_eq, fin_sub, fin_div _ _ hu, fin_div _ _ hu, fin_sub, fin_sub, fin_div _ _ hd]

/-! ### shape of `compData` -/

theorem mapM_ok {α β : Type} (f : α → Except Err β) (g : α → β) :
    ∀ l : List α, (∀ x ∈ l, f x = .ok (g x)) → l.mapM f = .ok (l.map g) := by
  intro l
  induction l with
  | nil => intro _; rfl
  | cons a l ih =>
    intro h
    rw [List.mapM_cons, h a (by simp), ih (fun x hx => h x (by simp [hx]))]
    rfl

/-- `mvrs_to_data`'s comprehension is: zip the two samples, keep the pairs whose CVR passes the condition,
apply the overstatement assorter to each, in order (when no comparison with `None` occurs) -/
theorem compData_eq_mapM (margin : XR) (upper : Rat) (useStyle useAll : Bool) (threshold : Option Nat)
    (means : Option Means) (keep : Cvr → Bool) :
    ∀ (mvrs : List Mvr) (cvrs : List Cvr), mvrs.length ≤ cvrs.length →
      (∀ p ∈ mvrs.zip cvrs, contributes useStyle useAll threshold p.2 = .ok (keep p.2)) →
      compData margin upper useStyle useAll threshold means mvrs cvrs
        = ((mvrs.zip cvrs).filter (fun p => keep p.2)).mapM
            (fun p => overstatementAssorter margin upper useStyle means p.1 p.2) := by
  intro mvrs
  induction mvrs with
  | nil => intro cvrs _ _; simp [compData]; rfl
  | cons m ms ih =>
    intro cvrs hlen hk
    cases cvrs with
    | nil => simp at hlen
    | cons c cs =>
      have hk0 := hk (m, c) (by simp)
      have ih' := ih cs (by simpa using hlen) (fun p hp => hk p (by simp [hp]))
      simp only [compData, hk0, bind, Except.bind, pure, Except.pure]
      cases hkc : keep c
      · simp [hkc, ih']
      · simp only [if_true, List.zip_cons_cons, List.filter_cons, hkc, List.mapM_cons, ih', bind, Except.bind,
          pure, Except.pure]

end Shangrla.Overstatement
