/-
  Lemmas about the literal model of shangrla/raire/simp_assertions.py (Model/SimpAssertions.lean): the dict
  operations, the counters of `simple_IRV_assertions` expressed through the tally definitions the RAIRE theorems
  use (`nebVoteW`, `nebVoteL`, `tally`), the shape of its two result lists, and the loop of `sim_irv`.
  Core Lean only.
-/
import Shangrla.Model.SimpAssertions
import Shangrla.Lemmas.RaireSocial

namespace Shangrla.Simp
open Shangrla.Raire Shangrla.Raire.Spec

set_option linter.unusedSectionVars false

variable {α : Type} [DecidableEq α]

/-! ### dicts -/
def keys (d : List (α × Nat)) : List α := d.map (·.1)

theorem keys_dictIncr (d : List (α × Nat)) (k : α) : keys (dictIncr d k) = keys d := by
  unfold keys dictIncr
  rw [List.map_map]
  apply List.map_congr_left
  intro p _
  simp only [Function.comp]
  split <;> rfl

theorem dictGet_cons (a : α) (v : Nat) (d : List (α × Nat)) (c : α) :
    dictGet ((a, v) :: d) c = if c = a then v else dictGet d c := by
  unfold dictGet
  rw [List.lookup_cons]
  by_cases h : c = a
  · simp [h]
  · have : (c == a) = false := by simpa using h
    simp [this, h]

theorem dictGet_dictIncr (d : List (α × Nat)) (k c : α) (hc : c ∈ keys d) :
    dictGet (dictIncr d k) c = dictGet d c + (if k = c then 1 else 0) := by
  induction d with
  | nil => cases hc
  | cons p d ih =>
    obtain ⟨a, v⟩ := p
    by_cases hca : c = a
    · subst hca
      by_cases hk : c = k
      · subst hk
        simp [dictIncr, dictGet_cons]
      · have hk' : ¬ k = c := fun h => hk h.symm
        simp [dictIncr, dictGet_cons, hk, hk']
    · have hc' : c ∈ keys d := by
        simp only [keys, List.map_cons, List.mem_cons] at hc
        rcases hc with h | h
        · exact absurd h hca
        · exact h
      have := ih hc'
      simp only [dictIncr, List.map_cons] at this ⊢
      split
      · rw [dictGet_cons, dictGet_cons, if_neg hca, if_neg hca]; exact this
      · rw [dictGet_cons, dictGet_cons, if_neg hca, if_neg hca]; exact this
theorem dictGet_of_allZero (d : List (α × Nat)) (h : ∀ p ∈ d, p.2 = 0) (c : α) : dictGet d c = 0 := by
  induction d with
  | nil => rfl
  | cons p d ih =>
    obtain ⟨a, v⟩ := p
    rw [dictGet_cons]
    split
    · exact h (a, v) List.mem_cons_self
    · exact ih (fun p hp => h p (List.mem_cons_of_mem _ hp))

theorem dictInit_fold (l : List α) (d : List (α × Nat)) (hz : ∀ p ∈ d, p.2 = 0) :
    (∀ p ∈ l.foldl (fun d k => if d.any (fun p => p.1 == k) then d else d ++ [(k, 0)]) d, p.2 = 0) ∧
    ∀ c, c ∈ keys (l.foldl (fun d k => if d.any (fun p => p.1 == k) then d else d ++ [(k, 0)]) d) ↔ c ∈ keys d ∨ c ∈ l := by
  induction l generalizing d with
  | nil => exact ⟨hz, fun c => by simp⟩
  | cons k l ih =>
    simp only [List.foldl_cons]
    by_cases hk : d.any (fun p => p.1 == k) = true
    · rw [if_pos hk]
      refine ⟨(ih d hz).1, fun c => ?_⟩
      rw [(ih d hz).2 c]
      have hkd : k ∈ keys d := by
        rw [List.any_eq_true] at hk
        obtain ⟨p, hp, hpk⟩ := hk
        have : p.1 = k := by simpa using hpk
        exact this ▸ List.mem_map_of_mem hp
      constructor
      · rintro (h | h)
        · exact Or.inl h
        · exact Or.inr (List.mem_cons_of_mem _ h)
      · rintro (h | h)
        · exact Or.inl h
        · rcases List.mem_cons.1 h with rfl | h
          · exact Or.inl hkd
          · exact Or.inr h
    · rw [if_neg hk]
      have hz' : ∀ p ∈ d ++ [(k, 0)], p.2 = 0 := by
        intro p hp
        rcases List.mem_append.1 hp with h | h
        · exact hz p h
        · simp at h; rw [h]
      refine ⟨(ih _ hz').1, fun c => ?_⟩
      rw [(ih _ hz').2 c]
      simp only [keys, List.map_append, List.map_cons, List.map_nil, List.mem_append, List.mem_cons,
        List.not_mem_nil, or_false]
      constructor
      · rintro ((h | h) | h)
        · exact Or.inl h
        · exact Or.inr (Or.inl h)
        · exact Or.inr (Or.inr h)
      · rintro (h | h | h)
        · exact Or.inl (Or.inl h)
        · exact Or.inl (Or.inr h)
        · exact Or.inr h

theorem mem_keys_dictInit (l : List α) (c : α) : c ∈ keys (dictInit l) ↔ c ∈ l := by
  have := (dictInit_fold l [] (by simp)).2 c
  unfold dictInit
  rw [this]
  simp [keys]

theorem dictGet_dictInit (l : List α) (c : α) : dictGet (dictInit l) c = 0 :=
  dictGet_of_allZero _ (dictInit_fold l [] (by simp)).1 c

/-- `for c in l: if P(c): d[c] += 1` -/
def foldIncr (P : α → Bool) (l : List α) (m : List (α × Nat)) : List (α × Nat) :=
  l.foldl (fun m c => if P c then dictIncr m c else m) m

theorem keys_foldIncr (P : α → Bool) (l : List α) (m : List (α × Nat)) : keys (foldIncr P l m) = keys m := by
  induction l generalizing m with
  | nil => rfl
  | cons a l ih =>
    simp only [foldIncr, List.foldl_cons]
    split
    · exact (ih _).trans (keys_dictIncr m a)
    · exact ih _

theorem dictGet_foldIncr (P : α → Bool) (l : List α) (m : List (α × Nat)) (c : α) (hc : c ∈ keys m) :
    dictGet (foldIncr P l m) c = dictGet m c + (if P c then l.count c else 0) := by
  induction l generalizing m with
  | nil => simp [foldIncr]
  | cons a l ih =>
    simp only [foldIncr, List.foldl_cons]
    by_cases hPa : P a = true
    · rw [if_pos hPa]
      have := ih (dictIncr m a) (by rw [keys_dictIncr]; exact hc)
      simp only [foldIncr] at this
      rw [this, dictGet_dictIncr m a c hc]
      by_cases hac : a = c
      · subst hac
        simp [hPa]; omega
      · have : ¬ (a == c) = true := by simpa using hac
        simp [hac]
    · rw [if_neg hPa]
      have := ih m hc
      simp only [foldIncr] at this
      rw [this]
      by_cases hac : a = c
      · subst hac
        simp [hPa]
      · have : ¬ (a == c) = true := by simpa using hac
        simp [List.count_cons, this]

/-! ### the counters of simple_IRV_assertions -/

theorem nebVoteL_le_one (w c : α) (b : Ballot α) : nebVoteL w c (some b) ≤ 1 := by
  cases hc : ranking c b with
  | none => simp [nebVoteL, hc]
  | some li =>
    cases hw : ranking w b with
    | none => simp [nebVoteL, hc, hw]
    | some wi =>
      simp only [nebVoteL, hc, hw]
      split <;> omega

/-- a ballot that ranks `w` at position 0 mentions nobody before `w` -/
theorem nebVoteL_of_first (w c : α) (b : Ballot α) (h : ranking w b = some 0) : nebVoteL w c (some b) = 0 := by
  cases hc : ranking c b with
  | none => simp [nebVoteL, hc]
  | some li => simp [nebVoteL, hc, h]

/-- the `for c in others` loop L54-58 increments exactly the entries of the candidates the ballot counts for as
NEB losers -/
theorem mentionLoop_eq (w : α) (b : Ballot α) (others : List α) (m : List (α × Nat)) :
    mentionLoop w b others m = foldIncr (fun c => decide (nebVoteL w c (some b) = 1)) others m := by
  unfold mentionLoop foldIncr
  congr 1
  funext m c
  cases hc : ranking c b with
  | none => simp [nebVoteL, hc]
  | some ci =>
    cases hw : ranking w b with
    | none => simp [nebVoteL, hc, hw]
    | some wi =>
      by_cases h : ci < wi <;> simp [nebVoteL, hc, hw, h]

theorem ballotStep_spec (w r : α) (others : List α) (s : Counts α) (b : Ballot α) :
    (ballotStep w r others s b).wTally1 = s.wTally1 + voteForCand w others b ∧
    (ballotStep w r others s b).rTally1 = s.rTally1 + voteForCand r others b ∧
    (ballotStep w r others s b).minW2 = s.minW2 + nebVoteW w (some b) ∧
    keys (ballotStep w r others s b).maxCW2 = keys s.maxCW2 ∧
    ∀ c, c ∈ keys s.maxCW2 →
      dictGet (ballotStep w r others s b).maxCW2 c = dictGet s.maxCW2 c + others.count c * nebVoteL w c (some b) := by
  unfold ballotStep
  by_cases h : ranking w b = some 0
  · rw [if_pos h]
    refine ⟨rfl, rfl, by simp [nebVoteW, h], rfl, fun c _ => ?_⟩
    rw [nebVoteL_of_first w c b h]; simp
  · rw [if_neg h]
    refine ⟨rfl, rfl, by simp [nebVoteW, h], ?_, fun c hc => ?_⟩
    · rw [mentionLoop_eq, keys_foldIncr]
    · rw [mentionLoop_eq, dictGet_foldIncr _ _ _ _ hc]
      have := nebVoteL_le_one w c b
      by_cases h1 : nebVoteL w c (some b) = 1
      · simp [h1]
      · have h0 : nebVoteL w c (some b) = 0 := by omega
        simp [h0]

theorem countFold_spec (w r : α) (others : List α) (ballots : List (Ballot α)) (s : Counts α) :
    (ballots.foldl (ballotStep w r others) s).wTally1 = s.wTally1 + tally ballots w others ∧
    (ballots.foldl (ballotStep w r others) s).rTally1 = s.rTally1 + tally ballots r others ∧
    (ballots.foldl (ballotStep w r others) s).minW2 = s.minW2 + (ballots.map fun b => nebVoteW w (some b)).sum ∧
    keys (ballots.foldl (ballotStep w r others) s).maxCW2 = keys s.maxCW2 ∧
    ∀ c, c ∈ keys s.maxCW2 →
      dictGet (ballots.foldl (ballotStep w r others) s).maxCW2 c =
        dictGet s.maxCW2 c + others.count c * (ballots.map fun b => nebVoteL w c (some b)).sum := by
  induction ballots generalizing s with
  | nil => simp [tally]
  | cons b bs ih =>
    obtain ⟨h1, h2, h3, h4, h5⟩ := ballotStep_spec w r others s b
    obtain ⟨g1, g2, g3, g4, g5⟩ := ih (ballotStep w r others s b)
    simp only [List.foldl_cons, List.map_cons, List.sum_cons, tally] at g1 g2 g3 g4 g5 ⊢
    refine ⟨by rw [g1, h1]; omega, by rw [g2, h2]; omega, by rw [g3, h3]; omega, by rw [g4, h4], fun c hc => ?_⟩
    rw [g5 c (by rw [h4]; exact hc), h5 c hc, Nat.mul_add]
    omega

/-- **The counters are the tallies of the RAIRE assertions**: `w_tally_1`, `r_tally_1` are the NEN tallies of
`winner`, `runner_up` with `others` eliminated; `min_w_2` is the NEB winner tally; `max_c_w_2[c]` is, for every `c`
occurring once in `others`, the NEB loser tally of `c` against `winner` -/
theorem countBallots_spec (w r : α) (others : List α) (cvrs : List (Option (Ballot α))) :
    (countBallots w r others (cvrs.filterMap id)).wTally1 = tally (cvrs.filterMap id) w others ∧
    (countBallots w r others (cvrs.filterMap id)).rTally1 = tally (cvrs.filterMap id) r others ∧
    (countBallots w r others (cvrs.filterMap id)).minW2 = (cvrs.map (nebVoteW w)).sum ∧
    ∀ c, others.count c = 1 →
      dictGet (countBallots w r others (cvrs.filterMap id)).maxCW2 c = (cvrs.map (nebVoteL w c)).sum := by
  obtain ⟨g1, g2, g3, _, g5⟩ := countFold_spec w r others (cvrs.filterMap id)
    { wTally1 := 0, rTally1 := 0, minW2 := 0, maxCW2 := dictInit others }
  unfold countBallots
  refine ⟨by rw [g1]; simp, by rw [g2]; simp, ?_, fun c hc => ?_⟩
  · rw [g3, sum_cvrs_eq cvrs (nebVoteW w) rfl]; simp
  · have hmem : c ∈ others := List.count_pos_iff.1 (by omega)
    rw [g5 c ((mem_keys_dictInit others c).2 hmem), hc, sum_cvrs_eq cvrs (nebVoteL w c) rfl]
    simp [dictGet_dictInit]

/-! ### the two result lists -/

/-- the final loop L71-79 appends, in the order of `others`, a NEB assertion for every candidate whose tallies
allow it and a failure for every other one -/
theorem nebFold_spec (w : α) (s : Counts α) (l : List α) (acc : List (Assertion α Unit) × List (Failure α)) :
    l.foldl (nebStep w s) acc =
      (acc.1 ++ (l.filter fun c => decide (s.minW2 > dictGet s.maxCW2 c)).map (fun c => nebOf w c s),
       acc.2 ++ (l.filter fun c => !decide (s.minW2 > dictGet s.maxCW2 c)).map (fun c => ⟨.neb, w, c, []⟩)) := by
  induction l generalizing acc with
  | nil => simp
  | cons c l ih =>
    rw [List.foldl_cons, ih]
    unfold nebStep
    by_cases h : s.minW2 > dictGet s.maxCW2 c
    · simp [h]
    · simp [h]

/-- the counters of a run -/
abbrev countsOf (C : Contest α) (cvrs : List (Option (Ballot α))) (w r : α) : Counts α :=
  countBallots w r (othersOf C w r) (cvrs.filterMap id)

theorem simple_assertions_eq (C : Contest α) (cvrs : List (Option (Ballot α))) (w r : α) :
    (simpleIrvAssertions C cvrs w r).1 =
      (if (countsOf C cvrs w r).wTally1 > (countsOf C cvrs w r).rTally1
        then [nenOf w r (othersOf C w r) (countsOf C cvrs w r)] else []) ++
      ((othersOf C w r).filter fun c =>
          decide ((countsOf C cvrs w r).minW2 > dictGet (countsOf C cvrs w r).maxCW2 c)).map
        (fun c => nebOf w c (countsOf C cvrs w r)) := by
  unfold simpleIrvAssertions
  simp only [nebFold_spec]
  split <;> rfl

theorem simple_failed_eq (C : Contest α) (cvrs : List (Option (Ballot α))) (w r : α) :
    (simpleIrvAssertions C cvrs w r).2 =
      (if (countsOf C cvrs w r).wTally1 > (countsOf C cvrs w r).rTally1
        then [] else [⟨.nen, w, r, othersOf C w r⟩]) ++
      ((othersOf C w r).filter fun c =>
          !decide ((countsOf C cvrs w r).minW2 > dictGet (countsOf C cvrs w r).maxCW2 c)).map
        (fun c => ⟨.neb, w, c, []⟩) := by
  unfold simpleIrvAssertions
  simp only [nebFold_spec]
  split <;> rfl

theorem mem_othersOf (C : Contest α) (w r c : α) : c ∈ othersOf C w r ↔ c ∈ C.candidates ∧ c ≠ w ∧ c ≠ r := by
  simp [othersOf]

theorem nodup_othersOf (C : Contest α) (hC : C.candidates.Nodup) (w r : α) : (othersOf C w r).Nodup :=
  hC.filter _

/-! ### sim_irv -/

/-- L92-97: with `standing` duplicate-free, `tallies[c]` is the tally of `c` once `eliminated` are gone -/
theorem roundTallies_spec (ballots : List (Ballot α)) (standing elim : List α) (hnd : standing.Nodup)
    (c : α) (hc : c ∈ standing) : dictGet (roundTallies ballots standing elim) c = tally ballots c elim := by
  have key : ∀ (bs : List (Ballot α)) (t : List (α × Nat)), c ∈ keys t →
      dictGet (bs.foldl (fun t blt =>
        standing.foldl (fun t c => if voteForCand c elim blt != 0 then dictIncr t c else t) t) t) c =
      dictGet t c + tally bs c elim := by
    intro bs
    induction bs with
    | nil => intro t _; simp [tally]
    | cons b bs ih =>
      intro t ht
      have hstep : standing.foldl (fun t c => if voteForCand c elim b != 0 then dictIncr t c else t) t =
          foldIncr (fun c => voteForCand c elim b != 0) standing t := rfl
      rw [List.foldl_cons, hstep, ih _ (by rw [keys_foldIncr]; exact ht), dictGet_foldIncr _ _ _ _ ht,
        hnd.count, if_pos hc]
      have h1 := voteForCand_le_one c elim b
      simp only [tally, List.map_cons, List.sum_cons]
      by_cases h0 : voteForCand c elim b = 0
      · simp [h0]
      · have : voteForCand c elim b = 1 := by omega
        simp [this]; omega
  unfold roundTallies
  rw [key ballots _ ((mem_keys_dictInit standing c).2 hc), dictGet_dictInit]
  simp

/-- L99-105: the candidate picked is the FIRST one of `standing` whose tally is smallest -/
theorem pickMin_spec (t : List (α × Nat)) (standing : List α) (hne : standing ≠ []) :
    ∃ x p q, pickMin t standing = some (x, dictGet t x) ∧ standing = p ++ x :: q ∧
      (∀ y ∈ p, dictGet t x < dictGet t y) ∧ (∀ y ∈ q, dictGet t x ≤ dictGet t y) := by
  have key : ∀ (l seen : List α) (acc : Option (α × Nat)),
      (match acc with
        | none => seen = []
        | some (x, v) => v = dictGet t x ∧ ∃ p q, seen = p ++ x :: q ∧
            (∀ y ∈ p, dictGet t x < dictGet t y) ∧ (∀ y ∈ q, dictGet t x ≤ dictGet t y)) →
      (match l.foldl (fun (acc : Option (α × Nat)) c =>
          match acc with
          | none => some (c, dictGet t c)
          | some (_, elimtally) => if dictGet t c < elimtally then some (c, dictGet t c) else acc) acc with
        | none => seen ++ l = []
        | some (x, v) => v = dictGet t x ∧ ∃ p q, seen ++ l = p ++ x :: q ∧
            (∀ y ∈ p, dictGet t x < dictGet t y) ∧ (∀ y ∈ q, dictGet t x ≤ dictGet t y)) := by
    intro l
    induction l with
    | nil => intro seen acc h; simpa using h
    | cons c l ih =>
      intro seen acc h
      rw [List.foldl_cons]
      have hs : seen ++ c :: l = (seen ++ [c]) ++ l := by simp
      rw [hs]
      apply ih
      cases acc with
      | none =>
        simp only at h
        subst h
        exact ⟨rfl, [], [], rfl, by simp, by simp⟩
      | some xv =>
        obtain ⟨x, v⟩ := xv
        obtain ⟨hv, p, q, hseen, hp, hq⟩ := h
        subst hv
        by_cases hlt : dictGet t c < dictGet t x
        · simp only [if_pos hlt]
          refine ⟨trivial, seen, [], rfl, ?_, by simp⟩
          intro y hy
          rw [hseen] at hy
          rcases List.mem_append.1 hy with h1 | h1
          · exact Nat.lt_trans hlt (hp y h1)
          · rcases List.mem_cons.1 h1 with rfl | h1
            · exact hlt
            · exact Nat.lt_of_lt_of_le hlt (hq y h1)
        · simp only [if_neg hlt]
          refine ⟨trivial, p, q ++ [c], by rw [hseen]; simp, hp, ?_⟩
          intro y hy
          rcases List.mem_append.1 hy with h1 | h1
          · exact hq y h1
          · have : y = c := by simpa using h1
            subst this; omega
  have := key standing [] none rfl
  unfold pickMin
  revert this
  generalize List.foldl _ none standing = r
  intro this
  cases r with
  | none => simp at this; exact absurd this hne
  | some xv =>
    obtain ⟨x, v⟩ := xv
    obtain ⟨hv, p, q, h1, h2, h3⟩ := this
    subst hv
    exact ⟨x, p, q, rfl, by simpa using h1, h2, h3⟩

/-- the `while` loop terminates within `len(standing) - 1` iterations and raises nothing, whatever the candidate
list -/
theorem simLoop_total (ballots : List (Ballot α)) : ∀ (n : Nat) (standing elim : List α),
    standing.length ≤ n + 1 →
    ∃ s e, simLoop ballots n standing elim = Res.ok (s, e) ∧ s.length ≤ 1 ∧ (standing ≠ [] → s ≠ []) ∧
      e.length + s.length = elim.length + standing.length := by
  intro n
  induction n with
  | zero =>
    intro standing elim h
    have : ¬ standing.length > 1 := by omega
    exact ⟨standing, elim, by simp [simLoop, this], by omega, id, rfl⟩
  | succ n ih =>
    intro standing elim h
    by_cases hl : standing.length > 1
    · have hne : standing ≠ [] := by intro h0; rw [h0] at hl; simp at hl
      obtain ⟨x, p, q, hpick, hst, _, _⟩ := pickMin_spec (roundTallies ballots standing elim) standing hne
      have hx : x ∈ standing := by rw [hst]; simp
      have hlen : (standing.erase x).length = standing.length - 1 := List.length_erase_of_mem hx
      obtain ⟨s, e, h1, h2, h3, h4⟩ := ih (standing.erase x) (elim ++ [x]) (by omega)
      refine ⟨s, e, ?_, h2, fun _ => h3 (by intro h0; rw [h0] at hlen; simp at hlen; omega), ?_⟩
      · simp only [simLoop, if_pos hl, hpick]; exact h1
      · rw [h4, hlen]; simp; omega
    · exact ⟨standing, elim, by simp [simLoop, hl], by omega, id, rfl⟩

/-- the loop on a duplicate-free `standing`: it ends with one candidate standing; the sequence of eliminations
followed by that candidate is an arrangement of `standing` in which every candidate, at the moment it goes, has a
smallest tally among those still standing -/
theorem simLoop_spec (ballots : List (Ballot α)) : ∀ (n : Nat) (standing elim : List α),
    standing.Nodup → standing ≠ [] → standing.length ≤ n + 1 →
    ∃ order s0, simLoop ballots n standing elim = Res.ok ([s0], elim ++ order) ∧
      (order ++ [s0]).Perm standing ∧
      ∀ p x q, order ++ [s0] = p ++ x :: q → ∀ y ∈ q,
        tally ballots x (elim ++ p) ≤ tally ballots y (elim ++ p) := by
  intro n
  have base : ∀ (standing elim : List α), standing ≠ [] → ¬ standing.length > 1 →
      ∃ s0, standing = [s0] := by
    intro standing elim hne hl
    match standing, hne, hl with
    | [s0], _, _ => exact ⟨s0, rfl⟩
    | _ :: _ :: _, _, hl => simp at hl
  have fin : ∀ (s0 : α) (elim : List α) (p : List α) (x : α) (q : List α), [] ++ [s0] = p ++ x :: q → ∀ y ∈ q,
      tally ballots x (elim ++ p) ≤ tally ballots y (elim ++ p) := by
    intro s0 elim p x q h y hy
    have hlen := congrArg List.length h
    simp at hlen
    have : q = [] := List.eq_nil_of_length_eq_zero (by omega)
    rw [this] at hy; cases hy
  induction n with
  | zero =>
    intro standing elim _ hne h
    have hl : ¬ standing.length > 1 := by omega
    obtain ⟨s0, rfl⟩ := base standing elim hne hl
    exact ⟨[], s0, by simp [simLoop], List.Perm.refl _, fin s0 elim⟩
  | succ n ih =>
    intro standing elim hnd hne h
    by_cases hl : standing.length > 1
    · obtain ⟨x, p, q, hpick, hst, _, _⟩ := pickMin_spec (roundTallies ballots standing elim) standing hne
      have hx : x ∈ standing := by rw [hst]; simp
      have hmin : ∀ y ∈ standing, tally ballots x elim ≤ tally ballots y elim := by
        intro y hy
        rw [← roundTallies_spec ballots standing elim hnd x hx, ← roundTallies_spec ballots standing elim hnd y hy]
        obtain ⟨x', p', q', hpick', hst', hp', hq'⟩ :=
          pickMin_spec (roundTallies ballots standing elim) standing hne
        rw [hpick] at hpick'
        have hxx : x = x' := by injection hpick' with h1; exact (Prod.mk.inj h1).1
        subst hxx
        rw [hst'] at hy
        rcases List.mem_append.1 hy with h1 | h1
        · exact Nat.le_of_lt (hp' y h1)
        · rcases List.mem_cons.1 h1 with rfl | h1
          · exact Nat.le_refl _
          · exact hq' y h1
      have hlen : (standing.erase x).length = standing.length - 1 := List.length_erase_of_mem hx
      have hne' : standing.erase x ≠ [] := by intro h0; rw [h0] at hlen; simp at hlen; omega
      obtain ⟨order, s0, h1, h2, h3⟩ := ih (standing.erase x) (elim ++ [x]) (hnd.erase x) hne' (by omega)
      refine ⟨x :: order, s0, ?_, ?_, ?_⟩
      · simp only [simLoop, if_pos hl, hpick]
        rw [h1]; simp
      · exact (List.Perm.cons x h2).trans (List.perm_cons_erase hx).symm
      · intro p' z q' hsplit y hy
        cases p' with
        | nil =>
          simp only [List.cons_append, List.nil_append, List.cons.injEq] at hsplit
          obtain ⟨rfl, rfl⟩ := hsplit
          simp only [List.append_nil]
          exact hmin y (List.mem_of_mem_erase (h2.mem_iff.1 hy))
        | cons x' p' =>
          simp only [List.cons_append, List.cons.injEq] at hsplit
          obtain ⟨rfl, hsplit⟩ := hsplit
          have := h3 p' z q' hsplit y hy
          simpa using this
    · obtain ⟨s0, rfl⟩ := base standing elim hne hl
      exact ⟨[], s0, by simp [simLoop], List.Perm.refl _, fin s0 elim⟩

end Shangrla.Simp
