/-
  The social-choice lemma behind C04's "in particular" clause: an elimination order that is a possible
  IRV count of the ballots is contradicted by no true NEB/NEN assertion.  Independent of the search.
  Core Lean only.
-/
import Shangrla.Lemmas.RaireSpec

namespace Shangrla.Raire
open Spec

set_option linter.unusedSectionVars false

variable {α : Type} [DecidableEq α]

theorem sum_map_le {β : Type} (l : List β) (f g : β → Nat) (h : ∀ x ∈ l, f x ≤ g x) :
    (l.map f).sum ≤ (l.map g).sum := by
  induction l with
  | nil => simp
  | cons a l ih =>
    simp only [List.map_cons, List.sum_cons]
    have h1 := h a List.mem_cons_self
    have h2 := ih (fun x hx => h x (List.mem_cons_of_mem _ hx))
    omega

theorem nodup_map_inj {β γ : Type} {f : β → γ} {l : List β} (h : (l.map f).Nodup) {x y : β}
    (hx : x ∈ l) (hy : y ∈ l) (hf : f x = f y) : x = y := by
  induction l with
  | nil => cases hx
  | cons a l ih =>
    simp only [List.map_cons, List.nodup_cons, List.mem_map, not_exists, not_and] at h
    simp only [List.mem_cons] at hx hy
    rcases hx with rfl | hx <;> rcases hy with rfl | hy
    · rfl
    · exact absurd hf.symm (h.1 y hy)
    · exact absurd hf (h.1 x hx)
    · exact ih h.2 hx hy

theorem mem_of_lookup {β : Type} {b : List (α × β)} {c : α} {i : β} (h : b.lookup c = some i) : (c, i) ∈ b := by
  obtain ⟨l1, l2, rfl, _⟩ := List.lookup_eq_some_iff.1 h
  simp

/-- the NEB/NEN vote of a card that lacks the contest is 0: sums over cards = sums over ballots -/
theorem sum_cvrs_eq (cvrs : List (Option (Ballot α))) (f : Option (Ballot α) → Nat) (h0 : f none = 0) :
    (cvrs.map f).sum = ((cvrs.filterMap id).map fun b => f (some b)).sum := by
  induction cvrs with
  | nil => rfl
  | cons x l ih =>
    cases x with
    | none => simp [h0, ih]
    | some b => simp [ih]

/-- `vote_for_cand` reads `eliminated` only through membership -/
theorem voteForCand_congr (c : α) {E E' : List α} (h : ∀ y, y ∈ E ↔ y ∈ E') (b : Ballot α) :
    voteForCand c E b = voteForCand c E' b := by
  have hc : ∀ y, E.contains y = E'.contains y := by
    intro y
    rw [Bool.eq_iff_iff, List.contains_iff_mem, List.contains_iff_mem]; exact h y
  unfold voteForCand
  simp only [hc]

theorem tally_congr (ballots : List (Ballot α)) (c : α) {E E' : List α} (h : ∀ y, y ∈ E ↔ y ∈ E') :
    tally ballots c E = tally ballots c E' := by
  unfold tally
  congr 1
  apply List.map_congr_left
  intro b _
  exact voteForCand_congr c h b

theorem voteForCand_le_one (c : α) (E : List α) (b : Ballot α) : voteForCand c E b ≤ 1 := by
  unfold voteForCand
  split
  · omega
  · split
    · omega
    · split <;> omega

/-- a first preference for `w` is a vote for `w` at every round where `w` is standing -/
theorem nebVoteW_le (w : α) (E : List α) (hw : w ∉ E) (b : Ballot α) :
    nebVoteW w (some b) ≤ voteForCand w E b := by
  unfold nebVoteW voteForCand
  have : E.contains w = false := by simpa using hw
  simp only [this]
  split
  · rename_i h
    simp [h]
  · omega

/-- a vote for `l` at a round where `w` is standing mentions `l` and not `w` before it -/
theorem voteForCand_le_nebVoteL (w l : α) (hne : w ≠ l) (E : List α) (hw : w ∉ E) (b : Ballot α)
    (hwf : BallotWF b) : voteForCand l E b ≤ nebVoteL w l (some b) := by
  have hE : E.contains w = false := by simpa using hw
  cases hl : ranking l b with
  | none => simp [voteForCand, hl]
  | some li =>
    cases hwr : ranking w b with
    | none =>
      simp only [nebVoteL, hl, hwr]
      exact voteForCand_le_one l E b
    | some wi =>
      simp only [voteForCand, nebVoteL, hl, hwr]
      split
      · omega
      · split
        · omega
        · rename_i hany
          have hmw : (w, wi) ∈ b := mem_of_lookup hwr
          have hml : (l, li) ∈ b := mem_of_lookup hl
          have h1 : ¬ wi < li := by
            intro hlt
            apply hany
            rw [List.any_eq_true]
            refine ⟨(w, wi), hmw, ?_⟩
            simp only [hE, Bool.not_false, Bool.and_true, decide_eq_true_eq, Bool.and_eq_true,
              Bool.not_eq_true', beq_eq_false_iff_ne, ne_eq]
            exact ⟨hne, hlt⟩
          have h2 : wi ≠ li := by
            intro he
            have := nodup_map_inj hwf.2 hmw hml he
            exact hne (congrArg Prod.fst this)
          have : li < wi := by omega
          rw [if_pos this]
          omega

/-- **Social-choice lemma.** If `π` is a possible IRV count of well-formed ballots, then no NEB or NEN
comparison that would contradict `π` has a strictly larger winner tally. -/
theorem valid_not_contradicted (cvrs : List (Option (Ballot α)))
    (hwf : ∀ b ∈ cvrs.filterMap id, BallotWF b) (π : List α) (hnd : π.Nodup)
    (hv : validIRV (cvrs.filterMap id) π) (k : Kind) (w l : α) (E : List α) (hc : contra k w l E π) :
    (tallies cvrs k w l E).1 ≤ (tallies cvrs k w l E).2 := by
  cases k with
  | neb =>
    obtain ⟨pre, post, rfl, hl⟩ := hc
    have hwpre : w ∉ pre := fun h => (List.nodup_append.1 hnd).2.2 w h w List.mem_cons_self rfl
    have hwpost : w ∉ post := (List.nodup_cons.1 (List.nodup_append.1 hnd).2.1).1
    have hne : w ≠ l := fun h => hwpost (h ▸ hl)
    have h1 := hv pre w post rfl l hl
    simp only [tallies]
    rw [sum_cvrs_eq cvrs (nebVoteW w) rfl, sum_cvrs_eq cvrs (nebVoteL w l) rfl]
    have ha : ((cvrs.filterMap id).map fun b => nebVoteW w (some b)).sum ≤ tally (cvrs.filterMap id) w pre :=
      sum_map_le _ _ _ (fun b _ => nebVoteW_le w pre hwpre b)
    have hb : tally (cvrs.filterMap id) l pre ≤ ((cvrs.filterMap id).map fun b => nebVoteL w l (some b)).sum :=
      sum_map_le _ _ _ (fun b hb => voteForCand_le_nebVoteL w l hne pre hwpre b (hwf b hb))
    omega
  | nen =>
    obtain ⟨pre, post, rfl, hE, hl⟩ := hc
    have h1 := hv pre w post rfl l hl
    simp only [tallies]
    rw [tally_congr _ w hE, tally_congr _ l hE]
    exact h1

/-- no member of the family of true assertions contradicts a possible IRV count -/
theorem valid_not_contradicted_fam {D : Type} (asn : Nat → Nat → Nat → Nat → D) (C : Contest α)
    (cvrs : List (Option (Ballot α))) (hwf : ∀ b ∈ cvrs.filterMap id, BallotWF b) (π : List α)
    (hnd : π.Nodup) (hv : validIRV (cvrs.filterMap id) π) (a : Assertion α D) (ha : Fam asn C cvrs a) :
    ¬ contradicts a π := by
  intro hc
  have := valid_not_contradicted cvrs hwf π hnd hv a.kind a.winner a.loser a.eliminated hc
  obtain ⟨_, _, _, _, ⟨h1, h2, h3⟩, _⟩ := ha
  omega

end Shangrla.Raire
