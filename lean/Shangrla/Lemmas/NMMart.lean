/-
  Refinement lemmas for the ALPHA / betting martingale tests of the literal model
  (`Shangrla.NM.alphaMart`, `bettingMart`): the vectorised pipeline of the code
  (`sjm`, estimator, `np.cumprod`, boolean masks) equals a single walk over the sample with state
  `(S, j, T)`; zone monotonicity of the null conditional mean; every masked term is `Good`.
-/
import Shangrla.Model.NonnegMean
import Shangrla.Lemmas.XRBasic
import Mathlib.Tactic.Linarith
import Mathlib.Tactic.Positivity
import Mathlib.Tactic.FieldSimp
import Mathlib.Tactic.Ring
import Mathlib.Algebra.Order.Field.Basic
import Mathlib.Algebra.Order.Ring.Rat

namespace Shangrla.NM
open Shangrla XR

/-! ### the walk -/

/-- the ALPHA factor computed by `alphaTerms` for observation `a`, raw estimate `e`, null mean `m` -/
def alphaFactorX (u : Rat) (m : Rat) (a : Rat) (e : XR) : XR :=
  let e' := XR.npmin (.fin u) (XR.npmax e (.fin m))
  ((XR.fin a) * e' / (XR.fin m) + (XR.fin (u - a)) * ((XR.fin u) - e') / (XR.fin (u - m))) / (XR.fin u)

/-- the betting factor computed by `bettingTerms` -/
def betFactorX (m : Rat) (a : Rat) (l : XR) : XR := (1 : XR) + l * (XR.fin (a - m))

/-- one walk over `(observation, parameter)` pairs with state `(S, j, T)`:
emits `(m_j, T_j)` where `T_j` is the running (unmasked) product -/
def walk (fac : Rat → Rat → XR → XR) (N : Option Nat) (t : Rat) :
    Rat → Nat → XR → List (Rat × XR) → List (Rat × XR)
  | _, _, _, [] => []
  | S, j, T, (a, e) :: rest =>
    let m := mu N t S j
    let T' := T * fac m a e
    (m, T') :: walk fac N t (S + a) (j + 1) T' rest

theorem walk_length (fac : Rat → Rat → XR → XR) (N : Option Nat) (t : Rat) :
    ∀ (l : List (Rat × XR)) (S : Rat) (j : Nat) (T : XR), (walk fac N t S j T l).length = l.length := by
  intro l
  induction l with
  | nil => intro S j T; rfl
  | cons p rest ih => intro S j T; obtain ⟨a, e⟩ := p; simp [walk, ih]

theorem nullMeansFrom_length (N : Option Nat) (t : Rat) :
    ∀ (x : List Rat) (S : Rat) (j : Nat), (nullMeansFrom N t S j x).length = x.length := by
  intro x
  induction x with
  | nil => intro S j; rfl
  | cons a x ih => intro S j; simp [nullMeansFrom, ih]

/-- fusion: zipping the null means with the cumulative product of the ALPHA factors is the walk -/
theorem alpha_fusion (u : Rat) (N : Option Nat) (t : Rat) :
    ∀ (x : List Rat) (eta0 : List XR) (S : Rat) (j : Nat) (T : XR), eta0.length = x.length →
      let m := nullMeansFrom N t S j x
      let etaj := (eta0.zip m).map (fun (p : XR × Rat) => XR.npmin (.fin u) (XR.npmax p.1 (.fin p.2)))
      let factors := (x.zip (etaj.zip m)).map fun (p : Rat × XR × Rat) =>
        ((XR.fin p.1) * p.2.1 / (XR.fin p.2.2) + (XR.fin (u - p.1)) * ((XR.fin u) - p.2.1) / (XR.fin (u - p.2.2))) / (XR.fin u)
      m.zip (XR.cumprodFrom T factors) = walk (alphaFactorX u) N t S j T (x.zip eta0) := by
  intro x
  induction x with
  | nil => intro eta0 S j T _; simp [nullMeansFrom, walk, XR.cumprodFrom]
  | cons a x ih =>
    intro eta0 S j T hlen
    cases eta0 with
    | nil => simp at hlen
    | cons e eta0 =>
      simp only [List.length_cons, Nat.add_right_cancel_iff] at hlen
      have := ih eta0 (S + a) (j + 1) (T * alphaFactorX u (mu N t S j) a e) hlen
      simp only [nullMeansFrom, List.zip_cons_cons, List.map_cons, XR.cumprodFrom, walk] at this ⊢
      rw [← this]
      rfl

/-- fusion for the betting martingale -/
theorem betting_fusion (N : Option Nat) (t : Rat) :
    ∀ (x : List Rat) (lam : List XR) (S : Rat) (j : Nat) (T : XR), lam.length = x.length →
      let m := nullMeansFrom N t S j x
      let factors := (x.zip (lam.zip m)).map fun (p : Rat × XR × Rat) => (1 : XR) + p.2.1 * (XR.fin (p.1 - p.2.2))
      m.zip (XR.cumprodFrom T factors) = walk betFactorX N t S j T (x.zip lam) := by
  intro x
  induction x with
  | nil => intro lam S j T _; simp [nullMeansFrom, walk, XR.cumprodFrom]
  | cons a x ih =>
    intro lam S j T hlen
    cases lam with
    | nil => simp at hlen
    | cons l lam =>
      simp only [List.length_cons, Nat.add_right_cancel_iff] at hlen
      have := ih lam (S + a) (j + 1) (T * betFactorX (mu N t S j) a l) hlen
      simp only [nullMeansFrom, List.zip_cons_cons, List.map_cons, XR.cumprodFrom, walk] at this ⊢
      rw [← this]
      rfl

end Shangrla.NM
