/-
  Refinement lemmas for the ALPHA / betting martingale tests of the literal model
  (`Shangrla.NM.alphaMart`, `bettingMart`): the vectorised pipeline of the code
  (`sjm`, estimator, `np.cumprod`, boolean masks) equals a single walk over the sample with state
  `(S, j, T)`; zone monotonicity of the null conditional mean; every masked term is `Good`.
-/
import Shangrla.Model.NonnegMean
import Shangrla.Lemmas.XRBasic
import Mathlib.Tactic.Linarith
import Mathlib.Tactic.Positivity
import Mathlib.Tactic.FieldSimp
import Mathlib.Tactic.Ring
import Mathlib.Algebra.Order.Field.Basic
import Mathlib.Algebra.Order.Ring.Rat

namespace Shangrla.NM
open Shangrla XR

/-! ### the walk -/

/-- the ALPHA factor computed by `alphaTerms` for observation `a`, raw estimate `e`, null mean `m` -/
def alphaFactorX (u : Rat) (m : Rat) (a : Rat) (e : XR) : XR :=
  let e' := XR.npmin (.fin u) (XR.npmax e (.fin m))
  ((XR.fin a) * e' / (XR.fin m) + (XR.fin (u - a)) * ((XR.fin u) - e') / (XR.fin (u - m))) / (XR.fin u)

/-- the betting factor computed by `bettingTerms` -/
def betFactorX (m : Rat) (a : Rat) (l : XR) : XR := (1 : XR) + l * (XR.fin (a - m))

/-- one walk over `(observation, parameter)` pairs with state `(S, j, T)`:
emits `(m_j, T_j)` where `T_j` is the running (unmasked) product -/
def walk (fac : Rat → Rat → XR → XR) (N : Option Nat) (t : Rat) :
    Rat → Nat → XR → List (Rat × XR) → List (Rat × XR)
  | _, _, _, [] => []
  | S, j, T, (a, e) :: rest =>
    let m := mu N t S j
    let T' := T * fac m a e
    (m, T') :: walk fac N t (S + a) (j + 1) T' rest

theorem walk_length (fac : Rat → Rat → XR → XR) (N : Option Nat) (t : Rat) :
    ∀ (l : List (Rat × XR)) (S : Rat) (j : Nat) (T : XR), (walk fac N t S j T l).length = l.length := by
  intro l
  induction l with
  | nil => intro S j T; rfl
  | cons p rest ih => intro S j T; obtain ⟨a, e⟩ := p; simp [walk, ih]

theorem nullMeansFrom_length (N : Option Nat) (t : Rat) :
    ∀ (x : List Rat) (S : Rat) (j : Nat), (nullMeansFrom N t S j x).length = x.length := by
  intro x
  induction x with
  | nil => intro S j; rfl
  | cons a x ih => intro S j; simp [nullMeansFrom, ih]

/-- fusion: zipping the null means with the cumulative product of the ALPHA factors is the walk -/
theorem alpha_fusion (u : Rat) (N : Option Nat) (t : Rat) :
    ∀ (x : List Rat) (eta0 : List XR) (S : Rat) (j : Nat) (T : XR), eta0.length = x.length →
      let m := nullMeansFrom N t S j x
      let etaj := (eta0.zip m).map (fun (p : XR × Rat) => XR.npmin (.fin u) (XR.npmax p.1 (.fin p.2)))
      let factors := (x.zip (etaj.zip m)).map fun (p : Rat × XR × Rat) =>
        ((XR.fin p.1) * p.2.1 / (XR.fin p.2.2) + (XR.fin (u - p.1)) * ((XR.fin u) - p.2.1) / (XR.fin (u - p.2.2))) / (XR.fin u)
      m.zip (XR.cumprodFrom T factors) = walk (alphaFactorX u) N t S j T (x.zip eta0) := by
  intro x
  induction x with
  | nil => intro eta0 S j T _; simp [nullMeansFrom, walk, XR.cumprodFrom]
  | cons a x ih =>
    intro eta0 S j T hlen
    cases eta0 with
    | nil => simp at hlen
    | cons e eta0 =>
      simp only [List.length_cons, Nat.add_right_cancel_iff] at hlen
      have := ih eta0 (S + a) (j + 1) (T * alphaFactorX u (mu N t S j) a e) hlen
      simp only [nullMeansFrom, List.zip_cons_cons, List.map_cons, XR.cumprodFrom, walk] at this ⊢
      rw [← this]
      rfl

/-- fusion for the betting martingale -/
theorem betting_fusion (N : Option Nat) (t : Rat) :
    ∀ (x : List Rat) (lam : List XR) (S : Rat) (j : Nat) (T : XR), lam.length = x.length →
      let m := nullMeansFrom N t S j x
      let factors := (x.zip (lam.zip m)).map fun (p : Rat × XR × Rat) => (1 : XR) + p.2.1 * (XR.fin (p.1 - p.2.2))
      m.zip (XR.cumprodFrom T factors) = walk betFactorX N t S j T (x.zip lam) := by
  intro x
  induction x with
  | nil => intro lam S j T _; simp [nullMeansFrom, walk, XR.cumprodFrom]
  | cons a x ih =>
    intro lam S j T hlen
    cases lam with
    | nil => simp at hlen
    | cons l lam =>
      simp only [List.length_cons, Nat.add_right_cancel_iff] at hlen
      have := ih lam (S + a) (j + 1) (T * betFactorX (mu N t S j) a l) hlen
      simp only [nullMeansFrom, List.zip_cons_cons, List.map_cons, XR.cumprodFrom, walk] at this ⊢
      rw [← this]
      rfl

/-! ### zones of the null conditional mean -/

/-- "strictly inside so far": both numerators of the null mean at state `(S, j)` are positive,
i.e. `0 < N t - S` and `N t - S < (N - j + 1) u`; for infinite `N` simply `0 < t < u` -/
def Zst (N : Option Nat) (t u S : Rat) (j : Nat) : Prop :=
  match N with
  | none => 0 < t ∧ t < u
  | some n => 0 < (n : Rat) * t - S ∧ 0 < ((n : Rat) - (j : Rat) + 1) * u - ((n : Rat) * t - S)

/-- draws remaining (including the current one) is positive -/
def Room (N : Option Nat) (j : Nat) (k : Nat) : Prop :=
  match N with
  | none => True
  | some n => j + k ≤ n + 1

theorem Zst_iff_mu {N : Option Nat} {t u S : Rat} {j : Nat} (hroom : Room N j 1) :
    Zst N t u S j ↔ 0 < mu N t S j ∧ mu N t S j < u := by
  cases N with
  | none => simp [Zst, mu]
  | some n =>
    simp only [Room] at hroom
    have hD : (0 : Rat) < (n : Rat) - (j : Rat) + 1 := by
      have : (j : Rat) ≤ (n : Rat) := by exact_mod_cast (by omega : j ≤ n)
      linarith
    simp only [Zst, mu]
    constructor
    · rintro ⟨h1, h2⟩
      refine ⟨div_pos h1 hD, ?_⟩
      rw [div_lt_iff₀ hD]; linarith
    · rintro ⟨h1, h2⟩
      have hA : 0 < (n : Rat) * t - S := by
        by_contra hneg
        simp only [not_lt] at hneg
        have := div_nonpos_of_nonpos_of_nonneg hneg hD.le
        linarith
      refine ⟨hA, ?_⟩
      rw [div_lt_iff₀ hD] at h2; linarith

theorem Zst_step {N : Option Nat} {t u S a : Rat} {j : Nat} (h0 : 0 ≤ a) (hu : a ≤ u)
    (h : Zst N t u (S + a) (j + 1)) : Zst N t u S j := by
  cases N with
  | none => exact h
  | some n =>
    simp only [Zst] at h ⊢
    obtain ⟨h1, h2⟩ := h
    push_cast at h2
    constructor
    · linarith
    · nlinarith

/-! ### every masked term is good -/

theorem isclose_self_zero (rtol atol : Rat) (hat : 0 ≤ atol) :
    XR.isclose (0 : XR) (.fin 0) rtol atol = true := by
  simp [XR.isclose, hat]

theorem isclose_self (u rtol atol : Rat) (hat : 0 ≤ atol) (hrt : 0 ≤ rtol) :
    XR.isclose (.fin u) (.fin u) rtol atol = true := by
  simp only [XR.isclose, sub_self, lt_self_iff_false, ↓reduceIte, decide_eq_true_eq]
  have : 0 ≤ rtol * (if u < 0 then -u else u) := by
    apply mul_nonneg hrt
    split <;> linarith
  linarith

theorem good_mask_zeroclose (T : XR) (atol : Rat) (h : Good T) :
    Good (if XR.isclose (0 : XR) T (1 / 100000) atol then (1 : XR) else T) := by
  split
  · exact good_one
  · exact h

/-- the four masks and `m < 0` turn every term into a good one, provided the raw running product is
good wherever the null mean is strictly inside `(0, u)` -/
theorem maskTerm_good (u atol rtol m : Rat) (T : XR) (hat : 0 ≤ atol) (hrt : 0 ≤ rtol)
    (h : 0 < m → m < u → Good T) : Good (maskTerm u atol rtol m T) := by
  unfold maskTerm maskTermX
  simp only [XR.lt_fin, XR.zero_def, decide_eq_true_eq]
  by_cases hneg : m < 0
  · rw [if_pos hneg]; exact good_pinf
  · rw [if_neg hneg]
    apply good_mask_zeroclose
    by_cases hcu : XR.isclose (.fin u) (.fin m) rtol atol = true
    · rw [if_pos hcu]; exact good_one
    · rw [if_neg hcu]
      by_cases hc0 : XR.isclose (.fin 0) (.fin m) (1 / 100000) atol = true
      · rw [if_pos hc0]; exact good_one
      · rw [if_neg hc0]
        by_cases hgt : u < m
        · rw [if_pos hgt]; exact good_zero
        · rw [if_neg hgt]
          have hm0 : m ≠ 0 := by
            intro h0; subst h0
            exact hc0 (isclose_self_zero _ _ hat)
          have hmu : m ≠ u := by
            intro h0; subst h0
            exact hcu (isclose_self _ _ _ hat hrt)
          simp only [not_lt] at hneg hgt
          exact h (lt_of_le_of_ne hneg (Ne.symm hm0)) (lt_of_le_of_ne hgt hmu)

/-- the parameters along the walk are acceptable for the factor at their own null mean -/
def OkWalk (ok : Rat → Rat → XR → Prop) (u : Rat) (N : Option Nat) (t : Rat) :
    Rat → Nat → List (Rat × XR) → Prop
  | _, _, [] => True
  | S, j, (a, e) :: rest =>
    ok (mu N t S j) a e ∧ 0 ≤ a ∧ a ≤ u ∧ OkWalk ok u N t (S + a) (j + 1) rest

/-- **invariant of the walk**: wherever the null mean is strictly inside `(0,u)`, the running product
is a non-negative rational — provided it was so at the start and every factor is non-negative
at the indices that are strictly inside -/
theorem walk_good (fac : Rat → Rat → XR → XR) (ok : Rat → Rat → XR → Prop) (u : Rat)
    (N : Option Nat) (t : Rat)
    (hfac : ∀ m a e, ok m a e → 0 < m → m < u → 0 ≤ a → a ≤ u → ∃ q : Rat, 0 ≤ q ∧ fac m a e = .fin q) :
    ∀ (l : List (Rat × XR)) (S : Rat) (j : Nat) (T : XR),
      OkWalk ok u N t S j l → Room N j l.length →
      (Zst N t u S j → ∃ q : Rat, 0 ≤ q ∧ T = .fin q) →
      ∀ p ∈ walk fac N t S j T l, 0 < p.1 → p.1 < u → ∃ q : Rat, 0 ≤ q ∧ p.2 = .fin q := by
  intro l
  induction l with
  | nil => intro S j T _ _ _ p hp; simp [walk] at hp
  | cons hd rest ih =>
    intro S j T hok hroom hT p hp
    obtain ⟨a, e⟩ := hd
    simp only [OkWalk] at hok
    obtain ⟨hoke, ha0, hau, hrest⟩ := hok
    have hroom1 : Room N j 1 := by
      cases N with
      | none => trivial
      | some n => simp only [Room, List.length_cons] at hroom ⊢; omega
    -- the product after this step is a non-negative rational whenever this state is inside
    have hstep : Zst N t u S j → ∃ q : Rat, 0 ≤ q ∧ T * fac (mu N t S j) a e = .fin q := by
      intro hz
      obtain ⟨q, hq, rfl⟩ := hT hz
      obtain ⟨hm0, hmu⟩ := (Zst_iff_mu hroom1).1 hz
      obtain ⟨f, hf, hfe⟩ := hfac _ _ _ hoke hm0 hmu ha0 hau
      exact ⟨q * f, mul_nonneg hq hf, by rw [hfe, XR.fin_mul]⟩
    simp only [walk, List.mem_cons] at hp
    rcases hp with rfl | hp
    · intro hm0 hmu
      exact hstep ((Zst_iff_mu hroom1).2 ⟨hm0, hmu⟩)
    · apply ih (S + a) (j + 1) _ hrest _ _ p hp
      · cases N with
        | none => trivial
        | some n => simp only [Room, List.length_cons] at hroom ⊢; omega
      · intro hz
        exact hstep (Zst_step ha0 hau hz)

/-! ### the factors are non-negative rationals strictly inside `(0,u)` -/

theorem npmax_fin (a b : Rat) : XR.npmax (.fin a) (.fin b) = .fin (max a b) := by
  simp only [XR.npmax, XR.isNan_fin, Bool.or_self, Bool.false_eq_true, ↓reduceIte, XR.lt_fin, decide_eq_true_eq]
  by_cases h : a < b
  · rw [if_pos h, max_eq_right h.le]
  · rw [if_neg h, max_eq_left (not_lt.mp h)]

theorem npmin_fin (a b : Rat) : XR.npmin (.fin a) (.fin b) = .fin (min a b) := by
  simp only [XR.npmin, XR.isNan_fin, Bool.or_self, Bool.false_eq_true, ↓reduceIte, XR.lt_fin, decide_eq_true_eq]
  by_cases h : b < a
  · rw [if_pos h, min_eq_right h.le]
  · rw [if_neg h, min_eq_left (not_lt.mp h)]

/-- the ALPHA factor as a rational function -/
def alphaFactorQ (u m a c : Rat) : Rat := (a * c / m + (u - a) * (u - c) / (u - m)) / u

theorem alphaFactorX_fin (u m a q : Rat) (hm0 : 0 < m) (hmu : m < u) :
    alphaFactorX u m a (.fin q) = .fin (alphaFactorQ u m a (min u (max q m))) := by
  have hu : u ≠ 0 := by linarith
  have hm : m ≠ 0 := ne_of_gt hm0
  have hum : u - m ≠ 0 := by linarith
  unfold alphaFactorX alphaFactorQ
  simp only [npmax_fin, npmin_fin, XR.fin_mul, XR.fin_sub]
  rw [XR.fin_div _ _ hm, XR.fin_div _ _ hum, XR.fin_add, XR.fin_div _ _ hu]

theorem alphaFactorQ_nonneg (u m a c : Rat) (hm0 : 0 < m) (hmu : m < u) (ha0 : 0 ≤ a) (hau : a ≤ u)
    (hc0 : 0 ≤ c) (hcu : c ≤ u) : 0 ≤ alphaFactorQ u m a c := by
  unfold alphaFactorQ
  have hu : 0 < u := by linarith
  have hum : 0 < u - m := by linarith
  apply div_nonneg _ hu.le
  apply add_nonneg
  · exact div_nonneg (mul_nonneg ha0 hc0) hm0.le
  · exact div_nonneg (mul_nonneg (by linarith) (by linarith)) hum.le

theorem clip_range (u m q : Rat) (hmu : m < u) : m ≤ min u (max q m) ∧ min u (max q m) ≤ u :=
  ⟨le_min hmu.le (le_max_right _ _), min_le_left _ _⟩

/-- what `alpha_mart` needs of the raw estimate: it is a finite number -/
def okAlpha (_m _a : Rat) (e : XR) : Prop := ∃ q : Rat, e = .fin q

theorem alpha_fac_good (u : Rat) : ∀ m a e, okAlpha m a e → 0 < m → m < u → 0 ≤ a → a ≤ u →
    ∃ q : Rat, 0 ≤ q ∧ alphaFactorX u m a e = .fin q := by
  rintro m a e ⟨q, rfl⟩ hm0 hmu ha0 hau
  refine ⟨_, ?_, alphaFactorX_fin u m a q hm0 hmu⟩
  obtain ⟨h1, h2⟩ := clip_range u m q hmu
  exact alphaFactorQ_nonneg u m a _ hm0 hmu ha0 hau (by linarith) h2

/-- what `betting_mart` needs of the bet: a finite number in `[0, 1/m]` wherever `m > 0` -/
def okBet (m _a : Rat) (e : XR) : Prop := ∃ l : Rat, e = .fin l ∧ 0 ≤ l ∧ (0 < m → l * m ≤ 1)

theorem bet_fac_good (u : Rat) : ∀ m a e, okBet m a e → 0 < m → m < u → 0 ≤ a → a ≤ u →
    ∃ q : Rat, 0 ≤ q ∧ betFactorX m a e = .fin q := by
  rintro m a e ⟨l, rfl, hl0, hl1⟩ hm0 _ ha0 _
  refine ⟨1 + l * (a - m), ?_, ?_⟩
  · have := hl1 hm0
    nlinarith [mul_nonneg hl0 ha0]
  · unfold betFactorX
    simp [XR.fin_mul, XR.fin_add]

end Shangrla.NM
