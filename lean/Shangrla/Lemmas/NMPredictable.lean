/-
  From non-anticipation to *predictable form*: an estimator / bet that is strictly causal, returns one
  finite value per observation and does not raise on valid samples is of the form
  `x ↦ [g [], g [x₁], g [x₁,x₂], …]` for an explicit `g : history → ℚ`.
  This is the bridge from the C05 / C13 theorems about the shipped estimators to the hypotheses of the
  C01 theorems.
-/
import Shangrla.Props.C05
import Shangrla.Lemmas.NMProcess

namespace Shangrla.NM
open Shangrla XR Shangrla.C05

/-- the rational value of a finite `XR`, `0` otherwise -/
def XR.toQ : XR → ℚ
  | .fin q => q
  | _ => 0

/-- the parameter applied after history `h`, read off the call on `h ++ [0]` -/
def gOf (f : List ℚ → Except Err (List XR)) (valid : List ℚ → Prop) [DecidablePred valid] (h : List ℚ) : ℚ :=
  if valid (h ++ [0]) then
    match f (h ++ [0]) with
    | .ok L => XR.toQ (L.getD h.length .nan)
    | .error _ => 0
  else 0

theorem predictable_of_causal (f : List ℚ → Except Err (List XR)) (valid : List ℚ → Prop)
    [DecidablePred valid]
    (hsc : StrictlyCausalE f) (hlp : LenPresE f)
    (hok : ∀ x, valid x → ∃ L, f x = .ok L ∧ ∀ e ∈ L, ∃ q : ℚ, e = .fin q)
    (hpre : ∀ (x : List ℚ) (i : Nat), valid x → i < x.length → valid (x.take i ++ [0]))
    (x : List ℚ) (hx : valid x) :
    f x = .ok ((params (gOf f valid) x).map XR.fin) := by
  obtain ⟨L, hL, hfin⟩ := hok x hx
  rw [hL]
  congr 1
  have hlen : L.length = x.length := hlp x L hL
  apply List.ext_getElem
  · simp [params_length, hlen]
  · intro i h1 h2
    have hi : i < x.length := by rw [← hlen]; exact h1
    simp only [List.getElem_map, params, List.getElem_range]
    -- compare with the call on `x.take i ++ [0]`
    have hv := hpre x i hx hi
    obtain ⟨L2, hL2, _⟩ := hok _ hv
    have hsplit : x = x.take i ++ x.drop i := (List.take_append_drop i x).symm
    have hdrop : x.drop i ≠ [] := by
      intro h
      have := congrArg List.length h
      simp at this; omega
    have hL' : f (x.take i ++ x.drop i) = .ok L := by rw [← hsplit]; exact hL
    have htake := hsc (x.take i) (x.drop i) [0] L L2 hdrop (by simp) hL' hL2
    have hlt : (x.take i).length = i := by rw [List.length_take]; omega
    rw [hlt] at htake
    have hLi : L[i]? = L2[i]? := by
      have a1 : (L.take (i + 1))[i]? = L[i]? := by rw [List.getElem?_take]; simp
      have a2 : (L2.take (i + 1))[i]? = L2[i]? := by rw [List.getElem?_take]; simp
      rw [← a1, ← a2, htake]
    obtain ⟨q, hq⟩ := hfin L[i] (List.getElem_mem h1)
    have hL2i : L2[i]? = some (XR.fin q) := by rw [← hLi, List.getElem?_eq_getElem h1, hq]
    unfold gOf
    rw [if_pos hv, hL2]
    simp only [hlt, List.getD_eq_getElem?_getD, hL2i, Option.getD_some, XR.toQ]
    exact hq

end Shangrla.NM
