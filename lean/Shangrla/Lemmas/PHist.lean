/-
  The return statement shared by the martingale tests,
      min(1, 1/np.max(terms)) if random_order else min(1, 1/terms[-1]),   np.minimum(1, 1/terms)
  on a list of `Good` terms: every history entry is a p-value, the overall value is a p-value, it is
  the least history entry (random order) or the last one.
-/
import Shangrla.Model.NonnegMean
import Shangrla.Lemmas.XRBasic

namespace Shangrla.NM
open Shangrla XR

/-- `T ↦ np.minimum(1, 1/T)` -/
def pOf (T : XR) : XR := XR.npmin (1 : XR) ((1 : XR) / T)

theorem pOf_pinf : pOf .pinf = .fin 0 := by
  simp [pOf, XR.npmin, XR.isNan, XR.lt]
  rfl

theorem inv_pinf : ((1 : XR) / XR.pinf) = .fin 0 := rfl

theorem pOf_zero : pOf (.fin 0) = .fin 1 := by
  show XR.npmin (.fin 1) (XR.div (.fin 1) (.fin 0)) = _
  simp [XR.div, XR.npmin, XR.isNan, XR.lt]

theorem pOf_pos {q : Rat} (hq : 0 < q) : pOf (.fin q) = .fin (min 1 (1 / q)) := by
  unfold pOf
  rw [XR.one_def, XR.fin_div _ _ (ne_of_gt hq)]
  simp only [XR.npmin, XR.isNan_fin, Bool.or_self, Bool.false_eq_true, ↓reduceIte, XR.lt_fin, decide_eq_true_eq]
  by_cases h : 1 / q < 1
  · rw [if_pos h, min_eq_right h.le]
  · rw [if_neg h, min_eq_left (not_lt.mp h)]

theorem isP_pOf {T : XR} (h : Good T) : IsP (pOf T) := isP_npmin_one_inv h

/-- on good values `pOf` reverses the order -/
theorem pOf_antitone {a b : XR} (ha : Good a) (hb : Good b) (hab : XR.le a b = true) :
    XR.le (pOf b) (pOf a) = true := by
  rcases ha.cases with rfl | ⟨p, hp, rfl⟩ <;> rcases hb.cases with rfl | ⟨q, hq, rfl⟩
  · simp [pOf_pinf]
  · simp [XR.le] at hab
  · rw [pOf_pinf]
    have := isP_pOf (good_fin hp)
    cases h : pOf (.fin p) with
    | fin r => rw [h] at this; simp [XR.le_fin, this.1]
    | _ => rw [h] at this; exact absurd this (by simp [IsP])
  · simp only [XR.le_fin, decide_eq_true_eq] at hab
    by_cases hp0 : p = 0
    · subst hp0
      rw [pOf_zero]
      have := isP_pOf (good_fin hq)
      cases h : pOf (.fin q) with
      | fin r => rw [h] at this; simp [XR.le_fin, this.2]
      | _ => rw [h] at this; exact absurd this (by simp [IsP])
    · have hpp : 0 < p := lt_of_le_of_ne hp (Ne.symm hp0)
      have hqq : 0 < q := lt_of_lt_of_le hpp hab
      rw [pOf_pos hpp, pOf_pos hqq]
      simp only [XR.le_fin, decide_eq_true_eq]
      apply min_le_min_left
      exact one_div_le_one_div_of_le hpp hab

theorem le_trans_good {a b c : XR} (ha : Good a) (hb : Good b) (hc : Good c)
    (hab : XR.le a b = true) (hbc : XR.le b c = true) : XR.le a c = true := by
  rcases ha.cases with rfl | ⟨p, _, rfl⟩ <;> rcases hb.cases with rfl | ⟨q, _, rfl⟩ <;>
    rcases hc.cases with rfl | ⟨r, _, rfl⟩ <;> simp_all [XR.le]
  exact le_trans hab hbc

/-- `np.max` over good values: good, attained, an upper bound -/
theorem foldl_npmax_good : ∀ (l : List XR) (a : XR), Good a → (∀ x ∈ l, Good x) →
    Good (l.foldl XR.npmax a) ∧ (l.foldl XR.npmax a ∈ a :: l) ∧
      (∀ x ∈ a :: l, XR.le x (l.foldl XR.npmax a) = true) := by
  intro l
  induction l with
  | nil =>
    intro a ha _
    refine ⟨ha, by simp, ?_⟩
    intro x hx
    simp at hx; subst hx
    rcases ha.cases with rfl | ⟨p, _, rfl⟩ <;> simp [XR.le]
  | cons b l ih =>
    intro a ha hl
    have hb : Good b := hl b (by simp)
    have hmax : Good (XR.npmax a b) := good_npmax ha hb
    obtain ⟨h1, h2, h3⟩ := ih (XR.npmax a b) hmax (fun x hx => hl x (by simp [hx]))
    simp only [List.foldl_cons]
    have hcases : XR.npmax a b = a ∨ XR.npmax a b = b := by
      rcases ha.cases with rfl | ⟨p, _, rfl⟩ <;> rcases hb.cases with rfl | ⟨q, _, rfl⟩ <;>
        simp [XR.npmax, XR.isNan, XR.lt] <;> (by_cases h : p < q <;> simp [h])
    have hle_a : XR.le a (XR.npmax a b) = true := by
      rcases ha.cases with rfl | ⟨p, _, rfl⟩ <;> rcases hb.cases with rfl | ⟨q, _, rfl⟩ <;>
        simp [XR.npmax, XR.isNan, XR.lt, XR.le] <;> (by_cases h : p < q <;> simp [h, XR.le, le_of_lt])
    have hle_b : XR.le b (XR.npmax a b) = true := by
      rcases ha.cases with rfl | ⟨p, _, rfl⟩ <;> rcases hb.cases with rfl | ⟨q, _, rfl⟩ <;>
        simp [XR.npmax, XR.isNan, XR.lt, XR.le] <;> (by_cases h : p < q <;> simp [h, XR.le, not_lt.mp])
    refine ⟨h1, ?_, ?_⟩
    · simp only [List.mem_cons] at h2 ⊢
      rcases h2 with h2 | h2
      · rcases hcases with hc | hc
        · left; rw [h2, hc]
        · right; left; rw [h2, hc]
      · right; right; exact h2
    · intro x hx
      simp only [List.mem_cons] at hx
      have htrans : ∀ y, Good y → XR.le y (XR.npmax a b) = true →
          XR.le y (List.foldl XR.npmax (XR.npmax a b) l) = true := by
        intro y hy hyle
        exact le_trans_good hy hmax h1 hyle (h3 (XR.npmax a b) (by simp))
      rcases hx with rfl | rfl | hx
      · exact htrans _ ha hle_a
      · exact htrans _ hb hle_b
      · exact h3 x (by simp [hx])

theorem maxList_good {L : List XR} (hne : L ≠ []) (hL : ∀ x ∈ L, Good x) :
    Good (XR.maxList L) ∧ XR.maxList L ∈ L ∧ ∀ x ∈ L, XR.le x (XR.maxList L) = true := by
  cases L with
  | nil => exact absurd rfl hne
  | cons a l =>
    exact foldl_npmax_good l a (hL a (by simp)) (fun x hx => hL x (by simp [hx]))

theorem pymin_one_inv {M : XR} (h : Good M) : XR.pymin (1 : XR) ((1 : XR) / M) = pOf M := by
  unfold pOf
  rcases h.cases with rfl | ⟨q, _, rfl⟩
  · rw [inv_pinf]
    simp [XR.pymin, XR.npmin, XR.isNan]
  · by_cases h0 : q = 0
    · subst h0
      show XR.pymin (.fin 1) (XR.div (.fin 1) (.fin 0)) = XR.npmin (.fin 1) (XR.div (.fin 1) (.fin 0))
      simp [XR.div, XR.pymin, XR.npmin, XR.isNan, XR.lt]
    · rw [XR.one_def, XR.fin_div _ _ h0]
      simp [XR.pymin, XR.npmin, XR.isNan]

/-- **the return statement on good terms** -/
theorem pAndHist_good (ro : Bool) {L : List XR} (hne : L ≠ []) (hL : ∀ x ∈ L, Good x) :
    let r := pAndHist ro L
    r.2.length = L.length ∧ (∀ h ∈ r.2, IsP h) ∧ IsP r.1 ∧
      (ro = true → r.1 ∈ r.2 ∧ ∀ h ∈ r.2, XR.le r.1 h = true) ∧
      (ro = false → r.2.getLast? = some r.1) := by
  have hhist : ∀ h ∈ L.map (fun T => XR.npmin (1 : XR) ((1 : XR) / T)), IsP h := by
    intro h hh
    obtain ⟨T, hT, rfl⟩ := List.mem_map.1 hh
    exact isP_pOf (hL T hT)
  obtain ⟨hMg, hMm, hMu⟩ := maxList_good hne hL
  refine ⟨by simp [pAndHist], by simpa [pAndHist] using hhist, ?_, ?_, ?_⟩
  · cases ro
    · simp only [pAndHist, Bool.false_eq_true, ↓reduceIte, lastD]
      obtain ⟨T, hT⟩ : ∃ T, L.getLast? = some T := by
        cases h : L.getLast? with
        | none => exact absurd (List.getLast?_eq_none_iff.1 h) hne
        | some T => exact ⟨T, rfl⟩
      rw [hT]
      simp only [Option.getD_some]
      rw [pymin_one_inv (hL T (List.mem_of_getLast? hT))]
      exact isP_pOf (hL T (List.mem_of_getLast? hT))
    · simp only [pAndHist, ↓reduceIte]
      rw [pymin_one_inv hMg]; exact isP_pOf hMg
  · intro hro; subst hro
    simp only [pAndHist, ↓reduceIte]
    rw [pymin_one_inv hMg]
    refine ⟨List.mem_map.2 ⟨_, hMm, rfl⟩, ?_⟩
    intro h hh
    obtain ⟨T, hT, rfl⟩ := List.mem_map.1 hh
    exact pOf_antitone (hL T hT) hMg (hMu T hT)
  · intro hro; subst hro
    simp only [pAndHist, Bool.false_eq_true, ↓reduceIte, lastD, List.getLast?_map]
    obtain ⟨T, hT⟩ : ∃ T, L.getLast? = some T := by
      cases h : L.getLast? with
      | none => exact absurd (List.getLast?_eq_none_iff.1 h) hne
      | some T => exact ⟨T, rfl⟩
    rw [hT]
    simp only [Option.getD_some, Option.map_some, Option.some.injEq]
    rw [pymin_one_inv (hL T (List.mem_of_getLast? hT))]
    rfl

end Shangrla.NM
