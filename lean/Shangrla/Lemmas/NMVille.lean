/-
  The defining product of a sequential test as a non-negative supermartingale on the draw tree
  (sampling without replacement from a null population), and Ville's inequality for it.
  Generic in the factor `facQ` (ALPHA or betting) and in the predictable parameter function `g`.
-/
import Shangrla.Lemmas.NMProcess
import Shangrla.Lemmas.Ville
import Mathlib.Data.List.Induction

namespace Shangrla.NM
open Shangrla XR Shangrla.C12 Shangrla.Ville

variable (facQ : ℚ → ℚ → ℚ → ℚ) (u : ℚ) (n : Nat) (t : ℚ) (g : List ℚ → ℚ)

/-- the zone predicate at the state reached after the draws `h` -/
def StateZ (h : List ℚ) : Prop := Zst (some n) t u h.sum (h.length + 1)

instance (h : List ℚ) : Decidable (StateZ u n t h) := by
  unfold StateZ Zst; exact inferInstance

/-- the value process: the defining product, provided every factor so far was applied at a null
mean strictly inside `(0,u)`; `0` otherwise (then the reported p-value is 1) -/
def valI (h : List ℚ) : ℚ :=
  if h = [] then 1 else if StateZ u n t h.dropLast then Tq facQ (some n) t g h else 0

/-- null invariant of the draw tree: `R` = items not yet drawn, `h` = draws so far -/
def Inv (R h : List ℚ) : Prop :=
  h.length + R.length = n ∧ (∀ a ∈ R, 0 ≤ a ∧ a ≤ u) ∧ (∀ a ∈ h, 0 ≤ a ∧ a ≤ u) ∧
    R.sum ≤ (n : ℚ) * t - h.sum

theorem valI_nil : valI facQ u n t g [] = 1 := by simp [valI]

theorem valI_snoc (h : List ℚ) (a : ℚ) :
    valI facQ u n t g (h ++ [a]) =
      if StateZ u n t h then Tq facQ (some n) t g h * facQ (muAfter (some n) t h) a (g h) else 0 := by
  unfold valI
  simp only [List.append_eq_nil_iff, List.cons_ne_self, and_false, ↓reduceIte, List.dropLast_concat]
  rw [(Tq_snoc facQ (some n) t g h a).1]

theorem stateZ_iff (h : List ℚ) (hlen : h.length + 1 ≤ n) :
    StateZ u n t h ↔ 0 < muAfter (some n) t h ∧ muAfter (some n) t h < u := by
  unfold StateZ muAfter
  exact Zst_iff_mu (by simp only [Room]; omega)

theorem stateZ_dropLast (h : List ℚ) (a : ℚ) (ha0 : 0 ≤ a) (hau : a ≤ u)
    (hz : StateZ u n t (h ++ [a])) : StateZ u n t h := by
  unfold StateZ at hz ⊢
  simp only [List.sum_append, List.sum_cons, List.sum_nil, add_zero, List.length_append,
    List.length_cons, List.length_nil, Nat.zero_add] at hz
  exact Zst_step ha0 hau hz

/-- inside the zone so far ⇒ the product is non-negative -/
theorem Tq_nonneg
    (hfacnn : ∀ (h : List ℚ) (a : ℚ), (∀ b ∈ h, 0 ≤ b ∧ b ≤ u) → h.length + 1 ≤ n →
      0 < muAfter (some n) t h → muAfter (some n) t h < u → 0 ≤ a → a ≤ u →
      0 ≤ facQ (muAfter (some n) t h) a (g h)) :
    ∀ h : List ℚ, (∀ a ∈ h, 0 ≤ a ∧ a ≤ u) → h.length ≤ n →
      (h = [] ∨ StateZ u n t h.dropLast) → 0 ≤ Tq facQ (some n) t g h := by
  intro h
  induction h using List.reverseRecOn with
  | nil => intro _ _ _; rw [Tq_nil]; norm_num
  | append_singleton l a ih =>
    intro hr hlen hz
    simp only [List.append_eq_nil_iff, List.cons_ne_self, and_false, List.dropLast_concat, false_or] at hz
    rw [(Tq_snoc facQ (some n) t g l a).1]
    have hla : 0 ≤ a ∧ a ≤ u := hr a (by simp)
    have hl : ∀ b ∈ l, 0 ≤ b ∧ b ≤ u := fun b hb => hr b (by simp [hb])
    simp only [List.length_append, List.length_cons, List.length_nil, Nat.zero_add] at hlen
    obtain ⟨hm0, hmu⟩ := (stateZ_iff u n t l hlen).1 hz
    apply mul_nonneg
    · apply ih hl (by omega)
      cases l using List.reverseRecOn with
      | nil => left; rfl
      | append_singleton l' b _ =>
        right
        rw [List.dropLast_concat]
        exact stateZ_dropLast u n t l' b (hl b (by simp)).1 (hl b (by simp)).2 hz
    · exact hfacnn l a hl hlen hm0 hmu hla.1 hla.2

theorem valI_nonneg
    (hfacnn : ∀ (h : List ℚ) (a : ℚ), (∀ b ∈ h, 0 ≤ b ∧ b ≤ u) → h.length + 1 ≤ n →
      0 < muAfter (some n) t h → muAfter (some n) t h < u → 0 ≤ a → a ≤ u →
      0 ≤ facQ (muAfter (some n) t h) a (g h))
    (h : List ℚ) (hr : ∀ a ∈ h, 0 ≤ a ∧ a ≤ u) (hlen : h.length ≤ n) :
    0 ≤ valI facQ u n t g h := by
  unfold valI
  split
  · norm_num
  · split
    · rename_i hz
      exact Tq_nonneg facQ u n t g hfacnn h hr hlen (Or.inr hz)
    · exact le_refl _

/-- on a state inside the zone the value is the product itself -/
theorem valI_eq_Tq (h : List ℚ) (hr : ∀ a ∈ h, 0 ≤ a ∧ a ≤ u) (hz : StateZ u n t h) :
    valI facQ u n t g h = Tq facQ (some n) t g h := by
  unfold valI
  split
  · rename_i he; subst he; rw [Tq_nil]
  · rename_i hne
    obtain ⟨l, a, rfl⟩ : ∃ l a, h = l ++ [a] :=
      ⟨h.dropLast, h.getLast hne, (List.dropLast_concat_getLast hne).symm⟩
    rw [List.dropLast_concat, if_pos]
    exact stateZ_dropLast u n t l a (hr a (by simp)).1 (hr a (by simp)).2 hz

/-- **Ville's inequality for the test statistic.**  Draw the items of a population of size `n`
with values in `[0,u]` and total at most `n t` uniformly at random without replacement.  If every
factor is non-negative inside the zone and its average over the next draw is at most 1 whenever the
remaining items have mean at most the null mean, then the probability that the event `ev` ever
happens is at most `1/c`, provided `ev h` implies `c ≤ valI h`. -/
theorem process_ville
    (hfacnn : ∀ (h : List ℚ) (a : ℚ), (∀ b ∈ h, 0 ≤ b ∧ b ≤ u) → h.length + 1 ≤ n →
      0 < muAfter (some n) t h → muAfter (some n) t h < u → 0 ≤ a → a ≤ u →
      0 ≤ facQ (muAfter (some n) t h) a (g h))
    (hfacsuper : ∀ (h R : List ℚ), (∀ b ∈ h, 0 ≤ b ∧ b ≤ u) → h.length + 1 ≤ n →
      0 < muAfter (some n) t h → muAfter (some n) t h < u → R ≠ [] → (∀ a ∈ R, 0 ≤ a ∧ a ≤ u) →
      R.sum ≤ muAfter (some n) t h * R.length →
      avgIdx R.length (fun i => facQ (muAfter (some n) t h) (R.getD i 0) (g h)) ≤ 1)
    (ev : List ℚ → Bool) (c : ℚ) (hc : 0 < c)
    (hev : ∀ R h, Inv u n t R h → ev h = true → c ≤ valI facQ u n t g h)
    (pop : List ℚ) (hpop : Inv u n t pop []) :
    hitEv ev pop.length pop [] ≤ 1 / c := by
  have key := hitEv_le ev (valI facQ u n t g) c hc (Inv u n t) hev
    (fun R h hI => valI_nonneg facQ u n t g hfacnn h hI.2.2.1 (by have := hI.1; omega))
    ?_ ?_ pop.length pop [] hpop (le_refl _)
  · rwa [valI_nil] at key
  · -- the invariant is preserved by drawing
    intro R h ⟨h1, h2, h3, h4⟩ i hi
    refine ⟨?_, ?_, ?_, ?_⟩
    · rw [List.length_eraseIdx, if_pos hi]
      simp only [List.length_append, List.length_cons, List.length_nil]; omega
    · intro a ha; exact h2 a (mem_eraseIdx_of ha)
    · intro a ha
      simp only [List.mem_append, List.mem_singleton] at ha
      rcases ha with ha | rfl
      · exact h3 a ha
      · exact h2 _ (getD_mem hi)
    · rw [sum_eraseIdx R i hi]
      simp only [List.sum_append, List.sum_cons, List.sum_nil, add_zero]
      linarith
  · -- supermartingale step
    intro R h ⟨h1, h2, h3, h4⟩ hR
    have hRpos : 0 < R.length := List.length_pos_iff.mpr hR
    have hlen : h.length + 1 ≤ n := by omega
    simp only [valI_snoc]
    by_cases hz : StateZ u n t h
    · simp only [if_pos hz]
      obtain ⟨hm0, hmu⟩ := (stateZ_iff u n t h hlen).1 hz
      rw [avgIdx_mul_left, valI_eq_Tq facQ u n t g h h3 hz]
      have hT : 0 ≤ Tq facQ (some n) t g h := by
        rw [← valI_eq_Tq facQ u n t g h h3 hz]
        exact valI_nonneg facQ u n t g hfacnn h h3 (by omega)
      have hm : muAfter (some n) t h * (R.length : ℚ) = (n : ℚ) * t - h.sum := by
        unfold muAfter mu
        have hRl : (R.length : ℚ) = (n : ℚ) - ((h.length + 1 : Nat) : ℚ) + 1 := by
          have : (n : ℚ) = (h.length : ℚ) + (R.length : ℚ) := by exact_mod_cast h1.symm
          push_cast; linarith
        rw [hRl]
        have hne : (n : ℚ) - ((h.length + 1 : Nat) : ℚ) + 1 ≠ 0 := by
          rw [← hRl]; exact_mod_cast (by omega : R.length ≠ 0)
        field_simp
      have := hfacsuper h R h3 hlen hm0 hmu hR h2 (by rw [hm]; exact h4)
      calc Tq facQ (some n) t g h * avgIdx R.length (fun i => facQ (muAfter (some n) t h) (R.getD i 0) (g h))
          ≤ Tq facQ (some n) t g h * 1 := mul_le_mul_of_nonneg_left this hT
        _ = Tq facQ (some n) t g h := mul_one _
    · simp only [if_neg hz]
      rw [avgIdx_const _ hRpos]
      exact valI_nonneg facQ u n t g hfacnn h h3 (by omega)

end Shangrla.NM
