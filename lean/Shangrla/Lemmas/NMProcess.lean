/-
  The test statistic as a process indexed by the history of draws: `Tq h` is the defining product
  after the draws `h` when the parameter applied to each observation is a function `g` of the
  earlier observations (a *predictable* estimator / bet).
-/
import Shangrla.Props.C12Mart

namespace Shangrla.NM
open Shangrla XR Shangrla.C12

/-- predictable parameters: entry `i` is `g` applied to the first `i` observations -/
def params (g : List ℚ → ℚ) (x : List ℚ) : List ℚ := (List.range x.length).map (fun i => g (x.take i))

theorem params_length (g : List ℚ → ℚ) (x : List ℚ) : (params g x).length = x.length := by
  simp [params]

theorem params_snoc (g : List ℚ → ℚ) (h : List ℚ) (a : ℚ) :
    params g (h ++ [a]) = params g h ++ [g h] := by
  unfold params
  simp only [List.length_append, List.length_cons, List.length_nil, Nat.zero_add]
  rw [List.range_succ, List.map_append]
  congr 1
  · apply List.map_congr_left
    intro i hi
    rw [List.mem_range] at hi
    rw [List.take_append_of_le_length (by omega)]
  · simp

/-- the last running product of a walk, `T` if the walk is empty -/
def lastT (T : ℚ) (w : List (ℚ × ℚ)) : ℚ := (w.getLast?.map Prod.snd).getD T

theorem lastT_cons (T T' m : ℚ) (w : List (ℚ × ℚ)) : lastT T ((m, T') :: w) = lastT T' w := by
  cases w with
  | nil => simp [lastT]
  | cons p ps =>
    simp only [lastT, List.getLast?_cons_cons]
    cases h : (p :: ps).getLast? with
    | none => exact absurd (List.getLast?_eq_none_iff.1 h) (by simp)
    | some q => simp

theorem walkQ_append (facQ : ℚ → ℚ → ℚ → ℚ) (N : Option Nat) (t : ℚ) :
    ∀ (l l' : List (ℚ × ℚ)) (S : ℚ) (j : Nat) (T : ℚ),
      walkQ facQ N t S j T (l ++ l') =
        walkQ facQ N t S j T l ++
          walkQ facQ N t (S + (l.map Prod.fst).sum) (j + l.length) (lastT T (walkQ facQ N t S j T l)) l' := by
  intro l
  induction l with
  | nil => intro l' S j T; simp [walkQ, lastT]
  | cons hd rest ih =>
    intro l' S j T
    obtain ⟨a, c⟩ := hd
    simp only [List.cons_append, walkQ, List.map_cons, List.sum_cons, List.length_cons]
    rw [ih]
    congr 2
    · congr 1
      · ring
      · omega
      · rw [lastT_cons]

/-- the defining product after the draws `h` (1 for the empty history) -/
def Tq (facQ : ℚ → ℚ → ℚ → ℚ) (N : Option Nat) (t : ℚ) (g : List ℚ → ℚ) (h : List ℚ) : ℚ :=
  lastT 1 (walkQ facQ N t 0 1 1 (h.zip (params g h)))

/-- the null conditional mean before the next draw, after the draws `h` -/
def muAfter (N : Option Nat) (t : ℚ) (h : List ℚ) : ℚ := mu N t h.sum (h.length + 1)

theorem zip_fst_sum (h ps : List ℚ) (hlen : ps.length = h.length) :
    ((h.zip ps).map Prod.fst).sum = h.sum := by
  rw [List.map_fst_zip (by omega)]

theorem Tq_nil (facQ : ℚ → ℚ → ℚ → ℚ) (N : Option Nat) (t : ℚ) (g : List ℚ → ℚ) :
    Tq facQ N t g [] = 1 := by
  simp [Tq, params, walkQ, lastT]

/-- **recurrence**: one more draw multiplies the product by the factor at the current null mean with
the parameter chosen from the earlier draws only -/
theorem Tq_snoc (facQ : ℚ → ℚ → ℚ → ℚ) (N : Option Nat) (t : ℚ) (g : List ℚ → ℚ) (h : List ℚ) (a : ℚ) :
    Tq facQ N t g (h ++ [a]) = Tq facQ N t g h * facQ (muAfter N t h) a (g h) ∧
      (walkQ facQ N t 0 1 1 ((h ++ [a]).zip (params g (h ++ [a])))).getLast?
        = some (muAfter N t h, Tq facQ N t g h * facQ (muAfter N t h) a (g h)) := by
  have hz : (h ++ [a]).zip (params g (h ++ [a])) = h.zip (params g h) ++ [(a, g h)] := by
    rw [params_snoc, List.zip_append (by simp [params_length])]
    simp
  have hw := walkQ_append facQ N t (h.zip (params g h)) [(a, g h)] 0 1 1
  rw [zip_fst_sum h _ (params_length g h)] at hw
  simp only [List.length_zip, params_length, Nat.min_self, zero_add] at hw
  unfold Tq muAfter
  rw [hz, hw]
  simp only [walkQ]
  have hj : 1 + h.length = h.length + 1 := by omega
  rw [hj]
  constructor
  · simp [lastT, List.getLast?_append]
  · simp [List.getLast?_append]

end Shangrla.NM
