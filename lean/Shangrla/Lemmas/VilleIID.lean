/-
  Ville's inequality on the tree of independent draws from a finitely supported law
  (`L` = list of (value, weight) pairs, weights non-negative with sum 1), exact rational probabilities.
-/
import Shangrla.Lemmas.Ville

namespace Shangrla.Ville

/-- expectation of `f` under the law `L` -/
def expL (L : List (ℚ × ℚ)) (f : ℚ → ℚ) : ℚ := (L.map (fun p => p.2 * f p.1)).sum

/-- exact probability that `ev` holds at some node within `n` further independent draws from `L`
after history `h` -/
def hitIID (L : List (ℚ × ℚ)) (ev : List ℚ → Bool) : Nat → List ℚ → ℚ
  | 0, h => if ev h then 1 else 0
  | n + 1, h => if ev h then 1 else expL L (fun v => hitIID L ev n (h ++ [v]))

theorem expL_le (L : List (ℚ × ℚ)) (hw : ∀ p ∈ L, 0 ≤ p.2) (f g : ℚ → ℚ)
    (h : ∀ p ∈ L, f p.1 ≤ g p.1) : expL L f ≤ expL L g := by
  unfold expL
  induction L with
  | nil => simp
  | cons a L ih =>
    simp only [List.map_cons, List.sum_cons]
    have h1 : a.2 * f a.1 ≤ a.2 * g a.1 := mul_le_mul_of_nonneg_left (h a (by simp)) (hw a (by simp))
    have h2 := ih (fun p hp => hw p (by simp [hp])) (fun p hp => h p (by simp [hp]))
    linarith

theorem expL_div (L : List (ℚ × ℚ)) (f : ℚ → ℚ) (c : ℚ) :
    expL L (fun v => f v / c) = expL L f / c := by
  unfold expL
  induction L with
  | nil => simp
  | cons a L ih => simp only [List.map_cons, List.sum_cons, ih]; ring

theorem expL_const (L : List (ℚ × ℚ)) (hs : (L.map Prod.snd).sum = 1) (c : ℚ) :
    expL L (fun _ => c) = c := by
  unfold expL
  have : ∀ L : List (ℚ × ℚ), (L.map (fun p => p.2 * c)).sum = (L.map Prod.snd).sum * c := by
    intro L
    induction L with
    | nil => simp
    | cons a L ih => simp only [List.map_cons, List.sum_cons, ih]; ring
  rw [this, hs, one_mul]

theorem expL_mul_left (L : List (ℚ × ℚ)) (f : ℚ → ℚ) (c : ℚ) :
    expL L (fun v => c * f v) = c * expL L f := by
  unfold expL
  induction L with
  | nil => simp
  | cons a L ih => simp only [List.map_cons, List.sum_cons, ih]; ring

/-- `E[1 + lam (X - m)] = 1 + lam (E X - m)` -/
theorem expL_affine (L : List (ℚ × ℚ)) (hs : (L.map Prod.snd).sum = 1) (lam m : ℚ) :
    expL L (fun v => 1 + lam * (v - m)) = 1 + lam * (expL L (fun v => v) - m) := by
  unfold expL
  have : ∀ L : List (ℚ × ℚ), (L.map (fun p => p.2 * (1 + lam * (p.1 - m)))).sum
      = (1 - lam * m) * (L.map Prod.snd).sum + lam * (L.map (fun p => p.2 * p.1)).sum := by
    intro L
    induction L with
    | nil => simp
    | cons a L ih => simp only [List.map_cons, List.sum_cons, ih]; ring
  rw [this, hs]; ring

/-- **Ville's inequality for independent draws.** -/
theorem hitIID_le (L : List (ℚ × ℚ)) (hw : ∀ p ∈ L, 0 ≤ p.2)
    (ev : List ℚ → Bool) (val : List ℚ → ℚ) (c : ℚ) (hc : 0 < c)
    (Inv : List ℚ → Prop)
    (hev : ∀ h, Inv h → ev h = true → c ≤ val h)
    (hnn : ∀ h, Inv h → 0 ≤ val h)
    (hstep : ∀ h, Inv h → ∀ p ∈ L, Inv (h ++ [p.1]))
    (hsuper : ∀ h, Inv h → expL L (fun v => val (h ++ [v])) ≤ val h) :
    ∀ n h, Inv h → hitIID L ev n h ≤ val h / c := by
  intro n
  induction n with
  | zero =>
    intro h hI
    unfold hitIID
    split
    · rename_i he
      rw [le_div_iff₀ hc]; linarith [hev h hI he]
    · exact div_nonneg (hnn h hI) hc.le
  | succ n ih =>
    intro h hI
    unfold hitIID
    split
    · rename_i he
      rw [le_div_iff₀ hc]; linarith [hev h hI he]
    · calc expL L (fun v => hitIID L ev n (h ++ [v]))
          ≤ expL L (fun v => val (h ++ [v]) / c) :=
            expL_le L hw _ _ (fun p hp => ih _ (hstep h hI p hp))
        _ = expL L (fun v => val (h ++ [v])) / c := expL_div _ _ _
        _ ≤ val h / c := div_le_div_of_nonneg_right (hsuper h hI) hc.le

end Shangrla.Ville
