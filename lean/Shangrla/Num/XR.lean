/-
  Extended rationals: the value domain of the literal models.

  Every Python float *value* is a rational or one of +inf, -inf, nan.  `XR` carries exactly
  those four classes and the IEEE-754 rules for `+ - * /`, comparisons (false on nan),
  `np.isclose`, `np.max`, `np.minimum`, `np.maximum` and Python's builtin `min`.
  Not modelled: rounding, overflow/underflow, signed zero (a zero denominator is read as +0).
  Core Lean only (this file is compiled into the driver).
-/
namespace Shangrla

inductive XR where
  | fin (q : Rat)
  | pinf
  | ninf
  | nan
deriving DecidableEq, Repr, Inhabited

namespace XR

instance : Coe Rat XR := ⟨XR.fin⟩
instance : OfNat XR n := ⟨XR.fin (n : Rat)⟩

def isNan : XR → Bool
  | nan => true
  | _ => false

def isFin : XR → Bool
  | fin _ => true
  | _ => false

def neg : XR → XR
  | fin q => fin (-q)
  | pinf => ninf
  | ninf => pinf
  | nan => nan

def add : XR → XR → XR
  | nan, _ => nan
  | _, nan => nan
  | fin a, fin b => fin (a + b)
  | fin _, pinf => pinf
  | fin _, ninf => ninf
  | pinf, fin _ => pinf
  | ninf, fin _ => ninf
  | pinf, pinf => pinf
  | ninf, ninf => ninf
  | pinf, ninf => nan
  | ninf, pinf => nan

def sub (a b : XR) : XR := add a (neg b)

/-- sign-directed infinity: `q > 0 ↦ s`, `q < 0 ↦ -s`, `q = 0 ↦ nan` (0 * inf) -/
def infTimes (s : XR) (q : Rat) : XR :=
  if q = 0 then nan else if 0 < q then s else neg s

def mul : XR → XR → XR
  | nan, _ => nan
  | _, nan => nan
  | fin a, fin b => fin (a * b)
  | fin a, pinf => infTimes pinf a
  | fin a, ninf => infTimes ninf a
  | pinf, fin b => infTimes pinf b
  | ninf, fin b => infTimes ninf b
  | pinf, pinf => pinf
  | ninf, ninf => pinf
  | pinf, ninf => ninf
  | ninf, pinf => ninf

/-- IEEE division, a zero denominator being `+0`. -/
def div : XR → XR → XR
  | nan, _ => nan
  | _, nan => nan
  | fin a, fin b =>
      if b = 0 then (if a = 0 then nan else if 0 < a then pinf else ninf) else fin (a / b)
  | fin _, pinf => fin 0
  | fin _, ninf => fin 0
  | pinf, fin b => if b < 0 then ninf else pinf
  | ninf, fin b => if b < 0 then pinf else ninf
  | pinf, pinf => nan
  | pinf, ninf => nan
  | ninf, pinf => nan
  | ninf, ninf => nan

instance : Neg XR := ⟨neg⟩
instance : Add XR := ⟨add⟩
instance : Sub XR := ⟨sub⟩
instance : Mul XR := ⟨mul⟩
instance : Div XR := ⟨div⟩

/-- IEEE `<` (false if either side is nan) -/
def lt : XR → XR → Bool
  | nan, _ => false
  | _, nan => false
  | fin a, fin b => a < b
  | fin _, pinf => true
  | fin _, ninf => false
  | pinf, _ => false
  | ninf, ninf => false
  | ninf, _ => true

/-- IEEE `<=` (false if either side is nan) -/
def le : XR → XR → Bool
  | nan, _ => false
  | _, nan => false
  | fin a, fin b => a ≤ b
  | fin _, pinf => true
  | fin _, ninf => false
  | pinf, pinf => true
  | pinf, _ => false
  | ninf, _ => true

def gt (a b : XR) : Bool := lt b a
def ge (a b : XR) : Bool := le b a

/-- IEEE `==` (false on nan) -/
def beq : XR → XR → Bool
  | fin a, fin b => a = b
  | pinf, pinf => true
  | ninf, ninf => true
  | _, _ => false

def abs : XR → XR
  | fin q => fin (if q < 0 then -q else q)
  | pinf => pinf
  | ninf => pinf
  | nan => nan

/-- `np.isclose(a, b, rtol, atol)`: `|a-b| <= atol + rtol*|b|`; equal infinities are close; nan never. -/
def isclose (a b : XR) (rtol atol : Rat) : Bool :=
  match a, b with
  | fin x, fin y =>
      let d := x - y
      let ad := if d < 0 then -d else d
      let ay := if y < 0 then -y else y
      ad ≤ atol + rtol * ay
  | pinf, pinf => true
  | ninf, ninf => true
  | _, _ => false

/-- `np.minimum(a, b)` (nan-propagating) -/
def npmin (a b : XR) : XR :=
  if a.isNan || b.isNan then nan else if lt b a then b else a

/-- `np.maximum(a, b)` (nan-propagating) -/
def npmax (a b : XR) : XR :=
  if a.isNan || b.isNan then nan else if lt a b then b else a

/-- Python builtin `min(a, b)`: returns `a` unless `b < a` -/
def pymin (a b : XR) : XR := if lt b a then b else a

/-- Python builtin `max(a, b)`: returns `a` unless `b > a` -/
def pymax (a b : XR) : XR := if lt a b then b else a

/-- `np.max(l)` of a non-empty list (nan-propagating); `nan` for the empty list (numpy raises) -/
def maxList : List XR → XR
  | [] => nan
  | a :: l => l.foldl npmax a

/-- `np.min(l)` of a non-empty list (nan-propagating) -/
def minList : List XR → XR
  | [] => nan
  | a :: l => l.foldl npmin a

/-- `np.cumprod`, started from the running product `acc` -/
def cumprodFrom (acc : XR) : List XR → List XR
  | [] => []
  | a :: l => (acc * a) :: cumprodFrom (acc * a) l

/-- `np.cumprod` -/
def cumprod (l : List XR) : List XR := cumprodFrom 1 l

/-- `np.cumsum`, started from the running sum `acc` -/
def cumsumFrom (acc : XR) : List XR → List XR
  | [] => []
  | a :: l => (acc + a) :: cumsumFrom (acc + a) l

/-- `np.cumsum` -/
def cumsum (l : List XR) : List XR := cumsumFrom 0 l

def toStr : XR → String
  | fin q => if q.den = 1 then toString q.num else s!"{q.num}/{q.den}"
  | pinf => "inf"
  | ninf => "-inf"
  | nan => "nan"

instance : ToString XR := ⟨toStr⟩

end XR

/-- rational square root to 30 decimal digits (used only by the driver; theorems are generic) -/
def sqrtRat (q : Rat) : Rat :=
  if q ≤ 0 then 0 else
    let n := q.num.toNat
    let d := q.den
    let k : Nat := 10 ^ 30
    ((Nat.sqrt (n * d * k * k) : Nat) : Rat) / ((d * k : Nat) : Rat)

def ratToStr (q : Rat) : String := if q.den = 1 then toString q.num else s!"{q.num}/{q.den}"

end Shangrla
