/-
  Literal models of `shangrla/core/Audit.py`
    `CVR.merge_cvrs`      (L438-481)
    `CVR.from_raire`      (L371-410)   (`CVR.from_raire_file` L412-436 = csv.reader + from_raire + len)
    `CVR.from_vote`       (L555-574)   (one record holding one contest)

  Python                                          model
  ------                                          -----
  CVR object (id, votes, phantom, pool,           `Rec ν` (the fields `merge_cvrs` reads or writes; `ν` = type of
     tally_pool)                                    the values stored per candidate)
  `dict` (votes, a contest's vote dict,           association list in insertion order (`List (κ × β)`); a list that
     `OrderedDict`)                                 represents a dict has distinct keys
  `d[k] = v`                                      `dset d k v`  (value replaced in place if `k` is present, else appended)
  `k in d` / `d[k]`                               `dget d k` (`none` = absent)
  `{**a, **b}`                                    `dictMerge a b` (keys of `a` keep their place, values of `b` win,
                                                    new keys of `b` are appended in `b`'s order)
  `x and y`, `x or y` on `bool`                   `&&`, `||` (same operand order as the code)
  `t is None`                                     `Option.isNone`
  `od[c.id].f = ...` (mutation of the first       `dset od c.id { o with f := ... }`
     record with that id)
  `raise ValueError`, `IndexError`                `Except.error Err.ValueError`, `Err.IndexError`
  `int(raire[0][0])`                              `parseNat` : a non-empty string of ASCII digits is its value, anything
                                                    else is `ValueError` (signs / blanks / `_`, which Python's `int`
                                                    also accepts, are outside the modelled input domain)
  Core Lean only.
-/
namespace Shangrla.Merge

inductive Err where
  | ValueError
  | IndexError
deriving Repr, DecidableEq, Inhabited

def Err.toString : Err → String
  | .ValueError => "ValueError"
  | .IndexError => "IndexError"

/-! ### insertion-ordered dictionaries -/

section Dict
variable {κ β : Type} [DecidableEq κ]

/-- `d.get(k)` : value stored under the (first) key equal to `k` -/
def dget : List (κ × β) → κ → Option β
  | [], _ => none
  | (k', v) :: d, k => if k' = k then some v else dget d k

/-- `d[k] = v` : replace in place when present, append otherwise -/
def dset : List (κ × β) → κ → β → List (κ × β)
  | [], k, v => [(k, v)]
  | (k', v') :: d, k, v => if k' = k then (k', v) :: d else (k', v') :: dset d k v

/-- `list(d.keys())` -/
def keys (d : List (κ × β)) : List κ := d.map Prod.fst

/-- `{**a, **b}` : copy `a`, then store every item of `b` in `b`'s order -/
def dictMerge (a b : List (κ × β)) : List (κ × β) :=
  b.foldl (fun acc kv => dset acc kv.1 kv.2) a

end Dict

/-! ### records -/

/-- the attributes of a `CVR` object that `merge_cvrs` touches -/
structure Rec (ν : Type) where
  id : String
  votes : List (String × List (String × ν))
  phantom : Bool
  pool : Bool
  tallyPool : Option String
deriving Repr, Inhabited

variable {ν : Type}

/-- L466-480: the `else` branch of the loop body, `o = od[c.id]` the record kept so far, `c` the new one.
Assignments happen in the order votes, phantom, pool, tally_pool; the `ValueError` is raised after them. -/
def mergeInto (o c : Rec ν) : Except Err (Rec ν) :=
  let o1 := { o with votes := dictMerge o.votes c.votes }          -- L466  {**od[c.id].votes, **c.votes}
  let o2 := { o1 with phantom := c.phantom && o1.phantom }          -- L467  c.phantom and od[c.id].phantom
  let o3 := { o2 with pool := c.pool || o2.pool }                   -- L468  c.pool or od[c.id].pool
  if (o3.tallyPool.isNone && c.tallyPool.isNone)                     -- L470
      || (o3.tallyPool.isSome && c.tallyPool.isNone)                 -- L471
      || decide (o3.tallyPool = c.tallyPool) then                    -- L472
    .ok o3                                                           -- L474  pass
  else if o3.tallyPool.isNone && c.tallyPool.isSome then             -- L475
    .ok { o3 with tallyPool := c.tallyPool }                         -- L476
  else
    .error .ValueError                                               -- L478

/-- L462-480: one iteration of `for c in cvr_list`, `od` the `OrderedDict` keyed by id -/
def step (od : List (String × Rec ν)) (c : Rec ν) : Except Err (List (String × Rec ν)) :=
  match dget od c.id with
  | none => .ok (dset od c.id c)                                     -- L463-464
  | some o => do
      let o' ← mergeInto o c                                         -- L466-480
      .ok (dset od c.id o')

/-- `CVR.merge_cvrs(cvr_list)` L461-481 -/
def mergeCvrs (l : List (Rec ν)) : Except Err (List (Rec ν)) := do
  let od ← l.foldlM step []                                          -- L461-480
  .ok (od.map Prod.snd)                                              -- L481  [v for v in od.values()]

/-! ### RAIRE format -/

/-- value of a non-empty string of ASCII digits -/
def parseNat (s : String) : Option Nat :=
  let cs := s.toList
  if cs.isEmpty then none
  else if cs.all (fun ch => decide ('0' ≤ ch) && decide (ch ≤ '9')) then
    some (cs.foldl (fun n ch => 10 * n + (ch.toNat - '0'.toNat)) 0)
  else none

/-- L404-406: `for j in range(2, len(c)): votes[str(c[j])] = j - 1`; `k` = `j - 1` of the next cell -/
def rankVotes : List (String × Nat) → Nat → List String → List (String × Nat)
  | d, _, [] => d
  | d, k, cand :: cands => rankVotes (dset d cand k) (k + 1) cands

/-- L402-409 for one row `c`: `c[0]`, `c[1]` raise `IndexError` on a short row;
`CVR.from_vote(votes, id, contest_id, phantom)` = `CVR(id=id, votes={contest_id: votes}, phantom=phantom)` -/
def rowToRec (phantom : Bool) (c : List String) : Except Err (Rec Nat) :=
  match c with
  | contest :: id :: cands =>
      .ok { id := id, votes := [(contest, rankVotes [] 1 cands)], phantom := phantom,
            pool := false, tallyPool := none }
  | _ => .error .IndexError

/-- `CVR.from_raire(raire, phantom)` L399-410; second component is `len(raire) - skip` (an `int`,
negative when the declared header count exceeds the number of rows) -/
def fromRaire (raire : List (List String)) (phantom : Bool) : Except Err (List (Rec Nat) × Int) :=
  match raire with
  | [] => .error .IndexError                                         -- L399 raire[0]
  | [] :: _ => .error .IndexError                                    -- L399 raire[0][0]
  | (cell :: _) :: _ =>
    match parseNat cell with
    | none => .error .ValueError                                     -- L399 int(...)
    | some skip => do
      let cvrList ← (raire.drop (skip + 1)).mapM (rowToRec phantom)  -- L400-409
      let merged ← mergeCvrs cvrList                                 -- L410
      .ok (merged, (raire.length : Int) - (skip : Int))

end Shangrla.Merge
