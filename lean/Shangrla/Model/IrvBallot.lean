/-
  Literal models of the two implementations of "which candidate does this ranked ballot count for"
  (property C14).

  AUDIT SIDE  shangrla/core/Audit.py
    CVR.get_vote_for L200-205, CVR.rcv_lfunc_wo L267-294, CVR.rcv_votefor_cand L296-330,
    Assertion.make_assertions_from_json L2046-2159 (the two lambdas / `remn`), Assorter.__init__ L2435,
    Assorter.mean L2449-2471, CVR.from_raire L372-410, CVR.from_vote L556-574, CVR.merge_cvrs L439-481.
  GENERATOR SIDE  shangrla/raire/raire_utils.py, shangrla/raire/raire.py
    ranking L178-193, vote_for_cand L196-228, NEBAssertion.is_vote_for_winner/loser L350-364,
    NENAssertion.is_vote_for_winner/loser L448-458, load_contests_from_raire L80-157,
    find_best_audit L689, L710-736 (tallies / construction of a NEN assertion),
    raire.py compute_raire_assertions L80-95 (tallies / construction of a NEB assertion), L106-107 (`ballots`).

  Python                                        model
  ------                                        -----
  dict                                          association list in insertion order, keys unique
                                                (`dget`, `dictSet`, `dictUpdate`)
  CVR.votes  {contest: {cand: rank}}            `Votes κ α = List (κ × List (α × Int))`, ranks 1-based
  value of get_vote_for: `False` or an int      `Val.pyFalse | Val.int n`; `bool(v)` = `Val.truthy`
                                                (`False`, `0` falsy); `False` compares as the int 0
  generator cvr {contest: {cand: index}}        `GCvr κ α = List (κ × List (α × Nat))`, indices 0-based
  `ranking` = -1 for an unranked candidate      `ranking : Int`
  0/1 verdicts                                  `Int`
  (w - l + 1) / 2  (float)                      `Rat`
  np.mean of an empty list (nan)                `none`
  exceptions                                    `Except Err`
  Not modelled: csv.reader quoting / `str.strip` of tokens (the file is handed over as rows of tokens);
  `informal` / `order` tokens of a contest line (L116-129: they feed only Contest.tot_ballots/outcome).
  Core Lean only.
-/
namespace Shangrla.IrvBallot

inductive Err where
  | IndexError | KeyError | ValueError
deriving Repr, DecidableEq, Inhabited

def Err.toStr : Err → String
  | .IndexError => "IndexError" | .KeyError => "KeyError" | .ValueError => "ValueError"

/-! ### dict as association list -/
section Dict
variable {κ ν : Type} [DecidableEq κ]

/-- `d.get(k)` / `k in d` -/
def dget : List (κ × ν) → κ → Option ν
  | [], _ => none
  | (k', v) :: d, k => if k' = k then some v else dget d k

/-- `d[k] = v` : overwrite in place, or append a new key -/
def dictSet : List (κ × ν) → κ → ν → List (κ × ν)
  | [], k, v => [(k, v)]
  | (k', v') :: d, k, v => if k' = k then (k', v) :: d else (k', v') :: dictSet d k v

/-- `{**a, **b}` -/
def dictUpdate (a b : List (κ × ν)) : List (κ × ν) :=
  b.foldl (fun acc kv => dictSet acc kv.1 kv.2) a

end Dict

/-! ## Audit side -/

/-- what `get_vote_for` returns on a ranked ballot -/
inductive Val where
  | pyFalse
  | int (n : Int)
deriving Repr, DecidableEq, Inhabited

/-- Python `bool(v)` -/
def Val.truthy : Val → Bool
  | .pyFalse => false
  | .int n => n != 0

/-- the integer a value compares as (`False == 0`; `bool` is a subclass of `int`) -/
def Val.toInt : Val → Int
  | .pyFalse => 0
  | .int n => n

abbrev ABallot (α : Type) := List (α × Int)
abbrev Votes (κ α : Type) := List (κ × ABallot α)

section Audit
variable {κ α : Type} [DecidableEq κ] [DecidableEq α]

/-- Audit.py L200-205 -/
def getVoteFor (votes : Votes κ α) (contestId : κ) (candidate : α) : Val :=
  match dget votes contestId with
  | none => Val.pyFalse
  | some b =>
    match dget b candidate with
    | none => Val.pyFalse
    | some n => Val.int n

/-- Audit.py L207-208 -/
def hasContest (votes : Votes κ α) (contestId : κ) : Bool := (dget votes contestId).isSome

/-- Audit.py L267-294 -/
def rcvLfuncWo (votes : Votes κ α) (contestId : κ) (winner loser : α) : Int :=
  let rankWinner := getVoteFor votes contestId winner          -- L286
  let rankLoser := getVoteFor votes contestId loser            -- L287
  if !rankWinner.truthy && rankLoser.truthy then 1             -- L289-290
  else if rankWinner.truthy && rankLoser.truthy && decide (rankLoser.toInt < rankWinner.toInt) then 1  -- L291-292
  else 0                                                       -- L294

/-- Audit.py L296-330 -/
def rcvVoteforCand (votes : Votes κ α) (contestId : κ) (cand : α) (remaining : List α) : Int :=
  if !remaining.contains cand then 0                           -- L318-319
  else
    let rankCand := getVoteFor votes contestId cand            -- L321
    if !rankCand.truthy then 0                                 -- L322
    else if remaining.any (fun altc =>                         -- L324-329
        altc != cand &&
          (let rankAltc := getVoteFor votes contestId altc
           rankAltc.truthy && decide (rankAltc.toInt ≤ rankCand.toInt))) then 0
    else 1                                                     -- L330

/-- Audit.py L2088-2090: `1 if v.get_vote_for(contest_id, winr) == 1 else 0` -/
def nebWinnerFunc (votes : Votes κ α) (contestId : κ) (winr : α) : Int :=
  if (getVoteFor votes contestId winr).toInt == 1 then 1 else 0

/-- Audit.py L2094-2096 -/
def nebLoserFunc (votes : Votes κ α) (contestId : κ) (winr losr : α) : Int :=
  rcvLfuncWo votes contestId winr losr

/-- WINNER_ONLY assorter: Assorter(winner=…, loser=…) ⇒ L2435 `(winner(cvr) - loser(cvr) + 1) / 2` -/
def nebAssort (votes : Votes κ α) (contestId : κ) (winr losr : α) : Rat :=
  ((nebWinnerFunc votes contestId winr - nebLoserFunc votes contestId winr losr + 1 : Int) : Rat) / 2

/-- Audit.py L2125-2126: `remn = [c for c in candidates if c not in elim]` -/
def remnOf (candidates elim : List α) : List α := candidates.filter (fun c => !elim.contains c)

/-- IRV_ELIMINATION assorter, L2143-2148, for a given `remn` -/
def nenAssort (votes : Votes κ α) (contestId : κ) (winner loser : α) (remn : List α) : Rat :=
  ((rcvVoteforCand votes contestId winner remn - rcvVoteforCand votes contestId loser remn + 1 : Int) : Rat) / 2

/-- Assorter.mean L2449-2471; `none` is numpy's nan for an empty list -/
def assorterMean (assort : Votes κ α → Rat) (contestId : κ) (cvrs : List (Votes κ α)) (useStyle : Bool) :
    Option Rat :=
  let vals := (cvrs.filter (fun c => !useStyle || hasContest c contestId)).map assort
  if vals.isEmpty then none else some (vals.sum / (vals.length : Rat))

/-- CVR.from_vote L556-574: the votes dict of a one-contest CVR -/
def fromVote (vote : ABallot α) (contestId : κ) : Votes κ α := [(contestId, vote)]

/-- CVR.from_raire L404-406: `votes = {}; for j in range(2, len(c)): votes[str(c[j])] = j - 1`;
`prefs` is `c[2:]`, `j` the position of its head -/
def fromRaireVotes : List α → Nat → ABallot α → ABallot α
  | [], _, votes => votes
  | p :: ps, j, votes => fromRaireVotes ps (j + 1) (dictSet votes p ((j : Int) - 1))

/-- the ballot the audit reads from the preference tokens of a RAIRE row -/
def fromRaireBallot (prefs : List α) : ABallot α := fromRaireVotes prefs 2 []

end Audit

section AuditFile
variable {σ : Type} [DecidableEq σ]

/-- CVR.merge_cvrs L462-466, one iteration of the loop, restricted to id and votes (phantom / pool flags are
not observed here) -/
def mergeStep (od : List (σ × Votes σ σ)) (c : σ × Votes σ σ) : List (σ × Votes σ σ) :=
  match dget od c.1 with
  | none => od ++ [c]                                        -- L463-464
  | some votes => dictSet od c.1 (dictUpdate votes c.2)      -- L466

/-- CVR.merge_cvrs L461-481 -/
def mergeCvrs (cvrList : List (σ × Votes σ σ)) : List (σ × Votes σ σ) :=
  cvrList.foldl mergeStep []

/-- one row `c` of a RAIRE file → (id, votes)  L402-409 -/
def fromRaireRow (c : List σ) : Except Err (σ × Votes σ σ) :=
  match c with
  | contestId :: id :: prefs => .ok (id, fromVote (fromRaireBallot prefs) contestId)
  | _ => .error Err.IndexError

/-- CVR.from_raire L399-410; `skip = int(raire[0][0])`, `raire` the rows of the file -/
def fromRaire (skip : Nat) (raire : List (List σ)) : Except Err (List (σ × Votes σ σ)) := do
  let cvrList ← (raire.drop (skip + 1)).mapM fromRaireRow
  pure (mergeCvrs cvrList)

end AuditFile

/-! ## Generator side -/

abbrev GBallot (α : Type) := List (α × Nat)
abbrev GCvr (κ α : Type) := List (κ × GBallot α)

section Gen
variable {κ α : Type} [DecidableEq κ] [DecidableEq α]

/-- raire_utils.py L178-193 -/
def ranking (cand : α) (ballot : GBallot α) : Int :=
  match dget ballot cand with
  | none => -1
  | some k => (k : Int)

/-- raire_utils.py L196-228 -/
def voteForCand (cand : α) (eliminated : List α) (ballot : GBallot α) : Int :=
  if eliminated.contains cand then 0                           -- L212
  else
    let cIdx := ranking cand ballot                            -- L215
    if cIdx == -1 then 0                                       -- L216
    else if ballot.any (fun kv =>                              -- L218-226
        kv.1 != cand && !eliminated.contains kv.1 && decide ((kv.2 : Int) < cIdx)) then 0
    else 1                                                     -- L228

/-- NEBAssertion.is_vote_for_winner L350-354 -/
def nebWinner (contest : κ) (winner : α) (cvr : GCvr κ α) : Int :=
  match dget cvr contest with
  | none => 0
  | some b => if ranking winner b == 0 then 1 else 0

/-- NEBAssertion.is_vote_for_loser L356-364 -/
def nebLoser (contest : κ) (winner loser : α) (cvr : GCvr κ α) : Int :=
  match dget cvr contest with
  | none => 0
  | some b =>
    let wIdx := ranking winner b
    let lIdx := ranking loser b
    if lIdx != -1 && (wIdx == -1 || (wIdx != -1 && decide (lIdx < wIdx))) then 1 else 0

/-- NENAssertion.is_vote_for_winner L448-452 -/
def nenWinner (contest : κ) (winner : α) (eliminated : List α) (cvr : GCvr κ α) : Int :=
  match dget cvr contest with
  | none => 0
  | some b => voteForCand winner eliminated b

/-- NENAssertion.is_vote_for_loser L454-458 -/
def nenLoser (contest : κ) (loser : α) (eliminated : List α) (cvr : GCvr κ α) : Int :=
  match dget cvr contest with
  | none => 0
  | some b => voteForCand loser eliminated b

/-- a RaireAssertion object: the fields C14 observes -/
inductive Assn (κ α : Type) where
  | neb (contest : κ) (winner loser : α) (votesForWinner votesForLoser : Int)
  | nen (contest : κ) (winner loser : α) (eliminated : List α) (votesForWinner votesForLoser : Int)
deriving Repr, DecidableEq

def Assn.votesForWinner : Assn κ α → Int
  | .neb _ _ _ vw _ => vw
  | .nen _ _ _ _ vw _ => vw

def Assn.votesForLoser : Assn κ α → Int
  | .neb _ _ _ _ vl => vl
  | .nen _ _ _ _ _ vl => vl

def Assn.isVoteForWinner : Assn κ α → GCvr κ α → Int
  | .neb contest winner _ _ _, cvr => nebWinner contest winner cvr
  | .nen contest winner _ eliminated _ _, cvr => nenWinner contest winner eliminated cvr

def Assn.isVoteForLoser : Assn κ α → GCvr κ α → Int
  | .neb contest winner loser _ _, cvr => nebLoser contest winner loser cvr
  | .nen contest _ loser eliminated _ _, cvr => nenLoser contest loser eliminated cvr

/-- raire.py L80-95: the NEB assertion `c` vs `d` of contest `contestName`, kept iff `tally_c > tally_d` -/
def mkNeb {β : Type} (contestName : κ) (c d : α) (cvrs : List (β × GCvr κ α)) : Option (Assn κ α) :=
  let asrn := Assn.neb contestName c d 0 0                     -- L80
  let tallyC := (cvrs.map (fun r => asrn.isVoteForWinner r.2)).sum   -- L84-86
  let tallyD := (cvrs.map (fun r => asrn.isVoteForLoser r.2)).sum    -- L87
  if tallyC > tallyD then some (Assn.neb contestName c d tallyC tallyD) else none  -- L89-95

/-- raire.py L106-107: `ballots = [blt[contest.name] for _,blt in cvrs.items() if contest.name in blt]` -/
def ballotsOf {β : Type} (contestName : κ) (cvrs : List (β × GCvr κ α)) : List (GBallot α) :=
  cvrs.filterMap (fun r => dget r.2 contestName)

/-- find_best_audit L689: `eliminated = [c for c in contest.candidates if not c in node.tail]` -/
def eliminatedOf (candidates tail : List α) : List α := candidates.filter (fun c => !tail.contains c)

/-- find_best_audit L710-736: the NEN assertion built for `first_in_tail` vs `later_cand` (built only when
`tally_first_in_tail > tally_later_cand`; whether it *replaces* the best assertion so far also depends on
the difficulty estimate, which C14 does not observe) -/
def mkNen (contestName : κ) (firstInTail laterCand : α) (eliminated : List α) (ballots : List (GBallot α)) :
    Option (Assn κ α) :=
  let tallyFirst := (ballots.map (voteForCand firstInTail eliminated)).sum   -- L710-711
  let tallyLater := (ballots.map (voteForCand laterCand eliminated)).sum     -- L714-715
  if tallyFirst > tallyLater then                                            -- L717
    some (Assn.nen contestName firstInTail laterCand eliminated tallyFirst tallyLater)  -- L727-734
  else none

/-- load_contests_from_raire L138-142:
`ballot = {}; for c in cands: if c in prefs: ballot[c] = prefs.index(c)` -/
def loadRaireBallot (cands prefs : List α) : GBallot α :=
  cands.foldl (fun ballot c => if prefs.contains c then dictSet ballot c (prefs.idxOf c) else ballot) []

end Gen

section GenFile

/-- `toks.index(x)` -/
def indexOf? (toks : List String) (x : String) : Option Nat :=
  if toks.contains x then some (toks.idxOf x) else none

/-- one contest line, L101-114 → (cid, cands, winner) -/
def parseContestLine (toks : List String) : Except Err (String × List String × String) := do
  let cid ← match toks[1]? with | some t => pure t | none => throw Err.IndexError            -- L104
  let ncands ← match toks[2]? with                                                           -- L105
    | none => throw Err.IndexError
    | some t => match t.toNat? with | some n => pure n | none => throw Err.ValueError
  let cands ← (List.range ncands).mapM (fun j =>                                             -- L110-111
    match toks[3 + j]? with | some t => pure t | none => throw Err.IndexError)
  let windx ← match indexOf? toks "winner" with | some i => pure i | none => throw Err.ValueError  -- L113
  let winner ← match toks[windx + 1]? with | some t => pure t | none => throw Err.IndexError -- L114
  pure (cid, cands, winner)

/-- `cvrs[bid][cid] = ballot`, creating `cvrs[bid]` when needed (L146-149) -/
def setBallot {ν : Type} (cvrs : List (String × List (String × ν))) (bid cid : String) (ballot : ν) :
    List (String × List (String × ν)) :=
  match dget cvrs bid with
  | none => cvrs ++ [(bid, [(cid, ballot)])]
  | some inner => dictSet cvrs bid (dictSet inner cid ballot)

/-- one ballot line, L132-149 -/
def loadBallotLine (contestInfo : List (String × List String × String))
    (cvrs : List (String × GCvr String String)) (toks : List String) :
    Except Err (List (String × GCvr String String)) :=
  match toks with
  | cid :: bid :: prefs =>
    match dget contestInfo cid with
    | none => .error Err.KeyError                                                            -- L139
    | some info => .ok (setBallot cvrs bid cid (loadRaireBallot info.1 prefs))
  | _ => .error Err.IndexError                                                               -- L134-135

/-- load_contests_from_raire L100-129: the contest lines → `contest_info` (cid ↦ (candidates, winner)) -/
def loadContestInfo (ncontests : Nat) (rows : List (List String)) :
    Except Err (List (String × List String × String)) :=
  (List.range ncontests).foldlM (fun (info : List (String × List String × String)) i => do
      let toks ← match rows[1 + i]? with | some t => pure t | none => throw Err.IndexError   -- L101
      let (cid, cands, winner) ← parseContestLine toks
      pure (dictSet info cid (cands, winner)))                                               -- L128
    []

/-- load_contests_from_raire L131-149: the ballot lines → `cvrs` -/
def loadBallotLines (contestInfo : List (String × List String × String)) (lines : List (List String)) :
    Except Err (List (String × GCvr String String)) :=
  lines.foldlM (loadBallotLine contestInfo) []

/-- load_contests_from_raire L80-157: `ncontests = int(lines[0])`, `rows` = the token lists of all lines.
Returns the contests (cid, candidates, winner) in `contest_info` order and the cvrs -/
def loadContestsFromRaire (ncontests : Nat) (rows : List (List String)) :
    Except Err (List (String × List String × String) × List (String × GCvr String String)) := do
  let contestInfo ← loadContestInfo ncontests rows
  let cvrs ← loadBallotLines contestInfo (rows.drop (ncontests + 1))                         -- L131-149
  pure (contestInfo, cvrs)                                                                   -- L151-157

end GenFile

/-! ## The preference order a ballot encodes (most preferred first) -/
section Order
variable {α : Type}

/-- candidates of an audit-side ballot in increasing rank (stable) -/
def auditOrder (b : ABallot α) : List α := (b.mergeSort (fun x y => decide (x.2 ≤ y.2))).map (·.1)

/-- candidates of a generator-side ballot in increasing index (stable) -/
def genOrder (b : GBallot α) : List α := (b.mergeSort (fun x y => decide (x.2 ≤ y.2))).map (·.1)

/-- `[(c₀, k), (c₁, k+1), …]` -/
def encFrom : Nat → List α → List (α × Nat)
  | _, [] => []
  | k, c :: cs => (c, k) :: encFrom (k + 1) cs

/-- the generator's encoding of a ranking (most preferred first): `{c ↦ k}` for its `k`-th (0-based) element -/
def genEnc (r : List α) : GBallot α := encFrom 0 r

/-- the audit's encoding of a ranking: `{c ↦ k+1}` -/
def auditEnc (r : List α) : ABallot α := (encFrom 0 r).map (fun p => (p.1, (p.2 : Int) + 1))

end Order

end Shangrla.IrvBallot
