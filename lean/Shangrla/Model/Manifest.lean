/-
  Literal models of the ballot-manifest functions (property C17)

    shangrla/formats/Dominion.py   prep_manifest L21-83, sample_from_manifest L428-473,
                                   sample_from_cvrs L476-540
    shangrla/formats/Hart.py       prep_manifest L22-78, sample_from_manifest L186-238,
                                   sample_from_cvrs L241-289

  Python                                          model
  ------                                          -----
  manifest (pandas DataFrame), one row per batch  `List Row` (`tab`, `batch` after `.astype(str)`, `size`,
                                                  `extra` = the remaining printed columns, as strings:
                                                  Dominion [cart, tray], Hart [container])
  manifest["cum_cards"] (written by prep L80/L73) `cumCards (rows.map size)` (running sum of the sizes)
  `np.searchsorted(lookup, s, side=…)`            number of entries `< s` (left) / `≤ s` (right); `lookup`
                                                  is nondecreasing because batch sizes are counts
  `lookup[batch_num-1]`, `manifest.iloc[batch_num-1]`
                                                  Python negative index is modelled *faithfully*: for
                                                  `batch_num = 0` (Dominion, `s = 0`) both read the LAST
                                                  entry/row and `card_in_batch` is negative (an `Int`);
                                                  `batch_num-1 = number of rows` is pandas' IndexError
  AssertionError / IndexError / KeyError / ValueError      `Except Err _`
  `sample_order` (dict, insertion order)          association list, `dictSet` keeps the position of an
                                                  existing key and replaces its value
  `CVR(id=card_id, votes={}, phantom=True)`       its `id` (`String`)
  `cvr_list[s]`                                   `cvrs[s]?`, IndexError when absent (`s : Nat`)
  `str.split("-")`                                `splitOn` below (single-character separator, Python semantics)
  `cards.sort(key=…)`                             `List.mergeSort` (stable, like Python's sort)
  Sample numbers are `Nat` (negative numbers are outside every caller's range).
  A loop iteration that raises discards all state, so each loop is written as "compute the per-draw
  entries (first error wins), then build the three containers in draw order".
  Core Lean only.
-/
namespace Shangrla.Manifest

inductive Err
  | AssertionError | IndexError | KeyError | ValueError
deriving Repr, DecidableEq, Inhabited

def Err.name : Err → String
  | .AssertionError => "AssertionError"
  | .IndexError => "IndexError"
  | .KeyError => "KeyError"
  | .ValueError => "ValueError"

inductive Vendor
  | dominion | hart
deriving Repr, DecidableEq, Inhabited

/-- first error wins, like a Python loop whose body may raise -/
def mapE {α β ε : Type} (f : α → Except ε β) : List α → Except ε (List β)
  | [] => .ok []
  | a :: as =>
    match f a with
    | .error e => .error e
    | .ok b =>
      match mapE f as with
      | .error e => .error e
      | .ok bs => .ok (b :: bs)

/-! ### prep_manifest (Dominion L57-83, Hart L52-78: the same statements) -/

/-- `sizes`: the column "Total Ballots" / "Number of Ballots".
Returns (sizes including an appended phantom batch, manifest_cards, phantoms). -/
def prepManifest (sizes : List Nat) (maxCards nCvrs : Nat) : Except Err (List Nat × Nat × Nat) :=
  let manifestCards := sizes.sum                                  -- L58 / L53
  if ¬ manifestCards ≤ maxCards then .error .AssertionError       -- L59-61 / L54-56
  else if ¬ manifestCards ≥ nCvrs then .error .AssertionError     -- L62-64 / L57-59
  else
    if manifestCards < maxCards then                              -- L66 / L61
      let phantoms := maxCards - manifestCards                    -- L67 / L62
      .ok (sizes ++ [phantoms], manifestCards, phantoms)          -- L79 / L72
    else .ok (sizes, manifestCards, 0)                            -- L65 / L60

/-- one manifest row, label columns as they are after `.astype(str)` (L81-82 / L74-77) -/
structure Row where
  tab : String
  batch : String
  size : Nat
  extra : List String
deriving Repr, DecidableEq, Inhabited

/-- L72-78 / L66-71: the appended row; `None` in a string column is printed `nan` by pandas 3 -/
def phantomRow (v : Vendor) (phantoms : Nat) : Row :=
  { tab := "phantom", batch := "1", size := phantoms,
    extra := match v with | .dominion => ["nan", "nan"] | .hart => ["nan"] }

/-- prep_manifest on whole rows: (manifest, manifest_cards, phantoms) -/
def prepRows (v : Vendor) (rows : List Row) (maxCards nCvrs : Nat) : Except Err (List Row × Nat × Nat) :=
  match prepManifest (rows.map (·.size)) maxCards nCvrs with
  | .error e => .error e
  | .ok (_, manifestCards, phantoms) =>
    if manifestCards < maxCards then .ok (rows ++ [phantomRow v phantoms], manifestCards, phantoms)
    else .ok (rows, manifestCards, phantoms)

/-- `Series.cumsum()` started at `acc` -/
def cumFrom (acc : Nat) : List Nat → List Nat
  | [] => []
  | x :: xs => (acc + x) :: cumFrom (acc + x) xs

/-- the column `cum_cards` (L80 / L73) -/
def cumCards (sizes : List Nat) : List Nat := cumFrom 0 sizes

/-! ### the card lookup (Dominion L456-461, Hart L215-223) -/

/-- `np.searchsorted(a, s, side="left")` for nondecreasing `a` -/
def searchLeft (a : List Nat) (s : Nat) : Nat := a.countP (fun x => decide (x < s))

/-- `np.searchsorted(a, s, side="right")` for nondecreasing `a` -/
def searchRight (a : List Nat) (s : Nat) : Nat := a.countP (fun x => decide (x ≤ s))

/-- `card_in_batch = int(s - lookup[batch_num - 1])` and the row index read by
`manifest.iloc[batch_num - 1]`, where `lookup = [0] + cum` -/
def rowAndPos (cum : List Nat) (batchNum s : Nat) : Except Err (Nat × Int) :=
  let lookup := 0 :: cum
  if batchNum = 0 then
    -- index -1: `lookup[-1]` is the last entry, `iloc[-1]` the last row (IndexError on an empty frame)
    match cum.getLast? with
    | none => .error .IndexError
    | some last => .ok (cum.length - 1, (s : Int) - (last : Int))
  else if batchNum - 1 < cum.length then
    .ok (batchNum - 1, (s : Int) - ((lookup.getD (batchNum - 1) 0 : Nat) : Int))
  else .error .IndexError          -- `iloc` past the last row: "single positional indexer is out-of-bounds"

/-- Dominion (valid sample numbers `1..T`): (row index = batch_num − 1, card_in_batch) -/
def lookupLeft (cum : List Nat) (s : Nat) : Except Err (Nat × Int) :=
  rowAndPos cum (searchLeft (0 :: cum) s) s

/-- Hart (valid sample numbers `0..T−1`) -/
def lookupRight (cum : List Nat) (s : Nat) : Except Err (Nat × Int) :=
  rowAndPos cum (searchRight (0 :: cum) s) s

def lookupV : Vendor → List Nat → Nat → Except Err (Nat × Int)
  | .dominion => lookupLeft
  | .hart => lookupRight

/-! ### sample_from_manifest -/

/-- what one loop iteration computes for draw `s` -/
structure Entry where
  extra : List String      -- Dominion [cart, tray]; Hart [container]
  tab : String
  batch : String
  cardInBatch : Int
  cardId : String
  s : Nat
deriving Repr, DecidableEq, Inhabited

/-- value stored in `sample_order[card_id]` -/
structure Order where
  selectionOrder : Nat
  serial : Nat
deriving Repr, DecidableEq, Inhabited

/-- f"{tab}-{batch}-{card_in_batch}" -/
def cardIdOf (tab batch : String) (pos : Int) : String := tab ++ "-" ++ batch ++ "-" ++ toString pos

/-- L458-465 / L218-230 -/
def entry (v : Vendor) (rows : List Row) (s : Nat) : Except Err Entry :=
  match lookupV v (cumCards (rows.map (·.size))) s with
  | .error e => .error e
  | .ok (k, pos) =>
    match rows[k]? with
    | none => .error .IndexError
    | some r => .ok { extra := r.extra, tab := r.tab, batch := r.batch, cardInBatch := pos,
                      cardId := cardIdOf r.tab r.batch pos, s := s }

def entries (v : Vendor) (rows : List Row) (sample : List Nat) : Except Err (List Entry) :=
  mapE (entry v rows) sample

/-- `d[k] = v` on an insertion-ordered dict -/
def dictSet {β : Type} (d : List (String × β)) (k : String) (v : β) : List (String × β) :=
  match d with
  | [] => [(k, v)]
  | (k', v') :: t => if k' = k then (k', v) :: t else (k', v') :: dictSet t k v

def dictGet {β : Type} (d : List (String × β)) (k : String) : Option β :=
  match d with
  | [] => none
  | (k', v') :: t => if k' = k then some v' else dictGet t k

/-- L469-471 / L234-236 for `i, s in enumerate(sample)` starting at index `i` -/
def orderLoop (d : List (String × Order)) (i : Nat) : List (String × Nat) → List (String × Order)
  | [] => d
  | (cid, s) :: rest => orderLoop (dictSet d cid { selectionOrder := i, serial := s + 1 }) (i + 1) rest

/-- `cards.sort(key=lambda x: x[-1])` (Dominion: the sample number) /
`cards.sort(key=lambda x: x[-2])` (Hart: card_in_batch) -/
def sortCards : Vendor → List Entry → List Entry
  | .dominion, l => l.mergeSort (fun a b => decide (a.s ≤ b.s))
  | .hart, l => l.mergeSort (fun a b => decide (a.cardInBatch ≤ b.cardInBatch))

/-- (cards, sample_order, ids of mvr_phantoms) -/
def sampleFromManifest (v : Vendor) (rows : List Row) (sample : List Nat) :
    Except Err (List Entry × List (String × Order) × List String) :=
  match entries v rows sample with
  | .error e => .error e
  | .ok es =>
    .ok (sortCards v es,                                                 -- L472 / L237
         orderLoop [] 0 (es.map (fun e => (e.cardId, e.s))),
         (es.filter (fun e => e.tab == "phantom")).map (·.cardId))      -- L467-468 / L232-233

/-! ### sample_from_cvrs -/

structure Cvr where
  id : String
  cardInBatch : Option Nat
  phantom : Bool
deriving Repr, DecidableEq, Inhabited

/-- Python `str.split(c)` on the characters of a string -/
def splitOnC (c : Char) : List Char → List (List Char)
  | [] => [[]]
  | x :: xs =>
    if x = c then [] :: splitOnC c xs
    else match splitOnC c xs with
      | [] => [[x]]          -- unreachable: the result is never empty
      | h :: t => (x :: h) :: t

def splitOn (c : Char) (s : String) : List String := (splitOnC c s.toList).map String.ofList

/-- one entry of `cards` (every cell printed with `str`) and the CVR drawn -/
structure CEntry where
  cells : List String
  cardId : String
  cvr : Cvr
  s : Nat
deriving Repr, DecidableEq, Inhabited

def cibStr : Option Nat → String
  | none => "None"
  | some n => toString n

/-- Dominion L508-515: `lookuptable[f"{tab}-{batch}"] = [cart, tray]`, later rows overwrite -/
def lookupTable (rows : List Row) : List (String × List String) :=
  rows.foldl (fun d r => dictSet d (r.tab ++ "-" ++ r.batch) r.extra) []

/-- Dominion L518-534 -/
def centryDominion (cvrs : List Cvr) (rows : List Row) (s : Nat) : Except Err CEntry :=
  match cvrs[s]? with
  | none => .error .IndexError                                   -- L518
  | some c =>
    match splitOn '-' c.id with                                  -- L521
    | [tab, batch, cardNum] =>
      let cardId := tab ++ "-" ++ batch ++ "-" ++ cardNum        -- L522
      let searchKey := tab ++ "-" ++ batch                       -- L523
      if ¬ c.phantom then                                        -- L524
        match dictGet (lookupTable rows) searchKey with
        | none => .error .KeyError
        | some ct => .ok { cells := ct ++ [tab, batch, cibStr c.cardInBatch, cardId], cardId := cardId, cvr := c, s := s }
      else .ok { cells := ["", "", tab, batch, cardNum, cardId], cardId := cardId, cvr := c, s := s }   -- L532
    | _ => .error .ValueError

/-- Hart L271-283 -/
def centryHart (cvrs : List Cvr) (rows : List Row) (s : Nat) : Except Err CEntry :=
  match cvrs[s]? with
  | none => .error .IndexError                                   -- L271
  | some c =>
    if ¬ c.phantom then                                          -- L273
      match splitOn '_' c.id with                                -- L274
      | [batch, cardNum] =>
        let cardId := batch ++ "_" ++ cardNum                    -- L275
        match rows.find? (fun r => r.batch == batch) with        -- L276 `.iloc[0]`
        | none => .error .IndexError
        | some r => .ok { cells := [r.tab, batch, cardNum, cardId], cardId := cardId, cvr := c, s := s }
      | _ => .error .ValueError
    else
      match splitOn '-' c.id with                                -- L279
      | [_word, batch, cardNum] =>
        let cardId := "phantom-" ++ batch ++ "-" ++ cardNum      -- L280
        .ok { cells := ["", "", batch, cardNum, cardId], cardId := cardId, cvr := c, s := s }
      | _ => .error .ValueError

def centry : Vendor → List Cvr → List Row → Nat → Except Err CEntry
  | .dominion => centryDominion
  | .hart => centryHart

/-- `cards.sort(key=lambda x: x[5])` (Dominion L539) / `x[3]` (Hart L288): string comparison -/
def sortCCards (v : Vendor) (l : List CEntry) : List CEntry :=
  let k : Nat := match v with | .dominion => 5 | .hart => 3
  l.mergeSort (fun a b => decide (a.cells.getD k "" ≤ b.cells.getD k ""))

/-- (cards, sample_order, cvr_sample, ids of mvr_phantoms) -/
def sampleFromCvrs (v : Vendor) (cvrs : List Cvr) (rows : List Row) (sample : List Nat) :
    Except Err (List CEntry × List (String × Order) × List Cvr × List String) :=
  match mapE (centry v cvrs rows) sample with
  | .error e => .error e
  | .ok es =>
    .ok (sortCCards v es,
         orderLoop [] 0 (es.map (fun e => (e.cardId, e.s))),
         es.map (·.cvr),                                                 -- L518 / L271
         (es.filter (fun e => e.cvr.phantom)).map (fun e => e.cvr.id))   -- L533 / L282

end Shangrla.Manifest
