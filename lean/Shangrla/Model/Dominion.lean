/-
  Literal model of `shangrla/formats/Dominion.py::Dominion.read_cvrs` (L85-196) and
  `read_cvrs_directory` (L198-235).

  Python                                         model
  ------                                         -----
  a JSON scalar used as an id (int or string)    `Atom` (`int n` / `str s`); `str(x)` is `Atom.pyStr`
  `mark = {"CandidateId", "Rank", "IsVote"}`     `Mark` (`Rank` is a JSON integer: `Int`; 0 and negative
                                                 values are representable, booleans/floats/null are not)
  `con = {"Id", "Marks": [...]}`                 `Contest` (marks in file order)
  `c[k]` with `"Contests"` / with `"Cards"`      `Block.flat` / `Block.cards` (cards in file order, each a
                                                 list of contests); a block with both keys takes "Cards" (L151)
  a session `c`                                  `Session`: the four id fields, the image mask, and `blocks`,
                                                 the entries of `c` whose key is "Original" or "Modified" *in
                                                 file order* (json.load keeps it; keys are distinct after
                                                 json.load, lookup takes the first)
  `contest_votes`, `votes` (dicts)               association lists in insertion order; `d[k] = v` is `aset`
                                                 (replaces in place when the key is present, else appends)
  value stored for a candidate                   `Int`: the first counted mark stores `mark["Rank"]` as is
                                                 (L176), later ones `int(..)` (L170-174); for a JSON integer
                                                 these are the same Python `int`
  `re.compile(r"[0-9]{5}_[0-9]{5}_[0-9]*").search`   `search` (leftmost match; each piece of the pattern is
                                                 deterministic, so no backtracking is needed)
  `int("")`                                      `Err.ValueError`
  `CVR(id=, tally_pool=, pool=, votes=)`         `Rec`
  `sorted(glob.glob(...))`                       the caller passes the files in sorted-name order
  Core Lean only.
-/
namespace Shangrla.Dominion

inductive Err where
  | ValueError
deriving Repr, DecidableEq

/-- a JSON scalar used as an identifier -/
inductive Atom where
  | int (n : Int)
  | str (s : String)
deriving Repr, DecidableEq, Inhabited

/-- Python `str(x)` for an `int` or a `str` -/
def Atom.pyStr : Atom → String
  | .int n => toString n
  | .str s => s

structure Mark where
  cand : Atom
  rank : Int
  isVote : Bool
deriving Repr, DecidableEq

structure Contest where
  id : Atom
  marks : List Mark
deriving Repr

inductive Block where
  | flat (contests : List Contest)
  | cards (cards : List (List Contest))
deriving Repr

structure Session where
  tabulatorId : Atom
  batchId : Atom
  recordId : Atom
  countingGroupId : Atom
  imageMask : String
  /-- entries "Original" / "Modified" of the session object, in file order -/
  blocks : List (String × Block)
deriving Repr

structure Opts where
  useCurrent : Bool
  enforceRules : Bool
  includeGroups : List Atom
  poolGroups : List Atom
deriving Repr

/-- candidate ↦ stored rank, in insertion order -/
abbrev CVotes := List (String × Int)
/-- contest ↦ (candidate ↦ stored rank), in insertion order -/
abbrev Votes := List (String × CVotes)

structure Rec where
  id : String
  tallyPool : String
  pool : Bool
  votes : Votes
deriving Repr

/-- Python `d[k] = v` on an insertion-ordered dict -/
def aset {β : Type} : List (String × β) → String → β → List (String × β)
  | [], k, v => [(k, v)]
  | (k', v') :: t, k, v => if k' = k then (k', v) :: t else (k', v') :: aset t k v

/-- L164: is the mark counted -/
def counted (enforce : Bool) (m : Mark) : Bool := m.isVote || !enforce

/-- L170-174: `min(int(old), int(new)) if bool(old) else int(new)`, applied only `if bool(new)` (L169) -/
def combine (old new : Int) : Int :=
  if new ≠ 0 then (if old ≠ 0 then min old new else new) else old

/-- L163-176: one iteration of the mark loop -/
def markStep (enforce : Bool) (cv : CVotes) (m : Mark) : CVotes :=
  if counted enforce m then
    let key := m.cand.pyStr
    match cv.lookup key with
    | some old => if m.rank ≠ 0 then aset cv key (combine old m.rank) else cv      -- L165-174
    | none => aset cv key m.rank                                                   -- L176
  else cv

/-- L162-176: `contest_votes` of one contest -/
def contestVotes (enforce : Bool) (marks : List Mark) : CVotes :=
  marks.foldl (markStep enforce) []

/-- L151-160: `_selector` -/
def selector : Block → List Contest
  | .flat cs => cs
  | .cards cs => cs.flatten

/-- L161-177: one iteration of the contest loop -/
def contestStep (enforce : Bool) (votes : Votes) (con : Contest) : Votes :=
  aset votes con.id.pyStr (contestVotes enforce con.marks)

/-- L161-177 for one block, starting from the `votes` accumulated so far -/
def blockInto (enforce : Bool) (votes : Votes) (b : Block) : Votes :=
  (selector b).foldl (contestStep enforce) votes

/-- L145-149: the keys processed, in processing order -/
def keysOf (useCurrent : Bool) (c : Session) : List String :=
  (if useCurrent then ["Original", "Modified"] else ["Original"]).filter
    (fun j => (c.blocks.lookup j).isSome)

/-- L140-177: `votes` of one session -/
def sessionVotes (o : Opts) (c : Session) : Votes :=
  (keysOf o.useCurrent c).foldl
    (fun votes k => match c.blocks.lookup k with
      | some b => blockInto o.enforceRules votes b
      | none => votes) []

/-- match `[0-9]{5}_[0-9]{5}_[0-9]*` at the head of `cs`; returns the last `_`-separated piece of the match -/
def matchHere (cs : List Char) : Option (List Char) :=
  let a := cs.take 5
  if a.length = 5 && a.all Char.isDigit then
    match cs.drop 5 with
    | '_' :: r2 =>
      let b := r2.take 5
      if b.length = 5 && b.all Char.isDigit then
        match r2.drop 5 with
        | '_' :: r4 => some (r4.takeWhile Char.isDigit)
        | _ => none
      else none
    | _ => none
  else none

/-- L181: `image_mask_pattern.search(..)`, then `.group(0).split("_")[-1]` (L183) -/
def search : List Char → Option (List Char)
  | [] => none
  | c :: cs => match matchHere (c :: cs) with
    | some g => some g
    | none => search cs

/-- Python `int(s)` for a non-empty string of ASCII digits -/
def digitsToNat (g : List Char) : Nat := g.foldl (fun n ch => 10 * n + (ch.toNat - 48)) 0

/-- L179-183 followed by `str(record_id)` (L190) -/
def recordIdStr (c : Session) : Except Err String :=
  if c.recordId = Atom.str "X" then
    match search c.imageMask.toList with
    | some g => if g.isEmpty then throw Err.ValueError else pure (toString (digitsToNat g))
    | none => pure "X"
  else pure c.recordId.pyStr

/-- L142: the session is *not* skipped -/
def included (o : Opts) (c : Session) : Bool :=
  !(!o.includeGroups.isEmpty && !o.includeGroups.contains c.countingGroupId)

/-- L140-195 for one session that is not skipped -/
def recOf (o : Opts) (c : Session) : Except Err Rec := do
  let votes := sessionVotes o c
  let rid ← recordIdStr c
  let tp := c.tabulatorId.pyStr ++ "-" ++ c.batchId.pyStr
  pure { id := tp ++ "-" ++ rid, tallyPool := tp, pool := o.poolGroups.contains c.countingGroupId,
         votes := votes }

/-- L139-196 -/
def readCvrs (o : Opts) : List Session → Except Err (List Rec)
  | [] => pure []
  | c :: cs =>
    if included o c then do
      let r ← recOf o c
      let rs ← readCvrs o cs
      pure (r :: rs)
    else readCvrs o cs

/-- L228-235; `files` = the parsed `CvrExport_*.json` files in sorted-name order -/
def readCvrsDirectory (o : Opts) : List (List Session) → Except Err (List Rec)
  | [] => pure []
  | f :: fs => do
    let a ← readCvrs o f
    let b ← readCvrsDirectory o fs
    pure (a ++ b)

end Shangrla.Dominion
