/-
  Literal model of the RAIRE assertion generator
    shangrla/raire/raire.py        :: compute_raire_assertions            (L14-321)
    shangrla/raire/raire_utils.py  :: ranking (L177-193), vote_for_cand (L196-228),
        NEBAssertion (L330-409), is_suffix (L412-423), NENAssertion (L426-494), RaireNode (L497-548),
        RaireFrontier.replace_descendents / insert_node (L576-635), find_best_audit (L643-742),
        manage_node (L745-821), perform_dive (L824-909)
  generic in the type `D` of difficulty values (the driver instantiates it with `Float` and the two
  shipped difficulty functions `cp_estimate`, `bp_estimate` of sample_estimator.py).

  Python                                      model
  ------                                      -----
  candidate identifiers                       `α` with decidable equality
  ballot  {cand: 0-based position}            `Ballot α = List (α × Nat)` (dict in insertion order)
  cvrs    {id: {contest: ballot, ...}}        `List (Option (Ballot α))`, `none` = the card lacks the contest
  `ranking` returning -1                      `Option Nat`, `none` = -1
  float difficulty / `np.inf`                 `D` / `Diff D = fin d | inf`; `<`, `<=` of floats = `DiffOrd.lt/le`
  `lowerbound = -10`                          `LB D = Option (Diff D)`, `none` = the sentinel -10 (below every
                                              difficulty: both shipped functions return values >= 1 whenever
                                              `tot_ballots >= winner + loser`)
  RaireNode objects (mutated in place, shared by reference through `best_ancestor`, possibly several
  times in the frontier)                      a node STORE `Array (Node α D)`; a node is its index; the
                                              frontier is a `List Nat` of indices
  NEB/NEN assertion objects                   `Assertion α D` records; `rules_out` (a `set` of tuples) is a
                                              duplicate-free list, order irrelevant to every use
                                              (`min`, `all`, filtering); the driver sorts it for output.
                                              All assertions of one run carry the same `contest` name, so the
                                              `self.contest == other.contest` conjunct of `same_as` is `True`.
  in-place `rules_out.update`                 functional update of the list element; sound because the
                                              objects in `assertions` are pairwise distinct objects, NEB
                                              `rules_out` are empty before the subsumption pass, and updating
                                              a set with itself (same node twice in the frontier) is a no-op
  while-loop / recursion                      fuel; `Res.fuel` when it runs out
  exceptions                                  `Res.err`: `max([])`/`nodes[0]` on an empty frontier
                                              (ValueError), `None.same_as` (AttributeError), `rem_cands[0]`
                                              (IndexError). They are shown unreachable in Props/C04.
  `agap`                                      the exit test of L158-163 `agap > 0 and lowerbound > 0 and
                                              max_on_frontier - lowerbound <= agap` is float arithmetic; the model
                                              is generic in `D`, so the test on (max_on_frontier, lowerbound) is the
                                              parameter `gap : Diff D → Diff D → Bool` of the `…G` functions (the
                                              driver instantiates it with that float expression; with the sentinel
                                              lowerbound -10 the conjunct `lowerbound > 0` is false). `noGap` is
                                              `agap = 0` (the default); `mainLoop`, `computeRaireAssertions` are the
                                              `noGap` instances
  `log`                                       the `if log:` branches only print (to `stream`, and L259 to stdout);
                                              not modelled — the correspondence runs the real code with `log=True`
                                              as well and requires the same result
  Preconditions outside of which model and code may differ (the harness never generates them):
  candidates duplicate-free; `contest.outcome` empty or containing every candidate (else
  `list.index` raises ValueError in perform_dive L872/876); `tot_ballots >=` number of ballots (so that
  `tot_ballots - (w + l)` is a natural number).
  Core Lean only.
-/
namespace Shangrla.Raire

/-! ### difficulty values -/

/-- Python float comparisons `<`, `<=` on difficulty values -/
class DiffOrd (D : Type) where
  lt : D → D → Bool
  le : D → D → Bool

/-- a difficulty or `np.inf` -/
inductive Diff (D : Type) where
  | fin (d : D)
  | inf
deriving Repr, Inhabited

namespace Diff
variable {D : Type} [DiffOrd D]
/-- `a < b` -/
def lt : Diff D → Diff D → Bool
  | fin a, fin b => DiffOrd.lt a b
  | fin _, inf => true
  | inf, _ => false
/-- `a <= b` -/
def le : Diff D → Diff D → Bool
  | fin a, fin b => DiffOrd.le a b
  | _, inf => true
  | inf, fin _ => false
/-- `a == np.inf` -/
def isInf : Diff D → Bool
  | inf => true
  | fin _ => false
end Diff

/-- the running lower bound: `none` = the initial sentinel `-10` -/
abbrev LB (D : Type) := Option (Diff D)

section
variable {D : Type} [DiffOrd D]
/-- `e <= lowerbound` -/
def leLB (e : Diff D) : LB D → Bool
  | none => false
  | some l => Diff.le e l
/-- `max(lowerbound, x)` (Python returns the first argument unless the second is strictly larger) -/
def maxLB (lb : LB D) (x : Diff D) : LB D :=
  match lb with
  | none => some x
  | some l => if Diff.lt l x then some x else some l
/-- `max(lowerbound, dive_lb)` where both are lower bounds -/
def maxLB2 (lb : LB D) (x : LB D) : LB D :=
  match x with
  | none => lb
  | some d => maxLB lb d
/-- `dive_lb == np.inf` -/
def LB.isInf : LB D → Bool
  | some d => d.isInf
  | none => false
end

/-! ### ballots -/

abbrev Ballot (α : Type) := List (α × Nat)

variable {α : Type} [DecidableEq α]

/-- raire_utils.py L177-193; `none` = -1 -/
def ranking (c : α) (b : Ballot α) : Option Nat := b.lookup c

/-- raire_utils.py L196-228 -/
def voteForCand (c : α) (elim : List α) (b : Ballot α) : Nat :=
  if elim.contains c then 0
  else match ranking c b with
    | none => 0
    | some ci =>
      if b.any (fun p => !(p.1 == c) && !(elim.contains p.1) && decide (p.2 < ci)) then 0 else 1

/-- NEBAssertion.is_vote_for_winner L350-354 (`none` = contest not on the card) -/
def nebVoteW (w : α) : Option (Ballot α) → Nat
  | none => 0
  | some b => if ranking w b = some 0 then 1 else 0

/-- NEBAssertion.is_vote_for_loser L356-364 -/
def nebVoteL (w l : α) : Option (Ballot α) → Nat
  | none => 0
  | some b =>
    match ranking l b with
    | none => 0
    | some li =>
      match ranking w b with
      | none => 1
      | some wi => if li < wi then 1 else 0

/-! ### assertions -/

inductive Kind where
  | neb
  | nen
deriving DecidableEq, Repr, Inhabited

/-- NEBAssertion / NENAssertion objects; `eliminated = []` for NEB (the attribute does not exist there
and is never read) -/
structure Assertion (α D : Type) where
  kind : Kind
  winner : α
  loser : α
  eliminated : List α
  votesW : Nat
  votesL : Nat
  difficulty : D
  rulesOut : List (List α)
deriving Repr

structure Contest (α : Type) where
  candidates : List α
  totBallots : Nat
  /-- `contest.outcome`, the reported elimination order used as a diving hint (`[]` = none) -/
  outcome : List α

variable {D : Type} [DiffOrd D]

/-- raire.py L77-98: the body of the double loop for one ordered pair `c ≠ d` -/
def mkNeb (asn : Nat → Nat → Nat → Nat → D) (C : Contest α) (cvrs : List (Option (Ballot α)))
    (c d : α) : Option (Assertion α D) :=
  let tc := (cvrs.map (nebVoteW c)).sum
  let td := (cvrs.map (nebVoteL c d)).sum
  if tc > td then
    some { kind := .neb, winner := c, loser := d, eliminated := [], votesW := tc, votesL := td,
           difficulty := asn tc td (C.totBallots - (tc + td)) C.totBallots, rulesOut := [] }
  else none

/-- `nebs`: dict of dicts, `None` on the diagonal and where the tally inequality fails -/
abbrev NebTable (α D : Type) := List (α × List (α × Option (Assertion α D)))

/-- raire.py L74-98 -/
def nebTable (asn : Nat → Nat → Nat → Nat → D) (C : Contest α) (cvrs : List (Option (Ballot α))) :
    NebTable α D :=
  C.candidates.map fun c =>
    (c, C.candidates.map fun d => (d, if c = d then none else mkNeb asn C cvrs c d))

/-- `neb_matrix[c][d]` (a KeyError is impossible: only candidates are looked up; modelled as `None`) -/
def nebLookup (nebs : NebTable α D) (c d : α) : Option (Assertion α D) :=
  match nebs.lookup c with
  | none => none
  | some row =>
    match row.lookup d with
    | none => none
    | some x => x

/-- `if x != None and (best is None or x.difficulty < best.difficulty): best = x` -/
def pick (best cand : Option (Assertion α D)) : Option (Assertion α D) :=
  match cand with
  | none => best
  | some a =>
    match best with
    | none => some a
    | some b => if DiffOrd.lt a.difficulty b.difficulty then some a else some b

/-- `[c for c in contest.candidates if not c in node.tail]` -/
def notIn (C : Contest α) (tail : List α) : List α := C.candidates.filter fun c => !tail.contains c

/-- tally of `c` after `elim` are eliminated, over the ballots that contain the contest -/
def tally (ballots : List (Ballot α)) (c : α) (elim : List α) : Nat :=
  (ballots.map (voteForCand c elim)).sum

/-- L714-737: the NEN candidate for `later` (created by Python only when it improves on `best`;
`pick` performs that comparison) -/
def mkNen (asn : Nat → Nat → Nat → Nat → D) (C : Contest α) (ballots : List (Ballot α))
    (tail : List α) (first later : α) : Option (Assertion α D) :=
  let elim := notIn C tail
  let tf := tally ballots first elim
  let tl := tally ballots later elim
  if tf > tl then
    some { kind := .nen, winner := first, loser := later, eliminated := elim, votesW := tf, votesL := tl,
           difficulty := asn tf tl (C.totBallots - (tf + tl)) C.totBallots, rulesOut := [tail] }
  else none

/-- raire_utils.py L643-742: returns `(node.best_assertion, node.estimate)` for a node with tail `tail` -/
def findBestAudit (asn : Nat → Nat → Nat → Nat → D) (C : Contest α) (ballots : List (Ballot α))
    (nebs : NebTable α D) (tail : List α) : Option (Assertion α D) × Diff D :=
  match tail with
  | [] => (none, Diff.inf)                 -- `node.tail[0]` IndexError; tails have length >= 2
  | first :: rest =>
    -- L678-686
    let b1 := rest.foldl (fun best later => pick best (nebLookup nebs first later)) none
    -- L690-703
    let elim := notIn C tail
    let b2 := elim.foldl (fun best cand =>
      tail.foldl (fun best cit => pick best (nebLookup nebs cand cit)) best) b1
    -- L711-737
    let b3 := rest.foldl (fun best later => pick best (mkNen asn C ballots tail first later)) b2
    -- L739-742
    match b3 with
    | none => (none, Diff.inf)
    | some a => (some a, Diff.fin a.difficulty)

/-! ### nodes, store, frontier -/

structure Node (α D : Type) where
  tail : List α
  best : Option (Assertion α D)
  /-- `best_ancestor`, a reference to another node = its index in the store -/
  bestAnc : Option Nat
  expandable : Bool
  estimate : Diff D
  explored : List α
  diveNode : Bool

instance : Inhabited (Node α D) := ⟨⟨[], none, none, false, Diff.inf, [], false⟩⟩

abbrev Store (α D : Type) := Array (Node α D)

def Store.get (s : Store α D) (i : Nat) : Node α D := (s[i]?).getD default

/-- search state: node store, frontier (`frontier.nodes`), `lowerbound` -/
structure St (α D : Type) where
  store : Store α D
  fr : List Nat
  lb : LB D

/-- RaireNode.is_descendent_of L530-548 on tails -/
def isDescendentOf (t1 t2 : List α) : Bool :=
  if t1.length ≤ t2.length then false else t1.drop (t1.length - t2.length) == t2

/-- the `while` loop of insert_node L626-635 -/
def insertSorted (s : Store α D) (est : Diff D) (id : Nat) : List Nat → List Nat
  | [] => [id]
  | x :: xs => if Diff.le (s.get x).estimate est then id :: x :: xs else x :: insertSorted s est id xs

/-- RaireFrontier.insert_node L606-635 -/
def insertNode (s : Store α D) (fr : List Nat) (id : Nat) : List Nat :=
  let node := s.get id
  if !node.expandable then fr ++ [id]
  else if node.estimate.isInf then id :: fr
  else insertSorted s node.estimate id fr

/-- RaireFrontier.replace_descendents L576-603 (deleting the collected indices in reverse = filtering) -/
def replaceDescendents (s : Store α D) (fr : List Nat) (id : Nat) : List Nat :=
  let t := (s.get id).tail
  insertNode s (fr.filter fun j => !isDescendentOf (s.get j).tail t) id

/-- manage_node L745-821: `(audit_not_possible, terminus, state with the new lower bound)`.
`id` is the freshly created node, already in the store. Every caller has set `best_ancestor`
(raire.py L240, raire_utils.py L889), so the `none` branch is unreachable. -/
def manageNode (st : St α D) (id : Nat) : Bool × Bool × St α D :=
  let newn := st.store.get id
  if !newn.expandable then
    match newn.bestAnc with
    | none => (true, true, { st with lb := some Diff.inf })     -- unreachable (AttributeError)
    | some anc =>
      let ae := (st.store.get anc).estimate
      if newn.estimate.isInf && ae.isInf then
        (true, true, { st with lb := some Diff.inf })
      else if Diff.le ae newn.estimate then
        (false, true, { st with lb := maxLB st.lb ae, fr := replaceDescendents st.store st.fr anc })
      else
        (false, true, { st with lb := maxLB st.lb newn.estimate, fr := insertNode st.store st.fr id })
  else
    (false, false, { st with fr := insertNode st.store st.fr id })

inductive Err where
  | ValueError
  | AttributeError
  | IndexError
deriving DecidableEq, Repr

inductive Res (β : Type) where
  | ok (b : β)
  | fuel
  | err (e : Err)

/-- L240-243 / L889-891 and L236-245 / L882-893: the child `c :: tail(parent)` -/
def mkChild (asn : Nat → Nat → Nat → Nat → D) (C : Contest α) (ballots : List (Ballot α))
    (nebs : NebTable α D) (s : Store α D) (parent : Nat) (c : α) (dive : Bool) : Node α D :=
  let p := s.get parent
  let tail := c :: p.tail
  let anc := match p.bestAnc with
    | some a => if Diff.le (s.get a).estimate p.estimate then a else parent
    | none => parent
  let r := findBestAudit asn C ballots nebs tail
  { tail := tail, best := r.1, bestAnc := some anc,
    expandable := !(tail.length == C.candidates.length), estimate := r.2, explored := [],
    diveNode := dive }

/-- perform_dive L870-880: the remaining candidate latest in `contest.outcome` (first one if no hint) -/
def nextCand (outcome : List α) (c0 : α) (rest : List α) : α :=
  if outcome.isEmpty then c0
  else
    (rest.foldl (fun (acc : α × Nat) c =>
      let ipos := outcome.idxOf c
      if ipos > acc.2 then (c, ipos) else acc) (c0, outcome.idxOf c0)).1

/-- perform_dive L824-909; the returned state's `lb` is the function's return value
(`np.inf` when the audit is not possible) -/
def performDive (asn : Nat → Nat → Nat → Nat → D) (C : Contest α) (ballots : List (Ballot α))
    (nebs : NebTable α D) : Nat → Nat → St α D → Res (St α D)
  | 0, _, _ => Res.fuel
  | fuel + 1, nid, st =>
    let node := st.store.get nid
    match notIn C node.tail with
    | [] => Res.err Err.IndexError
    | c0 :: rest =>
      let next := nextCand C.outcome c0 rest
      let newn := mkChild asn C ballots nebs st.store nid next true
      -- L886 node.explored.append(next_cand)
      let s1 := (st.store.setIfInBounds nid { node with explored := node.explored ++ [next] }).push newn
      let id := st.store.size
      let r := manageNode { st with store := s1 } id
      if r.1 then Res.ok { r.2.2 with lb := some Diff.inf }
      else if r.2.1 then Res.ok r.2.2
      else performDive asn C ballots nebs fuel id r.2.2

/-- raire.py L234-255: the expansion loop over `contest.candidates`; `(audit_not_possible, state)` -/
def expandLoop (asn : Nat → Nat → Nat → Nat → D) (C : Contest α) (ballots : List (Ballot α))
    (nebs : NebTable α D) (te : Nat) : List α → St α D → Bool × St α D
  | [], st => (false, st)
  | c :: cs, st =>
    let n := st.store.get te
    if !n.tail.contains c && !n.explored.contains c then
      let newn := mkChild asn C ballots nebs st.store te c false
      let id := st.store.size
      let r := manageNode { st with store := st.store.push newn } id
      if r.1 then (true, r.2.2) else expandLoop asn C ballots nebs te cs r.2.2
    else expandLoop asn C ballots nebs te cs st

/-- L173-183 / L213-223: the two pruning tests on the popped node; `some` = `continue` with that state -/
def pruneChecks (st : St α D) (te : Nat) : Option (St α D) :=
  let n := st.store.get te
  let ancHit : Option Nat := match n.bestAnc with
    | some a => if leLB (st.store.get a).estimate st.lb then some a else none
    | none => none
  match ancHit with
  | some a => some { st with fr := replaceDescendents st.store st.fr a }
  | none =>
    if leLB n.estimate st.lb then
      let s1 := st.store.setIfInBounds te { n with expandable := false }
      some { st with store := s1, fr := insertNode s1 st.fr te }
    else none

/-- L158 `max([node.estimate for node in frontier.nodes])` of a non-empty frontier `te :: rest` (Python's `max`
keeps the first of equal values) -/
def maxEst (s : Store α D) (te : Nat) (rest : List Nat) : Diff D :=
  rest.foldl (fun m i => if Diff.lt m (s.get i).estimate then (s.get i).estimate else m) (s.get te).estimate

/-- L160 `agap > 0 and lowerbound > 0 and max_on_frontier - lowerbound <= agap`, the float test being `gap`;
with the sentinel `lowerbound = -10` the second conjunct is false -/
def gapExit (gap : Diff D → Diff D → Bool) (mx : Diff D) : LB D → Bool
  | none => false
  | some l => gap mx l

/-- `agap = 0` (the default): the exit test is never true -/
def noGap : Diff D → Diff D → Bool := fun _ _ => false

/-- raire.py L156-262. `Res.ok none` = `audit_not_possible`, `Res.ok (some st)` = normal exit (also the
`agap` exit of L160-163) -/
def mainLoopG (gap : Diff D → Diff D → Bool) (asn : Nat → Nat → Nat → Nat → D) (C : Contest α)
    (ballots : List (Ballot α)) (nebs : NebTable α D) : Nat → St α D → Res (Option (St α D))
  | 0, _ => Res.fuel
  | fuel + 1, st =>
    match st.fr with
    | [] => Res.err Err.ValueError                       -- L158 max([])
    | te :: rest =>
      if gapExit gap (maxEst st.store te rest) st.lb then Res.ok (some st)   -- L158-163
      else
      let n := st.store.get te
      if !n.expandable then Res.ok (some st)             -- L168
      else
        let st0 := { st with fr := rest }                -- L171
        match pruneChecks st0 te with                    -- L173-183
        | some st' => mainLoopG gap asn C ballots nebs fuel st'
        | none =>
          let expand := fun (st1 : St α D) =>
            let r := expandLoop asn C ballots nebs te C.candidates st1
            if r.1 then Res.ok none else mainLoopG gap asn C ballots nebs fuel r.2
          if !n.diveNode then                            -- L191
            match performDive asn C ballots nebs (C.candidates.length + 1) te st0 with
            | Res.fuel => Res.fuel
            | Res.err e => Res.err e
            | Res.ok sd =>
              if LB.isInf sd.lb then Res.ok none         -- L195-202
              else
                let st1 := { sd with lb := maxLB2 st.lb sd.lb }   -- L211
                match pruneChecks st1 te with            -- L213-223
                | some st' => mainLoopG gap asn C ballots nebs fuel st'
                | none => expand st1
          else expand st0

/-- the main loop with `agap = 0` -/
abbrev mainLoop (asn : Nat → Nat → Nat → Nat → D) (C : Contest α) (ballots : List (Ballot α))
    (nebs : NebTable α D) : Nat → St α D → Res (Option (St α D)) :=
  mainLoopG noGap asn C ballots nebs

/-- raire.py L121-143: the initial frontier; `none` = the early `return []` of L134 -/
def initLoop (asn : Nat → Nat → Nat → Nat → D) (C : Contest α) (ballots : List (Ballot α))
    (nebs : NebTable α D) : List (List α) → St α D → Option (St α D)
  | [], st => some st
  | t :: ts, st =>
    let r := findBestAudit asn C ballots nebs t
    let newn : Node α D :=
      { tail := t, best := r.1, bestAnc := none, expandable := decide (C.candidates.length > 2),
        estimate := r.2, explored := [], diveNode := false }
    if !newn.expandable && newn.best.isNone then none
    else
      let id := st.store.size
      let s1 := st.store.push newn
      initLoop asn C ballots nebs ts { st with store := s1, fr := insertNode s1 st.fr id }

/-- the tails `[d, c]` of L121-127 in loop order -/
def initTails (C : Contest α) (winner : α) : List (List α) :=
  C.candidates.flatMap fun c =>
    if c = winner then [] else C.candidates.filterMap fun d => if c = d then none else some [d, c]

/-! ### post-processing -/

/-- NEBAssertion.same_as L366-368 / NENAssertion.same_as L460-465 (`self = a`) -/
def sameAs (a b : Assertion α D) : Bool :=
  match a.kind with
  | .neb => b.kind == .neb && a.winner == b.winner && a.loser == b.loser
  | .nen => b.kind == .nen && a.winner == b.winner && a.loser == b.loser && a.eliminated == b.eliminated

/-- `x.update(y)` on duplicate-free lists -/
def unionRO (x y : List (List α)) : List (List α) :=
  y.foldl (fun acc t => if acc.contains t then acc else acc ++ [t]) x

/-- raire.py L278-286 for one node's assertion `a` -/
def dedupeInsert (a : Assertion α D) : List (Assertion α D) → List (Assertion α D)
  | [] => [a]
  | x :: xs =>
    if sameAs a x then { x with rulesOut := unionRO x.rulesOut a.rulesOut } :: xs
    else x :: dedupeInsert a xs

/-- raire.py L275-286; AttributeError if a frontier node has no assertion -/
def dedupe (s : Store α D) : List Nat → List (Assertion α D) → Res (List (Assertion α D))
  | [], acc => Res.ok acc
  | id :: ids, acc =>
    match (s.get id).best with
    | none => Res.err Err.AttributeError
    | some a => dedupe s ids (dedupeInsert a acc)

/-- the key compared by `RaireAssertion.__lt__` L305-312 -/
def sortKey (a : Assertion α D) : Int :=
  match a.rulesOut with
  | [] => -1
  | t :: ts => ((ts.map List.length).foldl min t.length : Nat)

/-- insertion step of a stable sort: after every element whose key is `<=` -/
def insertByKey (x : Assertion α D) : List (Assertion α D) → List (Assertion α D)
  | [] => [x]
  | y :: ys => if sortKey x < sortKey y then x :: y :: ys else y :: insertByKey x ys

/-- `sorted(assertions)` L290: Python's sort is stable and uses only `__lt__` -/
def sortAssertions (l : List (Assertion α D)) : List (Assertion α D) :=
  l.foldl (fun acc x => insertByKey x acc) []

/-- `-1 if not c in ro else ro.index(c)` -/
def idxOrNeg (c : α) (ro : List α) : Int := if ro.contains c then (ro.idxOf c : Nat) else -1

/-- is_suffix L412-423: `listb` ends with `lista` -/
def isSuffix (lista listb : List α) : Bool :=
  if listb.length < lista.length then false
  else listb.drop (listb.length - lista.length) == lista

/-- NEBAssertion.subsumes L370-405 (`self = f`) -/
def nebSubsumes (f o : Assertion α D) : Bool :=
  if o.kind == .neb then false
  else if f.winner == o.winner && f.loser == o.loser then true
  else if f.winner == o.winner && !o.eliminated.contains f.loser then true
  else if o.eliminated.contains f.winner && !o.eliminated.contains f.loser then true
  else o.rulesOut.all fun ro =>
    let idxw := idxOrNeg f.winner ro
    let idxl := idxOrNeg f.loser ro
    !(idxw == idxl || idxl < idxw)

/-- NENAssertion.subsumes L467-482 (`self = f`) -/
def nenSubsumes (f o : Assertion α D) : Bool :=
  if o.kind == .neb then false
  else (f.rulesOut.foldl (fun oro ro => oro.filter fun t => !isSuffix ro t) o.rulesOut).isEmpty

def subsumes (f o : Assertion α D) : Bool :=
  match f.kind with
  | .neb => nebSubsumes f o
  | .nen => nenSubsumes f o

/-- raire.py L299-308: the first member of `final_audit` that subsumes `a` absorbs its `rules_out` -/
def absorb (a : Assertion α D) : List (Assertion α D) → Option (List (Assertion α D))
  | [] => none
  | f :: fs =>
    if subsumes f a then some ({ f with rulesOut := unionRO f.rulesOut a.rulesOut } :: fs)
    else (absorb a fs).map (f :: ·)

/-- raire.py L293-311 -/
def subsumePass : List (Assertion α D) → List (Assertion α D)
  | [] => []
  | x :: xs => xs.foldl (fun fin a => match absorb a fin with
      | some fin' => fin'
      | none => fin ++ [a]) [x]

/-- raire.py L14-321 (`log = False`), the `agap` test being `gap` -/
def computeRaireAssertionsG (gap : Diff D → Diff D → Bool) (asn : Nat → Nat → Nat → Nat → D) (C : Contest α)
    (cvrs : List (Option (Ballot α))) (winner : α) (fuel : Nat) : Res (List (Assertion α D)) :=
  let nebs := nebTable asn C cvrs                                     -- L74-98
  let ballots := cvrs.filterMap id                                    -- L109-110
  match initLoop asn C ballots nebs (initTails C winner) ⟨#[], [], none⟩ with   -- L114-143
  | none => Res.ok []
  | some st0 =>
    match mainLoopG gap asn C ballots nebs fuel st0 with              -- L156-262
    | Res.fuel => Res.fuel
    | Res.err e => Res.err e
    | Res.ok none => Res.ok []                                        -- L265-269
    | Res.ok (some st) =>
      match dedupe st.store st.fr [] with                             -- L275-286
      | Res.ok as => Res.ok (subsumePass (sortAssertions as))         -- L290-311
      | Res.fuel => Res.fuel
      | Res.err e => Res.err e

/-- raire.py L14-321 with `agap = 0` (the default), `log = False` -/
abbrev computeRaireAssertions (asn : Nat → Nat → Nat → Nat → D) (C : Contest α)
    (cvrs : List (Option (Ballot α))) (winner : α) (fuel : Nat) : Res (List (Assertion α D)) :=
  computeRaireAssertionsG noGap asn C cvrs winner fuel

end Shangrla.Raire
