/-
  Literal model of `shangrla/core/Audit.py::CVR.make_phantoms` (L629-717).

  Python                                        model
  ------                                        -----
  CVR (what the function reads / creates)       `Rec`: `id`, `styles` = keys of `votes` in insertion order
                                                (phantoms are created with `votes={}` and get `votes[con.id] = {}`),
                                                `phantom`
  audit.strata (exactly one stratum)            `useStyle`, `maxCards`   (more than one stratum raises
                                                NotImplementedError at L679-680; not a model input)
  contests : dict of Contest                    `List Contest` in dict order; `cards : Option Nat` (`None` = not
                                                specified), `cvrs`
  con.cvrs = int(np.sum([... not cvr.phantom])) number of non-phantom records listing the contest (L686-688)
  phantoms = max_cards - n_cvrs; range(phantoms) the returned count is an `Int` (negative when there are more
                                                records than `max_cards`; `range` of a negative number is empty)
  con.cards - con.cvrs (may be negative)        truncated subtraction: `while len < needed` and `range(needed)`
                                                do nothing for `needed ≤ 0`
  prefix + str(k)                               `pfx ++ toString k`
  Core Lean only.
-/
import Shangrla.Model.Sampling

namespace Shangrla.Phantoms
open Shangrla.Sampling (ContestId Contest)

structure Rec where
  id : String
  styles : List ContestId
  phantom : Bool
deriving Repr, DecidableEq, Inhabited

/-- `cvr.has_contest(contest_id)` -/
def Rec.has (r : Rec) (c : ContestId) : Bool := r.styles.contains c

/-- L686-688 -/
def countCvrs (cvrs : List Rec) (c : ContestId) : Nat :=
  (cvrs.filter (fun r => !r.phantom && r.has c)).length

/-- L685-692: set `cvrs` and `cards` of every contest -/
def setParams (useStyle : Bool) (maxCards : Nat) (cvrs : List Rec) (contests : List Contest) : List Contest :=
  contests.map (fun con =>
    { con with
      cvrs := countCvrs cvrs con.id
      cards := if con.cards.isNone || !useStyle then some maxCards else con.cards })

/-- `CVR(id=prefix + str(k + 1), votes={}, phantom=True, …)` where `k` phantoms exist already -/
def mkPhantom (pfx : String) (k : Nat) : Rec := { id := pfx ++ toString (k + 1), styles := [], phantom := true }

/-- L700-709: `while len(phantom_vrs) < phantoms_needed: phantom_vrs.append(…)`;
first argument = number of iterations left (`phantoms_needed - len(phantom_vrs)`) -/
def grow (pfx : String) : Nat → List Rec → List Rec
  | 0, ph => ph
  | k + 1, ph => grow pfx k (ph ++ [mkPhantom pfx ph.length])

/-- `phantom_vrs[i].votes[con.id] = {}` (assignment to an existing key keeps the dict unchanged) -/
def listContest (c : ContestId) (r : Rec) : Rec :=
  if r.styles.contains c then r else { r with styles := r.styles ++ [c] }

/-- L710-713: `for i in range(phantoms_needed): phantom_vrs[i].votes[con.id] = {}` -/
def markFirst (c : ContestId) : Nat → List Rec → List Rec
  | 0, ph => ph
  | _ + 1, [] => []          -- not reachable: the list was grown to at least `phantoms_needed`
  | n + 1, r :: rs => listContest c r :: markFirst c n rs

/-- L698-713: one iteration of `for c, con in contests.items()` (style branch) -/
def styleStep (pfx : String) (ph : List Rec) (con : Contest) : List Rec :=
  let needed := (con.cards.getD 0) - con.cvrs                                 -- L699
  markFirst con.id needed (grow pfx (needed - ph.length) ph)

/-- L629-717.  Returns `(cvr_list + phantom_vrs, phantoms, contests with cards / cvrs set)`. -/
def makePhantoms (useStyle : Bool) (maxCards : Nat) (pfx : String) (contests : List Contest)
    (cvrs : List Rec) : List Rec × Int × List Contest :=
  let cons := setParams useStyle maxCards cvrs contests                       -- L685-692
  if !useStyle then                                                           -- L694-697
    let phantoms : Int := (maxCards : Int) - (cvrs.length : Int)
    let ph := (List.range (maxCards - cvrs.length)).map (mkPhantom pfx)
    (cvrs ++ ph, phantoms, cons)
  else                                                                        -- L698-714
    let ph := cons.foldl (styleStep pfx) []
    (cvrs ++ ph, (ph.length : Int), cons)

end Shangrla.Phantoms
