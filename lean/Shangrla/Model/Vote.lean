/-
  Shared base: vote values, Python truthiness and the parts of `shangrla/core/Audit.py::CVR`
  that read a card (L200-263, L577).  Core Lean only.

  Python                                   model
  ------                                   -----
  a value stored for a candidate           `Val` (`True/False`, an `int`, a `str`)
  `bool(v)`                                `truthy v`
  `CVR.votes` (dict of dicts)              association list contest ↦ (association list candidate ↦ Val),
                                           insertion order; a Python dict has distinct keys
                                           (`CVR.WF`), `d[k]` / `k in d` are `List.lookup`
  `CVR.get_vote_for`  (L200-205)           `CVR.getVoteFor`  (`False` for a missing contest or candidate)
  `CVR.has_contest`   (L207-208)           `CVR.hasContest`
  `CVR.has_one_vote`  (L237-263)           `CVR.hasOneVote`  (repaired code: `False` for a missing contest)
  `CVR.as_vote`       (L577)               `asVote`
-/
namespace Shangrla.Vote

/-- the values the code meets in a vote dict: `bool`, `int`, `str` -/
inductive Val where
  | b (v : Bool)
  | i (n : Int)
  | s (str : String)
deriving DecidableEq, Repr, Inhabited

/-- Python `bool(v)` -/
def truthy : Val → Bool
  | .b v => v
  | .i n => n != 0
  | .s str => str != ""

/-- L577 `CVR.as_vote(v) = int(bool(v))` -/
def asVote (v : Val) : Nat := if truthy v then 1 else 0

/-- the votes of one card in one contest: candidate ↦ value, insertion order -/
abbrev Marks := List (String × Val)

structure CVR where
  id : String := ""
  votes : List (String × Marks) := []
  phantom : Bool := false
deriving Repr, Inhabited

namespace CVR

/-- `self.votes[contest_id]` when `contest_id in self.votes` -/
def marksOf (c : CVR) (contest : String) : Option Marks := c.votes.lookup contest

/-- L207-208 -/
def hasContest (c : CVR) (contest : String) : Bool := (c.marksOf contest).isSome

/-- L200-205: `False` if the contest or the candidate is missing, else the stored value -/
def getVoteFor (c : CVR) (contest cand : String) : Val :=
  match c.marksOf contest with
  | none => .b false
  | some m =>
    match m.lookup cand with
    | none => .b false
    | some v => v

/-- L253-262: `np.sum([0 if c not in votes else bool(votes[c]) for c in candidates])` -/
def nMarked (m : Marks) (cands : List String) : Nat :=
  (cands.map (fun c => match m.lookup c with | none => 0 | some v => asVote v)).sum

/-- L237-263 -/
def hasOneVote (c : CVR) (contest : String) (cands : List String) : Bool :=
  match c.marksOf contest with
  | none => false                               -- L251-252
  | some m => nMarked m cands == 1              -- L263

/-- the representation invariant of a Python dict of dicts: keys are distinct -/
def WF (c : CVR) : Prop :=
  (c.votes.map (·.1)).Nodup ∧ ∀ p ∈ c.votes, (p.2.map (·.1)).Nodup

end CVR

end Shangrla.Vote
