/-
  Literal model of `shangrla/core/IRVVisualisationUtils.py::buildRemainingTreeAsLists` (L226-277).

  Python                                   model
  ------                                   -----
  c                                        `c : α`
  S (a Python `set`)                       duplicate-free `List α` (children in list order; the
                                           harness sorts children before comparing, Python iterates a set)
  WOLosers  : list of (loser, winner, proved)        `List (α × α × Bool)`
  IRVElims  : list of (cand, set(elim), proved)      `List (α × List α × Bool)` (list read as a set)
  LeafNode(cand, NEBTagList, IRVTagList)   `Tree.leaf`
  [c, [subtrees]]                          `Tree.node`
  `WOLosers.index(loser)`                  index of the first equal tuple (`List.idxOf`)
  Core Lean only.
-/
namespace Shangrla.ElimTree

inductive Tree (α : Type) where
  | leaf (c : α) (neb irv : List (Nat × Bool))
  | node (c : α) (kids : List (Tree α))
deriving Repr, Inhabited

variable {α : Type} [DecidableEq α]

/-- Python `set == set` on two lists read as sets -/
def setEq (a b : List α) : Bool := a.all (fun x => b.contains x) && b.all (fun x => a.contains x)

/-- L238-241: NEB tags of node `(c, S)` -/
def nebTags (wo : List (α × α × Bool)) (c : α) (S : List α) : List (Nat × Bool) :=
  (wo.filter (fun t => decide (c = t.1) && S.contains t.2.1)).map (fun t => (wo.idxOf t, t.2.2))

/-- Python `==` on `(cand, set, proved)` tuples -/
def irvEq (t t' : α × List α × Bool) : Bool :=
  decide (t.1 = t'.1) && setEq t.2.1 t'.2.1 && decide (t.2.2 = t'.2.2)

/-- L245-248: IRV tags of node `(c, S)`; `IRVElims.index(winner)` is the first `==` tuple -/
def irvTags (irv : List (α × List α × Bool)) (c : α) (S : List α) : List (Nat × Bool) :=
  (irv.filter (fun t => decide (c = t.1) && setEq t.2.1 S)).map
    (fun t => (irv.findIdx (fun t' => irvEq t' t), t.2.2))

/-- is node `(c, S)` pruned (L250) -/
def pruned (wo : List (α × α × Bool)) (irv : List (α × List α × Bool)) (c : α) (S : List α) : Bool :=
  !(nebTags wo c S).isEmpty || !(irvTags irv c S).isEmpty

/-- L226-277; `fuel ≥ S.length` (the recursion removes one element of `S` per level) -/
def build (wo : List (α × α × Bool)) (irv : List (α × List α × Bool)) :
    Nat → α → List α → Tree α
  | fuel, c, S =>
    let nt := nebTags wo c S
    let it := irvTags irv c S
    if !nt.isEmpty || !it.isEmpty then Tree.leaf c nt it
    else if S.isEmpty then Tree.leaf c [] []
    else match fuel with
      | 0 => Tree.leaf c [] []          -- unreachable when fuel ≥ S.length
      | fuel + 1 => Tree.node c (S.map (fun c2 => build wo irv fuel c2 (S.erase c2)))

mutual
/-- does the tree contain a leaf with no tags ("***Unpruned leaf***", L43-44) -/
def hasUnpruned : Tree α → Bool
  | Tree.leaf _ neb irv => neb.isEmpty && irv.isEmpty
  | Tree.node _ kids => hasUnprunedL kids
def hasUnprunedL : List (Tree α) → Bool
  | [] => false
  | t :: ts => hasUnpruned t || hasUnprunedL ts
end

end Shangrla.ElimTree
