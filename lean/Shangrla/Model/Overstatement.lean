/-
  Literal model of the overstatement / comparison-audit data path of `shangrla/core/Audit.py`:

  (line numbers of /repo at commit eb4e056)
    Assorter.mean                         L2451-2473   `meanA`
    Assorter.set_tally_pool_means         L2475-2520   `poolMeans`
    Assorter.overstatement                L2546-2594   `overstatement`  (`mvrAssort`, `cvrAssort`)
    Assertion.overstatement_assorter      L1456-1488   `overstatementAssorter`
    Assertion.set_margin_from_cvrs        L1490-1529   `setMarginFromCvrs` (`marginFromCvrs`, `testUFor`)
    Assertion.set_all_margins_from_cvrs   L2264-2284   `setAllMarginsFromCvrs` (one assertion; the same `u`, `testUFor`)
    Assertion.mvrs_to_data                L1609-1672   `mvrsToData`
    Assertion.set_p_values                L2330-2331   `setPValuesU`  (only `asn.test.u = u`)

  MODELLING DECISION.  The raw assorter `A` is a parameter: a record carries the value `a = A(record)`
  (any rational; the theorems assume `0 ≤ a ≤ upper_bound`).  A card is the data the anchored functions
  read:
      CVR:  `has_contest(contest.id)`, `phantom`, `pool`, `tally_pool`, `A(cvr)`, `sample_num`
      MVR:  `has_contest(contest.id)`, `phantom`, `A(mvr)`
  Python                                   model
  ------                                   -----
  float                                    `Rat` / `XR` (`np.nan` from an empty mean or an empty pool)
  `tally_pool` (any hashable, may be None)  `Option String`
  dict `tally_pool_means`                  association list, first match = dict lookup; `None` = `none`
  exception                                `Except Err`
  Core Lean only.
-/
import Shangrla.Num.XR

namespace Shangrla.Overstatement
open Shangrla

inductive Err where
  | ValueError | KeyError | TypeError | IndexError | NotImplementedError | StopIteration
deriving DecidableEq, Repr, Inhabited

def Err.toStr : Err → String
  | .ValueError => "ValueError"
  | .KeyError => "KeyError"
  | .TypeError => "TypeError"
  | .IndexError => "IndexError"
  | .NotImplementedError => "NotImplementedError"
  | .StopIteration => "StopIteration"

/-- `Audit.AUDIT_TYPE` (L986-995); anything else is `other` -/
inductive AuditType where
  | polling | cardComparison | oneaudit | other
deriving DecidableEq, Repr, Inhabited

abbrev PoolKey := Option String

structure Cvr where
  hasContest : Bool
  phantom : Bool
  pool : Bool
  tallyPool : PoolKey
  a : Rat
  sampleNum : Nat
deriving Repr, Inhabited

structure Mvr where
  hasContest : Bool
  phantom : Bool
  a : Rat
deriving Repr, Inhabited

/-- the dict `tally_pool_means` -/
abbrev Means := List (PoolKey × XR)

/-- `filtr` of `Assorter.mean` / `set_tally_pool_means` (L2469-2472, L2507-2510):
`has_contest` under style, everything otherwise -/
def passes (useStyle : Bool) (c : Cvr) : Bool := !useStyle || c.hasContest

/-- `Assorter.mean` L2473: `np.mean([self.assort(c) for c in cvr_list if filtr(c)])`; `nan` when empty -/
def meanA (useStyle : Bool) (cvrs : List Cvr) : XR :=
  let l := (cvrs.filter (passes useStyle)).map (·.a)
  if l.isEmpty then XR.nan else XR.fin (l.sum / (l.length : Rat))

/-- L2500-2501: `set(c.tally_pool for c in cvr_list if c.pool)` (first occurrences, in list order) -/
def poolLabels (cvrs : List Cvr) : List PoolKey :=
  ((cvrs.filter (·.pool)).map (·.tallyPool)).eraseDups

/-- L2512-2513: `tally_pool_dict[c.tally_pool]["n"] += 1; ...["tot"] += self.assort(c)`;
`none` = `KeyError` -/
def bump (p : PoolKey) (a : Rat) : List (PoolKey × Nat × Rat) → Option (List (PoolKey × Nat × Rat))
  | [] => none
  | (q, n, t) :: rest =>
      if q = p then some ((q, n + 1, t + a) :: rest)
      else (bump p a rest).map (fun r => (q, n, t) :: r)

/-- the loop L2511-2513 over `[cvr for cvr in cvr_list if (filtr(cvr) and cvr.pool)]` -/
def accumulate (acc : List (PoolKey × Nat × Rat)) : List Cvr → Except Err (List (PoolKey × Nat × Rat))
  | [] => .ok acc
  | c :: cs =>
      match bump c.tallyPool c.a acc with
      | none => .error Err.KeyError
      | some acc' => accumulate acc' cs

/-- `Assorter.set_tally_pool_means` (L2475-2520).  `tallyPools = none` or empty: the labels of the cards
with `pool` (L2500-2501).  Result: the new `tally_pool_means` (`nan` for a pool with `n = 0`, L2514-2520);
on `KeyError` the attribute is left as it was. -/
def poolMeans (useStyle : Bool) (cvrs : List Cvr) (tallyPools : Option (List PoolKey)) : Except Err Means := do
  let keys := match tallyPools with
    | none => poolLabels cvrs
    | some [] => poolLabels cvrs
    | some l => l.eraseDups
  let acc0 : List (PoolKey × Nat × Rat) := keys.map (fun p => (p, 0, 0))
  let acc ← accumulate acc0 (cvrs.filter (fun c => passes useStyle c && c.pool))
  pure (acc.map (fun e => (e.1, if e.2.1 = 0 then XR.nan else XR.fin (e.2.2 / (e.2.1 : Rat)))))

/-- L2579-2585: the MVR's assorter value: 0 for a phantom MVR or (under style) an MVR lacking the contest -/
def mvrAssort (useStyle : Bool) (m : Mvr) : Rat :=
  if m.phantom || (useStyle && !m.hasContest) then 0 else m.a

/-- L2587-2593: the CVR's assorter value: the pool mean when `cvr.pool and tally_pool_means is not None`
(`KeyError` if the pool is not in the dict), else `int(phantom)/2 + (1 - int(phantom)) * A(cvr)` -/
def cvrAssort (means : Option Means) (c : Cvr) : Except Err XR :=
  match c.pool, means with
  | true, some d =>
      match d.lookup c.tallyPool with
      | some m => .ok m
      | none => .error Err.KeyError
  | _, _ =>
      let ph : Rat := if c.phantom then 1 else 0
      .ok (XR.fin (ph / 2 + (1 - ph) * c.a))

/-- `Assorter.overstatement` (L2546-2594) -/
def overstatement (useStyle : Bool) (means : Option Means) (m : Mvr) (c : Cvr) : Except Err XR :=
  if useStyle && !c.hasContest then .error Err.ValueError      -- L2574-2577
  else do
    let ma := mvrAssort useStyle m
    let ca ← cvrAssort means c
    pure (ca - XR.fin ma)                                      -- L2594

/-- `Assertion.overstatement_assorter` (L1484-1488): `(1 - o/u) / (2 - v/u)` -/
def overstatementAssorter (margin : XR) (upper : Rat) (useStyle : Bool) (means : Option Means)
    (m : Mvr) (c : Cvr) : Except Err XR := do
  let o ← overstatement useStyle means m c
  pure ((1 - o / XR.fin upper) / (2 - margin / XR.fin upper))

/-- L1513-1518: `self.margin = 2 * amean - 1` -/
def marginFromCvrs (useStyle : Bool) (cvrs : List Cvr) : XR :=
  2 * meanA useStyle cvrs - 1

/-- the `u` of a test: L1519-1529 (`set_margin_from_cvrs`), L2271-2282 (`set_all_margins_from_cvrs`),
L1662 / L1669 (`mvrs_to_data`): the assorter's bound for polling, `2/(2 - v/u)` for comparison -/
def testUFor (ty : AuditType) (margin : XR) (upper : Rat) : Except Err XR :=
  match ty with
  | .polling => .ok (XR.fin upper)
  | .cardComparison => .ok (2 / (2 - margin / XR.fin upper))
  | .oneaudit => .ok (2 / (2 - margin / XR.fin upper))
  | .other => .error Err.NotImplementedError

/-- `Assertion.set_margin_from_cvrs` (L1490-1529): returns `(margin, test.u)`.
(When the audit type is not supported Python has already stored the margin when it raises; the driver
reports `marginFromCvrs` separately.) -/
def setMarginFromCvrs (nStrata : Nat) (useStyle : Bool) (ty : AuditType) (upper : Rat) (cvrs : List Cvr) :
    Except Err (XR × XR) :=
  if nStrata > 1 then .error Err.NotImplementedError          -- L1509-1510
  else if nStrata = 0 then .error Err.StopIteration           -- L1511 `next(iter(...))`
  else do
    let margin := marginFromCvrs useStyle cvrs
    let u ← testUFor ty margin upper
    pure (margin, u)

/-- `Assertion.set_all_margins_from_cvrs` (L2264-2284) for a contest with one assertion:
`asn.set_margin_from_cvrs(audit, cvr_list)` (L2268), then `asn.test.u = u` (L2271-2282) and
`min_margin = min(np.inf, margin)` (L2283, Python's builtin `min`).  Returns `(margin, test.u, min_margin)`. -/
def setAllMarginsFromCvrs (nStrata : Nat) (useStyle : Bool) (ty : AuditType) (upper : Rat) (cvrs : List Cvr) :
    Except Err (XR × XR × XR) := do
  let (margin, _) ← setMarginFromCvrs nStrata useStyle ty upper cvrs
  let u ← testUFor ty margin upper
  pure (margin, u, XR.pymin XR.pinf margin)

/-- the condition of the comprehension in `mvrs_to_data` (L1653-1659):
`(not use_style) or (cvr.has_contest(con.id) and (use_all or cvr.sample_num <= con.sample_threshold))`;
comparing with `sample_threshold = None` is a `TypeError` -/
def contributes (useStyle useAll : Bool) (threshold : Option Nat) (c : Cvr) : Except Err Bool :=
  if !useStyle then .ok true
  else if !c.hasContest then .ok false
  else if useAll then .ok true
  else match threshold with
    | none => .error Err.TypeError
    | some t => .ok (decide (c.sampleNum ≤ t))

/-- the list comprehension of L1647-1661, `for i in range(len(mvr_sample))` (`cvr_sample[i]` past the
end is an `IndexError`) -/
def compData (margin : XR) (upper : Rat) (useStyle useAll : Bool) (threshold : Option Nat)
    (means : Option Means) : List Mvr → List Cvr → Except Err (List XR)
  | [], _ => .ok []
  | _ :: _, [] => .error Err.IndexError
  | m :: ms, c :: cs => do
      let keep ← contributes useStyle useAll threshold c
      if keep then
        let b ← overstatementAssorter margin upper useStyle means m c
        let rest ← compData margin upper useStyle useAll threshold means ms cs
        pure (b :: rest)
      else compData margin upper useStyle useAll threshold means ms cs

/-- `Assertion.mvrs_to_data` (L1609-1672): returns `(d, u)` -/
def mvrsToData (ty : AuditType) (useStyle useAll : Bool) (threshold : Option Nat) (margin : XR) (upper : Rat)
    (means : Option Means) (mvrs : List Mvr) (cvrs : List Cvr) : Except Err (List XR × XR) :=
  match ty with
  | .cardComparison | .oneaudit => do
      let d ← compData margin upper useStyle useAll threshold means mvrs cvrs
      pure (d, 2 / (2 - margin / XR.fin upper))                         -- L1662
  | .polling => .ok (mvrs.map (fun m => XR.fin m.a), XR.fin upper)      -- L1666-1669
  | .other => .error Err.NotImplementedError                            -- L1671

/-- `Assertion.set_p_values` L2330-2331: `d, u = asn.mvrs_to_data(mvr_sample, cvr_sample)` (so `use_all`
is `False`); `asn.test.u = u`.  Returns the `u` installed in the test. -/
def setPValuesU (ty : AuditType) (useStyle : Bool) (threshold : Option Nat) (margin : XR) (upper : Rat)
    (means : Option Means) (mvrs : List Mvr) (cvrs : List Cvr) : Except Err XR := do
  let (_, u) ← mvrsToData ty useStyle false threshold margin upper means mvrs cvrs
  pure u

end Shangrla.Overstatement
