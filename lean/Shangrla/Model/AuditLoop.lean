/-
  The glue between the statistical tests and the audit status: what one round of
      Assertion.set_p_values(contests, mvr_sample, cvr_sample)   (Audit.py L2285-2337)
      audit.summarize_status(contests)                           (Audit.py L1212-1250)
  computes on the cards drawn so far, when the data of assertion `name` of contest `cid` are the values
  `data cid name card` of the drawn cards in draw order (`mvrs_to_data`) and its test is `T cid name`.
  Core Lean only (used by the driver).
-/
import Shangrla.Model.Status
import Shangrla.Model.NonnegMean

namespace Shangrla.AuditLoop
open Shangrla Shangrla.Status

/-- what a sequential test returns, or raises -/
abbrev SeqTest := List Rat → Except NM.Err (XR × List XR)

/-- "the overall p-value reported on the data `d` is at most `alpha`" (an exception reports nothing) -/
def pLe (T : SeqTest) (alpha : Rat) (d : List Rat) : Bool :=
  match T d with
  | .ok r => XR.le r.1 (XR.fin alpha)
  | .error _ => false

/-- the function `set_p_values` evaluates for (contest, assertion) on the cards drawn so far:
`asn.test.test(asn.mvrs_to_data(sample))`; an exception leaves no p-value (modelled as NaN, never `≤`) -/
def testOn {α : Type} (data : String → String → α → Rat) (T : String → String → SeqTest) (h : List α) :
    Status.Test :=
  fun cid name => match T cid name (h.map (data cid name)) with
    | .ok r => r
    | .error _ => (XR.nan, [])

/-- the audit is reported complete on the cards drawn so far -/
def auditComplete {α : Type} (data : String → String → α → Rat) (T : String → String → SeqTest)
    (s : State) (h : List α) : Bool :=
  summarizeStatus (setPValues (testOn data T h) s).2

/-- number of draws after which the audit is first reported complete when the cards are drawn in the order
`order` and the status is looked at after every draw (`none`: never) -/
def firstComplete {α : Type} (data : String → String → α → Rat) (T : String → String → SeqTest)
    (s : State) (order : List α) : Option Nat :=
  ((List.range order.length).map (· + 1)).find? (fun k => auditComplete data T s (order.take k))

/-! ### style-based: an assertion uses only the drawn cards that list its contest (`mvrs_to_data` with
`use_style`, L1653-1659: `cvr_sample[i].has_contest(con.id) and cvr_sample[i].sample_num <= con.sample_threshold`;
here with a threshold that every drawn card meets) -/

/-- as `testOn`, the data of an assertion being those of the drawn cards it uses (`none` = not used) -/
def testOnOpt {α : Type} (data : String → String → α → Option Rat) (T : String → String → SeqTest)
    (h : List α) : Status.Test :=
  fun cid name => match T cid name (h.filterMap (data cid name)) with
    | .ok r => r
    | .error _ => (XR.nan, [])

def auditCompleteOpt {α : Type} (data : String → String → α → Option Rat) (T : String → String → SeqTest)
    (s : State) (h : List α) : Bool :=
  summarizeStatus (setPValues (testOnOpt data T h) s).2

def firstCompleteOpt {α : Type} (data : String → String → α → Option Rat) (T : String → String → SeqTest)
    (s : State) (order : List α) : Option Nat :=
  ((List.range order.length).map (· + 1)).find? (fun k => auditCompleteOpt data T s (order.take k))

end Shangrla.AuditLoop
