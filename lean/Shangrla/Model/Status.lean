/-
  Literal model of the audit-status bookkeeping of `shangrla/core/Audit.py`:

    Assertion.set_p_values        L2285-2337      `setPValues`, `setPValuesChecked`
    Assertion.reset_p_values      L2339-2353      `resetPValues`
    Audit.summarize_status        L1209-1247      `summarizeStatus`
    Audit.check_audit_parameters  L1138-1186      `checkAuditParameters`

  Python                                   model
  ------                                   -----
  contests : dict id -> Contest            `State = List Contest` in insertion order
  con.assertions : dict name -> Assertion  `List Assertion` in insertion order (`name` = the key)
  con.p_values / con.proved (dicts)        association lists in insertion order, `none` = attribute not set
  con.max_p                                `Option XR`, `none` = attribute not set yet
  p-values (float, may be nan)             `Shangrla.XR`
  risk limit, error rates (float)          `Rat`
  `asn.test.test(asn.mvrs_to_data(...))`   the PARAMETER `test : contest id → assertion name → XR × List XR`
                                           (the statistical test and the data extraction are modelled and
                                           verified by other packages; every theorem of C09 holds for EVERY
                                           such function)
  `np.max([a, b])`                         `XR.maxList [a, b]`  (nan-propagating)
  `a <= b`                                 `XR.le`              (false when a side is nan)
  in-place mutation of the objects         state passing; the loops are `foldl`s that carry the Python
                                           loop variables
  AssertionError / TypeError               `Except Err`
  prints of summarize_status               not modelled (the harness discards them)
  Core Lean only.
-/
import Shangrla.Num.XR

namespace Shangrla.Status

inductive Err where
  /-- `tag` names the failing `assert` of check_audit_parameters / set_p_values, `contest` its contest id -/
  | AssertionError (tag : String) (contest : String)
  | TypeError
deriving Repr, DecidableEq, Inhabited

structure Assertion where
  name : String
  pValue : XR := 1               -- Assertion.__init__ default p_value = 1
  pHistory : List XR := []       -- default p_history = []
  proved : Bool := false         -- default proved = False
deriving Repr, DecidableEq, Inhabited

structure Contest where
  id : String
  riskLimit : Rat
  assertions : List Assertion
  maxP : Option XR := none
  pValues : Option (List (String × XR)) := none
  provedD : Option (List (String × Bool)) := none
  -- attributes read only by check_audit_parameters
  choiceFunction : String := "PLURALITY"
  nWinners : Int := 1
  candidates : Option (List String) := none     -- `None` is the constructor default
  winner : Option (List String) := none
  assertionFile : Option String := none
deriving Repr, DecidableEq, Inhabited

abbrev State := List Contest

/-- what `asn.test.test(d)` returns for assertion `name` of contest `id` on that assertion's data -/
abbrev Test := String → String → XR × List XR

/-- `d.update({k: v})` on an insertion-ordered dict: an existing key keeps its position -/
def dictUpdate {β : Type} (d : List (String × β)) (k : String) (v : β) : List (String × β) :=
  if d.any (fun e => e.1 == k) then d.map (fun e => if e.1 == k then (k, v) else e)
  else d ++ [(k, v)]

/-- loop variables of the inner loop of set_p_values (L2327-2334):
    assertions already visited (updated), `con.p_values`, `con.proved`, `contest_max_p` -/
structure SetAcc where
  done : List Assertion := []
  pv : List (String × XR) := []
  pr : List (String × Bool) := []
  cmax : XR := 0
deriving Repr

/-- body of the inner loop, L2328-2334 -/
def setStep (test : Test) (cid : String) (limit : Rat) (acc : SetAcc) (asn : Assertion) : SetAcc :=
  let r := test cid asn.name                        -- L2328-2330 d,u = mvrs_to_data; test.u = u; test.test(d)
  let p := r.1
  let h := r.2
  let pr' := XR.le p (XR.fin limit) || asn.proved   -- L2331 (p_value <= con.risk_limit) or asn.proved
  let asn' : Assertion := { asn with pValue := p, pHistory := h, proved := pr' }
  { done := acc.done ++ [asn'],
    pv := dictUpdate acc.pv asn.name p,             -- L2332
    pr := dictUpdate acc.pr asn.name pr',           -- L2333
    cmax := XR.maxList [acc.cmax, p] }              -- L2334 np.max([contest_max_p, asn.p_value])

/-- one iteration of the outer loop without the `p_max` update: L2324-2335; returns `contest_max_p` too -/
def setContest (test : Test) (con : Contest) : XR × Contest :=
  -- L2324-2326: con.p_values = {}; con.proved = {}; contest_max_p = 0
  let r := con.assertions.foldl (setStep test con.id con.riskLimit) {}
  -- L2335: contests[c].max_p = contest_max_p
  (r.cmax, { con with assertions := r.done, pValues := some r.pv, provedD := some r.pr, maxP := some r.cmax })

/-- body of the outer loop: L2323-2336, `acc = (p_max, contests already visited)` -/
def setOuter (test : Test) (acc : XR × List Contest) (con : Contest) : XR × List Contest :=
  let r := setContest test con
  (XR.maxList [acc.1, r.1], acc.2 ++ [r.2])         -- L2336 p_max = np.max([p_max, contests[c].max_p])

/-- `Assertion.set_p_values` after its length check: L2322-2337 (`p_max = 0`, the loops, `return p_max`) -/
def setPValues (test : Test) (s : State) : XR × State :=
  s.foldl (setOuter test) (0, [])

/-- `Assertion.set_p_values(contests, mvr_sample, cvr_sample)`, L2320-2337.
    `mvrLen = len(mvr_sample)`, `cvrLen = none` when `cvr_sample is None`. -/
def setPValuesChecked (test : Test) (mvrLen : Nat) (cvrLen : Option Nat) (s : State) :
    Except Err (XR × State) :=
  match cvrLen with
  | some n =>
      if mvrLen = n then .ok (setPValues test s)
      else .error (Err.AssertionError "unequal_samples" "")   -- L2320-2321
  | none => .ok (setPValues test s)

/-- body of the inner loop of reset_p_values, L2347-2351; `acc = (visited assertions, p_values, proved)` -/
def resetStep (acc : List Assertion × List (String × XR) × List (String × Bool)) (asn : Assertion) :
    List Assertion × List (String × XR) × List (String × Bool) :=
  let asn' : Assertion := { asn with pValue := 1, pHistory := [], proved := false }  -- L2348-2349
  (acc.1 ++ [asn'], dictUpdate acc.2.1 asn.name asn'.pValue, dictUpdate acc.2.2 asn.name asn'.proved)

/-- one iteration of the outer loop of reset_p_values, L2344-2352 -/
def resetContest (con : Contest) : Contest :=
  let r := con.assertions.foldl resetStep ([], [], [])
  { con with assertions := r.1, pValues := some r.2.1, provedD := some r.2.2, maxP := some 1 }

/-- `Assertion.reset_p_values`, L2339-2353 (returns `True`) -/
def resetPValues (s : State) : Bool × State := (true, s.map resetContest)

/-- `cpmax` of summarize_status for one contest, L1228-1231 -/
def cpmax (con : Contest) : XR :=
  con.assertions.foldl (fun m a => XR.maxList [m, a.pValue]) 0

/-- `Audit.summarize_status`, L1225-1247: `done` starts `True` and is cleared by every contest
    whose `cpmax <= risk_limit` is false. -/
def summarizeStatus (s : State) : Bool :=
  s.foldl (fun done con => if XR.le (cpmax con) (XR.fin con.riskLimit) then done else false) true

/-- `Contest.SOCIAL_CHOICE_FUNCTION.SOCIAL_CHOICE_FUNCTIONS` -/
def socialChoiceFunctions : List String := ["APPROVAL", "PLURALITY", "SUPERMAJORITY", "IRV"]

def ensure (b : Bool) (tag cid : String) : Except Err Unit :=
  if b then .ok () else .error (Err.AssertionError tag cid)

/-- Python truthiness of `con.assertion_file` (None or a string) -/
def truthyFile : Option String → Bool
  | none => false
  | some f => f != ""

/-- the assertion chain for one contest, L1158-1186 -/
def checkContest (con : Contest) : Except Err Unit := do
  ensure (decide (con.riskLimit > 0)) "risk_limit_negative" con.id            -- L1159-1161
  ensure (decide (con.riskLimit ≤ 1 / 2)) "risk_limit_exceeds_half" con.id   -- L1162-1164
  ensure (socialChoiceFunctions.contains con.choiceFunction) "choice_function" con.id  -- L1165-1168
  match con.candidates with                                                   -- len(None) raises TypeError
  | none => throw Err.TypeError
  | some cands =>
    ensure (decide (con.nWinners ≤ (cands.length : Int))) "more_winners_than_candidates" con.id  -- L1169-1171
    match con.winner with
    | none => throw Err.TypeError
    | some ws =>
      ensure (decide ((ws.length : Int) = con.nWinners)) "number_of_winners" con.id   -- L1172-1174
      ws.forM (fun w => ensure (cands.contains w) "winner_not_candidate" con.id)       -- L1175-1178
      if ["IRV"].contains con.choiceFunction then                                    -- L1179-1182
        ensure (decide (con.nWinners = 1)) "irv_one_winner" con.id
      if con.choiceFunction == "IRV" then                                            -- L1183-1184
        ensure (truthyFile con.assertionFile) "irv_assertion_file" con.id

/-- `Audit.check_audit_parameters`, L1138-1186 -/
def checkAuditParameters (errorRate1 errorRate2 : Rat) (s : State) : Except Err Unit := do
  ensure (decide (errorRate1 ≥ 0)) "error_rate_1" ""       -- L1153-1155
  ensure (decide (errorRate2 ≥ 0)) "error_rate_2" ""       -- L1156-1158
  s.forM checkContest

end Shangrla.Status
