/-
  Literal model of the simple IRV assertion generator
    shangrla/raire/simp_assertions.py :: simple_IRV_assertions (L15-81), sim_irv (L84-110)
  (the `__main__` block L113-207 is a command-line script around these two functions and
  `compute_raire_assertions`; it is not modelled).  Reuses the definitions of Model/Raire.lean:
  `ranking`, `voteForCand`, `Ballot`, `Assertion`, `Contest`, `Res`, `Err`.

  Python                                      model
  ------                                      -----
  cvrs {id: {contest: ballot, ...}}           `List (Option (Ballot α))`, `none` = the card lacks the contest;
                                              `ballots` (L32 / L86) = `cvrs.filterMap id`
  `ranking` returning -1                      `Option Nat`, `none` = -1; `widx == 0` is `ranking = some 0`
  `max_c_w_2`, `tallies` (dicts)              association lists in insertion order: `dictInit` (a dict comprehension
                                              over a list with repeated keys keeps ONE entry per key), `dictIncr`
                                              (`d[k] += 1`), `dictGet` (`d[k]`; every key read was inserted, so
                                              KeyError is impossible and modelled as 0)
  NENAssertion / NEBAssertion objects         `Assertion α Unit`: `difficulty` stays at the constructor's `np.inf`
                                              and `rules_out` at `set()` (never assigned here): `()` and `[]`
  `failed_to_assert` (formatted strings)      `Failure` records (kind, winner, loser, eliminated) — the data the
                                              strings are formatted from
  `while len(standing) > 1`                   fuel; `sim_irv` is run with `len(candidates)` iterations allowed
                                              (`Props/C04Simp.lean: simIrv_no_fuel` shows that is always enough)
  exceptions                                  `Res.err`: `standing[0]` of an empty list and `eliminated[-1]` of an
                                              empty list (fewer than 2 candidates) raise IndexError;
                                              `standing.remove(None)` (ValueError) is unreachable: `toelim` is set in
                                              the first pass of the L101 loop whenever `standing` is not empty
  Nothing is assumed about the candidate list: repeated candidates are modelled as Python treats them (one dict
  entry, incremented once per occurrence in `others` / `standing`).  Core Lean only.
-/
import Shangrla.Model.Raire

namespace Shangrla.Simp
open Shangrla.Raire

variable {α : Type} [DecidableEq α]

/-! ### dicts `{candidate: count}` -/

/-- `{k : 0 for k in keys}`: one entry per distinct key, in order of first occurrence -/
def dictInit (keys : List α) : List (α × Nat) :=
  keys.foldl (fun d k => if d.any (fun p => p.1 == k) then d else d ++ [(k, 0)]) []

/-- `d[k] += 1` (keys are unique; KeyError impossible at every use) -/
def dictIncr (d : List (α × Nat)) (k : α) : List (α × Nat) :=
  d.map fun p => if p.1 == k then (p.1, p.2 + 1) else p

/-- `d[k]` -/
def dictGet (d : List (α × Nat)) (k : α) : Nat := (d.lookup k).getD 0

/-! ### simple_IRV_assertions -/

/-- what a `failed_to_assert` string is formatted from: L67-68 `"{} NEN over {} when {} eliminated"` (winner,
runner_up, others) and L79 `"{} NEB {}"` (winner, c; `eliminated = []`) -/
structure Failure (α : Type) where
  kind : Kind
  winner : α
  loser : α
  eliminated : List α
deriving Repr, DecidableEq

/-- L33 `[c for c in contest.candidates if c != winner and c != runner_up]` -/
def othersOf (C : Contest α) (winner runnerUp : α) : List α :=
  C.candidates.filter fun c => c != winner && c != runnerUp

/-- the counters of the ballot loop L44-58 -/
structure Counts (α : Type) where
  wTally1 : Nat
  rTally1 : Nat
  minW2 : Nat
  maxCW2 : List (α × Nat)

/-- L54-58 for one ballot whose `widx` is not 0 -/
def mentionLoop (winner : α) (blt : Ballot α) (others : List α) (m : List (α × Nat)) : List (α × Nat) :=
  others.foldl (fun m c =>
    match ranking c blt with                       -- L55
    | none => m                                    -- cidx == -1
    | some cidx =>
      match ranking winner blt with                -- L57 `widx == -1 or cidx < widx`
      | none => dictIncr m c
      | some widx => if cidx < widx then dictIncr m c else m) m

/-- L45-58: the body of the ballot loop -/
def ballotStep (winner runnerUp : α) (others : List α) (s : Counts α) (blt : Ballot α) : Counts α :=
  let w1 := s.wTally1 + voteForCand winner others blt          -- L45
  let r1 := s.rTally1 + voteForCand runnerUp others blt        -- L46
  if ranking winner blt = some 0 then                          -- L48-51
    { wTally1 := w1, rTally1 := r1, minW2 := s.minW2 + 1, maxCW2 := s.maxCW2 }
  else                                                         -- L53-58
    { wTally1 := w1, rTally1 := r1, minW2 := s.minW2, maxCW2 := mentionLoop winner blt others s.maxCW2 }

/-- L37-58 -/
def countBallots (winner runnerUp : α) (others : List α) (ballots : List (Ballot α)) : Counts α :=
  ballots.foldl (ballotStep winner runnerUp others)
    { wTally1 := 0, rTally1 := 0, minW2 := 0, maxCW2 := dictInit others }

/-- L61-63 -/
def nenOf (winner runnerUp : α) (others : List α) (s : Counts α) : Assertion α Unit :=
  { kind := .nen, winner := winner, loser := runnerUp, eliminated := others, votesW := s.wTally1,
    votesL := s.rTally1, difficulty := (), rulesOut := [] }

/-- L73-75 -/
def nebOf (winner c : α) (s : Counts α) : Assertion α Unit :=
  { kind := .neb, winner := winner, loser := c, eliminated := [], votesW := s.minW2,
    votesL := dictGet s.maxCW2 c, difficulty := (), rulesOut := [] }

/-- L71-79: one pass of the final loop -/
def nebStep (winner : α) (s : Counts α) (acc : List (Assertion α Unit) × List (Failure α)) (c : α) :
    List (Assertion α Unit) × List (Failure α) :=
  if s.minW2 > dictGet s.maxCW2 c then (acc.1 ++ [nebOf winner c s], acc.2)           -- L72-77
  else (acc.1, acc.2 ++ [⟨.neb, winner, c, []⟩])                                       -- L78-79

/-- simp_assertions.py L15-81: `(assertions, failed_to_assert)` -/
def simpleIrvAssertions (C : Contest α) (cvrs : List (Option (Ballot α))) (winner runnerUp : α) :
    List (Assertion α Unit) × List (Failure α) :=
  let ballots := cvrs.filterMap id                                                    -- L32
  let others := othersOf C winner runnerUp                                            -- L33
  let s := countBallots winner runnerUp others ballots                                -- L37-58
  let start : List (Assertion α Unit) × List (Failure α) :=
    if s.wTally1 > s.rTally1 then ([nenOf winner runnerUp others s], [])              -- L60-64
    else ([], [⟨.nen, winner, runnerUp, others⟩])                                     -- L66-68
  others.foldl (nebStep winner s) start                                               -- L71-79

/-! ### sim_irv -/

/-- L92-97: the tallies of one round -/
def roundTallies (ballots : List (Ballot α)) (standing eliminated : List α) : List (α × Nat) :=
  ballots.foldl (fun t blt =>
    standing.foldl (fun t c => if voteForCand c eliminated blt != 0 then dictIncr t c else t) t)
    (dictInit standing)

/-- L99-105: `(toelim, elimtally)`; `none` = both still `None`. The FIRST candidate of `standing` with the
smallest tally is kept (`ctally < elimtally` is strict) -/
def pickMin (tallies : List (α × Nat)) (standing : List α) : Option (α × Nat) :=
  standing.foldl (fun (acc : Option (α × Nat)) c =>
    let ctally := dictGet tallies c                -- L102
    match acc with
    | none => some (c, ctally)                     -- `elimtally == None`
    | some (_, elimtally) => if ctally < elimtally then some (c, ctally) else acc) none

/-- L91-108: the `while` loop; returns `(standing, eliminated)` at exit -/
def simLoop (ballots : List (Ballot α)) : Nat → List α → List α → Res (List α × List α)
  | 0, standing, eliminated =>
    if standing.length > 1 then Res.fuel else Res.ok (standing, eliminated)
  | fuel + 1, standing, eliminated =>
    if standing.length > 1 then                                        -- L91
      let tallies := roundTallies ballots standing eliminated          -- L92-97
      match pickMin tallies standing with                              -- L99-105
      | none => Res.err Err.ValueError                                 -- `standing.remove(None)`; unreachable
      | some (toelim, _) =>
        simLoop ballots fuel (standing.erase toelim) (eliminated ++ [toelim])   -- L107-108
    else Res.ok (standing, eliminated)

/-- the state `(standing, eliminated)` at L110 -/
def simIrvState (C : Contest α) (cvrs : List (Option (Ballot α))) : Res (List α × List α) :=
  simLoop (cvrs.filterMap id) C.candidates.length C.candidates []      -- L85-91 (L87's `tallies` is never read)

/-- simp_assertions.py L84-110: `(standing[0], eliminated[-1])` -/
def simIrv (C : Contest α) (cvrs : List (Option (Ballot α))) : Res (α × α) :=
  match simIrvState C cvrs with
  | Res.ok (standing, eliminated) =>
    match standing with
    | [] => Res.err Err.IndexError                                     -- `standing[0]`
    | s0 :: _ =>
      match eliminated.getLast? with
      | none => Res.err Err.IndexError                                 -- `eliminated[-1]`
      | some r => Res.ok (s0, r)
  | Res.fuel => Res.fuel
  | Res.err e => Res.err e

end Shangrla.Simp
