/-
  Literal model of `shangrla/core/NonnegMean.py` (the repaired tree: see known_findings.json).

  Conventions (DESIGN.md section 3):
  * observations `x`, parameters and `N` are exact rationals / naturals (`N = none` is `np.inf`);
  * every float operation is the exact operation; where the Python relies on IEEE `inf`/`nan`
    (division inside `np.errstate`, boolean-mask assignment afterwards) the computation is in `XR`;
  * `np.sqrt` is the parameter `sqrtF : Rat → Rat`;
  * a numpy vector is a `List`; a scalar that numpy broadcasts is replicated;
  * exceptions are `Except Err`.
  Python line numbers refer to NonnegMean.py.  Core Lean only (compiled into the driver).
-/
import Shangrla.Num.XR

namespace Shangrla.NM

inductive Err where
  | assertion | value | index | type | zerodiv | overflow
deriving DecidableEq, Repr, Inhabited

def Err.toStr : Err → String
  | .assertion => "AssertionError"
  | .value => "ValueError"
  | .index => "IndexError"
  | .type => "TypeError"
  | .zerodiv => "ZeroDivisionError"
  | .overflow => "OverflowError"

/-- `np.finfo(float).eps` -/
def eps : Rat := 1 / (2 ^ 52 : Nat)

/-- the keyword arguments a caller may pass to `NonnegMean(...)` (absent = `none`) -/
structure Kw where
  eta : Option Rat := none
  lam : Option Rat := none
  g : Option Rat := none
  c : Option Rat := none
  d : Option Rat := none
  f : Option Rat := none
  minsd : Option Rat := none
  cG0 : Option Rat := none
  cGmax : Option Rat := none
  cGgrow : Option Rat := none
  rateError2 : Option Rat := none
deriving Repr, Inhabited

/-- instance attributes after `__init__` (L47-81); `u` may be overwritten later (`test.u = u`) -/
structure Cfg where
  N : Option Nat
  u : Rat
  t : Rat
  randomOrder : Bool
  kw : Kw
  atol : Rat := 2 * eps
  rtol : Rat := 1 / 1000000
deriving Repr, Inhabited

/-- `__init__`: `self.eta` is set from `t + (u-t)/2` only when no estimator is given, `self.lam`
only when no bet is given; afterwards `self.__dict__.update(kwargs)` -/
def Cfg.init (estimGiven betGiven : Bool) (u : Rat) (N : Option Nat) (t : Rat) (ro : Bool) (kw : Kw) : Cfg :=
  let eta := if estimGiven then kw.eta else some (kw.eta.getD (t + (u - t) / 2))
  let lam := if betGiven then kw.lam else some (kw.lam.getD (1 / 2))
  { N := N, u := u, t := t, randomOrder := ro, kw := { kw with eta := eta, lam := lam } }

/-! ### helpers -/

/-- sums of the observations *before* each index, started from `S` -/
def prefixSumsFrom (S : Rat) : List Rat → List Rat
  | [] => []
  | a :: x => S :: prefixSumsFrom (S + a) x

/-- `np.insert(np.cumsum(x), 0, 0)[0:-1]` -/
def prefixSums (x : List Rat) : List Rat := prefixSumsFrom 0 x

def xsumFrom (S : Rat) : List Rat → Rat
  | [] => S
  | a :: x => xsumFrom (S + a) x

def xsum (x : List Rat) : Rat := xsumFrom 0 x

/-- the null conditional mean before draw `j` (1-based) given the sum `S` of the earlier draws:
`(N*t - S)/(N - j + 1)`, or `t` when `N` is infinite (L172-174) -/
def mu (N : Option Nat) (t S : Rat) (j : Nat) : Rat :=
  match N with
  | none => t
  | some n => ((n : Rat) * t - S) / ((n : Rat) - (j : Rat) + 1)

/-- the vector `m` of `sjm`, started at draw `j` with earlier sum `S` -/
def nullMeansFrom (N : Option Nat) (t : Rat) (S : Rat) (j : Nat) : List Rat → List Rat
  | [] => []
  | a :: x => mu N t S j :: nullMeansFrom N t (S + a) (j + 1) x

/-- `sjm` (L141-175): `(S, Stot, m)`; `j = 1..len(x)` is implicit -/
def sjm (N : Option Nat) (t : Rat) (x : List Rat) : Except Err (List Rat × Rat × List Rat) :=
  if x.isEmpty then .error .index                      -- j[-1] on an empty array
  else
    match N with
    | none => .ok (prefixSums x, xsum x, nullMeansFrom none t 0 1 x)   -- m = t (scalar, broadcast)
    | some n =>
      if x.length > n then .error .assertion          -- "Sample size is larger than the population!"
      else .ok (prefixSums x, xsum x, nullMeansFrom (some n) t 0 1 x)

/-- Welford's recursion (L14-16) from state (running mean, running M2, number of observations so far):
returns the running means and the running population variances `M2 / count` -/
def welfordFrom (mPrev vPrev : Rat) (i : Nat) : List Rat → List Rat × List Rat
  | [] => ([], [])
  | xi :: rest =>
    let mNew := mPrev + (xi - mPrev) / ((i + 1 : Nat) : Rat)
    let vNew := vPrev + (xi - mPrev) * (xi - mNew)
    let r := welfordFrom mNew vNew (i + 1) rest
    (mNew :: r.1, vNew / ((i + 1 : Nat) : Rat) :: r.2)

/-- `welford_mean_var` (L8-18): running mean and running (population) variance -/
def welford (x : List Rat) : List Rat × List Rat :=
  match x with
  | [] => ([], [])
  | x0 :: rest =>
    let r := welfordFrom x0 0 1 rest
    (x0 :: r.1, 0 :: r.2)

def sqrtX (sqrtF : Rat → Rat) : XR → XR
  | .fin q => if q < 0 then .nan else .fin (sqrtF q)
  | .pinf => .pinf
  | .ninf => .nan
  | .nan => .nan

/-- `[f j a0, f (j+1) a1, ...]` -/
def mapIdxFrom {α β} (f : Nat → α → β) : Nat → List α → List β
  | _, [] => []
  | j, a :: l => f j a :: mapIdxFrom f (j + 1) l

/-- shift right by one, inserting `a` in front and dropping the last (`np.insert(v, 0, a)[0:-1]`) -/
def shiftIn {α} (a : α) (v : List α) : List α := (a :: v).dropLast

/-! ### estimators of the alternative mean (ALPHA) -/

/-- `fixed_alternative_mean` (L229-262), repaired: truncated above at `u` -/
def fixedAlternativeMean (cfg : Cfg) (x : List Rat) : Except Err (List XR) := do
  let eta := cfg.kw.eta.getD (cfg.u * (1 - eps))
  let (_, _, m) ← sjm cfg.N eta x
  pure (m.map (fun mj => XR.fin (if cfg.u < mj then cfg.u else mj)))   -- np.minimum(m, u)

/-- `shrink_trunc` (L264-322) -/
def shrinkTrunc (sqrtF : Rat → Rat) (cfg : Cfg) (x : List Rat) : Except Err (List XR) := do
  let u := cfg.u
  let eta := cfg.kw.eta.getD (u * (1 - eps))
  let c := cfg.kw.c.getD (1 / 2)
  let d := cfg.kw.d.getD 100
  let f := cfg.kw.f.getD 0
  let minsd := cfg.kw.minsd.getD (1 / 1000000)
  let (S, _, m) ← sjm cfg.N cfg.t x
  let (_, v) := welford x
  let sd0 : List XR := v.map (fun vi => XR.npmax (sqrtX sqrtF (.fin vi)) (.fin minsd))
  let sd1 : List XR := shiftIn (1 : XR) sd0                 -- insert 1 in front, drop the last
  let sdj : List XR := mapIdxFrom (fun i s => if i = 1 then (1 : XR) else s) 0 sd1   -- sdj[1:2] = 1
  pure <| mapIdxFrom (fun j (row : Rat × Rat × XR) =>
    let (s, mj, sd) := row
    let dj : XR := .fin (d + (j : Rat) - 1)                   -- d + j - 1
    let weighted : XR := ((XR.fin (d * eta + s)) / dj + (XR.fin (u * f)) / sd) / ((1 : XR) + (XR.fin f) / sd)
    let lower : XR := (XR.fin mj) + (XR.fin c) / sqrtX sqrtF dj
    XR.npmin (.fin (u * (1 - eps))) (XR.npmax weighted lower)) 1 (S.zip (m.zip sdj))

/-- `optimal_comparison` (L324-354), repaired: truncated to `[0, u]`; Python-float division -/
def optimalComparison (cfg : Cfg) (x : List Rat) : Except Err (List XR) :=
  let u := cfg.u
  let p2 := cfg.kw.rateError2.getD (1 / 10000)
  if 2 - 2 * u = 0 then .error .zerodiv
  else
    let eta := (1 - u * (1 - p2)) / (2 - 2 * u) + u * (1 - p2) - 1 / 2
    let e1 := if 0 < eta then eta else 0                   -- max(0, eta)
    let e2 := if e1 < u then e1 else u                     -- min(u, .)
    .ok (x.map (fun _ => XR.fin e2))

/-! ### bets (betting martingale) -/

/-- `fixed_bet` (L356-367) -/
def fixedBet (cfg : Cfg) (x : List Rat) : Except Err (List XR) :=
  match cfg.kw.lam with
  | none => .error .type                                  -- AttributeError in Python; never generated
  | some lam => .ok (x.map (fun _ => XR.fin lam))

/-- `agrapa` (L369-433), repaired: a `0/0` bet is `0` -/
def agrapa (sqrtF : Rat → Rat) (cfg : Cfg) (x : List Rat) : Except Err (List XR) :=
  if x.isEmpty then .error .index                          -- welford: x[0]
  else
    let lam := cfg.kw.lam.getD (1 / 2)
    let c0 := cfg.kw.cG0.getD (1 - eps)
    let cm := cfg.kw.cGmax.getD (1 - eps)
    let cg := cfg.kw.cGgrow.getD 0
    let (mj, sdj2) := welford x
    let S := prefixSums x
      let tAdj : List XR := match cfg.N with
      | none => x.map (fun _ => XR.fin cfg.t)
      | some n => mapIdxFrom (fun i s => (XR.fin ((n : Rat) * cfg.t - s)) / (XR.fin ((n : Rat) - (i : Rat)))) 0 S
    let raw : List XR := (mj.zip (sdj2.zip tAdj)).map fun (mu, s2, ta) =>
      let r : XR := ((XR.fin mu) - ta) / ((XR.fin s2) + (ta - (XR.fin mu)) * (ta - (XR.fin mu)))
      if r.isNan then (0 : XR) else r
    let shifted := shiftIn (XR.fin lam) raw
    .ok <| mapIdxFrom (fun i (row : XR × XR) =>
      let (l, ta) := row
      let c : XR := (XR.fin c0) + (XR.fin (cm - c0)) *
        ((1 : XR) - (1 : XR) / ((1 : XR) + (XR.fin cg) * sqrtX sqrtF (.fin (i : Rat))))
      XR.npmax (0 : XR) (XR.npmin (c / ta) l)) 0 (shifted.zip tAdj)

/-- `lam_to_eta` (L435-451) -/
def lamToEta (u : Rat) (lam mu : XR) : XR := mu * ((1 : XR) + lam * ((XR.fin u) - mu))

/-- `eta_to_lam` (L453-469) -/
def etaToLam (u : Rat) (eta mu : XR) : XR := (eta / mu - (1 : XR)) / ((XR.fin u) - mu)

/-! ### the masks of `alpha_mart` / `betting_mart` / `wald_sprt` -/

/-- L129-135 applied to one entry: the four boolean-mask assignments in the code's order, then `m < 0`
(`m` is an `XR` because `wald_sprt` does not reject samples longer than the population) -/
def maskTermX (u atol rtol : Rat) (m : XR) (T : XR) : XR :=
  let T1 := if XR.lt (.fin u) m then (0 : XR) else T                            -- terms[m > u] = 0
  let T2 := if XR.isclose (0 : XR) m (1 / 100000) atol then (1 : XR) else T1     -- isclose(0, m, atol)
  let T3 := if XR.isclose (.fin u) m rtol atol then (1 : XR) else T2             -- isclose(u, m, atol, rtol)
  let T4 := if XR.isclose (0 : XR) T3 (1 / 100000) atol then (1 : XR) else T3    -- isclose(0, terms, atol)
  if XR.lt m (0 : XR) then XR.pinf else T4                                      -- terms[m < 0] = inf

def maskTerm (u atol rtol : Rat) (m : Rat) (T : XR) : XR := maskTermX u atol rtol (.fin m) T

/-- L136-138: `terms[-1] = inf if Stot > N*t else terms[-1]` -/
def clampLast (N : Option Nat) (t Stot : Rat) (terms : List XR) : List XR :=
  match N with
  | none => terms
  | some n => if (n : Rat) * t < Stot then terms.dropLast ++ [XR.pinf] else terms

def lastD (l : List XR) : XR := l.getLast?.getD .nan

/-- the return statement shared by the martingale tests:
`min(1, 1/np.max(terms) if random_order else 1/terms[-1]), np.minimum(1, 1/terms)` -/
def pAndHist (ro : Bool) (terms : List XR) : XR × List XR :=
  let stat := if ro then XR.maxList terms else lastD terms
  (XR.pymin (1 : XR) ((1 : XR) / stat), terms.map (fun T => XR.npmin (1 : XR) ((1 : XR) / T)))

/-- the unmasked running product of `alpha_mart` (L124-128), with `m` and `Stot` -/
def alphaTerms (cfg : Cfg) (estim : List Rat → Except Err (List XR)) (x : List Rat) :
    Except Err (List Rat × Rat × List XR) := do
  let u := cfg.u
  let (_, Stot, m) ← sjm cfg.N cfg.t x
  let eta0 ← estim x
  let etaj := (eta0.zip m).map (fun (e, mj) => XR.npmin (.fin u) (XR.npmax e (.fin mj)))
  let factors := (x.zip (etaj.zip m)).map fun (xj, e, mj) =>
    ((XR.fin xj) * e / (XR.fin mj) + (XR.fin (u - xj)) * ((XR.fin u) - e) / (XR.fin (u - mj))) / (XR.fin u)
  pure (m, Stot, XR.cumprod factors)

/-- L129-139: masks, final-sample clamp, return statement -/
def finishMart (cfg : Cfg) (r : List Rat × Rat × List XR) : XR × List XR :=
  let (m, Stot, terms) := r
  let masked := (m.zip terms).map (fun (mj, T) => maskTerm cfg.u cfg.atol cfg.rtol mj T)
  pAndHist cfg.randomOrder (clampLast cfg.N cfg.t Stot masked)

/-- `alpha_mart` (L89-139), repaired: the estimate is truncated to `[m_j, u]`, `random_order` honoured -/
def alphaMart (cfg : Cfg) (estim : List Rat → Except Err (List XR)) (x : List Rat) :
    Except Err (XR × List XR) := do
  pure (finishMart cfg (← alphaTerms cfg estim x))

/-- the unmasked running product of `betting_mart` (L212-216) -/
def bettingTerms (cfg : Cfg) (bet : List Rat → Except Err (List XR)) (x : List Rat) :
    Except Err (List Rat × Rat × List XR) := do
  let (_, Stot, m) ← sjm cfg.N cfg.t x
  let lam ← bet x
  let factors := (x.zip (lam.zip m)).map fun (xj, l, mj) => (1 : XR) + l * (XR.fin (xj - mj))
  pure (m, Stot, XR.cumprod factors)

/-- `betting_mart` (L177-227) -/
def bettingMart (cfg : Cfg) (bet : List Rat → Except Err (List XR)) (x : List Rat) :
    Except Err (XR × List XR) := do
  pure (finishMart cfg (← bettingTerms cfg bet x))

/-- `kaplan_kolmogorov` (L471-519), repaired: a NaN term (0/0, 0*inf) is 1 -/
def kaplanKolmogorov (cfg : Cfg) (x : List Rat) : Except Err (XR × List XR) := do
  let g := cfg.kw.g.getD 0
  if x.any (· < 0) then throw .assertion
  match cfg.N with
  | none => throw .overflow                                -- int(np.inf)
  | some n =>
    if x.length > n then throw .assertion
    if n = 0 then throw .assertion
    let xg := x.map (· + g)
    let (_, _, m) ← sjm cfg.N (cfg.t + g) xg
    let factors := (xg.zip m).map fun (a, mj) => (XR.fin a) / (XR.fin mj)
    let terms := (XR.cumprod factors).map (fun T => if T.isNan then (1 : XR) else T)
    let masked := (m.zip terms).map (fun (mj, T) => if mj < 0 then XR.pinf else T)
    let stat := if cfg.randomOrder then XR.maxList masked else lastD masked
    -- `min(1/stat, 1)`: Python builtin min returns its first argument unless the second is smaller
    pure (XR.pymin ((1 : XR) / stat) (1 : XR), masked.map (fun T => XR.npmin ((1 : XR) / T) (1 : XR)))

/-- `kaplan_markov` (L521-561) -/
def kaplanMarkov (cfg : Cfg) (x : List Rat) : Except Err (XR × List XR) := do
  let g := cfg.kw.g.getD 0
  if x.any (· < 0) then throw .value
  let ph := XR.cumprod (x.map fun a => (XR.fin (cfg.t + g)) / (XR.fin (a + g)))
  if ph.isEmpty then (if cfg.randomOrder then throw .value else throw .index)
  let stat := if cfg.randomOrder then XR.minList ph else lastD ph
  pure (XR.npmin (1 : XR) stat, ph.map (fun p => XR.npmin p (1 : XR)))

/-- `kaplan_wald` (L563-604) -/
def kaplanWald (cfg : Cfg) (x : List Rat) : Except Err (XR × List XR) := do
  let g := cfg.kw.g.getD 0
  if g < 0 || 1 < g then throw .value
  if x.any (· < 0) then throw .value
  let T := XR.cumprod (x.map fun a => (XR.fin ((1 - g) * a)) / (XR.fin cfg.t) + (XR.fin g))
  if T.isEmpty then (if cfg.randomOrder then throw .value else throw .index)
  let stat := if cfg.randomOrder then XR.maxList T else lastD T
  pure (XR.npmin (1 : XR) ((1 : XR) / stat), T.map (fun p => XR.npmin ((1 : XR) / p) (1 : XR)))

/-- `wald_sprt` (L606-680), repaired: single cumulative product, alternative truncated at `u`,
`alpha_mart`'s boundary conventions, overall p-value capped at 1, alternative not below the null mean -/
def waldSprt (cfg : Cfg) (x : List Rat) : Except Err (XR × List XR) := do
  let u := cfg.u
  let eta := cfg.kw.eta.getD (u * (1 - eps))
  if x.any (fun a => a < 0 || u < a) then throw .value
  let (m, etas) ← (match cfg.N with
    | some n =>
      if !cfg.randomOrder then (throw .value : Except Err (List XR × List XR))
      else
        let S := prefixSums x
        -- N - j + 1 is 0 when the sample is longer than N (not rejected by the code)
        let den := fun (j : Nat) => XR.fin ((n : Rat) - (j : Rat) + 1)
        let m := mapIdxFrom (fun j s => (XR.fin ((n : Rat) * cfg.t - s)) / den j) 1 S
        let e := mapIdxFrom (fun j s => XR.npmin (.fin u) ((XR.fin ((n : Rat) * eta - s)) / den j)) 1 S
        pure (m, e)
    | none => pure (x.map (fun _ => XR.fin cfg.t), x.map (fun _ => XR.fin eta)))
  let etas := (etas.zip m).map (fun (e, mj) => XR.npmax e mj)          -- etas = np.maximum(etas, m)
  let factors := (x.zip (etas.zip m)).map fun (xj, e, mj) =>
    ((XR.fin xj) * e / mj + (XR.fin (u - xj)) * ((XR.fin u) - e) / ((XR.fin u) - mj)) / (XR.fin u)
  let terms := XR.cumprod factors
  if terms.isEmpty then (if cfg.randomOrder then throw .value else throw .index)
  let masked := (m.zip terms).map (fun (mj, T) => maskTermX u (2 * eps) (1 / 1000000) mj T)
  pure (pAndHist cfg.randomOrder masked)

/-! ### dispatch -/

inductive Estim where | fixedAlt | shrinkTrunc | optimalComparison
deriving DecidableEq, Repr, Inhabited
inductive Bet where | fixed | agrapa
deriving DecidableEq, Repr, Inhabited
inductive Test where
  | alpha (e : Estim) | betting (b : Bet) | kk | km | kw | sprt
deriving DecidableEq, Repr, Inhabited

def estim (sqrtF : Rat → Rat) (cfg : Cfg) : Estim → List Rat → Except Err (List XR)
  | .fixedAlt => fixedAlternativeMean cfg
  | .shrinkTrunc => shrinkTrunc sqrtF cfg
  | .optimalComparison => optimalComparison cfg

def bet (sqrtF : Rat → Rat) (cfg : Cfg) : Bet → List Rat → Except Err (List XR)
  | .fixed => fixedBet cfg
  | .agrapa => agrapa sqrtF cfg

/-- `self.test(x)` -/
def run (sqrtF : Rat → Rat) (cfg : Cfg) : Test → List Rat → Except Err (XR × List XR)
  | .alpha e => alphaMart cfg (estim sqrtF cfg e)
  | .betting b => bettingMart cfg (bet sqrtF cfg b)
  | .kk => kaplanKolmogorov cfg
  | .km => kaplanMarkov cfg
  | .kw => kaplanWald cfg
  | .sprt => waldSprt cfg

/-! ### sample size -/

/-- `np.tile(x, reps)[0:N]` -/
def tileTo (x : List Rat) (n : Nat) : List Rat :=
  if x.isEmpty then [] else (List.range n).map (fun i => x.getD (i % x.length) 0)

/-- index (1-based) of the first history entry `<= alpha`, or `N` (L711-712) -/
def firstCrossing (hist : List XR) (alpha : Rat) (n : Nat) : Nat :=
  match hist.findIdx? (fun p => XR.le p (.fin alpha)) with
  | some i => i + 1
  | none => n

/-- `np.quantile(sams, q)` (linear interpolation) followed by `int(.)` -/
def quantileInt (sams : List Nat) (q : Rat) : Nat :=
  let s := sams.mergeSort (· ≤ ·)
  let n := s.length
  if n = 0 then 0 else
    let h : Rat := ((n - 1 : Nat) : Rat) * q
    let lo := h.floor.toNat
    let a : Rat := ((s.getD lo 0 : Nat) : Rat)
    let b : Rat := ((s.getD (min (lo + 1) (n - 1)) 0 : Nat) : Rat)
    (a + (h - (lo : Rat)) * (b - a)).floor.toNat

/-- `sample_size` (L682-736).  `reps = none`: deterministic (tiled pilot).  `reps = some tails`: one
simulated population per element, the random tail `prng.choice(x, size=ran_len)` being supplied by the
caller (it is universally quantified in the theorems); `prefix` prepends the pilot data. -/
def sampleSize (sqrtF : Rat → Rat) (cfg : Cfg) (test : Test) (x : List Rat) (alpha : Rat)
    (reps : Option (List (List Rat))) (pfx : Bool) (quantile : Rat) : Except Err Nat :=
  match cfg.N with
  | none => .error .type
  | some n =>
    match reps with
    | none =>
      if x.isEmpty then .error .zerodiv
      else do
        let (_, hist) ← run sqrtF cfg test (tileTo x n)
        pure (firstCrossing hist alpha n)
    | some tails => do
      let sams ← tails.mapM fun tail => do
        let pop := (if pfx then x else []) ++ tail
        let (_, hist) ← run sqrtF cfg test pop
        pure (firstCrossing hist alpha n)
      pure (quantileInt sams quantile)

end Shangrla.NM
