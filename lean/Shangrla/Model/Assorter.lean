/-
  Literal model of the assorters of `shangrla/core/Audit.py` and of the tally / margin code (property C02).

  Python                                                        model
  ------                                                        -----
  `Assertion.make_plurality_assertions` assort lambda L1917-1951  `plurality`
  `Assertion.make_supermajority_assertion` assort lambda L2008-2041 `supermajority`, `superCands`, `superUpper`
  `Assertion.make_all_assertions` L2186 (`losrs`)               `losers`
  `make_assertions_from_json` WINNER_ONLY lambdas + `Assorter.__init__` L2436,
      `CVR.rcv_lfunc_wo` L267-294                               `nebWinner`, `rcvLfuncWo`, `neb`
  `make_assertions_from_json` IRV_ELIMINATION lambda, `CVR.rcv_votefor_cand` L296-330
                                                                `rcvVoteforCand`, `nen`
  `Assorter.mean` L2449-2471 / `Assorter.sum` L2520-2542         `mean`, `sum`   (np.mean([]) is nan)
  `Assertion.margin` L1391-1405                                 `margin`
  `Contest.tally` L2805-2855 (one contest)                      `tally` (a `defaultdict(int)`: association
                                                                 list in insertion order, `tallyGet` = lookup with default 0)
  `Assertion.find_margin_from_tally` L1528-1583                 `findMarginFromTally`
  Core Lean only.  `share_to_win` is a non-zero rational (the property quantifies over (0,1);
  Python raises `ZeroDivisionError` at 0, the model functions that can meet it say so).
-/
import Shangrla.Num.XR
import Shangrla.Model.Vote

namespace Shangrla.Assorter
open Shangrla.Vote

inductive Err where
  | TypeError
  | KeyError
  | ZeroDivisionError
  | NotImplementedError
  | ValueError
deriving DecidableEq, Repr, Inhabited

def Err.toStr : Err → String
  | .TypeError => "TypeError"
  | .KeyError => "KeyError"
  | .ZeroDivisionError => "ZeroDivisionError"
  | .NotImplementedError => "NotImplementedError"
  | .ValueError => "ValueError"

/-! ### plurality / approval, super-majority -/

/-- L1941-1946: `(as_vote(get_vote_for(w)) - as_vote(get_vote_for(l)) + 1) / 2`, `upper_bound = 1` -/
def plurality (contest w l : String) (c : CVR) : Rat :=
  (((((asVote (c.getVoteFor contest w) : Nat) : Int) - ((asVote (c.getVoteFor contest l) : Nat) : Int) + 1 : Int)) : Rat) / 2

/-- L2186: `list(set(con.candidates) - set(winrs))` (a set: no duplicates; order is canonicalised by the harness) -/
def losers (candidates winners : List String) : List String :=
  (candidates.filter (fun c => !winners.contains c)).eraseDups

/-- Audit.py `make_plurality_assertions`, the two loops `for winr in winner: for losr in loser:` and the dict
`assertions[winr + " v " + losr] = Assertion(...)`: the entries (key, winner, loser) in insertion order.  A pair whose
key is already taken by the SAME pair (a candidate listed twice) replaces that entry in place, as a dict does; a pair
whose key is taken by ANOTHER pair raises ValueError (repair of finding F30: before it, the later assertion silently
replaced the earlier one and that pair was left unaudited). -/
def pluralityPairsStep (acc : List (String × String × String)) (w l : String) :
    Except Err (List (String × String × String)) :=
  let key := w ++ " v " ++ l
  match acc.find? (fun e => e.1 == key) with
  | some e => if e.2.1 == w && e.2.2 == l then .ok acc else .error .ValueError
  | none => .ok (acc ++ [(key, w, l)])

def pluralityPairsRow (w : String) : List String → List (String × String × String) →
    Except Err (List (String × String × String))
  | [], acc => .ok acc
  | l :: ls, acc =>
    match pluralityPairsStep acc w l with
    | .ok acc' => pluralityPairsRow w ls acc'
    | .error e => .error e

def pluralityPairsFrom (losers : List String) : List String → List (String × String × String) →
    Except Err (List (String × String × String))
  | [], acc => .ok acc
  | w :: ws, acc =>
    match pluralityPairsRow w losers acc with
    | .ok acc' => pluralityPairsFrom losers ws acc'
    | .error e => .error e

def pluralityPairs (winners losers : List String) : Except Err (List (String × String × String)) :=
  pluralityPairsFrom losers winners []

/-- L2010-2011: `cands = loser.copy(); cands.append(winner)` -/
def superCands (loser : List String) (winner : String) : List String := loser ++ [winner]

/-- L2036: `upper_bound = 1 / (2 * share_to_win)` -/
def superUpper (share : Rat) : Rat := 1 / (2 * share)

/-- L2029-2034: `as_vote(get_vote_for(winner)) / (2*share) if has_one_vote(contest, cands) else 1/2` -/
def supermajority (contest w : String) (cands : List String) (share : Rat) (c : CVR) : Rat :=
  if c.hasOneVote contest cands then ((asVote (c.getVoteFor contest w) : Nat) : Rat) / (2 * share) else 1 / 2

/-! ### IRV assorters (only their range is part of C02) -/

/-- Python `a < b` on vote values: `bool` and `int` compare as integers, `str` with `str`
lexicographically, `str` with a number raises `TypeError` -/
def pyLt : Val → Val → Except Err Bool
  | .s x, .s y => pure (decide (x < y))
  | .s _, _ => throw .TypeError
  | _, .s _ => throw .TypeError
  | .b x, .b y => pure (decide ((if x then 1 else 0 : Int) < (if y then 1 else 0)))
  | .b x, .i y => pure (decide ((if x then 1 else 0 : Int) < y))
  | .i x, .b y => pure (decide (x < (if y then 1 else 0 : Int)))
  | .i x, .i y => pure (decide (x < y))

/-- Python `a <= b` -/
def pyLe : Val → Val → Except Err Bool
  | .s x, .s y => pure (decide (x ≤ y))
  | .s _, _ => throw .TypeError
  | _, .s _ => throw .TypeError
  | .b x, .b y => pure (decide ((if x then 1 else 0 : Int) ≤ (if y then 1 else 0)))
  | .b x, .i y => pure (decide ((if x then 1 else 0 : Int) ≤ y))
  | .i x, .b y => pure (decide (x ≤ (if y then 1 else 0 : Int)))
  | .i x, .i y => pure (decide (x ≤ y))

/-- Python `v == 1` -/
def pyEqOne : Val → Bool
  | .b v => v
  | .i n => n == 1
  | .s _ => false

/-- L2092-2094: `1 if v.get_vote_for(contest_id, winr) == 1 else 0` -/
def nebWinner (contest w : String) (c : CVR) : Int :=
  if pyEqOne (c.getVoteFor contest w) then 1 else 0

/-- L267-294 -/
def rcvLfuncWo (contest w l : String) (c : CVR) : Except Err Int := do
  let rw := c.getVoteFor contest w
  let rl := c.getVoteFor contest l
  if !truthy rw && truthy rl then pure 1                      -- L289-290
  else if truthy rw && truthy rl then                          -- L291
    if (← pyLt rl rw) then pure 1 else pure 0
  else pure 0

/-- WINNER_ONLY: `Assorter(winner=winner_func, loser=loser_func)`, L2436 `(winner - loser + 1)/2` -/
def neb (contest w l : String) (c : CVR) : Except Err Rat := do
  let lo ← rcvLfuncWo contest w l c
  pure (((nebWinner contest w c - lo + 1 : Int) : Rat) / 2)

/-- L322-329: the loop over `remaining` -/
def rcvLoop (contest cand : String) (rankCand : Val) (c : CVR) : List String → Except Err Int
  | [] => pure 1
  | altc :: rest =>
    if altc = cand then rcvLoop contest cand rankCand c rest
    else do
      let ra := c.getVoteFor contest altc
      if truthy ra then
        if (← pyLe ra rankCand) then pure 0 else rcvLoop contest cand rankCand c rest
      else rcvLoop contest cand rankCand c rest

/-- L296-330 -/
def rcvVoteforCand (contest cand : String) (remaining : List String) (c : CVR) : Except Err Int :=
  if !remaining.contains cand then pure 0                     -- L316-317
  else
    let rc := c.getVoteFor contest cand
    if !truthy rc then pure 0                                  -- L319-320
    else rcvLoop contest cand rc c remaining

/-- L2124: `remn = [c for c in candidates if c not in elim]` -/
def remaining (candidates elim : List String) : List String :=
  candidates.filter (fun c => !elim.contains c)

/-- IRV_ELIMINATION, L2141-2147 -/
def nen (contest w l : String) (remn : List String) (c : CVR) : Except Err Rat := do
  let a ← rcvVoteforCand contest w remn c
  let b ← rcvVoteforCand contest l remn c
  pure (((a - b + 1 : Int) : Rat) / 2)

/-! ### mean, sum, margin -/

/-- L2467-2470: the cards the assorter is applied to -/
def styled (useStyle : Bool) (contest : String) (B : List CVR) : List CVR :=
  B.filter (fun c => !useStyle || c.hasContest contest)

/-- L2520-2542 `np.sum([assort(c) for c in cvr_list if filtr(c)])` -/
def sum (useStyle : Bool) (contest : String) (assort : CVR → Rat) (B : List CVR) : Rat :=
  ((styled useStyle contest B).map assort).sum

/-- L2449-2471 `np.mean([...])`; the mean of the empty list is `nan` -/
def mean (useStyle : Bool) (contest : String) (assort : CVR → Rat) (B : List CVR) : XR :=
  let xs := (styled useStyle contest B).map assort
  if xs.isEmpty then XR.nan else XR.fin (xs.sum / (xs.length : Rat))

/-- L1391-1405 `2 * mean - 1` -/
def margin (useStyle : Bool) (contest : String) (assort : CVR → Rat) (B : List CVR) : XR :=
  (2 : XR) * mean useStyle contest assort B - (1 : XR)

/-! ### Contest.tally -/

abbrev Tally := List (String × Nat)

/-- `tally[k]` of a `defaultdict(int)` -/
def tallyGet (t : Tally) (k : String) : Nat := (t.lookup k).getD 0

/-- `tally[k] += d` of a `defaultdict(int)` (creates the key, also when `d = 0`) -/
def bump : Tally → String → Nat → Tally
  | [], k, d => [(k, d)]
  | (k', n) :: r, k, d => if k' = k then (k', n + d) :: r else (k', n) :: bump r k d

/-- L2846-2848: `n_votes` = marks on the card's own dict, candidate names that are falsy (`""`) skipped -/
def nVotes (m : Marks) : Nat :=
  (m.map (fun p => if p.1 != "" then asVote p.2 else 0)).sum

/-- L2849: is the card tallied -/
def counted (enforceRules : Bool) (nWinners : Nat) (m : Marks) : Bool :=
  !enforceRules || decide (nVotes m ≤ nWinners)

/-- L2850-2852 -/
def tallyMarks (t : Tally) (m : Marks) : Tally :=
  m.foldl (fun t p => if p.1 != "" then bump t p.1 (asVote p.2) else t) t

/-- L2842-2852, one card -/
def tallyCard (enforceRules : Bool) (nWinners : Nat) (contest : String) (t : Tally) (c : CVR) : Tally :=
  match c.marksOf contest with
  | none => t                                                 -- L2844
  | some m => if counted enforceRules nWinners m then tallyMarks t m else t

/-- L2805-2855 for one contest of a tallied social choice function -/
def tally (enforceRules : Bool) (nWinners : Nat) (contest : String) (B : List CVR) : Tally :=
  B.foldl (tallyCard enforceRules nWinners contest) []

/-! ### Assertion.find_margin_from_tally -/

inductive Scf where
  | plurality
  | approval
  | supermajority
  | irv
deriving DecidableEq, Repr, Inhabited

def NO_CANDIDATE : String := "NO_CANDIDATE"
def ALL_OTHERS : String := "ALL_OTHERS"

/-- L1528-1583 with `tally` the `defaultdict` made by `Contest.tally`.
`(int - int) / 0` raises; the super-majority branch divides a numpy float by `cards` (inf/nan at 0). -/
def findMarginFromTally (scf : Scf) (winner loser : String) (candidates : List String) (share : Rat)
    (cards : Nat) (t : Tally) : Except Err XR :=
  match scf with
  | .plurality | .approval =>                                  -- L1557-1561
      if cards = 0 then throw .ZeroDivisionError
      else pure (XR.fin ((((((tallyGet t winner : Nat) : Int) - ((tallyGet t loser : Nat) : Int) : Int)) : Rat) / (cards : Rat)))
  | .supermajority =>
      if winner = NO_CANDIDATE || loser != ALL_OTHERS then throw .NotImplementedError   -- L1565-1571
      else
        let valid : Nat := (candidates.map (tallyGet t)).sum   -- L1573
        if share = 0 then throw .ZeroDivisionError
        else pure (XR.fin (((tallyGet t winner : Nat) : Rat) / share - (valid : Rat)) / XR.fin (cards : Rat))  -- L1575-1577
  | .irv => throw .NotImplementedError                          -- L1578-1581

end Shangrla.Assorter
