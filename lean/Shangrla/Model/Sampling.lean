/-
  Literal models of the sampling code of `shangrla/core/Audit.py`:

    CVR.assign_sample_nums      L720-740     `assignSampleNums`
    CVR.prep_comparison_sample  L742-783     `prepComparisonSample`
    CVR.consistent_sampling     L830-893     `sortedPairs`, `sortedIndices`, `updContests`, `walk`,
                                             `consistentSampling`
    Assertion.mvrs_to_data      L1649-1655   `keep`, `dataIndices` (the filter; which positions of the
                                             sample become data of a contest's assertions)
    Assertion.set_p_values      L2331        `provedStep`
    a round of an audit (set sizes, draw / continue, build each contest's data)   `Rounds.step`

  Python                                        model
  ------                                        -----
  CVR (only what the sampler reads)             `Card`: `styles` = keys of `cvr.votes` (which contests the card
                                                lists), `sampleNum`, `phantom`.  VOTES ARE NOT AN ARGUMENT:
                                                the selection cannot depend on them.
  cvr.sampled = True (L891-892)                 returned as the list of flags the call sets (`Rounds.State.sampled`
                                                accumulates them; nothing ever resets a flag)
  cvr.has_contest(id)  (`id in self.votes`)     `Card.has`
  contests : dict of Contest, key == con.id     `List Contest` in dict order (`Contest.from_dict_of_dicts` sets
                                                `id := key`; `current_sizes` is read by `con.id` (L853) and
                                                written by dict key (L886) — the model covers key == id)
  current_sizes = defaultdict(int)              `ContestId → Nat` (total function, default 0)
  con.sample_threshold = None | number          `Option Nat`
  sorted(enumerate(cvr_list), key=sample_num)   `sortedPairs` (stable merge sort of (card, index) pairs;
                                                `cvr_list[sorted_cvr_indices[inx]]` is the card of the pair)
  while …: inx += 1                             structural recursion on the remaining sorted pairs;
                                                `sorted_cvr_indices[inx]` past the end → `IndexError`
  sampled_cvr_indices.append(i)                 carried-over list ++ newly taken indices (in walk order) …
  sampled_cvr_indices.sort(key=sample_num)      … then `sortBySampleNum` (stable; L888-890)
  prng.nextRandom() (cryptorandom SHA256)       a parameter `prng : Nat → Nat` (value of the k-th call)
  Core Lean only.
-/
namespace Shangrla.Sampling

abbrev ContestId := String

inductive Err where
  | IndexError | TypeError | AssertionError | KeyError | NotImplementedError
deriving Repr, DecidableEq, Inhabited

def Err.toStr : Err → String
  | .IndexError => "IndexError" | .TypeError => "TypeError" | .AssertionError => "AssertionError"
  | .KeyError => "KeyError" | .NotImplementedError => "NotImplementedError"

structure Card where
  styles : List ContestId
  sampleNum : Nat
  phantom : Bool := false
deriving Repr, DecidableEq, Inhabited

structure Contest where
  id : ContestId
  sampleSize : Nat
  sampleThreshold : Option Nat := none
  cards : Option Nat := none
  cvrs : Nat := 0
deriving Repr, DecidableEq, Inhabited

/-- `cvr.has_contest(contest_id)` (L207-208) -/
def Card.has (cd : Card) (c : ContestId) : Bool := cd.styles.contains c

/-! ### `assign_sample_nums` (L720-740) -/

/-- L738-739: the k-th card of the list gets the value of the k-th call of the generator -/
def assignSampleNums (prng : Nat → Nat) (cards : List Card) : List Card :=
  cards.zipIdx.map (fun p => { p.1 with sampleNum := prng p.2 })

/-! ### `consistent_sampling` (L830-893) -/

def numLE (a b : Card × Nat) : Bool := decide (a.1.sampleNum ≤ b.1.sampleNum)

/-- L859-861: `sorted(enumerate(cvr_list), key=lambda x: x[1].sample_num)` (Python's sort is stable) -/
def sortedPairs (cards : List Card) : List (Card × Nat) := cards.zipIdx.mergeSort numLE

/-- L859-861: `sorted_cvr_indices` -/
def sortedIndices (cards : List Card) : List Nat := (sortedPairs cards).map (·.2)

/-- L853: `contest_in_progress = lambda c: current_sizes[c.id] < c.sample_size` -/
def inProgress (cur : ContestId → Nat) (con : Contest) : Bool := decide (cur con.id < con.sampleSize)

/-- `current_sizes[c] += 1` -/
def bump (cur : ContestId → Nat) (c : ContestId) : ContestId → Nat :=
  fun x => if x = c then cur x + 1 else cur x

/-- L877-886: the inner `for c, con in contests.items()` for the card `cd`: every contest the card lists
that is still in progress gets `sample_threshold := cd.sample_num` and its current size incremented
(in dict order; the sizes are threaded through the loop exactly as the code does) -/
def updContests (cd : Card) : (ContestId → Nat) → List Contest → (ContestId → Nat) × List Contest
  | cur, [] => (cur, [])
  | cur, con :: rest =>
    if cd.has con.id && inProgress cur con then
      let r := updContests cd (bump cur con.id) rest
      (r.1, { con with sampleThreshold := some cd.sampleNum } :: r.2)
    else
      let r := updContests cd cur rest
      (r.1, con :: r.2)

/-- L865-887: the `while` loop.  `already` = `already_sampled` (the carried-over indices), the third
argument the not yet visited part of `sorted(enumerate(cvr_list))`.  Returns the indices appended to
`sampled_cvr_indices` (in the order appended) and the contests with their updated thresholds. -/
def walk (already : List Nat) :
    (ContestId → Nat) → List Contest → List (Card × Nat) → Except Err (List Nat × List Contest)
  | cur, cons, [] =>
    -- L865 loop test; L871 `sorted_cvr_indices[inx]` with `inx == len(...)` raises
    if cons.any (inProgress cur) then .error .IndexError else .ok ([], cons)
  | cur, cons, (cd, i) :: rest =>
    if cons.any (inProgress cur) then                                         -- L865
      if cons.any (fun con => inProgress cur con && cd.has con.id) then       -- L866-874
        let u := updContests cd cur cons                                      -- L877-886
        match walk already u.1 u.2 rest with                                  -- L887 `inx += 1`
        | .error e => .error e
        | .ok (new, cons') =>
          .ok (if already.contains i then new else i :: new, cons')           -- L875-876
      else walk already cur cons rest                                         -- L887
    else .ok ([], cons)

/-- L888-890: `sampled_cvr_indices.sort(key=lambda i: cvr_list[i].sample_num)` — the keys are computed
first (`IndexError` for a carried-over index outside the list), then a stable sort -/
def sortBySampleNum (cards : List Card) (l : List Nat) : Except Err (List Nat) :=
  if l.all (fun i => decide (i < cards.length)) then
    .ok (((l.filterMap (fun i => cards[i]?.map (fun cd => (cd, i)))).mergeSort numLE).map (·.2))
  else .error .IndexError

/-- L830-893.  `prev = none` is `sampled_cvr_indices=None` (draw from scratch), `some l` continues from
the previously selected `l`.  Returns the index list, the contests (thresholds updated) and, for every
card, whether the call sets its `sampled` flag (L891-892). -/
def consistentSampling (cards : List Card) (contests : List Contest) (prev : Option (List Nat)) :
    Except Err (List Nat × List Contest × List Bool) :=
  let prev0 := prev.getD []                                                   -- L855-856
  match walk prev0 (fun _ => 0) contests (sortedPairs cards) with             -- L857-887
  | .error e => .error e
  | .ok (new, cons') =>
    match sortBySampleNum cards (prev0 ++ new) with                           -- L888-890
    | .error e => .error e
    | .ok sel => .ok (sel, cons', (List.range cards.length).map (fun i => sel.contains i))

/-! ### `prep_comparison_sample` (L742-783) -/

/-- `l.sort(key=lambda x: sample_order[x.id]["selection_order"])`: all keys are computed first
(`KeyError` for an id that is not in `sample_order`), then a stable sort -/
def sortByOrder (order : List (String × Nat)) (ids : List String) : Except Err (List String) :=
  match ids.mapM (fun id => (order.lookup id).map (fun k => (id, k))) with
  | none => .error .KeyError
  | some ps => .ok ((ps.mergeSort (fun a b => decide (a.2 ≤ b.2))).map (·.1))

/-- L771-783: sort both samples into selection order, then the two integrity assertions.
Records are represented by their ids (all the function reads). -/
def prepComparisonSample (mvrIds cvrIds : List String) (order : List (String × Nat)) :
    Except Err (List String × List String) :=
  match sortByOrder order mvrIds with                                         -- L771
  | .error e => .error e
  | .ok m =>
    match sortByOrder order cvrIds with                                       -- L772
    | .error e => .error e
    | .ok c =>
      if c.length ≠ m.length then .error .AssertionError                      -- L773-777
      else if (m.zip c).all (fun p => p.1 == p.2) then .ok (m, c)             -- L778-781
      else .error .AssertionError

/-! ### the filter of `mvrs_to_data` (L1649-1655) -/

inductive AuditType where
  | comparison   -- CARD_COMPARISON and ONEAUDIT (L1639-1642)
  | polling      -- L1660
  | other        -- L1667 NotImplementedError
deriving Repr, DecidableEq, Inhabited

/-- L1649-1654 for one sampled CVR, when the threshold is a number:
`(not use_style) or (cvr.has_contest(con.id) and (use_all or cvr.sample_num <= con.sample_threshold))` -/
def keep (useStyle useAll : Bool) (c : ContestId) (thr : Nat) (cd : Card) : Bool :=
  !useStyle || (cd.has c && (useAll || decide (cd.sampleNum ≤ thr)))

/-- positions `i` of `range(len(mvr_sample))` that pass the filter.  `sample_num <= None` raises
`TypeError`; by short-circuit evaluation it is reached iff `use_style`, not `use_all`, and some sampled
CVR lists the contest. -/
def dataIndices (ty : AuditType) (useStyle useAll : Bool) (con : Contest) (cvrSample : List Card) :
    Except Err (List Nat) :=
  match ty with
  | .other => .error .NotImplementedError
  | .polling => .ok (List.range cvrSample.length)                             -- L1662-1664: no filter
  | .comparison =>
    match con.sampleThreshold with
    | some t => .ok ((cvrSample.zipIdx.filter (fun p => keep useStyle useAll con.id t p.1)).map (·.2))
    | none =>
      if !useStyle then .ok (List.range cvrSample.length)
      else if useAll then .ok ((cvrSample.zipIdx.filter (fun p => p.1.has con.id)).map (·.2))
      else if cvrSample.any (fun cd => cd.has con.id) then .error .TypeError
      else .ok []

/-! ### `set_p_values` L2331 -/

/-- `asn.proved = (asn.p_value <= con.risk_limit) or asn.proved` -/
def provedStep (limit p : Rat) (proved : Bool) : Bool := decide (p ≤ limit) || proved

/-- the `proved` flag after each of a sequence of calls of `set_p_values` with p-values `ps` -/
def provedHistory (limit : Rat) : Bool → List Rat → List Bool
  | _, [] => []
  | b, p :: ps => provedStep limit p b :: provedHistory limit (provedStep limit p b) ps

/-! ### rounds -/

namespace Rounds

/-- one round: the new `sample_size` of every contest (dict order) and whether the previously returned
index list is passed back as `sampled_cvr_indices` (continue) or `None` is passed (draw from scratch) -/
structure Round where
  sizes : List Nat
  cont : Bool
deriving Repr, Inhabited

structure State where
  cards : List Card
  contests : List Contest      -- thresholds persist between rounds
  sampled : List Bool          -- `cvr.sampled` of every card; persists between rounds
  prev : List Nat := []        -- the list returned by the previous round

structure Out where
  selected : List Nat                        -- returned by `consistent_sampling`
  thresholds : List (Option Nat)             -- per contest
  data : List (Except Err (List Nat))        -- per contest: positions of the sample that are its data
  dataCards : List (Except Err (List Nat))   -- the same as card indices (`selected[p]`)

def setSizes : List Contest → List Nat → List Contest
  | con :: cs, n :: ns => { con with sampleSize := n } :: setSizes cs ns
  | cs, _ => cs

/-- `cvr.sampled = True` for the flagged cards, the others keep their value -/
def setSampled : List Bool → List Bool → List Bool
  | b :: bs, f :: fs => (b || f) :: setSampled bs fs
  | bs, _ => bs

/-- the cards of a contest's data: `dataIndices` on `cvr_sample = [cvr_list[i] for i in sel]`, reported as
card indices `sel[p]` -/
def dataCards (useStyle : Bool) (cards : List Card) (con : Contest) (sel : List Nat) : Except Err (List Nat) :=
  match dataIndices .comparison useStyle false con (sel.filterMap (fun i => cards[i]?)) with
  | .ok ps => .ok (ps.filterMap (fun p => sel[p]?))
  | .error e => .error e

/-- set the sizes, call `consistent_sampling`, form `cvr_sample = [cvr_list[i] for i in selected]`
(already in selection order, which is what `prep_comparison_sample` restores), and apply the
`mvrs_to_data` filter for every contest -/
def step (useStyle : Bool) (st : State) (r : Round) : Except Err (State × Out) :=
  let cons := setSizes st.contests r.sizes
  match consistentSampling st.cards cons (if r.cont then some st.prev else none) with
  | .error e => .error e
  | .ok (sel, cons', flags) =>
    let cvrSample := sel.filterMap (fun i => st.cards[i]?)
    .ok ({ st with sampled := setSampled st.sampled flags, contests := cons', prev := sel },
         { selected := sel, thresholds := cons'.map (·.sampleThreshold),
           data := cons'.map (fun con => dataIndices .comparison useStyle false con cvrSample),
           dataCards := cons'.map (fun con => dataCards useStyle st.cards con sel) })

/-- run a sequence of rounds; stops at the first error -/
def run (useStyle : Bool) : State → List Round → List (Except Err Out)
  | _, [] => []
  | st, r :: rs =>
    match step useStyle st r with
    | .error e => [.error e]
    | .ok (st', o) => .ok o :: run useStyle st' rs

end Rounds

end Shangrla.Sampling
