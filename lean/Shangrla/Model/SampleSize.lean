/-
  Literal model of the sample-size estimators built on `NonnegMean.sample_size`:

    shangrla/core/Audit.py   Assertion.interleave_values, Assertion.make_overstatement,
                             Assertion.find_sample_size, Contest.find_sample_size and the
                             max-over-unproved-assertions part of Audit.find_sample_size
    shangrla/raire/sample_estimator.py   sample_size

  Conventions as in `Model/NonnegMean.lean` (floats are exact rationals, a numpy vector is a `List`,
  exceptions are `Except Err`).  Python `int`s that may be negative are `Int`; counters that only
  grow from 0 are `Nat`.  The random tails `prng.choice(x, size=ran_len)` of the simulation branch
  are an argument (`reps = some tails`), exactly as in `NM.sampleSize`.
  Core Lean only (compiled into the driver).
-/
import Shangrla.Model.NonnegMean

namespace Shangrla.SS
open Shangrla Shangrla.NM

/-- exceptions: those of `NonnegMean` plus the two classes only `Audit.py` raises here -/
inductive Err where
  | nm (e : NM.Err)
  | notImplemented
  | key
deriving DecidableEq, Repr, Inhabited

def Err.toStr : Err → String
  | .nm e => e.toStr
  | .notImplemented => "NotImplementedError"
  | .key => "KeyError"

def liftNM {α} : Except NM.Err α → Except Err α
  | .ok a => .ok a
  | .error e => .error (.nm e)

/-! ### `Assertion.interleave_values` (Audit.py L1825-1876) -/

inductive Cls where | small | med | big
deriving DecidableEq, Repr, Inhabited

/-- `(n - i) / n` on Python numbers: `ZeroDivisionError` when `n == 0` -/
def ratio (n : Int) (i : Nat) : Except Err Rat :=
  if n = 0 then .error (.nm .zerodiv) else .ok (((n - (i : Int) : Int) : Rat) / ((n : Int) : Rat))

/-- the `if r_small > r_big: (if r_med > r_small: med else small) elif r_med > r_big: med else: big`
cascade of the loop body (L1858-1875) -/
def choose (rS rM rB : Rat) : Cls :=
  if rS > rB then (if rM > rS then .med else .small)
  else if rM > rB then .med else .big

/-- loop state: the three counters and the three "fraction remaining" ratios -/
structure IState where
  iS : Nat
  iM : Nat
  iB : Nat
  rS : Rat
  rM : Rat
  rB : Rat
deriving Repr, Inhabited

/-- `k` iterations of `for i in range(1, N)` (L1857-1875): the values written to `x[i]`, in order -/
def ivLoop (nS nM nB : Int) (small med big : Rat) : Nat → IState → Except Err (List Rat)
  | 0, _ => .ok []
  | k + 1, st =>
    match choose st.rS st.rM st.rB with
    | .med => do
        let r ← ratio nM (st.iM + 1)                      -- x[i] = med; i_med += 1; r_med = ...
        let rest ← ivLoop nS nM nB small med big k { st with iM := st.iM + 1, rM := r }
        pure (med :: rest)
    | .small => do
        let r ← ratio nS (st.iS + 1)
        let rest ← ivLoop nS nM nB small med big k { st with iS := st.iS + 1, rS := r }
        pure (small :: rest)
    | .big => do
        let r ← ratio nB (st.iB + 1)
        let rest ← ivLoop nS nM nB small med big k { st with iB := st.iB + 1, rB := r }
        pure (big :: rest)

/-- `interleave_values(n_small, n_med, n_big, small, med, big)` -/
def interleaveValues (nS nM nB : Int) (small med big : Rat) : Except Err (List Rat) :=
  let N : Int := nS + nM + nB                              -- L1839
  if N < 0 then .error (.nm .value)                        -- np.zeros(N): negative dimensions
  else
    let r0 (n : Int) : Rat := if n ≠ 0 then 1 else 0       -- L1844-1846 (`r_big = 1 if n_big else 0`)
    let st0 : IState := { iS := 0, iM := 0, iB := 0, rS := r0 nS, rM := r0 nM, rB := r0 nB }
    if N = 0 then .error (.nm .index)                      -- x[0] = ... on an empty array
    else if nS ≠ 0 then do                                 -- L1847: start with small
      let r ← ratio nS 1
      let rest ← ivLoop nS nM nB small med big (N.toNat - 1) { st0 with iS := 1, rS := r }
      pure (small :: rest)
    else if nM ≠ 0 then do                                 -- L1851: start with 1/2
      let r ← ratio nM 1
      let rest ← ivLoop nS nM nB small med big (N.toNat - 1) { st0 with iM := 1, rM := r }
      pure (med :: rest)
    else do                                                -- L1855
      let r ← ratio nB 1
      let rest ← ivLoop nS nM nB small med big (N.toNat - 1) { st0 with iB := 1, rB := r }
      pure (big :: rest)

/-! ### `Assertion.make_overstatement` (Audit.py L1587-1607) -/

/-- `(1 - overs/upper_bound) / (2 - margin/upper_bound)` on Python floats -/
def makeOverstatement (ub margin overs : Rat) : Except Err Rat :=
  if ub = 0 then .error (.nm .zerodiv)
  else
    let d := 2 - margin / ub
    if d = 0 then .error (.nm .zerodiv) else .ok ((1 - overs / ub) / d)

/-! ### the assumed populations of `Assertion.find_sample_size` (data is None) -/

/-- Python `int(q)`: truncation towards zero -/
def truncInt (q : Rat) : Int := if q < 0 then -((-q).floor) else q.floor

/-- `np.arange(0, n, step)` for a positive step -/
def arange (n step : Nat) : List Nat := (List.range ((n + step - 1) / step)).map (· * step)

/-- `x[idx] = v` (numpy fancy assignment; every index used here is `< len(x)`) -/
def assign (x : List Rat) (idx : List Nat) (v : Rat) : List Rat :=
  idx.foldl (fun acc i => acc.set i v) x

/-- `np.arange(0, N, step=int(1 / rate), dtype=int) if rate else []` (L1786-1795) -/
def rateIdx (n : Nat) (rate : Option Rat) : Except Err (List Nat) :=
  match rate with
  | none => .ok []                                        -- `if None`
  | some r =>
    if r = 0 then .ok []                                  -- `if 0`
    else
      let step := truncInt (1 / r)
      if step = 0 then .error (.nm .zerodiv)              -- np.arange(..., step=0)
      else if step < 0 then .ok []                        -- negative step from 0 up to N >= 0: empty
      else .ok (arange n step.toNat)

/-- L1782-1797: `x = big*ones(N); x[rate_1_i] = small; x[rate_2_i] = 0` -/
def comparisonPop (n : Nat) (rate1 rate2 : Option Rat) (small big : Rat) : Except Err (List Rat) := do
  let i1 ← rateIdx n rate1
  let i2 ← rateIdx n rate2
  pure (assign (assign (List.replicate n big) i1 small) i2 0)

inductive AuditType where | polling | cardComparison | oneaudit | other
deriving DecidableEq, Repr, Inhabited

/-- what `Assertion.find_sample_size` reads from the assertion, its assorter, its contest and its test -/
structure Assertion where
  auditType : AuditType                    -- self.contest.audit_type
  irv : Bool                               -- self.contest.choice_function == IRV
  tally : Option (List (String × Int))     -- self.contest.tally (None or a dict)
  winner : String
  loser : String
  upperBound : Rat                         -- self.assorter.upper_bound
  margin : Option Rat                      -- self.margin
  riskLimit : Rat                          -- self.contest.risk_limit
  cfg : NM.Cfg                             -- self.test (attributes)
  test : NM.Test                           -- self.test (risk function and estimator/bet)
deriving Repr, Inhabited

/-- the polling population (L1767-1781): the reported tallies interleaved -/
def pollingPop (a : Assertion) (n : Nat) : Except Err (List Rat) :=
  if a.irv then .error .notImplemented
  else
    match a.tally with
    | none => .error (.nm .value)
    | some [] => .error (.nm .value)                       -- `if self.contest.tally:` on an empty dict
    | some tl =>
      match tl.lookup a.loser with
      | none => .error .key
      | some n0 =>
        match tl.lookup a.winner with
        | none => .error .key
        | some nBig =>
          let nHalf : Int := (n : Int) - n0 - nBig
          interleaveValues n0 nHalf nBig 0 (1 / 2) a.upperBound

/-- the `else:` branch of `find_sample_size` up to the call of `self.test.sample_size` (L1748-1803) -/
def assumedPopulation (a : Assertion) (margin : Rat) (rate1 rate2 : Option Rat) :
    Except Err (List Rat) := do
  let polling := a.auditType == .polling
  let big ← if polling then pure a.upperBound else makeOverstatement a.upperBound margin 0
  let small ← if polling then pure (0 : Rat) else makeOverstatement a.upperBound margin (1 / 2)
  let rate1 : Rat := rate1.getD ((1 - margin) / 2)
  match a.cfg.N with
  | none => .error (.nm .type)                             -- np.ones(np.inf)
  | some n =>
    match a.auditType with
    | .polling => pollingPop a n
    | .cardComparison => comparisonPop n (some rate1) rate2 small big
    | .oneaudit => comparisonPop n (some rate1) rate2 small big
    | .other => .error .notImplemented

/-- `Assertion.find_sample_size` (L1670-1823); the side effect `self.sample_size = ...` is the result -/
def assertionFindSampleSize (sqrtF : Rat → Rat) (a : Assertion) (data : Option (List Rat)) (pfx : Bool)
    (rate1 rate2 : Option Rat) (reps : Option (List (List Rat))) (quantile : Rat) : Except Err Nat :=
  match a.margin with
  | none => .error (.nm .type)                             -- None > 0
  | some margin =>
    if ¬ (margin > 0) then .error (.nm .assertion)
    else
      match data with
      | some d => liftNM (sampleSize sqrtF a.cfg a.test d a.riskLimit reps pfx quantile)
      | none => do
        let x ← assumedPopulation a margin rate1 rate2
        liftNM (sampleSize sqrtF a.cfg a.test x a.riskLimit reps pfx quantile)

/-! ### contest and audit level -/

/-- one assertion of a contest together with the inputs that other functions compute for it -/
structure Item where
  a : Assertion
  proved : Bool := false
  /-- `a.mvrs_to_data(mvr_sample, cvr_sample)[0]` (used when an MVR sample is given) -/
  mvrData : List Rat := []
  /-- ONEAudit without MVRs: `a.mvrs_to_data(cvr_sample, cvr_sample)[0]` (Contest) resp. the data built
  from all CVRs with the assumed errors written in (Audit, L1096-1108) -/
  cvrData : List Rat := []
  /-- the random tails of this assertion's simulation (`reps is None` = `none`); every assertion starts
  its own `RandomState(seed)` -/
  tails : Option (List (List Rat)) := none
deriving Repr, Inhabited

/-- `Contest.find_sample_size` (L2698-2752): `max` over the assertions, starting from 0 -/
def contestFindSampleSize (sqrtF : Rat → Rat) (ctype : AuditType) (hasMvr : Bool) (items : List Item)
    (rate1 rate2 : Option Rat) (quantile : Rat) : Except Err Nat :=
  items.foldlM (fun acc it => do
    let data := if hasMvr then some it.mvrData
                else if ctype == .oneaudit then some it.cvrData else none
    let s ← assertionFindSampleSize sqrtF it.a data false rate1 rate2 it.tails quantile
    pure (max acc s)) 0

/-- `Audit.find_sample_size`, inner loop (L1081-1122): `new_size` of one contest = `max` over its
assertions that are not yet proved -/
def auditContestNewSize (sqrtF : Rat → Rat) (ctype : AuditType) (hasMvr : Bool) (items : List Item)
    (rate1 rate2 : Option Rat) (quantile : Rat) : Except Err Nat :=
  items.foldlM (fun acc it =>
    if it.proved then pure acc
    else if hasMvr then do
      let s ← assertionFindSampleSize sqrtF it.a (some it.mvrData) true none none it.tails quantile
      pure (max acc s)
    else do
      let data := if ctype == .oneaudit then some it.cvrData else none
      let s ← assertionFindSampleSize sqrtF it.a data false rate1 rate2 it.tails quantile
      pure (max acc s)) 0

/-! ### `Audit.find_sample_size` over several contests (L1075-1139) -/

/-- one of the two error injections of the ONEAudit branch (L1100-1105):
`if rate: idx = np.arange(0, len(data), math.floor(1/rate)); data[idx] = asn.make_overstatement(overs)` -/
def injectOne (data : List Rat) (rate : Option Rat) (ub : Rat) (margin : Option Rat) (overs : Rat) :
    Except Err (List Rat) :=
  match rate with
  | none => .ok data                                       -- `if None`
  | some r =>
    if r = 0 then .ok data                                 -- `if 0`
    else
      let step : Int := (1 / r).floor                      -- math.floor (not int())
      if step = 0 then .error (.nm .zerodiv)               -- np.arange(..., step=0)
      else
        let idx := if step < 0 then [] else arange data.length step.toNat
        match margin with
        | none => .error (.nm .type)                       -- None / upper_bound
        | some m => do
          let v ← makeOverstatement ub m overs
          pure (assign data idx v)

/-- L1096-1105: one-vote overstatements at the rate `error_rate_1`, then two-vote overstatements
(`overs=1`) at the rate `error_rate_2`, written into the data built from all CVRs -/
def oneauditInject (data : List Rat) (rate1 rate2 : Option Rat) (ub : Rat) (margin : Option Rat) :
    Except Err (List Rat) := do
  let d1 ← injectOne data rate1 ub margin (1 / 2)
  injectOne d1 rate2 ub margin 1

/-- the inner loop of `Audit.find_sample_size` for one contest, including the ONEAudit branch: here
`Item.cvrData` is the raw `asn.mvrs_to_data(cvrs, cvrs, use_all=True)[0]` and the assumed errors are
written in by the model -/
def auditContestNewSizeInj (sqrtF : Rat → Rat) (ctype : AuditType) (hasMvr : Bool) (items : List Item)
    (rate1 rate2 : Option Rat) (quantile : Rat) : Except Err Nat :=
  items.foldlM (fun acc it =>
    if it.proved then pure acc
    else if hasMvr then do
      let s ← assertionFindSampleSize sqrtF it.a (some it.mvrData) true none none it.tails quantile
      pure (max acc s)
    else if ctype == .oneaudit then do
      let data ← oneauditInject it.cvrData rate1 rate2 it.a.upperBound it.a.margin
      let s ← assertionFindSampleSize sqrtF it.a (some data) false rate1 rate2 it.tails quantile
      pure (max acc s)
    else do
      let s ← assertionFindSampleSize sqrtF it.a none false rate1 rate2 it.tails quantile
      pure (max acc s)) 0

/-- a contest as `Audit.find_sample_size` sees it -/
structure AContest where
  ctype : AuditType                       -- con.audit_type
  items : List Item                       -- con.assertions, in dict order
deriving Repr, Inhabited

/-- the loop over `contests.items()` (L1075-1123): the list of `con.sample_size`, in dict order; the first
contest whose estimate raises makes the call raise -/
def auditFindSampleSizes (sqrtF : Rat → Rat) (hasMvr : Bool) (contests : List AContest)
    (rate1 rate2 : Option Rat) (quantile : Rat) : Except Err (List Nat) :=
  contests.mapM (fun c => auditContestNewSizeInj sqrtF c.ctype hasMvr c.items rate1 rate2 quantile)

/-- the value returned without style information (L1136-1139):
`np.max(np.array([con.sample_size for con in contests.values()]))` (ValueError for no contest) -/
def auditTotalNoStyle (sizes : List Nat) : Except Err Nat :=
  match sizes with
  | [] => .error (.nm .value)
  | s :: rest => .ok (rest.foldl max s)

/-! ### the tail of `Audit.find_sample_size` (L1075-1080 and L1124-1140): `old_sizes`, `cvr.p`, the total

Numeric types at `con.sample_size / (con.cards - old_sizes[c])` (probed on the real objects): `con.sample_size` is a
Python `int` (`max(0, int(...))`), `con.cards` a Python `int`, `old_sizes[c]` is `np.sum(np.array([...bools...]))`, a
`numpy.int64` (a `numpy.float64` `0.0` when no card lists the contest).  The difference is therefore a numpy scalar and
the division is numpy's: a zero divisor gives `inf` (`nan` for `0/0`) with a RuntimeWarning, **not** a
ZeroDivisionError.  Hence `XR`.  `math.ceil(inf)` raises OverflowError, `math.ceil(nan)` ValueError. -/

/-- a CVR as the tail reads it -/
structure Card where
  contests : List String                  -- the keys of `cvr.votes` (`cvr.has_contest(c)` is `c in self.votes`)
  sampled : Bool                          -- cvr.sampled
  phantom : Bool                          -- cvr.phantom
deriving Repr, Inhabited, DecidableEq

/-- `cvr.has_contest(c)` (L207) -/
def Card.has (cd : Card) (c : String) : Bool := cd.contests.contains c

/-- a contest as the tail reads it, after its `sample_size` has been set -/
structure SContest where
  id : String                             -- the key in `contests`
  size : Nat                              -- con.sample_size
  cards : Int                             -- con.cards
deriving Repr, Inhabited, DecidableEq

/-- `old_sizes[c]` (L1073-1080): with style information the number of already sampled cards that list the
contest, `np.sum(np.array([cvr.sampled for cvr in cvrs if cvr.has_contest(c)]))`; otherwise
`old = 0 if mvr_sample is None else len(mvr_sample)` (never read again in that branch) -/
def oldSize (useStyle : Bool) (mvrLen : Option Nat) (cvrs : List Card) (c : String) : Nat :=
  if useStyle then ((cvrs.filter (fun cd => cd.has c)).map (fun cd => cd.sampled)).count true
  else mvrLen.getD 0

/-- `con.sample_size / (con.cards - old_sizes[c])` (L1131): numpy division -/
def styleRatio (cvrs : List Card) (c : SContest) : XR :=
  XR.div (XR.fin (c.size : Rat)) (XR.fin ((c.cards - (oldSize true none cvrs c.id : Int) : Int) : Rat))

/-- one pass of `for c, con in contests.items()` (L1128-1132): Python's `max(a, b)` returns `a` unless `b > a` -/
def pStep (cvrs : List Card) (cd : Card) (p : XR) (c : SContest) : XR :=
  if cd.has c.id && !cd.sampled then XR.pymax (styleRatio cvrs c) p else p

/-- `cvr.p` after L1124-1133 -/
def cardP (cvrs : List Card) (contests : List SContest) (cd : Card) : XR :=
  if cd.sampled then 1                                     -- L1126
  else contests.foldl (pStep cvrs cd) 0                    -- L1128-1133

/-- `math.ceil` of a float -/
def ceilXR : XR → Except Err Int
  | .fin q => .ok q.ceil
  | .nan => .error (.nm .value)                            -- cannot convert float NaN to integer
  | _ => .error (.nm .overflow)                            -- cannot convert float infinity to integer

/-- `np.sum([c.p for c in cvrs if not c.phantom])` (L1134) -/
def sumP (cvrs : List Card) (contests : List SContest) : XR :=
  ((cvrs.filter (fun cd => !cd.phantom)).map (cardP cvrs contests)).foldl XR.add 0

/-- the value returned with style information (L1134): `math.ceil(np.sum([c.p for c in cvrs if not c.phantom]))` -/
def auditTotalStyle (cvrs : List Card) (contests : List SContest) : Except Err Int :=
  ceilXR (sumP cvrs contests)

/-- L1124-1140: the returned `total_size` of either branch -/
def auditTotal (useStyle : Bool) (cvrs : List Card) (contests : List SContest) : Except Err Int :=
  if useStyle then auditTotalStyle cvrs contests
  else (auditTotalNoStyle (contests.map (·.size))).map (fun (n : Nat) => (n : Int))

/-! ### `raire/sample_estimator.py: sample_size` -/

/-- `sample_size(mean, tw, tl, to, args, N, upper_bound, polling)`; `args` = (erate1, erate2, rlimit,
reps, seed).  The test is ALPHA with `shrink_trunc` (polling) or `optimal_comparison`, `eta = mean`. -/
def raireSetup (mean : Rat) (tw tl to : Int) (erate1 erate2 : Option Rat) (n : Nat) (ub : Rat)
    (polling : Bool) : Except Err (Cfg × Test × List Rat) := do
  let margin := 2 * mean - 1
  if ub = 0 then throw (.nm .zerodiv)                      -- margin/upper_bound
  let d := 2 - margin / ub
  if d = 0 then throw (.nm .zerodiv)                       -- u = 2/(2 - margin/upper_bound)
  let u := 2 / d
  let cfg := Cfg.init true false u (some n) (1 / 2) true { eta := some mean }
  let test := Test.alpha (if polling then .shrinkTrunc else .optimalComparison)
  let big : Rat := if polling then 1 else 1 / d
  let small : Rat := if polling then 0 else (1 / 2) / d
  let x ← if polling then interleaveValues tl to tw 0 (1 / 2) big
          else comparisonPop n erate1 erate2 small big
  pure (cfg, test, x)

def raireSampleSize (sqrtF : Rat → Rat) (mean : Rat) (tw tl to : Int) (erate1 erate2 : Option Rat)
    (rlimit : Rat) (reps : Option (List (List Rat))) (n : Nat) (ub : Rat) (polling : Bool) :
    Except Err Nat := do
  let (cfg, test, x) ← raireSetup mean tw tl to erate1 erate2 n ub polling
  liftNM (sampleSize sqrtF cfg test x rlimit reps false (1 / 2))

end Shangrla.SS
