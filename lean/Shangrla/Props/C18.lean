/-
  C18 — merging records for one card loses nothing and keeps its flags meaningful.

  Theorems are about `Shangrla.Merge.mergeCvrs` and `Shangrla.Merge.fromRaire`, the literal models of
  `CVR.merge_cvrs` and `CVR.from_raire` (shangrla/core/Audit.py) that the driver executes.  All statements
  hold for arbitrary input lists (any length, any repetition of identifiers, any overlap of contests, any
  flags); the only hypothesis anywhere is, in `merge_votes`, that the input vote dicts are dicts (an association
  list with distinct keys) — a representation invariant, not a restriction of the inputs.

    merge_ids          one record per identifier, in first-appearance order
    merge_votes        contests = union; within a contest the LAST record of the card wins, wholesale
    merge_phantom_all  phantom  = all
    merge_pool_any     pool     = any (a Bool)
    merge_tally_pool   ValueError iff two records of one card carry different non-None tally pools
                       (position-independent: [A, None, B] raises); otherwise the common pool / None
    from_raire_ranks   rows after the `skip + 1` header lines; rank m to the m-th listed candidate;
                       a card's contests merged; flags

  Core Lean only (no Mathlib).
-/
import Shangrla.Model.Merge

namespace Shangrla.C18
open Shangrla.Merge
section FA
variable {α : Type} [DecidableEq α]

/-- the distinct elements of a list in order of first appearance -/
def firstAppear : List α → List α
  | [] => []
  | x :: xs => x :: (firstAppear xs).filter (fun y => y != x)

def addKey (acc : List α) (x : α) : List α := if x ∈ acc then acc else acc ++ [x]

theorem foldl_addKey (xs acc : List α) :
    xs.foldl addKey acc = acc ++ (firstAppear xs).filter (fun y => !acc.contains y) := by
  induction xs generalizing acc with
  | nil => simp [firstAppear]
  | cons x xs ih =>
    simp only [List.foldl_cons, firstAppear]
    rw [ih]
    unfold addKey
    by_cases hx : x ∈ acc
    · have hc : acc.contains x = true := by simpa using hx
      simp only [hx, if_true]
      congr 1
      rw [List.filter_cons]
      simp only [hc, Bool.not_true, Bool.false_eq_true, if_false, List.filter_filter]
      apply List.filter_congr
      intro y _
      by_cases hy : y ∈ acc
      · simp [hy]
      · have : y ≠ x := fun e => hy (e ▸ hx)
        simp [hy, this]
    · have hc : acc.contains x = false := by simpa using hx
      simp only [hx, if_false]
      rw [List.filter_cons]
      simp only [hc, Bool.not_false, if_true, List.filter_filter, List.append_assoc,
        List.singleton_append]
      congr 2
      apply List.filter_congr
      intro y _
      by_cases hy : y ∈ acc <;> by_cases hyx : y = x <;> simp [hy, hyx]

theorem mem_firstAppear (xs : List α) (y : α) : y ∈ firstAppear xs ↔ y ∈ xs := by
  induction xs with
  | nil => simp [firstAppear]
  | cons x xs ih =>
    simp only [firstAppear, List.mem_cons, List.mem_filter, ih]
    by_cases h : y = x <;> simp [h]

theorem firstAppear_sublist (xs : List α) : (firstAppear xs).Sublist xs := by
  induction xs with
  | nil => exact List.Sublist.slnil
  | cons x xs ih => exact (List.filter_sublist.trans ih).cons_cons x

theorem firstAppear_nodup (xs : List α) : (firstAppear xs).Nodup := by
  induction xs with
  | nil => simp [firstAppear]
  | cons x xs ih =>
    simp only [firstAppear, List.nodup_cons, List.mem_filter]
    refine ⟨by simp, ih.sublist List.filter_sublist⟩

end FA

section Dict
variable {κ β : Type} [DecidableEq κ]

theorem dget_dset (d : List (κ × β)) (k : κ) (v : β) (k' : κ) :
    dget (dset d k v) k' = if k = k' then some v else dget d k' := by
  induction d with
  | nil => simp [dset, dget]
  | cons a d ih =>
    obtain ⟨k0, v0⟩ := a
    by_cases h : k0 = k
    · subst h; by_cases h' : k0 = k' <;> simp [dset, dget, h']
    · by_cases h' : k0 = k'
      · subst h'
        have : ¬ k = k0 := fun e => h e.symm
        simp [dset, dget, h, this]
      · simp [dset, dget, h, h', ih]

theorem dget_eq_none_iff (d : List (κ × β)) (k : κ) : dget d k = none ↔ k ∉ keys d := by
  induction d with
  | nil => simp [dget, keys]
  | cons a d ih =>
    obtain ⟨k0, v0⟩ := a
    by_cases h : k0 = k
    · simp [dget, keys, h]
    · have h2 : ¬ k = k0 := fun e => h e.symm
      simp only [keys] at ih
      simp [dget, keys, h, h2, ih]

theorem keys_dset (d : List (κ × β)) (k : κ) (v : β) :
    keys (dset d k v) = if k ∈ keys d then keys d else keys d ++ [k] := by
  induction d with
  | nil => simp [dset, keys]
  | cons a d ih =>
    obtain ⟨k0, v0⟩ := a
    simp only [keys] at ih
    by_cases h : k0 = k
    · simp [dset, keys, h]
    · have h2 : ¬ k = k0 := fun e => h e.symm
      by_cases hm : k ∈ List.map Prod.fst d
      · simp [dset, keys, h, h2, hm, ih]
      · simp [dset, keys, h, h2, hm, ih]

theorem dget_of_mem (d : List (κ × β)) (hnd : (keys d).Nodup) (k : κ) (v : β) (h : (k, v) ∈ d) :
    dget d k = some v := by
  induction d with
  | nil => simp at h
  | cons a d ih =>
    obtain ⟨k0, v0⟩ := a
    simp only [keys, List.map_cons, List.nodup_cons] at hnd
    rcases List.mem_cons.1 h with h | h
    · cases h; simp [dget]
    · have : k0 ≠ k := by
        intro e; subst e
        exact hnd.1 (List.mem_map.2 ⟨(k0, v), h, rfl⟩)
      simp only [dget, this, if_false]
      exact ih hnd.2 h

theorem mem_of_dget (d : List (κ × β)) (k : κ) (v : β) (h : dget d k = some v) : (k, v) ∈ d := by
  induction d with
  | nil => simp [dget] at h
  | cons a d ih =>
    obtain ⟨k0, v0⟩ := a
    by_cases e : k0 = k
    · subst e; simp [dget] at h; simp [h]
    · simp only [dget, e, if_false] at h
      exact List.mem_cons_of_mem _ (ih h)

/-- `{**a, **b}[k]` is `b[k]` when `b` has `k`, else `a[k]` (`b` a dict: distinct keys) -/
theorem dget_dictMerge (a b : List (κ × β)) (hb : (keys b).Nodup) (k : κ) :
    dget (dictMerge a b) k = (dget b k).or (dget a k) := by
  unfold dictMerge
  induction b generalizing a with
  | nil => simp [dget]
  | cons x b ih =>
    obtain ⟨k0, v0⟩ := x
    simp only [keys, List.map_cons, List.nodup_cons] at hb
    simp only [List.foldl_cons]
    rw [ih _ hb.2, dget_dset]
    by_cases e : k0 = k
    · subst e
      have : dget b k0 = none := (dget_eq_none_iff b k0).2 hb.1
      simp [dget, this]
    · simp [dget, e]

theorem keys_dictMerge_nodup (a b : List (κ × β)) (ha : (keys a).Nodup) : (keys (dictMerge a b)).Nodup := by
  unfold dictMerge
  induction b generalizing a with
  | nil => simpa using ha
  | cons x b ih =>
    simp only [List.foldl_cons]
    apply ih
    rw [keys_dset]
    split
    · exact ha
    · rename_i h
      rw [List.nodup_append]
      refine ⟨ha, by simp, ?_⟩
      intro a' ha' b' hb'
      simp at hb'; subst hb'
      intro e; subst e; exact h ha'

end Dict

variable {ν : Type}

theorem mergeInto_ok {o c r : Rec ν} (h : mergeInto o c = .ok r) :
    r.id = o.id ∧ r.votes = dictMerge o.votes c.votes ∧ r.phantom = (c.phantom && o.phantom) ∧
    r.pool = (c.pool || o.pool) ∧ r.tallyPool = o.tallyPool.or c.tallyPool ∧
    (∀ s t, o.tallyPool = some s → c.tallyPool = some t → s = t) := by
  obtain ⟨oid, ov, oph, opl, otp⟩ := o
  obtain ⟨cid, cv, cph, cpl, ctp⟩ := c
  cases otp <;> cases ctp <;> simp [mergeInto] at h
  · subst h; simp
  · subst h; simp
  · subst h; simp
  · rename_i s t
    by_cases e : s = t
    · simp [e] at h; subst h; simp [e]
    · simp [e] at h

theorem mergeInto_err {o c : Rec ν} {e : Err} (h : mergeInto o c = .error e) :
    e = .ValueError ∧ ∃ s t, o.tallyPool = some s ∧ c.tallyPool = some t ∧ s ≠ t := by
  obtain ⟨oid, ov, oph, opl, otp⟩ := o
  obtain ⟨cid, cv, cph, cpl, ctp⟩ := c
  cases otp <;> cases ctp <;> simp [mergeInto] at h
  rename_i s t
  by_cases e' : s = t
  · simp [e'] at h
  · simp [e'] at h
    exact ⟨h.symm, s, t, rfl, rfl, e'⟩


/-- the records of `l` that carry identifier `i`, in list order -/
def group (l : List (Rec ν)) (i : String) : List (Rec ν) := l.filter (fun a => a.id == i)

/-- the vote dict of the last record of `G` that lists contest `k` (`none`: no record lists it) -/
def lastVote (G : List (Rec ν)) (k : String) : Option (List (String × ν)) :=
  G.foldl (fun acc a => (dget a.votes k).or acc) none

theorem bind_ok {α β : Type} (a : α) (f : α → Except Err β) : (Except.ok a >>= f) = f a := rfl
theorem bind_err {α β : Type} (e : Err) (f : α → Except Err β) : (Except.error e >>= f) = Except.error e := rfl

/-- what folding `mergeInto` over the later records `rest` of a card does to its first record `o` -/
theorem foldGroup_ok (rest : List (Rec ν)) : ∀ (o r : Rec ν), rest.foldlM mergeInto o = .ok r →
    r.id = o.id ∧
    r.phantom = (o :: rest).all (·.phantom) ∧
    r.pool = (o :: rest).any (·.pool) ∧
    (∀ a ∈ o :: rest, ∀ t, a.tallyPool = some t → r.tallyPool = some t) ∧
    (∀ t, r.tallyPool = some t → ∃ a ∈ o :: rest, a.tallyPool = some t) ∧
    ((∀ a ∈ rest, (keys a.votes).Nodup) →
      ∀ k, dget r.votes k = rest.foldl (fun acc a => (dget a.votes k).or acc) (dget o.votes k)) ∧
    ((keys o.votes).Nodup → (keys r.votes).Nodup) := by
  induction rest with
  | nil =>
    intro o r h
    simp only [List.foldlM_nil] at h
    cases h
    refine ⟨rfl, by simp, by simp, ?_, ?_, ?_, id⟩
    · intro a ha t ht; simp at ha; subst ha; exact ht
    · intro t ht; exact ⟨o, by simp, ht⟩
    · intro _ k; rfl
  | cons c rest ih =>
    intro o r h
    rw [List.foldlM_cons] at h
    cases hm : mergeInto o c with
    | error e => rw [hm, bind_err] at h; cases h
    | ok o' =>
      rw [hm, bind_ok] at h
      obtain ⟨hid, hph, hpl, htp1, htp2, hv, hnd⟩ := ih o' r h
      obtain ⟨mid, mv, mph, mpl, mtp, mcf⟩ := mergeInto_ok hm
      refine ⟨hid.trans mid, ?_, ?_, ?_, ?_, ?_, ?_⟩
      · rw [hph]; simp only [List.all_cons, mph]
        cases c.phantom <;> cases o.phantom <;> simp
      · rw [hpl]; simp only [List.any_cons, mpl]
        cases c.pool <;> cases o.pool <;> simp
      · intro a ha t ht
        have hr : ∀ t, o'.tallyPool = some t → r.tallyPool = some t := fun t h' => htp1 o' (by simp) t h'
        simp only [List.mem_cons] at ha
        rcases ha with rfl | rfl | ha
        · apply hr; rw [mtp, ht]; rfl
        · apply hr; rw [mtp]
          cases ho : o.tallyPool with
          | none => simpa using ht
          | some s => rw [mcf s t ho ht]; rfl
        · exact htp1 a (by simp [ha]) t ht
      · intro t ht
        obtain ⟨a, ha, hat⟩ := htp2 t ht
        simp only [List.mem_cons] at ha
        rcases ha with rfl | ha
        · rw [mtp] at hat
          cases ho : o.tallyPool with
          | none => rw [ho] at hat; exact ⟨c, by simp, by simpa using hat⟩
          | some s => rw [ho] at hat; exact ⟨o, by simp, by rw [ho]; simpa using hat⟩
        · exact ⟨a, by simp [ha], hat⟩
      · intro hwf k
        have hc : (keys c.votes).Nodup := hwf c (by simp)
        rw [hv (fun a ha => hwf a (by simp [ha])) k, List.foldl_cons, mv, dget_dictMerge _ _ hc]
      · intro ho
        apply hnd; rw [mv]; exact keys_dictMerge_nodup _ _ ho

theorem foldGroup_err (rest : List (Rec ν)) : ∀ (o : Rec ν) (e : Err), rest.foldlM mergeInto o = .error e →
    e = .ValueError ∧ ∃ a ∈ o :: rest, ∃ b ∈ o :: rest, ∃ s t,
      a.tallyPool = some s ∧ b.tallyPool = some t ∧ s ≠ t := by
  induction rest with
  | nil => intro o e h; simp only [List.foldlM_nil] at h; cases h
  | cons c rest ih =>
    intro o e h
    rw [List.foldlM_cons] at h
    cases hm : mergeInto o c with
    | error e' =>
      rw [hm, bind_err] at h; cases h
      obtain ⟨he, s, t, hs, ht, hne⟩ := mergeInto_err hm
      exact ⟨he, o, by simp, c, by simp, s, t, hs, ht, hne⟩
    | ok o' =>
      rw [hm, bind_ok] at h
      obtain ⟨he, a, ha, b, hb, s, t, hs, ht, hne⟩ := ih o' e h
      obtain ⟨mid, mv, mph, mpl, mtp, mcf⟩ := mergeInto_ok hm
      -- a record of `o' :: rest` with a tally pool comes from `o`, `c` or `rest`
      have lift : ∀ x ∈ o' :: rest, ∀ u, x.tallyPool = some u → ∃ y ∈ o :: c :: rest, y.tallyPool = some u := by
        intro x hx u hu
        simp only [List.mem_cons] at hx
        rcases hx with rfl | hx
        · rw [mtp] at hu
          cases ho : o.tallyPool with
          | none => rw [ho] at hu; exact ⟨c, by simp, by simpa using hu⟩
          | some s' => rw [ho] at hu; exact ⟨o, by simp, by rw [ho]; simpa using hu⟩
        · exact ⟨x, by simp [hx], hu⟩
      obtain ⟨a', ha', hs'⟩ := lift a ha s hs
      obtain ⟨b', hb', ht'⟩ := lift b hb t ht
      exact ⟨he, a', ha', b', hb', s, t, hs', ht', hne⟩


/-- the merge of one card's records: `none` for no record, else `mergeInto` folded over the later ones -/
def foldGroup : List (Rec ν) → Except Err (Option (Rec ν))
  | [] => .ok none
  | f :: rest => (rest.foldlM mergeInto f) >>= fun r => .ok (some r)

theorem foldGroup_snoc (G : List (Rec ν)) (c : Rec ν) :
    foldGroup (G ++ [c]) = foldGroup G >>= fun
      | none => .ok (some c)
      | some o => mergeInto o c >>= fun r => .ok (some r) := by
  cases G with
  | nil => simp [foldGroup, bind_ok]
  | cons f rest =>
    simp only [List.cons_append, foldGroup, List.foldlM_append, List.foldlM_cons, List.foldlM_nil]
    cases h : List.foldlM mergeInto f rest with
    | error e => simp [bind_err]
    | ok o =>
      simp only [bind_ok]
      cases mergeInto o c <;> rfl

theorem group_snoc (p : List (Rec ν)) (c : Rec ν) (i : String) :
    group (p ++ [c]) i = if c.id = i then group p i ++ [c] else group p i := by
  unfold group
  rw [List.filter_append]
  by_cases h : c.id = i <;> simp [h]

theorem mem_group {l : List (Rec ν)} {i : String} {a : Rec ν} : a ∈ group l i ↔ a ∈ l ∧ a.id = i := by
  unfold group; simp

/-- invariant of the loop of `merge_cvrs`: after the records `p`, the `OrderedDict` holds under every id
the merge of the records of `p` with that id -/
def Inv (p : List (Rec ν)) (od : List (String × Rec ν)) : Prop :=
  ∀ i, foldGroup (group p i) = .ok (dget od i)

theorem step_ok {p : List (Rec ν)} {od od' : List (String × Rec ν)} {c : Rec ν}
    (hI : Inv p od) (h : step od c = .ok od') : Inv (p ++ [c]) od' := by
  intro i
  rw [group_snoc]
  by_cases hi : c.id = i
  · rw [if_pos hi, foldGroup_snoc, hI i, bind_ok]
    subst hi
    unfold step at h
    cases hd : dget od c.id with
    | none =>
      rw [hd] at h; simp only at h; cases h
      simp [dget_dset]
    | some o =>
      rw [hd] at h; simp only at h
      cases hm : mergeInto o c with
      | error e => rw [hm, bind_err] at h; cases h
      | ok o' =>
        rw [hm, bind_ok] at h; cases h
        simp only [hm, bind_ok, dget_dset, if_true]
  · rw [if_neg hi, hI i]
    have : dget od' i = dget od i := by
      unfold step at h
      cases hd : dget od c.id with
      | none => rw [hd] at h; simp only at h; cases h; simp [dget_dset, hi]
      | some o =>
        rw [hd] at h; simp only at h
        cases hm : mergeInto o c with
        | error e => rw [hm, bind_err] at h; cases h
        | ok o' => rw [hm, bind_ok] at h; cases h; simp [dget_dset, hi]
    rw [this]

/-- two records of one card with different (non-`None`) tally pools -/
def Conflict (l : List (Rec ν)) : Prop :=
  ∃ a ∈ l, ∃ b ∈ l, a.id = b.id ∧ ∃ s t, a.tallyPool = some s ∧ b.tallyPool = some t ∧ s ≠ t

theorem foldGroup_some {G : List (Rec ν)} {o : Rec ν} (h : foldGroup G = .ok (some o)) :
    ∃ f rest, G = f :: rest ∧ rest.foldlM mergeInto f = .ok o := by
  cases G with
  | nil => simp [foldGroup] at h
  | cons f rest =>
    refine ⟨f, rest, rfl, ?_⟩
    simp only [foldGroup] at h
    cases hf : List.foldlM mergeInto f rest with
    | error e => rw [hf, bind_err] at h; cases h
    | ok r => rw [hf, bind_ok] at h; cases h; rfl

theorem step_err {p : List (Rec ν)} {od : List (String × Rec ν)} {c : Rec ν} {e : Err}
    (hI : Inv p od) (h : step od c = .error e) : e = .ValueError ∧ Conflict (p ++ [c]) := by
  unfold step at h
  cases hd : dget od c.id with
  | none => rw [hd] at h; simp only at h; cases h
  | some o =>
    rw [hd] at h; simp only at h
    cases hm : mergeInto o c with
    | ok o' => rw [hm, bind_ok] at h; cases h
    | error e' =>
      rw [hm, bind_err] at h; cases h
      obtain ⟨he, s, t, hs, ht, hne⟩ := mergeInto_err hm
      have hg := hI c.id
      rw [hd] at hg
      obtain ⟨f, rest, hG, hf⟩ := foldGroup_some hg
      obtain ⟨a, ha, hat⟩ := (foldGroup_ok rest f o hf).2.2.2.2.1 s hs
      rw [← hG, mem_group] at ha
      exact ⟨he, a, by simp [ha.1], c, by simp, ha.2, s, t, hat, ht, hne⟩

theorem Conflict.mono {l l' : List (Rec ν)} (h : ∀ a ∈ l, a ∈ l') : Conflict l → Conflict l' := by
  rintro ⟨a, ha, b, hb, r⟩
  exact ⟨a, h a ha, b, h b hb, r⟩

theorem fold_step (l : List (Rec ν)) : ∀ (p : List (Rec ν)) (od : List (String × Rec ν)), Inv p od →
    (∀ od', l.foldlM step od = .ok od' → Inv (p ++ l) od') ∧
    (∀ e, l.foldlM step od = .error e → e = .ValueError ∧ Conflict (p ++ l)) := by
  induction l with
  | nil =>
    intro p od hI
    refine ⟨?_, ?_⟩
    · intro od' h; simp only [List.foldlM_nil] at h; cases h; simpa using hI
    · intro e h; simp only [List.foldlM_nil] at h; cases h
  | cons c l ih =>
    intro p od hI
    have e1 : p ++ c :: l = (p ++ [c]) ++ l := by simp
    cases hs : step od c with
    | error e' =>
      refine ⟨?_, ?_⟩
      · intro od' h; rw [List.foldlM_cons, hs, bind_err] at h; cases h
      · intro e h; rw [List.foldlM_cons, hs, bind_err] at h; cases h
        obtain ⟨he, hc⟩ := step_err hI hs
        exact ⟨he, hc.mono (by intro a ha; rw [e1]; exact List.mem_append_left _ ha)⟩
    | ok od1 =>
      have hI1 := step_ok hI hs
      obtain ⟨i1, i2⟩ := ih (p ++ [c]) od1 hI1
      refine ⟨?_, ?_⟩
      · intro od' h; rw [List.foldlM_cons, hs, bind_ok] at h; rw [e1]; exact i1 od' h
      · intro e h; rw [List.foldlM_cons, hs, bind_ok] at h; rw [e1]; exact i2 e h

theorem inv_nil : Inv ([] : List (Rec ν)) [] := by
  intro i; simp [group, foldGroup, dget]

theorem keys_step {od od' : List (String × Rec ν)} {c : Rec ν} (h : step od c = .ok od') :
    keys od' = addKey (keys od) c.id := by
  unfold step at h
  unfold addKey
  cases hd : dget od c.id with
  | none => rw [hd] at h; simp only at h; cases h; rw [keys_dset]
  | some o =>
    rw [hd] at h; simp only at h
    cases hm : mergeInto o c with
    | error e => rw [hm, bind_err] at h; cases h
    | ok o' => rw [hm, bind_ok] at h; cases h; rw [keys_dset]

theorem keys_fold (l : List (Rec ν)) : ∀ (od od' : List (String × Rec ν)), l.foldlM step od = .ok od' →
    keys od' = (l.map (·.id)).foldl addKey (keys od) := by
  induction l with
  | nil => intro od od' h; simp only [List.foldlM_nil] at h; cases h; rfl
  | cons c l ih =>
    intro od od' h
    rw [List.foldlM_cons] at h
    cases hs : step od c with
    | error e => rw [hs, bind_err] at h; cases h
    | ok od1 =>
      rw [hs, bind_ok] at h
      rw [ih od1 od' h, keys_step hs]; rfl


/-! ### what `mergeCvrs` returns -/

/-- every merged record is the fold of `mergeInto` over the records of its card, first record first -/
theorem merged_rec {l rs : List (Rec ν)} (h : mergeCvrs l = .ok rs) :
    rs.map (·.id) = firstAppear (l.map (·.id)) ∧
    ∀ r ∈ rs, ∃ f rest, group l r.id = f :: rest ∧ rest.foldlM mergeInto f = .ok r := by
  unfold mergeCvrs at h
  cases hf : l.foldlM step [] with
  | error e => rw [hf, bind_err] at h; cases h
  | ok od =>
    rw [hf, bind_ok] at h; cases h
    have hI : Inv l od := by simpa using (fold_step l [] [] inv_nil).1 od hf
    have hk : keys od = firstAppear (l.map (·.id)) := by
      rw [keys_fold l [] od hf, foldl_addKey]; simp [keys]
    have hnd : (keys od).Nodup := hk ▸ firstAppear_nodup _
    have hrec : ∀ x ∈ od, x.2.id = x.1 ∧
        ∃ f rest, group l x.1 = f :: rest ∧ rest.foldlM mergeInto f = .ok x.2 := by
      intro x hx
      have hd : dget od x.1 = some x.2 := dget_of_mem od hnd x.1 x.2 hx
      have hg := hI x.1
      rw [hd] at hg
      obtain ⟨f, rest, hG, hfold⟩ := foldGroup_some hg
      have hfid : f.id = x.1 := (mem_group.1 (by rw [hG]; simp : f ∈ group l x.1)).2
      exact ⟨(foldGroup_ok rest f x.2 hfold).1.trans hfid, f, rest, hG, hfold⟩
    refine ⟨?_, ?_⟩
    · rw [← hk, keys, List.map_map]
      apply List.map_congr_left
      intro x hx; exact (hrec x hx).1
    · intro r hr
      obtain ⟨x, hx, rfl⟩ := List.mem_map.1 hr
      obtain ⟨hid, f, rest, hG, hfold⟩ := hrec x hx
      exact ⟨f, rest, by rw [hid]; exact hG, hfold⟩

/-- **C18 `merge_ids`.** The merged list carries exactly the distinct identifiers of the input, each once,
in order of first appearance (`firstAppear` is the textbook definition; see `mem_firstAppear`,
`firstAppear_nodup`, `firstAppear_sublist`). -/
theorem merge_ids {l rs : List (Rec ν)} (h : mergeCvrs l = .ok rs) :
    rs.map (·.id) = firstAppear (l.map (·.id)) ∧ (rs.map (·.id)).Nodup ∧
    ∀ i, i ∈ rs.map (·.id) ↔ ∃ a ∈ l, a.id = i := by
  have h1 := (merged_rec h).1
  refine ⟨h1, h1 ▸ firstAppear_nodup _, ?_⟩
  intro i; rw [h1, mem_firstAppear]; simp

theorem foldl_or_none {α β : Type} (g : α → Option β) (G : List α) (init : Option β)
    (h : ∀ b ∈ G, g b = none) : G.foldl (fun acc a => (g a).or acc) init = init := by
  induction G generalizing init with
  | nil => rfl
  | cons a G ih =>
    rw [List.foldl_cons, h a (by simp), Option.none_or]
    exact ih init (fun b hb => h b (by simp [hb]))

theorem foldl_or_eq_none {α β : Type} (g : α → Option β) (G : List α) (init : Option β) :
    G.foldl (fun acc a => (g a).or acc) init = none ↔ init = none ∧ ∀ b ∈ G, g b = none := by
  induction G generalizing init with
  | nil => simp
  | cons a G ih =>
    rw [List.foldl_cons, ih]
    cases hg : g a <;> simp [hg]

theorem group_append (l₁ l₂ : List (Rec ν)) (i : String) : group (l₁ ++ l₂) i = group l₁ i ++ group l₂ i := by
  unfold group; exact List.filter_append ..

/-- **C18 `merge_votes`.** For every merged record `r` and contest `k` (input vote dicts being dicts, i.e. with
distinct keys): `r` lists `k` iff some input record of that card does, and then the vote dict stored under `k`
is — wholesale — that of the LAST input record of the card that lists `k`. The contests of `r` are again distinct. -/
theorem merge_votes {l rs : List (Rec ν)} (hwf : ∀ a ∈ l, (keys a.votes).Nodup)
    (h : mergeCvrs l = .ok rs) {r : Rec ν} (hr : r ∈ rs) (k : String) :
    dget r.votes k = lastVote (group l r.id) k ∧
    (dget r.votes k = none ↔ ∀ a ∈ l, a.id = r.id → dget a.votes k = none) ∧
    (∀ pre a post, l = pre ++ a :: post → a.id = r.id → dget a.votes k ≠ none →
       (∀ b ∈ post, b.id = r.id → dget b.votes k = none) → dget r.votes k = dget a.votes k) ∧
    (keys r.votes).Nodup := by
  obtain ⟨f, rest, hG, hfold⟩ := (merged_rec h).2 r hr
  obtain ⟨_, _, _, _, _, hv, hnd⟩ := foldGroup_ok rest f r hfold
  have hmem : ∀ a ∈ f :: rest, a ∈ l ∧ a.id = r.id := fun a ha => mem_group.1 (hG ▸ ha)
  have hlast : dget r.votes k = lastVote (group l r.id) k := by
    rw [hv (fun a ha => hwf a (hmem a (by simp [ha])).1) k, hG]
    simp [lastVote]
  refine ⟨hlast, ?_, ?_, hnd (hwf f (hmem f (by simp)).1)⟩
  · rw [hlast, lastVote, foldl_or_eq_none]
    simp only [true_and]
    constructor
    · intro hh a ha hid; exact hh a (mem_group.2 ⟨ha, hid⟩)
    · intro hh a ha; exact hh a (mem_group.1 ha).1 (mem_group.1 ha).2
  · intro pre a post hl hid hne hpost
    rw [hlast, hl, group_append]
    have : group (a :: post) r.id = a :: group post r.id := by
      unfold group; rw [List.filter_cons]; simp [hid]
    rw [this, lastVote, List.foldl_append, List.foldl_cons]
    cases hd : dget a.votes k with
    | none => exact absurd hd hne
    | some v =>
      rw [Option.some_or]
      exact foldl_or_none _ _ _ (fun b hb => hpost b (mem_group.1 hb).1 (mem_group.1 hb).2)

/-- **C18 `merge_phantom_all`.** The merged card is a phantom iff every record of the card was. -/
theorem merge_phantom_all {l rs : List (Rec ν)} (h : mergeCvrs l = .ok rs) {r : Rec ν} (hr : r ∈ rs) :
    r.phantom = (group l r.id).all (·.phantom) ∧
    (r.phantom = true ↔ ∀ a ∈ l, a.id = r.id → a.phantom = true) := by
  obtain ⟨f, rest, hG, hfold⟩ := (merged_rec h).2 r hr
  have h1 : r.phantom = (group l r.id).all (·.phantom) := by rw [hG]; exact (foldGroup_ok rest f r hfold).2.1
  refine ⟨h1, ?_⟩
  rw [h1, List.all_eq_true]
  constructor
  · intro hh a ha hid; exact hh a (mem_group.2 ⟨ha, hid⟩)
  · intro hh a ha; exact hh a (mem_group.1 ha).1 (mem_group.1 ha).2

/-- **C18 `merge_pool_any`.** The merged card's `pool` is a Boolean (it has type `Bool` in the model, and
the correspondence requires `type(c.pool) is bool` of the code) and is true iff some record of the card was pooled. -/
theorem merge_pool_any {l rs : List (Rec ν)} (h : mergeCvrs l = .ok rs) {r : Rec ν} (hr : r ∈ rs) :
    r.pool = (group l r.id).any (·.pool) ∧
    (r.pool = true ↔ ∃ a ∈ l, a.id = r.id ∧ a.pool = true) := by
  obtain ⟨f, rest, hG, hfold⟩ := (merged_rec h).2 r hr
  have h1 : r.pool = (group l r.id).any (·.pool) := by rw [hG]; exact (foldGroup_ok rest f r hfold).2.2.1
  refine ⟨h1, ?_⟩
  rw [h1, List.any_eq_true]
  constructor
  · rintro ⟨a, ha, hp⟩; exact ⟨a, (mem_group.1 ha).1, (mem_group.1 ha).2, hp⟩
  · rintro ⟨a, ha, hid, hp⟩; exact ⟨a, mem_group.2 ⟨ha, hid⟩, hp⟩

/-- **C18 `merge_tally_pool`.** `merge_cvrs` raises — and then it is `ValueError` — exactly when two records
of one card carry different non-`None` tally pools, wherever they stand in the list and whatever lies between
them (`[A, None, B]` raises like `[A, B]`; a `None` never conflicts). Otherwise every record of a card that
has a tally pool has the merged card's tally pool, and the merged card has none iff none of its records had. -/
theorem merge_tally_pool (l : List (Rec ν)) :
    (∀ e, mergeCvrs l = .error e → e = .ValueError) ∧
    (mergeCvrs l = .error .ValueError ↔ Conflict l) ∧
    (∀ rs, mergeCvrs l = .ok rs → ∀ r ∈ rs,
      (∀ a ∈ l, a.id = r.id → ∀ t, a.tallyPool = some t → r.tallyPool = some t) ∧
      (∀ t, r.tallyPool = some t → ∃ a ∈ l, a.id = r.id ∧ a.tallyPool = some t) ∧
      (r.tallyPool = none ↔ ∀ a ∈ l, a.id = r.id → a.tallyPool = none)) := by
  have herr : ∀ e, mergeCvrs l = .error e → e = .ValueError ∧ Conflict l := by
    intro e h
    unfold mergeCvrs at h
    cases hf : l.foldlM step [] with
    | error e' =>
      rw [hf, bind_err] at h; cases h
      simpa using (fold_step l [] [] inv_nil).2 e hf
    | ok od => rw [hf, bind_ok] at h; cases h
  have hok : ∀ rs, mergeCvrs l = .ok rs → ∀ r ∈ rs,
      (∀ a ∈ l, a.id = r.id → ∀ t, a.tallyPool = some t → r.tallyPool = some t) ∧
      (∀ t, r.tallyPool = some t → ∃ a ∈ l, a.id = r.id ∧ a.tallyPool = some t) := by
    intro rs h r hr
    obtain ⟨f, rest, hG, hfold⟩ := (merged_rec h).2 r hr
    obtain ⟨_, _, _, h1, h2, _, _⟩ := foldGroup_ok rest f r hfold
    refine ⟨?_, ?_⟩
    · intro a ha hid t ht; exact h1 a (hG ▸ mem_group.2 ⟨ha, hid⟩) t ht
    · intro t ht
      obtain ⟨a, ha, hat⟩ := h2 t ht
      have := mem_group.1 (hG ▸ ha)
      exact ⟨a, this.1, this.2, hat⟩
  refine ⟨fun e h => (herr e h).1, ⟨fun h => (herr _ h).2, ?_⟩, ?_⟩
  · rintro ⟨a, ha, b, hb, hid, s, t, hs, ht, hne⟩
    cases hm : mergeCvrs l with
    | error e => rw [(herr e hm).1]
    | ok rs =>
      exfalso
      have hi : a.id ∈ rs.map (·.id) := ((merge_ids hm).2.2 a.id).2 ⟨a, ha, rfl⟩
      obtain ⟨r, hr, hrid⟩ := List.mem_map.1 hi
      have h1 := (hok rs hm r hr).1
      have e1 := h1 a ha hrid.symm s hs
      have e2 := h1 b hb (hid ▸ hrid.symm) t ht
      rw [e1] at e2; exact hne (Option.some.inj e2)
  · intro rs h r hr
    obtain ⟨h1, h2⟩ := hok rs h r hr
    refine ⟨h1, h2, ?_⟩
    constructor
    · intro hn a ha hid
      cases hat : a.tallyPool with
      | none => rfl
      | some t => rw [h1 a ha hid t hat] at hn; cases hn
    · intro hh
      cases hrt : r.tallyPool with
      | none => rfl
      | some t =>
        obtain ⟨a, ha, hid, hat⟩ := h2 t hrt
        rw [hh a ha hid] at hat; cases hat


/-! ### RAIRE format -/

theorem dget_rankVotes_not_mem (cands : List String) : ∀ (d : List (String × Nat)) (k : Nat) (x : String),
    x ∉ cands → dget (rankVotes d k cands) x = dget d x := by
  induction cands with
  | nil => intro d k x _; rfl
  | cons c cs ih =>
    intro d k x hx
    simp only [List.mem_cons, not_or] at hx
    rw [rankVotes, ih _ _ _ hx.2, dget_dset]
    have : ¬ c = x := fun e => hx.1 e.symm
    simp [this]

/-- the candidate listed at position `pre.length + 1` (and not again later) gets `k + pre.length` -/
theorem dget_rankVotes (pre : List String) : ∀ (d : List (String × Nat)) (k : Nat) (x : String) (post : List String),
    x ∉ post → dget (rankVotes d k (pre ++ x :: post)) x = some (k + pre.length) := by
  induction pre with
  | nil =>
    intro d k x post hx
    simp only [List.nil_append, rankVotes]
    rw [dget_rankVotes_not_mem post _ _ _ hx, dget_dset]; simp
  | cons p pre ih =>
    intro d k x post hx
    simp only [List.cons_append, rankVotes]
    rw [ih _ _ _ _ hx]; simp only [List.length_cons]; congr 1; omega

/-- the record `from_vote` builds for a well-formed row (total version of `rowToRec`) -/
def rowRec (ph : Bool) : List String → Rec Nat
  | contest :: id :: cands =>
      { id := id, votes := [(contest, rankVotes [] 1 cands)], phantom := ph, pool := false, tallyPool := none }
  | _ => { id := "", votes := [], phantom := ph, pool := false, tallyPool := none }

theorem mapM_rowToRec (ph : Bool) (rows : List (List String)) : ∀ recs, rows.mapM (rowToRec ph) = .ok recs →
    (∀ row ∈ rows, ∃ contest id cands, row = contest :: id :: cands) ∧ recs = rows.map (rowRec ph) := by
  induction rows with
  | nil => intro recs h; simp [pure, Except.pure] at h; subst h; simp
  | cons row rows ih =>
    intro recs h
    rw [List.mapM_cons] at h
    match row, h with
    | [], h => simp [rowToRec, bind_err] at h
    | [_], h => simp [rowToRec, bind_err] at h
    | contest :: id :: cands, h =>
      simp only [rowToRec, bind_ok] at h
      cases hm : List.mapM (rowToRec ph) rows with
      | error e => rw [hm, bind_err] at h; cases h
      | ok recs' =>
        rw [hm, bind_ok] at h
        obtain ⟨h1, h2⟩ := ih recs' hm
        cases h
        refine ⟨?_, by simp [rowRec, h2]⟩
        intro r hr
        rcases List.mem_cons.1 hr with rfl | hr
        · exact ⟨contest, id, cands, rfl⟩
        · exact h1 r hr

/-- **C18 `from_raire_ranks`.** If `from_raire` returns `(rs, n)` then the first cell is a number `skip`,
the rows read are exactly those after the first `skip + 1` lines (the count line and the `skip` declared
contest lines), each of the form `contest, ballot id, ranking…`, and
* the cards are the distinct ballot ids of those rows in first-appearance order (one record per card: merged),
* a card lists a contest iff some row of that card is for that contest,
* under that contest it holds the ranking of the LAST such row, the candidate listed `m`-th
  (`cpre.length + 1 = m`, not listed again later in that row) having rank `m`, unlisted candidates absent,
* flags: `phantom` as passed, `pool = False`, `tally_pool = None`;
and `n = len(raire) - skip`. -/
theorem from_raire_ranks {raire : List (List String)} {ph : Bool} {rs : List (Rec Nat)} {n : Int}
    (h : fromRaire raire ph = .ok (rs, n)) :
    ∃ cell tl rest skip, raire = (cell :: tl) :: rest ∧ parseNat cell = some skip ∧
      n = (raire.length : Int) - (skip : Int) ∧
      (∀ row ∈ raire.drop (skip + 1), ∃ contest id cands, row = contest :: id :: cands) ∧
      rs.map (·.id) = firstAppear ((raire.drop (skip + 1)).map (fun row => (rowRec ph row).id)) ∧
      ∀ r ∈ rs, r.phantom = ph ∧ r.pool = false ∧ r.tallyPool = none ∧
        ∀ contest,
          (dget r.votes contest = none ↔ ∀ cands, (contest :: r.id :: cands) ∉ raire.drop (skip + 1)) ∧
          ∀ pre cands post, raire.drop (skip + 1) = pre ++ (contest :: r.id :: cands) :: post →
            (∀ cs, (contest :: r.id :: cs) ∉ post) →
            ∃ d, dget r.votes contest = some d ∧
              (∀ x, x ∉ cands → dget d x = none) ∧
              (∀ cpre x cpost, cands = cpre ++ x :: cpost → x ∉ cpost → dget d x = some (cpre.length + 1)) := by
  match raire, h with
  | [], h => simp [fromRaire] at h
  | [] :: _, h => simp [fromRaire] at h
  | (cell :: tl) :: rest, h =>
    simp only [fromRaire] at h
    cases hp : parseNat cell with
    | none => rw [hp] at h; simp at h
    | some skip =>
      rw [hp] at h; simp only at h
      generalize hrows : List.drop (skip + 1) ((cell :: tl) :: rest) = rows at h
      cases hm : rows.mapM (rowToRec ph) with
      | error e => rw [hm, bind_err] at h; cases h
      | ok recs =>
        rw [hm, bind_ok] at h
        cases hmg : mergeCvrs recs with
        | error e => rw [hmg, bind_err] at h; cases h
        | ok merged =>
          rw [hmg, bind_ok] at h
          cases h
          obtain ⟨hform, hrecs⟩ := mapM_rowToRec ph rows recs hm
          subst hrecs
          refine ⟨cell, tl, rest, skip, rfl, hp, rfl, ?_⟩
          rw [hrows]
          refine ⟨hform, ?_, ?_⟩
          · rw [(merge_ids hmg).1, List.map_map]; rfl
          · intro r hr
            have hwf : ∀ a ∈ rows.map (rowRec ph), (keys a.votes).Nodup := by
              intro a ha
              obtain ⟨row, hrow, rfl⟩ := List.mem_map.1 ha
              obtain ⟨c, i, cs, rfl⟩ := hform row hrow
              simp [rowRec, keys]
            obtain ⟨f, rest', hG, hfold⟩ := (merged_rec hmg).2 r hr
            obtain ⟨_, hph, hpl, _, htp, _, _⟩ := foldGroup_ok rest' f r hfold
            have hall : ∀ a ∈ f :: rest', a.phantom = ph ∧ a.pool = false ∧ a.tallyPool = none := by
              intro a ha
              obtain ⟨row, _, rfl⟩ := List.mem_map.1 (mem_group.1 (hG ▸ ha)).1
              unfold rowRec; split <;> simp
            refine ⟨?_, ?_, ?_, ?_⟩
            · rw [hph, List.all_cons, (hall f (by simp)).1]
              cases ph
              · simp
              · simp only [Bool.true_and, List.all_eq_true]
                intro a ha; exact (hall a (by simp [ha])).1
            · rw [hpl, Bool.eq_false_iff]
              intro hany
              obtain ⟨a, ha, hp'⟩ := List.any_eq_true.1 hany
              rw [(hall a ha).2.1] at hp'; cases hp'
            · cases hrt : r.tallyPool with
              | none => rfl
              | some t =>
                obtain ⟨a, ha, hat⟩ := htp t hrt
                rw [(hall a ha).2.2] at hat; cases hat
            · intro contest
              obtain ⟨_, hnone, hlast, _⟩ := merge_votes hwf hmg hr contest
              refine ⟨?_, ?_⟩
              · rw [hnone]
                constructor
                · intro hh cands hmem
                  have := hh (rowRec ph (contest :: r.id :: cands)) (List.mem_map.2 ⟨_, hmem, rfl⟩) rfl
                  simp [rowRec, dget] at this
                · intro hh a ha hid
                  obtain ⟨row, hrow, rfl⟩ := List.mem_map.1 ha
                  obtain ⟨c, i, cs, rfl⟩ := hform row hrow
                  simp only [rowRec] at hid ⊢
                  subst hid
                  by_cases hc : c = contest
                  · subst hc; exact absurd hrow (hh cs)
                  · simp [dget, hc]
              · intro pre cands post hsplit hpost
                refine ⟨rankVotes [] 1 cands, ?_, ?_, ?_⟩
                · rw [hlast (pre.map (rowRec ph)) (rowRec ph (contest :: r.id :: cands)) (post.map (rowRec ph))
                    (by rw [hsplit]; simp) rfl (by simp [rowRec, dget]) ?_]
                  · simp [rowRec, dget]
                  · intro b hb hid
                    obtain ⟨row, hrow, rfl⟩ := List.mem_map.1 hb
                    obtain ⟨c, i, cs, rfl⟩ := hform row (by rw [hsplit]; simp [hrow])
                    simp only [rowRec] at hid ⊢
                    subst hid
                    by_cases hc : c = contest
                    · subst hc; exact absurd hrow (hpost cs)
                    · simp [dget, hc]
                · intro x hx
                  rw [dget_rankVotes_not_mem cands [] 1 x hx]; rfl
                · intro cpre x cpost hc hx
                  rw [hc, dget_rankVotes cpre [] 1 x cpost hx, Nat.add_comm]


/-! ### Non-vacuity: concrete instances (tests of the statements, not of the theorems) -/

def rA : Rec Nat := { id := "b", votes := [("AvB", [("Alice", 1), ("Bob", 2)])], phantom := true, pool := false, tallyPool := none }
def rB : Rec Nat := { id := "a", votes := [("AvB", [("Bob", 1)])], phantom := true, pool := true, tallyPool := some "X" }
def rC : Rec Nat := { id := "b", votes := [("CvD", [("C", 1)]), ("AvB", [("Bob", 1)])], phantom := false, pool := true, tallyPool := some "Y" }

-- ids in first-appearance order (b before a), contest AvB replaced wholesale by the later record (Alice is gone),
-- phantom = all, pool = any, tally pool filled in from the later record
example : (mergeCvrs [rA, rB, rC]).toOption.map (fun rs => rs.map (fun r => (r.id, r.votes, r.phantom, r.pool, r.tallyPool)))
    = some [("b", [("AvB", [("Bob", 1)]), ("CvD", [("C", 1)])], false, true, some "Y"),
            ("a", [("AvB", [("Bob", 1)])], true, true, some "X")] := by rfl

def tp (i : String) (t : Option String) : Rec Nat := { id := i, votes := [], phantom := false, pool := false, tallyPool := t }

-- tally pools [A, None, B] of one card: error;  [None, A, None, A]: ok;  conflict on another card: error
example : (mergeCvrs [tp "1" (some "A"), tp "1" none, tp "1" (some "B")]).toOption.isNone = true := by decide
example : Conflict [tp "1" (some "A"), tp "1" none, tp "1" (some "B")] :=
  ⟨tp "1" (some "A"), by simp, tp "1" (some "B"), by simp, rfl, "A", "B", rfl, rfl, by decide⟩
example : ((mergeCvrs [tp "1" none, tp "1" (some "A"), tp "1" none, tp "1" (some "A")]).toOption.map
    (fun rs => rs.map (·.tallyPool))) = some [some "A"] := by decide
example : (mergeCvrs [tp "2" none, tp "1" (some "A"), tp "2" none, tp "1" (some "B")]).toOption.isNone = true := by decide

-- the input of tests/core/test_CVR.py::test_cvr_from_raire
example : (fromRaire [["1"], ["Contest", "339", "5", "15", "16", "17", "18", "45"], ["339", "99813_1_1", "17"],
      ["339", "99813_1_3", "16"], ["339", "99813_1_6", "18", "17", "15", "16"], ["3", "99813_1_6", "2"]] false).toOption.map
      (fun p => (p.1.map (fun r => (r.id, r.votes)), p.2))
    = some ([("99813_1_1", [("339", [("17", 1)])]), ("99813_1_3", [("339", [("16", 1)])]),
             ("99813_1_6", [("339", [("18", 1), ("17", 2), ("15", 3), ("16", 4)]), ("3", [("2", 1)])])], 5) := by rfl

example : firstAppear ["b", "a", "b", "c", "a"] = ["b", "a", "c"] := by decide


end Shangrla.C18
