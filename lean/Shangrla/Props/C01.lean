/-
  C01 — risk limit: the reported p-values are sequentially valid under every null population.

  Finite populations, sampling without replacement (this file): for every population of `n` values in
  `[0,u]` with mean at most `t`, every `alpha` in `(0,1)` and every predictable estimator / bet, the exact
  probability — over the uniformly random order in which the items are drawn — that the p-value
  reported by the literal model of `alpha_mart` / `betting_mart` after some number of draws is at most
  `alpha` does not exceed `alpha`.
-/
import Shangrla.Lemmas.NMVille
import Shangrla.Props.C11Mart

namespace Shangrla.C01
open Shangrla Shangrla.NM XR Shangrla.C12 Shangrla.Ville Shangrla.C11

/-! ### the factors are affine with non-negative slope: one-step supermartingale -/

/-- the bet implied by the (truncated) ALPHA estimate -/
def lamOf (u m q : ℚ) : ℚ := (min u (max q m) / m - 1) / (u - m)

theorem lamOf_nonneg (u m q : ℚ) (hm0 : 0 < m) (hmu : m < u) : 0 ≤ lamOf u m q := by
  unfold lamOf
  obtain ⟨h1, _⟩ := clip_range u m q hmu
  apply div_nonneg _ (by linarith)
  rw [sub_nonneg, le_div_iff₀ hm0]; linarith

theorem alphaQ_affine (u m a q : ℚ) (hm0 : 0 < m) (hmu : m < u) :
    alphaQ u m a q = 1 + lamOf u m q * (a - m) := by
  have hm : m ≠ 0 := ne_of_gt hm0
  have hum : u - m ≠ 0 := by linarith
  have hu : u ≠ 0 := by linarith
  have := factor_alpha_eq_betting u m a (lamOf u m q) hm hum hu
  rw [← this]
  unfold alphaQ
  congr 1
  unfold lamOf
  field_simp
  ring

theorem alphaQ_nonneg (u : ℚ) : ∀ m a q, 0 < m → m < u → 0 ≤ a → a ≤ u → 0 ≤ alphaQ u m a q := by
  intro m a q hm0 hmu ha0 hau
  obtain ⟨h1, h2⟩ := clip_range u m q hmu
  exact alphaFactorQ_nonneg u m a _ hm0 hmu ha0 hau (by linarith) h2

theorem alphaQ_super (u : ℚ) : ∀ m q (R : List ℚ), 0 < m → m < u → R ≠ [] →
    (∀ a ∈ R, 0 ≤ a ∧ a ≤ u) → R.sum ≤ m * R.length →
    avgIdx R.length (fun i => alphaQ u m (R.getD i 0) q) ≤ 1 := by
  intro m q R hm0 hmu hR _ hnull
  have : (fun i => alphaQ u m (R.getD i 0) q) = (fun i => 1 + lamOf u m q * (R.getD i 0 - m)) := by
    funext i; exact alphaQ_affine u m _ q hm0 hmu
  rw [this]
  exact superstep R hR (lamOf u m q) m (lamOf_nonneg u m q hm0 hmu) hnull

/-! ### the event "the p-value reported after these draws is at most alpha" -/

/-- last entry of the reported history of `alpha_mart` on the sample `h` is `≤ alpha`
(`false` when the test raises, e.g. on the empty sample) -/
def reportedLast (cfg : Cfg) (estim : List ℚ → Except Err (List XR)) (alpha : ℚ) (h : List ℚ) : Bool :=
  match alphaMart cfg estim h with
  | .ok r => (match r.2.getLast? with
      | some p => XR.le p (.fin alpha)
      | none => false)
  | .error _ => false

theorem xsumFrom_eq (x : List ℚ) : ∀ S : ℚ, xsumFrom S x = S + x.sum := by
  induction x with
  | nil => intro S; simp [xsumFrom]
  | cons a x ih => intro S; simp [xsumFrom, ih]; ring

theorem xsum_eq (x : List ℚ) : xsum x = x.sum := by
  unfold xsum; rw [xsumFrom_eq]; ring

theorem forall₂_getLast {α β : Type} (R : α → β → Prop) :
    ∀ (l1 : List α) (l2 : List β), List.Forall₂ R l1 l2 → ∀ b, l2.getLast? = some b →
      ∃ a, l1.getLast? = some a ∧ R a b := by
  intro l1 l2 h
  induction h with
  | nil => intro b hb; simp at hb
  | cons hab htl ih =>
    rename_i a b l1' l2'
    intro b' hb'
    cases htl with
    | nil =>
      simp only [List.getLast?_singleton, Option.some.injEq] at hb'
      subst hb'
      exact ⟨a, by simp, hab⟩
    | cons hab' htl' =>
      rename_i a2 b2 l1'' l2''
      rw [List.getLast?_cons_cons] at hb'
      obtain ⟨a', ha', hR⟩ := ih b' hb'
      exact ⟨a', by rw [List.getLast?_cons_cons]; exact ha', hR⟩

/-- if the reported p-value at a term is at most `alpha < 1`, the null mean is strictly inside `(0,u)`
and the running product is at least `1/alpha` -/
theorem mask_le_alpha (u atol rtol m q alpha : ℚ) (T : XR) (hm : 0 ≤ m) (hu : 0 ≤ u)
    (hat : 0 ≤ atol) (hat2 : atol < 1 / 2) (hrt : 0 ≤ rtol) (ha0 : 0 < alpha) (ha1 : alpha < 1)
    (hT : 0 < m → m < u → T = .fin q) (hq : 0 < m → m < u → 0 ≤ q)
    (hle : XR.le (pOf (maskTerm u atol rtol m T)) (.fin alpha) = true) :
    0 < m ∧ m < u ∧ 1 / alpha ≤ q := by
  have hp1 : pOf (.fin 1) = .fin 1 := by
    have : pOf (.fin 1) = .fin (min 1 (1 / 1)) := pOf_pos (by norm_num)
    rw [this]; norm_num
  have hnot1 : ¬ XR.le (.fin 1) (.fin alpha) = true := by
    simp only [XR.le_fin, decide_eq_true_eq, not_le]; exact ha1
  have hone : ¬ XR.isclose (.fin 0) (.fin 1) (1 / 100000) atol = true := by
    simp only [XR.isclose, zero_sub, decide_eq_true_eq, not_le]
    norm_num
    linarith
  -- first: the null mean is strictly inside
  have hin : 0 < m ∧ m < u := by
    by_contra hcon
    have hcases : m = 0 ∨ m = u ∨ u < m := by
      by_cases h0 : m = 0
      · exact Or.inl h0
      · have hm0 : 0 < m := lt_of_le_of_ne hm (Ne.symm h0)
        by_cases h1 : m < u
        · exact absurd ⟨hm0, h1⟩ hcon
        · rcases (not_lt.mp h1).lt_or_eq with h2 | h2
          · exact Or.inr (Or.inr h2)
          · exact Or.inr (Or.inl h2.symm)
    rcases hcases with h0 | h0 | h0
    · subst h0
      have : pOf (maskTerm u atol rtol 0 T) = .fin 1 := by
        unfold maskTerm maskTermX
        simp only [XR.lt_fin, XR.zero_def, XR.one_def, decide_eq_true_eq, lt_self_iff_false, ↓reduceIte]
        have hz0 : XR.isclose (.fin 0) (.fin 0) (1 / 100000) atol = true := isclose_self_zero _ _ hat
        rw [hz0]
        simp only [↓reduceIte]
        by_cases h1 : XR.isclose (.fin u) (.fin 0) rtol atol = true
        · rw [if_pos h1, if_neg hone]; exact hp1
        · rw [if_neg h1, if_neg hone]; exact hp1
      rw [this] at hle; exact hnot1 hle
    · subst h0
      have : pOf (maskTerm m atol rtol m T) = .fin 1 := by
        unfold maskTerm maskTermX
        simp only [XR.lt_fin, XR.zero_def, XR.one_def, decide_eq_true_eq, lt_self_iff_false, ↓reduceIte]
        rw [if_neg (by linarith : ¬ m < 0), isclose_self _ _ _ hat hrt]
        simp only [↓reduceIte]
        rw [if_neg hone]; exact hp1
      rw [this] at hle; exact hnot1 hle
    · rw [hist_above_u u atol rtol m T h0 hu hat hat2] at hle
      exact hnot1 hle
  obtain ⟨hm0, hmu⟩ := hin
  refine ⟨hm0, hmu, ?_⟩
  have hTq := hT hm0 hmu
  have hq0 := hq hm0 hmu
  subst hTq
  -- the masked term is 1 or the product itself
  have hval : maskTerm u atol rtol m (.fin q) = .fin 1 ∨ maskTerm u atol rtol m (.fin q) = .fin q := by
    unfold maskTerm maskTermX
    simp only [XR.lt_fin, XR.zero_def, XR.one_def, decide_eq_true_eq]
    rw [if_neg (by linarith : ¬ m < 0), if_neg (by linarith : ¬ u < m)]
    by_cases h0 : XR.isclose (.fin 0) (.fin m) (1 / 100000) atol = true
    · rw [if_pos h0]
      by_cases h1 : XR.isclose (.fin u) (.fin m) rtol atol = true
      · rw [if_pos h1, if_neg hone]; exact Or.inl rfl
      · rw [if_neg h1, if_neg hone]; exact Or.inl rfl
    · rw [if_neg h0]
      by_cases h1 : XR.isclose (.fin u) (.fin m) rtol atol = true
      · rw [if_pos h1, if_neg hone]; exact Or.inl rfl
      · rw [if_neg h1]
        by_cases h2 : XR.isclose (.fin 0) (.fin q) (1 / 100000) atol = true
        · rw [if_pos h2]; exact Or.inl rfl
        · rw [if_neg h2]; exact Or.inr rfl
  rcases hval with hv | hv
  · rw [hv, hp1] at hle; exact absurd hle hnot1
  · rw [hv] at hle
    by_cases hq00 : q = 0
    · subst hq00
      rw [pOf_zero] at hle; exact absurd hle hnot1
    · have hqpos : 0 < q := lt_of_le_of_ne hq0 (Ne.symm hq00)
      rw [pOf_pos hqpos] at hle
      simp only [XR.le_fin, decide_eq_true_eq] at hle
      have h1 : 1 / q ≤ alpha := by
        rcases min_le_iff.1 hle with h | h
        · linarith
        · exact h
      rw [div_le_iff₀ ha0]
      rw [div_le_iff₀ hqpos] at h1
      linarith

/-- under the null invariant the null conditional mean before the last draw is non-negative -/
theorem muAfter_nonneg (u : ℚ) (n : Nat) (t : ℚ) (R l : List ℚ) (a : ℚ)
    (hI : Inv u n t R (l ++ [a])) : 0 ≤ muAfter (some n) t l := by
  obtain ⟨h1, h2, h3, h4⟩ := hI
  unfold muAfter mu
  simp only [List.length_append, List.length_cons, List.length_nil, Nat.zero_add] at h1
  simp only [List.sum_append, List.sum_cons, List.sum_nil, add_zero] at h4
  have hR : 0 ≤ R.sum := List.sum_nonneg (fun x hx => (h2 x hx).1)
  have ha : 0 ≤ a := (h3 a (by simp)).1
  apply div_nonneg
  · linarith
  · have : (l.length : ℚ) + 1 ≤ (n : ℚ) := by exact_mod_cast (by omega : l.length + 1 ≤ n)
    push_cast; linarith

/-- **link between the literal model and the value process**: if the p-value `alpha_mart` reports after
the draws `h` is at most `alpha`, the defining product (the value process) is at least `1/alpha` -/
theorem reported_implies_value (cfg : Cfg) (n : Nat) (hN : cfg.N = some n) (g : List ℚ → ℚ)
    (estim : List ℚ → Except Err (List XR))
    (hest : ∀ h : List ℚ, h ≠ [] → h.length ≤ n → estim h = .ok ((params g h).map XR.fin))
    (hu : 0 ≤ cfg.u) (hat : 0 ≤ cfg.atol) (hat2 : cfg.atol < 1 / 2) (hrt : 0 ≤ cfg.rtol)
    (alpha : ℚ) (ha0 : 0 < alpha) (ha1 : alpha < 1) :
    ∀ R h, Inv cfg.u n cfg.t R h → reportedLast cfg estim alpha h = true →
      1 / alpha ≤ valI (alphaQ cfg.u) cfg.u n cfg.t g h := by
  intro R h hI hev
  -- the sample is non-empty
  cases h using List.reverseRecOn with
  | nil =>
    exfalso
    unfold reportedLast alphaMart alphaTerms sjm at hev
    simp [bind, Except.bind] at hev
  | append_singleton l a _ =>
    obtain ⟨h1, h2, h3, h4⟩ := hI
    have hne : l ++ [a] ≠ [] := by simp
    have hlen : (l ++ [a]).length ≤ n := by omega
    have hNle : ∀ k, cfg.N = some k → (l ++ [a]).length ≤ k := by
      intro k hk; rw [hN] at hk; cases hk; exact hlen
    have hplen : ((params g (l ++ [a])).map XR.fin).length = (l ++ [a]).length := by
      rw [List.length_map, params_length]
    obtain ⟨terms, ht, hw⟩ := alphaTerms_eq cfg estim (l ++ [a]) _ hne hNle (hest _ hne hlen) hplen
    -- the walk of the code agrees with the defining products
    have hag := alpha_terms_def cfg (l ++ [a]) (params g (l ++ [a])) (params_length g _) hNle h3
    rw [hN] at hag hw
    obtain ⟨hTq, hlast⟩ := Tq_snoc (alphaQ cfg.u) (some n) cfg.t g l a
    obtain ⟨pl, hpl, hagree⟩ := forall₂_getLast _ _ _ hag _ hlast
    -- evaluate the reported value
    unfold reportedLast alphaMart at hev
    rw [ht] at hev
    simp only [bind, Except.bind, pure, Except.pure, finishMart] at hev
    -- no final-sample clamp under the null
    have hsum : ¬ ((n : ℚ) * cfg.t < xsum (l ++ [a])) := by
      rw [xsum_eq]
      have hR : 0 ≤ R.sum := List.sum_nonneg (fun x hx => (h2 x hx).1)
      linarith
    have hclamp : ∀ L : List XR, clampLast cfg.N cfg.t (xsum (l ++ [a])) L = L := by
      intro L; unfold clampLast; rw [hN]; simp only [hsum, ↓reduceIte]
    rw [hclamp] at hev
    simp only [pAndHist, List.getLast?_map] at hev
    rw [hN, hw, hpl] at hev
    simp only [Option.map_some] at hev
    obtain ⟨hm_eq, hT_eq⟩ := hagree
    simp only at hm_eq hT_eq
    have hmn : 0 ≤ pl.1 := by
      rw [hm_eq]
      exact muAfter_nonneg cfg.u n cfg.t R l a ⟨h1, h2, h3, h4⟩
    have hlen1 : l.length + 1 ≤ n := by
      simp only [List.length_append, List.length_cons, List.length_nil, Nat.zero_add] at hlen; exact hlen
    have hres := mask_le_alpha cfg.u cfg.atol cfg.rtol pl.1 (Tq (alphaQ cfg.u) (some n) cfg.t g l *
        alphaQ cfg.u (muAfter (some n) cfg.t l) a (g l)) alpha pl.2 hmn hu hat hat2 hrt ha0 ha1 hT_eq
      (by
        intro hm0 hmu
        rw [hm_eq] at hm0 hmu
        have hz : StateZ cfg.u n cfg.t l := (stateZ_iff cfg.u n cfg.t l hlen1).2 ⟨hm0, hmu⟩
        rw [← hTq]
        exact Tq_nonneg (alphaQ cfg.u) cfg.u n cfg.t g
          (fun h' a' _ _ hm0' hmu' ha0' hau' => alphaQ_nonneg cfg.u _ _ _ hm0' hmu' ha0' hau') _ h3 hlen
          (Or.inr (by rw [List.dropLast_concat]; exact hz)))
      hev
    obtain ⟨hm0, hmu, hge⟩ := hres
    rw [hm_eq] at hm0 hmu
    have hz : StateZ cfg.u n cfg.t l := (stateZ_iff cfg.u n cfg.t l hlen1).2 ⟨hm0, hmu⟩
    rw [valI_snoc, if_pos hz]
    exact hge

/-- **C01, ALPHA, sampling without replacement.**  For every population `pop` of `n` values in
`[0,u]` with total at most `n t` (mean at most `t`), every `alpha` in `(0,1)` and every estimator that
is *predictable* (the alternative applied to observation `j` is a function `g` of observations
`1..j-1`) and returns finite values, the exact probability — over the `n!` equally likely orders in
which the items are drawn without replacement — that the p-value reported by `alpha_mart` after some
number of draws is at most `alpha` is at most `alpha`. -/
theorem C01_finite_alpha (cfg : Cfg) (n : Nat) (hN : cfg.N = some n) (g : List ℚ → ℚ)
    (estim : List ℚ → Except Err (List XR))
    (hest : ∀ h : List ℚ, h ≠ [] → h.length ≤ n → estim h = .ok ((params g h).map XR.fin))
    (hu : 0 ≤ cfg.u) (hat : 0 ≤ cfg.atol) (hat2 : cfg.atol < 1 / 2) (hrt : 0 ≤ cfg.rtol)
    (alpha : ℚ) (ha0 : 0 < alpha) (ha1 : alpha < 1)
    (pop : List ℚ) (hlen : pop.length = n) (hrange : ∀ a ∈ pop, 0 ≤ a ∧ a ≤ cfg.u)
    (hnull : pop.sum ≤ (n : ℚ) * cfg.t) :
    hitEv (reportedLast cfg estim alpha) pop.length pop [] ≤ alpha := by
  have h := process_ville (alphaQ cfg.u) cfg.u n cfg.t g
    (fun h' a' _ _ hm0' hmu' ha0' hau' => alphaQ_nonneg cfg.u _ _ _ hm0' hmu' ha0' hau')
    (fun h' R' _ _ hm0' hmu' hR' hr' hs' => alphaQ_super cfg.u _ _ R' hm0' hmu' hR' hr' hs')
    (reportedLast cfg estim alpha) (1 / alpha) (by positivity)
    (reported_implies_value cfg n hN g estim hest hu hat hat2 hrt alpha ha0 ha1)
    pop ⟨by simp [hlen], hrange, by simp, by simpa using hnull⟩
  simpa using h

/-! ### the betting martingale -/

/-- last entry of the reported history of `betting_mart` on the sample `h` is `≤ alpha` -/
def reportedLastB (cfg : Cfg) (bet : List ℚ → Except Err (List XR)) (alpha : ℚ) (h : List ℚ) : Bool :=
  match bettingMart cfg bet h with
  | .ok r => (match r.2.getLast? with
      | some p => XR.le p (.fin alpha)
      | none => false)
  | .error _ => false

theorem betQ_nonneg (m a l : ℚ) (hm0 : 0 < m) (ha0 : 0 ≤ a) (hl0 : 0 ≤ l) (hl1 : l * m ≤ 1) :
    0 ≤ betQ m a l := by
  unfold betQ
  nlinarith [mul_nonneg hl0 ha0]

/-- **link between the literal model and the value process**: if the p-value `betting_mart` reports after
the draws `h` is at most `alpha`, the defining product (the value process) is at least `1/alpha` -/
theorem reported_implies_value_betting (cfg : Cfg) (n : Nat) (hN : cfg.N = some n) (g : List ℚ → ℚ)
    (bet : List ℚ → Except Err (List XR))
    (hest : ∀ h : List ℚ, h ≠ [] → h.length ≤ n → bet h = .ok ((params g h).map XR.fin))
    (hg0 : ∀ h : List ℚ, 0 ≤ g h)
    (hg1 : ∀ h : List ℚ, 0 < muAfter (some n) cfg.t h → muAfter (some n) cfg.t h < cfg.u →
      g h * muAfter (some n) cfg.t h ≤ 1)
    (hu : 0 ≤ cfg.u) (hat : 0 ≤ cfg.atol) (hat2 : cfg.atol < 1 / 2) (hrt : 0 ≤ cfg.rtol)
    (alpha : ℚ) (ha0 : 0 < alpha) (ha1 : alpha < 1) :
    ∀ R h, Inv cfg.u n cfg.t R h → reportedLastB cfg bet alpha h = true →
      1 / alpha ≤ valI betQ cfg.u n cfg.t g h := by
  intro R h hI hev
  -- the sample is non-empty
  cases h using List.reverseRecOn with
  | nil =>
    exfalso
    unfold reportedLastB bettingMart bettingTerms sjm at hev
    simp [bind, Except.bind] at hev
  | append_singleton l a _ =>
    obtain ⟨h1, h2, h3, h4⟩ := hI
    have hne : l ++ [a] ≠ [] := by simp
    have hlen : (l ++ [a]).length ≤ n := by omega
    have hNle : ∀ k, cfg.N = some k → (l ++ [a]).length ≤ k := by
      intro k hk; rw [hN] at hk; cases hk; exact hlen
    have hplen : ((params g (l ++ [a])).map XR.fin).length = (l ++ [a]).length := by
      rw [List.length_map, params_length]
    obtain ⟨terms, ht, hw⟩ := bettingTerms_eq cfg bet (l ++ [a]) _ hne hNle (hest _ hne hlen) hplen
    -- the walk of the code agrees with the defining products
    have hag := betting_terms_def cfg (l ++ [a]) (params g (l ++ [a])) (params_length g _) hNle h3
    rw [hN] at hag hw
    obtain ⟨hTq, hlast⟩ := Tq_snoc betQ (some n) cfg.t g l a
    obtain ⟨pl, hpl, hagree⟩ := forall₂_getLast _ _ _ hag _ hlast
    -- evaluate the reported value
    unfold reportedLastB bettingMart at hev
    rw [ht] at hev
    simp only [bind, Except.bind, pure, Except.pure, finishMart] at hev
    -- no final-sample clamp under the null
    have hsum : ¬ ((n : ℚ) * cfg.t < xsum (l ++ [a])) := by
      rw [xsum_eq]
      have hR : 0 ≤ R.sum := List.sum_nonneg (fun x hx => (h2 x hx).1)
      linarith
    have hclamp : ∀ L : List XR, clampLast cfg.N cfg.t (xsum (l ++ [a])) L = L := by
      intro L; unfold clampLast; rw [hN]; simp only [hsum, ↓reduceIte]
    rw [hclamp] at hev
    simp only [pAndHist, List.getLast?_map] at hev
    rw [hN, hw, hpl] at hev
    simp only [Option.map_some] at hev
    obtain ⟨hm_eq, hT_eq⟩ := hagree
    simp only at hm_eq hT_eq
    have hmn : 0 ≤ pl.1 := by
      rw [hm_eq]
      exact muAfter_nonneg cfg.u n cfg.t R l a ⟨h1, h2, h3, h4⟩
    have hlen1 : l.length + 1 ≤ n := by
      simp only [List.length_append, List.length_cons, List.length_nil, Nat.zero_add] at hlen; exact hlen
    have hres := mask_le_alpha cfg.u cfg.atol cfg.rtol pl.1 (Tq betQ (some n) cfg.t g l *
        betQ (muAfter (some n) cfg.t l) a (g l)) alpha pl.2 hmn hu hat hat2 hrt ha0 ha1 hT_eq
      (by
        intro hm0 hmu
        rw [hm_eq] at hm0 hmu
        have hz : StateZ cfg.u n cfg.t l := (stateZ_iff cfg.u n cfg.t l hlen1).2 ⟨hm0, hmu⟩
        rw [← hTq]
        exact Tq_nonneg betQ cfg.u n cfg.t g
          (fun h' a' _ _ hm0' hmu' ha0' hau' => betQ_nonneg _ _ _ hm0' ha0' (hg0 h') (hg1 h' hm0' hmu')) _ h3 hlen
          (Or.inr (by rw [List.dropLast_concat]; exact hz)))
      hev
    obtain ⟨hm0, hmu, hge⟩ := hres
    rw [hm_eq] at hm0 hmu
    have hz : StateZ cfg.u n cfg.t l := (stateZ_iff cfg.u n cfg.t l hlen1).2 ⟨hm0, hmu⟩
    rw [valI_snoc, if_pos hz]
    exact hge

/-- **C01, betting martingale, sampling without replacement.**  For every population `pop` of `n` values in
`[0,u]` with total at most `n t` (mean at most `t`), every `alpha` in `(0,1)` and every bet that
is *predictable* (the bet on observation `j` is a function `g` of observations `1..j-1`) with
`0 <= g <= 1/mu_j` wherever the null conditional mean `mu_j` is positive, the exact probability — over the `n!` equally likely orders in
which the items are drawn without replacement — that the p-value reported by `betting_mart` after some
number of draws is at most `alpha` is at most `alpha`. -/
theorem C01_finite_betting (cfg : Cfg) (n : Nat) (hN : cfg.N = some n) (g : List ℚ → ℚ)
    (bet : List ℚ → Except Err (List XR))
    (hest : ∀ h : List ℚ, h ≠ [] → h.length ≤ n → bet h = .ok ((params g h).map XR.fin))
    (hg0 : ∀ h : List ℚ, 0 ≤ g h)
    (hg1 : ∀ h : List ℚ, 0 < muAfter (some n) cfg.t h → muAfter (some n) cfg.t h < cfg.u →
      g h * muAfter (some n) cfg.t h ≤ 1)
    (hu : 0 ≤ cfg.u) (hat : 0 ≤ cfg.atol) (hat2 : cfg.atol < 1 / 2) (hrt : 0 ≤ cfg.rtol)
    (alpha : ℚ) (ha0 : 0 < alpha) (ha1 : alpha < 1)
    (pop : List ℚ) (hlen : pop.length = n) (hrange : ∀ a ∈ pop, 0 ≤ a ∧ a ≤ cfg.u)
    (hnull : pop.sum ≤ (n : ℚ) * cfg.t) :
    hitEv (reportedLastB cfg bet alpha) pop.length pop [] ≤ alpha := by
  have h := process_ville betQ cfg.u n cfg.t g
    (fun h' a' _ _ hm0' hmu' ha0' hau' => betQ_nonneg _ _ _ hm0' ha0' (hg0 h') (hg1 h' hm0' hmu'))
    (fun h' R' _ _ hm0' hmu' hR' hr' hs' => superstep R' hR' (g h') _ (hg0 h') hs')
    (reportedLastB cfg bet alpha) (1 / alpha) (by positivity)
    (reported_implies_value_betting cfg n hN g bet hest hg0 hg1 hu hat hat2 hrt alpha ha0 ha1)
    pop ⟨by simp [hlen], hrange, by simp, by simpa using hnull⟩
  simpa using h

/-! ### the shipped estimators and bets in predictable form -/

theorem range_succ_map {β : Type} (f : Nat → β) (k : Nat) :
    (List.range (k + 1)).map f = f 0 :: (List.range k).map (fun i => f (i + 1)) := by
  rw [List.range_succ_eq_map, List.map_cons, List.map_map]
  rfl

/-- entry `i` of the vector `m` of `sjm` depends on the first `i` observations only -/
theorem nullMeansFrom_eq (N : Option Nat) (t : ℚ) :
    ∀ (x : List ℚ) (S : ℚ) (j : Nat),
      nullMeansFrom N t S j x = (List.range x.length).map (fun i => mu N t (S + (x.take i).sum) (j + i)) := by
  intro x
  induction x with
  | nil => intro S j; simp [nullMeansFrom]
  | cons a x ih =>
    intro S j
    simp only [nullMeansFrom, List.length_cons]
    rw [range_succ_map, ih]
    simp only [List.take_zero, List.sum_nil, add_zero, Nat.add_zero, List.take_succ_cons, List.sum_cons]
    congr 1
    apply List.map_congr_left
    intro i _
    congr 1
    · ring
    · omega

theorem nullMeans_params (N : Option Nat) (t : ℚ) (x : List ℚ) :
    nullMeansFrom N t 0 1 x = params (muAfter N t) x := by
  rw [nullMeansFrom_eq]
  unfold params muAfter
  apply List.map_congr_left
  intro i hi
  rw [List.mem_range] at hi
  rw [zero_add, List.length_take, min_eq_left (by omega), Nat.add_comm]

/-- the fixed alternative as a function of the earlier draws -/
def gFixedAlt (cfg : Cfg) (h : List ℚ) : ℚ :=
  let e := muAfter cfg.N (cfg.kw.eta.getD (cfg.u * (1 - eps))) h
  if cfg.u < e then cfg.u else e

theorem fixedAlt_predictable (cfg : Cfg) (n : Nat) (hN : cfg.N = some n) (h : List ℚ)
    (hne : h ≠ []) (hlen : h.length ≤ n) :
    fixedAlternativeMean cfg h = .ok ((params (gFixedAlt cfg) h).map XR.fin) := by
  unfold fixedAlternativeMean
  have hs := sjm_ok cfg.N (cfg.kw.eta.getD (cfg.u * (1 - eps))) h hne
    (by intro k hk; rw [hN] at hk; cases hk; exact hlen)
  simp only [hs, bind, Except.bind, pure, Except.pure]
  rw [nullMeans_params]
  unfold params gFixedAlt
  simp only [List.map_map]
  rfl

/-- **C01 for ALPHA with the default (fixed-alternative) estimator**, without replacement -/
theorem C01_finite_alpha_fixed (cfg : Cfg) (n : Nat) (hN : cfg.N = some n)
    (hu : 0 ≤ cfg.u) (hat : 0 ≤ cfg.atol) (hat2 : cfg.atol < 1 / 2) (hrt : 0 ≤ cfg.rtol)
    (alpha : ℚ) (ha0 : 0 < alpha) (ha1 : alpha < 1)
    (pop : List ℚ) (hlen : pop.length = n) (hrange : ∀ a ∈ pop, 0 ≤ a ∧ a ≤ cfg.u)
    (hnull : pop.sum ≤ (n : ℚ) * cfg.t) :
    hitEv (reportedLast cfg (fixedAlternativeMean cfg) alpha) pop.length pop [] ≤ alpha :=
  C01_finite_alpha cfg n hN (gFixedAlt cfg) (fixedAlternativeMean cfg)
    (fun h hne hl => fixedAlt_predictable cfg n hN h hne hl) hu hat hat2 hrt alpha ha0 ha1 pop hlen hrange hnull

theorem map_const_params {β : Type} (c : ℚ) (x : List β) (y : List ℚ) (hl : x.length = y.length) :
    x.map (fun _ => XR.fin c) = (params (fun _ => c) y).map XR.fin := by
  unfold params
  simp only [List.map_map]
  rw [← hl]
  apply List.ext_getElem
  · simp
  · intro i h1 h2; simp

/-- **C01 for ALPHA with the optimal-comparison estimator**, without replacement (`u ≠ 1`) -/
theorem C01_finite_alpha_optimal (cfg : Cfg) (n : Nat) (hN : cfg.N = some n) (hu1 : 2 - 2 * cfg.u ≠ 0)
    (hu : 0 ≤ cfg.u) (hat : 0 ≤ cfg.atol) (hat2 : cfg.atol < 1 / 2) (hrt : 0 ≤ cfg.rtol)
    (alpha : ℚ) (ha0 : 0 < alpha) (ha1 : alpha < 1)
    (pop : List ℚ) (hlen : pop.length = n) (hrange : ∀ a ∈ pop, 0 ≤ a ∧ a ≤ cfg.u)
    (hnull : pop.sum ≤ (n : ℚ) * cfg.t) :
    hitEv (reportedLast cfg (optimalComparison cfg) alpha) pop.length pop [] ≤ alpha := by
  let p2 := cfg.kw.rateError2.getD (1 / 10000)
  let eta := (1 - cfg.u * (1 - p2)) / (2 - 2 * cfg.u) + cfg.u * (1 - p2) - 1 / 2
  let e1 := if 0 < eta then eta else 0
  let e2 := if e1 < cfg.u then e1 else cfg.u
  refine C01_finite_alpha cfg n hN (fun _ => e2) (optimalComparison cfg) ?_ hu hat hat2 hrt alpha ha0 ha1
    pop hlen hrange hnull
  intro h _ _
  unfold optimalComparison
  simp only [hu1, ↓reduceIte]
  congr 1
  exact map_const_params e2 h h rfl

/-- **C01 for the betting martingale with a fixed bet** `0 ≤ lam ≤ 1/u`, without replacement -/
theorem C01_finite_betting_fixed (cfg : Cfg) (n : Nat) (hN : cfg.N = some n) (lam : ℚ)
    (hlam : cfg.kw.lam = some lam) (hl0 : 0 ≤ lam) (hl1 : lam * cfg.u ≤ 1)
    (hu : 0 ≤ cfg.u) (hat : 0 ≤ cfg.atol) (hat2 : cfg.atol < 1 / 2) (hrt : 0 ≤ cfg.rtol)
    (alpha : ℚ) (ha0 : 0 < alpha) (ha1 : alpha < 1)
    (pop : List ℚ) (hlen : pop.length = n) (hrange : ∀ a ∈ pop, 0 ≤ a ∧ a ≤ cfg.u)
    (hnull : pop.sum ≤ (n : ℚ) * cfg.t) :
    hitEv (reportedLastB cfg (fixedBet cfg) alpha) pop.length pop [] ≤ alpha := by
  refine C01_finite_betting cfg n hN (fun _ => lam) (fixedBet cfg) ?_ (fun _ => hl0) ?_ hu hat hat2 hrt
    alpha ha0 ha1 pop hlen hrange hnull
  · intro h _ _
    unfold fixedBet
    rw [hlam]
    simp only
    congr 1
    exact map_const_params lam h h rfl
  · intro h hm0 hmu
    nlinarith

end Shangrla.C01
