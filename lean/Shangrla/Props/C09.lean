/-
  C09 — the audit completes only when every assertion of every contest meets its risk limit.

  Theorems are about the literal models of `Shangrla/Model/Status.lean` that the driver executes:
  `setPValues` (Assertion.set_p_values), `resetPValues` (Assertion.reset_p_values),
  `summarizeStatus` (Audit.summarize_status), `checkAuditParameters` (Audit.check_audit_parameters).

  The statistical test and the extraction of an assertion's data are a PARAMETER
  `test : contest id → assertion name → XR × List XR` ("what `asn.test.test(asn.mvrs_to_data(...))`
  returns"); every theorem is for every `test`, every number of contests and assertions, every initial
  mix of confirmed / unconfirmed assertions.  p-values live in `XR`, so NaN is inside the quantifier.
-/
import Shangrla.Model.Status
import Shangrla.Lemmas.Status

namespace Shangrla.C09
open Shangrla Shangrla.Status Shangrla.StatusL

/-- nan-propagating maximum of `0` and the entries of `l`, accumulated left to right
    (`m = 0; for p in l: m = np.max([m, p])`) -/
def maxFrom0 (l : List XR) : XR := foldMax 0 l

/-- the p-values of the assertions of a contest, in order -/
def pvals (c : Contest) : List XR := c.assertions.map (·.pValue)

theorem exists_pvals_iff (c : Contest) (P : XR → Prop) :
    (∃ p ∈ pvals c, P p) ↔ ∃ a ∈ c.assertions, P a.pValue := by
  constructor
  · rintro ⟨p, hp, h⟩
    obtain ⟨a, ha, rfl⟩ := List.mem_map.1 hp
    exact ⟨a, ha, h⟩
  · rintro ⟨a, ha, h⟩
    exact ⟨a.pValue, List.mem_map.2 ⟨a, ha, rfl⟩, h⟩

/-! ### the state after `setPValues`, in closed form -/

/-- the whole effect of `set_p_values` on the assertions: same contests and assertions in the same order,
    each assertion rewritten by `updAssertion` (p-value and history from the test, `proved` or-ed). -/
theorem set_assertions (test : Test) (s : State) :
    (setPValues test s).2.map (fun c => (c.id, c.riskLimit, c.assertions))
      = s.map (fun c => (c.id, c.riskLimit, c.assertions.map (updAssertion test c))) := by
  rw [setPValues_eq]
  simp [List.map_map, setContest_eq, Function.comp_def]

/-- membership form: every contest of the new state comes from a contest of the old state -/
theorem mem_set {test : Test} {s : State} {c' : Contest} (h : c' ∈ (setPValues test s).2) :
    ∃ c ∈ s, c' = (setContest test c).2 := by
  rw [setPValues_eq] at h
  obtain ⟨c, hc, rfl⟩ := List.mem_map.1 h
  exact ⟨c, hc, rfl⟩

/-! ### pvalues_are_tests -/

/-- **C09 (1).** After `set_p_values` the contests and the assertion names are unchanged and every
assertion's recorded `(p_value, p_history)` is exactly the pair the test returned for it — for every test. -/
theorem pvalues_are_tests (test : Test) (s : State) :
    (setPValues test s).2.map (fun c => (c.id, c.riskLimit, c.assertions.map (·.name)))
        = s.map (fun c => (c.id, c.riskLimit, c.assertions.map (·.name)))
    ∧ ∀ c' ∈ (setPValues test s).2, ∀ a' ∈ c'.assertions,
        (a'.pValue, a'.pHistory) = test c'.id a'.name := by
  constructor
  · rw [setPValues_eq]
    simp [List.map_map, setContest_eq, Function.comp_def, updAssertion]
  · intro c' hc' a' ha'
    obtain ⟨c, _, rfl⟩ := mem_set hc'
    rw [setContest_eq] at ha' ⊢
    obtain ⟨a, _, rfl⟩ := List.mem_map.1 ha'
    rfl

/-- positional form of the same fact: the list of `(name, p_value, p_history)` of every contest -/
theorem pvalues_are_tests_pos (test : Test) (s : State) :
    (setPValues test s).2.map (fun c => c.assertions.map (fun a => (a.name, a.pValue, a.pHistory)))
      = s.map (fun c => c.assertions.map (fun a => (a.name, (test c.id a.name).1, (test c.id a.name).2))) := by
  rw [setPValues_eq]
  simp [List.map_map, setContest_eq, Function.comp_def, updAssertion]

/-! ### contest_max -/

theorem maxFrom0_nan_iff (l : List XR) : (maxFrom0 l).isNan = true ↔ ∃ p ∈ l, p.isNan = true := by
  unfold maxFrom0
  rw [foldMax_isNan]
  simp [XR.isNan, List.any_eq_true]

/-- without NaN, `maxFrom0 l` is `0` or an entry of `l`, and bounds `0` and every entry -/
theorem maxFrom0_bound (l : List XR) (hn : ∀ p ∈ l, p.isNan = false) :
    (maxFrom0 l = 0 ∨ maxFrom0 l ∈ l) ∧ XR.le 0 (maxFrom0 l) = true ∧ ∀ p ∈ l, XR.le p (maxFrom0 l) = true :=
  foldMax_spec l 0 rfl hn

/-- without NaN and with non-negative entries, `maxFrom0 l` is the largest entry of `l` -/
theorem maxFrom0_largest (l : List XR) (hne : l ≠ []) (hn : ∀ p ∈ l, p.isNan = false)
    (h0 : ∀ p ∈ l, XR.le 0 p = true) :
    maxFrom0 l ∈ l ∧ ∀ p ∈ l, XR.le p (maxFrom0 l) = true := by
  obtain ⟨h1, _, h3⟩ := maxFrom0_bound l hn
  refine ⟨?_, h3⟩
  rcases h1 with h1 | h1
  · -- the maximum is 0: every entry is between 0 and 0, so the first entry is 0
    cases l with
    | nil => exact absurd rfl hne
    | cons p l =>
      have hp : p = 0 := by
        have := h3 p (by simp)
        rw [h1] at this
        exact le_antisymm this (h0 p (by simp))
      rw [h1, hp]; simp
  · exact h1

/-- **C09 (2).** After `set_p_values` each contest's `max_p` is the nan-propagating maximum over `0` and
its assertions' p-values (exactly `cpmax`, the "measured risk" of `summarize_status`); it is NaN iff some
p-value is NaN; and when no p-value is NaN and all are `≥ 0` (and there is one) it is the largest of them. -/
theorem contest_max (test : Test) (s : State) :
    ∀ c' ∈ (setPValues test s).2,
      c'.maxP = some (maxFrom0 (pvals c')) ∧ c'.maxP = some (cpmax c')
      ∧ ((maxFrom0 (pvals c')).isNan = true ↔ ∃ a ∈ c'.assertions, a.pValue.isNan = true)
      ∧ (c'.assertions ≠ [] → (∀ a ∈ c'.assertions, a.pValue.isNan = false) →
          (∀ a ∈ c'.assertions, XR.le 0 a.pValue = true) →
            (∃ a ∈ c'.assertions, maxFrom0 (pvals c') = a.pValue)
            ∧ ∀ a ∈ c'.assertions, XR.le a.pValue (maxFrom0 (pvals c')) = true) := by
  intro c' hc'
  obtain ⟨c, _, rfl⟩ := mem_set hc'
  have e : ((setContest test c).2).maxP = some (maxFrom0 (pvals (setContest test c).2)) := by
    rw [setContest_eq]
    simp [maxFrom0, pvals, testPs, List.map_map, Function.comp_def, updAssertion]
  refine ⟨e, ?_, ?_, ?_⟩
  · rw [e, cpmax_eq]; rfl
  · rw [maxFrom0_nan_iff]
    exact exists_pvals_iff _ _
  · intro hne hn h0
    have := maxFrom0_largest (pvals (setContest test c).2) (by simpa [pvals] using hne)
      (by simpa [pvals] using hn) (by simpa [pvals] using h0)
    obtain ⟨h1, h2⟩ := this
    constructor
    · obtain ⟨a, ha, h⟩ := List.mem_map.1 h1
      exact ⟨a, ha, h.symm⟩
    · intro a ha
      exact h2 _ (List.mem_map.2 ⟨a, ha, rfl⟩)

/-! ### audit_max -/

/-- **C09 (3).** The value `set_p_values` returns is the nan-propagating maximum over `0` and the contests'
`max_p` (each of which is that contest's `cpmax`, by `contest_max`). -/
theorem audit_max (test : Test) (s : State) :
    (setPValues test s).1 = maxFrom0 ((setPValues test s).2.map cpmax)
    ∧ (setPValues test s).2.map (·.maxP) = (setPValues test s).2.map (fun c => some (cpmax c)) := by
  constructor
  · rw [setPValues_eq]
    simp only [maxFrom0, List.map_map]
    congr 1
    apply List.map_congr_left
    intro c _
    simp only [Function.comp_def]
    rw [cpmax_eq, setContest_eq]
    simp [testPs, List.map_map, Function.comp_def, updAssertion]
  · apply List.map_congr_left
    intro c' hc'
    exact (contest_max test s c' hc').2.1

/-- the returned value is NaN exactly when some assertion of some contest has a NaN p-value -/
theorem audit_max_nan_iff (test : Test) (s : State) :
    (setPValues test s).1.isNan = true ↔
      ∃ c' ∈ (setPValues test s).2, ∃ a ∈ c'.assertions, a.pValue.isNan = true := by
  rw [(audit_max test s).1, maxFrom0_nan_iff]
  constructor
  · rintro ⟨p, hp, hn⟩
    obtain ⟨c', hc', rfl⟩ := List.mem_map.1 hp
    refine ⟨c', hc', ?_⟩
    rw [cpmax_eq] at hn
    exact (exists_pvals_iff _ _).1 ((maxFrom0_nan_iff (pvals c')).1 hn)
  · rintro ⟨c', hc', a, ha, hn⟩
    refine ⟨cpmax c', List.mem_map.2 ⟨c', hc', rfl⟩, ?_⟩
    rw [cpmax_eq]
    exact (maxFrom0_nan_iff (pvals c')).2 ⟨a.pValue, List.mem_map.2 ⟨a, ha, rfl⟩, hn⟩

/-- without NaN the returned value bounds every p-value of every assertion of every contest, and is `0`
or one of those p-values: it is the largest p-value in the audit (or `0` if all are below `0` / none exists) -/
theorem audit_max_largest (test : Test) (s : State)
    (hn : ∀ c' ∈ (setPValues test s).2, ∀ a ∈ c'.assertions, a.pValue.isNan = false) :
    (∀ c' ∈ (setPValues test s).2, ∀ a ∈ c'.assertions, XR.le a.pValue (setPValues test s).1 = true)
    ∧ ((setPValues test s).1 = 0
        ∨ ∃ c' ∈ (setPValues test s).2, ∃ a ∈ c'.assertions, (setPValues test s).1 = a.pValue) := by
  have hc : ∀ c' ∈ (setPValues test s).2, (cpmax c').isNan = false := by
    intro c' hc'
    cases h : (cpmax c').isNan
    · rfl
    · rw [cpmax_eq] at h
      obtain ⟨p, hp, hpn⟩ := (maxFrom0_nan_iff (pvals c')).1 h
      obtain ⟨a, ha, rfl⟩ := List.mem_map.1 hp
      rw [hn c' hc' a ha] at hpn; cases hpn
  have houter := maxFrom0_bound ((setPValues test s).2.map cpmax)
    (by intro p hp; obtain ⟨c', hc', rfl⟩ := List.mem_map.1 hp; exact hc c' hc')
  rw [← (audit_max test s).1] at houter
  obtain ⟨o1, _, o3⟩ := houter
  have hinner : ∀ c' ∈ (setPValues test s).2,
      (cpmax c' = 0 ∨ cpmax c' ∈ pvals c') ∧ XR.le 0 (cpmax c') = true
        ∧ ∀ p ∈ pvals c', XR.le p (cpmax c') = true := by
    intro c' hc'
    rw [cpmax_eq]
    exact maxFrom0_bound (pvals c')
      (by intro p hp; obtain ⟨a, ha, rfl⟩ := List.mem_map.1 hp; exact hn c' hc' a ha)
  constructor
  · intro c' hc' a ha
    exact le_trans ((hinner c' hc').2.2 a.pValue (List.mem_map.2 ⟨a, ha, rfl⟩))
      (o3 (cpmax c') (List.mem_map.2 ⟨c', hc', rfl⟩))
  · rcases o1 with o1 | o1
    · exact Or.inl o1
    · obtain ⟨c', hc', e⟩ := List.mem_map.1 o1
      rcases (hinner c' hc').1 with h | h
      · left; rw [← e, h]
      · right
        obtain ⟨a, ha, e'⟩ := List.mem_map.1 h
        exact ⟨c', hc', a, ha, by rw [← e, ← e']⟩

/-! ### proved_sticky -/

/-- **C09 (4).** `proved' = (p ≤ risk limit of the assertion's own contest) or proved`, where `p` is the
p-value the test returned, `≤` is IEEE (false on NaN) and `proved` is the flag before the call. -/
theorem proved_sticky (test : Test) (s : State) :
    (setPValues test s).2.map (fun c => c.assertions.map (fun a => (a.name, a.proved)))
      = s.map (fun c => c.assertions.map (fun a =>
          (a.name, XR.le (test c.id a.name).1 (XR.fin c.riskLimit) || a.proved))) := by
  rw [setPValues_eq]
  simp [List.map_map, setContest_eq, Function.comp_def, updAssertion]

/-- consequence: in the new state, an assertion whose p-value meets its own contest's limit is confirmed -/
theorem proved_of_le (test : Test) (s : State) :
    ∀ c' ∈ (setPValues test s).2, ∀ a' ∈ c'.assertions,
      XR.le a'.pValue (XR.fin c'.riskLimit) = true → a'.proved = true := by
  intro c' hc' a' ha' h
  obtain ⟨c, _, rfl⟩ := mem_set hc'
  rw [setContest_eq] at ha' h
  obtain ⟨a, _, rfl⟩ := List.mem_map.1 ha'
  simp only [updAssertion] at h ⊢
  simp [h]

/-- consequence: an unconfirmed assertion of the new state was unconfirmed before and its new p-value does
not meet the limit (a NaN p-value never confirms) -/
theorem unproved_only_if (test : Test) (s : State) :
    ∀ c ∈ s, ∀ a ∈ c.assertions, (updAssertion test c a).proved = false →
      a.proved = false ∧ XR.le (test c.id a.name).1 (XR.fin c.riskLimit) = false := by
  intro c _ a _ h
  simp only [updAssertion, Bool.or_eq_false_iff] at h
  exact ⟨h.2, h.1⟩

/-- the dicts `con.p_values` / `con.proved` mirror the assertions (dict keys are distinct) -/
theorem dicts_mirror (test : Test) (s : State)
    (hnd : ∀ c ∈ s, (c.assertions.map (·.name)).Nodup) :
    ∀ c' ∈ (setPValues test s).2,
      c'.pValues = some (c'.assertions.map (fun a => (a.name, a.pValue)))
      ∧ c'.provedD = some (c'.assertions.map (fun a => (a.name, a.proved))) := by
  intro c' hc'
  obtain ⟨c, hc, rfl⟩ := mem_set hc'
  rw [setContest_eq]
  simp only
  rw [dictFold_nodup _ _ [] (by simp) (hnd c hc), dictFold_nodup _ _ [] (by simp) (hnd c hc)]
  simp [List.map_map, Function.comp_def, updAssertion]

/-! ### complete_iff -/

/-- **C09 (5).** `summarize_status` reports the audit complete iff for every contest
`0 ≤` its risk limit and every one of its assertions has p-value `≤` that contest's own risk limit
(IEEE `≤`: a NaN p-value makes the audit incomplete).

As the code behaves: a contest with NO assertions has measured risk `0`, so it counts as complete exactly
when `0 ≤ risk_limit`; this conjunct is vacuous for every risk limit `check_audit_parameters` accepts
(see `complete_iff_checked`). -/
theorem complete_iff (s : State) :
    summarizeStatus s = true ↔
      ∀ c ∈ s, 0 ≤ c.riskLimit ∧ ∀ a ∈ c.assertions, XR.le a.pValue (XR.fin c.riskLimit) = true := by
  unfold summarizeStatus
  rw [foldl_summarize]
  simp only [Bool.true_and, List.all_eq_true]
  constructor
  · intro h c hc
    have := h c hc
    rw [cpmax_eq, foldMax0_le_iff] at this
    exact ⟨this.1, fun a ha => this.2 _ (List.mem_map.2 ⟨a, ha, rfl⟩)⟩
  · intro h c hc
    rw [cpmax_eq, foldMax0_le_iff]
    refine ⟨(h c hc).1, ?_⟩
    intro p hp
    obtain ⟨a, ha, rfl⟩ := List.mem_map.1 hp
    exact (h c hc).2 a ha

/-- for non-negative risk limits (in particular all that `check_audit_parameters` accepts) the statement
of the property, verbatim -/
theorem complete_iff_nonneg (s : State) (h0 : ∀ c ∈ s, 0 ≤ c.riskLimit) :
    summarizeStatus s = true ↔
      ∀ c ∈ s, ∀ a ∈ c.assertions, XR.le a.pValue (XR.fin c.riskLimit) = true := by
  rw [complete_iff]
  constructor
  · intro h c hc; exact (h c hc).2
  · intro h c hc; exact ⟨h0 c hc, h c hc⟩

/-- NaN: one NaN p-value anywhere makes the audit incomplete -/
theorem nan_incomplete (s : State) (c : Contest) (hc : c ∈ s) (a : Assertion) (ha : a ∈ c.assertions)
    (hn : a.pValue = XR.nan) : summarizeStatus s = false := by
  cases h : summarizeStatus s
  · rfl
  · have := ((complete_iff s).1 h c hc).2 a ha
    rw [hn] at this
    simp [XR.le] at this

/-- the decision right after `set_p_values`, in terms of what the tests returned -/
theorem complete_after_set (test : Test) (s : State) :
    summarizeStatus (setPValues test s).2 = true ↔
      ∀ c ∈ s, 0 ≤ c.riskLimit ∧
        ∀ a ∈ c.assertions, XR.le (test c.id a.name).1 (XR.fin c.riskLimit) = true := by
  rw [complete_iff, setPValues_eq]
  constructor
  · intro h c hc
    have := h _ (List.mem_map.2 ⟨c, hc, rfl⟩)
    rw [setContest_eq] at this
    refine ⟨this.1, fun a ha => ?_⟩
    exact this.2 _ (List.mem_map.2 ⟨a, ha, rfl⟩)
  · intro h c' hc'
    obtain ⟨c, hc, rfl⟩ := List.mem_map.1 hc'
    rw [setContest_eq]
    refine ⟨(h c hc).1, fun a' ha' => ?_⟩
    obtain ⟨a, ha, rfl⟩ := List.mem_map.1 ha'
    exact (h c hc).2 a ha

/-- a complete audit has every assertion of every contest confirmed -/
theorem complete_all_proved (test : Test) (s : State)
    (h : summarizeStatus (setPValues test s).2 = true) :
    ∀ c' ∈ (setPValues test s).2, ∀ a' ∈ c'.assertions, a'.proved = true := by
  intro c' hc' a' ha'
  exact proved_of_le test s c' hc' a' ha' (((complete_iff _).1 h c' hc').2 a' ha')

/-! ### reset_restores -/

/-- the assertion after L2348-2349 -/
def resetAssertion (a : Assertion) : Assertion := { a with pValue := 1, pHistory := [], proved := false }

theorem resetContest_eq (c : Contest) :
    resetContest c =
      { c with assertions := c.assertions.map resetAssertion,
               pValues := some (dictFold (fun _ => (1 : XR)) [] c.assertions),
               provedD := some (dictFold (fun _ => false) [] c.assertions),
               maxP := some 1 } := by
  unfold resetContest
  rw [foldl_resetStep]
  simp [resetAssertion]

/-- **C09 (6).** After `reset_p_values`: same contests, same assertion names, same order; every p-value is
`1`, every history empty, every assertion unconfirmed, every `max_p = 1`; the call returns `True`. -/
theorem reset_restores (s : State) :
    (resetPValues s).1 = true
    ∧ (resetPValues s).2.map (fun c => (c.id, c.riskLimit, c.assertions.map (·.name)))
        = s.map (fun c => (c.id, c.riskLimit, c.assertions.map (·.name)))
    ∧ ∀ c' ∈ (resetPValues s).2,
        c'.maxP = some 1 ∧
        ∀ a' ∈ c'.assertions, a'.pValue = 1 ∧ a'.pHistory = [] ∧ a'.proved = false := by
  refine ⟨rfl, ?_, ?_⟩
  · simp [resetPValues, List.map_map, resetContest_eq, Function.comp_def, resetAssertion]
  · intro c' hc'
    simp only [resetPValues] at hc'
    obtain ⟨c, _, rfl⟩ := List.mem_map.1 hc'
    rw [resetContest_eq]
    refine ⟨rfl, ?_⟩
    intro a' ha'
    obtain ⟨a, _, rfl⟩ := List.mem_map.1 ha'
    exact ⟨rfl, rfl, rfl⟩

/-- the dicts after a reset: every key `1` / `False` -/
theorem reset_dicts (s : State) (hnd : ∀ c ∈ s, (c.assertions.map (·.name)).Nodup) :
    ∀ c' ∈ (resetPValues s).2,
      c'.pValues = some (c'.assertions.map (fun a => (a.name, (1 : XR))))
      ∧ c'.provedD = some (c'.assertions.map (fun a => (a.name, false))) := by
  intro c' hc'
  simp only [resetPValues] at hc'
  obtain ⟨c, hc, rfl⟩ := List.mem_map.1 hc'
  rw [resetContest_eq]
  simp only
  rw [dictFold_nodup _ _ [] (by simp) (hnd c hc), dictFold_nodup _ _ [] (by simp) (hnd c hc)]
  simp [List.map_map, Function.comp_def, resetAssertion]

/-- after a reset the audit is incomplete as soon as one contest with risk limit below 1 has an assertion -/
theorem reset_incomplete (s : State) (c : Contest) (hc : c ∈ s) (hl : c.riskLimit < 1)
    (hne : c.assertions ≠ []) : summarizeStatus (resetPValues s).2 = false := by
  cases h : summarizeStatus (resetPValues s).2
  · rfl
  · exfalso
    have hm : resetContest c ∈ (resetPValues s).2 := List.mem_map.2 ⟨c, hc, rfl⟩
    have := ((complete_iff _).1 h _ hm).2
    rw [resetContest_eq] at this
    obtain ⟨a, l, e⟩ := List.exists_cons_of_ne_nil hne
    have h1 := this (resetAssertion a) (by simp [e])
    have e1 : (1 : XR) = XR.fin 1 := rfl
    simp only [resetAssertion, e1, XR.le, decide_eq_true_eq] at h1
    exact absurd hl (Rat.not_lt.2 h1)

/-! ### params_checked -/

/-- what `check_audit_parameters` demands of one contest -/
def ContestOk (c : Contest) : Prop :=
  0 < c.riskLimit ∧ c.riskLimit ≤ 1 / 2 ∧ c.choiceFunction ∈ socialChoiceFunctions ∧
  ∃ cands ws, c.candidates = some cands ∧ c.winner = some ws ∧
    c.nWinners ≤ (cands.length : Int) ∧ (ws.length : Int) = c.nWinners ∧ (∀ w ∈ ws, w ∈ cands) ∧
    (c.choiceFunction = "IRV" → c.nWinners = 1 ∧ truthyFile c.assertionFile = true)

theorem ensure_ok_iff (b : Bool) (tag cid : String) : ensure b tag cid = .ok () ↔ b = true := by
  cases b <;> simp [ensure]

theorem bind_ok_iff (x : Except Err Unit) (f : Unit → Except Err Unit) :
    (x >>= f) = .ok () ↔ x = .ok () ∧ f () = .ok () := by
  cases x <;> simp [bind, Except.bind]

theorem forM_ensure_ok_iff (cands ws : List String) (cid : String) :
    (forM ws fun w => ensure (decide (w ∈ cands)) "winner_not_candidate" cid) = .ok () ↔ ∀ w ∈ ws, w ∈ cands := by
  induction ws with
  | nil => simp [pure, Except.pure]
  | cons w ws ih =>
    simp only [List.forM_cons, bind_ok_iff, ensure_ok_iff, ih, List.mem_cons, forall_eq_or_imp, decide_eq_true_eq]

theorem checkContest_ok_iff (c : Contest) : checkContest c = .ok () ↔ ContestOk c := by
  unfold checkContest ContestOk
  cases hcands : c.candidates with
  | none => simp [bind_ok_iff, throw, throwThe, MonadExceptOf.throw]
  | some cands =>
    cases hws : c.winner with
    | none => simp [bind_ok_iff, throw, throwThe, MonadExceptOf.throw]
    | some ws =>
      by_cases hirv : c.choiceFunction = "IRV"
      · simp [bind_ok_iff, ensure_ok_iff, hirv, socialChoiceFunctions]
        intros; exact forM_ensure_ok_iff cands ws c.id
      · simp [bind_ok_iff, ensure_ok_iff, hirv, pure, Except.pure]
        intros; exact forM_ensure_ok_iff cands ws c.id

theorem forM_check_ok_iff (s : State) : s.forM checkContest = .ok () ↔ ∀ c ∈ s, ContestOk c := by
  induction s with
  | nil => simp [List.forM, pure, Except.pure]
  | cons c s ih =>
    simp only [List.forM, bind_ok_iff, checkContest_ok_iff, ih, List.mem_cons, forall_eq_or_imp]

/-- **C09 (7).** `check_audit_parameters` returns normally iff both assumed error rates are non-negative and
every contest has risk limit in `(0, 1/2]`, a supported social choice function, no more winners than
candidates, as many reported winners as `n_winners`, every reported winner among the candidates, and — for
IRV — exactly one winner and an assertion file.  Otherwise it raises. -/
theorem params_checked (e1 e2 : Rat) (s : State) :
    checkAuditParameters e1 e2 s = .ok () ↔ 0 ≤ e1 ∧ 0 ≤ e2 ∧ ∀ c ∈ s, ContestOk c := by
  unfold checkAuditParameters
  simp only [bind_ok_iff, ensure_ok_iff, decide_eq_true_eq, forM_check_ok_iff, ge_iff_le]

/-- accepted parameters make the completion criterion exactly the property's -/
theorem complete_iff_checked (e1 e2 : Rat) (s : State) (h : checkAuditParameters e1 e2 s = .ok ()) :
    summarizeStatus s = true ↔
      ∀ c ∈ s, ∀ a ∈ c.assertions, XR.le a.pValue (XR.fin c.riskLimit) = true :=
  complete_iff_nonneg s (fun c hc => Rat.le_of_lt (((params_checked e1 e2 s).1 h).2.2 c hc).1)

/-- the length check of `set_p_values` (L2320-2321): with equal lengths (or no CVR sample) the call is the loop -/
theorem set_checked_ok (test : Test) (n : Nat) (s : State) :
    setPValuesChecked test n (some n) s = .ok (setPValues test s)
    ∧ setPValuesChecked test n none s = .ok (setPValues test s) := by
  simp [setPValuesChecked]

/-! ### Non-vacuity: concrete instances (tests of the statements, not the theorems) -/

section Examples

deriving instance DecidableEq for Except

/-- two contests with different risk limits; the second has an assertion that was confirmed earlier -/
def ex0 : State :=
  [ { id := "mayor", riskLimit := 1 / 20,
      assertions := [{ name := "A v B" }, { name := "A v C" }],
      candidates := some ["A", "B", "C"], winner := some ["A"] },
    { id := "measure", riskLimit := 1 / 10, choiceFunction := "SUPERMAJORITY",
      assertions := [{ name := "yes v ALL_OTHERS", proved := true }],
      candidates := some ["yes", "no"], winner := some ["yes"] } ]

/-- a test table: 0.05 (exactly the limit), 0.07 (above mayor's limit, below measure's), NaN -/
def exTest : Test := fun c a =>
  if c = "mayor" ∧ a = "A v B" then (XR.fin (1 / 20), [1, XR.fin (1 / 20)])
  else if c = "mayor" ∧ a = "A v C" then (XR.fin (7 / 100), [XR.fin (7 / 100)])
  else (XR.nan, [])

def exTestOk : Test := fun c a =>
  if c = "mayor" ∧ a = "A v C" then (XR.fin (1 / 25), [XR.fin (1 / 25)]) else (XR.fin (1 / 20), [])

-- the returned maximum is NaN-propagating; max_p of "mayor" is 7/100; the NaN assertion stays confirmed (sticky)
example : (setPValues exTest ex0).1 = XR.nan := by decide +kernel
example : ((setPValues exTest ex0).2.map (·.maxP)) = [some (XR.fin (7 / 100)), some XR.nan] := by decide +kernel
example : ((setPValues exTest ex0).2.map (fun c => c.assertions.map (·.proved))) = [[true, false], [true]] := by
  decide +kernel
example : summarizeStatus (setPValues exTest ex0).2 = false := by decide +kernel
-- 7/100 would meet the OTHER contest's limit 1/10: the own limit is what counts
example : summarizeStatus [{ id := "mayor", riskLimit := 1 / 20, assertions := [{ name := "x", pValue := XR.fin (7 / 100) }] },
                           { id := "measure", riskLimit := 1 / 10, assertions := [{ name := "y", pValue := XR.fin (7 / 100) }] }]
          = false := by decide +kernel
-- all at or below the own limit (one exactly at it): complete
example : summarizeStatus (setPValues exTestOk ex0).2 = true := by decide +kernel
example : (setPValues exTestOk ex0).1 = XR.fin (1 / 20) := by decide +kernel
-- hypotheses of `contest_max` (largest) are satisfiable: non-empty, no NaN, all ≥ 0
example : ∀ c' ∈ (setPValues exTestOk ex0).2, c'.assertions ≠ [] ∧
    (∀ a ∈ c'.assertions, a.pValue.isNan = false) ∧ (∀ a ∈ c'.assertions, XR.le 0 a.pValue = true) := by
  decide +kernel
-- reset
example : ((resetPValues (setPValues exTestOk ex0).2).2.map
    (fun c => (c.maxP, c.assertions.map (fun a => (a.pValue, a.pHistory, a.proved)))))
      = [(some 1, [(1, [], false), (1, [], false)]), (some 1, [(1, [], false)])] := by decide +kernel
example : summarizeStatus (resetPValues (setPValues exTestOk ex0).2).2 = false := by decide +kernel
-- a contest without assertions: complete iff 0 ≤ risk limit
example : summarizeStatus [{ id := "empty", riskLimit := 1 / 20, assertions := [] }] = true := by decide +kernel
example : summarizeStatus [{ id := "empty", riskLimit := -1 / 20, assertions := [] }] = false := by decide +kernel
-- parameters
example : checkAuditParameters (1 / 1000) 0 ex0 = .ok () := by decide +kernel
example : checkAuditParameters (1 / 1000) 0
    [{ id := "c", riskLimit := 3 / 5, assertions := [], candidates := some ["A"], winner := some ["A"] }]
      = .error (Err.AssertionError "risk_limit_exceeds_half" "c") := by decide +kernel
-- distinct assertion names (hypothesis of `dicts_mirror` / `reset_dicts`)
example : ∀ c ∈ ex0, (c.assertions.map (·.name)).Nodup := by decide +kernel

end Examples

end Shangrla.C09
