/-
  C16 — sample-size estimates are first-crossing times on the assumed data.

  Theorems are about the literal models the driver executes: `Shangrla.NM.sampleSize`
  (`NonnegMean.sample_size`), `Shangrla.SS.interleaveValues`, `comparisonPop`, `pollingPop`,
  `assumedPopulation`, `assertionFindSampleSize`, `contestFindSampleSize`, `auditContestNewSize`.
-/
import Shangrla.Model.SampleSize
import Mathlib.Tactic.Linarith
import Mathlib.Tactic.Positivity
import Mathlib.Algebra.Order.Field.Basic
import Mathlib.Algebra.Order.Ring.Rat

namespace Shangrla.C16
open Shangrla Shangrla.NM Shangrla.SS

/-! ### 1. the deterministic estimate is the first crossing on the tiled pilot -/

/-- `np.tile(x, ceil(N/len(x)))[0:N]`: length `N`, entry `i` is `x[i mod len(x)]` -/
theorem tileTo_spec (x : List Rat) (hx : x ≠ []) (n : Nat) :
    (tileTo x n).length = n ∧
    ∀ i, i < n → (tileTo x n)[i]? = some (x[i % x.length]'(Nat.mod_lt _ (List.length_pos_of_ne_nil hx))) := by
  have he : x.isEmpty = false := by cases x <;> simp_all
  unfold tileTo
  rw [he]
  refine ⟨by simp, ?_⟩
  intro i hi
  have hm : i % x.length < x.length := Nat.mod_lt _ (List.length_pos_of_ne_nil hx)
  simp [hi, List.getD_eq_getElem?_getD, List.getElem?_eq_getElem hm]

/-- a population that already has length `N` is its own tiling (the assumed populations of
`Assertion.find_sample_size` have length `N`) -/
theorem tileTo_self (x : List Rat) (hx : x ≠ []) : tileTo x x.length = x := by
  apply List.ext_getElem?
  intro i
  by_cases hi : i < x.length
  · rw [(tileTo_spec x hx x.length).2 i hi]
    simp [Nat.mod_eq_of_lt hi, List.getElem?_eq_getElem hi]
  · have h1 : (tileTo x x.length).length ≤ i := by rw [(tileTo_spec x hx _).1]; omega
    rw [List.getElem?_eq_none h1, List.getElem?_eq_none (by omega)]

/-- `firstCrossing h α N` is the 1-based index of the first entry `≤ α` (no earlier entry is `≤ α`),
and `N` if no entry is `≤ α` -/
theorem firstCrossing_spec (h : List XR) (alpha : Rat) (n : Nat) :
    (∃ i, ∃ hi : i < h.length, XR.le h[i] (.fin alpha) = true ∧
        (∀ j (hj : j < i), XR.le (h[j]'(Nat.lt_trans hj hi)) (.fin alpha) = false) ∧
        firstCrossing h alpha n = i + 1) ∨
    ((∀ p ∈ h, XR.le p (.fin alpha) = false) ∧ firstCrossing h alpha n = n) := by
  unfold firstCrossing
  cases hf : h.findIdx? (fun p => XR.le p (.fin alpha)) with
  | none =>
    right
    exact ⟨List.findIdx?_eq_none_iff.mp hf, rfl⟩
  | some i =>
    left
    obtain ⟨hi, hp, hlt⟩ := List.findIdx?_eq_some_iff_getElem.mp hf
    exact ⟨i, hi, hp, fun j hj => by simpa using hlt j hj, rfl⟩

/-- converse direction, used below: a first crossing at index `i` determines `firstCrossing` -/
theorem firstCrossing_eq_of_first (h : List XR) (alpha : Rat) (n i : Nat) (hi : i < h.length)
    (hp : XR.le h[i] (.fin alpha) = true)
    (hlt : ∀ j (hj : j < i), XR.le (h[j]'(Nat.lt_trans hj hi)) (.fin alpha) = false) :
    firstCrossing h alpha n = i + 1 := by
  unfold firstCrossing
  have : h.findIdx? (fun p => XR.le p (.fin alpha)) = some i :=
    List.findIdx?_eq_some_iff_getElem.mpr ⟨hi, hp, fun j hj => by simp [hlt j hj]⟩
  rw [this]

/-- the `reps is None` branch as an equation -/
theorem sampleSize_det_eq (sqrtF : Rat → Rat) (cfg : Cfg) (test : Test) (x : List Rat) (alpha : Rat)
    (pfx : Bool) (q : Rat) (n : Nat) (hN : cfg.N = some n) (hx : x ≠ []) :
    sampleSize sqrtF cfg test x alpha none pfx q =
      (match run sqrtF cfg test (tileTo x n) with
       | .ok ph => .ok (firstCrossing ph.2 alpha n)
       | .error e => .error e) := by
  have he : x.isEmpty = false := by cases x <;> simp_all
  unfold sampleSize
  simp only [hN, he, Bool.false_eq_true, ↓reduceIte]
  cases run sqrtF cfg test (tileTo x n) <;> rfl

/-- **det_first_crossing**: with `reps = None` the estimate is `k` iff the test runs on the pilot
tiled to length `N` and `k` is the first crossing of that history (`N` if it never crosses);
`prefix` and `quantile` are ignored. -/
theorem det_first_crossing (sqrtF : Rat → Rat) (cfg : Cfg) (test : Test) (x : List Rat) (alpha : Rat)
    (pfx : Bool) (q : Rat) (k : Nat) :
    sampleSize sqrtF cfg test x alpha none pfx q = .ok k ↔
      ∃ n p h, cfg.N = some n ∧ x ≠ [] ∧ run sqrtF cfg test (tileTo x n) = .ok (p, h) ∧
        k = firstCrossing h alpha n := by
  constructor
  · intro hk
    cases hN : cfg.N with
    | none => simp [sampleSize, hN] at hk
    | some n =>
      by_cases hx : x = []
      · subst hx; simp [sampleSize, hN] at hk
      · rw [sampleSize_det_eq sqrtF cfg test x alpha pfx q n hN hx] at hk
        cases hr : run sqrtF cfg test (tileTo x n) with
        | error e => rw [hr] at hk; cases hk
        | ok ph =>
          rw [hr] at hk
          obtain ⟨p, h⟩ := ph
          exact ⟨n, p, h, rfl, hx, hr, by cases hk; rfl⟩
  · rintro ⟨n, p, h, hN, hx, hr, hk⟩
    rw [sampleSize_det_eq sqrtF cfg test x alpha pfx q n hN hx, hr, hk]

/-- non-vacuity: the non-constant pilot `[0,1,1,1]`, `N = 8`, ALPHA with a fixed alternative 3/4: the
history on the tiled pilot `[0,1,1,1,0,1,1,1]` is `[1, 1, 4/5, 2/5, ...]`, first `≤ 1/2` at position 4
(repeating each value instead, `[0,0,1,1,1,1,1,1]`, would give 6) -/
example : sampleSize sqrtRat (Cfg.init false false 1 (some 8) (1/2) true { eta := some (3/4) })
    (.alpha .fixedAlt) [0, 1, 1, 1] (1/2) none false (1/2) = .ok 4 := by decide +kernel

/-! ### 2. the assumed populations of `Assertion.find_sample_size` -/

theorem assign_length (x : List Rat) (idx : List Nat) (v : Rat) : (assign x idx v).length = x.length := by
  unfold assign
  induction idx generalizing x with
  | nil => rfl
  | cons j idx ih => simp only [List.foldl_cons]; rw [ih]; simp

/-- numpy fancy assignment `x[idx] = v`: entry `i` becomes `v` iff `i` is listed -/
theorem assign_getElem? (x : List Rat) (idx : List Nat) (v : Rat) (i : Nat) (hi : i < x.length) :
    (assign x idx v)[i]? = some (if i ∈ idx then v else x[i]) := by
  unfold assign
  induction idx generalizing x with
  | nil => simp [List.getElem?_eq_getElem hi]
  | cons j idx ih =>
    simp only [List.foldl_cons]
    have hi' : i < (x.set j v).length := by simpa using hi
    rw [ih (x.set j v) hi', List.getElem_set]
    by_cases hji : j = i
    · subst hji; simp
    · have : ¬ i = j := fun h => hji h.symm
      simp [hji, this]

/-- `np.arange(0, n, step)` lists exactly the multiples of `step` below `n` -/
theorem mem_arange (n step i : Nat) (hs : 0 < step) : i ∈ arange n step ↔ i < n ∧ step ∣ i := by
  unfold arange
  simp only [List.mem_map, List.mem_range]
  constructor
  · rintro ⟨k, hk, rfl⟩
    refine ⟨?_, Dvd.intro_left k rfl⟩
    have h1 : (k + 1) * step ≤ n + step - 1 := (Nat.le_div_iff_mul_le hs).mp hk
    rw [Nat.succ_mul] at h1
    omega
  · rintro ⟨hi, k, rfl⟩
    refine ⟨k, ?_, Nat.mul_comm k step⟩
    apply (Nat.le_div_iff_mul_le hs).mpr
    rw [Nat.succ_mul, Nat.mul_comm k step]
    omega

/-- position `i` is marked by an assumed error rate `r`: `r` is given and non-zero, the step
`int(1/r)` is positive, and `i` is a multiple of it -/
def marks (rate : Option Rat) (i : Nat) : Bool :=
  match rate with
  | none => false
  | some r => decide (r ≠ 0) && decide (0 < truncInt (1 / r)) && decide ((truncInt (1 / r)).toNat ∣ i)

/-- the only way the index computation fails: a non-zero rate with `int(1/rate) = 0`, i.e. `|rate| > 1`
(`np.arange(..., step=0)` raises ZeroDivisionError) -/
def rateOk (rate : Option Rat) : Prop := ∀ r, rate = some r → r ≠ 0 → truncInt (1 / r) ≠ 0

theorem rateIdx_ok (n : Nat) (rate : Option Rat) (h : rateOk rate) :
    ∃ idx, rateIdx n rate = .ok idx ∧ ∀ i, i ∈ idx ↔ i < n ∧ marks rate i = true := by
  unfold rateIdx
  cases rate with
  | none => exact ⟨[], rfl, by simp [marks]⟩
  | some r =>
    by_cases hr : r = 0
    · exact ⟨[], by simp [hr], by simp [marks, hr]⟩
    · have h0 := h r rfl hr
      simp only [marks, hr, ↓reduceIte, ne_eq, not_false_eq_true, decide_true, Bool.true_and,
        Bool.and_eq_true, decide_eq_true_eq]
      generalize truncInt (1 / r) = s at h0 ⊢
      by_cases hneg : s < 0
      · refine ⟨[], by simp [h0, hneg], ?_⟩
        intro i
        have : ¬ (0 < s) := by omega
        simp [this]
      · have hpos : 0 < s := by omega
        refine ⟨arange n s.toNat, by simp [h0, hneg], ?_⟩
        intro i
        rw [mem_arange n _ i (by omega)]
        simp [hpos]

theorem rateIdx_err (n : Nat) (rate : Option Rat) (h : ¬ rateOk rate) :
    rateIdx n rate = .error (.nm .zerodiv) := by
  unfold rateOk at h
  simp only [not_forall] at h
  obtain ⟨r, hr, h0, h1⟩ := h
  subst hr
  have h1' : truncInt (1 / r) = 0 := by simpa using h1
  unfold rateIdx
  simp only [h0, ↓reduceIte, h1']

/-- **assumed_population_comparison** (vector level).  `x = big*ones(N); x[rate_1_i] = small;
x[rate_2_i] = 0`: entry `i` is `0` if `rate_2` marks `i`; else `small` if `rate_1` marks `i`; else `big`
(the second overwrite wins, exactly the order of the code). -/
theorem comparisonPop_spec (n : Nat) (rate1 rate2 : Option Rat) (small big : Rat)
    (h1 : rateOk rate1) (h2 : rateOk rate2) :
    ∃ x, comparisonPop n rate1 rate2 small big = .ok x ∧ x.length = n ∧
      ∀ i, i < n → x[i]? = some (if marks rate2 i then 0 else if marks rate1 i then small else big) := by
  obtain ⟨i1, e1, m1⟩ := rateIdx_ok n rate1 h1
  obtain ⟨i2, e2, m2⟩ := rateIdx_ok n rate2 h2
  refine ⟨assign (assign (List.replicate n big) i1 small) i2 0, ?_, ?_, ?_⟩
  · simp [comparisonPop, e1, e2, bind, Except.bind, pure, Except.pure]
  · simp [assign_length]
  · intro i hi
    have hl1 : i < (List.replicate n big).length := by simpa using hi
    have hl2 : i < (assign (List.replicate n big) i1 small).length := by rw [assign_length]; exact hl1
    rw [assign_getElem? _ _ _ _ hl2]
    have hget : (assign (List.replicate n big) i1 small)[i] = if i ∈ i1 then small else big := by
      have := assign_getElem? (List.replicate n big) i1 small i hl1
      rw [List.getElem?_eq_getElem hl2] at this
      simpa using this
    rw [hget]
    have b2 : (i ∈ i2) ↔ marks rate2 i = true := by rw [m2]; simp [hi]
    have b1 : (i ∈ i1) ↔ marks rate1 i = true := by rw [m1]; simp [hi]
    by_cases c2 : marks rate2 i = true
    · simp [b2.mpr c2, c2]
    · have : i ∉ i2 := fun h => c2 (b2.mp h)
      by_cases c1 : marks rate1 i = true
      · simp [this, c2, b1.mpr c1, c1]
      · have : i ∉ i1 := fun h => c1 (b1.mp h)
        simp_all

/-- the construction fails exactly when some non-zero rate has `int(1/rate) = 0` -/
theorem comparisonPop_ok_iff (n : Nat) (rate1 rate2 : Option Rat) (small big : Rat) :
    (∃ x, comparisonPop n rate1 rate2 small big = .ok x) ↔ rateOk rate1 ∧ rateOk rate2 := by
  constructor
  · rintro ⟨x, hx⟩
    by_contra hc
    by_cases h1 : rateOk rate1
    · have h2 : ¬ rateOk rate2 := fun h => hc ⟨h1, h⟩
      obtain ⟨i1, e1, _⟩ := rateIdx_ok n rate1 h1
      simp [comparisonPop, e1, rateIdx_err n rate2 h2, bind, Except.bind] at hx
    · simp [comparisonPop, rateIdx_err n rate1 h1, bind, Except.bind] at hx
  · rintro ⟨h1, h2⟩
    obtain ⟨x, hx, _⟩ := comparisonPop_spec n rate1 rate2 small big h1 h2
    exact ⟨x, hx⟩

/-- for a rate in `(0, 1]` the step is `⌊1/rate⌋ ≥ 1` -/
theorem truncInt_inv_rate (r : Rat) (h0 : 0 < r) (h1 : r ≤ 1) :
    truncInt (1 / r) = (1 / r).floor ∧ 1 ≤ (1 / r).floor := by
  have hpos : (0 : Rat) < 1 / r := by positivity
  refine ⟨by unfold truncInt; rw [if_neg (not_lt.mpr hpos.le)], ?_⟩
  rw [Rat.le_floor_iff]
  have : (1 : Rat) ≤ 1 / r := by rw [le_div_iff₀ h0]; simpa using h1
  simpa using this

theorem rateOk_of_unit (r : Rat) (h0 : 0 ≤ r) (h1 : r ≤ 1) : rateOk (some r) := by
  intro q hq hne
  cases hq
  have hpos : 0 < r := lt_of_le_of_ne h0 (Ne.symm hne)
  have := truncInt_inv_rate r hpos h1
  omega

theorem rateOk_none : rateOk none := by intro r h; cases h

/-- for a rate in `(0, 1]`: `i` is marked iff `⌊1/rate⌋` divides `i` -/
theorem marks_unit (r : Rat) (h0 : 0 < r) (h1 : r ≤ 1) (i : Nat) :
    marks (some r) i = true ↔ ((1 / r).floor.toNat ∣ i) := by
  obtain ⟨e, hge⟩ := truncInt_inv_rate r h0 h1
  have hne : r ≠ 0 := ne_of_gt h0
  simp only [marks, e]
  generalize (1 / r).floor = f at hge ⊢
  have : (0 : Int) < f := by omega
  simp [hne, this]

theorem makeOverstatement_spec (ub margin overs : Rat) (hub : ub ≠ 0) (hd : 2 - margin / ub ≠ 0) :
    makeOverstatement ub margin overs = .ok ((1 - overs / ub) / (2 - margin / ub)) := by
  simp [makeOverstatement, hub, hd]

/-- **assumed_population_comparison** (assertion level): for CARD_COMPARISON and ONEAUDIT the data the
estimate is computed from are: `0` where `rate_2` marks the position, else the one-vote-overstatement
value where `rate_1` (default `(1 - margin)/2`) marks it, else the error-free value. -/
theorem assumed_population_comparison (a : Assertion) (m : Rat) (rate1 rate2 : Option Rat) (n : Nat)
    (hN : a.cfg.N = some n) (hat : a.auditType = .cardComparison ∨ a.auditType = .oneaudit)
    (x : List Rat) (hx : assumedPopulation a m rate1 rate2 = .ok x) :
    ∃ small big, makeOverstatement a.upperBound m (1 / 2) = .ok small ∧
      makeOverstatement a.upperBound m 0 = .ok big ∧ x.length = n ∧
      ∀ i, i < n → x[i]? = some (if marks rate2 i then 0
                                else if marks (some (rate1.getD ((1 - m) / 2))) i then small else big) := by
  have hp : (a.auditType == AuditType.polling) = false := by
    rcases hat with h | h <;> simp [h]
  unfold assumedPopulation at hx
  simp only [hp, Bool.false_eq_true, ↓reduceIte, hN] at hx
  cases hb : makeOverstatement a.upperBound m 0 with
  | error e => simp only [hb, bind, Except.bind, reduceCtorEq] at hx
  | ok big =>
    cases hs : makeOverstatement a.upperBound m (1 / 2) with
    | error e => simp only [hb, hs, bind, Except.bind, reduceCtorEq] at hx
    | ok small =>
      have hx' : comparisonPop n (some (rate1.getD ((1 - m) / 2))) rate2 small big = .ok x := by
        rcases hat with h | h <;> simpa only [hb, hs, bind, Except.bind, h] using hx
      have hok := (comparisonPop_ok_iff _ _ _ _ _).mp ⟨x, hx'⟩
      obtain ⟨x', e', hl, hv⟩ := comparisonPop_spec n _ rate2 small big hok.1 hok.2
      rw [hx'] at e'
      cases e'
      exact ⟨small, big, rfl, rfl, hl, hv⟩

/-- **assumed_population_polling**: for POLLING (not IRV, tally given) the data are the reported
tallies interleaved: `tally[loser]` zeros, `N - tally[loser] - tally[winner]` halves and `tally[winner]`
values equal to the assorter's upper bound. -/
theorem assumed_population_polling (a : Assertion) (m : Rat) (rate1 rate2 : Option Rat) (n : Nat)
    (hN : a.cfg.N = some n) (hat : a.auditType = .polling) (hirv : a.irv = false)
    (tl : List (String × Int)) (ht : a.tally = some tl) (hne : tl ≠ []) (n0 nBig : Int)
    (h0 : tl.lookup a.loser = some n0) (hb : tl.lookup a.winner = some nBig) :
    assumedPopulation a m rate1 rate2 =
      interleaveValues n0 ((n : Int) - n0 - nBig) nBig 0 (1 / 2) a.upperBound := by
  unfold assumedPopulation pollingPop
  cases tl with
  | nil => exact absurd rfl hne
  | cons p tl' =>
    simp [hat, hN, hirv, ht, h0, hb, bind, Except.bind, pure, Except.pure]

/-- `Assertion.find_sample_size` with `data=None` is `NonnegMean.sample_size` at `alpha = risk_limit` on
the assumed population; with data, on the data -/
theorem find_eq (sqrtF : Rat → Rat) (a : Assertion) (m : Rat) (hm : a.margin = some m) (hpos : 0 < m)
    (data : Option (List Rat)) (pfx : Bool) (rate1 rate2 : Option Rat)
    (reps : Option (List (List Rat))) (q : Rat) :
    assertionFindSampleSize sqrtF a data pfx rate1 rate2 reps q =
      (match data with
       | some d => liftNM (sampleSize sqrtF a.cfg a.test d a.riskLimit reps pfx q)
       | none =>
         match assumedPopulation a m rate1 rate2 with
         | .ok x => liftNM (sampleSize sqrtF a.cfg a.test x a.riskLimit reps pfx q)
         | .error e => .error e) := by
  unfold assertionFindSampleSize
  simp only [hm, gt_iff_lt, hpos, not_true_eq_false, ↓reduceIte]
  cases data with
  | some d => rfl
  | none =>
    cases assumedPopulation a m rate1 rate2 <;> rfl

theorem liftNM_ok_iff {α} (r : Except NM.Err α) (v : α) : liftNM r = .ok v ↔ r = .ok v := by
  cases r <;> simp [liftNM]

/-- **the headline statement for assumed data**: without pilot data and without simulation the
estimate of an assertion is `k` iff the assumed population `x` exists and `k` is the first position at
which the test's history on `x` (tiled to `N`; `x` itself when it has length `N`, which it has for the
comparison populations) is at most the contest's risk limit, `N` if it never is. -/
theorem find_det_first_crossing (sqrtF : Rat → Rat) (a : Assertion) (m : Rat) (hm : a.margin = some m)
    (hpos : 0 < m) (pfx : Bool) (rate1 rate2 : Option Rat) (q : Rat) (k : Nat) :
    assertionFindSampleSize sqrtF a none pfx rate1 rate2 none q = .ok k ↔
      ∃ n x p h, a.cfg.N = some n ∧ assumedPopulation a m rate1 rate2 = .ok x ∧ x ≠ [] ∧
        run sqrtF a.cfg a.test (tileTo x n) = .ok (p, h) ∧ k = firstCrossing h a.riskLimit n := by
  rw [find_eq sqrtF a m hm hpos]
  cases hx : assumedPopulation a m rate1 rate2 with
  | error e => simp
  | ok x =>
    simp only [liftNM_ok_iff, det_first_crossing]
    constructor
    · rintro ⟨n, p, h, h1, h2, h3, h4⟩
      exact ⟨n, x, p, h, h1, rfl, h2, h3, h4⟩
    · rintro ⟨n, x', p, h, h1, h2, h3, h4, h5⟩
      cases h2
      exact ⟨n, p, h, h1, h3, h4, h5⟩

/-- for CARD_COMPARISON / ONEAUDIT the assumed population has length `N`, so no tiling happens: the
estimate is the first crossing of the test's history on the assumed population itself -/
theorem find_det_comparison (sqrtF : Rat → Rat) (a : Assertion) (m : Rat) (hm : a.margin = some m)
    (hpos : 0 < m) (hat : a.auditType = .cardComparison ∨ a.auditType = .oneaudit)
    (n : Nat) (hN : a.cfg.N = some n) (hn : 0 < n)
    (pfx : Bool) (rate1 rate2 : Option Rat) (q : Rat) (k : Nat) :
    assertionFindSampleSize sqrtF a none pfx rate1 rate2 none q = .ok k ↔
      ∃ x p h, assumedPopulation a m rate1 rate2 = .ok x ∧
        run sqrtF a.cfg a.test x = .ok (p, h) ∧ k = firstCrossing h a.riskLimit n := by
  rw [find_det_first_crossing sqrtF a m hm hpos]
  constructor
  · rintro ⟨n', x, p, h, h1, h2, h3, h4, h5⟩
    rw [hN] at h1; cases h1
    obtain ⟨_, _, _, _, hl, _⟩ := assumed_population_comparison a m rate1 rate2 n hN hat x h2
    rw [← hl, tileTo_self x h3] at h4
    exact ⟨x, p, h, h2, h4, h5⟩
  · rintro ⟨x, p, h, h2, h4, h5⟩
    obtain ⟨_, _, _, _, hl, _⟩ := assumed_population_comparison a m rate1 rate2 n hN hat x h2
    have h3 : x ≠ [] := by
      intro hx; rw [hx] at hl; simp at hl; omega
    refine ⟨n, x, p, h, hN, h2, h3, ?_, h5⟩
    rw [← hl, tileTo_self x h3]
    exact h4

/-! ### 3. a prefix that already crosses the risk limit fixes every simulation-based estimate -/

/-- if the first `m` entries of a history contain a first crossing at index `i`, the whole history has
its first crossing there, whatever follows -/
theorem firstCrossing_of_take (h : List XR) (alpha : Rat) (n m i : Nat) (hi : i < (h.take m).length)
    (hp : XR.le (h.take m)[i] (.fin alpha) = true)
    (hlt : ∀ j (hj : j < i), XR.le ((h.take m)[j]'(Nat.lt_trans hj hi)) (.fin alpha) = false) :
    firstCrossing h alpha n = i + 1 := by
  have hi' : i < h.length := by
    have := hi; rw [List.length_take] at this; omega
  apply firstCrossing_eq_of_first h alpha n i hi'
  · rw [List.getElem_take] at hp; exact hp
  · intro j hj
    have := hlt j hj
    rw [List.getElem_take] at this
    exact this

theorem mergeSort_replicate (r c : Nat) :
    (List.replicate r c).mergeSort (· ≤ ·) = List.replicate r c :=
  List.perm_replicate.mp (List.mergeSort_perm _ _)

/-- `int(np.quantile(sams, q))` of a constant sample is that constant, for every `q ≤ 1` (numpy
rejects `q` outside `[0, 1]`) -/
theorem quantileInt_const (r c : Nat) (hr : 0 < r) (q : Rat) (hq : q ≤ 1) :
    quantileInt (List.replicate r c) q = c := by
  unfold quantileInt
  rw [mergeSort_replicate]
  have hr0 : r ≠ 0 := by omega
  simp only [List.length_replicate, hr0, ↓reduceIte]
  have hlo : (((r - 1 : Nat) : Rat) * q).floor.toNat < r := by
    have h1 : (((r - 1 : Nat) : Rat) * q).floor ≤ ((r - 1 : Nat) : Int) := by
      have hb : ((r - 1 : Nat) : Rat) * q ≤ ((r - 1 : Nat) : Rat) := by
        have h0 : (0 : Rat) ≤ ((r - 1 : Nat) : Rat) := Nat.cast_nonneg _
        nlinarith
      have := Rat.floor_le (((r - 1 : Nat) : Rat) * q)
      have h2 : ((((r - 1 : Nat) : Rat) * q).floor : Rat) ≤ (((r - 1 : Nat) : Int) : Rat) := by
        push_cast; linarith
      exact_mod_cast h2
    omega
  have hmin : min ((((r - 1 : Nat) : Rat) * q).floor.toNat + 1) (r - 1) < r := by omega
  rw [List.getD_eq_getElem?_getD, List.getD_eq_getElem?_getD,
    List.getElem?_replicate, List.getElem?_replicate]
  simp only [hlo, hmin, ↓reduceIte, Option.getD_some, sub_self, mul_zero, add_zero]
  have : ((c : Nat) : Rat) = ((c : Int) : Rat) := by push_cast; rfl
  rw [this, Rat.floor_intCast]
  simp

theorem mapM_const {α β} (l : List α) (f : α → Except NM.Err β) (c : β) (h : ∀ a ∈ l, f a = .ok c) :
    l.mapM f = .ok (List.replicate l.length c) := by
  induction l with
  | nil => rfl
  | cons a l ih =>
    rw [List.mapM_cons, h a (List.mem_cons_self ..), ih (fun b hb => h b (List.mem_cons_of_mem _ hb))]
    rfl

/-- **prefix_crossing**.  Let the supplied data `x` be used as a prefix.  Hypothesis `hcausal`
(non-anticipation of the test's history, property C05, stated here for the specific test and
configuration): on every simulated population `x ++ y` the test succeeds and the first `|x|` entries of
its history are the same list `hx` ("the history of the prefix, continued").  If `hx` first reaches
`≤ alpha` at (0-based) index `i`, then for every non-empty list of random tails and every quantile
`q ≤ 1` the simulation-based estimate is `i + 1`: seed, repetitions and quantile are irrelevant. -/
theorem prefix_crossing (sqrtF : Rat → Rat) (cfg : Cfg) (test : Test) (x : List Rat) (alpha : Rat)
    (n : Nat) (hN : cfg.N = some n) (hx : List XR) (tails : List (List Rat)) (hne : tails ≠ [])
    (hcausal : ∀ y ∈ tails, ∃ p h, run sqrtF cfg test (x ++ y) = .ok (p, h) ∧ h.take x.length = hx)
    (i : Nat) (hi : i < hx.length) (hp : XR.le hx[i] (.fin alpha) = true)
    (hlt : ∀ j (hj : j < i), XR.le (hx[j]'(Nat.lt_trans hj hi)) (.fin alpha) = false)
    (q : Rat) (hq : q ≤ 1) :
    sampleSize sqrtF cfg test x alpha (some tails) true q = .ok (i + 1) := by
  unfold sampleSize
  simp only [hN, ↓reduceIte]
  have hall : ∀ y ∈ tails,
      (do let (_, hist) ← run sqrtF cfg test (x ++ y); pure (firstCrossing hist alpha n) : Except NM.Err Nat)
        = .ok (i + 1) := by
    intro y hy
    obtain ⟨p, h, hr, ht⟩ := hcausal y hy
    subst ht
    rw [hr]
    show Except.ok (firstCrossing h alpha n) = Except.ok (i + 1)
    rw [firstCrossing_of_take h alpha n x.length i hi hp hlt]
  rw [mapM_const tails _ (i + 1) hall]
  show Except.ok (quantileInt (List.replicate tails.length (i + 1)) q) = Except.ok (i + 1)
  rw [quantileInt_const _ _ (List.length_pos_of_ne_nil hne) q hq]

/-- the same at the level of `Assertion.find_sample_size` (this is what `Audit.find_sample_size` calls
with `prefix=True` once MVRs are available): if the data already cross the contest's risk limit at
position `i + 1`, every simulation-based estimate is `i + 1` -/
theorem find_prefix_crossing (sqrtF : Rat → Rat) (a : Assertion) (m : Rat) (hm : a.margin = some m)
    (hpos : 0 < m) (x : List Rat) (rate1 rate2 : Option Rat)
    (n : Nat) (hN : a.cfg.N = some n) (hx : List XR) (tails : List (List Rat)) (hne : tails ≠ [])
    (hcausal : ∀ y ∈ tails, ∃ p h, run sqrtF a.cfg a.test (x ++ y) = .ok (p, h) ∧ h.take x.length = hx)
    (i : Nat) (hi : i < hx.length) (hp : XR.le hx[i] (.fin a.riskLimit) = true)
    (hlt : ∀ j (hj : j < i), XR.le (hx[j]'(Nat.lt_trans hj hi)) (.fin a.riskLimit) = false)
    (q : Rat) (hq : q ≤ 1) :
    assertionFindSampleSize sqrtF a (some x) true rate1 rate2 (some tails) q = .ok (i + 1) := by
  rw [find_eq sqrtF a m hm hpos]
  show liftNM _ = _
  rw [prefix_crossing sqrtF a.cfg a.test x a.riskLimit n hN hx tails hne hcausal i hi hp hlt q hq]
  rfl

/-- the per-population form: for EVERY tail the first crossing of `x ++ tail` is that of the prefix -/
theorem prefix_crossing_tail (sqrtF : Rat → Rat) (cfg : Cfg) (test : Test) (x y : List Rat) (alpha : Rat)
    (n : Nat) (p : XR) (h : List XR) (_hr : run sqrtF cfg test (x ++ y) = .ok (p, h))
    (i : Nat) (hi : i < (h.take x.length).length) (hp : XR.le (h.take x.length)[i] (.fin alpha) = true)
    (hlt : ∀ j (hj : j < i), XR.le ((h.take x.length)[j]'(Nat.lt_trans hj hi)) (.fin alpha) = false) :
    firstCrossing h alpha n = i + 1 :=
  firstCrossing_of_take h alpha n x.length i hi hp hlt

/-! #### an instance of the non-anticipation hypothesis proved here: Kaplan-Markov

(`hcausal` for the other tests is property C05, proved by its own package.) -/

theorem cumprodFrom_take (acc : XR) (a b : List XR) :
    (XR.cumprodFrom acc (a ++ b)).take a.length = XR.cumprodFrom acc a := by
  induction a generalizing acc with
  | nil => simp [XR.cumprodFrom]
  | cons v a ih => simp [XR.cumprodFrom, ih]

theorem cumprodFrom_length (acc : XR) (a : List XR) : (XR.cumprodFrom acc a).length = a.length := by
  induction a generalizing acc with
  | nil => rfl
  | cons v a ih => simp [XR.cumprodFrom, ih]

/-- the p-value history of `kaplan_markov` on a sample `z` -/
def kmHist (cfg : Cfg) (z : List Rat) : List XR :=
  (XR.cumprod (z.map fun a => (XR.fin (cfg.t + cfg.kw.g.getD 0)) / (XR.fin (a + cfg.kw.g.getD 0)))).map
    (fun p => XR.npmin p 1)

theorem km_run (sqrtF : Rat → Rat) (cfg : Cfg) (z : List Rat) (hz : z ≠ []) (hnn : ∀ v ∈ z, 0 ≤ v) :
    ∃ p, run sqrtF cfg .km z = .ok (p, kmHist cfg z) := by
  have hany : z.any (· < 0) = false := by
    rw [List.any_eq_false]
    intro v hv
    have := hnn v hv
    simp [not_lt.mpr this]
  have hemp : (XR.cumprod (z.map fun a => (XR.fin (cfg.t + cfg.kw.g.getD 0)) / (XR.fin (a + cfg.kw.g.getD 0)))).isEmpty = false := by
    rw [List.isEmpty_eq_false_iff, ← List.length_pos_iff]
    unfold XR.cumprod
    rw [cumprodFrom_length, List.length_map]
    exact List.length_pos_of_ne_nil hz
  unfold run kaplanMarkov
  simp only [hany, Bool.false_eq_true, ↓reduceIte, hemp]
  exact ⟨_, rfl⟩

theorem kmHist_take (cfg : Cfg) (x y : List Rat) : (kmHist cfg (x ++ y)).take x.length = kmHist cfg x := by
  unfold kmHist XR.cumprod
  rw [List.map_append, ← List.map_take]
  have := cumprodFrom_take 1 (x.map fun a => (XR.fin (cfg.t + cfg.kw.g.getD 0)) / (XR.fin (a + cfg.kw.g.getD 0)))
    (y.map fun a => (XR.fin (cfg.t + cfg.kw.g.getD 0)) / (XR.fin (a + cfg.kw.g.getD 0)))
  rw [List.length_map] at this
  rw [this]

/-- **prefix_crossing for Kaplan-Markov, without any hypothesis about the test**: if the Kaplan-Markov
history of the (non-negative, non-empty) pilot `x` first reaches `≤ alpha` at index `i`, every
simulation-based estimate with prefix `x` is `i + 1` — for all non-negative tails, all numbers of
repetitions `≥ 1` and all quantiles `q ≤ 1`. -/
theorem prefix_crossing_km (sqrtF : Rat → Rat) (cfg : Cfg) (x : List Rat) (alpha : Rat) (n : Nat)
    (hN : cfg.N = some n) (hx0 : x ≠ []) (hxnn : ∀ v ∈ x, 0 ≤ v)
    (tails : List (List Rat)) (hne : tails ≠ []) (htnn : ∀ y ∈ tails, ∀ v ∈ y, 0 ≤ v)
    (i : Nat) (hi : i < (kmHist cfg x).length) (hp : XR.le (kmHist cfg x)[i] (.fin alpha) = true)
    (hlt : ∀ j (hj : j < i), XR.le ((kmHist cfg x)[j]'(Nat.lt_trans hj hi)) (.fin alpha) = false)
    (q : Rat) (hq : q ≤ 1) :
    sampleSize sqrtF cfg .km x alpha (some tails) true q = .ok (i + 1) := by
  apply prefix_crossing sqrtF cfg .km x alpha n hN (kmHist cfg x) tails hne _ i hi hp hlt q hq
  intro y hy
  have hz : x ++ y ≠ [] := by simp [hx0]
  have hnn : ∀ v ∈ x ++ y, 0 ≤ v := by
    intro v hv
    rcases List.mem_append.mp hv with h | h
    · exact hxnn v h
    · exact htnn y hy v h
  obtain ⟨p, hr⟩ := km_run sqrtF cfg (x ++ y) hz hnn
  exact ⟨p, _, hr, kmHist_take cfg x y⟩

/-- non-vacuity of `prefix_crossing_km` (and so of `prefix_crossing`): `t = 1/2`, `g = 1/10`, pilot
`[1, 1, 1, 0]`, `alpha = 1/4`: the history `6/11, 36/121, 216/1331, ...` first is `≤ 1/4` at index 2, so the
estimate is 3 for the two tails below (and any others), quantile 9/10 -/
example : sampleSize sqrtRat (Cfg.init false false 1 (some 12) (1/2) true { g := some (1/10) }) .km
    [1, 1, 1, 0] (1/4) (some [[0, 0, 0, 0, 0, 0, 0, 0], [1, 0, 1, 1, 0, 1, 1, 1]]) true (9/10) = .ok 3 := by
  apply prefix_crossing_km sqrtRat _ [1, 1, 1, 0] (1/4) 12 rfl (by simp) (by decide +kernel) _ (by simp)
    (by decide +kernel) 2 (by decide +kernel) (by decide +kernel) (by decide +kernel) (9/10) (by norm_num)

/-! ### 4. a contest's estimate is the largest among its assertions -/

/-- the estimate `Contest.find_sample_size` requests for one assertion -/
def contestItemEstimate (sqrtF : Rat → Rat) (ctype : AuditType) (hasMvr : Bool) (rate1 rate2 : Option Rat)
    (q : Rat) (it : Item) : Except SS.Err Nat :=
  assertionFindSampleSize sqrtF it.a
    (if hasMvr then some it.mvrData else if ctype == .oneaudit then some it.cvrData else none)
    false rate1 rate2 it.tails q

/-- the estimate `Audit.find_sample_size` requests for one (unproved) assertion -/
def auditItemEstimate (sqrtF : Rat → Rat) (ctype : AuditType) (hasMvr : Bool) (rate1 rate2 : Option Rat)
    (q : Rat) (it : Item) : Except SS.Err Nat :=
  if hasMvr then assertionFindSampleSize sqrtF it.a (some it.mvrData) true none none it.tails q
  else assertionFindSampleSize sqrtF it.a (if ctype == .oneaudit then some it.cvrData else none)
    false rate1 rate2 it.tails q

/-- `max` over a list of naturals, `0` for the empty list -/
def maxOf (l : List Nat) : Nat := l.foldl max 0

theorem foldl_max_ge (l : List Nat) (a : Nat) : a ≤ l.foldl max a ∧ ∀ s ∈ l, s ≤ l.foldl max a := by
  induction l generalizing a with
  | nil => simp
  | cons b l ih =>
    simp only [List.foldl_cons, List.mem_cons, forall_eq_or_imp]
    obtain ⟨h1, h2⟩ := ih (max a b)
    exact ⟨le_trans (le_max_left a b) h1, le_trans (le_max_right a b) h1, h2⟩

theorem foldl_max_mem (l : List Nat) (a : Nat) : l.foldl max a = a ∨ l.foldl max a ∈ l := by
  induction l generalizing a with
  | nil => simp
  | cons b l ih =>
    simp only [List.foldl_cons, List.mem_cons]
    rcases ih (max a b) with h | h
    · rw [h]
      rcases max_choice a b with h' | h'
      · left; exact h'
      · right; left; exact h'
    · right; right; exact h

/-- `maxOf` is the maximum: an upper bound that is attained (or `0` for the empty list) -/
theorem maxOf_spec (l : List Nat) :
    (∀ s ∈ l, s ≤ maxOf l) ∧ (l = [] → maxOf l = 0) ∧ (l ≠ [] → maxOf l ∈ l) := by
  refine ⟨(foldl_max_ge l 0).2, fun h => by simp [h, maxOf], fun hne => ?_⟩
  rcases foldl_max_mem l 0 with h | h
  · -- the maximum is 0: then every element is 0
    cases l with
    | nil => exact absurd rfl hne
    | cons b l =>
      have hb : b ≤ 0 := by
        have := (foldl_max_ge (b :: l) 0).2 b (List.mem_cons_self ..)
        rw [h] at this; exact this
      have : b = 0 := by omega
      unfold maxOf
      rw [h, this]
      exact List.mem_cons_self ..
  · exact h

theorem foldlM_max_eq {ε} (f : Item → Except ε Nat) (items : List Item) (acc : Nat) :
    items.foldlM (fun acc it => do let s ← f it; pure (max acc s)) acc =
      (items.mapM f).map (fun sizes => sizes.foldl max acc) := by
  induction items generalizing acc with
  | nil => rfl
  | cons it items ih =>
    rw [List.foldlM_cons, List.mapM_cons]
    cases hf : f it with
    | error e => rfl
    | ok s =>
      show List.foldlM _ (max acc s) items = _
      rw [ih (max acc s)]
      cases List.mapM f items <;> rfl

/-- **contest_is_max**: `Contest.find_sample_size` is the maximum of the estimates of its assertions
(`0` if there are none); if an assertion's estimate raises, the contest raises (the first such error) -/
theorem contest_is_max (sqrtF : Rat → Rat) (ctype : AuditType) (hasMvr : Bool) (items : List Item)
    (rate1 rate2 : Option Rat) (q : Rat) :
    contestFindSampleSize sqrtF ctype hasMvr items rate1 rate2 q =
      (items.mapM (contestItemEstimate sqrtF ctype hasMvr rate1 rate2 q)).map maxOf := by
  have h : contestFindSampleSize sqrtF ctype hasMvr items rate1 rate2 q =
      items.foldlM (fun acc it => do
        let s ← contestItemEstimate sqrtF ctype hasMvr rate1 rate2 q it; pure (max acc s)) 0 := by
    unfold contestFindSampleSize contestItemEstimate
    rfl
  rw [h, foldlM_max_eq]
  rfl

/-- the same with the per-assertion estimates named: if they are `sizes`, the contest's is `maxOf sizes` -/
theorem contest_is_max_ok (sqrtF : Rat → Rat) (ctype : AuditType) (hasMvr : Bool) (items : List Item)
    (rate1 rate2 : Option Rat) (q : Rat) (sizes : List Nat)
    (h : items.mapM (contestItemEstimate sqrtF ctype hasMvr rate1 rate2 q) = .ok sizes) :
    contestFindSampleSize sqrtF ctype hasMvr items rate1 rate2 q = .ok (maxOf sizes) := by
  rw [contest_is_max, h]; rfl

theorem foldlM_filter {ε} (f : Item → Except ε Nat) (items : List Item) (acc : Nat) :
    items.foldlM (fun acc it => if it.proved then pure acc else do let s ← f it; pure (max acc s)) acc =
      (items.filter (fun it => !it.proved)).foldlM (fun acc it => do let s ← f it; pure (max acc s)) acc := by
  induction items generalizing acc with
  | nil => rfl
  | cons it items ih =>
    rw [List.foldlM_cons]
    by_cases hp : it.proved = true
    · simp only [hp, ↓reduceIte, pure_bind, List.filter_cons, Bool.not_true, Bool.false_eq_true]
      exact ih acc
    · have hp' : it.proved = false := by simpa using hp
      simp only [hp', Bool.false_eq_true, ↓reduceIte, List.filter_cons, Bool.not_false, List.foldlM_cons]
      cases f it with
      | error e => rfl
      | ok s => exact ih _

/-- **audit level**: the new size `Audit.find_sample_size` assigns to a contest is the maximum over its
assertions that are not yet proved -/
theorem audit_contest_is_max (sqrtF : Rat → Rat) (ctype : AuditType) (hasMvr : Bool) (items : List Item)
    (rate1 rate2 : Option Rat) (q : Rat) :
    auditContestNewSize sqrtF ctype hasMvr items rate1 rate2 q =
      ((items.filter (fun it => !it.proved)).mapM
        (auditItemEstimate sqrtF ctype hasMvr rate1 rate2 q)).map maxOf := by
  have : auditContestNewSize sqrtF ctype hasMvr items rate1 rate2 q =
      items.foldlM (fun acc it => if it.proved then pure acc else do
        let s ← auditItemEstimate sqrtF ctype hasMvr rate1 rate2 q it; pure (max acc s)) 0 := by
    unfold auditContestNewSize auditItemEstimate
    congr 1
    funext acc it
    by_cases hp : it.proved = true
    · simp [hp]
    · by_cases hm : hasMvr = true <;> simp [hp, hm]
  rw [this, foldlM_filter, foldlM_max_eq]
  rfl

/-! ### 4b. several contests in one call of `Audit.find_sample_size` -/

/-- the estimate `Audit.find_sample_size` requests for one unproved assertion, including the ONEAudit
branch (assumed errors written into the data built from all CVRs) -/
def auditItemEstimateInj (sqrtF : Rat → Rat) (ctype : AuditType) (hasMvr : Bool) (rate1 rate2 : Option Rat)
    (q : Rat) (it : Item) : Except SS.Err Nat :=
  if hasMvr then assertionFindSampleSize sqrtF it.a (some it.mvrData) true none none it.tails q
  else if ctype == .oneaudit then do
    let data ← oneauditInject it.cvrData rate1 rate2 it.a.upperBound it.a.margin
    assertionFindSampleSize sqrtF it.a (some data) false rate1 rate2 it.tails q
  else assertionFindSampleSize sqrtF it.a none false rate1 rate2 it.tails q

/-- per contest: the new size is the maximum over the contest's own unproved assertions -/
theorem auditInj_is_max (sqrtF : Rat → Rat) (ctype : AuditType) (hasMvr : Bool) (items : List Item)
    (rate1 rate2 : Option Rat) (q : Rat) :
    auditContestNewSizeInj sqrtF ctype hasMvr items rate1 rate2 q =
      ((items.filter (fun it => !it.proved)).mapM
        (auditItemEstimateInj sqrtF ctype hasMvr rate1 rate2 q)).map maxOf := by
  have : auditContestNewSizeInj sqrtF ctype hasMvr items rate1 rate2 q =
      items.foldlM (fun acc it => if it.proved then pure acc else do
        let s ← auditItemEstimateInj sqrtF ctype hasMvr rate1 rate2 q it; pure (max acc s)) 0 := by
    unfold auditContestNewSizeInj auditItemEstimateInj
    congr 1
    funext acc it
    by_cases hp : it.proved = true
    · simp [hp]
    · by_cases hm : hasMvr = true
      · simp [hp, hm]
      · by_cases ho : (ctype == AuditType.oneaudit) = true
        · simp only [hp, hm, ho, Bool.false_eq_true, ↓reduceIte, bind_assoc]
        · simp [hp, hm, ho]
  rw [this, foldlM_filter, foldlM_max_eq]
  rfl

/-- outside the ONEAudit-without-MVRs branch this is the function `audit_contest_is_max` is about -/
theorem auditInj_eq (sqrtF : Rat → Rat) (ctype : AuditType) (hasMvr : Bool) (items : List Item)
    (rate1 rate2 : Option Rat) (q : Rat) (h : hasMvr = true ∨ ctype ≠ .oneaudit) :
    auditContestNewSizeInj sqrtF ctype hasMvr items rate1 rate2 q =
      auditContestNewSize sqrtF ctype hasMvr items rate1 rate2 q := by
  unfold auditContestNewSizeInj auditContestNewSize
  congr 1
  funext acc it
  rcases h with h | h
  · simp [h]
  · have : (ctype == AuditType.oneaudit) = false := by simpa using h
    simp [this]

theorem mapM_ok_iff_forall₂ {α β ε} (f : α → Except ε β) (l : List α) (r : List β) :
    l.mapM f = .ok r ↔ List.Forall₂ (fun a b => f a = .ok b) l r := by
  induction l generalizing r with
  | nil =>
    constructor
    · intro h; cases h; exact List.Forall₂.nil
    · intro h; cases h; rfl
  | cons a l ih =>
    rw [List.mapM_cons]
    cases hf : f a with
    | error e =>
      constructor
      · intro h; cases h
      · intro h; cases h with | cons h1 _ => rw [hf] at h1; cases h1
    | ok b =>
      cases hl : l.mapM f with
      | error e =>
        constructor
        · intro h; cases h
        · intro h
          cases h with
          | cons h1 h2 =>
            have := (ih _).mpr h2
            rw [hl] at this; cases this
      | ok bs =>
        constructor
        · intro h
          cases h
          exact List.Forall₂.cons hf ((ih bs).mp hl)
        · intro h
          cases h with
          | cons h1 h2 =>
            rw [hf] at h1; cases h1
            have := (ih _).mpr h2
            rw [hl] at this; cases this
            rfl

/-- **audit_per_contest**: `Audit.find_sample_size` on several contests assigns to each contest the value
its own assertions determine (`auditContestNewSizeInj` of that contest alone) — position by position, so
the result for a contest does not depend on the other contests in the call -/
theorem audit_per_contest (sqrtF : Rat → Rat) (hasMvr : Bool) (contests : List AContest)
    (rate1 rate2 : Option Rat) (q : Rat) (sizes : List Nat) :
    auditFindSampleSizes sqrtF hasMvr contests rate1 rate2 q = .ok sizes ↔
      List.Forall₂ (fun c s => auditContestNewSizeInj sqrtF c.ctype hasMvr c.items rate1 rate2 q = .ok s)
        contests sizes := by
  unfold auditFindSampleSizes
  exact mapM_ok_iff_forall₂ _ contests sizes

theorem forall₂_zip {α β} {R : α → β → Prop} {l : List α} {r : List β} (h : List.Forall₂ R l r) :
    ∀ a b, (a, b) ∈ l.zip r → R a b := by
  induction h with
  | nil => intro a b hab; simp at hab
  | cons h1 _ ih =>
    intro a b hab
    rw [List.zip_cons_cons, List.mem_cons] at hab
    rcases hab with hab | hab
    · cases hab; exact h1
    · exact ih a b hab

theorem forall₂_exists_left {α β} {R : α → β → Prop} {l : List α} {r : List β} (h : List.Forall₂ R l r) :
    ∀ a ∈ l, ∃ b, R a b := by
  induction h with
  | nil => intro a ha; simp at ha
  | cons h1 _ ih =>
    intro a ha
    rcases List.mem_cons.mp ha with rfl | ha
    · exact ⟨_, h1⟩
    · exact ih a ha

theorem mapM_ok_of_forall {α β ε} (f : α → Except ε β) (l : List α) (h : ∀ a ∈ l, ∃ b, f a = .ok b) :
    ∃ r, l.mapM f = .ok r := by
  induction l with
  | nil => exact ⟨[], rfl⟩
  | cons a l ih =>
    obtain ⟨b, hb⟩ := h a (List.mem_cons_self ..)
    obtain ⟨r, hr⟩ := ih (fun x hx => h x (List.mem_cons_of_mem _ hx))
    exact ⟨b :: r, by rw [List.mapM_cons, hb, hr]; rfl⟩

/-- **the order of the contests is irrelevant**: if the call succeeds for the contests in one order it
succeeds in every other order, and in both every contest is paired with the value it has on its own -/
theorem audit_order_irrelevant (sqrtF : Rat → Rat) (hasMvr : Bool) (cs cs' : List AContest)
    (hperm : cs.Perm cs') (rate1 rate2 : Option Rat) (q : Rat) (sizes : List Nat)
    (h : auditFindSampleSizes sqrtF hasMvr cs rate1 rate2 q = .ok sizes) :
    ∃ sizes', auditFindSampleSizes sqrtF hasMvr cs' rate1 rate2 q = .ok sizes' ∧
      (∀ c s, (c, s) ∈ cs.zip sizes → auditContestNewSizeInj sqrtF c.ctype hasMvr c.items rate1 rate2 q = .ok s) ∧
      (∀ c s, (c, s) ∈ cs'.zip sizes' → auditContestNewSizeInj sqrtF c.ctype hasMvr c.items rate1 rate2 q = .ok s) := by
  have h2 := (audit_per_contest sqrtF hasMvr cs rate1 rate2 q sizes).mp h
  have hall : ∀ c ∈ cs, ∃ s, auditContestNewSizeInj sqrtF c.ctype hasMvr c.items rate1 rate2 q = .ok s := by
    intro c hc
    exact forall₂_exists_left h2 c hc
  obtain ⟨sizes', hs'⟩ := mapM_ok_of_forall
    (fun c => auditContestNewSizeInj sqrtF c.ctype hasMvr c.items rate1 rate2 q) cs'
    (fun c hc => hall c (hperm.mem_iff.mpr hc))
  refine ⟨sizes', hs', forall₂_zip h2, ?_⟩
  exact forall₂_zip ((audit_per_contest sqrtF hasMvr cs' rate1 rate2 q sizes').mp hs')

/-- the value returned without style information is the largest contest estimate -/
theorem auditTotalNoStyle_spec (sizes : List Nat) (h : sizes ≠ []) :
    auditTotalNoStyle sizes = .ok (maxOf sizes) := by
  cases sizes with
  | nil => exact absurd rfl h
  | cons s rest => simp [auditTotalNoStyle, maxOf]

/-! ### 5. interleaving returns exactly the requested number of each value -/

def valOf (small med big : Rat) : Cls → Rat
  | .small => small
  | .med => med
  | .big => big

/-- the fraction of a class of `n` values still to be placed after `i` of them: the code's `r_*` -/
def frac (n i : Nat) : Rat :=
  if n = 0 then 0 else (((n : Int) - (i : Int) : Int) : Rat) / (((n : Nat) : Int) : Rat)

theorem ratio_eq (n i : Nat) (hn : n ≠ 0) : ratio (n : Int) i = .ok (frac n i) := by
  have : ((n : Nat) : Int) ≠ 0 := by exact_mod_cast hn
  simp [ratio, frac, hn]

theorem frac_eq (n i : Nat) (hn : n ≠ 0) : frac n i = ((n : Rat) - (i : Rat)) / (n : Rat) := by
  simp [frac, hn]

theorem frac_nonneg (n i : Nat) (h : i ≤ n) : 0 ≤ frac n i := by
  by_cases hn : n = 0
  · simp [frac, hn]
  · rw [frac_eq n i hn]
    have h1 : (i : Rat) ≤ (n : Rat) := by exact_mod_cast h
    have h2 : (0 : Rat) < (n : Rat) := by exact_mod_cast Nat.pos_of_ne_zero hn
    apply div_nonneg <;> linarith

theorem frac_pos_iff (n i : Nat) (h : i ≤ n) : 0 < frac n i ↔ i < n := by
  by_cases hn : n = 0
  · subst hn; simp [frac]
  · rw [frac_eq n i hn]
    have h2 : (0 : Rat) < (n : Rat) := by exact_mod_cast Nat.pos_of_ne_zero hn
    rw [div_pos_iff_of_pos_right h2, sub_pos]
    exact_mod_cast Iff.rfl

theorem frac_zero (n : Nat) : frac n 0 = if ((n : Nat) : Int) ≠ 0 then 1 else 0 := by
  by_cases hn : n = 0
  · simp [frac, hn]
  · have h2 : (n : Rat) ≠ 0 := by exact_mod_cast hn
    have h3 : ((n : Nat) : Int) ≠ 0 := by exact_mod_cast hn
    rw [frac_eq n 0 hn]
    simp [h2, hn]

/-- loop invariant of `interleave_values`: the counters never exceed the requested numbers and the
ratios are the fractions still to be placed (so an exhausted class has ratio 0) -/
structure Inv (nS nM nB : Nat) (st : IState) : Prop where
  hS : st.iS ≤ nS
  hM : st.iM ≤ nM
  hB : st.iB ≤ nB
  rS : st.rS = frac nS st.iS
  rM : st.rM = frac nM st.iM
  rB : st.rB = frac nB st.iB

/-- the cascade of comparisons picks a class with the largest ratio; if some ratio is positive (and
`r_big` is not negative) the chosen one is positive: an exhausted class is never chosen while another class
still has values left -/
theorem choose_pos (rS rM rB : Rat) (h2 : 0 ≤ rB) (hp : 0 < rS ∨ 0 < rM ∨ 0 < rB) :
    match choose rS rM rB with
    | .small => 0 < rS
    | .med => 0 < rM
    | .big => 0 < rB := by
  unfold choose
  by_cases a : rS > rB
  · by_cases b : rM > rS
    · simp only [a, b, ↓reduceIte]; linarith
    · simp only [a, b, ↓reduceIte]; linarith
  · by_cases c : rM > rB
    · simp only [a, c, ↓reduceIte]; linarith
    · simp only [a, c, ↓reduceIte]
      rcases hp with h | h | h <;> linarith

theorem ivLoop_spec (nS nM nB : Nat) (small med big : Rat) :
    ∀ (k : Nat) (st : IState), Inv nS nM nB st → st.iS + st.iM + st.iB + k = nS + nM + nB →
      ∃ cs : List Cls, ivLoop nS nM nB small med big k st = .ok (cs.map (valOf small med big)) ∧
        cs.length = k ∧ cs.count .small = nS - st.iS ∧ cs.count .med = nM - st.iM ∧
        cs.count .big = nB - st.iB := by
  intro k
  induction k with
  | zero =>
    intro st inv hsum
    have := inv.hS; have := inv.hM; have := inv.hB
    refine ⟨[], rfl, rfl, ?_, ?_, ?_⟩ <;> simp <;> omega
  | succ k ih =>
    intro st inv hsum
    have hS := inv.hS; have hM := inv.hM; have hB := inv.hB
    have hsome : 0 < st.rS ∨ 0 < st.rM ∨ 0 < st.rB := by
      rw [inv.rS, inv.rM, inv.rB, frac_pos_iff _ _ hS, frac_pos_iff _ _ hM, frac_pos_iff _ _ hB]
      omega
    have hch := choose_pos st.rS st.rM st.rB (by rw [inv.rB]; exact frac_nonneg _ _ hB) hsome
    unfold ivLoop
    cases hc : choose st.rS st.rM st.rB with
    | small =>
      rw [hc] at hch
      have hlt : st.iS < nS := by
        have : 0 < st.rS := hch
        rw [inv.rS, frac_pos_iff _ _ hS] at this; exact this
      have hn : nS ≠ 0 := by omega
      have inv' : Inv nS nM nB { st with iS := st.iS + 1, rS := frac nS (st.iS + 1) } :=
        ⟨hlt, hM, hB, rfl, inv.rM, inv.rB⟩
      obtain ⟨cs, hcs, hl, c1, c2, c3⟩ := ih _ inv' (by simp only; omega)
      refine ⟨.small :: cs, ?_, by simp [hl], ?_, ?_, ?_⟩
      · simp only [ratio_eq nS _ hn, hcs, bind, Except.bind, pure, Except.pure, List.map_cons, valOf]
      · simp only [List.count_cons_self, c1]; omega
      · simpa using c2
      · simpa using c3
    | med =>
      rw [hc] at hch
      have hlt : st.iM < nM := by
        have : 0 < st.rM := hch
        rw [inv.rM, frac_pos_iff _ _ hM] at this; exact this
      have hn : nM ≠ 0 := by omega
      have inv' : Inv nS nM nB { st with iM := st.iM + 1, rM := frac nM (st.iM + 1) } :=
        ⟨hS, hlt, hB, inv.rS, rfl, inv.rB⟩
      obtain ⟨cs, hcs, hl, c1, c2, c3⟩ := ih _ inv' (by simp only; omega)
      refine ⟨.med :: cs, ?_, by simp [hl], ?_, ?_, ?_⟩
      · simp only [ratio_eq nM _ hn, hcs, bind, Except.bind, pure, Except.pure, List.map_cons, valOf]
      · simpa using c1
      · simp only [List.count_cons_self, c2]; omega
      · simpa using c3
    | big =>
      rw [hc] at hch
      have hlt : st.iB < nB := by
        have : 0 < st.rB := hch
        rw [inv.rB, frac_pos_iff _ _ hB] at this; exact this
      have hn : nB ≠ 0 := by omega
      have inv' : Inv nS nM nB { st with iB := st.iB + 1, rB := frac nB (st.iB + 1) } :=
        ⟨hS, hM, hlt, inv.rS, inv.rM, rfl⟩
      obtain ⟨cs, hcs, hl, c1, c2, c3⟩ := ih _ inv' (by simp only; omega)
      refine ⟨.big :: cs, ?_, by simp [hl], ?_, ?_, ?_⟩
      · simp only [ratio_eq nB _ hn, hcs, bind, Except.bind, pure, Except.pure, List.map_cons, valOf]
      · simpa using c1
      · simpa using c2
      · simp only [List.count_cons_self, c3]; omega

/-- `interleave_values` on non-negative counts, not all zero, never raises (in particular never
divides by zero) and places exactly `n_small` / `n_med` / `n_big` positions of each class -/
theorem interleave_classes (nS nM nB : Nat) (hpos : 0 < nS + nM + nB) (small med big : Rat) :
    ∃ cs : List Cls,
      interleaveValues (nS : Int) (nM : Int) (nB : Int) small med big = .ok (cs.map (valOf small med big)) ∧
      cs.length = nS + nM + nB ∧ cs.count .small = nS ∧ cs.count .med = nM ∧ cs.count .big = nB := by
  have hN : ¬ ((nS : Int) + (nM : Int) + (nB : Int) < 0) := by omega
  have hN0 : ¬ ((nS : Int) + (nM : Int) + (nB : Int) = 0) := by omega
  have hk : ((nS : Int) + (nM : Int) + (nB : Int)).toNat - 1 = nS + nM + nB - 1 := by omega
  unfold interleaveValues
  simp only [hN, hN0, ↓reduceIte, hk]
  by_cases hS : nS = 0
  · have c1 : ¬ ((nS : Int) ≠ 0) := by simp [hS]
    by_cases hM : nM = 0
    · -- only big values
      have hB : nB ≠ 0 := by omega
      have c2 : ¬ ((nM : Int) ≠ 0) := by simp [hM]
      simp only [if_neg c1, if_neg c2]
      have inv : Inv nS nM nB ⟨0, 0, 1, 0, 0, frac nB 1⟩ :=
        ⟨Nat.zero_le _, Nat.zero_le _, Nat.pos_of_ne_zero hB, by simp [frac, hS], by simp [frac, hM], rfl⟩
      obtain ⟨cs, hcs, hl, k1, k2, k3⟩ := ivLoop_spec nS nM nB small med big (nS + nM + nB - 1) _ inv
        (by show 0 + 0 + 1 + (nS + nM + nB - 1) = nS + nM + nB; omega)
      refine ⟨.big :: cs, ?_, by simp [hl]; omega, ?_, ?_, ?_⟩
      · simp only [ratio_eq nB _ hB, hcs, bind, Except.bind, pure, Except.pure, List.map_cons, valOf]
      · simpa using k1
      · simpa using k2
      · simp only [List.count_cons_self, k3]; show nB - 1 + 1 = nB; omega
    · have c2 : ((nM : Int) ≠ 0) := by exact_mod_cast hM
      simp only [if_neg c1, if_pos c2]
      have inv : Inv nS nM nB ⟨0, 1, 0, 0, frac nM 1, (if (nB : Int) ≠ 0 then 1 else 0)⟩ :=
        ⟨Nat.zero_le _, Nat.pos_of_ne_zero hM, Nat.zero_le _, by simp [frac, hS], rfl, (frac_zero nB).symm⟩
      obtain ⟨cs, hcs, hl, k1, k2, k3⟩ := ivLoop_spec nS nM nB small med big (nS + nM + nB - 1) _ inv
        (by show 0 + 1 + 0 + (nS + nM + nB - 1) = nS + nM + nB; omega)
      refine ⟨.med :: cs, ?_, by simp [hl]; omega, ?_, ?_, ?_⟩
      · simp only [ratio_eq nM _ hM, hcs, bind, Except.bind, pure, Except.pure, List.map_cons, valOf]
      · simpa using k1
      · simp only [List.count_cons_self, k2]; show nM - 1 + 1 = nM; omega
      · simpa using k3
  · have c1 : ((nS : Int) ≠ 0) := by exact_mod_cast hS
    simp only [if_pos c1]
    have inv : Inv nS nM nB ⟨1, 0, 0, frac nS 1, (if (nM : Int) ≠ 0 then 1 else 0),
        (if (nB : Int) ≠ 0 then 1 else 0)⟩ :=
      ⟨Nat.pos_of_ne_zero hS, Nat.zero_le _, Nat.zero_le _, rfl, (frac_zero nM).symm, (frac_zero nB).symm⟩
    obtain ⟨cs, hcs, hl, k1, k2, k3⟩ := ivLoop_spec nS nM nB small med big (nS + nM + nB - 1) _ inv
      (by show 1 + 0 + 0 + (nS + nM + nB - 1) = nS + nM + nB; omega)
    refine ⟨.small :: cs, ?_, by simp [hl]; omega, ?_, ?_, ?_⟩
    · simp only [ratio_eq nS _ hS, hcs, bind, Except.bind, pure, Except.pure, List.map_cons, valOf]
    · simp only [List.count_cons_self, k1]; show nS - 1 + 1 = nS; omega
    · simpa using k2
    · simpa using k3

theorem count_map_valOf (small med big : Rat) (hsm : small ≠ med) (hsb : small ≠ big) (hmb : med ≠ big)
    (cs : List Cls) (c : Cls) :
    (cs.map (valOf small med big)).count (valOf small med big c) = cs.count c := by
  induction cs with
  | nil => rfl
  | cons d cs ih =>
    rw [List.map_cons, List.count_cons, List.count_cons, ih]
    cases c <;> cases d <;> simp [valOf, hsm, hsb, hmb, Ne.symm hsm, Ne.symm hsb, Ne.symm hmb]

/-- **interleave_counts**: for all `n_small, n_med, n_big ≥ 0`, not all zero, and pairwise distinct
values, `interleave_values` returns `n_small + n_med + n_big` values of which exactly `n_small` equal
`small`, `n_med` equal `med` and `n_big` equal `big`. -/
theorem interleave_counts (nS nM nB : Nat) (hpos : 0 < nS + nM + nB) (small med big : Rat)
    (hsm : small ≠ med) (hsb : small ≠ big) (hmb : med ≠ big) :
    ∃ x, interleaveValues (nS : Int) (nM : Int) (nB : Int) small med big = .ok x ∧
      x.length = nS + nM + nB ∧ x.count small = nS ∧ x.count med = nM ∧ x.count big = nB := by
  obtain ⟨cs, hx, hl, k1, k2, k3⟩ := interleave_classes nS nM nB hpos small med big
  refine ⟨_, hx, by simp [hl], ?_, ?_, ?_⟩
  · have := count_map_valOf small med big hsm hsb hmb cs .small
    simpa [valOf, k1] using this
  · have := count_map_valOf small med big hsm hsb hmb cs .med
    simpa [valOf, k2] using this
  · have := count_map_valOf small med big hsm hsb hmb cs .big
    simpa [valOf, k3] using this

/-- the excluded input: all counts zero raises IndexError (`x[0] = big` on an empty array) -/
theorem interleave_all_zero (small med big : Rat) :
    interleaveValues 0 0 0 small med big = .error (.nm .index) := by
  simp [interleaveValues]

/-- non-vacuity / the repository's own test (`test_interleave_values`): 5 zeros, 3 halves, 6 ones -/
example : interleaveValues 5 3 6 0 (1/2) 1 = .ok [0, 1, 1/2, 1, 0, 1, 1/2, 0, 1, 0, 1, 1/2, 0, 1] := by
  decide +kernel

/-- `n_big = 0` (finding F14: used to divide by zero) -/
example : interleaveValues 3 2 0 0 (1/2) 1 = .ok [0, 1/2, 0, 1/2, 0] := by decide +kernel

/-! ### non-vacuity of sections 2 and 4 on concrete assertions -/

/-- an assertion of a 12-card contest: ALPHA with fixed alternative, tally A=7, B=3 (2 other cards) -/
def exA (ty : AuditType) (u eta : Rat) : Assertion :=
  { auditType := ty, irv := false, tally := some [("A", 7), ("B", 3)], winner := "A", loser := "B",
    upperBound := 1, margin := some (1/3), riskLimit := 1/4,
    cfg := Cfg.init false false u (some 12) (1/2) true { eta := some eta }, test := .alpha .fixedAlt }

/-- comparison: `rate_1 = 1/3` (every 3rd card a one-vote overstatement), `rate_2 = 1/5` (every 5th a
two-vote overstatement, written last): `small = 3/10`, `big = 3/5` -/
example : assumedPopulation (exA .cardComparison (6/5) (11/10)) (1/3) (some (1/3)) (some (1/5)) =
    .ok [0, 3/5, 3/5, 3/10, 3/5, 0, 3/10, 3/5, 3/5, 3/10, 0, 3/5] := by decide +kernel

example : marks (some (1/5)) 10 = true ∧ marks (some (1/3)) 10 = false ∧ marks (some (1/3)) 9 = true ∧
    marks (some 0) 0 = false ∧ marks none 0 = false := by decide +kernel

/-- polling: 3 zeros (loser), 2 halves, 7 ones (winner), interleaved -/
example : assumedPopulation (exA .polling 1 (3/4)) (1/3) none none =
    interleaveValues 3 2 7 0 (1/2) 1 := by decide +kernel

/-- the estimates: comparison 12 (never crosses 1/4), polling 9; the contest made of both reports 12 -/
example : assertionFindSampleSize sqrtRat (exA .polling 1 (3/4)) none false none none none (1/2) = .ok 9 := by
  decide +kernel

example : contestFindSampleSize sqrtRat .polling false
    [{ a := exA .polling 1 (3/4) }, { a := exA .cardComparison (6/5) (11/10) }] (some (1/3)) (some (1/5)) (1/2)
    = .ok 12 := by decide +kernel

/-- with the second assertion already proved, the audit-level maximum ignores it -/
example : auditContestNewSize sqrtRat .polling false
    [{ a := exA .polling 1 (3/4) }, { a := exA .cardComparison (6/5) (11/10), proved := true }]
    (some (1/3)) (some (1/5)) (1/2) = .ok 9 := by decide +kernel

/-- two contests in one call: the tight comparison contest first (12), the polling contest second (9):
the second keeps its own value 9 (a running maximum would report 12), and swapping the order swaps the
results -/
example : auditFindSampleSizes sqrtRat false
    [{ ctype := .cardComparison, items := [{ a := exA .cardComparison (6/5) (11/10) }] },
     { ctype := .polling, items := [{ a := exA .polling 1 (3/4) }] }] (some (1/3)) (some (1/5)) (1/2)
    = .ok [12, 9] := by decide +kernel

example : auditFindSampleSizes sqrtRat false
    [{ ctype := .polling, items := [{ a := exA .polling 1 (3/4) }] },
     { ctype := .cardComparison, items := [{ a := exA .cardComparison (6/5) (11/10) }] }] (some (1/3)) (some (1/5)) (1/2)
    = .ok [9, 12] := by decide +kernel

/-- ONEAudit error injection: every 2nd value a one-vote overstatement (`3/10`), then every 4th a two-vote
overstatement (`overs = 1` gives 0 for upper bound 1) -/
example : oneauditInject [3/5, 3/5, 3/5, 3/5, 3/5, 3/5] (some (1/2)) (some (1/4)) 1 (some (1/3)) =
    .ok [0, 3/5, 3/10, 3/5, 0, 3/5] := by decide +kernel

end Shangrla.C16
