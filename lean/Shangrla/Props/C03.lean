/-
  C03 — comparison audits test the right null hypothesis (overstatement reduction).

  Theorems are about `Shangrla.Overstatement.*` (Model/Overstatement.lean), the literal model of
  `Assorter.set_tally_pool_means`, `Assorter.mean`, `Assertion.set_margin_from_cvrs`, `Assorter.overstatement`,
  `Assertion.overstatement_assorter` and `Assertion.mvrs_to_data` that the driver executes.  The raw assorter is a
  parameter: `c.a = A(cvr)`, `m.a = A(mvr)` are arbitrary rationals (assumed in `[0,u]` where that is needed).

  "Cards under audit": the CVRs passing the style filter (`has_contest` under style-based sampling, all
  cards otherwise); the margin, the pool means and `mvrs_to_data(use_all=True)` all use this same filter.
-/
import Shangrla.Lemmas.Overstatement

namespace Shangrla.C03
open Shangrla Shangrla.Overstatement

/-- the cards under audit -/
def aud (useStyle : Bool) (cvrs : List Cvr) : List Cvr := cvrs.filter (passes useStyle)

/-- the (MVR, CVR) pairs under audit, in order -/
def audPairs (useStyle : Bool) (mvrs : List Mvr) (cvrs : List Cvr) : List (Mvr × Cvr) :=
  (mvrs.zip cvrs).filter (fun p => passes useStyle p.2)

/-- `A` applied to the manual records of the cards under audit, with an unfindable (phantom) card counted as 0
and, under style-based sampling, a manual record lacking the contest counted as 0 (`mvrAssort`) -/
def mvrA (useStyle : Bool) (mvrs : List Mvr) (cvrs : List Cvr) : List Rat :=
  (audPairs useStyle mvrs cvrs).map (fun p => mvrAssort useStyle p.1)

/-- What the code scores a CVR under audit: its pool's mean when the card is pooled and means are installed
(the mean of `A` over exactly the pooled cards of that pool passing the same filter), else 1/2 for a phantom
and `A(cvr)` otherwise. -/
def score (useStyle : Bool) (cvrs : List Cvr) (means : Option Means) (c : Cvr) : Rat :=
  if usesPool means c then
    tot (pooledAud useStyle cvrs) c.tallyPool / (cnt (pooledAud useStyle cvrs) c.tallyPool : Rat)
  else ownScore c

/-- `A'`: 1/2 for a phantom CVR that is not scored through a pool, `A(cvr)` otherwise.
NOTE (kept visible): a POOLED phantom CVR contributes its own value `A(cvr)` — whatever the assorter returns
for the phantom record, not the constant 1/2 — to its pool's total (`set_tally_pool_means` L2512-2513 calls
`self.assort(c)` without looking at `c.phantom`), and is itself scored by that pool's mean. -/
def Aprime (means : Option Means) (c : Cvr) : Rat :=
  if c.phantom && !usesPool means c then 1 / 2 else c.a

/-! ### the score the model gives to each CVR under audit -/

theorem cvrAssort_score {useStyle : Bool} {cvrs : List Cvr} {means : Option Means}
    (hm : MeansFrom useStyle cvrs means) (c : Cvr) (hc : c ∈ aud useStyle cvrs) :
    cvrAssort means c = .ok (XR.fin (score useStyle cvrs means c)) := by
  obtain ⟨hcm, hcp⟩ := List.mem_filter.mp hc
  unfold score
  cases hup : usesPool means c
  · simpa using cvrAssort_own means c hup
  · cases hm with
    | unset => simp [usesPool] at hup
    | set keys d hd =>
      have hpool : c.pool = true := by
        unfold usesPool at hup
        simpa using hup
      obtain ⟨_, hl⟩ := poolMeans_lookup hd c hcm hcp hpool
      simpa using cvrAssort_pool d c hpool _ hl

/-- **C03, first lemma.**  Over the cards under audit the CVR scores used by the overstatement add up to
`Σ A'(C_i)`: pooled cards contribute their pool mean, and the pool means sum back to the pool totals because
each mean is over exactly the pooled cards that pass the same filter. -/
theorem cvr_assort_sum {useStyle : Bool} {cvrs : List Cvr} {means : Option Means}
    (hm : MeansFrom useStyle cvrs means) :
    ∃ s : Cvr → Rat,
      (∀ c ∈ aud useStyle cvrs, cvrAssort means c = .ok (XR.fin (s c))) ∧
      ((aud useStyle cvrs).map s).sum = ((aud useStyle cvrs).map (Aprime means)).sum := by
  refine ⟨score useStyle cvrs means, fun c hc => cvrAssort_score hm c hc, ?_⟩
  rw [sum_filter_split (usesPool means) (score useStyle cvrs means),
      sum_filter_split (usesPool means) (Aprime means)]
  congr 1
  · -- pooled cards
    cases hm with
    | unset =>
      have : usesPool (none : Option Means) = fun _ => false := by funext c; simp [usesPool]
      rw [this]; simp
    | set keys d hd =>
      have hL : (aud useStyle cvrs).filter (usesPool (some d)) = pooledAud useStyle cvrs := by
        unfold aud pooledAud usesPool
        rw [List.filter_filter]
        apply List.filter_congr
        intro x _
        simp [Bool.and_comm]
      rw [hL]
      set L := pooledAud useStyle cvrs with hLdef
      have h1 : (L.map (score useStyle cvrs (some d))).sum
          = (L.map (fun c => tot L c.tallyPool / (cnt L c.tallyPool : Rat))).sum := by
        apply sum_map_congr
        intro c hc
        have : c.pool = true := by
          have := (List.mem_filter.mp hc).2
          simp only [Bool.and_eq_true] at this
          exact this.2
        simp [score, usesPool, this, hLdef]
      have h2 : (L.map (Aprime (some d))).sum = (L.map (fun c => c.a)).sum := by
        apply sum_map_congr
        intro c hc
        have : c.pool = true := by
          have := (List.mem_filter.mp hc).2
          simp only [Bool.and_eq_true] at this
          exact this.2
        simp [Aprime, usesPool, this]
      rw [h1, h2]
      apply group_sum (fun c : Cvr => c.tallyPool) (fun c => c.a) (fun p => tot L p / (cnt L p : Rat)) L.length L
        (Nat.le_refl _)
      intro c hc
      have hpos : 1 ≤ cnt L c.tallyPool := by
        unfold cnt
        exact List.length_pos_of_mem (List.mem_filter.mpr ⟨hc, by simp⟩)
      have hne : (cnt L c.tallyPool : Rat) ≠ 0 := by
        have : (0 : Rat) < (cnt L c.tallyPool : Rat) := by exact_mod_cast hpos
        exact ne_of_gt this
      show (cnt L c.tallyPool : Rat) * (tot L c.tallyPool / (cnt L c.tallyPool : Rat)) = tot L c.tallyPool
      field_simp
  · -- cards not scored through a pool
    apply sum_map_congr
    intro c hc
    have hup : usesPool means c = false := by
      have := (List.mem_filter.mp hc).2
      simpa using this
    unfold score Aprime ownScore
    cases hph : c.phantom <;> simp [hup]

/-! ### the sample handed to the test by `mvrs_to_data(use_all=True)` on the whole population -/

theorem contributes_all (useStyle : Bool) (threshold : Option Nat) (c : Cvr) :
    contributes useStyle true threshold c = .ok (passes useStyle c) := by
  unfold contributes passes
  cases useStyle <;> cases c.hasContest <;> simp

theorem audPairs_snd (useStyle : Bool) (mvrs : List Mvr) (cvrs : List Cvr) (hlen : mvrs.length = cvrs.length) :
    (audPairs useStyle mvrs cvrs).map Prod.snd = aud useStyle cvrs := by
  unfold audPairs aud
  have : (fun p : Mvr × Cvr => passes useStyle p.2) = (passes useStyle) ∘ Prod.snd := rfl
  rw [this, ← List.filter_map, List.map_snd_zip (by omega)]

theorem sum_ovA {α : Type} (v u : Rat) (f g : α → Rat) (l : List α) :
    (l.map (fun p => ovA v u (f p) (g p))).sum
      = ((l.length : Rat) - ((l.map f).sum - (l.map g).sum) / u) / (2 - v / u) := by
  induction l with
  | nil => simp
  | cons a l ih =>
    simp only [List.map_cons, List.sum_cons, List.length_cons]
    rw [ih]
    unfold ovA
    push_cast
    ring

theorem passes_not_error (useStyle : Bool) (c : Cvr) (h : passes useStyle c = true) :
    (useStyle && !c.hasContest) = false := by
  unfold passes at h
  cases useStyle <;> cases hc : c.hasContest <;> simp_all

/-- **C03.**  For every CVR list (phantoms, pooled or not, any pool labelling, any subset of cards pooled),
every list of manual records for the same cards (any discrepancies, missing contests, any subset unfindable),
style on or off, card comparison and ONEAudit alike, with the margin `v = 2·mean A(cvr) − 1`
(`set_margin_from_cvrs`) and the pool means (`set_tally_pool_means`) computed by the model from those CVRs
under the same filter:
the overstatement-assorter values `B` that `mvrs_to_data(use_all=True)` returns for the whole population
— one per card under audit — satisfy `mean B − 1/2 = (2·mean A' − 1) / (2·(2u − v))`, where `A'` is the
assorter applied to the manual records with a phantom counted 0 and, under style, a record lacking the contest
counted 0.  Hypothesis `hph`: a phantom CVR *outside* a pool has `A = 1/2` (it is a non-vote for every shipped
assorter once `make_phantoms` has listed the contest on it with no votes); a pooled phantom needs no hypothesis. -/
theorem overstatement_identity (ty : AuditType) (hty : ty = .cardComparison ∨ ty = .oneaudit)
    (useStyle : Bool) (u : Rat) (cvrs : List Cvr) (mvrs : List Mvr) (means : Option Means)
    (threshold : Option Nat)
    (hm : MeansFrom useStyle cvrs means)
    (hlen : mvrs.length = cvrs.length) (hu : 0 < u)
    (ha : ∀ c ∈ cvrs, c.a ≤ u)
    (hne : aud useStyle cvrs ≠ [])
    (hph : ∀ c ∈ aud useStyle cvrs, c.phantom = true → usesPool means c = false → c.a = 1 / 2) :
    ∃ (v : Rat) (B : List Rat),
      setMarginFromCvrs 1 useStyle ty u cvrs = .ok (XR.fin v, XR.fin (2 / (2 - v / u))) ∧
      mvrsToData ty useStyle true threshold (XR.fin v) u means mvrs cvrs
        = .ok (B.map XR.fin, XR.fin (2 / (2 - v / u))) ∧
      B.length = (aud useStyle cvrs).length ∧
      (mvrA useStyle mvrs cvrs).length = (aud useStyle cvrs).length ∧
      0 < 2 * u - v ∧
      B.sum / (B.length : Rat) - 1 / 2
        = (2 * ((mvrA useStyle mvrs cvrs).sum / ((mvrA useStyle mvrs cvrs).length : Rat)) - 1) / (2 * (2 * u - v)) := by
  -- the margin
  set A := aud useStyle cvrs with hA
  set n : Rat := (A.length : Rat) with hn
  have hnpos : 0 < n := by
    have : 0 < A.length := List.length_pos_iff.mpr hne
    rw [hn]; exact_mod_cast this
  set Sa : Rat := (A.map (fun c => c.a)).sum with hSa
  set v : Rat := 2 * (Sa / n) - 1 with hv
  have hmargin : marginFromCvrs useStyle cvrs = XR.fin v := by
    unfold marginFromCvrs meanA
    have hemp : ((cvrs.filter (passes useStyle)).map (fun c => c.a)).isEmpty = false := by
      have h0 : cvrs.filter (passes useStyle) ≠ [] := hne
      cases h : cvrs.filter (passes useStyle) with
      | nil => exact absurd h h0
      | cons => rfl
    simp only [hemp, Bool.false_eq_true, if_false]
    rw [two_eq, one_eq, fin_mul, fin_sub]
    simp [hv, hSa, hn, hA, aud]
  have hSa_le : Sa ≤ n * u := by
    have := sum_le_length_mul u (A.map (fun c => c.a)) (by
      intro x hx
      obtain ⟨c, hc, rfl⟩ := List.mem_map.mp hx
      exact ha c (List.mem_filter.mp hc).1)
    simpa [hSa, hn] using this
  have hmean_le : Sa / n ≤ u := by
    rw [div_le_iff₀ hnpos]; linarith
  have h2uv : 0 < 2 * u - v := by rw [hv]; linarith
  have hune : u ≠ 0 := ne_of_gt hu
  have hden : 2 - v / u ≠ 0 := by
    have : 2 - v / u = (2 * u - v) / u := by field_simp
    rw [this]
    exact ne_of_gt (div_pos h2uv hu)
  have hU : (2 : XR) / (2 - XR.fin v / XR.fin u) = XR.fin (2 / (2 - v / u)) := by
    rw [two_eq, fin_div _ _ hune, fin_sub, fin_div _ _ hden]
  -- the data
  set P := audPairs useStyle mvrs cvrs with hP
  set B : List Rat := P.map (fun p => ovA v u (score useStyle cvrs means p.2) (mvrAssort useStyle p.1)) with hB
  have hPsnd : P.map Prod.snd = A := audPairs_snd useStyle mvrs cvrs hlen
  have hPlen : P.length = A.length := by rw [← hPsnd, List.length_map]
  have hcomp : compData (XR.fin v) u useStyle true threshold means mvrs cvrs = .ok (B.map XR.fin) := by
    rw [compData_eq_mapM (XR.fin v) u useStyle true threshold means (passes useStyle) mvrs cvrs (by omega)
      (fun p _ => contributes_all useStyle threshold p.2)]
    rw [hB, List.map_map]
    apply mapM_ok
    intro p hp
    have hp2 : p.2 ∈ A := by
      rw [← hPsnd]; exact List.mem_map_of_mem (f := Prod.snd) hp
    have hpass : passes useStyle p.2 = true := (List.mem_filter.mp hp2).2
    exact overstatementAssorter_fin hune hden (passes_not_error useStyle p.2 hpass) (cvrAssort_score hm p.2 hp2)
  refine ⟨v, B, ?_, ?_, ?_, ?_, h2uv, ?_⟩
  · unfold setMarginFromCvrs
    rcases hty with rfl | rfl <;> simp [testUFor, hmargin, hU, bind, Except.bind, pure, Except.pure]
  · unfold mvrsToData
    rcases hty with rfl | rfl <;> simp [hcomp, hU, bind, Except.bind, pure, Except.pure]
  · rw [hB, List.length_map, hPlen]
  · unfold mvrA; rw [List.length_map, ← hP, hPlen]
  · -- the algebra
    have hBlen : (B.length : Rat) = n := by rw [hB, List.length_map, hPlen]
    have hMlen : ((mvrA useStyle mvrs cvrs).length : Rat) = n := by
      unfold mvrA; rw [List.length_map, ← hP, hPlen]
    have hscore : (P.map (fun p => score useStyle cvrs means p.2)).sum = Sa := by
      have e1 : (P.map (fun p => score useStyle cvrs means p.2)).sum = (A.map (score useStyle cvrs means)).sum := by
        rw [← hPsnd, List.map_map]; rfl
      obtain ⟨s, hs1, hs2⟩ := cvr_assort_sum hm
      have e2 : (A.map (score useStyle cvrs means)).sum = (A.map s).sum := by
        apply sum_map_congr
        intro c hc
        have h1 := hs1 c hc
        rw [cvrAssort_score hm c hc] at h1
        simpa using h1
      have e3 : (A.map (Aprime means)).sum = Sa := by
        rw [hSa]
        apply sum_map_congr
        intro c hc
        unfold Aprime
        cases hph' : c.phantom
        · simp
        · cases hup : usesPool means c
          · simp [hph c hc hph' hup]
          · simp
      rw [e1, e2, hs2, e3]
    have hsumB : B.sum = (n - (Sa - (mvrA useStyle mvrs cvrs).sum) / u) / (2 - v / u) := by
      rw [hB, sum_ovA v u (fun p => score useStyle cvrs means p.2) (fun p => mvrAssort useStyle p.1) P, hscore]
      unfold mvrA
      rw [← hP, hPlen]
    rw [hBlen, hMlen, hsumB]
    have hnne : n ≠ 0 := ne_of_gt hnpos
    have h2ne : 2 * u - v ≠ 0 := ne_of_gt h2uv
    have hSa' : Sa = (v + 1) * n / 2 := by
      rw [hv]; field_simp; ring
    rw [hSa']
    have : 2 - v / u = (2 * u - v) / u := by field_simp
    rw [this]
    field_simp
    ring

/-- **C03, corollary.**  Under the hypotheses of `overstatement_identity`: the mean of the overstatement
assorter is at most 1/2 exactly when the mean of the assorter over the manual records is at most 1/2.  So
rejecting "mean(B) ≤ 1/2" is rejecting "the assertion is false". -/
theorem reject_equiv (ty : AuditType) (hty : ty = .cardComparison ∨ ty = .oneaudit)
    (useStyle : Bool) (u : Rat) (cvrs : List Cvr) (mvrs : List Mvr) (means : Option Means)
    (threshold : Option Nat)
    (hm : MeansFrom useStyle cvrs means)
    (hlen : mvrs.length = cvrs.length) (hu : 0 < u)
    (ha : ∀ c ∈ cvrs, c.a ≤ u)
    (hne : aud useStyle cvrs ≠ [])
    (hph : ∀ c ∈ aud useStyle cvrs, c.phantom = true → usesPool means c = false → c.a = 1 / 2) :
    ∃ (v : Rat) (B : List Rat),
      marginFromCvrs useStyle cvrs = XR.fin v ∧
      mvrsToData ty useStyle true threshold (XR.fin v) u means mvrs cvrs
        = .ok (B.map XR.fin, XR.fin (2 / (2 - v / u))) ∧
      (B.sum / (B.length : Rat) ≤ 1 / 2
        ↔ (mvrA useStyle mvrs cvrs).sum / ((mvrA useStyle mvrs cvrs).length : Rat) ≤ 1 / 2) := by
  obtain ⟨v, B, h1, h2, _, _, h5, h6⟩ :=
    overstatement_identity ty hty useStyle u cvrs mvrs means threshold hm hlen hu ha hne hph
  refine ⟨v, B, ?_, h2, ?_⟩
  · unfold setMarginFromCvrs at h1
    rcases hty with rfl | rfl <;>
      simp [testUFor, bind, Except.bind, pure, Except.pure] at h1 <;> exact h1.1
  · have hD : 0 < 2 * (2 * u - v) := by linarith
    constructor
    · intro h
      have : (2 * ((mvrA useStyle mvrs cvrs).sum / ((mvrA useStyle mvrs cvrs).length : Rat)) - 1)
          / (2 * (2 * u - v)) ≤ 0 := by rw [← h6]; linarith
      rw [div_le_iff₀ hD, zero_mul] at this
      linarith
    · intro h
      have : (2 * ((mvrA useStyle mvrs cvrs).sum / ((mvrA useStyle mvrs cvrs).length : Rat)) - 1)
          / (2 * (2 * u - v)) ≤ 0 := by
        rw [div_le_iff₀ hD, zero_mul]; linarith
      rw [← h6] at this
      linarith

/-! ### Non-vacuity: a concrete population satisfying every hypothesis, and the identity on it

Style on, five cards: a pooled card (A = 1), a pooled phantom (A = 1/2), an unpooled card (A = 0), a pooled card
that does not list the contest (not under audit), an unpooled phantom (A = 1/2).  Manual records: a
discrepancy, an unfindable card, a record lacking the contest, (unused), a vote for the winner. -/

def exCvrs : List Cvr :=
  [ { hasContest := true,  phantom := false, pool := true,  tallyPool := some "p1", a := 1,     sampleNum := 3 },
    { hasContest := true,  phantom := true,  pool := true,  tallyPool := some "p1", a := 1 / 2, sampleNum := 1 },
    { hasContest := true,  phantom := false, pool := false, tallyPool := none,      a := 0,     sampleNum := 4 },
    { hasContest := false, phantom := false, pool := true,  tallyPool := some "p1", a := 1 / 2, sampleNum := 2 },
    { hasContest := true,  phantom := true,  pool := false, tallyPool := none,      a := 1 / 2, sampleNum := 5 } ]

def exMvrs : List Mvr :=
  [ { hasContest := true,  phantom := false, a := 0 },
    { hasContest := false, phantom := true,  a := 1 / 2 },
    { hasContest := false, phantom := false, a := 1 / 2 },
    { hasContest := false, phantom := false, a := 1 / 2 },
    { hasContest := true,  phantom := false, a := 1 } ]

/-- the pool mean is over the two pooled cards that list the contest: (1 + 1/2)/2 -/
def exMeans : Means := [(some "p1", XR.fin (3 / 4))]

example : MeansFrom true exCvrs (some exMeans) := MeansFrom.set none exMeans (by decide +kernel)
example : exMvrs.length = exCvrs.length := rfl
example : ∀ c ∈ exCvrs, c.a ≤ 1 := by decide +kernel
example : aud true exCvrs ≠ [] := by decide +kernel
example : ∀ c ∈ aud true exCvrs, c.phantom = true → usesPool (some exMeans) c = false → c.a = 1 / 2 := by
  decide +kernel
-- margin 0; B = [1/8, 1/8, 1/2, 3/4]: mean B - 1/2 = -1/8 = (2 * (1/4) - 1) / (2 * (2 - 0))
example : setMarginFromCvrs 1 true .oneaudit 1 exCvrs = .ok (XR.fin 0, XR.fin 1) := by decide +kernel
example : mvrsToData .oneaudit true true none (XR.fin 0) 1 (some exMeans) exMvrs exCvrs
    = .ok ([1 / 8, 1 / 8, 1 / 2, 3 / 4].map XR.fin, XR.fin 1) := by decide +kernel
example : mvrA true exMvrs exCvrs = [0, 0, 0, 1] := by decide +kernel

/-- The hypothesis `hph` is not superfluous: a hand-made phantom CVR that carries a vote (`A = 1`) outside a
pool enters the margin with 1 but the overstatement with 1/2; here `v = 1`, `mean A' = 1/2`, so the right-hand
side is 0 while `mean B − 1/2 = 1/4`. -/
example :
    let cvrs : List Cvr := [ { hasContest := true, phantom := false, pool := false, tallyPool := none, a := 1, sampleNum := 1 },
                             { hasContest := true, phantom := true,  pool := false, tallyPool := none, a := 1, sampleNum := 2 } ]
    let mvrs : List Mvr := [ { hasContest := true, phantom := false, a := 1 }, { hasContest := false, phantom := true, a := 1 / 2 } ]
    marginFromCvrs true cvrs = XR.fin 1 ∧
    mvrsToData .cardComparison true true none (XR.fin 1) 1 none mvrs cvrs = .ok ([1, 1 / 2].map XR.fin, XR.fin 2) ∧
    mvrA true mvrs cvrs = [1, 0] := by decide +kernel

end Shangrla.C03
