/-
C01 — non-vacuity: the event bounded by the C01 theorems actually happens.

For a concrete boundary-null population (mean exactly `t`) and a concrete null law, the exact probability
that some reported p-value is at most `alpha = 3/5` is computed by the kernel (`decide +kernel`, no axioms):
it is strictly positive (the theorems do not bound an impossible event) and at most `alpha` (as they say).
These are tests of the definitions, not the unbounded claim — that is `C01_finite_*` / `C01_iid_*`.
-/
import Shangrla.Props.C01Any

namespace Shangrla.C01.NonVac
open Shangrla Shangrla.NM Shangrla.C01 Shangrla.Ville

def cfgA : Cfg := { N := some 4, u := 1, t := 1/2, randomOrder := true, kw := { eta := some (3/4) } }
def cfgB : Cfg := { N := some 4, u := 1, t := 1/2, randomOrder := true, kw := { lam := some (3/4) } }
def cfgK : Cfg := { N := some 4, u := 1, t := 1/2, randomOrder := true, kw := { g := some (1/10) } }
def cfgI : Cfg := { N := none, u := 1, t := 1/2, randomOrder := true, kw := {} }

/-- ALPHA, fixed alternative 3/4, population `1, 0, 1/2, 1/2` (mean = t): risk at level 3/5 is 5/12 -/
theorem alpha_risk_exact :
    hitEv (reportedAny cfgA (fixedAlternativeMean cfgA) (3/5)) 4 [1, 0, 1/2, 1/2] [] = 5/12 := by decide +kernel

/-- betting martingale, fixed bet 3/4: risk 1/12 -/
theorem betting_risk_exact :
    hitEv (reportedAnyB cfgB (fixedBet cfgB) (3/5)) 4 [1, 0, 1/2, 1/2] [] = 1/12 := by decide +kernel

/-- Kaplan-Kolmogorov, g = 1/10: risk 1/2 -/
theorem kk_risk_exact :
    hitEv (reportedAnyKK cfgK (3/5)) 4 [1, 0, 1/2, 1/2] [] = 1/2 := by decide +kernel

/-- Wald SPRT, alternative 3/4: risk 5/12 -/
theorem sprt_risk_exact :
    hitEv (reportedAnySprt cfgA (3/5)) 4 [1, 0, 1/2, 1/2] [] = 5/12 := by decide +kernel

/-- Kaplan-Markov, IID from the null law `P(0)=1/2, P(1/2)=1/4, P(1)=1/4` (mean 3/8 ≤ t), three draws: 21/64 -/
theorem km_risk_exact :
    hitIID [(0, 1/2), (1/2, 1/4), (1, 1/4)] (reportedAnyKM cfgI (3/5)) 3 [] = 21/64 := by decide +kernel

/-- Kaplan-Wald, same law: 21/64 -/
theorem kw_risk_exact :
    hitIID [(0, 1/2), (1/2, 1/4), (1, 1/4)] (reportedAnyKW cfgI (3/5)) 3 [] = 21/64 := by decide +kernel

end Shangrla.C01.NonVac
