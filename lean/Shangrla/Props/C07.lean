/-
  C07 — consistent sampling gives every contest the first cards of its own random order.

  Theorems are about the literal models `Shangrla.Sampling.consistentSampling`, `Rounds.dataCards`
  (= `dataIndices`, the filter of `Assertion.mvrs_to_data`, read back as card indices) and
  `assignSampleNums` that the driver executes.  Helper lemmas: `Shangrla/Lemmas/Sampling.lean`.

  Vocabulary (defined in the lemma file, all executable):
    `sortedPairs cards`            the (card, index) pairs in sample-number order — a permutation of
                                   `cards.zipIdx` (`sortedPairs_perm`), strictly increasing in sample number when
                                   the numbers are distinct (`sortedPairs_strict`); `(cd, i)` occurs iff `cards[i] = cd`
    `cCards S c`                   the cards of `S` that list contest `c`, in the order of `S`
    `firstCards S c n`             the first `n` of them
    `inUnion S contests p`         `p` is among the first `n_c` cards of some contest `c`

  **Votes are irrelevant** is a type-level fact: a `Card` is (which contests it lists, sample number, phantom
  flag); no function of the model has a vote argument.  The correspondence enforces it on the Python side by
  running every case with two different random vote contents.
-/
import Shangrla.Lemmas.Sampling

namespace Shangrla.C07
open Shangrla.Sampling

/-- the quantifier of C07: distinct sample numbers, one contest per id (the contests are a `dict` keyed by id),
and `0 ≤ n_c ≤ #cards listing c` -/
structure Wf (cards : List Card) (contests : List Contest) : Prop where
  nums : DistinctNums cards
  ids : (contests.map (·.id)).Nodup
  sizes : ∀ con ∈ contests, con.sampleSize ≤ (cards.filter (fun cd => cd.has con.id)).length

theorem Wf.sizes' {cards : List Card} {contests : List Contest} (h : Wf cards contests) :
    ∀ con ∈ contests, con.sampleSize ≤ (cCards (sortedPairs cards) con.id).length := by
  intro con hm; rw [cCards_length]; exact h.sizes con hm

/-- the contest as `consistent_sampling` leaves it: only the threshold may have changed -/
def outContest (cards : List Card) (con : Contest) : Contest :=
  { con with sampleThreshold := thrSpec (sortedPairs cards) con.id con.sampleSize con.sampleThreshold }

/-- the union of the per-contest prefixes, in sample-number order -/
def unionSorted (cards : List Card) (contests : List Contest) : List (Card × Nat) :=
  (sortedPairs cards).filter (inUnion (sortedPairs cards) contests)

/-- what a draw from scratch returns, in closed form -/
theorem scratch_eq {cards : List Card} {contests : List Contest} (h : Wf cards contests) :
    consistentSampling cards contests none =
      .ok ((unionSorted cards contests).map (·.2), contests.map (outContest cards),
           (List.range cards.length).map (fun i => ((unionSorted cards contests).map (·.2)).contains i)) := by
  have := consistentSampling_spec cards contests none h.nums h.ids h.sizes' (by simp) (by simp)
  simp only [Option.getD_none] at this
  have hs : selSpec cards contests [] = (unionSorted cards contests).map (·.2) := by
    unfold selSpec unionSorted
    congr 1
    apply List.filter_congr
    intro p _; simp
  rw [hs] at this
  exact this

/-- **C07, selection.** For distinct sample numbers and `0 ≤ n_c ≤ #cards listing c`, the indices returned by a
draw from scratch are the cards of `⋃_c firstCards c n_c`, listed in sample-number order: the list is the
sorted card list filtered by membership in the union, its sample numbers are strictly increasing (so no card
is repeated), and a card is selected iff it is among the first `n_c` cards of some contest `c`. -/
theorem sample_eq_union {cards : List Card} {contests : List Contest} (h : Wf cards contests) :
    ∃ out flags,
      consistentSampling cards contests none = .ok ((unionSorted cards contests).map (·.2), out, flags) ∧
      (unionSorted cards contests).Pairwise (fun a b => a.1.sampleNum < b.1.sampleNum) ∧
      (∀ i, i ∈ (unionSorted cards contests).map (·.2) ↔
        ∃ cd, cards[i]? = some cd ∧
          ∃ con ∈ contests, (cd, i) ∈ firstCards (sortedPairs cards) con.id con.sampleSize) ∧
      flags = (List.range cards.length).map (fun i => ((unionSorted cards contests).map (·.2)).contains i) := by
  refine ⟨_, _, scratch_eq h, ?_, ?_, rfl⟩
  · exact (sortedPairs_strict h.nums).sublist List.filter_sublist
  · intro i
    unfold unionSorted inUnion
    simp only [List.mem_map, List.mem_filter, List.any_eq_true, List.contains_iff_mem]
    constructor
    · rintro ⟨⟨cd, j⟩, ⟨hp, con, hc, hf⟩, rfl⟩
      exact ⟨cd, mem_sortedPairs.1 hp, con, hc, hf⟩
    · rintro ⟨cd, hcd, con, hc, hf⟩
      exact ⟨(cd, i), ⟨mem_sortedPairs.2 hcd, con, hc, hf⟩, rfl⟩

/-- **C07, thresholds.** The contests come back in the same order with only the thresholds changed: for
`n_c ≥ 1` the threshold is the sample number of the `n_c`-th card listing `c` (in sample-number order), for
`n_c = 0` it is left untouched. -/
theorem threshold_eq {cards : List Card} {contests : List Contest} (h : Wf cards contests) :
    ∃ sel flags,
      consistentSampling cards contests none = .ok (sel, contests.map (outContest cards), flags) ∧
      ∀ con ∈ contests,
        (outContest cards con).id = con.id ∧ (outContest cards con).sampleSize = con.sampleSize ∧
        (1 ≤ con.sampleSize → ∃ p, (cCards (sortedPairs cards) con.id)[con.sampleSize - 1]? = some p ∧
            (outContest cards con).sampleThreshold = some p.1.sampleNum) ∧
        (con.sampleSize = 0 → (outContest cards con).sampleThreshold = con.sampleThreshold) := by
  refine ⟨_, _, scratch_eq h, ?_⟩
  intro con hm
  refine ⟨rfl, rfl, ?_, ?_⟩
  · intro h1
    obtain ⟨p, hp, _, ht⟩ := thrSpec_eq h1 (h.sizes' con hm) con.sampleThreshold
    exact ⟨p, hp, ht⟩
  · intro h0
    unfold outContest
    simp only [h0, thrSpec_zero]

/-- **C07, data.** With style information, for every contest with `n_c ≥ 1` the cards of the returned sample
that pass `mvrs_to_data`'s filter (`cvr.has_contest(c) and cvr.sample_num <= sample_threshold`) are exactly the
contest's first `n_c` cards, in sample-number order — whatever else was selected for other contests. -/
theorem contest_data_eq {cards : List Card} {contests : List Contest} (h : Wf cards contests) :
    ∃ sel out flags,
      consistentSampling cards contests none = .ok (sel, out, flags) ∧ out = contests.map (outContest cards) ∧
      ∀ con ∈ contests, 1 ≤ con.sampleSize →
        Rounds.dataCards true cards (outContest cards con) sel =
          .ok ((firstCards (sortedPairs cards) con.id con.sampleSize).map (·.2)) := by
  refine ⟨_, _, _, scratch_eq h, rfl, ?_⟩
  intro con hm h1
  have hs := h.sizes' con hm
  apply dataCards_filter h.nums (inUnion (sortedPairs cards) contests) (outContest cards con) h1 hs
  · intro p hp
    have hp' : p ∈ firstCards (sortedPairs cards) con.id con.sampleSize := hp
    unfold inUnion
    rw [List.any_eq_true]
    exact ⟨con, hm, by simpa using hp'⟩
  · obtain ⟨p', _, hl', _⟩ := thrSpec_eq h1 hs none
    show thrSpec (sortedPairs cards) con.id con.sampleSize con.sampleThreshold
      = thrSpec (sortedPairs cards) con.id con.sampleSize none
    unfold thrSpec
    rw [hl']

/-- **C07, sample numbers.** `assign_sample_nums` gives the `k`-th card of the list the `k`-th output of the
generator and changes nothing else: the numbers are a function of the generator (the seed) and the position
only — not of ids, votes, styles or phantom flags. -/
theorem sample_nums_function_of_seed_and_position (prng : Nat → Nat) (cards : List Card) :
    (assignSampleNums prng cards).map (·.sampleNum) = (List.range cards.length).map prng ∧
    (assignSampleNums prng cards).map (·.styles) = cards.map (·.styles) ∧
    (assignSampleNums prng cards).map (·.phantom) = cards.map (·.phantom) := by
  unfold assignSampleNums
  refine ⟨?_, ?_, ?_⟩
  · rw [List.map_map]
    have : ((fun c : Card => c.sampleNum) ∘ fun p : Card × Nat => { p.1 with sampleNum := prng p.2 })
        = prng ∘ Prod.snd := by funext p; rfl
    rw [this, ← List.map_map, List.zipIdx_map_snd, List.range_eq_range']
  · rw [List.map_map]
    have : ((fun c : Card => c.styles) ∘ fun p : Card × Nat => { p.1 with sampleNum := prng p.2 })
        = (fun c : Card => c.styles) ∘ Prod.fst := by funext p; rfl
    rw [this, ← List.map_map, List.zipIdx_map_fst]
  · rw [List.map_map]
    have : ((fun c : Card => c.phantom) ∘ fun p : Card × Nat => { p.1 with sampleNum := prng p.2 })
        = (fun c : Card => c.phantom) ∘ Prod.fst := by funext p; rfl
    rw [this, ← List.map_map, List.zipIdx_map_fst]

/-- two generators that agree on the first `#cards` outputs (same seed) give the same numbers to any two card
lists of the same length -/
theorem sample_nums_deterministic (prng prng' : Nat → Nat) (cards cards' : List Card)
    (hlen : cards.length = cards'.length) (hp : ∀ k < cards.length, prng k = prng' k) :
    (assignSampleNums prng cards).map (·.sampleNum) = (assignSampleNums prng' cards').map (·.sampleNum) := by
  rw [(sample_nums_function_of_seed_and_position prng cards).1,
      (sample_nums_function_of_seed_and_position prng' cards').1, ← hlen]
  apply List.map_congr_left
  intro k hk
  exact hp k (List.mem_range.1 hk)

/-! ### Non-vacuity: the hypotheses hold on concrete non-trivial inputs -/

/-- the six cards and two contests of the suite's `test_consistent_sampling`, sample numbers permuted -/
def exCards : List Card :=
  [⟨["city_council", "measure_1"], 40, false⟩, ⟨["city_council", "measure_1"], 10, false⟩,
   ⟨["city_council", "measure_1"], 30, false⟩, ⟨["city_council"], 0, false⟩, ⟨["city_council"], 50, true⟩,
   ⟨["measure_1"], 20, false⟩]

def exContests : List Contest := [⟨"city_council", 3, none, none, 0⟩, ⟨"measure_1", 4, some 7, some 5, 0⟩]

example : Wf exCards exContests := ⟨by decide, by decide, by decide⟩
-- a size vector with a zero and the maximum
example : Wf exCards [⟨"city_council", 0, some 3, none, 0⟩, ⟨"measure_1", 4, none, none, 0⟩] :=
  ⟨by decide, by decide, by decide⟩

end Shangrla.C07
