/-
  C06 — data handed to a test always lie inside the bound the test is told.

  Theorems are about `Shangrla.Overstatement.mvrsToData`, `setPValuesU`, `testUFor`, `setMarginFromCvrs`
  (Model/Overstatement.lean), the literal model of `Assertion.mvrs_to_data`, of the `u` that
  `Assertion.set_p_values` / `set_margin_from_cvrs` / `set_all_margins_from_cvrs` install in the test.
  The raw assorter is a parameter: the theorems hold for EVERY assignment of assorter values in `[0,u]`
  (`u` = the assorter's `upper_bound`).

  Guards (the raising inputs are not data handed to a test; they are part of the correspondence):
  `sample_threshold = None` compared under style ⇒ `TypeError`; a pool label missing from the dict ⇒ `KeyError`;
  fewer CVRs than MVRs ⇒ `IndexError`; unsupported audit type ⇒ `NotImplementedError`.
-/
import Shangrla.Lemmas.Overstatement

namespace Shangrla.C06
open Shangrla Shangrla.Overstatement

/-- **C06, polling.**  For polling audits the data are the assorter values of the manual records and the
bound returned with them is the assorter's own bound: every entry lies in `[0,u]`. -/
theorem data_in_bound_polling (useStyle useAll : Bool) (threshold : Option Nat) (margin : XR) (u : Rat)
    (means : Option Means) (mvrs : List Mvr) (cvrs : List Cvr)
    (hm : ∀ m ∈ mvrs, 0 ≤ m.a ∧ m.a ≤ u) :
    ∃ d : List Rat,
      mvrsToData .polling useStyle useAll threshold margin u means mvrs cvrs = .ok (d.map XR.fin, XR.fin u) ∧
      ∀ x ∈ d, 0 ≤ x ∧ x ≤ u := by
  refine ⟨mvrs.map (fun m => m.a), ?_, ?_⟩
  · simp [mvrsToData, List.map_map, Function.comp_def]
  · intro x hx
    obtain ⟨m, hm', rfl⟩ := List.mem_map.mp hx
    exact hm m hm'

/-- the hypothesis on the dict of pool means used by `data_in_bound_comparison`: the mean found for a pooled
sampled card that passes the style filter is a number in `[0,u]` -/
def MeansInBound (useStyle : Bool) (u : Rat) (means : Option Means) (cvrs : List Cvr) : Prop :=
  ∀ d, means = some d → ∀ c ∈ cvrs, c.pool = true → passes useStyle c = true →
    ∀ x, d.lookup c.tallyPool = some x → ∃ q, x = XR.fin q ∧ 0 ≤ q ∧ q ≤ u

/-- the range of one overstatement-assorter value -/
theorem ovA_range {v u ca ma : Rat} (hu : 0 < u) (hv : v < 2 * u) (hca : 0 ≤ ca ∧ ca ≤ u) (hma : 0 ≤ ma ∧ ma ≤ u) :
    0 ≤ ovA v u ca ma ∧ ovA v u ca ma ≤ 2 / (2 - v / u) := by
  have hD : 0 < 2 - v / u := by
    have : v / u < 2 := by rw [div_lt_iff₀ hu]; linarith
    linarith
  have h1 : (ca - ma) / u ≤ 1 := by rw [div_le_iff₀ hu]; linarith
  have h2 : -1 ≤ (ca - ma) / u := by rw [le_div_iff₀ hu]; linarith
  unfold ovA
  constructor
  · apply div_nonneg <;> linarith
  · apply div_le_div_of_nonneg_right _ (le_of_lt hD)
    linarith

theorem mvrAssort_range (useStyle : Bool) (m : Mvr) (u : Rat) (hu : 0 < u) (hm : 0 ≤ m.a ∧ m.a ≤ u) :
    0 ≤ mvrAssort useStyle m ∧ mvrAssort useStyle m ≤ u := by
  unfold mvrAssort
  split
  · exact ⟨le_refl _, le_of_lt hu⟩
  · exact hm

/-- one pair: whenever `overstatement_assorter` returns, its value is a number in `[0, 2/(2 - v/u)]` -/
theorem pair_in_bound {v u : Rat} {useStyle : Bool} {means : Option Means} {m : Mvr} {c : Cvr} {b : XR}
    (hu : 0 < u) (hhalf : 1 / 2 ≤ u) (hv : v < 2 * u)
    (hc : 0 ≤ c.a ∧ c.a ≤ u) (hm : 0 ≤ m.a ∧ m.a ≤ u)
    (hmeans : ∀ d, means = some d → c.pool = true → passes useStyle c = true →
        ∀ x, d.lookup c.tallyPool = some x → ∃ q, x = XR.fin q ∧ 0 ≤ q ∧ q ≤ u)
    (h : overstatementAssorter (XR.fin v) u useStyle means m c = .ok b) :
    ∃ q, b = XR.fin q ∧ 0 ≤ q ∧ q ≤ 2 / (2 - v / u) := by
  have hune : u ≠ 0 := ne_of_gt hu
  have hD : 0 < 2 - v / u := by
    have : v / u < 2 := by rw [div_lt_iff₀ hu]; linarith
    linarith
  -- the style check passed
  have hs : (useStyle && !c.hasContest) = false := by
    cases hs : (useStyle && !c.hasContest)
    · rfl
    · simp [overstatementAssorter, overstatement, hs, bind, Except.bind] at h
  have hpass : passes useStyle c = true := by
    unfold passes
    cases useStyle <;> cases hcc : c.hasContest <;> simp_all
  -- the CVR's score is a number in [0,u]
  have hca : ∃ ca, cvrAssort means c = .ok (XR.fin ca) ∧ 0 ≤ ca ∧ ca ≤ u := by
    cases hup : usesPool means c
    · refine ⟨ownScore c, cvrAssort_own means c hup, ?_⟩
      unfold ownScore
      split
      · constructor <;> linarith
      · exact hc
    · unfold usesPool at hup
      simp only [Bool.and_eq_true] at hup
      obtain ⟨hpool, hsome⟩ := hup
      obtain ⟨d, rfl⟩ := Option.isSome_iff_exists.mp hsome
      cases hl : d.lookup c.tallyPool with
      | none =>
        have := cvrAssort_pool_missing d c hpool hl
        simp [overstatementAssorter, overstatement, hs, this, bind, Except.bind] at h
      | some x =>
        obtain ⟨q, rfl, hq⟩ := hmeans d rfl hpool hpass x hl
        exact ⟨q, cvrAssort_pool d c hpool _ hl, hq⟩
  obtain ⟨ca, hca1, hca2⟩ := hca
  rw [overstatementAssorter_fin hune (ne_of_gt hD) hs hca1] at h
  cases h
  exact ⟨_, rfl, ovA_range hu hv hca2 (mvrAssort_range useStyle m u hu hm)⟩

theorem compData_in_bound {v u : Rat} {useStyle useAll : Bool} {threshold : Option Nat} {means : Option Means}
    (hu : 0 < u) (hhalf : 1 / 2 ≤ u) (hv : v < 2 * u) :
    ∀ (mvrs : List Mvr) (cvrs : List Cvr) (dx : List XR),
      (∀ c ∈ cvrs, 0 ≤ c.a ∧ c.a ≤ u) → (∀ m ∈ mvrs, 0 ≤ m.a ∧ m.a ≤ u) →
      MeansInBound useStyle u means cvrs →
      compData (XR.fin v) u useStyle useAll threshold means mvrs cvrs = .ok dx →
      ∃ d : List Rat, dx = d.map XR.fin ∧ ∀ x ∈ d, 0 ≤ x ∧ x ≤ 2 / (2 - v / u) := by
  intro mvrs
  induction mvrs with
  | nil =>
    intro cvrs dx _ _ _ h
    simp only [compData, Except.ok.injEq] at h
    subst h
    exact ⟨[], rfl, by simp⟩
  | cons m ms ih =>
    intro cvrs dx hc hm hmeans h
    cases cvrs with
    | nil => simp [compData] at h
    | cons c cs =>
      have hc' : ∀ c ∈ cs, 0 ≤ c.a ∧ c.a ≤ u := fun x hx => hc x (by simp [hx])
      have hm' : ∀ m ∈ ms, 0 ≤ m.a ∧ m.a ≤ u := fun x hx => hm x (by simp [hx])
      have hmeans' : MeansInBound useStyle u means cs :=
        fun d hd x hx => hmeans d hd x (by simp [hx])
      simp only [compData, bind, Except.bind, pure, Except.pure] at h
      cases hk : contributes useStyle useAll threshold c with
      | error e => simp [hk] at h
      | ok keep =>
        simp only [hk] at h
        cases keep
        · simp only [Bool.false_eq_true, if_false] at h
          exact ih cs dx hc' hm' hmeans' h
        · simp only [if_true] at h
          cases hb : overstatementAssorter (XR.fin v) u useStyle means m c with
          | error e => simp [hb] at h
          | ok b =>
            simp only [hb] at h
            cases hr : compData (XR.fin v) u useStyle useAll threshold means ms cs with
            | error e => simp [hr] at h
            | ok rest =>
              simp only [hr, Except.ok.injEq] at h
              subst h
              obtain ⟨q, rfl, hq⟩ := pair_in_bound hu hhalf hv (hc c (by simp)) (hm m (by simp))
                (fun d hd hp hps x hx => hmeans d hd c (by simp) hp hps x hx) hb
              obtain ⟨d, rfl, hd⟩ := ih cs rest hc' hm' hmeans' hr
              refine ⟨q :: d, rfl, ?_⟩
              intro x hx
              rcases List.mem_cons.mp hx with rfl | hx
              · exact hq
              · exact hd x hx

/-- **C06, comparison audits (card comparison and ONEAudit).**  For every sample of (MVR, CVR) pairs, style on or
off, `use_all` or not, any threshold, every margin `v < 2·u` (in particular every assorter margin, which is at most
`2u − 1`, and all positive margins), all assorter values in `[0,u]`, and pool means in `[0,u]`: whenever
`mvrs_to_data` returns `(d, U)`, `U = 2/(2 − v/u)` and every entry of `d` is a number in `[0, U]`.
`1/2 ≤ u` (true of every assorter whose assertion can hold at all: plurality and IRV have `u = 1`, super-majority
`u = 1/(2·share)` with `share ≤ 1`) is needed because a phantom CVR is scored 1/2 whatever `u` is. -/
theorem data_in_bound_comparison (ty : AuditType) (hty : ty = .cardComparison ∨ ty = .oneaudit)
    (useStyle useAll : Bool) (threshold : Option Nat) (v u : Rat) (means : Option Means)
    (mvrs : List Mvr) (cvrs : List Cvr)
    (hu : 0 < u) (hhalf : 1 / 2 ≤ u) (hv : v < 2 * u)
    (hc : ∀ c ∈ cvrs, 0 ≤ c.a ∧ c.a ≤ u) (hm : ∀ m ∈ mvrs, 0 ≤ m.a ∧ m.a ≤ u)
    (hmeans : MeansInBound useStyle u means cvrs)
    (dx : List XR) (U : XR)
    (h : mvrsToData ty useStyle useAll threshold (XR.fin v) u means mvrs cvrs = .ok (dx, U)) :
    U = XR.fin (2 / (2 - v / u)) ∧
    ∃ d : List Rat, dx = d.map XR.fin ∧ ∀ x ∈ d, 0 ≤ x ∧ x ≤ 2 / (2 - v / u) := by
  have hune : u ≠ 0 := ne_of_gt hu
  have hD : 0 < 2 - v / u := by
    have : v / u < 2 := by rw [div_lt_iff₀ hu]; linarith
    linarith
  have hU : (2 : XR) / (2 - XR.fin v / XR.fin u) = XR.fin (2 / (2 - v / u)) := by
    rw [two_eq, fin_div _ _ hune, fin_sub, fin_div _ _ (ne_of_gt hD)]
  have key : ∀ r, compData (XR.fin v) u useStyle useAll threshold means mvrs cvrs = r →
      (r.bind fun d => Except.ok (d, (2 : XR) / (2 - XR.fin v / XR.fin u))) = .ok (dx, U) →
      U = XR.fin (2 / (2 - v / u)) ∧
      ∃ d : List Rat, dx = d.map XR.fin ∧ ∀ x ∈ d, 0 ≤ x ∧ x ≤ 2 / (2 - v / u) := by
    intro r hr h
    cases r with
    | error e => simp [Except.bind] at h
    | ok d0 =>
      simp only [Except.bind, Except.ok.injEq, Prod.mk.injEq] at h
      obtain ⟨rfl, rfl⟩ := h
      exact ⟨hU, compData_in_bound hu hhalf hv mvrs cvrs d0 hc hm hmeans hr⟩
  rcases hty with rfl | rfl
  · exact key _ rfl h
  · exact key _ rfl h

/-- the pool means computed by `set_tally_pool_means` from a CVR list with assorter values in `[0,u]`, under the
same style flag, satisfy `MeansInBound` for every sample drawn from that list -/
theorem meansInBound_of_poolMeans {useStyle : Bool} {u : Rat} {pop sample : List Cvr} {means : Option Means}
    (hm : MeansFrom useStyle pop means) (hsub : ∀ c ∈ sample, c ∈ pop)
    (hpop : ∀ c ∈ pop, 0 ≤ c.a ∧ c.a ≤ u) :
    MeansInBound useStyle u means sample := by
  intro d hd c hc hpool hpass x hx
  cases hm with
  | unset => cases hd
  | set keys d' hd' =>
    cases hd
    obtain ⟨hcnt, hl⟩ := poolMeans_lookup hd' c (hsub c hc) hpass hpool
    rw [hl] at hx
    cases hx
    refine ⟨_, rfl, ?_⟩
    set L := (pooledAud useStyle pop).filter (fun c' => decide (c'.tallyPool = c.tallyPool)) with hL
    have hnpos : (0 : Rat) < (cnt (pooledAud useStyle pop) c.tallyPool : Rat) := by exact_mod_cast hcnt
    have hin : ∀ x ∈ L.map (fun c => c.a), 0 ≤ x ∧ x ≤ u := by
      intro x hx
      obtain ⟨c', hc', rfl⟩ := List.mem_map.mp hx
      exact hpop c' (List.mem_filter.mp (List.mem_filter.mp hc').1).1
    have h0 := sum_nonneg' (L.map (fun c => c.a)) (fun x hx => (hin x hx).1)
    have h1 := sum_le_length_mul u (L.map (fun c => c.a)) (fun x hx => (hin x hx).2)
    rw [List.length_map] at h1
    constructor
    · exact div_nonneg h0 (le_of_lt hnpos)
    · rw [div_le_iff₀ hnpos]
      have : tot (pooledAud useStyle pop) c.tallyPool ≤ (cnt (pooledAud useStyle pop) c.tallyPool : Rat) * u := h1
      linarith

/-- **C06, ONEAudit end to end.**  With the pool means computed by `set_tally_pool_means` from the CVR list `pop`
(assorter values in `[0,u]`) and any sample of cards of `pop`: the data lie in `[0, 2/(2 − v/u)]`. -/
theorem data_in_bound_oneaudit (ty : AuditType) (hty : ty = .cardComparison ∨ ty = .oneaudit)
    (useStyle useAll : Bool) (threshold : Option Nat) (v u : Rat) (means : Option Means)
    (pop : List Cvr) (mvrs : List Mvr) (cvrs : List Cvr)
    (hu : 0 < u) (hhalf : 1 / 2 ≤ u) (hv : v < 2 * u)
    (hmf : MeansFrom useStyle pop means) (hsub : ∀ c ∈ cvrs, c ∈ pop)
    (hpop : ∀ c ∈ pop, 0 ≤ c.a ∧ c.a ≤ u) (hm : ∀ m ∈ mvrs, 0 ≤ m.a ∧ m.a ≤ u)
    (dx : List XR) (U : XR)
    (h : mvrsToData ty useStyle useAll threshold (XR.fin v) u means mvrs cvrs = .ok (dx, U)) :
    U = XR.fin (2 / (2 - v / u)) ∧
    ∃ d : List Rat, dx = d.map XR.fin ∧ ∀ x ∈ d, 0 ≤ x ∧ x ≤ 2 / (2 - v / u) :=
  data_in_bound_comparison ty hty useStyle useAll threshold v u means mvrs cvrs hu hhalf hv
    (fun c hc => hpop c (hsub c hc)) hm (meansInBound_of_poolMeans hmf hsub hpop) dx U h

/-- **C06, the bound installed in the test.**  `set_p_values` installs exactly the `u` that `mvrs_to_data`
returned with the data (and installs nothing when `mvrs_to_data` raises); that `u` is the assorter's own bound
for polling and `2/(2 − v/u_assorter)` for comparison audits — the same value `set_margin_from_cvrs` and
`set_all_margins_from_cvrs` install (`testUFor`). -/
theorem installed_u (ty : AuditType) (useStyle : Bool) (threshold : Option Nat) (margin : XR) (u : Rat)
    (means : Option Means) (mvrs : List Mvr) (cvrs : List Cvr) :
    (∀ dx U, mvrsToData ty useStyle false threshold margin u means mvrs cvrs = .ok (dx, U) →
        setPValuesU ty useStyle threshold margin u means mvrs cvrs = .ok U ∧ testUFor ty margin u = .ok U) ∧
    (∀ e, mvrsToData ty useStyle false threshold margin u means mvrs cvrs = .error e →
        setPValuesU ty useStyle threshold margin u means mvrs cvrs = .error e) := by
  constructor
  · intro dx U h
    constructor
    · simp [setPValuesU, h, bind, Except.bind, pure, Except.pure]
    · cases ty
      · simp only [mvrsToData, Except.ok.injEq, Prod.mk.injEq] at h
        simp [testUFor, h.2]
      · simp only [mvrsToData, bind, Except.bind, pure, Except.pure] at h
        split at h
        · cases h
        · simp only [Except.ok.injEq, Prod.mk.injEq] at h
          simp [testUFor, h.2]
      · simp only [mvrsToData, bind, Except.bind, pure, Except.pure] at h
        split at h
        · cases h
        · simp only [Except.ok.injEq, Prod.mk.injEq] at h
          simp [testUFor, h.2]
      · simp [mvrsToData] at h
  · intro e h
    simp [setPValuesU, h, bind, Except.bind]

/-- the value of the installed bound: `u` for polling; `2/(2 − v/u)` for comparison audits -/
theorem installed_u_value (v u : Rat) (hu : 0 < u) (hv : v < 2 * u) :
    testUFor .polling (XR.fin v) u = .ok (XR.fin u) ∧
    testUFor .cardComparison (XR.fin v) u = .ok (XR.fin (2 / (2 - v / u))) ∧
    testUFor .oneaudit (XR.fin v) u = .ok (XR.fin (2 / (2 - v / u))) ∧
    (∀ nStrata useStyle cvrs ty margin U, setMarginFromCvrs nStrata useStyle ty u cvrs = .ok (margin, U) →
        testUFor ty margin u = .ok U) := by
  have hune : u ≠ 0 := ne_of_gt hu
  have hD : 0 < 2 - v / u := by
    have : v / u < 2 := by rw [div_lt_iff₀ hu]; linarith
    linarith
  have hU : (2 : XR) / (2 - XR.fin v / XR.fin u) = XR.fin (2 / (2 - v / u)) := by
    rw [two_eq, fin_div _ _ hune, fin_sub, fin_div _ _ (ne_of_gt hD)]
  refine ⟨rfl, by simp [testUFor, hU], by simp [testUFor, hU], ?_⟩
  intro nStrata useStyle cvrs ty margin U h
  unfold setMarginFromCvrs at h
  split at h
  · cases h
  · split at h
    · cases h
    · simp only [bind, Except.bind, pure, Except.pure] at h
      split at h
      · cases h
      · rename_i u' hu'
        simp only [Except.ok.injEq, Prod.mk.injEq] at h
        rw [← h.1, ← h.2]; exact hu'

/-- `set_all_margins_from_cvrs` installs the same bound (`testUFor` of the margin it has just stored) -/
theorem installed_u_all (nStrata : Nat) (useStyle : Bool) (ty : AuditType) (u : Rat) (cvrs : List Cvr)
    (margin U mn : XR) (h : setAllMarginsFromCvrs nStrata useStyle ty u cvrs = .ok (margin, U, mn)) :
    testUFor ty margin u = .ok U ∧ margin = marginFromCvrs useStyle cvrs := by
  unfold setAllMarginsFromCvrs at h
  simp only [bind, Except.bind, pure, Except.pure] at h
  split at h
  · cases h
  · rename_i mu hmu
    obtain ⟨m0, u0⟩ := mu
    simp only at h
    split at h
    · cases h
    · rename_i u1 hu1
      simp only [Except.ok.injEq, Prod.mk.injEq] at h
      obtain ⟨rfl, rfl, _⟩ := h
      refine ⟨hu1, ?_⟩
      unfold setMarginFromCvrs at hmu
      split at hmu
      · cases hmu
      · split at hmu
        · cases hmu
        · simp only [bind, Except.bind, pure, Except.pure] at hmu
          split at hmu
          · cases hmu
          · simp only [Except.ok.injEq, Prod.mk.injEq] at hmu
            exact hmu.1.symm

/-- the condition of `mvrs_to_data`'s comprehension when no `None` is compared -/
def keeps (useStyle useAll : Bool) (t : Nat) (c : Cvr) : Bool :=
  !useStyle || (c.hasContest && (useAll || decide (c.sampleNum ≤ t)))

theorem contributes_some (useStyle useAll : Bool) (t : Nat) (c : Cvr) :
    contributes useStyle useAll (some t) c = .ok (keeps useStyle useAll t c) := by
  unfold contributes keeps
  cases useStyle <;> cases c.hasContest <;> cases useAll <;> simp

/-- **C06, style filter.**  In a comparison audit under style-based sampling (threshold `t`), the data are the
overstatement-assorter values of exactly the pairs whose CVR lists the contest and whose sample number is `≤ t`,
in sample order: zip the samples, keep those pairs, apply `overstatement_assorter` to each. -/
theorem style_filter (ty : AuditType) (hty : ty = .cardComparison ∨ ty = .oneaudit) (t : Nat) (margin : XR)
    (u : Rat) (means : Option Means) (mvrs : List Mvr) (cvrs : List Cvr) (hlen : mvrs.length ≤ cvrs.length) :
    mvrsToData ty true false (some t) margin u means mvrs cvrs
      = (((mvrs.zip cvrs).filter (fun p => p.2.hasContest && decide (p.2.sampleNum ≤ t))).mapM
            (fun p => overstatementAssorter margin u true means p.1 p.2)).map
          (fun d => (d, (2 : XR) / (2 - margin / XR.fin u))) := by
  have hk : (fun p : Mvr × Cvr => p.2.hasContest && decide (p.2.sampleNum ≤ t))
      = (fun p : Mvr × Cvr => keeps true false t p.2) := by
    funext p; simp [keeps]
  rw [hk, ← compData_eq_mapM margin u true false (some t) means (keeps true false t) mvrs cvrs hlen
    (fun p _ => contributes_some true false t p.2)]
  rcases hty with rfl | rfl <;>
  · simp only [mvrsToData, bind, Except.bind, pure, Except.pure, Except.map]

/-- the general form: any style flag, `use_all` or not -/
theorem filter_general (ty : AuditType) (hty : ty = .cardComparison ∨ ty = .oneaudit) (useStyle useAll : Bool)
    (t : Nat) (margin : XR) (u : Rat) (means : Option Means) (mvrs : List Mvr) (cvrs : List Cvr)
    (hlen : mvrs.length ≤ cvrs.length) :
    mvrsToData ty useStyle useAll (some t) margin u means mvrs cvrs
      = (((mvrs.zip cvrs).filter (fun p => keeps useStyle useAll t p.2)).mapM
            (fun p => overstatementAssorter margin u useStyle means p.1 p.2)).map
          (fun d => (d, (2 : XR) / (2 - margin / XR.fin u))) := by
  rw [← compData_eq_mapM margin u useStyle useAll (some t) means (keeps useStyle useAll t) mvrs cvrs hlen
    (fun p _ => contributes_some useStyle useAll t p.2)]
  rcases hty with rfl | rfl <;>
  · simp only [mvrsToData, bind, Except.bind, pure, Except.pure, Except.map]

/-- a contributing pair under style never raises `ValueError` (its CVR lists the contest) -/
theorem style_filter_no_valueError (t : Nat) (useAll : Bool) (c : Cvr) (h : keeps true useAll t c = true) :
    (true && !c.hasContest) = false := by
  unfold keeps at h
  cases hc : c.hasContest <;> simp_all

/-- the guard (finding F20): with `sample_threshold = None`, style on and `use_all = False`, the first sampled
CVR that lists the contest makes `mvrs_to_data` raise `TypeError` — no data are handed to the test -/
theorem none_threshold_raises (margin : XR) (u : Rat) (means : Option Means) (m : Mvr) (ms : List Mvr)
    (c : Cvr) (cs : List Cvr) (hc : c.hasContest = true) :
    compData margin u true false none means (m :: ms) (c :: cs) = .error Err.TypeError := by
  simp [compData, contributes, hc, bind, Except.bind]

/-! ### Non-vacuity -/

def exCvrs : List Cvr :=
  [ { hasContest := true,  phantom := false, pool := true,  tallyPool := some "p1", a := 1,     sampleNum := 3 },
    { hasContest := true,  phantom := true,  pool := false, tallyPool := none,      a := 1 / 2, sampleNum := 9 },
    { hasContest := false, phantom := false, pool := false, tallyPool := none,      a := 1 / 2, sampleNum := 1 },
    { hasContest := true,  phantom := false, pool := false, tallyPool := none,      a := 0,     sampleNum := 5 } ]

def exMvrs : List Mvr :=
  [ { hasContest := true,  phantom := false, a := 0 },
    { hasContest := false, phantom := true,  a := 1 / 2 },
    { hasContest := true,  phantom := false, a := 1 },
    { hasContest := true,  phantom := false, a := 1 } ]

def exMeans : Means := [(some "p1", XR.fin (3 / 4))]

example : MeansInBound true 1 (some exMeans) exCvrs := by
  intro d hd c hc hpool _ x hx
  cases hd
  simp only [exCvrs, List.mem_cons, List.not_mem_nil, or_false] at hc
  rcases hc with rfl | rfl | rfl | rfl <;> simp at hpool
  simp only [exMeans, List.lookup_cons] at hx
  simp at hx
  exact ⟨3 / 4, hx.symm, by norm_num, by norm_num⟩
-- threshold 5, margin 1/5: the cards with sample numbers 3 and 5 that list the contest contribute, in order;
-- the extremes 0 and 2/(2 - v/u) = 10/9 are attained up to the pool mean: [(1 - 3/4)/(9/5), (1 + 1)/(9/5)]
example : mvrsToData .oneaudit true false (some 5) (XR.fin (1 / 5)) 1 (some exMeans) exMvrs exCvrs
    = .ok ([5 / 36, 10 / 9].map XR.fin, XR.fin (10 / 9)) := by decide +kernel
example : setPValuesU .oneaudit true (some 5) (XR.fin (1 / 5)) 1 (some exMeans) exMvrs exCvrs = .ok (XR.fin (10 / 9)) := by
  decide +kernel
example : mvrsToData .polling true false none XR.nan 1 none exMvrs exCvrs
    = .ok ([0, 1 / 2, 1, 1].map XR.fin, XR.fin 1) := by decide +kernel

end Shangrla.C06
