/-
  C11 (Kaplan tests and the SPRT) — reported p-values are well-formed and the overall value matches
  the history.

  Theorems are about `Shangrla.NM.kaplanKolmogorov`, `kaplanMarkov`, `kaplanWald`, `waldSprt`: the
  literal models of `NonnegMean.kaplan_kolmogorov / kaplan_markov / kaplan_wald / wald_sprt` that the
  driver executes.  For each test `T`:

  * `T_eq`                      the model's value written out under the guard (no error);
  * `wellformed_T`              `.ok (p, hist)`, `|hist| = |x|`, every entry and `p` are rationals in
                                `[0,1]` (`XR.IsP`: in particular never NaN);
  * `overall_is_min_or_last_T`  `p = np.min(hist)` when `random_order`, `p = hist[-1]` otherwise;
  * the explicit error clauses.
-/
import Shangrla.Lemmas.NMKaplan

namespace Shangrla.C11
open Shangrla.XR Shangrla.NM

/-- what "`p` equals the smallest history entry" means: for a non-empty history of p-values,
`XR.minList hist` (`np.min`) is a p-value, is one of the entries, and is `≤` every entry -/
theorem minList_is_smallest {hist : List XR} (hne : hist ≠ []) (hP : ∀ h ∈ hist, IsP h) :
    IsP (XR.minList hist) ∧ XR.minList hist ∈ hist ∧ ∀ h ∈ hist, XR.le (XR.minList hist) h = true :=
  XR.minList_isP hne hP

/-! ## `kaplan_wald` -/

/-- the running products `T_j` of `kaplan_wald` (L601) -/
def kwTerms (cfg : Cfg) (x : List Rat) : List XR :=
  XR.cumprod (x.map fun a =>
    (XR.fin ((1 - cfg.kw.g.getD 0) * a)) / (XR.fin cfg.t) + (XR.fin (cfg.kw.g.getD 0)))

/-- under the guard the model of `kaplan_wald` raises nothing and returns this pair -/
theorem kw_eq (cfg : Cfg) (x : List Rat) (hne : x ≠ []) (hx : ∀ a ∈ x, 0 ≤ a)
    (hg0 : 0 ≤ cfg.kw.g.getD 0) (hg1 : cfg.kw.g.getD 0 ≤ 1) :
    kaplanWald cfg x = .ok
      (XR.npmin 1 ((1 : XR) / (if cfg.randomOrder = true then XR.maxList (kwTerms cfg x) else lastD (kwTerms cfg x))),
       (kwTerms cfg x).map (fun p => XR.npmin ((1 : XR) / p) 1)) := by
  unfold kaplanWald
  have h1 : (cfg.kw.g.getD 0 < 0 || 1 < cfg.kw.g.getD 0) = false := by
    simp [not_lt.mpr hg0, not_lt.mpr hg1]
  have h2 : x.any (· < 0) = false := by
    simp only [List.any_eq_false, decide_eq_true_eq, not_lt]; exact hx
  have h3 : x.isEmpty = false := by cases x <;> simp_all
  simp only [h1, h2, cumprod_isEmpty, List.isEmpty_map, h3]
  rfl

theorem kwTerms_length (cfg : Cfg) (x : List Rat) : (kwTerms cfg x).length = x.length := by
  simp [kwTerms, cumprod_length]

/-- every Kaplan-Wald factor is a non-negative rational when `t > 0`, `0 ≤ g ≤ 1`, `x ≥ 0` -/
theorem kw_factor (t g a : Rat) (ht : 0 < t) (hg0 : 0 ≤ g) (hg1 : g ≤ 1) (ha : 0 ≤ a) :
    FinNN ((XR.fin ((1 - g) * a)) / (XR.fin t) + (XR.fin g)) := by
  rw [fin_div _ _ (ne_of_gt ht), fin_add]
  refine ⟨_, ?_, rfl⟩
  have : 0 ≤ (1 - g) * a := mul_nonneg (by linarith) ha
  have : 0 ≤ (1 - g) * a / t := div_nonneg this (le_of_lt ht)
  linarith

theorem kwTerms_good (cfg : Cfg) (x : List Rat) (hx : ∀ a ∈ x, 0 ≤ a) (ht : 0 < cfg.t)
    (hg0 : 0 ≤ cfg.kw.g.getD 0) (hg1 : cfg.kw.g.getD 0 ≤ 1) : ∀ T ∈ kwTerms cfg x, Good T := by
  intro T hT
  refine (cumprodFrom_all FinNN (fun _ _ => finNN_mul) _ 1 ⟨1, by norm_num, rfl⟩ ?_ T hT).good
  intro f hf
  rw [List.mem_map] at hf
  obtain ⟨a, ha, rfl⟩ := hf
  exact kw_factor _ _ _ ht hg0 hg1 (hx a ha)

theorem kw_wf (cfg : Cfg) (x : List Rat) (hne : x ≠ []) (hx : ∀ a ∈ x, 0 ≤ a) (ht : 0 < cfg.t)
    (hg0 : 0 ≤ cfg.kw.g.getD 0) (hg1 : cfg.kw.g.getD 0 ≤ 1) :
    ∃ p hist, kaplanWald cfg x = .ok (p, hist) ∧ WellFormed x.length cfg.randomOrder p hist := by
  refine ⟨_, _, kw_eq cfg x hne hx hg0 hg1, ?_⟩
  have hne' : kwTerms cfg x ≠ [] := by
    intro h; have := kwTerms_length cfg x; rw [h] at this
    exact hne (List.length_eq_zero_iff.mp this.symm)
  have := finish_stat (fun s => XR.npmin 1 ((1 : XR) / s)) (fun p => XR.npmin ((1 : XR) / p) 1)
    (fun T hT => npmin_one_inv hT) (fun T hT => npmin_inv_one hT) cfg.randomOrder hne'
    (kwTerms_good cfg x hx ht hg0 hg1)
  rw [kwTerms_length] at this
  exact this

/-- **C11, `kaplan_wald`, range/length/NaN.**  Guard: non-empty sample of non-negative values, `t > 0`,
`0 ≤ g ≤ 1`. -/
theorem wellformed_kw (cfg : Cfg) (x : List Rat) (hne : x ≠ []) (hx : ∀ a ∈ x, 0 ≤ a) (ht : 0 < cfg.t)
    (hg0 : 0 ≤ cfg.kw.g.getD 0) (hg1 : cfg.kw.g.getD 0 ≤ 1) :
    ∃ p hist, kaplanWald cfg x = .ok (p, hist) ∧ hist.length = x.length ∧
      (∀ h ∈ hist, IsP h) ∧ IsP p := by
  obtain ⟨p, hist, he, h1, h2, h3, _⟩ := kw_wf cfg x hne hx ht hg0 hg1
  exact ⟨p, hist, he, h1, h2, h3⟩

/-- **C11, `kaplan_wald`, overall value.** -/
theorem overall_is_min_or_last_kw (cfg : Cfg) (x : List Rat) (hne : x ≠ []) (hx : ∀ a ∈ x, 0 ≤ a)
    (ht : 0 < cfg.t) (hg0 : 0 ≤ cfg.kw.g.getD 0) (hg1 : cfg.kw.g.getD 0 ≤ 1)
    (p : XR) (hist : List XR) (hrun : kaplanWald cfg x = .ok (p, hist)) :
    (cfg.randomOrder = true → p = XR.minList hist) ∧
    (cfg.randomOrder = false → hist.getLast? = some p) := by
  obtain ⟨p', hist', he, _, _, _, h4, h5⟩ := kw_wf cfg x hne hx ht hg0 hg1
  rw [he] at hrun
  injection hrun with hrun
  injection hrun with hp hh
  subst hp; subst hh
  exact ⟨h4, h5⟩

/-- error clauses of `kaplan_wald`: `g` outside `[0,1]`, a negative observation, an empty sample -/
theorem kw_err_g (cfg : Cfg) (x : List Rat) (hg : cfg.kw.g.getD 0 < 0 ∨ 1 < cfg.kw.g.getD 0) :
    kaplanWald cfg x = .error .value := by
  unfold kaplanWald
  have h1 : (cfg.kw.g.getD 0 < 0 || 1 < cfg.kw.g.getD 0) = true := by
    rcases hg with h | h <;> simp [h]
  simp only [h1]
  rfl

theorem kw_err_empty (cfg : Cfg) (hg0 : 0 ≤ cfg.kw.g.getD 0) (hg1 : cfg.kw.g.getD 0 ≤ 1) :
    kaplanWald cfg [] = .error (if cfg.randomOrder = true then .value else .index) := by
  unfold kaplanWald
  have h1 : (cfg.kw.g.getD 0 < 0 || 1 < cfg.kw.g.getD 0) = false := by
    simp [not_lt.mpr hg0, not_lt.mpr hg1]
  simp only [h1]
  cases cfg.randomOrder <;> rfl

-- non-vacuity: t = 1/2, g = 1/10, x = [1, 0, 1/2]
example : ∃ p hist, kaplanWald { N := none, u := 1, t := 1/2, randomOrder := true, kw := { g := some (1/10) } }
    [1, 0, 1/2] = .ok (p, hist) ∧ hist.length = 3 ∧ (∀ h ∈ hist, IsP h) ∧ IsP p :=
  wellformed_kw _ _ (by simp) (by intro a ha; simp at ha; rcases ha with rfl | rfl | rfl <;> norm_num)
    (by norm_num) (by simp) (by simp; norm_num)

/-! ## `kaplan_markov` -/

/-- the running products `p_j` of `kaplan_markov` (L558) -/
def kmTerms (cfg : Cfg) (x : List Rat) : List XR :=
  XR.cumprod (x.map fun a => (XR.fin (cfg.t + cfg.kw.g.getD 0)) / (XR.fin (a + cfg.kw.g.getD 0)))

theorem km_eq (cfg : Cfg) (x : List Rat) (hne : x ≠ []) (hx : ∀ a ∈ x, 0 ≤ a) :
    kaplanMarkov cfg x = .ok
      (XR.npmin 1 (if cfg.randomOrder = true then XR.minList (kmTerms cfg x) else lastD (kmTerms cfg x)),
       (kmTerms cfg x).map (fun p => XR.npmin p 1)) := by
  unfold kaplanMarkov
  have h2 : x.any (· < 0) = false := by
    simp only [List.any_eq_false, decide_eq_true_eq, not_lt]; exact hx
  have h3 : x.isEmpty = false := by cases x <;> simp_all
  simp only [h2, cumprod_isEmpty, List.isEmpty_map, h3]
  rfl

theorem kmTerms_length (cfg : Cfg) (x : List Rat) : (kmTerms cfg x).length = x.length := by
  simp [kmTerms, cumprod_length]

/-- every Kaplan-Markov factor `(t+g)/(x+g)` is positive or `+inf` when `t + g > 0`, `x + g ≥ 0` -/
theorem km_factor (tg ag : Rat) (ht : 0 < tg) (ha : 0 ≤ ag) : Pos ((XR.fin tg) / (XR.fin ag)) := by
  by_cases h0 : ag = 0
  · subst h0
    show Pos (XR.div (XR.fin tg) (XR.fin 0))
    simp [XR.div, ne_of_gt ht, ht, Pos]
  · rw [fin_div _ _ h0]
    exact div_pos ht (lt_of_le_of_ne ha (Ne.symm h0))

theorem kmTerms_good (cfg : Cfg) (x : List Rat) (hx : ∀ a ∈ x, 0 ≤ a)
    (hg : 0 ≤ cfg.kw.g.getD 0) (htg : 0 < cfg.t + cfg.kw.g.getD 0) : ∀ T ∈ kmTerms cfg x, Good T := by
  intro T hT
  refine (cumprodFrom_all Pos (fun _ _ => pos_mul) _ 1 (show (0 : Rat) < 1 by norm_num) ?_ T hT).good
  intro f hf
  rw [List.mem_map] at hf
  obtain ⟨a, ha, rfl⟩ := hf
  exact km_factor _ _ htg (add_nonneg (hx a ha) hg)

theorem km_wf (cfg : Cfg) (x : List Rat) (hne : x ≠ []) (hx : ∀ a ∈ x, 0 ≤ a)
    (hg : 0 ≤ cfg.kw.g.getD 0) (htg : 0 < cfg.t + cfg.kw.g.getD 0) :
    ∃ p hist, kaplanMarkov cfg x = .ok (p, hist) ∧ WellFormed x.length cfg.randomOrder p hist := by
  refine ⟨_, _, km_eq cfg x hne hx, ?_⟩
  have hne' : kmTerms cfg x ≠ [] := by
    intro h; have := kmTerms_length cfg x; rw [h] at this
    exact hne (List.length_eq_zero_iff.mp this.symm)
  have := finish_pval cfg.randomOrder hne' (kmTerms_good cfg x hx hg htg)
  rw [kmTerms_length] at this
  exact this

/-- **C11, `kaplan_markov`, range/length/NaN.**  Guard: non-empty sample of non-negative values,
`g ≥ 0`, `t + g > 0` (with `t = g = 0` the first factor is `0/0`). -/
theorem wellformed_km (cfg : Cfg) (x : List Rat) (hne : x ≠ []) (hx : ∀ a ∈ x, 0 ≤ a)
    (hg : 0 ≤ cfg.kw.g.getD 0) (htg : 0 < cfg.t + cfg.kw.g.getD 0) :
    ∃ p hist, kaplanMarkov cfg x = .ok (p, hist) ∧ hist.length = x.length ∧
      (∀ h ∈ hist, IsP h) ∧ IsP p := by
  obtain ⟨p, hist, he, h1, h2, h3, _⟩ := km_wf cfg x hne hx hg htg
  exact ⟨p, hist, he, h1, h2, h3⟩

/-- **C11, `kaplan_markov`, overall value.** -/
theorem overall_is_min_or_last_km (cfg : Cfg) (x : List Rat) (hne : x ≠ []) (hx : ∀ a ∈ x, 0 ≤ a)
    (hg : 0 ≤ cfg.kw.g.getD 0) (htg : 0 < cfg.t + cfg.kw.g.getD 0)
    (p : XR) (hist : List XR) (hrun : kaplanMarkov cfg x = .ok (p, hist)) :
    (cfg.randomOrder = true → p = XR.minList hist) ∧
    (cfg.randomOrder = false → hist.getLast? = some p) := by
  obtain ⟨p', hist', he, _, _, _, h4, h5⟩ := km_wf cfg x hne hx hg htg
  rw [he] at hrun
  injection hrun with hrun
  injection hrun with hp hh
  subst hp; subst hh
  exact ⟨h4, h5⟩

theorem km_err_neg (cfg : Cfg) (x : List Rat) (h : ∃ a ∈ x, a < 0) : kaplanMarkov cfg x = .error .value := by
  unfold kaplanMarkov
  have h2 : x.any (· < 0) = true := by
    simp only [List.any_eq_true, decide_eq_true_eq]; exact h
  simp only [h2]
  rfl

theorem km_err_empty (cfg : Cfg) :
    kaplanMarkov cfg [] = .error (if cfg.randomOrder = true then .value else .index) := by
  unfold kaplanMarkov
  cases cfg.randomOrder <;> rfl

-- non-vacuity: t = 1/2, g = 0, a zero observation (factor +inf) is inside the guard
example : ∃ p hist, kaplanMarkov { N := none, u := 1, t := 1/2, randomOrder := false, kw := {} }
    [1, 0, 1/2] = .ok (p, hist) ∧ hist.length = 3 ∧ (∀ h ∈ hist, IsP h) ∧ IsP p :=
  wellformed_km _ _ (by simp) (by intro a ha; simp at ha; rcases ha with rfl | rfl | rfl <;> norm_num)
    (by simp) (by simp)

/-! ## `kaplan_kolmogorov` -/

/-- the null means `mu_1, mu_2, ...` of `kaplan_kolmogorov` (the vector `m` of `sjm(N, t+g, x+g)`) -/
def kkM (cfg : Cfg) (n : Nat) (x : List Rat) : List Rat :=
  nullMeansFrom (some n) (cfg.t + cfg.kw.g.getD 0) 0 1 (x.map (· + cfg.kw.g.getD 0))

/-- the factors `(x_i + g)/mu_i` of `kaplan_kolmogorov` -/
def kkFactors (cfg : Cfg) (n : Nat) (x : List Rat) : List XR :=
  ((x.map (· + cfg.kw.g.getD 0)).zip (kkM cfg n x)).map fun (a, mj) => (XR.fin a) / (XR.fin mj)

/-- the terms of `kaplan_kolmogorov` after the two mask assignments (L515-517) -/
def kkMasked (cfg : Cfg) (n : Nat) (x : List Rat) : List XR :=
  ((kkM cfg n x).zip ((XR.cumprod (kkFactors cfg n x)).map (fun T => if T.isNan then (1 : XR) else T))).map
    (fun (mj, T) => if mj < 0 then XR.pinf else T)

/-- under the guard the model of `kaplan_kolmogorov` raises nothing and returns this pair -/
theorem kk_eq (cfg : Cfg) (n : Nat) (x : List Rat) (hN : cfg.N = some n) (hne : x ≠ [])
    (hx : ∀ a ∈ x, 0 ≤ a) (hlen : x.length ≤ n) :
    kaplanKolmogorov cfg x = .ok
      (XR.pymin ((1 : XR) / (if cfg.randomOrder = true then XR.maxList (kkMasked cfg n x)
          else lastD (kkMasked cfg n x))) 1,
       (kkMasked cfg n x).map (fun T => XR.npmin ((1 : XR) / T) 1)) := by
  unfold kaplanKolmogorov
  have h2 : x.any (· < 0) = false := by
    simp only [List.any_eq_false, decide_eq_true_eq, not_lt]; exact hx
  have h3 : x.isEmpty = false := by cases x <;> simp_all
  have h4 : ¬ x.length > n := by omega
  have h5 : n ≠ 0 := by
    intro h; subst h; cases x <;> simp_all
  simp only [h2, hN, h4, h5, sjm, List.isEmpty_map, h3, List.length_map]
  rfl

/-- the null mean before draw `j+1` (0-based index `j`):
`(N (t+g) − Σ_{k<j} (x_k+g)) / (N − (j+1) + 1)` -/
def kkMu (cfg : Cfg) (n : Nat) (x : List Rat) (j : Nat) : Rat :=
  mu (some n) (cfg.t + cfg.kw.g.getD 0) (psum (x.map (· + cfg.kw.g.getD 0)) j) (j + 1)

theorem kkM_length (cfg : Cfg) (n : Nat) (x : List Rat) : (kkM cfg n x).length = x.length := by
  simp [kkM, nullMeansFrom_length]

theorem kkM_getElem? (cfg : Cfg) (n : Nat) (x : List Rat) (j : Nat) (hj : j < x.length) :
    (kkM cfg n x)[j]? = some (kkMu cfg n x j) := by
  unfold kkM kkMu
  rw [nullMeansFrom_getElem? _ _ _ _ _ _ (by simpa using hj), zero_add, Nat.add_comm 1 j]

theorem kkFactors_length (cfg : Cfg) (n : Nat) (x : List Rat) : (kkFactors cfg n x).length = x.length := by
  simp [kkFactors, kkM_length]

theorem kkFactors_getElem? (cfg : Cfg) (n : Nat) (x : List Rat) (j : Nat) (a : Rat) (ha : x[j]? = some a) :
    (kkFactors cfg n x)[j]? = some ((XR.fin (a + cfg.kw.g.getD 0)) / (XR.fin (kkMu cfg n x j))) := by
  have hj : j < x.length := (List.getElem?_eq_some_iff.1 ha).1
  unfold kkFactors
  rw [List.getElem?_map, getElem?_zip_some (a := a + cfg.kw.g.getD 0) (by simp [ha]) (kkM_getElem? cfg n x j hj)]
  rfl

theorem kkMasked_length (cfg : Cfg) (n : Nat) (x : List Rat) : (kkMasked cfg n x).length = x.length := by
  simp [kkMasked, kkM_length, cumprod_length, kkFactors_length]

/-- entry `j` of the masked terms in terms of entry `j` of the raw cumulative product -/
theorem kkMasked_getElem? (cfg : Cfg) (n : Nat) (x : List Rat) (j : Nat) (T : XR) (hj : j < x.length)
    (hT : (XR.cumprod (kkFactors cfg n x))[j]? = some T) :
    (kkMasked cfg n x)[j]? =
      some (if kkMu cfg n x j < 0 then XR.pinf else if T.isNan = true then (1 : XR) else T) := by
  unfold kkMasked
  rw [List.getElem?_map, getElem?_zip_some (kkM_getElem? cfg n x j hj)
    (b := if T.isNan = true then (1 : XR) else T) (by rw [List.getElem?_map, hT]; rfl)]
  rfl

theorem isNan_of_good {T : XR} (h : Good T) : T.isNan = false := by
  rcases h.cases with rfl | ⟨q, _, rfl⟩ <;> rfl

theorem kkMasked_good (cfg : Cfg) (n : Nat) (x : List Rat) (hx : ∀ a ∈ x, 0 ≤ a) (hlen : x.length ≤ n)
    (hg : 0 ≤ cfg.kw.g.getD 0) : ∀ T ∈ kkMasked cfg n x, Good T := by
  apply getElem?_mem_all
  intro j M hM
  have hj : j < x.length := by
    have := (List.getElem?_eq_some_iff.1 hM).1
    rwa [kkMasked_length] at this
  have hxg : ∀ a ∈ x.map (· + cfg.kw.g.getD 0), 0 ≤ a := by
    intro a ha
    rw [List.mem_map] at ha
    obtain ⟨b, hb, rfl⟩ := ha
    exact add_nonneg (hx b hb) hg
  by_cases hneg : kkMu cfg n x j < 0
  · obtain ⟨T, hT⟩ := getElem?_some_of_lt (l := XR.cumprod (kkFactors cfg n x)) (i := j)
      (by rw [cumprod_length, kkFactors_length]; exact hj)
    rw [kkMasked_getElem? cfg n x j T hj hT, if_pos hneg] at hM
    injection hM with hM; subst hM; trivial
  · -- the null mean is non-negative at `j`, hence at every earlier draw: all factors are good or nan
    have hmj : 0 ≤ kkMu cfg n x j := not_lt.mp hneg
    have hfac : ∀ i ≤ j, ∀ f, (kkFactors cfg n x)[i]? = some f → GN f := by
      intro i hi f hf
      have hi' : i < x.length := lt_of_le_of_lt hi hj
      obtain ⟨a, ha⟩ := getElem?_some_of_lt hi'
      rw [kkFactors_getElem? cfg n x i a ha] at hf
      injection hf with hf; subst hf
      apply gn_div (add_nonneg (hx a (List.mem_of_getElem? ha)) hg)
      have := mu_nonneg_of_later (n := n) hxg (cfg.t + cfg.kw.g.getD 0) 0 hi
        (j := i + 1) (j' := j + 1) (by omega) (by omega) (by simpa [kkMu] using hmj)
      simpa [kkMu] using this
    obtain ⟨T, hT, hGN⟩ := cumprodFrom_getElem?_closed GN (fun _ _ => gn_mul) (kkFactors cfg n x) 1 j
      (Or.inr good_one) (by rw [kkFactors_length]; exact hj) hfac
    rw [kkMasked_getElem? cfg n x j T hj hT, if_neg hneg] at hM
    injection hM with hM; subst hM
    rcases hGN with rfl | hG
    · simp only [isNan_nan, ↓reduceIte]; exact good_one
    · rw [isNan_of_good hG]; simpa using hG

theorem kk_wf (cfg : Cfg) (n : Nat) (x : List Rat) (hN : cfg.N = some n) (hne : x ≠ [])
    (hx : ∀ a ∈ x, 0 ≤ a) (hlen : x.length ≤ n) (hg : 0 ≤ cfg.kw.g.getD 0) :
    ∃ p hist, kaplanKolmogorov cfg x = .ok (p, hist) ∧ WellFormed x.length cfg.randomOrder p hist := by
  refine ⟨_, _, kk_eq cfg n x hN hne hx hlen, ?_⟩
  have hne' : kkMasked cfg n x ≠ [] := by
    intro h; have := kkMasked_length cfg n x; rw [h] at this
    exact hne (List.length_eq_zero_iff.mp this.symm)
  have := finish_stat (fun s => XR.pymin ((1 : XR) / s) 1) (fun T => XR.npmin ((1 : XR) / T) 1)
    (fun T hT => pymin_inv_one hT) (fun T hT => npmin_inv_one hT) cfg.randomOrder hne'
    (kkMasked_good cfg n x hx hlen hg)
  rw [kkMasked_length] at this
  exact this

/-- **C11, `kaplan_kolmogorov`, range/length/NaN.**  Guard: finite `N`, `1 ≤ |x| ≤ N`, observations
`≥ 0`, `g ≥ 0`.  No condition on `t` is needed: a null mean that is `0` gives `0/0` (set to 1) or `+inf`,
a negative one gives `+inf`. -/
theorem wellformed_kk (cfg : Cfg) (n : Nat) (x : List Rat) (hN : cfg.N = some n) (hne : x ≠ [])
    (hx : ∀ a ∈ x, 0 ≤ a) (hlen : x.length ≤ n) (hg : 0 ≤ cfg.kw.g.getD 0) :
    ∃ p hist, kaplanKolmogorov cfg x = .ok (p, hist) ∧ hist.length = x.length ∧
      (∀ h ∈ hist, IsP h) ∧ IsP p := by
  obtain ⟨p, hist, he, h1, h2, h3, _⟩ := kk_wf cfg n x hN hne hx hlen hg
  exact ⟨p, hist, he, h1, h2, h3⟩

/-- **C11, `kaplan_kolmogorov`, overall value.** -/
theorem overall_is_min_or_last_kk (cfg : Cfg) (n : Nat) (x : List Rat) (hN : cfg.N = some n) (hne : x ≠ [])
    (hx : ∀ a ∈ x, 0 ≤ a) (hlen : x.length ≤ n) (hg : 0 ≤ cfg.kw.g.getD 0)
    (p : XR) (hist : List XR) (hrun : kaplanKolmogorov cfg x = .ok (p, hist)) :
    (cfg.randomOrder = true → p = XR.minList hist) ∧
    (cfg.randomOrder = false → hist.getLast? = some p) := by
  obtain ⟨p', hist', he, _, _, _, h4, h5⟩ := kk_wf cfg n x hN hne hx hlen hg
  rw [he] at hrun
  injection hrun with hrun
  injection hrun with hp hh
  subst hp; subst hh
  exact ⟨h4, h5⟩

/-- error clause: with `N = np.inf`, `int(N)` raises `OverflowError` (for any sample without negative values) -/
theorem kk_err_infinite (cfg : Cfg) (x : List Rat) (hN : cfg.N = none) (hx : ∀ a ∈ x, 0 ≤ a) :
    kaplanKolmogorov cfg x = .error .overflow := by
  unfold kaplanKolmogorov
  have h2 : x.any (· < 0) = false := by
    simp only [List.any_eq_false, decide_eq_true_eq, not_lt]; exact hx
  simp only [h2, hN]
  rfl

/-- error clause: a negative observation raises `AssertionError` -/
theorem kk_err_neg (cfg : Cfg) (x : List Rat) (h : ∃ a ∈ x, a < 0) :
    kaplanKolmogorov cfg x = .error .assertion := by
  unfold kaplanKolmogorov
  have h2 : x.any (· < 0) = true := by
    simp only [List.any_eq_true, decide_eq_true_eq]; exact h
  simp only [h2]
  rfl

/-- error clause: a sample longer than the population raises `AssertionError` -/
theorem kk_err_long (cfg : Cfg) (n : Nat) (x : List Rat) (hN : cfg.N = some n) (hlen : n < x.length) :
    kaplanKolmogorov cfg x = .error .assertion := by
  unfold kaplanKolmogorov
  by_cases h2 : x.any (· < 0) = true
  · simp only [h2]; rfl
  · have h4 : x.length > n := hlen
    simp only [h2, hN, h4]
    rfl

/-- error clause: the empty sample (`sjm`: `j[-1]` on an empty array raises `IndexError`); `N ≥ 1` -/
theorem kk_err_empty (cfg : Cfg) (n : Nat) (hN : cfg.N = some n) (hn : n ≠ 0) :
    kaplanKolmogorov cfg [] = .error .index := by
  unfold kaplanKolmogorov
  simp only [hN, hn, sjm]
  rfl

/-- error clause: `N = 0` raises `AssertionError` ("Population size not positive!") whatever the sample -/
theorem kk_err_N0 (cfg : Cfg) (x : List Rat) (hN : cfg.N = some 0) :
    kaplanKolmogorov cfg x = .error .assertion := by
  unfold kaplanKolmogorov
  by_cases h2 : x.any (· < 0) = true
  · simp only [h2]; rfl
  · by_cases h4 : x.length > 0
    · simp only [h2, hN, h4]; rfl
    · simp only [h2, hN, h4]; rfl

-- non-vacuity: N = 4, t = 1/2, g = 0 and a sample that drives the null mean to 0 and below
example : ∃ p hist, kaplanKolmogorov { N := some 4, u := 1, t := 1/2, randomOrder := true, kw := {} }
    [1, 1, 0, 1] = .ok (p, hist) ∧ hist.length = 4 ∧ (∀ h ∈ hist, IsP h) ∧ IsP p :=
  wellformed_kk _ 4 _ rfl (by simp)
    (by intro a ha; simp at ha; rcases ha with rfl | rfl | rfl <;> norm_num) (by simp) (by simp)

/-! ## `wald_sprt` -/

/-- the alternative mean used by `wald_sprt` (`getattr(self, "eta", u*(1-eps))`) -/
def sprtEta (cfg : Cfg) : Rat := cfg.kw.eta.getD (cfg.u * (1 - eps))

/-- the null means of `wald_sprt` (L648-657), literally -/
def sprtM (cfg : Cfg) (x : List Rat) : List XR :=
  match cfg.N with
  | some n => mapIdxFrom (fun j s => (XR.fin ((n : Rat) * cfg.t - s)) / (XR.fin ((n : Rat) - (j : Rat) + 1))) 1
      (prefixSums x)
  | none => x.map (fun _ => XR.fin cfg.t)

/-- the alternative means of `wald_sprt` truncated above at `u`, literally -/
def sprtE0 (cfg : Cfg) (x : List Rat) : List XR :=
  match cfg.N with
  | some n => mapIdxFrom (fun j s => XR.npmin (.fin cfg.u)
      ((XR.fin ((n : Rat) * sprtEta cfg - s)) / (XR.fin ((n : Rat) - (j : Rat) + 1)))) 1 (prefixSums x)
  | none => x.map (fun _ => XR.fin (sprtEta cfg))

/-- ... and not below the null mean (`etas = np.maximum(etas, m)`), literally -/
def sprtE (cfg : Cfg) (x : List Rat) : List XR :=
  ((sprtE0 cfg x).zip (sprtM cfg x)).map (fun (e, mj) => XR.npmax e mj)

/-- one factor `[x eta/mu + (u−x)(u−eta)/(u−mu)]/u` in IEEE arithmetic -/
def sprtFactor (u xj : Rat) (e mj : XR) : XR :=
  ((XR.fin xj) * e / mj + (XR.fin (u - xj)) * ((XR.fin u) - e) / ((XR.fin u) - mj)) / (XR.fin u)

def sprtFactors (cfg : Cfg) (x : List Rat) : List XR :=
  (x.zip ((sprtE cfg x).zip (sprtM cfg x))).map fun (xj, e, mj) => sprtFactor cfg.u xj e mj

/-- the terms of `wald_sprt` after the five mask assignments (L662-666) -/
def sprtMasked (cfg : Cfg) (x : List Rat) : List XR :=
  ((sprtM cfg x).zip (XR.cumprod (sprtFactors cfg x))).map
    (fun (mj, T) => maskTermX cfg.u (2 * eps) (1 / 1000000) mj T)

theorem sprtM_length (cfg : Cfg) (x : List Rat) : (sprtM cfg x).length = x.length := by
  unfold sprtM; cases cfg.N <;> simp [mapIdxFrom_length, prefixSums, prefixSumsFrom_length]
theorem sprtE0_length (cfg : Cfg) (x : List Rat) : (sprtE0 cfg x).length = x.length := by
  unfold sprtE0; cases cfg.N <;> simp [mapIdxFrom_length, prefixSums, prefixSumsFrom_length]
theorem sprtE_length (cfg : Cfg) (x : List Rat) : (sprtE cfg x).length = x.length := by
  simp [sprtE, sprtE0_length, sprtM_length]
theorem sprtFactors_length (cfg : Cfg) (x : List Rat) : (sprtFactors cfg x).length = x.length := by
  simp [sprtFactors, sprtM_length, sprtE_length]
theorem sprtMasked_length (cfg : Cfg) (x : List Rat) : (sprtMasked cfg x).length = x.length := by
  simp [sprtMasked, sprtM_length, cumprod_length, sprtFactors_length]

/-- under the guard (`x` non-empty, in `[0,u]`, `random_order` when `N` is finite) the model of
`wald_sprt` raises nothing and returns this pair -/
theorem sprt_eq (cfg : Cfg) (x : List Rat) (hne : x ≠ []) (hx : ∀ a ∈ x, 0 ≤ a ∧ a ≤ cfg.u)
    (hro : cfg.N ≠ none → cfg.randomOrder = true) :
    waldSprt cfg x = .ok (pAndHist cfg.randomOrder (sprtMasked cfg x)) := by
  have h2 : x.any (fun a => a < 0 || cfg.u < a) = false := by
    simp only [List.any_eq_false, Bool.or_eq_true, decide_eq_true_eq, not_or, not_lt]; exact hx
  have hE : (XR.cumprod (sprtFactors cfg x)).isEmpty = false := by
    rw [cumprod_isEmpty]
    cases h : sprtFactors cfg x with
    | nil =>
      have := sprtFactors_length cfg x
      rw [h] at this
      exact absurd (List.length_eq_zero_iff.mp this.symm) hne
    | cons _ _ => rfl
  unfold sprtMasked sprtFactors sprtE sprtM sprtE0 sprtEta sprtFactor at *
  unfold waldSprt
  cases hN : cfg.N with
  | none =>
    rw [hN] at hE
    simp only [h2, Bool.false_eq_true, ↓reduceIte, pure_bind]
    split
    · rename_i h; rw [hE] at h; cases h
    · rfl
  | some n =>
    rw [hN] at hE
    have hro' := hro (by rw [hN]; simp)
    simp only [h2, hro', Bool.not_true, Bool.false_eq_true, ↓reduceIte, pure_bind]
    split
    · rename_i h; rw [hE] at h; cases h
    · rfl

/-- the null mean before draw `j+1` (0-based index `j`): `(N t − Σ_{k<j} x_k)/(N − (j+1) + 1)`, or `t` -/
def sprtMu (cfg : Cfg) (x : List Rat) (j : Nat) : Rat := mu cfg.N cfg.t (psum x j) (j + 1)

/-- the alternative mean before draw `j+1` truncated above:
`min(u, (N eta − Σ_{k<j} x_k)/(N − (j+1) + 1))`, or `eta` -/
def sprtEt0 (cfg : Cfg) (x : List Rat) (j : Nat) : Rat :=
  match cfg.N with
  | some n => min cfg.u (mu (some n) (sprtEta cfg) (psum x j) (j + 1))
  | none => sprtEta cfg

/-- the alternative mean actually used before draw `j+1`: not below the null mean -/
def sprtEt (cfg : Cfg) (x : List Rat) (j : Nat) : Rat := max (sprtEt0 cfg x j) (sprtMu cfg x j)

/-- `x.length ≤ N` for finite `N` -/
def FitsN (N : Option Nat) (len : Nat) : Prop := ∀ n, N = some n → len ≤ n

theorem sprtM_getElem? (cfg : Cfg) (x : List Rat) (hfit : FitsN cfg.N x.length) (j : Nat) (hj : j < x.length) :
    (sprtM cfg x)[j]? = some (XR.fin (sprtMu cfg x j)) := by
  unfold sprtM sprtMu
  cases hN : cfg.N with
  | none => simp only [List.getElem?_map, List.getElem?_eq_getElem hj, Option.map_some, mu_none]
  | some n =>
    have hjn : j + 1 ≤ n := by have := hfit n hN; omega
    simp only [mapIdxFrom_getElem?, prefixSums, prefixSumsFrom_getElem? x 0 j hj, Option.map_some, zero_add]
    rw [fin_div _ _ (by rw [Nat.add_comm]; exact ne_of_gt (den_pos hjn)), mu_some, Nat.add_comm 1 j]

theorem sprtE0_getElem? (cfg : Cfg) (x : List Rat) (hfit : FitsN cfg.N x.length) (j : Nat) (hj : j < x.length) :
    (sprtE0 cfg x)[j]? = some (XR.fin (sprtEt0 cfg x j)) := by
  unfold sprtE0 sprtEt0
  cases hN : cfg.N with
  | none => simp only [List.getElem?_map, List.getElem?_eq_getElem hj, Option.map_some]
  | some n =>
    have hjn : j + 1 ≤ n := by have := hfit n hN; omega
    simp only [mapIdxFrom_getElem?, prefixSums, prefixSumsFrom_getElem? x 0 j hj, Option.map_some, zero_add]
    rw [fin_div _ _ (by rw [Nat.add_comm]; exact ne_of_gt (den_pos hjn)), npmin_fin_fin, mu_some, Nat.add_comm 1 j]

theorem npmax_fin_fin' (a b : Rat) : XR.npmax (.fin a) (.fin b) = .fin (max a b) := by
  simp only [XR.npmax, XR.isNan_fin, Bool.or_self, Bool.false_eq_true, ↓reduceIte, XR.lt_fin, decide_eq_true_eq]
  by_cases h : a < b
  · rw [if_pos h, max_eq_right h.le]
  · rw [if_neg h, max_eq_left (not_lt.mp h)]

theorem sprtE_getElem? (cfg : Cfg) (x : List Rat) (hfit : FitsN cfg.N x.length) (j : Nat) (hj : j < x.length) :
    (sprtE cfg x)[j]? = some (XR.fin (sprtEt cfg x j)) := by
  unfold sprtE sprtEt
  rw [List.getElem?_map, getElem?_zip_some (sprtE0_getElem? cfg x hfit j hj) (sprtM_getElem? cfg x hfit j hj)]
  simp only [Option.map_some, npmax_fin_fin']

theorem sprtFactors_getElem? (cfg : Cfg) (x : List Rat) (hfit : FitsN cfg.N x.length) (j : Nat) (a : Rat)
    (ha : x[j]? = some a) :
    (sprtFactors cfg x)[j]? =
      some (sprtFactor cfg.u a (XR.fin (sprtEt cfg x j)) (XR.fin (sprtMu cfg x j))) := by
  have hj : j < x.length := (List.getElem?_eq_some_iff.1 ha).1
  unfold sprtFactors
  rw [List.getElem?_map, getElem?_zip_some ha
    (getElem?_zip_some (sprtE_getElem? cfg x hfit j hj) (sprtM_getElem? cfg x hfit j hj))]
  rfl

theorem sprtMasked_getElem? (cfg : Cfg) (x : List Rat) (hfit : FitsN cfg.N x.length) (j : Nat) (T : XR)
    (hj : j < x.length) (hT : (XR.cumprod (sprtFactors cfg x))[j]? = some T) :
    (sprtMasked cfg x)[j]? = some (maskTermX cfg.u (2 * eps) (1 / 1000000) (XR.fin (sprtMu cfg x j)) T) := by
  unfold sprtMasked
  rw [List.getElem?_map, getElem?_zip_some (sprtM_getElem? cfg x hfit j hj) hT]
  rfl

/-- the rational value of a regular factor -/
def sprtPhi (u a e m : Rat) : Rat := (a * e / m + (u - a) * (u - e) / (u - m)) / u

theorem sprtFactor_fin (u a e m : Rat) (hm : m ≠ 0) (hum : u - m ≠ 0) (hu : u ≠ 0) :
    sprtFactor u a (XR.fin e) (XR.fin m) = XR.fin (sprtPhi u a e m) := by
  unfold sprtFactor sprtPhi
  rw [fin_mul, fin_sub, fin_sub, fin_mul, fin_div _ _ hm, fin_div _ _ hum, fin_add, fin_div _ _ hu]

theorem sprtPhi_nonneg {u a e m : Rat} (ha0 : 0 ≤ a) (hau : a ≤ u) (he0 : 0 ≤ e) (heu : e ≤ u)
    (hm0 : 0 < m) (hmu : m < u) : 0 ≤ sprtPhi u a e m := by
  unfold sprtPhi
  have hu : 0 < u := lt_trans hm0 hmu
  have h1 : 0 ≤ a * e / m := div_nonneg (mul_nonneg ha0 he0) (le_of_lt hm0)
  have h2 : 0 ≤ (u - a) * (u - e) / (u - m) :=
    div_nonneg (mul_nonneg (by linarith) (by linarith)) (by linarith)
  exact div_nonneg (by linarith) (le_of_lt hu)

theorem eps_pos : 0 < eps := by unfold eps; norm_num

/-- the guard of the SPRT theorems on the configuration -/
structure SprtGuard (cfg : Cfg) (x : List Rat) : Prop where
  ne : x ≠ []
  range : ∀ a ∈ x, 0 ≤ a ∧ a ≤ cfg.u
  fits : FitsN cfg.N x.length
  t_pos : 0 < cfg.t
  t_lt_u : cfg.t < cfg.u
  t_le_eta : cfg.t ≤ sprtEta cfg
  eta_le_u : sprtEta cfg ≤ cfg.u
  ro : cfg.N ≠ none → cfg.randomOrder = true

/-- regular null means at `j` force regular null means and non-negative truncated alternatives before `j` -/
theorem sprt_regular_before (cfg : Cfg) (x : List Rat) (G : SprtGuard cfg x) (j : Nat) (hj : j < x.length)
    (h0 : 0 < sprtMu cfg x j) (hu : sprtMu cfg x j < cfg.u) (i : Nat) (hi : i ≤ j) :
    0 < sprtMu cfg x i ∧ sprtMu cfg x i < cfg.u ∧ 0 ≤ sprtEt cfg x i ∧ sprtEt cfg x i ≤ cfg.u := by
  have hupos : 0 < cfg.u := lt_trans G.t_pos G.t_lt_u
  have key : 0 < sprtMu cfg x i ∧ sprtMu cfg x i < cfg.u := by
    unfold sprtMu at *
    cases hN : cfg.N with
    | none =>
      simp only [mu_none]
      exact ⟨G.t_pos, G.t_lt_u⟩
    | some n =>
      rw [hN] at h0 hu
      have hjn : j + 1 ≤ n := by have := G.fits n hN; omega
      have hin : i + 1 ≤ n := by omega
      have hx0 : ∀ a ∈ x, 0 ≤ a := fun a ha => (G.range a ha).1
      have hxu : ∀ a ∈ x, a ≤ cfg.u := fun a ha => (G.range a ha).2
      have hmi : 0 < mu (some n) cfg.t (psum x i) (i + 1) := by
        have := mu_pos_of_later (n := n) hx0 cfg.t 0 hi hin hjn (by simpa using h0)
        simpa using this
      exact ⟨hmi, mu_lt_u_of_later (le_of_lt hupos) hxu cfg.t hi hjn hu⟩
  have he0 : sprtEt0 cfg x i ≤ cfg.u := by
    unfold sprtEt0
    cases hN : cfg.N with
    | none => exact G.eta_le_u
    | some n => exact min_le_left _ _
  exact ⟨key.1, key.2, le_trans key.1.le (le_max_right _ _), max_le he0 key.2.le⟩

theorem sprtMasked_good (cfg : Cfg) (x : List Rat) (G : SprtGuard cfg x) : ∀ T ∈ sprtMasked cfg x, Good T := by
  apply getElem?_mem_all
  intro j M hM
  have hj : j < x.length := by
    have := (List.getElem?_eq_some_iff.1 hM).1
    rwa [sprtMasked_length] at this
  have hupos : 0 < cfg.u := lt_trans G.t_pos G.t_lt_u
  obtain ⟨T, hT⟩ := getElem?_some_of_lt (l := XR.cumprod (sprtFactors cfg x)) (i := j)
    (by rw [cumprod_length, sprtFactors_length]; exact hj)
  rw [sprtMasked_getElem? cfg x G.fits j T hj hT] at hM
  injection hM with hM; subst hM
  apply maskTermX_good _ _ _ _ _ (le_of_lt hupos) (by have := eps_pos; linarith) (by norm_num)
  intro h0 hu
  have hfac : ∀ i ≤ j, ∀ f, (sprtFactors cfg x)[i]? = some f → FinNN f := by
    intro i hi f hf
    have hi' : i < x.length := lt_of_le_of_lt hi hj
    obtain ⟨a, ha⟩ := getElem?_some_of_lt hi'
    obtain ⟨hm0, hmu, he0, heu⟩ := sprt_regular_before cfg x G j hj h0 hu i hi
    rw [sprtFactors_getElem? cfg x G.fits i a ha,
      sprtFactor_fin _ _ _ _ (ne_of_gt hm0) (by linarith) (ne_of_gt hupos)] at hf
    injection hf with hf; subst hf
    have hax := G.range a (List.mem_of_getElem? ha)
    exact ⟨_, sprtPhi_nonneg hax.1 hax.2 he0 heu hm0 hmu, rfl⟩
  obtain ⟨T', hT', hC⟩ := cumprodFrom_getElem?_closed FinNN (fun _ _ => finNN_mul) (sprtFactors cfg x) 1 j
    ⟨1, by norm_num, rfl⟩ (by rw [sprtFactors_length]; exact hj) hfac
  have : T = T' := by
    have h := hT.symm.trans hT'
    injection h
  rw [this]; exact hC

theorem sprt_wf (cfg : Cfg) (x : List Rat) (G : SprtGuard cfg x) :
    ∃ p hist, waldSprt cfg x = .ok (p, hist) ∧ WellFormed x.length cfg.randomOrder p hist := by
  refine ⟨_, _, sprt_eq cfg x G.ne G.range G.ro, ?_⟩
  have hne' : sprtMasked cfg x ≠ [] := by
    intro h; have := sprtMasked_length cfg x; rw [h] at this
    exact G.ne (List.length_eq_zero_iff.mp this.symm)
  have := finish_stat (fun s => XR.pymin 1 ((1 : XR) / s)) (fun T => XR.npmin 1 ((1 : XR) / T))
    (fun T hT => pymin_one_inv hT) (fun T hT => npmin_one_inv hT) cfg.randomOrder hne'
    (sprtMasked_good cfg x G)
  rw [sprtMasked_length] at this
  exact this

/-- **C11, `wald_sprt`, range/length/NaN.**  Guard (`SprtGuard`): non-empty sample in `[0,u]`, no longer
than a finite population, `0 < t < u`, alternative `eta` (the attribute, or its default `u(1−eps)`) with
`t ≤ eta ≤ u`, and `random_order = True` when `N` is finite. -/
theorem wellformed_sprt (cfg : Cfg) (x : List Rat) (G : SprtGuard cfg x) :
    ∃ p hist, waldSprt cfg x = .ok (p, hist) ∧ hist.length = x.length ∧
      (∀ h ∈ hist, IsP h) ∧ IsP p := by
  obtain ⟨p, hist, he, h1, h2, h3, _⟩ := sprt_wf cfg x G
  exact ⟨p, hist, he, h1, h2, h3⟩

/-- **C11, `wald_sprt`, overall value.** -/
theorem overall_is_min_or_last_sprt (cfg : Cfg) (x : List Rat) (G : SprtGuard cfg x)
    (p : XR) (hist : List XR) (hrun : waldSprt cfg x = .ok (p, hist)) :
    (cfg.randomOrder = true → p = XR.minList hist) ∧
    (cfg.randomOrder = false → hist.getLast? = some p) := by
  obtain ⟨p', hist', he, _, _, _, h4, h5⟩ := sprt_wf cfg x G
  rw [he] at hrun
  injection hrun with hrun
  injection hrun with hp hh
  subst hp; subst hh
  exact ⟨h4, h5⟩

/-- error clause: sampling without replacement (`N` finite) with `random_order = False` is refused -/
theorem sprt_err_not_random (cfg : Cfg) (n : Nat) (x : List Rat) (hN : cfg.N = some n)
    (hro : cfg.randomOrder = false) : waldSprt cfg x = .error .value := by
  unfold waldSprt
  by_cases h2 : x.any (fun a => a < 0 || cfg.u < a) = true
  · simp only [h2]; rfl
  · simp only [h2, hN, hro]
    rfl

/-- error clause: an observation outside `[0,u]` -/
theorem sprt_err_range (cfg : Cfg) (x : List Rat) (h : ∃ a ∈ x, a < 0 ∨ cfg.u < a) :
    waldSprt cfg x = .error .value := by
  unfold waldSprt
  have h2 : x.any (fun a => a < 0 || cfg.u < a) = true := by
    simp only [List.any_eq_true, Bool.or_eq_true, decide_eq_true_eq]; exact h
  simp only [h2]
  rfl

/-- error clause: the empty sample (`np.max` of an empty array: `ValueError`; `terms[-1]`: `IndexError`) -/
theorem sprt_err_empty (cfg : Cfg) (hro : cfg.N ≠ none → cfg.randomOrder = true) :
    waldSprt cfg [] = .error (if cfg.randomOrder = true then .value else .index) := by
  unfold waldSprt
  cases hN : cfg.N with
  | none => cases cfg.randomOrder <;> rfl
  | some n =>
    have hro' := hro (by rw [hN]; simp)
    simp only [hro']
    rfl

-- non-vacuity: N = 5, u = 1, t = 1/2, eta = 3/4, random order
example : SprtGuard { N := some 5, u := 1, t := 1/2, randomOrder := true, kw := { eta := some (3/4) } }
    [1, 0, 1/2, 1] where
  ne := by simp
  range := by intro a ha; simp at ha; rcases ha with rfl | rfl | rfl | rfl <;> norm_num
  fits := by intro n hn; simp at hn; subst hn; simp
  t_pos := by norm_num
  t_lt_u := by norm_num
  t_le_eta := by simp [sprtEta]; norm_num
  eta_le_u := by simp [sprtEta]; norm_num
  ro := by intro _; rfl

end Shangrla.C11
