/-
  C13 — shipped estimators and bets keep every martingale factor non-negative.

  Theorems are about the literal model `Shangrla.NM.*` of `shangrla/core/NonnegMean.py`
  (`fixedAlternativeMean`, `shrinkTrunc`, `optimalComparison`, `fixedBet`, `agrapa`, and the
  truncation / factor expressions of `alphaTerms`, `bettingTerms`) that the driver executes.

  Conventions.
  * `mus cfg x` is the list of null conditional means `mu_1 .. mu_n` (`nullMeansFrom cfg.N cfg.t 0 1 x`),
    entry `i` (0-based) being the mean before draw `j = i+1`.
  * Range statements are entrywise: "for all `i m`, if `(mus cfg x)[i]? = some m` then entry `i` of the
    output is `fin e` with …"; together with `l.length = x.length` this describes every entry.
  * The square root is a parameter `sqrtF`; all that is used is `SqrtOK sqrtF`
    (`0 ≤ sqrtF q`, and `0 < sqrtF q` for `0 < q`), which the driver's `sqrtRat` satisfies (`sqrtRat_ok`).
  * `Cfg.etaV`, `Cfg.cV`, … are the parameters as the methods resolve them (`getattr(self, name, default)`).
  * No theorem needs the observations to lie in `[0,u]` except the two `factor_nonneg_*` lemmas:
    the ranges hold for every sample not longer than the population.
-/
import Shangrla.Lemmas.NMRange

namespace Shangrla.C13
open Shangrla Shangrla.NM Shangrla.NMRange
open Shangrla.XR (fin)

/-- what is assumed of the square root -/
structure SqrtOK (sqrtF : Rat → Rat) : Prop where
  nonneg : ∀ q, 0 ≤ sqrtF q
  pos : ∀ q, 0 < q → 0 < sqrtF q

/-- the driver's `Nat.sqrt`-based square root satisfies both hypotheses -/
theorem sqrtRat_ok : SqrtOK sqrtRat := ⟨sqrtRat_nonneg, sqrtRat_pos⟩

/-- the null conditional means `mu_1 .. mu_n` of the sample -/
abbrev mus (cfg : Cfg) (x : List Rat) : List Rat := nullMeansFrom cfg.N cfg.t 0 1 x

theorem length_mus (cfg : Cfg) (x : List Rat) : (mus cfg x).length = x.length := by simp [mus]

/-! ### concrete inputs for the non-vacuity examples -/

/-- population of 5, `u = 1`, `t = 1/2`, fixed alternative `3/4` -/
def cfgA : Cfg := { N := some 5, u := 1, t := 1 / 2, randomOrder := true, kw := { eta := some (3 / 4) } }
/-- a comparison audit: `u = 1 + 2^-40` (the smallest margins), sampling with replacement, all defaults -/
def cfgB : Cfg := { N := none, u := 1 + 1 / 1099511627776, t := 1 / 2, randomOrder := true, kw := {} }
/-- a long run of zeros in a small population -/
def xA : List Rat := [0, 0, 1, 1 / 2]

theorem lenA : LenOK cfgA.N xA := by intro n h; cases h; decide
theorem lenB (x : List Rat) : LenOK cfgB.N x := lenOK_none x
theorem xA_ne : xA ≠ [] := by decide

/-- after one zero the null mean is `5/8` -/
example : (mus cfgA xA)[1]? = some (5 / 8) := by
  simp [mus, cfgA, xA, nullMeansFrom, mu]; norm_num

/-! ### `fixed_alternative_mean` -/

/-- the alternative mean updated for the draws already seen is at least the null mean updated in the same
way, when the initial alternative is at least the null mean (`eta ≥ t`) -/
theorem fixed_alt_ge_mu (N : Option Nat) (t eta : Rat) (h : t ≤ eta) (x : List Rat) (hN : LenOK N x)
    (i : Nat) (m e : Rat) (hm : (nullMeansFrom N t 0 1 x)[i]? = some m)
    (he : (nullMeansFrom N eta 0 1 x)[i]? = some e) : m ≤ e := by
  obtain ⟨s, hs, rfl⟩ := prefixSums_of_nullMeans hm
  obtain ⟨s', hs', rfl⟩ := prefixSums_of_nullMeans he
  have hss : s = s' := by rw [hs] at hs'; injection hs'
  subst hss
  have hi : i < x.length := by simpa using lt_length_of_getElem? hs
  cases N with
  | none => exact h
  | some n =>
    have hlen : x.length ≤ n := hN n rfl
    have hin : (i : Rat) < (n : Rat) := by exact_mod_cast lt_of_lt_of_le hi hlen
    have hn0 : (0 : Rat) ≤ (n : Rat) := by exact_mod_cast Nat.zero_le n
    simp only [mu]
    apply div_le_div_of_nonneg_right
    · have := mul_le_mul_of_nonneg_left h hn0
      linarith
    · push_cast; linarith

example : (1 / 2 : Rat) ≤ 3 / 4 ∧ LenOK (some 5) xA := ⟨by norm_num, lenA⟩

/-- `fixed_alternative_mean` never exceeds `u`, whatever the sample and the initial alternative
(including samples for which the fixed alternative has become impossible) -/
theorem fixed_alt_le_u (cfg : Cfg) (x : List Rat) (hx : x ≠ []) (hN : LenOK cfg.N x) :
    ∃ l, fixedAlternativeMean cfg x = .ok l ∧ l.length = x.length ∧
      ∀ i : Nat, i < x.length → ∃ e : Rat, l[i]? = some (fin e) ∧ e ≤ cfg.u := by
  refine ⟨_, fixedAlternativeMean_eq cfg x hx hN, by simp, ?_⟩
  intro i hi
  obtain ⟨a, ha⟩ := exists_getElem? (nullMeansFrom cfg.N cfg.etaV 0 1 x) (by simpa using hi)
  refine ⟨_, by rw [List.getElem?_map, ha]; rfl, ?_⟩
  split
  · exact le_refl _
  · rename_i h; exact not_lt.mp h

example : ∃ l, fixedAlternativeMean cfgB xA = .ok l ∧ l.length = xA.length ∧
    ∀ i : Nat, i < xA.length → ∃ e : Rat, l[i]? = some (fin e) ∧ e ≤ cfgB.u :=
  fixed_alt_le_u cfgB xA xA_ne (lenB xA)

/-- `fixed_alternative_mean`: every entry is `fin e` with `e ≤ u`; when the initial alternative is at least
the null mean, `e ≥ min(mu_j, u)`, hence `e > 0` (so `e ∈ [0,u]`) wherever `mu_j > 0` -/
theorem fixed_alt_range (cfg : Cfg) (x : List Rat) (ht : 0 < cfg.t) (htu : cfg.t < cfg.u)
    (heta : cfg.t ≤ cfg.etaV) (hx : x ≠ []) (hN : LenOK cfg.N x) :
    ∃ l, fixedAlternativeMean cfg x = .ok l ∧ l.length = x.length ∧
      ∀ (i : Nat) (m : Rat), (mus cfg x)[i]? = some m →
        ∃ e : Rat, l[i]? = some (fin e) ∧ e ≤ cfg.u ∧ min m cfg.u ≤ e ∧ (0 < m → 0 < e) := by
  refine ⟨_, fixedAlternativeMean_eq cfg x hx hN, by simp, ?_⟩
  intro i m hm
  have hi : i < x.length := by simpa using lt_length_of_getElem? hm
  obtain ⟨a, ha⟩ := exists_getElem? (nullMeansFrom cfg.N cfg.etaV 0 1 x) (by simpa using hi)
  have hma : m ≤ a := fixed_alt_ge_mu cfg.N cfg.t cfg.etaV heta x hN i m a hm ha
  have hu : 0 < cfg.u := lt_trans ht htu
  refine ⟨_, by rw [List.getElem?_map, ha]; rfl, ?_, ?_, ?_⟩
  · split
    · exact le_refl _
    · rename_i h; exact not_lt.mp h
  · split
    · exact min_le_right _ _
    · exact le_trans (min_le_left _ _) hma
  · intro hm0
    split
    · exact hu
    · exact lt_of_lt_of_le hm0 hma

example : ∃ l, fixedAlternativeMean cfgA xA = .ok l ∧ l.length = xA.length ∧
    ∀ (i : Nat) (m : Rat), (mus cfgA xA)[i]? = some m →
      ∃ e : Rat, l[i]? = some (fin e) ∧ e ≤ cfgA.u ∧ min m cfgA.u ≤ e ∧ (0 < m → 0 < e) :=
  fixed_alt_range cfgA xA (by norm_num [cfgA]) (by norm_num [cfgA])
    (by norm_num [cfgA, Cfg.etaV]) xA_ne lenA

/-! ### `optimal_comparison` -/

/-- `optimal_comparison` for `u ≠ 1`: every entry is the same `fin e` with `0 ≤ e ≤ u`, for every assumed
error rate and every margin (every `u ≥ 0`, `u ≠ 1`) -/
theorem optimal_comparison_range (cfg : Cfg) (x : List Rat) (hu0 : 0 ≤ cfg.u) (hu : cfg.u ≠ 1) :
    ∃ e : Rat, 0 ≤ e ∧ e ≤ cfg.u ∧ optimalComparison cfg x = .ok (List.replicate x.length (fin e)) :=
  ⟨_, le_min hu0 (le_max_left _ _), min_le_left _ _, optimalComparison_eq cfg x hu⟩

/-- entrywise form -/
theorem optimal_comparison_range_entry (cfg : Cfg) (x : List Rat) (hu0 : 0 ≤ cfg.u) (hu : cfg.u ≠ 1) :
    ∃ l, optimalComparison cfg x = .ok l ∧ l.length = x.length ∧
      ∀ i : Nat, i < x.length → ∃ e : Rat, l[i]? = some (fin e) ∧ 0 ≤ e ∧ e ≤ cfg.u := by
  obtain ⟨e, h0, h1, h⟩ := optimal_comparison_range cfg x hu0 hu
  refine ⟨_, h, by simp, ?_⟩
  intro i hi
  exact ⟨e, by simp [hi], h0, h1⟩

/-- `u = 1` (a Python-float `2 - 2*u = 0`) is the `ZeroDivisionError` branch -/
theorem optimal_comparison_u_one (cfg : Cfg) (x : List Rat) (hu : cfg.u = 1) :
    optimalComparison cfg x = .error .zerodiv := optimalComparison_zerodiv cfg x hu

example : ∃ e : Rat, 0 ≤ e ∧ e ≤ cfgB.u ∧ optimalComparison cfgB xA = .ok (List.replicate xA.length (fin e)) :=
  optimal_comparison_range cfgB xA (by norm_num [cfgB]) (by norm_num [cfgB])
example : optimalComparison cfgA xA = .error .zerodiv := optimal_comparison_u_one cfgA xA rfl

/-! ### `shrink_trunc` -/

/-- the value of every entry of `shrink_trunc`: the shrunk estimate `w`, raised to `mu_j + c/sqrt(d+j-1)`,
truncated at `u(1-eps)` -/
theorem shrink_trunc_entry (sqrtF : Rat → Rat) (hs : SqrtOK sqrtF) (cfg : Cfg) (x : List Rat)
    (hx : x ≠ []) (hN : LenOK cfg.N x) (hd : 0 < cfg.dV) (hf : 0 ≤ cfg.fV) (hmin : 0 < cfg.minsdV) :
    ∃ l, shrinkTrunc sqrtF cfg x = .ok l ∧ l.length = x.length ∧
      ∀ (i : Nat) (m : Rat), (mus cfg x)[i]? = some m →
        ∃ w : Rat, l[i]? = some (fin (min (cfg.u * (1 - eps))
          (max w (m + cfg.cV / sqrtF (cfg.dV + (i : Rat)))))) := by
  refine ⟨_, shrinkTrunc_eq sqrtF cfg x hx hN, by simp, ?_⟩
  intro i m hm
  have hi : i < x.length := by simpa using lt_length_of_getElem? hm
  obtain ⟨s, hs'⟩ := exists_getElem? (prefixSums x) (by simpa using hi)
  obtain ⟨sd, hsd⟩ := exists_getElem? (sdList sqrtF cfg.minsdV x) (by simpa using hi)
  obtain ⟨p, rfl, hp⟩ := sdList_posFin sqrtF _ hmin x sd (List.mem_of_getElem? hsd)
  have hz : ((prefixSums x).zip ((nullMeansFrom cfg.N cfg.t 0 1 x).zip (sdList sqrtF cfg.minsdV x)))[i]?
      = some (s, m, fin p) := by
    rw [List.getElem?_zip_eq_some]
    exact ⟨hs', by rw [List.getElem?_zip_eq_some]; exact ⟨hm, hsd⟩⟩
  have hcast : cfg.dV + ((1 + i : Nat) : Rat) - 1 = cfg.dV + (i : Rat) := by push_cast; ring
  rw [getElem?_mapIdxFrom, hz, Option.map_some,
    stEntry_fin sqrtF hs.pos _ _ _ _ _ hd hf (1 + i) (Nat.le_add_right 1 i) s m p hp, hcast]
  exact ⟨_, rfl⟩

/-- `shrink_trunc` for `d, minsd > 0`, `f ≥ 0` (any `c`, any `eta`): every entry is `fin e` with
`e ≤ u(1-eps)` and `e ≥ min(u(1-eps), mu_j + c/sqrtF(d+j-1))`; hence, for `c > 0`, `0 ≤ e ≤ u` wherever
`mu_j ≥ 0` (here `i = j-1`, so `d + j - 1 = d + i`) -/
theorem shrink_trunc_range (sqrtF : Rat → Rat) (hs : SqrtOK sqrtF) (cfg : Cfg) (x : List Rat)
    (hu : 0 ≤ cfg.u) (hx : x ≠ []) (hN : LenOK cfg.N x)
    (hd : 0 < cfg.dV) (hf : 0 ≤ cfg.fV) (hmin : 0 < cfg.minsdV) :
    ∃ l, shrinkTrunc sqrtF cfg x = .ok l ∧ l.length = x.length ∧
      ∀ (i : Nat) (m : Rat), (mus cfg x)[i]? = some m →
        ∃ e : Rat, l[i]? = some (fin e) ∧ e ≤ cfg.u * (1 - eps) ∧ e ≤ cfg.u ∧
          min (cfg.u * (1 - eps)) (m + cfg.cV / sqrtF (cfg.dV + (i : Rat))) ≤ e ∧
          (0 < cfg.cV → 0 ≤ m → 0 ≤ e) := by
  obtain ⟨l, hl, hlen, h⟩ := shrink_trunc_entry sqrtF hs cfg x hx hN hd hf hmin
  refine ⟨l, hl, hlen, ?_⟩
  intro i m hm
  obtain ⟨w, hw⟩ := h i m hm
  have hue : cfg.u * (1 - eps) ≤ cfg.u := by
    have := mul_le_mul_of_nonneg_left one_sub_eps_le_one hu; linarith
  have hue0 : 0 ≤ cfg.u * (1 - eps) := mul_nonneg hu (le_of_lt one_sub_eps_pos)
  have hlow : min (cfg.u * (1 - eps)) (m + cfg.cV / sqrtF (cfg.dV + (i : Rat))) ≤
      min (cfg.u * (1 - eps)) (max w (m + cfg.cV / sqrtF (cfg.dV + (i : Rat)))) :=
    min_le_min (le_refl _) (le_max_right _ _)
  refine ⟨_, hw, min_le_left _ _, le_trans (min_le_left _ _) hue, hlow, ?_⟩
  intro hc hm0
  refine le_trans (le_min hue0 ?_) hlow
  have hdi : 0 < cfg.dV + (i : Rat) := by
    have : (0 : Rat) ≤ (i : Rat) := by exact_mod_cast Nat.zero_le i
    linarith
  have := div_pos hc (hs.pos _ hdi)
  linarith

example : ∃ l, shrinkTrunc sqrtRat cfgA xA = .ok l ∧ l.length = xA.length ∧
    ∀ (i : Nat) (m : Rat), (mus cfgA xA)[i]? = some m →
      ∃ e : Rat, l[i]? = some (fin e) ∧ e ≤ cfgA.u * (1 - eps) ∧ e ≤ cfgA.u ∧
        min (cfgA.u * (1 - eps)) (m + cfgA.cV / sqrtRat (cfgA.dV + (i : Rat))) ≤ e ∧
        (0 < cfgA.cV → 0 ≤ m → 0 ≤ e) :=
  shrink_trunc_range sqrtRat sqrtRat_ok cfgA xA (by norm_num [cfgA]) xA_ne lenA
    (by norm_num [cfgA, Cfg.dV]) (by norm_num [cfgA, Cfg.fV]) (by norm_num [cfgA, Cfg.minsdV])

/-- `shrink_trunc` stays strictly above the null conditional mean whenever that mean is below `u(1-eps)`
(for `c > 0`; uses `sqrtF (d+j-1) > 0`) -/
theorem shrink_trunc_above_mu_partial (sqrtF : Rat → Rat) (hs : SqrtOK sqrtF) (cfg : Cfg) (x : List Rat)
    (hx : x ≠ []) (hN : LenOK cfg.N x)
    (hc : 0 < cfg.cV) (hd : 0 < cfg.dV) (hf : 0 ≤ cfg.fV) (hmin : 0 < cfg.minsdV) :
    ∃ l, shrinkTrunc sqrtF cfg x = .ok l ∧ l.length = x.length ∧
      ∀ (i : Nat) (m : Rat), (mus cfg x)[i]? = some m → m < cfg.u * (1 - eps) →
        ∃ e : Rat, l[i]? = some (fin e) ∧ m < e := by
  obtain ⟨l, hl, hlen, h⟩ := shrink_trunc_entry sqrtF hs cfg x hx hN hd hf hmin
  refine ⟨l, hl, hlen, ?_⟩
  intro i m hm hlt
  obtain ⟨w, hw⟩ := h i m hm
  refine ⟨_, hw, ?_⟩
  have hdi : 0 < cfg.dV + (i : Rat) := by
    have : (0 : Rat) ≤ (i : Rat) := by exact_mod_cast Nat.zero_le i
    linarith
  have hpos := div_pos hc (hs.pos _ hdi)
  apply lt_min hlt
  exact lt_of_lt_of_le (by linarith) (le_max_right _ _)

example : ∃ l, shrinkTrunc sqrtRat cfgA xA = .ok l ∧ l.length = xA.length ∧
    ∀ (i : Nat) (m : Rat), (mus cfgA xA)[i]? = some m → m < cfgA.u * (1 - eps) → ∃ e : Rat, l[i]? = some (fin e) ∧ m < e :=
  shrink_trunc_above_mu_partial sqrtRat sqrtRat_ok cfgA xA xA_ne lenA (by norm_num [cfgA, Cfg.cV])
    (by norm_num [cfgA, Cfg.dV]) (by norm_num [cfgA, Cfg.fV]) (by norm_num [cfgA, Cfg.minsdV])
example : (5 / 8 : Rat) < cfgA.u * (1 - eps) := by norm_num [cfgA, eps]

/-- The full claim of the property ("strictly above the null mean whenever that mean is below `u`").
It is FALSE of the model (and of the code): the estimate is truncated at `u(1-eps)`, so on the sliver
`u(1-eps) ≤ mu_j < u` it is at most `mu_j`.  See `shrink_trunc_above_mu_full_false` for a counterexample
and `sliver_ignored` / `sliver_masked` for why this is harmless: `alpha_mart` sets the term to 1 there. -/
def shrink_trunc_above_mu_full : Prop :=
  ∀ (sqrtF : Rat → Rat), SqrtOK sqrtF → ∀ (cfg : Cfg) (x : List Rat),
    0 < cfg.t → cfg.t < cfg.u → x ≠ [] → LenOK cfg.N x →
    0 < cfg.cV → 0 < cfg.dV → 0 ≤ cfg.fV → 0 < cfg.minsdV →
    ∃ l, shrinkTrunc sqrtF cfg x = .ok l ∧
      ∀ (i : Nat) (m : Rat), (mus cfg x)[i]? = some m → m < cfg.u → ∃ e : Rat, l[i]? = some (fin e) ∧ m < e

/-- counterexample configuration: `u = 1`, `t = 1 - eps` (the largest double below 1), with replacement -/
def cfgSliver : Cfg := { N := none, u := 1, t := 1 - eps, randomOrder := true, kw := {} }

/-- the full claim fails: with `t = 1 - eps`, `u = 1` the first null mean is `1 - eps < u` and the first
estimate is `≤ u(1-eps) = 1 - eps`
(Python: `NonnegMean(u=1, t=1-2**-52, N=np.inf, estim=NonnegMean.shrink_trunc).estim(np.array([0.]))`
returns `[0.9999999999999998]`, equal to `t`) -/
theorem shrink_trunc_above_mu_full_false : ¬ shrink_trunc_above_mu_full := by
  intro h
  have hx : ([0] : List Rat) ≠ [] := by decide
  have hN : LenOK cfgSliver.N [0] := lenOK_none _
  obtain ⟨l, hl, hgt⟩ := h sqrtRat sqrtRat_ok cfgSliver [0] (by norm_num [cfgSliver, eps])
    (by norm_num [cfgSliver, eps]) hx hN (by norm_num [cfgSliver, Cfg.cV])
    (by norm_num [cfgSliver, Cfg.dV]) (by norm_num [cfgSliver, Cfg.fV]) (by norm_num [cfgSliver, Cfg.minsdV])
  obtain ⟨l', hl', _, hle⟩ := shrink_trunc_range sqrtRat sqrtRat_ok cfgSliver [0] (by norm_num [cfgSliver]) hx hN
    (by norm_num [cfgSliver, Cfg.dV]) (by norm_num [cfgSliver, Cfg.fV]) (by norm_num [cfgSliver, Cfg.minsdV])
  have hll : l = l' := by rw [hl] at hl'; injection hl'
  subst hll
  have hm : (mus cfgSliver [0])[0]? = some (1 - eps) := nullMeans_zero _ _ _ _ hN
  obtain ⟨e, he, hlt⟩ := hgt 0 (1 - eps) hm (by norm_num [cfgSliver, eps])
  obtain ⟨e', he', hle', _⟩ := hle 0 (1 - eps) hm
  have : e = e' := by rw [he] at he'; injection he' with h1; injection h1
  subst this
  have hu : cfgSliver.u * (1 - eps) = 1 - eps := by simp [cfgSliver]
  rw [hu] at hle'
  exact absurd hlt (not_lt.mpr hle')

/-- on the sliver `u(1-eps) ≤ mu < u` the null mean is within `alpha_mart`'s `isclose(u, mu)` band
(default `rtol = 1e-6`, `atol = 2 eps`), for every `u ≥ 0`: the relative tolerance alone suffices since
`u - mu ≤ u·eps ≤ 1e-6·u·(1-eps) ≤ 1e-6·mu` -/
theorem sliver_ignored (u m : Rat) (hu : 0 ≤ u) (h1 : u * (1 - eps) ≤ m) (h2 : m < u) :
    XR.isclose (fin u) (fin m) (1 / 1000000) (2 * eps) = true := by
  have hm0 : 0 ≤ m := le_trans (mul_nonneg hu (le_of_lt one_sub_eps_pos)) h1
  have hd : ¬ (u - m < 0) := by linarith
  have hc : eps ≤ 1 / 1000000 * (1 - eps) := by unfold eps; norm_num
  have h3 : u * eps ≤ u * (1 / 1000000 * (1 - eps)) := mul_le_mul_of_nonneg_left hc hu
  have h4 := eps_pos
  simp only [XR.isclose, hd, not_lt.mpr hm0, ↓reduceIte, decide_eq_true_eq]
  nlinarith

/-- with the default tolerances of a `Cfg` -/
theorem sliver_ignored_cfg (cfg : Cfg) (hr : cfg.rtol = 1 / 1000000) (ha : cfg.atol = 2 * eps) (m : Rat)
    (hu : 0 ≤ cfg.u) (h1 : cfg.u * (1 - eps) ≤ m) (h2 : m < cfg.u) :
    XR.isclose (fin cfg.u) (fin m) cfg.rtol cfg.atol = true := by
  rw [hr, ha]; exact sliver_ignored cfg.u m hu h1 h2

/-- hence `alpha_mart`'s mask replaces the running product by `1` at such an index, whatever the estimate -/
theorem sliver_masked (u m : Rat) (T : XR) (hu : 0 ≤ u) (h1 : u * (1 - eps) ≤ m) (h2 : m < u) :
    maskTerm u (2 * eps) (1 / 1000000) m T = 1 := by
  have hm0 : 0 ≤ m := le_trans (mul_nonneg hu (le_of_lt one_sub_eps_pos)) h1
  have hc := sliver_ignored u m hu h1 h2
  unfold maskTerm maskTermX
  simp only [hc, ↓reduceIte, XR.zero_def, XR.lt_fin, decide_eq_true_eq, not_lt.mpr hm0]
  split <;> rfl

example : maskTerm 1 (2 * eps) (1 / 1000000) (1 - eps) (fin (-7)) = 1 :=
  sliver_masked 1 (1 - eps) (fin (-7)) (by norm_num) (by norm_num) (by norm_num [eps])
example : XR.isclose (fin 1) (fin (1 - eps)) (1 / 1000000) (2 * eps) = true :=
  sliver_ignored 1 (1 - eps) (by norm_num) (by norm_num) (by norm_num [eps])
example : ({ N := none, u := 1, t := 1 / 2, randomOrder := true, kw := {} } : Cfg).rtol = 1 / 1000000 ∧
    ({ N := none, u := 1, t := 1 / 2, randomOrder := true, kw := {} } : Cfg).atol = 2 * eps := ⟨rfl, rfl⟩

/-! ### `agrapa` -/

/-- the model's `t_adj` is the null conditional mean `mu_j` -/
theorem agrapa_tadj_eq_mu (cfg : Cfg) (x : List Rat) (hN : LenOK cfg.N x) :
    agTAdj cfg x = (mus cfg x).map fin := agTAdj_eq cfg x hN

/-- `0 ≤ cG0 ≤ cGmax ≤ 1`, `cGgrow ≥ 0`: the truncation level stays in `[cG0, cGmax] ⊆ [0, 1]` -/
theorem cJ_le_one (sqrtF : Rat → Rat) (hs : SqrtOK sqrtF) (c0 cm cg : Rat) (h0 : 0 ≤ c0) (h0m : c0 ≤ cm)
    (hm1 : cm ≤ 1) (hg : 0 ≤ cg) (i : Nat) : 0 ≤ cJ sqrtF c0 cm cg i ∧ cJ sqrtF c0 cm cg i ≤ 1 := by
  have := cJ_between sqrtF hs.nonneg c0 cm cg hg h0m i
  exact ⟨le_trans h0 this.1, le_trans this.2 hm1⟩

/-- `agrapa` with `cGgrow ≥ 0`: wherever `mu_j > 0` the bet is `fin b` with `0 ≤ b ≤ max(0, c_j/mu_j)`,
`c_j = cG0 + (cGmax - cG0)(1 - 1/(1 + cGgrow·sqrtF(j-1)))` (`i = j - 1`) -/
theorem agrapa_range_raw (sqrtF : Rat → Rat) (hs : SqrtOK sqrtF) (cfg : Cfg) (x : List Rat)
    (hx : x ≠ []) (hN : LenOK cfg.N x) (hg : 0 ≤ cfg.cgV) :
    ∃ l, agrapa sqrtF cfg x = .ok l ∧ l.length = x.length ∧
      ∀ (i : Nat) (m : Rat), (mus cfg x)[i]? = some m → 0 < m →
        ∃ b : Rat, l[i]? = some (fin b) ∧ 0 ≤ b ∧ b ≤ max 0 (cJ sqrtF cfg.c0V cfg.cmV cfg.cgV i / m) := by
  have hlenRaw : (agRaw x (agTAdj cfg x)).length = x.length := length_agRaw x _ (length_agTAdj cfg x)
  refine ⟨_, agrapa_eq sqrtF cfg x hx, by simp [hlenRaw], ?_⟩
  intro i m hm hm0
  have hi : i < x.length := by simpa using lt_length_of_getElem? hm
  obtain ⟨li, hli⟩ := exists_getElem? (shiftIn (fin cfg.lamV) (agRaw x (agTAdj cfg x)))
    (by simpa [hlenRaw] using hi)
  have hnan : li.isNan = false := by
    rcases mem_shiftIn (List.mem_of_getElem? hli) with rfl | hmem
    · rfl
    · exact agRaw_not_nan _ _ li hmem
  have hta : (agTAdj cfg x)[i]? = some (fin m) := by
    rw [agTAdj_eq cfg x hN, List.getElem?_map, hm]; rfl
  have hz : ((shiftIn (fin cfg.lamV) (agRaw x (agTAdj cfg x))).zip (agTAdj cfg x))[i]? = some (li, fin m) := by
    rw [List.getElem?_zip_eq_some]; exact ⟨hli, hta⟩
  obtain ⟨b, hb, hb0, hb1⟩ := agEntry_range sqrtF hs.nonneg cfg.c0V cfg.cmV cfg.cgV hg i li hnan m hm0
  refine ⟨b, ?_, hb0, hb1⟩
  rw [getElem?_mapIdxFrom, hz, Option.map_some, Nat.zero_add, hb]

/-- `agrapa` for `0 ≤ cG0 ≤ cGmax ≤ 1`, `cGgrow ≥ 0`: wherever `mu_j > 0` the bet is `fin b` with
`0 ≤ b ≤ c_j/mu_j`, and `c_j ≤ 1`, so `b ≤ 1/mu_j` -/
theorem agrapa_range (sqrtF : Rat → Rat) (hs : SqrtOK sqrtF) (cfg : Cfg) (x : List Rat)
    (hx : x ≠ []) (hN : LenOK cfg.N x)
    (h0 : 0 ≤ cfg.c0V) (h0m : cfg.c0V ≤ cfg.cmV) (hm1 : cfg.cmV ≤ 1) (hg : 0 ≤ cfg.cgV) :
    ∃ l, agrapa sqrtF cfg x = .ok l ∧ l.length = x.length ∧
      ∀ (i : Nat) (m : Rat), (mus cfg x)[i]? = some m → 0 < m →
        ∃ b : Rat, l[i]? = some (fin b) ∧ 0 ≤ b ∧ b ≤ cJ sqrtF cfg.c0V cfg.cmV cfg.cgV i / m ∧
          cJ sqrtF cfg.c0V cfg.cmV cfg.cgV i ≤ 1 ∧ b ≤ 1 / m := by
  obtain ⟨l, hl, hlen, h⟩ := agrapa_range_raw sqrtF hs cfg x hx hN hg
  refine ⟨l, hl, hlen, ?_⟩
  intro i m hm hm0
  obtain ⟨b, hb, hb0, hb1⟩ := h i m hm hm0
  have hc := cJ_le_one sqrtF hs cfg.c0V cfg.cmV cfg.cgV h0 h0m hm1 hg i
  have hq : 0 ≤ cJ sqrtF cfg.c0V cfg.cmV cfg.cgV i / m := div_nonneg hc.1 (le_of_lt hm0)
  rw [max_eq_right hq] at hb1
  exact ⟨b, hb, hb0, hb1, hc.2, le_trans hb1 (div_le_div_of_nonneg_right hc.2 (le_of_lt hm0))⟩

example : ∃ l, agrapa sqrtRat cfgA xA = .ok l ∧ l.length = xA.length ∧
    ∀ (i : Nat) (m : Rat), (mus cfgA xA)[i]? = some m → 0 < m →
      ∃ b : Rat, l[i]? = some (fin b) ∧ 0 ≤ b ∧ b ≤ cJ sqrtRat cfgA.c0V cfgA.cmV cfgA.cgV i / m ∧
        cJ sqrtRat cfgA.c0V cfgA.cmV cfgA.cgV i ≤ 1 ∧ b ≤ 1 / m :=
  agrapa_range sqrtRat sqrtRat_ok cfgA xA xA_ne lenA (by norm_num [cfgA, Cfg.c0V, eps])
    (by norm_num [cfgA, Cfg.c0V, Cfg.cmV]) (by norm_num [cfgA, Cfg.cmV, eps]) (by norm_num [cfgA, Cfg.cgV])

/-- the first bet of `agrapa` is the `lam` attribute (default 1/2) clipped to `[0, c_0/mu_1]`, `mu_1 = t` -/
theorem agrapa_first_bet (sqrtF : Rat → Rat) (hs : SqrtOK sqrtF) (cfg : Cfg) (x : List Rat)
    (ht : cfg.t ≠ 0) (hx : x ≠ []) (hN : LenOK cfg.N x) (hg : 0 ≤ cfg.cgV) :
    ∃ l, agrapa sqrtF cfg x = .ok l ∧
      l[0]? = some (fin (max 0 (min (cJ sqrtF cfg.c0V cfg.cmV cfg.cgV 0 / cfg.t) cfg.lamV))) := by
  refine ⟨_, agrapa_eq sqrtF cfg x hx, ?_⟩
  cases x with
  | nil => exact absurd rfl hx
  | cons a x =>
    have hta : (agTAdj cfg (a :: x))[0]? = some (fin cfg.t) := by
      rw [agTAdj_eq cfg _ hN, List.getElem?_map, nullMeans_zero cfg.N cfg.t a x hN]; rfl
    have hne : agRaw (a :: x) (agTAdj cfg (a :: x)) ≠ [] := by
      intro h
      have := length_agRaw (a :: x) _ (length_agTAdj cfg (a :: x))
      rw [h] at this; simp at this
    have hsh : (shiftIn (fin cfg.lamV) (agRaw (a :: x) (agTAdj cfg (a :: x))))[0]? = some (fin cfg.lamV) := by
      unfold shiftIn
      rw [List.dropLast_cons_of_ne_nil hne]; rfl
    have hz : ((shiftIn (fin cfg.lamV) (agRaw (a :: x) (agTAdj cfg (a :: x)))).zip
        (agTAdj cfg (a :: x)))[0]? = some (fin cfg.lamV, fin cfg.t) := by
      rw [List.getElem?_zip_eq_some]; exact ⟨hsh, hta⟩
    rw [getElem?_mapIdxFrom, hz, Option.map_some, Nat.zero_add,
      agEntry_fin sqrtF hs.nonneg _ _ _ hg 0 _ _ ht]

example : ∃ l, agrapa sqrtRat cfgA xA = .ok l ∧
    l[0]? = some (fin (max 0 (min (cJ sqrtRat cfgA.c0V cfgA.cmV cfgA.cgV 0 / cfgA.t) cfgA.lamV))) :=
  agrapa_first_bet sqrtRat sqrtRat_ok cfgA xA (by norm_num [cfgA]) xA_ne lenA (by norm_num [cfgA, Cfg.cgV])

/-! ### `fixed_bet` -/

/-- `fixed_bet` with `0 ≤ lam ≤ 1/u`: every bet is `fin lam`, and `lam ≤ 1/mu_j` wherever `0 < mu_j ≤ u` -/
theorem fixed_bet_range (cfg : Cfg) (x : List Rat) (lam : Rat) (hl : cfg.kw.lam = some lam)
    (h0 : 0 ≤ lam) (h1 : lam ≤ 1 / cfg.u) :
    ∃ l, fixedBet cfg x = .ok l ∧ l.length = x.length ∧
      ∀ (i : Nat) (m : Rat), (mus cfg x)[i]? = some m →
        l[i]? = some (fin lam) ∧ 0 ≤ lam ∧ (0 < m → m ≤ cfg.u → lam ≤ 1 / m) := by
  refine ⟨_, fixedBet_eq cfg x lam hl, by simp, ?_⟩
  intro i m hm
  have hi : i < x.length := by simpa using lt_length_of_getElem? hm
  refine ⟨by simp [hi], h0, ?_⟩
  intro hm0 hmu
  exact le_trans h1 (one_div_le_one_div_of_le hm0 hmu)

/-- the constructor's default bet `lam = 1/2` with `u = 1` -/
def cfgF : Cfg := Cfg.init false false 1 (some 5) (1 / 2) true {}

example : ∃ l, fixedBet cfgF xA = .ok l ∧ l.length = xA.length ∧
    ∀ (i : Nat) (m : Rat), (mus cfgF xA)[i]? = some m →
      l[i]? = some (fin (1 / 2)) ∧ (0 : Rat) ≤ 1 / 2 ∧ (0 < m → m ≤ cfgF.u → (1 / 2 : Rat) ≤ 1 / m) :=
  fixed_bet_range cfgF xA (1 / 2) rfl (by norm_num) (by norm_num [cfgF, Cfg.init])

/-! ### the estimate `alpha_mart` actually uses, and the factors -/

/-- `np.minimum(u, np.maximum(estim, m))` of a finite estimate is `fin e'` with `min(m,u) ≤ e' ≤ u`;
hence `e' ∈ [m, u]` when `m ≤ u` -/
theorem alpha_alternative_in_range (u m e : Rat) :
    ∃ e' : Rat, XR.npmin (fin u) (XR.npmax (fin e) (fin m)) = fin e' ∧ min m u ≤ e' ∧ e' ≤ u ∧
      (m ≤ u → m ≤ e') := by
  refine ⟨min u (max e m), by rw [XRRange.npmax_fin, XRRange.npmin_fin], ?_, min_le_left _ _, ?_⟩
  · exact le_min (min_le_right _ _) (le_trans (min_le_left _ _) (le_max_right _ _))
  · intro h; exact le_min h (le_max_right _ _)

example : ∃ e' : Rat, XR.npmin (fin 1) (XR.npmax (fin (-15)) (fin (5 / 8))) = fin e' ∧
    min (5 / 8) 1 ≤ e' ∧ e' ≤ 1 ∧ ((5 / 8 : Rat) ≤ 1 → 5 / 8 ≤ e') := alpha_alternative_in_range 1 (5 / 8) (-15)

/-- ALPHA factor: for `0 < m < u`, `0 ≤ e ≤ u` (in particular `m ≤ e ≤ u`) and `0 ≤ x ≤ u` the factor
`(x e/m + (u-x)(u-e)/(u-m))/u` is non-negative, and the `XR` expression of `alphaTerms` evaluates to it -/
theorem factor_nonneg_alpha (u m e x : Rat) (hm : 0 < m) (hmu : m < u) (he0 : 0 ≤ e) (heu : e ≤ u)
    (hx0 : 0 ≤ x) (hxu : x ≤ u) :
    0 ≤ (x * e / m + (u - x) * (u - e) / (u - m)) / u ∧
    ((XR.fin x) * (fin e) / (XR.fin m) + (XR.fin (u - x)) * ((XR.fin u) - (fin e)) / (XR.fin (u - m))) / (XR.fin u)
      = fin ((x * e / m + (u - x) * (u - e) / (u - m)) / u) := by
  have hu : 0 < u := lt_trans hm hmu
  have hum : 0 < u - m := by linarith
  constructor
  · apply div_nonneg _ (le_of_lt hu)
    apply add_nonneg
    · exact div_nonneg (mul_nonneg hx0 he0) (le_of_lt hm)
    · exact div_nonneg (mul_nonneg (by linarith) (by linarith)) (le_of_lt hum)
  · simp only [XR.fin_mul, XR.fin_sub, XR.fin_div _ _ (ne_of_gt hm), XR.fin_div _ _ (ne_of_gt hum),
      XR.fin_add, XR.fin_div _ _ (ne_of_gt hu)]

/-- the version asked for: `m ≤ e ≤ u` -/
theorem factor_nonneg_alpha_ge_mu (u m e x : Rat) (hm : 0 < m) (hmu : m < u) (hme : m ≤ e) (heu : e ≤ u)
    (hx0 : 0 ≤ x) (hxu : x ≤ u) : 0 ≤ (x * e / m + (u - x) * (u - e) / (u - m)) / u :=
  (factor_nonneg_alpha u m e x hm hmu (le_trans (le_of_lt hm) hme) heu hx0 hxu).1

example : (0 : Rat) ≤ (0 * (3 / 4) / (5 / 8) + (1 - 0) * (1 - 3 / 4) / (1 - 5 / 8)) / 1 :=
  factor_nonneg_alpha_ge_mu 1 (5 / 8) (3 / 4) 0 (by norm_num) (by norm_num) (by norm_num) (by norm_num)
    (by norm_num) (by norm_num)

/-- betting factor: for `0 < m`, `0 ≤ l ≤ 1/m`, `0 ≤ x` the factor `1 + l (x - m)` is non-negative, and the
`XR` expression of `bettingTerms` evaluates to it -/
theorem factor_nonneg_betting (m l x : Rat) (hm : 0 < m) (hl0 : 0 ≤ l) (hl1 : l ≤ 1 / m) (hx0 : 0 ≤ x) :
    0 ≤ 1 + l * (x - m) ∧ (1 : XR) + (fin l) * (XR.fin (x - m)) = fin (1 + l * (x - m)) := by
  constructor
  · have h1 : l * m ≤ 1 := by
      have := mul_le_mul_of_nonneg_right hl1 (le_of_lt hm)
      rwa [div_mul_cancel₀ 1 (ne_of_gt hm)] at this
    have h2 : 0 ≤ l * x := mul_nonneg hl0 hx0
    have : 1 + l * (x - m) = (1 - l * m) + l * x := by ring
    rw [this]; linarith
  · simp only [XR.one_def, XR.fin_mul, XR.fin_add]

example : (0 : Rat) ≤ 1 + (8 / 5) * (0 - 5 / 8) :=
  (factor_nonneg_betting (5 / 8) (8 / 5) 0 (by norm_num) (by norm_num) (by norm_num) (by norm_num)).1

/-! ### every shipped estimator / bet, through the dispatch the tests use -/

/-- guards on the attributes the estimators read (the documented ranges; all defaults satisfy them when
`t ≤ u(1-eps)`) -/
structure EstimGuard (cfg : Cfg) : Prop where
  eta_ge : cfg.t ≤ cfg.etaV
  c_pos : 0 < cfg.cV
  d_pos : 0 < cfg.dV
  f_nonneg : 0 ≤ cfg.fV
  minsd_pos : 0 < cfg.minsdV

/-- every shipped estimator, whenever it returns, returns one finite value in `[0,u]` per observation
wherever the null conditional mean is positive (`optimal_comparison` raises for `u = 1`) -/
theorem estim_range (sqrtF : Rat → Rat) (hs : SqrtOK sqrtF) (cfg : Cfg) (x : List Rat) (k : Estim)
    (ht : 0 < cfg.t) (htu : cfg.t < cfg.u) (hx : x ≠ []) (hN : LenOK cfg.N x) (hg : EstimGuard cfg)
    (l : List XR) (hl : estim sqrtF cfg k x = .ok l) :
    l.length = x.length ∧
      ∀ (i : Nat) (m : Rat), (mus cfg x)[i]? = some m → 0 < m → ∃ e : Rat, l[i]? = some (fin e) ∧ 0 ≤ e ∧ e ≤ cfg.u := by
  have hu : 0 < cfg.u := lt_trans ht htu
  cases k with
  | fixedAlt =>
    obtain ⟨l', hl', hlen, h⟩ := fixed_alt_range cfg x ht htu hg.eta_ge hx hN
    have : l = l' := by simp only [estim] at hl; rw [hl] at hl'; injection hl'
    subst this
    refine ⟨hlen, fun i m hm hm0 => ?_⟩
    obtain ⟨e, he, he1, _, he0⟩ := h i m hm
    exact ⟨e, he, le_of_lt (he0 hm0), he1⟩
  | shrinkTrunc =>
    obtain ⟨l', hl', hlen, h⟩ := shrink_trunc_range sqrtF hs cfg x (le_of_lt hu) hx hN hg.d_pos hg.f_nonneg
      hg.minsd_pos
    have : l = l' := by simp only [estim] at hl; rw [hl] at hl'; injection hl'
    subst this
    refine ⟨hlen, fun i m hm hm0 => ?_⟩
    obtain ⟨e, he, _, he1, _, he0⟩ := h i m hm
    exact ⟨e, he, he0 hg.c_pos (le_of_lt hm0), he1⟩
  | optimalComparison =>
    by_cases hu1 : cfg.u = 1
    · simp only [estim] at hl; rw [optimal_comparison_u_one cfg x hu1] at hl; cases hl
    · obtain ⟨l', hl', hlen, h⟩ := optimal_comparison_range_entry cfg x (le_of_lt hu) hu1
      have : l = l' := by simp only [estim] at hl; rw [hl] at hl'; injection hl'
      subst this
      refine ⟨hlen, fun i m hm _ => ?_⟩
      have hi : i < x.length := by simpa using lt_length_of_getElem? hm
      exact h i hi

/-- guards on the attributes the bets read -/
structure BetGuard (cfg : Cfg) : Prop where
  lam_range : ∀ lam, cfg.kw.lam = some lam → 0 ≤ lam ∧ lam ≤ 1 / cfg.u
  c0_nonneg : 0 ≤ cfg.c0V
  c0_le_cm : cfg.c0V ≤ cfg.cmV
  cm_le_one : cfg.cmV ≤ 1
  cg_nonneg : 0 ≤ cfg.cgV

/-- every shipped bet, whenever it returns, returns one finite fraction in `[0, 1/mu_j]` per observation
wherever `0 < mu_j ≤ u` -/
theorem bet_range (sqrtF : Rat → Rat) (hs : SqrtOK sqrtF) (cfg : Cfg) (x : List Rat) (k : Bet)
    (hx : x ≠ []) (hN : LenOK cfg.N x) (hg : BetGuard cfg)
    (l : List XR) (hl : bet sqrtF cfg k x = .ok l) :
    l.length = x.length ∧
      ∀ (i : Nat) (m : Rat), (mus cfg x)[i]? = some m → 0 < m → m ≤ cfg.u →
        ∃ b : Rat, l[i]? = some (fin b) ∧ 0 ≤ b ∧ b ≤ 1 / m := by
  cases k with
  | fixed =>
    cases hlam : cfg.kw.lam with
    | none => simp only [bet, fixedBet, hlam] at hl; cases hl
    | some lam =>
      obtain ⟨h0, h1⟩ := hg.lam_range lam hlam
      obtain ⟨l', hl', hlen, h⟩ := fixed_bet_range cfg x lam hlam h0 h1
      have : l = l' := by simp only [bet] at hl; rw [hl] at hl'; injection hl'
      subst this
      refine ⟨hlen, fun i m hm hm0 hmu => ?_⟩
      obtain ⟨he, _, hle⟩ := h i m hm
      exact ⟨lam, he, h0, hle hm0 hmu⟩
  | agrapa =>
    obtain ⟨l', hl', hlen, h⟩ := agrapa_range sqrtF hs cfg x hx hN hg.c0_nonneg hg.c0_le_cm hg.cm_le_one
      hg.cg_nonneg
    have : l = l' := by simp only [bet] at hl; rw [hl] at hl'; injection hl'
    subst this
    refine ⟨hlen, fun i m hm hm0 _ => ?_⟩
    obtain ⟨b, hb, hb0, _, _, hb1⟩ := h i m hm hm0
    exact ⟨b, hb, hb0, hb1⟩

/-- the hypotheses of `estim_range` / `bet_range` are satisfiable: the dispatch returns on the example inputs -/
example : ∃ l, estim sqrtRat cfgA .shrinkTrunc xA = .ok l := by
  obtain ⟨l, hl, _⟩ := shrink_trunc_entry sqrtRat sqrtRat_ok cfgA xA xA_ne lenA
    (by norm_num [cfgA, Cfg.dV]) (by norm_num [cfgA, Cfg.fV]) (by norm_num [cfgA, Cfg.minsdV])
  exact ⟨l, hl⟩
example : ∃ l, bet sqrtRat cfgF .fixed xA = .ok l := ⟨_, fixedBet_eq cfgF xA (1 / 2) rfl⟩
example : ∃ l, bet sqrtRat cfgF .agrapa xA = .ok l := ⟨_, agrapa_eq sqrtRat cfgF xA xA_ne⟩
example : EstimGuard cfgA := by
  constructor <;> norm_num [cfgA, Cfg.etaV, Cfg.cV, Cfg.dV, Cfg.fV, Cfg.minsdV]
example : BetGuard cfgF := by
  refine ⟨?_, ?_, ?_, ?_, ?_⟩
  · intro lam h
    have : lam = 1 / 2 := by
      have h' : some (1 / 2 : Rat) = some lam := h
      injection h' with h'; exact h'.symm
    subst this; norm_num [cfgF, Cfg.init]
  all_goals norm_num [cfgF, Cfg.init, Cfg.c0V, Cfg.cmV, Cfg.cgV, eps]

end Shangrla.C13
