/-
  C14 — RAIRE and the audit interpret every ranked ballot identically.

  All theorems are about the literal models of `Shangrla.IrvBallot` (the definitions the driver executes):
  audit side `getVoteFor`, `rcvLfuncWo`, `rcvVoteforCand`, `nebAssort`, `nenAssort`, `remnOf`, `assorterMean`,
  `fromRaireBallot`, `fromRaire`; generator side `ranking`, `voteForCand`, `nebWinner/nebLoser`,
  `nenWinner/nenLoser`, `loadRaireBallot`, `loadContestsFromRaire`, `mkNeb`, `mkNen`, `ballotsOf`.

  A ranking `r` (most preferred first) is represented on the audit side by `auditEnc r = {c ↦ k+1}` and on
  the generator side by `genEnc r = {c ↦ k}` for its `k`-th (0-based) element.

  Property theorems (all quantified over every ranking / ballot list / file, none by enumeration):
    neb_agree                    NEB verdicts equal, assorter = (w - l + 1)/2           (any list `r`, any w, l)
    nen_agree                    NEN verdicts equal, assorter = (w - l + 1)/2           (r ⊆ cands; w, l ∈ cands; ANY E)
    nen_disagree_unlisted        witness that the guard r ⊆ cands of nen_agree is needed
    mean_gt_half_iff_tally       Assorter.mean > 1/2 ↔ tally_winner > tally_loser (NEB), any list of aligned cards
    mean_gt_half_iff_tally_nen   same for NEN
    readers_agree                one RAIRE row: both readers decode to the row's own preference order
    row_agree                    one RAIRE row through both readers: assorter = (w - l + 1)/2
    reapply_tallies              re-applying a generated NEB / NEN assertion reproduces its stored tallies
    file_readers                 whole file: same nested structure from both readers
    file_orders_agree            whole file: same preference order per (ballot, contest)
    file_mean_gt_half_iff_tally  whole file, both readers: mean > 1/2 ↔ generator's tally comparison
-/
import Shangrla.Model.IrvBallot
import Mathlib.Tactic.Linarith
import Mathlib.Tactic.FieldSimp
import Mathlib.Tactic.Ring
import Mathlib.Algebra.Order.Field.Basic
import Mathlib.Algebra.Order.Ring.Rat

namespace Shangrla.C14
open Shangrla.IrvBallot

set_option linter.unusedSectionVars false

variable {κ α : Type} [DecidableEq κ] [DecidableEq α]

/-! ### positions in the two encodings -/

/-- position of a candidate in a ranking = its entry in the generator encoding -/
def pos (r : List α) (c : α) : Option Nat := dget (genEnc r) c

theorem dget_map_snd {ν μ : Type} (f : ν → μ) (d : List (α × ν)) (c : α) :
    dget (d.map (fun p => (p.1, f p.2))) c = (dget d c).map f := by
  induction d with
  | nil => rfl
  | cons p d ih =>
    simp only [List.map_cons, dget]
    split <;> simp [ih]

theorem dget_auditEnc (r : List α) (c : α) :
    dget (auditEnc r) c = (pos r c).map (fun (k : Nat) => (k : Int) + 1) := by
  unfold auditEnc pos genEnc
  exact dget_map_snd (fun k : Nat => (k : Int) + 1) _ c

/-- entries of `encFrom k r` have indices ≥ k -/
theorem mem_encFrom_ge {k : Nat} {r : List α} {a : α} {i : Nat} (h : (a, i) ∈ encFrom k r) : k ≤ i := by
  induction r generalizing k with
  | nil => simp [encFrom] at h
  | cons c cs ih =>
    simp only [encFrom, List.mem_cons, Prod.mk.injEq] at h
    rcases h with ⟨_, rfl⟩ | h
    · exact Nat.le_refl _
    · exact Nat.le_trans (Nat.le_succ k) (ih h)

/-- an index occurs at most once -/
theorem encFrom_index_inj {k : Nat} {r : List α} {a b : α} {i : Nat}
    (ha : (a, i) ∈ encFrom k r) (hb : (b, i) ∈ encFrom k r) : a = b := by
  induction r generalizing k with
  | nil => simp [encFrom] at ha
  | cons c cs ih =>
    simp only [encFrom, List.mem_cons, Prod.mk.injEq] at ha hb
    rcases ha with ⟨rfl, rfl⟩ | ha <;> rcases hb with ⟨rfl, hb'⟩ | hb
    · rfl
    · have := mem_encFrom_ge hb; omega
    · have := mem_encFrom_ge ha; omega
    · exact ih ha hb

/-- `dget` finds an entry of the list -/
theorem dget_mem {ν : Type} {d : List (α × ν)} {c : α} {v : ν} (h : dget d c = some v) : (c, v) ∈ d := by
  induction d with
  | nil => simp [dget] at h
  | cons p d ih =>
    simp only [dget] at h
    split at h
    · rename_i hk
      cases h
      simp [← hk]
    · exact List.mem_cons_of_mem _ (ih h)

/-- `dget` finds the first entry with the key: its index is the smallest -/
theorem dget_encFrom_le {k : Nat} {r : List α} {a : α} {i : Nat} (h : (a, i) ∈ encFrom k r) :
    ∃ j, dget (encFrom k r) a = some j ∧ j ≤ i := by
  induction r generalizing k with
  | nil => simp [encFrom] at h
  | cons c cs ih =>
    simp only [encFrom, List.mem_cons, Prod.mk.injEq] at h
    by_cases hc : c = a
    · refine ⟨k, by simp [encFrom, dget, hc], ?_⟩
      rcases h with ⟨_, rfl⟩ | h
      · exact Nat.le_refl _
      · exact Nat.le_trans (Nat.le_succ k) (mem_encFrom_ge h)
    · rcases h with ⟨rfl, _⟩ | h
      · exact absurd rfl hc
      · obtain ⟨j, hj, hle⟩ := ih h
        exact ⟨j, by simp [encFrom, dget, hc, hj], hle⟩

theorem pos_some_mem {r : List α} {c : α} {k : Nat} (h : pos r c = some k) : (c, k) ∈ genEnc r :=
  dget_mem h

theorem mem_fst_of_mem_encFrom {k : Nat} {r : List α} {a : α} {i : Nat} (h : (a, i) ∈ encFrom k r) : a ∈ r := by
  induction r generalizing k with
  | nil => simp [encFrom] at h
  | cons c cs ih =>
    simp only [encFrom, List.mem_cons, Prod.mk.injEq] at h
    rcases h with ⟨rfl, _⟩ | h
    · exact List.mem_cons_self
    · exact List.mem_cons_of_mem _ (ih h)

/-- two different candidates never have the same position -/
theorem pos_inj {r : List α} {a b : α} {k : Nat} (ha : pos r a = some k) (hb : pos r b = some k) : a = b :=
  encFrom_index_inj (pos_some_mem ha) (pos_some_mem hb)

/-! ### the audit's `get_vote_for` and the generator's `ranking` on the two encodings of one ranking -/

/-- one-contest CVRs, or any CVR whose entry for the contest is the encoding of `r` -/
theorem getVoteFor_enc {votes : Votes κ α} {cid : κ} {r : List α} (h : dget votes cid = some (auditEnc r)) (c : α) :
    getVoteFor votes cid c = match pos r c with
      | none => Val.pyFalse
      | some k => Val.int ((k : Int) + 1) := by
  unfold getVoteFor
  rw [h]
  simp only [dget_auditEnc]
  cases pos r c <;> rfl

theorem ranking_enc (r : List α) (c : α) :
    ranking c (genEnc r) = match pos r c with
      | none => -1
      | some k => (k : Int) := by
  unfold ranking pos
  cases dget (genEnc r) c <;> rfl

/-! ### NEB -/

/-- **C14 (NEB verdicts).** For every ranking `r` (any list of candidates) and every winner and loser, the
audit's `winner_func` / `rcv_lfunc_wo` on `{c ↦ k+1}` and the generator's
`NEBAssertion.is_vote_for_winner/loser` on `{c ↦ k}` return the same verdicts. -/
theorem neb_verdicts_agree {votes : Votes κ α} {cvr : GCvr κ α} {cid : κ} {r : List α}
    (ha : dget votes cid = some (auditEnc r)) (hg : dget cvr cid = some (genEnc r)) (w l : α) :
    nebWinnerFunc votes cid w = nebWinner cid w cvr ∧ nebLoserFunc votes cid w l = nebLoser cid w l cvr := by
  unfold nebWinnerFunc nebWinner nebLoserFunc nebLoser rcvLfuncWo
  rw [hg]
  simp only [getVoteFor_enc ha, ranking_enc]
  constructor
  · cases pos r w with
    | none => simp [Val.toInt]
    | some k =>
      simp only [Val.toInt]
      by_cases hk : k = 0
      · subst hk; simp
      · have h1 : ¬ ((k : Int) + 1 = 1) := by omega
        have h2 : ¬ ((k : Int) = 0) := by omega
        simp [h1, hk]
  · cases hw : pos r w <;> cases hl : pos r l
    · simp [Val.truthy]
    · rename_i kl
      have : ¬ ((kl : Int) + 1 = 0) := by omega
      have h2 : ¬ ((kl : Int) = -1) := by omega
      simp [Val.truthy, this, h2]
    · rename_i kw
      simp [Val.truthy]
    · rename_i kw kl
      have h1 : ¬ ((kw : Int) + 1 = 0) := by omega
      have h2 : ¬ ((kl : Int) + 1 = 0) := by omega
      have h3 : ¬ ((kl : Int) = -1) := by omega
      have h4 : ¬ ((kw : Int) = -1) := by omega
      by_cases hlt : kl < kw
      · have h5 : (kl : Int) + 1 < (kw : Int) + 1 := by omega
        have h6 : (kl : Int) < (kw : Int) := by omega
        simp [Val.truthy, Val.toInt, h1, h2, h3, h4, h5, h6]
      · have h5 : ¬ ((kl : Int) + 1 < (kw : Int) + 1) := by omega
        have h6 : ¬ ((kl : Int) < (kw : Int)) := by omega
        simp [Val.truthy, Val.toInt, h1, h2, h3, h4, h5, h6]

/-- **C14, NEB.** For every ranking `r`, every CVR pair holding its two encodings for contest `cid`, and
every (winner, loser): the winner verdicts are equal, the loser verdicts are equal, and therefore the value
of the audit's WINNER_ONLY assorter is `(w - l + 1)/2` with `w`, `l` the generator's own verdicts. -/
theorem neb_agree {votes : Votes κ α} {cvr : GCvr κ α} {cid : κ} {r : List α}
    (ha : dget votes cid = some (auditEnc r)) (hg : dget cvr cid = some (genEnc r)) (w l : α) :
    nebWinnerFunc votes cid w = nebWinner cid w cvr ∧
    nebLoserFunc votes cid w l = nebLoser cid w l cvr ∧
    nebAssort votes cid w l = ((nebWinner cid w cvr - nebLoser cid w l cvr + 1 : Int) : Rat) / 2 := by
  obtain ⟨h1, h2⟩ := neb_verdicts_agree ha hg w l
  refine ⟨h1, h2, ?_⟩
  unfold nebAssort
  rw [h1, h2]

/-- the one-contest CVRs built by `CVR.from_vote` / `{contest: ballot}` -/
theorem neb_agree_from_vote (cid : κ) (r : List α) (w l : α) :
    nebAssort (fromVote (auditEnc r) cid) cid w l
      = ((nebWinner cid w [(cid, genEnc r)] - nebLoser cid w l [(cid, genEnc r)] + 1 : Int) : Rat) / 2 :=
  (neb_agree (votes := fromVote (auditEnc r) cid) (cvr := [(cid, genEnc r)]) (r := r)
    (by simp [fromVote, dget]) (by simp [dget]) w l).2.2

/-- a card that does not contain the contest: both sides say "neither", the assorter gives 1/2 -/
theorem neb_agree_absent {votes : Votes κ α} {cvr : GCvr κ α} {cid : κ}
    (ha : dget votes cid = none) (hg : dget cvr cid = none) (w l : α) :
    nebWinner cid w cvr = 0 ∧ nebLoser cid w l cvr = 0 ∧
    nebAssort votes cid w l = ((nebWinner cid w cvr - nebLoser cid w l cvr + 1 : Int) : Rat) / 2 := by
  have h1 : nebWinner cid w cvr = 0 := by unfold nebWinner; rw [hg]
  have h2 : nebLoser cid w l cvr = 0 := by unfold nebLoser; rw [hg]
  refine ⟨h1, h2, ?_⟩
  rw [h1, h2]
  unfold nebAssort nebWinnerFunc nebLoserFunc rcvLfuncWo getVoteFor
  rw [ha]
  simp [Val.toInt, Val.truthy]

/-! ### NEN -/

theorem mem_remnOf (cands E : List α) (a : α) : a ∈ remnOf cands E ↔ a ∈ cands ∧ a ∉ E := by
  simp [remnOf, List.mem_filter]

theorem rcvVoteforCand_zero_or_one (votes : Votes κ α) (cid : κ) (c : α) (remn : List α) :
    rcvVoteforCand votes cid c remn = 0 ∨ rcvVoteforCand votes cid c remn = 1 := by
  unfold rcvVoteforCand
  split
  · exact Or.inl rfl
  · simp only
    split
    · exact Or.inl rfl
    · split
      · exact Or.inl rfl
      · exact Or.inr rfl

theorem voteForCand_zero_or_one (c : α) (E : List α) (b : GBallot α) :
    voteForCand c E b = 0 ∨ voteForCand c E b = 1 := by
  unfold voteForCand
  split
  · exact Or.inl rfl
  · simp only
    split
    · exact Or.inl rfl
    · split
      · exact Or.inl rfl
      · exact Or.inr rfl


/-- the audit's `rcv_votefor_cand` on `{c ↦ k+1}`: `cand` is standing, is ranked, and no other standing
candidate is ranked at or above it -/
theorem rcvVoteforCand_enc {votes : Votes κ α} {cid : κ} {r : List α}
    (ha : dget votes cid = some (auditEnc r)) (c : α) (remn : List α) :
    rcvVoteforCand votes cid c remn = 1 ↔
      c ∈ remn ∧ ∃ kc, pos r c = some kc ∧
        ¬ ∃ a ∈ remn, a ≠ c ∧ ∃ ka, pos r a = some ka ∧ ka ≤ kc := by
  unfold rcvVoteforCand
  simp only [getVoteFor_enc ha]
  by_cases hc : c ∈ remn
  · cases hp : pos r c with
    | none => simp [hc, Val.truthy]
    | some kc =>
      have hcont : (!remn.contains c) = false := by simp [hc]
      have htr : (!(Val.int ((kc : Int) + 1)).truthy) = false := by
        simp only [Val.truthy, Bool.not_eq_false', bne_iff_ne, ne_eq]; omega
      rw [hcont, htr]
      simp only [Bool.false_eq_true, if_false, hc, true_and, Option.some.injEq, exists_eq_left']
      have hany : ∀ b : Bool, (b = true ↔ ∃ a ∈ remn, a ≠ c ∧ ∃ ka, pos r a = some ka ∧ ka ≤ kc) →
          ((if b = true then (0 : Int) else 1) = 1 ↔
            ¬ ∃ a ∈ remn, a ≠ c ∧ ∃ ka, pos r a = some ka ∧ ka ≤ kc) := by
        intro b hb
        rw [← hb]
        cases b <;> simp
      apply hany
      rw [List.any_eq_true]
      constructor
      · rintro ⟨a, ham, hcond⟩
        cases hpa : pos r a with
        | none => simp [hpa, Val.truthy] at hcond
        | some ka =>
          simp only [hpa, Val.truthy, Val.toInt, Bool.and_eq_true, bne_iff_ne, ne_eq,
            decide_eq_true_eq] at hcond
          exact ⟨a, ham, hcond.1, ka, hpa, by omega⟩
      · rintro ⟨a, ham, hac, ka, hka, hle⟩
        refine ⟨a, ham, ?_⟩
        have h2 : ¬ ((ka : Int) + 1 = 0) := by omega
        have h3 : (ka : Int) + 1 ≤ (kc : Int) + 1 := by omega
        simp [hka, hac, Val.truthy, Val.toInt, h2, h3]
  · simp [hc]

/-- the generator's `vote_for_cand` on `{c ↦ k}`: `cand` is not eliminated, is ranked, and no other
not-eliminated entry of the ballot has a smaller index -/
theorem voteForCand_enc (r : List α) (c : α) (E : List α) :
    voteForCand c E (genEnc r) = 1 ↔
      c ∉ E ∧ ∃ kc, pos r c = some kc ∧
        ¬ ∃ p ∈ genEnc r, p.1 ≠ c ∧ p.1 ∉ E ∧ p.2 < kc := by
  unfold voteForCand
  simp only [ranking_enc]
  by_cases hc : c ∈ E
  · simp [hc]
  · cases hp : pos r c with
    | none => simp [hc]
    | some kc =>
      have hcont : E.contains c = false := by simp [hc]
      have htr : ((kc : Int) == -1) = false := by
        simp only [beq_eq_false_iff_ne, ne_eq]; omega
      rw [hcont, htr]
      simp only [Bool.false_eq_true, if_false, hc, not_false_eq_true, true_and, Option.some.injEq,
        exists_eq_left']
      have hany : ∀ b : Bool, (b = true ↔ ∃ p ∈ genEnc r, p.1 ≠ c ∧ p.1 ∉ E ∧ p.2 < kc) →
          ((if b = true then (0 : Int) else 1) = 1 ↔
            ¬ ∃ p ∈ genEnc r, p.1 ≠ c ∧ p.1 ∉ E ∧ p.2 < kc) := by
        intro b hb
        rw [← hb]
        cases b <;> simp
      apply hany
      rw [List.any_eq_true]
      constructor
      · rintro ⟨p, hpm, hcond⟩
        simp only [Bool.and_eq_true, bne_iff_ne, ne_eq, Bool.not_eq_true', List.contains_eq_mem,
          decide_eq_false_iff_not, decide_eq_true_eq] at hcond
        exact ⟨p, hpm, hcond.1.1, hcond.1.2, by omega⟩
      · rintro ⟨p, hpm, hpc, hpE, hlt⟩
        refine ⟨p, hpm, ?_⟩
        have h3 : (p.2 : Int) < (kc : Int) := by omega
        simp [hpc, hpE, h3]

/-- **C14 (NEN verdict of one candidate).** Guard: every ranked candidate is in the contest's candidate
list, and so is `c`. `E` is arbitrary (if `c ∈ E` both sides say 0). -/
theorem nen_verdict_agree {votes : Votes κ α} {cid : κ} {r : List α}
    (ha : dget votes cid = some (auditEnc r)) (cands E : List α)
    (hr : ∀ a ∈ r, a ∈ cands) (c : α) (hc : c ∈ cands) :
    rcvVoteforCand votes cid c (remnOf cands E) = voteForCand c E (genEnc r) := by
  have key : rcvVoteforCand votes cid c (remnOf cands E) = 1 ↔ voteForCand c E (genEnc r) = 1 := by
    rw [rcvVoteforCand_enc ha, voteForCand_enc, mem_remnOf]
    constructor
    · rintro ⟨⟨_, hcE⟩, kc, hkc, hno⟩
      refine ⟨hcE, kc, hkc, ?_⟩
      rintro ⟨p, hpm, hpc, hpE, hlt⟩
      apply hno
      obtain ⟨a, i⟩ := p
      obtain ⟨j, hj, hle⟩ := dget_encFrom_le hpm
      exact ⟨a, (mem_remnOf ..).2 ⟨hr a (mem_fst_of_mem_encFrom hpm), hpE⟩, hpc, j, hj,
        Nat.le_of_lt (Nat.lt_of_le_of_lt hle hlt)⟩
    · rintro ⟨hcE, kc, hkc, hno⟩
      refine ⟨⟨hc, hcE⟩, kc, hkc, ?_⟩
      rintro ⟨a, ham, hac, ka, hka, hle⟩
      apply hno
      refine ⟨(a, ka), pos_some_mem hka, hac, ((mem_remnOf ..).1 ham).2, ?_⟩
      rcases Nat.lt_or_ge ka kc with h | h
      · exact h
      · have : ka = kc := Nat.le_antisymm hle h
        subst this
        exact absurd (pos_inj hka hkc) hac
  rcases rcvVoteforCand_zero_or_one votes cid c (remnOf cands E) with h1 | h1 <;>
    rcases voteForCand_zero_or_one c E (genEnc r) with h2 | h2
  · rw [h1, h2]
  · rw [key.2 h2] at h1; cases h1
  · rw [key.1 h1] at h2; cases h2
  · rw [h1, h2]

/-- **C14, NEN.** For every ranking `r` over the candidate list `cands`, every CVR pair holding its two
encodings, every winner and loser in `cands` and EVERY eliminated set `E`, with
`remaining = [c for c in cands if c not in E]` as `make_assertions_from_json` computes it: the audit's two
`rcv_votefor_cand` verdicts equal the generator's `NENAssertion.is_vote_for_winner/loser`, hence the
IRV_ELIMINATION assorter is `(w - l + 1)/2` with the generator's verdicts.

Assumed about the ballot: every ranked candidate belongs to `cands` (`hr`). Without it the two sides differ
(`nen_disagree_unlisted` below): the audit looks only at `remaining ⊆ cands`, the generator at every entry
of the ballot that is not in `E`. -/
theorem nen_agree {votes : Votes κ α} {cvr : GCvr κ α} {cid : κ} {r : List α}
    (ha : dget votes cid = some (auditEnc r)) (hg : dget cvr cid = some (genEnc r))
    (cands E : List α) (hr : ∀ a ∈ r, a ∈ cands) (w l : α) (hw : w ∈ cands) (hl : l ∈ cands) :
    rcvVoteforCand votes cid w (remnOf cands E) = nenWinner cid w E cvr ∧
    rcvVoteforCand votes cid l (remnOf cands E) = nenLoser cid l E cvr ∧
    nenAssort votes cid w l (remnOf cands E)
      = ((nenWinner cid w E cvr - nenLoser cid l E cvr + 1 : Int) : Rat) / 2 := by
  have h1 : rcvVoteforCand votes cid w (remnOf cands E) = nenWinner cid w E cvr := by
    unfold nenWinner; rw [hg]; exact nen_verdict_agree ha cands E hr w hw
  have h2 : rcvVoteforCand votes cid l (remnOf cands E) = nenLoser cid l E cvr := by
    unfold nenLoser; rw [hg]; exact nen_verdict_agree ha cands E hr l hl
  refine ⟨h1, h2, ?_⟩
  unfold nenAssort
  rw [h1, h2]

theorem nen_agree_absent {votes : Votes κ α} {cvr : GCvr κ α} {cid : κ}
    (ha : dget votes cid = none) (hg : dget cvr cid = none) (w l : α) (E remn : List α) :
    nenWinner cid w E cvr = 0 ∧ nenLoser cid l E cvr = 0 ∧
    nenAssort votes cid w l remn = ((nenWinner cid w E cvr - nenLoser cid l E cvr + 1 : Int) : Rat) / 2 := by
  have h1 : nenWinner cid w E cvr = 0 := by unfold nenWinner; rw [hg]
  have h2 : nenLoser cid l E cvr = 0 := by unfold nenLoser; rw [hg]
  refine ⟨h1, h2, ?_⟩
  rw [h1, h2]
  have h3 : ∀ c, rcvVoteforCand votes cid c remn = 0 := by
    intro c
    unfold rcvVoteforCand getVoteFor
    rw [ha]
    simp [Val.truthy]
  unfold nenAssort
  rw [h3, h3]

/-- WITNESS that the guard `hr` of `nen_agree` is needed: candidates `[A, B]`, ballot `X > A` with `X` not a
candidate of the contest, nobody eliminated. The audit (which only looks at `remaining = [A, B]`) counts the
ballot for `A`; the generator (which looks at every entry of the ballot) does not. Such a ballot cannot come out of
`load_contests_from_raire`, which drops unlisted candidates, but `CVR.from_raire` keeps them. -/
theorem nen_disagree_unlisted :
    rcvVoteforCand (fromVote (auditEnc ["X", "A"]) "c") "c" "A" (remnOf ["A", "B"] []) = 1 ∧
    nenWinner "c" "A" [] [("c", genEnc ["X", "A"])] = 0 := by
  decide

/-! ### the generator's verdicts depend on the ballot dict only as a finite map -/

theorem dget_iff_mem {ν : Type} {d : List (α × ν)} (h : (d.map (·.1)).Nodup) (c : α) (v : ν) :
    dget d c = some v ↔ (c, v) ∈ d := by
  refine ⟨dget_mem, ?_⟩
  induction d with
  | nil => simp
  | cons q d ih =>
    simp only [List.map_cons, List.nodup_cons, List.mem_map, not_exists, not_and] at h
    intro hm
    rcases List.mem_cons.1 hm with hm | hm
    · subst hm; simp [dget]
    · have : q.1 ≠ c := fun hq => h.1 (c, v) hm hq.symm
      simp only [dget, this, if_false]
      exact ih h.2 hm

theorem dget_congr {ν : Type} {d d' : List (α × ν)} (h : (d.map (·.1)).Nodup) (h' : (d'.map (·.1)).Nodup)
    (hm : ∀ p, p ∈ d ↔ p ∈ d') (c : α) : dget d c = dget d' c := by
  apply Option.ext
  intro v
  rw [dget_iff_mem h, dget_iff_mem h', hm]

theorem ranking_congr {g g' : GBallot α} (h : (g.map (·.1)).Nodup) (h' : (g'.map (·.1)).Nodup)
    (hm : ∀ p, p ∈ g ↔ p ∈ g') (c : α) : ranking c g = ranking c g' := by
  unfold ranking; rw [dget_congr h h' hm]

theorem voteForCand_congr {g g' : GBallot α} (h : (g.map (·.1)).Nodup) (h' : (g'.map (·.1)).Nodup)
    (hm : ∀ p, p ∈ g ↔ p ∈ g') (c : α) (E : List α) : voteForCand c E g = voteForCand c E g' := by
  unfold voteForCand
  rw [ranking_congr h h' hm]
  have : ∀ f : α × Nat → Bool, g.any f = g'.any f := by
    intro f
    rw [Bool.eq_iff_iff, List.any_eq_true, List.any_eq_true]
    constructor
    · rintro ⟨p, hp, hf⟩; exact ⟨p, (hm p).1 hp, hf⟩
    · rintro ⟨p, hp, hf⟩; exact ⟨p, (hm p).2 hp, hf⟩
  simp only [this]

theorem map_fst_encFrom (k : Nat) (r : List α) : (encFrom k r).map (·.1) = r := by
  induction r generalizing k with
  | nil => rfl
  | cons c cs ih => simp [encFrom, ih]

theorem nodup_of_keys_nodup {ν : Type} {d : List (α × ν)} (h : (d.map (·.1)).Nodup) : d.Nodup :=
  List.Pairwise.of_map (·.1) (fun a b hab h' => hab (by rw [h'])) h

theorem keys_nodup_genEnc (r : List α) (hnd : r.Nodup) : ((genEnc r).map (·.1)).Nodup := by
  unfold genEnc; rw [map_fst_encFrom]; exact hnd


/-- two generator-side dicts that are the same finite map: keys unique, same entries, possibly listed in a
different order (`load_contests_from_raire` lists a ballot's candidates in the order of the contest line) -/
def SameMap (g g' : GBallot α) : Prop :=
  (g.map (·.1)).Nodup ∧ (g'.map (·.1)).Nodup ∧ ∀ x, x ∈ g ↔ x ∈ g'

theorem SameMap.refl_genEnc (r : List α) (hnd : r.Nodup) : SameMap (genEnc r) (genEnc r) :=
  ⟨keys_nodup_genEnc r hnd, keys_nodup_genEnc r hnd, fun _ => Iff.rfl⟩

/-- all four generator verdicts see the ballot dict only as a finite map -/
theorem gen_verdicts_sameMap {cvr cvr' : GCvr κ α} {cid : κ} {g g' : GBallot α}
    (h : dget cvr cid = some g) (h' : dget cvr' cid = some g') (hs : SameMap g g') (w l : α) (E : List α) :
    nebWinner cid w cvr = nebWinner cid w cvr' ∧ nebLoser cid w l cvr = nebLoser cid w l cvr' ∧
    nenWinner cid w E cvr = nenWinner cid w E cvr' ∧ nenLoser cid l E cvr = nenLoser cid l E cvr' := by
  obtain ⟨h1, h2, h3⟩ := hs
  refine ⟨?_, ?_, ?_, ?_⟩
  · unfold nebWinner; rw [h, h']; simp only [ranking_congr h1 h2 h3]
  · unfold nebLoser; rw [h, h']; simp only [ranking_congr h1 h2 h3]
  · unfold nenWinner; rw [h, h']; simp only [voteForCand_congr h1 h2 h3]
  · unfold nenLoser; rw [h, h']; simp only [voteForCand_congr h1 h2 h3]

/-- `neb_agree` / `nen_agree` for a generator card whose dict is the same finite map as `{c ↦ k}` -/
theorem agree_sameMap {votes : Votes κ α} {cvr : GCvr κ α} {cid : κ} {r : List α} {g : GBallot α}
    (ha : dget votes cid = some (auditEnc r)) (hg : dget cvr cid = some g) (hs : SameMap g (genEnc r))
    (w l : α) :
    nebAssort votes cid w l = ((nebWinner cid w cvr - nebLoser cid w l cvr + 1 : Int) : Rat) / 2 ∧
    ∀ (cands E : List α), (∀ a ∈ r, a ∈ cands) → w ∈ cands → l ∈ cands →
      nenAssort votes cid w l (remnOf cands E)
        = ((nenWinner cid w E cvr - nenLoser cid l E cvr + 1 : Int) : Rat) / 2 := by
  have hg' : dget [(cid, genEnc r)] cid = some (genEnc r) := by simp [dget]
  constructor
  · obtain ⟨e1, e2, _, _⟩ := gen_verdicts_sameMap hg hg' hs w l []
    rw [e1, e2]; exact (neb_agree ha hg' w l).2.2
  · intro cands E hr hw hl
    obtain ⟨_, _, e3, e4⟩ := gen_verdicts_sameMap hg hg' hs w l E
    rw [e3, e4]; exact (nen_agree ha hg' cands E hr w l hw hl).2.2

/-! ### means and tallies -/

theorem sum_half {π : Type} (ps : List π) (gw gl : π → Int) :
    (ps.map (fun p => ((gw p - gl p + 1 : Int) : Rat) / 2)).sum
      = (((ps.map gw).sum - (ps.map gl).sum + (ps.length : Int) : Int) : Rat) / 2 := by
  induction ps with
  | nil => simp
  | cons p ps ih =>
    simp only [List.map_cons, List.sum_cons, List.length_cons, ih]
    push_cast
    ring

theorem sum_filter_of_zero {π : Type} (ps : List π) (g : π → Int) (keep : π → Bool)
    (h : ∀ p ∈ ps, keep p = false → g p = 0) : ((ps.filter keep).map g).sum = (ps.map g).sum := by
  induction ps with
  | nil => rfl
  | cons p ps ih =>
    have ih' := ih (fun q hq => h q (List.mem_cons_of_mem _ hq))
    cases hk : keep p
    · simp [hk, ih', h p List.mem_cons_self hk]
    · simp [hk, ih']

theorem half_lt_iff (W L : Int) (n : Nat) (hn : 0 < n) :
    (1 : Rat) / 2 < (((W - L + (n : Int) : Int) : Rat) / 2) / (n : Rat) ↔ L < W := by
  have hn' : (0 : Rat) < (n : Rat) := by exact_mod_cast hn
  rw [div_div, lt_div_iff₀ (by positivity)]
  push_cast
  constructor
  · intro h
    have : (L : Rat) < (W : Rat) := by linarith
    exact_mod_cast this
  · intro h
    have : (L : Rat) < (W : Rat) := by exact_mod_cast h
    linarith

/-- the arithmetic core: if every kept item's assorter value is `(w - l + 1)/2` for its 0/1 verdicts and every
dropped item has verdicts 0, 0, then the mean of the kept values exceeds 1/2 exactly when the winner's
tally (over ALL items) exceeds the loser's -/
theorem mean_iff_generic {π : Type} (ps : List π) (assort : π → Rat) (gw gl : π → Int) (keep : π → Bool)
    (h1 : ∀ p ∈ ps, assort p = ((gw p - gl p + 1 : Int) : Rat) / 2)
    (h2 : ∀ p ∈ ps, keep p = false → gw p = 0 ∧ gl p = 0) :
    (((ps.filter keep).map assort).isEmpty = true → ¬ (ps.map gl).sum < (ps.map gw).sum) ∧
    (((ps.filter keep).map assort).isEmpty = false →
      ((1 : Rat) / 2 < ((ps.filter keep).map assort).sum / (((ps.filter keep).map assort).length : Rat)
        ↔ (ps.map gl).sum < (ps.map gw).sum)) := by
  have hw := sum_filter_of_zero ps gw keep (fun p hp hk => (h2 p hp hk).1)
  have hl := sum_filter_of_zero ps gl keep (fun p hp hk => (h2 p hp hk).2)
  have hv : (ps.filter keep).map assort
      = (ps.filter keep).map (fun p => ((gw p - gl p + 1 : Int) : Rat) / 2) :=
    List.map_congr_left (fun p hp => h1 p (List.mem_of_mem_filter hp))
  constructor
  · intro he
    have : ps.filter keep = [] := by simpa using he
    rw [← hw, ← hl, this]
    simp
  · intro he
    have hne : ps.filter keep ≠ [] := by
      intro h; rw [h] at he; simp at he
    have hlen : 0 < (ps.filter keep).length := List.length_pos_iff.2 hne
    rw [hv, sum_half, List.length_map, half_lt_iff _ _ _ hlen, hw, hl]


/-- The audit's record `p.1` and the generator's record `p.2` of one card are *aligned* for contest `cid`
over the candidate list `cands` when either neither contains the contest, or for some duplicate-free ranking
`r` of candidates of `cands` the audit holds `{c ↦ k+1}` and the generator holds a dict that is the same
finite map as `{c ↦ k}`. -/
def Aligned (cid : κ) (cands : List α) (p : Votes κ α × GCvr κ α) : Prop :=
  (dget p.1 cid = none ∧ dget p.2 cid = none) ∨
  ∃ (r : List α) (g : GBallot α), r.Nodup ∧ (∀ a ∈ r, a ∈ cands) ∧
    dget p.1 cid = some (auditEnc r) ∧ dget p.2 cid = some g ∧ SameMap g (genEnc r)

theorem assorterMean_pairs (assort : Votes κ α → Rat) (cid : κ) (ps : List (Votes κ α × GCvr κ α))
    (useStyle : Bool) :
    assorterMean assort cid (ps.map (·.1)) useStyle =
      (let vals := (ps.filter (fun p => !useStyle || hasContest p.1 cid)).map (fun p => assort p.1)
       if vals.isEmpty then none else some (vals.sum / (vals.length : Rat))) := by
  unfold assorterMean
  simp only [List.filter_map, List.map_map]
  rfl

theorem aligned_dropped {cid : κ} {cands : List α} {p : Votes κ α × GCvr κ α} (h : Aligned cid cands p)
    {useStyle : Bool} (hk : (!useStyle || hasContest p.1 cid) = false) : dget p.2 cid = none := by
  have hc : hasContest p.1 cid = false := by
    cases useStyle <;> simp_all
  unfold hasContest at hc
  rcases h with ⟨_, h⟩ | ⟨r, g, _, _, h, _⟩
  · exact h
  · rw [h] at hc; simp at hc

/-- **C14, means (NEB).** For every list of cards (each seen by the audit as `p.1` and by the generator as
`p.2`, aligned for the contest) and every winner and loser: the mean of the WINNER_ONLY assorter as
`Assorter.mean` computes it (with or without `use_style`) exceeds 1/2 exactly when the generator's tally of
`is_vote_for_winner` exceeds its tally of `is_vote_for_loser`; when the mean is numpy's nan (no card to
average) the tally comparison fails. -/
theorem mean_gt_half_iff_tally (cid : κ) (cands : List α) (w l : α) (ps : List (Votes κ α × GCvr κ α))
    (h : ∀ p ∈ ps, Aligned cid cands p) (useStyle : Bool) :
    match assorterMean (fun v => nebAssort v cid w l) cid (ps.map (·.1)) useStyle with
    | none => ¬ (ps.map (fun p => nebLoser cid w l p.2)).sum < (ps.map (fun p => nebWinner cid w p.2)).sum
    | some m => ((1 : Rat) / 2 < m ↔
        (ps.map (fun p => nebLoser cid w l p.2)).sum < (ps.map (fun p => nebWinner cid w p.2)).sum) := by
  rw [assorterMean_pairs]
  have key := mean_iff_generic ps (fun p => nebAssort p.1 cid w l) (fun p => nebWinner cid w p.2)
    (fun p => nebLoser cid w l p.2) (fun p => !useStyle || hasContest p.1 cid)
    (by
      intro p hp
      rcases h p hp with ⟨ha, hg⟩ | ⟨r, g, _, _, ha, hg, hs⟩
      · exact (neb_agree_absent ha hg w l).2.2
      · exact (agree_sameMap ha hg hs w l).1)
    (by
      intro p hp hk
      have hg := aligned_dropped (h p hp) hk
      constructor
      · unfold nebWinner; rw [hg]
      · unfold nebLoser; rw [hg])
  simp only
  cases he : ((ps.filter (fun p => !useStyle || hasContest p.1 cid)).map
      (fun p => nebAssort p.1 cid w l)).isEmpty
  · simp only [Bool.false_eq_true, if_false]; exact key.2 he
  · simp only [if_true]; exact key.1 he

/-- **C14, means (NEN).** Same for the IRV_ELIMINATION assorter with
`remaining = [c for c in cands if c not in E]`, winner and loser in `cands`, any eliminated set `E`. -/
theorem mean_gt_half_iff_tally_nen (cid : κ) (cands E : List α) (w l : α) (hw : w ∈ cands) (hl : l ∈ cands)
    (ps : List (Votes κ α × GCvr κ α)) (h : ∀ p ∈ ps, Aligned cid cands p) (useStyle : Bool) :
    match assorterMean (fun v => nenAssort v cid w l (remnOf cands E)) cid (ps.map (·.1)) useStyle with
    | none => ¬ (ps.map (fun p => nenLoser cid l E p.2)).sum < (ps.map (fun p => nenWinner cid w E p.2)).sum
    | some m => ((1 : Rat) / 2 < m ↔
        (ps.map (fun p => nenLoser cid l E p.2)).sum < (ps.map (fun p => nenWinner cid w E p.2)).sum) := by
  rw [assorterMean_pairs]
  have key := mean_iff_generic ps (fun p => nenAssort p.1 cid w l (remnOf cands E))
    (fun p => nenWinner cid w E p.2) (fun p => nenLoser cid l E p.2)
    (fun p => !useStyle || hasContest p.1 cid)
    (by
      intro p hp
      rcases h p hp with ⟨ha, hg⟩ | ⟨r, g, _, hr, ha, hg, hs⟩
      · exact (nen_agree_absent ha hg w l E _).2.2
      · exact (agree_sameMap ha hg hs w l).2 cands E hr hw hl)
    (by
      intro p hp hk
      have hg := aligned_dropped (h p hp) hk
      constructor
      · unfold nenWinner; rw [hg]
      · unfold nenLoser; rw [hg])
  simp only
  cases he : ((ps.filter (fun p => !useStyle || hasContest p.1 cid)).map
      (fun p => nenAssort p.1 cid w l (remnOf cands E))).isEmpty
  · simp only [Bool.false_eq_true, if_false]; exact key.2 he
  · simp only [if_true]; exact key.1 he


/-! ### re-applying a generated assertion to the cvrs -/

theorem sum_ballotsOf {β : Type} (n : κ) (cvrs : List (β × GCvr κ α)) (f : GBallot α → Int) :
    ((ballotsOf n cvrs).map f).sum
      = (cvrs.map (fun r => match dget r.2 n with | none => 0 | some b => f b)).sum := by
  unfold ballotsOf
  induction cvrs with
  | nil => rfl
  | cons r cvrs ih =>
    simp only [List.filterMap_cons, List.map_cons, List.sum_cons]
    cases h : dget r.2 n with
    | none => simp [ih]
    | some b => simp [ih]

/-- **C14, re-application.** The NEB assertion object that `compute_raire_assertions` builds for `(c, d)`
(raire.py L80-95) and the NEN assertion object that `find_best_audit` builds for `(first_in_tail, later_cand)`
with `eliminated` from `ballots = [blt[contest.name] …]` (raire_utils.py L710-736, raire.py L106-107), when
their own `is_vote_for_winner` / `is_vote_for_loser` are summed over all the cvrs, reproduce the
`votes_for_winner` / `votes_for_loser` stored in them. (This is where the assertion's `contest` field must be
the contest *name* under which the cvrs store their ballots.) -/
theorem reapply_tallies {β : Type} (n : κ) (cvrs : List (β × GCvr κ α)) :
    (∀ c d a, mkNeb n c d cvrs = some a →
      (cvrs.map (fun r => a.isVoteForWinner r.2)).sum = a.votesForWinner ∧
      (cvrs.map (fun r => a.isVoteForLoser r.2)).sum = a.votesForLoser) ∧
    (∀ first later E a, mkNen n first later E (ballotsOf n cvrs) = some a →
      (cvrs.map (fun r => a.isVoteForWinner r.2)).sum = a.votesForWinner ∧
      (cvrs.map (fun r => a.isVoteForLoser r.2)).sum = a.votesForLoser) := by
  constructor
  · intro c d a h
    unfold mkNeb at h
    simp only at h
    split at h
    · cases h
      exact ⟨rfl, rfl⟩
    · cases h
  · intro first later E a h
    unfold mkNen at h
    simp only at h
    split at h
    · cases h
      simp only [Assn.isVoteForWinner, Assn.isVoteForLoser, Assn.votesForWinner, Assn.votesForLoser,
        sum_ballotsOf]
      exact ⟨rfl, rfl⟩
    · cases h


/-! ### the two readers of a RAIRE row -/

section DictLemmas
variable {ν : Type}

theorem dictSet_fresh (d : List (α × ν)) (k : α) (v : ν) (h : ∀ p ∈ d, p.1 ≠ k) :
    dictSet d k v = d ++ [(k, v)] := by
  induction d with
  | nil => rfl
  | cons p d ih =>
    have hp : p.1 ≠ k := h p List.mem_cons_self
    simp only [dictSet, hp, if_false, List.cons_append]
    rw [ih (fun q hq => h q (List.mem_cons_of_mem _ hq))]

theorem keys_dictSet (d : List (α × ν)) (k : α) (v : ν) :
    (dictSet d k v).map (·.1) = if k ∈ d.map (·.1) then d.map (·.1) else d.map (·.1) ++ [k] := by
  induction d with
  | nil => simp [dictSet]
  | cons p d ih =>
    by_cases hp : p.1 = k
    · simp [dictSet, hp]
    · have hk : ¬ k = p.1 := fun h => hp h.symm
      simp only [dictSet, hp, if_false, List.map_cons, List.mem_cons, hk, false_or, ih]
      split <;> simp

theorem keys_nodup_dictSet (d : List (α × ν)) (k : α) (v : ν) (h : (d.map (·.1)).Nodup) :
    ((dictSet d k v).map (·.1)).Nodup := by
  rw [keys_dictSet]
  split
  · exact h
  · rename_i hk
    exact List.nodup_append.2 ⟨h, (by simp), by
      intro a ha b hb
      simp only [List.mem_singleton] at hb
      subst hb
      intro hab; subst hab; exact hk ha⟩

theorem mem_dictSet (d : List (α × ν)) (k : α) (v : ν) (h : (d.map (·.1)).Nodup) (p : α × ν) :
    p ∈ dictSet d k v ↔ (p ∈ d ∧ p.1 ≠ k) ∨ p = (k, v) := by
  induction d with
  | nil => simp [dictSet]
  | cons q d ih =>
    simp only [List.map_cons, List.nodup_cons, List.mem_map, not_exists, not_and] at h
    by_cases hq : q.1 = k
    · have hd : ∀ x ∈ d, x.1 ≠ k := fun x hx hxk => h.1 x hx (by rw [hxk, hq])
      simp only [dictSet, hq, if_true, List.mem_cons]
      constructor
      · rintro (hp | hp)
        · exact Or.inr hp
        · exact Or.inl ⟨Or.inr hp, hd p hp⟩
      · rintro (⟨hp | hp, hpk⟩ | hp)
        · subst hp; exact absurd hq hpk
        · exact Or.inr hp
        · exact Or.inl hp
    · simp only [dictSet, hq, if_false, List.mem_cons, ih h.2]
      constructor
      · rintro (hp | ⟨hp, hpk⟩ | hp)
        · subst hp; exact Or.inl ⟨Or.inl rfl, hq⟩
        · exact Or.inl ⟨Or.inr hp, hpk⟩
        · exact Or.inr hp
      · rintro (⟨hp | hp, hpk⟩ | hp)
        · exact Or.inl hp
        · exact Or.inr (Or.inl ⟨hp, hpk⟩)
        · exact Or.inr (Or.inr hp)

end DictLemmas

/-! audit reader -/

theorem encFrom_shift (k : Nat) (r : List α) :
    (encFrom (k + 2) r).map (fun p => (p.1, (p.2 : Int) - 1))
      = (encFrom k r).map (fun p => (p.1, (p.2 : Int) + 1)) := by
  induction r generalizing k with
  | nil => rfl
  | cons c cs ih =>
    simp only [encFrom, List.map_cons, ih (k + 1)]
    congr 2
    push_cast
    ring

theorem fromRaireVotes_eq (ps : List α) (j : Nat) (votes : ABallot α) (hnd : ps.Nodup)
    (hdis : ∀ p ∈ votes, p.1 ∉ ps) :
    fromRaireVotes ps j votes = votes ++ (encFrom j ps).map (fun p => (p.1, (p.2 : Int) - 1)) := by
  induction ps generalizing j votes with
  | nil => simp [fromRaireVotes, encFrom]
  | cons a ps ih =>
    simp only [List.nodup_cons] at hnd
    have hfresh : ∀ p ∈ votes, p.1 ≠ a := fun p hp h => hdis p hp (by rw [h]; exact List.mem_cons_self)
    simp only [fromRaireVotes, dictSet_fresh votes a _ hfresh, encFrom, List.map_cons]
    rw [ih (j + 1) _ hnd.2]
    · simp
    · intro p hp
      simp only [List.mem_append, List.mem_singleton] at hp
      rcases hp with hp | hp
      · exact fun h => hdis p hp (List.mem_cons_of_mem _ h)
      · subst hp; exact hnd.1

/-- the audit reader gives the ranking `prefs` the encoding `{c ↦ k+1}` -/
theorem fromRaireBallot_eq (prefs : List α) (hnd : prefs.Nodup) : fromRaireBallot prefs = auditEnc prefs := by
  unfold fromRaireBallot auditEnc
  rw [fromRaireVotes_eq prefs 2 [] hnd (by simp)]
  simpa using encFrom_shift 0 prefs

theorem encFrom_sorted (k : Nat) (r : List α) : (encFrom k r).Pairwise (fun x y => x.2 ≤ y.2) := by
  induction r generalizing k with
  | nil => exact List.Pairwise.nil
  | cons c cs ih =>
    simp only [encFrom, List.pairwise_cons]
    exact ⟨fun p hp => Nat.le_trans (Nat.le_succ k) (mem_encFrom_ge (a := p.1) (i := p.2) hp), ih (k + 1)⟩

theorem auditOrder_auditEnc (r : List α) : auditOrder (auditEnc r) = r := by
  unfold auditOrder
  rw [List.mergeSort_of_pairwise]
  · unfold auditEnc
    rw [List.map_map]
    exact map_fst_encFrom 0 r
  · unfold auditEnc
    rw [List.pairwise_map]
    refine (encFrom_sorted 0 r).imp ?_
    intro x y h
    simp only [decide_eq_true_eq]
    omega

/-! generator reader -/

theorem mem_encFrom_iff (k : Nat) (r : List α) (hnd : r.Nodup) (c : α) (i : Nat) :
    (c, i) ∈ encFrom k r ↔ c ∈ r ∧ i = k + r.idxOf c := by
  induction r generalizing k with
  | nil => simp [encFrom]
  | cons a r ih =>
    simp only [List.nodup_cons] at hnd
    simp only [encFrom, List.mem_cons, Prod.mk.injEq, ih (k + 1) hnd.2, List.idxOf_cons]
    by_cases hca : c = a
    · subst hca
      simp only [true_and, true_or, beq_self_eq_true, cond_true, Nat.add_zero]
      constructor
      · rintro (h | ⟨h, _⟩)
        · exact h
        · exact absurd h hnd.1
      · intro h; exact Or.inl h
    · have hac : (a == c) = false := by simp [Ne.symm hca]
      simp only [hca, false_and, false_or, hac, cond_false]
      constructor
      · rintro ⟨h1, h2⟩; exact ⟨h1, by omega⟩
      · rintro ⟨h1, h2⟩; exact ⟨h1, by omega⟩

theorem load_fold (prefs : List α) (cands : List α) (acc : GBallot α)
    (hk : (acc.map (·.1)).Nodup) :
    ((cands.foldl (fun ballot c => if prefs.contains c then dictSet ballot c (prefs.idxOf c) else ballot)
        acc).map (·.1)).Nodup ∧
    ((∀ p ∈ acc, p.2 = prefs.idxOf p.1) →
      ∀ p, p ∈ cands.foldl (fun ballot c => if prefs.contains c then dictSet ballot c (prefs.idxOf c) else ballot)
          acc ↔ p ∈ acc ∨ (p.1 ∈ cands ∧ p.1 ∈ prefs ∧ p.2 = prefs.idxOf p.1)) := by
  induction cands generalizing acc with
  | nil => simp [hk]
  | cons c cands ih =>
    simp only [List.foldl_cons]
    by_cases hc : c ∈ prefs
    · have hc' : prefs.contains c = true := by simp [hc]
      simp only [hc', if_true]
      have hk' := keys_nodup_dictSet acc c (prefs.idxOf c) hk
      refine ⟨(ih _ hk').1, ?_⟩
      intro hval p
      have hval' : ∀ q ∈ dictSet acc c (prefs.idxOf c), q.2 = prefs.idxOf q.1 := by
        intro q hq
        rcases (mem_dictSet acc c _ hk q).1 hq with ⟨hq, _⟩ | hq
        · exact hval q hq
        · subst hq; rfl
      rw [(ih _ hk').2 hval' p, mem_dictSet acc c _ hk p]
      constructor
      · rintro ((⟨hp, _⟩ | hp) | ⟨h1, h2, h3⟩)
        · exact Or.inl hp
        · subst hp; exact Or.inr ⟨List.mem_cons_self, hc, rfl⟩
        · exact Or.inr ⟨List.mem_cons_of_mem _ h1, h2, h3⟩
      · rintro (hp | ⟨h1, h2, h3⟩)
        · by_cases hpc : p.1 = c
          · refine Or.inl (Or.inr ?_)
            have := hval p hp
            ext
            · exact hpc
            · simp [this, hpc]
          · exact Or.inl (Or.inl ⟨hp, hpc⟩)
        · rcases List.mem_cons.1 h1 with h1 | h1
          · refine Or.inl (Or.inr ?_)
            ext
            · exact h1
            · simp [h3, h1]
          · exact Or.inr ⟨h1, h2, h3⟩
    · have hc' : prefs.contains c = false := by simp [hc]
      simp only [hc', Bool.false_eq_true, if_false]
      refine ⟨(ih _ hk).1, ?_⟩
      intro hval p
      rw [(ih _ hk).2 hval p]
      constructor
      · rintro (hp | ⟨h1, h2, h3⟩)
        · exact Or.inl hp
        · exact Or.inr ⟨List.mem_cons_of_mem _ h1, h2, h3⟩
      · rintro (hp | ⟨h1, h2, h3⟩)
        · exact Or.inl hp
        · rcases List.mem_cons.1 h1 with h1 | h1
          · rw [h1] at h2; exact absurd h2 hc
          · exact Or.inr ⟨h1, h2, h3⟩

/-- what `load_contests_from_raire` stores for a row: exactly the listed candidates that occur in `prefs`, each
with the index of its first occurrence; no key twice (whatever `cands` and `prefs` are) -/
theorem mem_loadRaireBallot (cands prefs : List α) :
    ((loadRaireBallot cands prefs).map (·.1)).Nodup ∧
    ∀ p, p ∈ loadRaireBallot cands prefs ↔ p.1 ∈ cands ∧ p.1 ∈ prefs ∧ p.2 = prefs.idxOf p.1 := by
  unfold loadRaireBallot
  have h := load_fold prefs cands [] (by simp)
  refine ⟨h.1, fun p => ?_⟩
  rw [h.2 (by simp) p]
  simp

/-- for a duplicate-free ranking of listed candidates the generator reader's dict has exactly the entries of
`{c ↦ k}` (in the order of the candidate list rather than of the ranking) -/
theorem loadRaireBallot_mem_iff (cands prefs : List α) (hnd : prefs.Nodup) (hsub : ∀ c ∈ prefs, c ∈ cands)
    (p : α × Nat) : p ∈ loadRaireBallot cands prefs ↔ p ∈ genEnc prefs := by
  obtain ⟨c, i⟩ := p
  rw [(mem_loadRaireBallot cands prefs).2, genEnc, mem_encFrom_iff 0 prefs hnd]
  simp only [Nat.zero_add]
  constructor
  · rintro ⟨_, h2, h3⟩; exact ⟨h2, h3⟩
  · rintro ⟨h2, h3⟩; exact ⟨hsub c h2, h2, h3⟩

theorem genOrder_loadRaireBallot (cands prefs : List α) (hnd : prefs.Nodup) (hsub : ∀ c ∈ prefs, c ∈ cands) :
    genOrder (loadRaireBallot cands prefs) = prefs := by
  have hperm : (loadRaireBallot cands prefs).Perm (genEnc prefs) :=
    (List.perm_ext_iff_of_nodup (nodup_of_keys_nodup (mem_loadRaireBallot cands prefs).1)
      (nodup_of_keys_nodup (keys_nodup_genEnc prefs hnd))).2 (loadRaireBallot_mem_iff cands prefs hnd hsub)
  have hsorted : (genEnc prefs).Pairwise (fun x y => decide (x.2 ≤ y.2) = true) :=
    (encFrom_sorted 0 prefs).imp (fun h => by simpa using h)
  have hms : ((loadRaireBallot cands prefs).mergeSort (fun x y => decide (x.2 ≤ y.2))).Pairwise
      (fun x y => decide (x.2 ≤ y.2) = true) :=
    List.pairwise_mergeSort
      (fun a b c hab hbc => by simp only [decide_eq_true_eq] at *; omega)
      (fun a b => by simp only [Bool.or_eq_true, decide_eq_true_eq]; omega) _
  have heq : (loadRaireBallot cands prefs).mergeSort (fun x y => decide (x.2 ≤ y.2)) = genEnc prefs := by
    refine List.Perm.eq_of_pairwise ?_ hms hsorted ((List.mergeSort_perm _ _).trans hperm)
    intro a b ha hb hab hba
    simp only [decide_eq_true_eq] at hab hba
    have ha' : a ∈ genEnc prefs := hperm.mem_iff.1 ((List.mergeSort_perm _ _).mem_iff.1 ha)
    have h2 : a.2 = b.2 := Nat.le_antisymm hab hba
    obtain ⟨a1, a2⟩ := a
    obtain ⟨b1, b2⟩ := b
    simp only at h2
    subst h2
    have := encFrom_index_inj ha' hb
    rw [this]
  unfold genOrder
  rw [heq, genEnc, map_fst_encFrom]


/-- **C14, readers (one row).** For every row of a RAIRE file whose preference tokens `prefs` are a
duplicate-free ranking of candidates listed for the contest (`cands` = the contest line's candidate list, any
list): `CVR.from_raire` stores exactly the audit encoding `{c ↦ k+1}` of `prefs`;
`load_contests_from_raire` stores a dict with exactly the entries of the generator encoding `{c ↦ k}` (each key
once); and the preference orders the two dicts encode (candidates by increasing rank / index) are both `prefs`. -/
theorem readers_agree (cands prefs : List α) (hnd : prefs.Nodup) (hsub : ∀ c ∈ prefs, c ∈ cands) :
    fromRaireBallot prefs = auditEnc prefs ∧
    ((loadRaireBallot cands prefs).map (·.1)).Nodup ∧
    (∀ p, p ∈ loadRaireBallot cands prefs ↔ p ∈ genEnc prefs) ∧
    auditOrder (fromRaireBallot prefs) = prefs ∧
    genOrder (loadRaireBallot cands prefs) = prefs ∧
    auditOrder (fromRaireBallot prefs) = genOrder (loadRaireBallot cands prefs) := by
  have h1 := fromRaireBallot_eq prefs hnd
  have h4 : auditOrder (fromRaireBallot prefs) = prefs := by rw [h1]; exact auditOrder_auditEnc prefs
  have h5 := genOrder_loadRaireBallot cands prefs hnd hsub
  exact ⟨h1, (mem_loadRaireBallot cands prefs).1, loadRaireBallot_mem_iff cands prefs hnd hsub, h4, h5,
    h4.trans h5.symm⟩

/-- **C14, one row through both readers.** A card on which the audit holds what `CVR.from_raire` read from a
row and the generator holds what `load_contests_from_raire` read from the same row (duplicate-free `prefs` of
listed candidates): every NEB assertion, and every NEN assertion with winner and loser in `cands` and any
eliminated set, is scored by the audit's assorter as `(w - l + 1)/2` with the generator's verdicts. -/
theorem row_agree {votes : Votes κ α} {cvr : GCvr κ α} {cid : κ} (cands prefs : List α)
    (hnd : prefs.Nodup) (hsub : ∀ c ∈ prefs, c ∈ cands)
    (ha : dget votes cid = some (fromRaireBallot prefs)) (hg : dget cvr cid = some (loadRaireBallot cands prefs))
    (w l : α) :
    nebAssort votes cid w l = ((nebWinner cid w cvr - nebLoser cid w l cvr + 1 : Int) : Rat) / 2 ∧
    ∀ E, w ∈ cands → l ∈ cands →
      nenAssort votes cid w l (remnOf cands E)
        = ((nenWinner cid w E cvr - nenLoser cid l E cvr + 1 : Int) : Rat) / 2 := by
  obtain ⟨h1, h2, h3, _⟩ := readers_agree cands prefs hnd hsub
  rw [h1] at ha
  have hs : SameMap (loadRaireBallot cands prefs) (genEnc prefs) := ⟨h2, keys_nodup_genEnc prefs hnd, h3⟩
  obtain ⟨e1, e2⟩ := agree_sameMap ha hg hs w l
  exact ⟨e1, fun E hw hl => e2 cands E hsub hw hl⟩

/-! ### whole RAIRE files through both readers -/

section File

/-- a parsed ballot row `cid, bid, p1, p2, …` -/
abbrev Row := String × String × List String

def Row.toks (t : Row) : List String := t.1 :: t.2.1 :: t.2.2

/-- apply `F cid ·` to every ballot of a nested dict `bid ↦ cid ↦ ballot` -/
def mapVals {π ν : Type} (F : String → π → ν) (S : List (String × List (String × π))) :
    List (String × List (String × ν)) :=
  S.map (fun bv => (bv.1, bv.2.map (fun cp => (cp.1, F cp.1 cp.2))))

/-- the content of the ballot rows as a nested dict `bid ↦ cid ↦ prefs` (a later row for the same ballot and
contest replaces the earlier one; ballots and contests in order of first appearance) -/
def shape (rs : List Row) : List (String × List (String × List String)) :=
  rs.foldl (fun S t => setBallot S t.2.1 t.1 t.2.2) []

def candsOf (info : List (String × List String × String)) (cid : String) : List String :=
  match dget info cid with
  | some x => x.1
  | none => []

variable {κ' : Type} [DecidableEq κ']

theorem dget_map_val {π ν : Type} (G : κ' → π → ν) (d : List (κ' × π)) (k : κ') :
    dget (d.map (fun kv => (kv.1, G kv.1 kv.2))) k = (dget d k).map (G k) := by
  induction d with
  | nil => rfl
  | cons q d ih =>
    simp only [List.map_cons, dget]
    split
    · rename_i h; simp [h]
    · exact ih

theorem dictSet_map_val {π ν : Type} (G : κ' → π → ν) (d : List (κ' × π)) (k : κ') (v : π) :
    dictSet (d.map (fun kv => (kv.1, G kv.1 kv.2))) k (G k v)
      = (dictSet d k v).map (fun kv => (kv.1, G kv.1 kv.2)) := by
  induction d with
  | nil => rfl
  | cons q d ih =>
    simp only [List.map_cons, dictSet]
    split
    · rename_i h; simp [h]
    · simp [ih]

theorem setBallot_mapVals {π ν : Type} (F : String → π → ν) (S : List (String × List (String × π)))
    (b c : String) (p : π) :
    setBallot (mapVals F S) b c (F c p) = mapVals F (setBallot S b c p) := by
  unfold setBallot mapVals
  rw [dget_map_val (fun _ (vs : List (String × π)) => vs.map (fun cp => (cp.1, F cp.1 cp.2))) S b]
  cases dget S b with
  | none => simp
  | some inner =>
    simp only [Option.map_some]
    rw [dictSet_map_val F inner c p]
    exact dictSet_map_val (fun _ (vs : List (String × π)) => vs.map (fun cp => (cp.1, F cp.1 cp.2))) S b _


/-- one step of `merge_cvrs` on a one-contest CVR built by `from_vote` is `cvrs[id][cid] = ballot` -/
theorem merge_step (od : List (String × Votes String String)) (id cid : String) (a : ABallot String) :
    mergeStep od (id, fromVote a cid) = setBallot od id cid a := by
  unfold setBallot mergeStep
  cases dget od id <;> rfl

theorem mapVals_nil {π ν : Type} (F : String → π → ν) : mapVals F [] = [] := rfl

theorem mapM_fromRaireRow (rs : List Row) :
    (rs.map Row.toks).mapM (fromRaireRow (σ := String))
      = .ok (rs.map (fun t => (t.2.1, fromVote (fromRaireBallot t.2.2) t.1))) := by
  induction rs with
  | nil => rfl
  | cons t rs ih =>
    simp only [List.map_cons, List.mapM_cons, ih]
    rfl

theorem mergeCvrs_fold (rs : List Row) (S : List (String × List (String × List String))) :
    (rs.map (fun t => (t.2.1, fromVote (fromRaireBallot t.2.2) t.1))).foldl mergeStep
      (mapVals (fun _ p => fromRaireBallot p) S)
    = mapVals (fun _ p => fromRaireBallot p) (rs.foldl (fun S t => setBallot S t.2.1 t.1 t.2.2) S) := by
  induction rs generalizing S with
  | nil => rfl
  | cons t rs ih =>
    simp only [List.map_cons, List.foldl_cons]
    rw [merge_step, setBallot_mapVals (fun _ p => fromRaireBallot p) S t.2.1 t.1 t.2.2]
    exact ih _

theorem loadBallotLines_fold (info : List (String × List String × String)) (rs : List Row)
    (hdecl : ∀ t ∈ rs, (dget info t.1).isSome) (S : List (String × List (String × List String))) :
    (rs.map Row.toks).foldlM (loadBallotLine info) (mapVals (fun c p => loadRaireBallot (candsOf info c) p) S)
    = .ok (mapVals (fun c p => loadRaireBallot (candsOf info c) p)
        (rs.foldl (fun S t => setBallot S t.2.1 t.1 t.2.2) S)) := by
  induction rs generalizing S with
  | nil => rfl
  | cons t rs ih =>
    have ht := hdecl t List.mem_cons_self
    simp only [List.map_cons, List.foldlM_cons, List.foldl_cons]
    have hstep : loadBallotLine info (mapVals (fun c p => loadRaireBallot (candsOf info c) p) S) t.toks
        = .ok (mapVals (fun c p => loadRaireBallot (candsOf info c) p) (setBallot S t.2.1 t.1 t.2.2)) := by
      unfold loadBallotLine Row.toks
      simp only
      cases hd : dget info t.1 with
      | none => rw [hd] at ht; simp at ht
      | some x =>
        simp only
        rw [← setBallot_mapVals (fun c p => loadRaireBallot (candsOf info c) p) S t.2.1 t.1 t.2.2]
        simp [candsOf, hd]
    rw [hstep]
    exact ih (fun u hu => hdecl u (List.mem_cons_of_mem _ hu)) _

/-- **C14, readers (whole file).** For every RAIRE file — `n` contest lines that the generator's reader parses
into `info`, followed by ballot rows `cid, bid, p1, p2, …` (any number of contests, ballot identifiers
repeated across and within contests, rows in any order) whose contests are declared — both readers succeed,
skip the same `n + 1` header lines, and produce the same nested structure `bid ↦ cid ↦ ·` (`shape rs`: same
ballots in the same order, same contests per ballot, the later row replacing an earlier one for the same ballot
and contest), in which the audit holds `fromRaireBallot prefs` and the generator
`loadRaireBallot (candidates of cid) prefs` for one and the same row `prefs`. -/
theorem file_readers (n : Nat) (rows : List (List String)) (info : List (String × List String × String))
    (rs : List Row) (hinfo : loadContestInfo n rows = .ok info) (hrows : rows.drop (n + 1) = rs.map Row.toks)
    (hdecl : ∀ t ∈ rs, (dget info t.1).isSome) :
    fromRaire n rows = .ok (mapVals (fun _ p => fromRaireBallot p) (shape rs)) ∧
    loadContestsFromRaire n rows
      = .ok (info, mapVals (fun c p => loadRaireBallot (candsOf info c) p) (shape rs)) := by
  constructor
  · unfold fromRaire
    rw [hrows, mapM_fromRaireRow]
    simp only [bind, Except.bind, pure, Except.pure]
    unfold mergeCvrs shape
    have := mergeCvrs_fold rs []
    rw [mapVals_nil] at this
    rw [this]
  · unfold loadContestsFromRaire loadBallotLines
    rw [hinfo, hrows]
    simp only [bind, Except.bind]
    have := loadBallotLines_fold info rs hdecl []
    rw [mapVals_nil] at this
    rw [this]
    rfl

theorem mem_dictSet_imp {ν : Type} (d : List (κ' × ν)) (k : κ') (v : ν) (p : κ' × ν)
    (h : p ∈ dictSet d k v) : p ∈ d ∨ p = (k, v) := by
  induction d with
  | nil => simp [dictSet] at h; exact Or.inr h
  | cons q d ih =>
    simp only [dictSet] at h
    split at h
    · rename_i hq
      rcases List.mem_cons.1 h with h | h
      · exact Or.inr (by rw [h, hq])
      · exact Or.inl (List.mem_cons_of_mem _ h)
    · rcases List.mem_cons.1 h with h | h
      · exact Or.inl (by rw [h]; exact List.mem_cons_self)
      · rcases ih h with h | h
        · exact Or.inl (List.mem_cons_of_mem _ h)
        · exact Or.inr h

/-- every ballot in the nested structure is the `prefs` of one of the rows -/
theorem shape_mem (rs : List Row) :
    ∀ bv ∈ shape rs, ∀ cp ∈ bv.2, (cp.1, bv.1, cp.2) ∈ rs := by
  unfold shape
  suffices h : ∀ (rs' : List Row) (S : List (String × List (String × List String))),
      (∀ bv ∈ S, ∀ cp ∈ bv.2, (cp.1, bv.1, cp.2) ∈ rs) → (∀ t ∈ rs', t ∈ rs) →
      ∀ bv ∈ rs'.foldl (fun S t => setBallot S t.2.1 t.1 t.2.2) S, ∀ cp ∈ bv.2, (cp.1, bv.1, cp.2) ∈ rs from
    h rs [] (by simp) (fun t ht => ht)
  intro rs'
  induction rs' with
  | nil => intro S hS _; exact hS
  | cons t rs' ih =>
    intro S hS hsub
    simp only [List.foldl_cons]
    apply ih _ _ (fun u hu => hsub u (List.mem_cons_of_mem _ hu))
    have ht : t ∈ rs := hsub t List.mem_cons_self
    intro bv hbv cp hcp
    unfold setBallot at hbv
    cases hd : dget S t.2.1 with
    | none =>
      rw [hd] at hbv
      simp only [List.mem_append, List.mem_singleton] at hbv
      rcases hbv with hbv | hbv
      · exact hS bv hbv cp hcp
      · subst hbv
        simp only [List.mem_singleton] at hcp
        subst hcp
        exact ht
    | some inner =>
      rw [hd] at hbv
      simp only at hbv
      rcases mem_dictSet_imp _ _ _ _ hbv with hbv | hbv
      · exact hS bv hbv cp hcp
      · subst hbv
        simp only at hcp ⊢
        rcases mem_dictSet_imp _ _ _ _ hcp with hcp | hcp
        · exact hS (t.2.1, inner) (dget_mem hd) cp hcp
        · subst hcp; exact ht

theorem mapVals_mapVals {π ν μ : Type} (F : String → π → ν) (G : String → ν → μ)
    (S : List (String × List (String × π))) :
    mapVals G (mapVals F S) = mapVals (fun c p => G c (F c p)) S := by
  unfold mapVals
  simp [List.map_map, Function.comp_def]

theorem mapVals_congr {π ν : Type} (F G : String → π → ν) (S : List (String × List (String × π)))
    (h : ∀ bv ∈ S, ∀ cp ∈ bv.2, F cp.1 cp.2 = G cp.1 cp.2) : mapVals F S = mapVals G S := by
  unfold mapVals
  apply List.map_congr_left
  intro bv hbv
  congr 1
  apply List.map_congr_left
  intro cp hcp
  rw [h bv hbv cp hcp]

theorem mapVals_id {π : Type} (S : List (String × List (String × π))) : mapVals (fun _ p => p) S = S := by
  unfold mapVals
  simp

/-- a row is *clean* for `info`: its contest is declared and its preferences are a duplicate-free ranking of
candidates listed for that contest -/
def CleanRow (info : List (String × List String × String)) (t : Row) : Prop :=
  (dget info t.1).isSome ∧ t.2.2.Nodup ∧ ∀ c ∈ t.2.2, c ∈ candsOf info t.1

/-- **C14, readers (whole file), preference orders.** On a file all of whose ballot rows are clean, the two
readers' outputs decode to the same preference order for every (ballot, contest) — namely the row's own
`prefs` — in the same nested structure. -/
theorem file_orders_agree (n : Nat) (rows : List (List String)) (info : List (String × List String × String))
    (rs : List Row) (hinfo : loadContestInfo n rows = .ok info) (hrows : rows.drop (n + 1) = rs.map Row.toks)
    (hclean : ∀ t ∈ rs, CleanRow info t) :
    ∃ acvrs gcvrs, fromRaire n rows = .ok acvrs ∧ loadContestsFromRaire n rows = .ok (info, gcvrs) ∧
      mapVals (fun _ a => auditOrder a) acvrs = shape rs ∧
      mapVals (fun _ g => genOrder g) gcvrs = shape rs := by
  obtain ⟨h1, h2⟩ := file_readers n rows info rs hinfo hrows (fun t ht => (hclean t ht).1)
  refine ⟨_, _, h1, h2, ?_, ?_⟩
  · rw [mapVals_mapVals]
    refine (mapVals_congr _ (fun _ p => p) _ ?_).trans (mapVals_id _)
    intro bv hbv cp hcp
    obtain ⟨_, hnd, hsub⟩ := hclean _ (shape_mem rs bv hbv cp hcp)
    exact (readers_agree (candsOf info cp.1) cp.2 hnd hsub).2.2.2.1
  · rw [mapVals_mapVals]
    refine (mapVals_congr _ (fun _ p => p) _ ?_).trans (mapVals_id _)
    intro bv hbv cp hcp
    obtain ⟨_, hnd, hsub⟩ := hclean _ (shape_mem rs bv hbv cp hcp)
    exact (readers_agree (candsOf info cp.1) cp.2 hnd hsub).2.2.2.2.1

/-- the cards of the file, each as (what the audit reader holds, what the generator reader holds) -/
def filePairs (info : List (String × List String × String)) (rs : List Row) :
    List (Votes String String × GCvr String String) :=
  (shape rs).map (fun bv =>
    (bv.2.map (fun cp => (cp.1, fromRaireBallot cp.2)),
     bv.2.map (fun cp => (cp.1, loadRaireBallot (candsOf info cp.1) cp.2))))

theorem file_aligned (info : List (String × List String × String)) (rs : List Row)
    (hclean : ∀ t ∈ rs, CleanRow info t) (cid : String) :
    ∀ p ∈ filePairs info rs, Aligned cid (candsOf info cid) p := by
  intro p hp
  unfold filePairs at hp
  obtain ⟨bv, hbv, rfl⟩ := List.mem_map.1 hp
  unfold Aligned
  simp only
  rw [dget_map_val (fun _ p => fromRaireBallot p) bv.2 cid,
    dget_map_val (fun c p => loadRaireBallot (candsOf info c) p) bv.2 cid]
  cases hd : dget bv.2 cid with
  | none => exact Or.inl ⟨rfl, rfl⟩
  | some prefs =>
    obtain ⟨_, hnd, hsub⟩ := hclean _ (shape_mem rs bv hbv (cid, prefs) (dget_mem hd))
    obtain ⟨h1, h2, h3, _⟩ := readers_agree (candsOf info cid) prefs hnd hsub
    refine Or.inr ⟨prefs, loadRaireBallot (candsOf info cid) prefs, hnd, hsub, ?_, rfl,
      ⟨h2, keys_nodup_genEnc prefs hnd, h3⟩⟩
    simp only [Option.map_some, h1]

/-- **C14, whole file.** On a RAIRE file all of whose ballot rows are clean (declared contest, duplicate-free
ranking of listed candidates; any number of contests, repeated ballot identifiers), with the audit's CVRs read
by `CVR.from_raire` and the generator's by `load_contests_from_raire`: for every contest, winner and loser the
mean of the audit's WINNER_ONLY assorter over the CVRs (`Assorter.mean`, either `use_style`) exceeds 1/2
exactly when the generator's NEB tally of the winner over its cvrs exceeds that of the loser; and the same for
the IRV_ELIMINATION assorter and the NEN tallies, for every eliminated set and winner, loser among the
contest's candidates. -/
theorem file_mean_gt_half_iff_tally (n : Nat) (rows : List (List String))
    (info : List (String × List String × String)) (rs : List Row)
    (hinfo : loadContestInfo n rows = .ok info) (hrows : rows.drop (n + 1) = rs.map Row.toks)
    (hclean : ∀ t ∈ rs, CleanRow info t) (cid w l : String) (useStyle : Bool) :
    ∃ acvrs gcvrs, fromRaire n rows = .ok acvrs ∧ loadContestsFromRaire n rows = .ok (info, gcvrs) ∧
      (match assorterMean (fun v => nebAssort v cid w l) cid (acvrs.map (·.2)) useStyle with
        | none => ¬ (gcvrs.map (fun r => nebLoser cid w l r.2)).sum < (gcvrs.map (fun r => nebWinner cid w r.2)).sum
        | some m => ((1 : Rat) / 2 < m ↔
            (gcvrs.map (fun r => nebLoser cid w l r.2)).sum < (gcvrs.map (fun r => nebWinner cid w r.2)).sum)) ∧
      (∀ E, w ∈ candsOf info cid → l ∈ candsOf info cid →
        match assorterMean (fun v => nenAssort v cid w l (remnOf (candsOf info cid) E)) cid (acvrs.map (·.2))
            useStyle with
        | none => ¬ (gcvrs.map (fun r => nenLoser cid l E r.2)).sum < (gcvrs.map (fun r => nenWinner cid w E r.2)).sum
        | some m => ((1 : Rat) / 2 < m ↔
            (gcvrs.map (fun r => nenLoser cid l E r.2)).sum < (gcvrs.map (fun r => nenWinner cid w E r.2)).sum)) := by
  obtain ⟨h1, h2⟩ := file_readers n rows info rs hinfo hrows (fun t ht => (hclean t ht).1)
  refine ⟨_, _, h1, h2, ?_, ?_⟩
  · have hA : (mapVals (fun _ p => fromRaireBallot p) (shape rs)).map (·.2) = (filePairs info rs).map (·.1) := by
      simp [mapVals, filePairs, List.map_map, Function.comp_def]
    have hG : ∀ f : GCvr String String → Int,
        (mapVals (fun c p => loadRaireBallot (candsOf info c) p) (shape rs)).map (fun r => f r.2)
          = (filePairs info rs).map (fun p => f p.2) := by
      intro f; simp [mapVals, filePairs, List.map_map, Function.comp_def]
    rw [hA, hG (nebWinner cid w), hG (nebLoser cid w l)]
    exact mean_gt_half_iff_tally cid (candsOf info cid) w l (filePairs info rs)
      (file_aligned info rs hclean cid) useStyle
  · intro E hw hl
    have hA : (mapVals (fun _ p => fromRaireBallot p) (shape rs)).map (·.2) = (filePairs info rs).map (·.1) := by
      simp [mapVals, filePairs, List.map_map, Function.comp_def]
    have hG : ∀ f : GCvr String String → Int,
        (mapVals (fun c p => loadRaireBallot (candsOf info c) p) (shape rs)).map (fun r => f r.2)
          = (filePairs info rs).map (fun p => f p.2) := by
      intro f; simp [mapVals, filePairs, List.map_map, Function.comp_def]
    rw [hA, hG (nenWinner cid w E), hG (nenLoser cid l E)]
    exact mean_gt_half_iff_tally_nen cid (candsOf info cid) E w l hw hl (filePairs info rs)
      (file_aligned info rs hclean cid) useStyle

end File

/-! ### Non-vacuity: concrete instances (tests of the statements and of their hypotheses, not the theorems) -/

-- ballot B > A, assertion "A NEB B": a vote for the loser on both sides, assorter value 0
example : nebWinnerFunc (fromVote (auditEnc ["B", "A"]) "c") "c" "A" = 0 ∧
    nebLoserFunc (fromVote (auditEnc ["B", "A"]) "c") "c" "A" "B" = 1 ∧
    nebWinner "c" "A" [("c", genEnc ["B", "A"])] = 0 ∧ nebLoser "c" "A" "B" [("c", genEnc ["B", "A"])] = 1 := by
  decide
example : nebAssort (fromVote (auditEnc ["B", "A"]) "c") "c" "A" "B" = 0 := by
  rw [neb_agree_from_vote]
  have h1 : nebWinner "c" "A" [("c", genEnc ["B", "A"])] = 0 := by decide
  have h2 : nebLoser "c" "A" "B" [("c", genEnc ["B", "A"])] = 1 := by decide
  rw [h1, h2]; norm_num
-- ballot C > A > B with C eliminated: a vote for A in "A NEN B | {C}"; the guard of `nen_agree` holds
example : (∀ a ∈ ["C", "A", "B"], a ∈ ["A", "B", "C"]) ∧ "A" ∈ ["A", "B", "C"] ∧ "B" ∈ ["A", "B", "C"] := by
  decide
example : rcvVoteforCand (fromVote (auditEnc ["C", "A", "B"]) "c") "c" "A" (remnOf ["A", "B", "C"] ["C"]) = 1 ∧
    rcvVoteforCand (fromVote (auditEnc ["C", "A", "B"]) "c") "c" "B" (remnOf ["A", "B", "C"] ["C"]) = 0 ∧
    nenWinner "c" "A" ["C"] [("c", genEnc ["C", "A", "B"])] = 1 ∧
    nenLoser "c" "B" ["C"] [("c", genEnc ["C", "A", "B"])] = 0 := by
  decide
-- three aligned cards (one without the contest): mean of the NEB assorter "A NEB B" is (1 + 1/2)/2 > 1/2, tallies 1 > 0
example : Aligned "c" ["A", "B"] (fromVote (auditEnc ["A"]) "c", [("c", genEnc ["A"])]) :=
  Or.inr ⟨["A"], genEnc ["A"], by decide, by decide, by decide, by decide, SameMap.refl_genEnc _ (by decide)⟩
example : Aligned "c" ["A", "B"] (([] : Votes String String), ([] : GCvr String String)) :=
  Or.inl ⟨by decide, by decide⟩
-- the two readers on the row  c,b1,C,A  of a contest with candidates A,B,C
example : fromRaireBallot ["C", "A"] = [("C", 1), ("A", 2)] ∧
    loadRaireBallot ["A", "B", "C"] ["C", "A"] = [("A", 1), ("C", 0)] ∧
    genEnc ["C", "A"] = [("C", 0), ("A", 1)] := by
  decide
example : ["C", "A"].Nodup ∧ ∀ c ∈ ["C", "A"], c ∈ ["A", "B", "C"] := by decide
example : auditOrder (fromRaireBallot ["C", "A"]) = ["C", "A"] ∧
    genOrder (loadRaireBallot ["A", "B", "C"] ["C", "A"]) = ["C", "A"] := by
  have h := readers_agree ["A", "B", "C"] ["C", "A"] (by decide) (by decide)
  exact ⟨h.2.2.2.1, h.2.2.2.2.1⟩
-- a duplicated preference is read differently by the two readers (outside the property's quantifier)
example : fromRaireBallot ["A", "B", "A"] = [("A", 3), ("B", 2)] ∧
    loadRaireBallot ["A", "B"] ["A", "B", "A"] = [("A", 0), ("B", 1)] := by
  decide
-- re-application: both constructors do produce assertions
example : mkNeb "c" "A" "B" [("b1", [("c", genEnc ["A", "B"])]), ("b2", [("c", genEnc ["A"])]), ("b3", [("d", genEnc ["B"])])]
    = some (Assn.neb "c" "A" "B" 2 0) := by
  decide
example : mkNen "c" "A" "B" ["C"]
    (ballotsOf "c" [("b1", [("c", genEnc ["C", "A"])]), ("b2", [("c", genEnc ["B"])]), ("b3", [("c", genEnc ["A"])]),
      ("b4", [("d", genEnc ["B"])])])
    = some (Assn.nen "c" "A" "B" ["C"] 2 1) := by
  decide


-- a whole file: one contest line, three ballot rows (ballot b1 appears twice: the later row wins)
def demoRows : List (List String) :=
  [["1"], ["Contest", "c1", "3", "A", "B", "C", "winner", "A"],
   ["c1", "b1", "A", "B"], ["c1", "b2", "C", "A"], ["c1", "b1", "B"]]
def demoInfo : List (String × List String × String) := [("c1", ["A", "B", "C"], "A")]
def demoRs : List Row := [("c1", "b1", ["A", "B"]), ("c1", "b2", ["C", "A"]), ("c1", "b1", ["B"])]
-- hypothesis `hinfo` of the file theorems (`String.toNat?` does not reduce in the kernel, so this one is evaluated)
#guard (match loadContestInfo 1 demoRows with | .ok i => i == demoInfo | .error _ => false)
-- hypotheses `hrows`, `hclean`
example : demoRows.drop (1 + 1) = demoRs.map Row.toks := by decide
example : ∀ t ∈ demoRs, CleanRow demoInfo t := by
  intro t ht
  simp only [demoRs, List.mem_cons, List.not_mem_nil, or_false] at ht
  rcases ht with rfl | rfl | rfl <;> exact ⟨by decide, by decide, by decide⟩
example : shape demoRs = [("b1", [("c1", ["B"])]), ("b2", [("c1", ["C", "A"])])] := by decide

end Shangrla.C14
