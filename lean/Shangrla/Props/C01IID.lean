/-
  C01, independent draws (the population is declared infinite, `N = np.inf`): for every finitely
  supported law on `[0,u]` with rational weights and mean at most `t`, every horizon `n` and every
  `alpha` in `(0,1)`, the exact probability that the p-value reported by the literal model of
  `alpha_mart` / `betting_mart` after some number `<= n` of draws is at most `alpha` does not exceed `alpha`.

  Weights in an arbitrary ordered field, in particular REAL probabilities: `C01IIDReal.lean` (same theorems,
  `hitIIDK`); the doubles in `[0,u]` are finitely many rationals, so that covers every law on the inputs.

  NOT proved (declared partial in DESIGN.md): the statement for laws on a continuum of real values (not
  finitely supported), which needs a measure-theoretic Ville inequality and which no float input realises.
-/
import Shangrla.Props.C01
import Shangrla.Lemmas.VilleIID

namespace Shangrla.C01
open Shangrla Shangrla.NM XR Shangrla.C12 Shangrla.Ville Shangrla.C11

/-- a finitely supported law on `[0,u]`: (value, weight) pairs, weights `≥ 0` summing to 1 -/
structure IsLaw (u : ℚ) (L : List (ℚ × ℚ)) : Prop where
  w_nonneg : ∀ p ∈ L, 0 ≤ p.2
  w_sum : (L.map Prod.snd).sum = 1
  range : ∀ p ∈ L, 0 ≤ p.1 ∧ p.1 ≤ u

/-- the mean of the law -/
def lawMean (L : List (ℚ × ℚ)) : ℚ := expL L (fun v => v)

theorem muAfter_none (t : ℚ) (h : List ℚ) : muAfter none t h = t := rfl

theorem Tq_none_nonneg (facQ : ℚ → ℚ → ℚ → ℚ) (u t : ℚ) (g : List ℚ → ℚ)
    (hfacnn : ∀ (h : List ℚ) (a : ℚ), (∀ b ∈ h, 0 ≤ b ∧ b ≤ u) → 0 ≤ a → a ≤ u → 0 ≤ facQ t a (g h)) :
    ∀ h : List ℚ, (∀ a ∈ h, 0 ≤ a ∧ a ≤ u) → 0 ≤ Tq facQ none t g h := by
  intro h
  induction h using List.reverseRecOn with
  | nil => intro _; rw [Tq_nil]; norm_num
  | append_singleton l a ih =>
    intro hr
    rw [(Tq_snoc facQ none t g l a).1, muAfter_none]
    have hl : ∀ b ∈ l, 0 ≤ b ∧ b ≤ u := fun b hb => hr b (by simp [hb])
    exact mul_nonneg (ih hl) (hfacnn l a hl (hr a (by simp)).1 (hr a (by simp)).2)

/-- **Ville's inequality for the test statistic under independent draws** -/
theorem process_ville_iid (facQ : ℚ → ℚ → ℚ → ℚ) (u t : ℚ) (g : List ℚ → ℚ)
    (L : List (ℚ × ℚ)) (hL : IsLaw u L)
    (hfacnn : ∀ (h : List ℚ) (a : ℚ), (∀ b ∈ h, 0 ≤ b ∧ b ≤ u) → 0 ≤ a → a ≤ u → 0 ≤ facQ t a (g h))
    (hfacsuper : ∀ h : List ℚ, (∀ b ∈ h, 0 ≤ b ∧ b ≤ u) → expL L (fun v => facQ t v (g h)) ≤ 1)
    (ev : List ℚ → Bool) (c : ℚ) (hc : 0 < c)
    (hev : ∀ h, (∀ b ∈ h, 0 ≤ b ∧ b ≤ u) → ev h = true → c ≤ Tq facQ none t g h)
    (n : Nat) : hitIID L ev n [] ≤ 1 / c := by
  have key := hitIID_le L hL.w_nonneg ev (Tq facQ none t g) c hc (fun h => ∀ b ∈ h, 0 ≤ b ∧ b ≤ u)
    hev (Tq_none_nonneg facQ u t g hfacnn) ?_ ?_ n [] (by simp)
  · rwa [Tq_nil] at key
  · intro h hI p hp b hb
    simp only [List.mem_append, List.mem_singleton] at hb
    rcases hb with hb | rfl
    · exact hI b hb
    · exact hL.range p hp
  · intro h hI
    have : (fun v => Tq facQ none t g (h ++ [v])) = (fun v => Tq facQ none t g h * facQ t v (g h)) := by
      funext v; rw [(Tq_snoc facQ none t g h v).1, muAfter_none]
    rw [this, expL_mul_left]
    calc Tq facQ none t g h * expL L (fun v => facQ t v (g h))
        ≤ Tq facQ none t g h * 1 :=
          mul_le_mul_of_nonneg_left (hfacsuper h hI) (Tq_none_nonneg facQ u t g hfacnn h hI)
      _ = Tq facQ none t g h := mul_one _

/-- the ALPHA factor is a supermartingale factor under any law with mean at most `t` -/
theorem alphaQ_super_iid (u t q : ℚ) (ht0 : 0 < t) (htu : t < u) (L : List (ℚ × ℚ)) (hL : IsLaw u L)
    (hmean : lawMean L ≤ t) : expL L (fun v => alphaQ u t v q) ≤ 1 := by
  have : (fun v => alphaQ u t v q) = (fun v => 1 + lamOf u t q * (v - t)) := by
    funext v; exact alphaQ_affine u t v q ht0 htu
  rw [this, expL_affine L hL.w_sum]
  have := lamOf_nonneg u t q ht0 htu
  unfold lawMean at hmean
  nlinarith

/-- link between the literal model (`N = np.inf`) and the defining product -/
theorem reported_implies_value_iid (cfg : Cfg) (hN : cfg.N = none) (g : List ℚ → ℚ)
    (estim : List ℚ → Except Err (List XR))
    (hest : ∀ h : List ℚ, h ≠ [] → estim h = .ok ((params g h).map XR.fin))
    (ht0 : 0 < cfg.t) (htu : cfg.t < cfg.u)
    (hat : 0 ≤ cfg.atol) (hat2 : cfg.atol < 1 / 2) (hrt : 0 ≤ cfg.rtol)
    (alpha : ℚ) (ha0 : 0 < alpha) (ha1 : alpha < 1) :
    ∀ h, (∀ b ∈ h, 0 ≤ b ∧ b ≤ cfg.u) → reportedLast cfg estim alpha h = true →
      1 / alpha ≤ Tq (alphaQ cfg.u) none cfg.t g h := by
  intro h h3 hev
  cases h using List.reverseRecOn with
  | nil =>
    exfalso
    unfold reportedLast alphaMart alphaTerms sjm at hev
    simp [bind, Except.bind] at hev
  | append_singleton l a _ =>
    have hne : l ++ [a] ≠ [] := by simp
    have hNle : ∀ k, cfg.N = some k → (l ++ [a]).length ≤ k := by
      intro k hk; rw [hN] at hk; cases hk
    have hplen : ((params g (l ++ [a])).map XR.fin).length = (l ++ [a]).length := by
      rw [List.length_map, params_length]
    obtain ⟨terms, ht, hw⟩ := alphaTerms_eq cfg estim (l ++ [a]) _ hne hNle (hest _ hne) hplen
    have hag := alpha_terms_def cfg (l ++ [a]) (params g (l ++ [a])) (params_length g _) hNle h3
    rw [hN] at hag hw
    obtain ⟨hTq, hlast⟩ := Tq_snoc (alphaQ cfg.u) none cfg.t g l a
    obtain ⟨pl, hpl, hagree⟩ := forall₂_getLast _ _ _ hag _ hlast
    unfold reportedLast alphaMart at hev
    rw [ht] at hev
    simp only [bind, Except.bind, pure, Except.pure, finishMart] at hev
    have hclamp : ∀ Lx : List XR, clampLast cfg.N cfg.t (xsum (l ++ [a])) Lx = Lx := by
      intro Lx; unfold clampLast; rw [hN]
    rw [hclamp] at hev
    simp only [pAndHist, List.getLast?_map] at hev
    rw [hN, hw, hpl] at hev
    simp only [Option.map_some] at hev
    obtain ⟨hm_eq, hT_eq⟩ := hagree
    simp only at hm_eq hT_eq
    rw [muAfter_none] at hm_eq
    have hres := mask_le_alpha cfg.u cfg.atol cfg.rtol pl.1 (Tq (alphaQ cfg.u) none cfg.t g l *
        alphaQ cfg.u (muAfter none cfg.t l) a (g l)) alpha pl.2 (by rw [hm_eq]; exact ht0.le)
      (by linarith) hat hat2 hrt ha0 ha1 hT_eq
      (by
        intro _ _
        rw [← hTq]
        exact Tq_none_nonneg (alphaQ cfg.u) cfg.u cfg.t g
          (fun h' a' _ ha0' hau' => alphaQ_nonneg cfg.u _ _ _ ht0 htu ha0' hau') _ h3)
      hev
    rw [hTq]
    exact hres.2.2

/-- **C01, ALPHA, independent draws.**  For every finitely supported law `L` on `[0,u]` with mean at
most `t`, every horizon `n`, every `alpha` in `(0,1)` and every predictable finite estimator, the exact
probability that the p-value reported by `alpha_mart` (`N = np.inf`) after some number `<= n` of
independent draws from `L` is at most `alpha` is at most `alpha`. -/
theorem C01_iid_alpha (cfg : Cfg) (hN : cfg.N = none) (g : List ℚ → ℚ)
    (estim : List ℚ → Except Err (List XR))
    (hest : ∀ h : List ℚ, h ≠ [] → estim h = .ok ((params g h).map XR.fin))
    (ht0 : 0 < cfg.t) (htu : cfg.t < cfg.u)
    (hat : 0 ≤ cfg.atol) (hat2 : cfg.atol < 1 / 2) (hrt : 0 ≤ cfg.rtol)
    (alpha : ℚ) (ha0 : 0 < alpha) (ha1 : alpha < 1)
    (L : List (ℚ × ℚ)) (hL : IsLaw cfg.u L) (hmean : lawMean L ≤ cfg.t) (n : Nat) :
    hitIID L (reportedLast cfg estim alpha) n [] ≤ alpha := by
  have h := process_ville_iid (alphaQ cfg.u) cfg.u cfg.t g L hL
    (fun h' a' _ ha0' hau' => alphaQ_nonneg cfg.u _ _ _ ht0 htu ha0' hau')
    (fun h' _ => alphaQ_super_iid cfg.u cfg.t (g h') ht0 htu L hL hmean)
    (reportedLast cfg estim alpha) (1 / alpha) (by positivity)
    (reported_implies_value_iid cfg hN g estim hest ht0 htu hat hat2 hrt alpha ha0 ha1) n
  simpa using h

/-- the betting factor is a supermartingale factor under any law with mean at most `t` -/
theorem betQ_super_iid (t l : ℚ) (hl0 : 0 ≤ l) (L : List (ℚ × ℚ)) {u : ℚ} (hL : IsLaw u L)
    (hmean : lawMean L ≤ t) : expL L (fun v => betQ t v l) ≤ 1 := by
  unfold betQ
  rw [expL_affine L hL.w_sum]
  unfold lawMean at hmean
  nlinarith

/-- link between the literal model (`N = np.inf`) and the defining product -/
theorem reported_implies_value_iid_betting (cfg : Cfg) (hN : cfg.N = none) (g : List ℚ → ℚ)
    (bet : List ℚ → Except Err (List XR))
    (hest : ∀ h : List ℚ, h ≠ [] → bet h = .ok ((params g h).map XR.fin))
    (hg0 : ∀ h : List ℚ, 0 ≤ g h) (hg1 : ∀ h : List ℚ, g h * cfg.t ≤ 1)
    (ht0 : 0 < cfg.t) (htu : cfg.t < cfg.u)
    (hat : 0 ≤ cfg.atol) (hat2 : cfg.atol < 1 / 2) (hrt : 0 ≤ cfg.rtol)
    (alpha : ℚ) (ha0 : 0 < alpha) (ha1 : alpha < 1) :
    ∀ h, (∀ b ∈ h, 0 ≤ b ∧ b ≤ cfg.u) → reportedLastB cfg bet alpha h = true →
      1 / alpha ≤ Tq betQ none cfg.t g h := by
  intro h h3 hev
  cases h using List.reverseRecOn with
  | nil =>
    exfalso
    unfold reportedLastB bettingMart bettingTerms sjm at hev
    simp [bind, Except.bind] at hev
  | append_singleton l a _ =>
    have hne : l ++ [a] ≠ [] := by simp
    have hNle : ∀ k, cfg.N = some k → (l ++ [a]).length ≤ k := by
      intro k hk; rw [hN] at hk; cases hk
    have hplen : ((params g (l ++ [a])).map XR.fin).length = (l ++ [a]).length := by
      rw [List.length_map, params_length]
    obtain ⟨terms, ht, hw⟩ := bettingTerms_eq cfg bet (l ++ [a]) _ hne hNle (hest _ hne) hplen
    have hag := betting_terms_def cfg (l ++ [a]) (params g (l ++ [a])) (params_length g _) hNle h3
    rw [hN] at hag hw
    obtain ⟨hTq, hlast⟩ := Tq_snoc betQ none cfg.t g l a
    obtain ⟨pl, hpl, hagree⟩ := forall₂_getLast _ _ _ hag _ hlast
    unfold reportedLastB bettingMart at hev
    rw [ht] at hev
    simp only [bind, Except.bind, pure, Except.pure, finishMart] at hev
    have hclamp : ∀ Lx : List XR, clampLast cfg.N cfg.t (xsum (l ++ [a])) Lx = Lx := by
      intro Lx; unfold clampLast; rw [hN]
    rw [hclamp] at hev
    simp only [pAndHist, List.getLast?_map] at hev
    rw [hN, hw, hpl] at hev
    simp only [Option.map_some] at hev
    obtain ⟨hm_eq, hT_eq⟩ := hagree
    simp only at hm_eq hT_eq
    rw [muAfter_none] at hm_eq
    have hres := mask_le_alpha cfg.u cfg.atol cfg.rtol pl.1 (Tq betQ none cfg.t g l *
        betQ (muAfter none cfg.t l) a (g l)) alpha pl.2 (by rw [hm_eq]; exact ht0.le)
      (by linarith) hat hat2 hrt ha0 ha1 hT_eq
      (by
        intro _ _
        rw [← hTq]
        exact Tq_none_nonneg betQ cfg.u cfg.t g
          (fun h' a' _ ha0' hau' => betQ_nonneg _ _ _ ht0 ha0' (hg0 h') (hg1 h')) _ h3)
      hev
    rw [hTq]
    exact hres.2.2

/-- **C01, betting martingale, independent draws.**  For every finitely supported law `L` on `[0,u]` with mean at
most `t`, every horizon `n`, every `alpha` in `(0,1)` and every predictable bet with `0 <= g <= 1/t`, the exact
probability that the p-value reported by `betting_mart` (`N = np.inf`) after some number `<= n` of
independent draws from `L` is at most `alpha` is at most `alpha`. -/
theorem C01_iid_betting (cfg : Cfg) (hN : cfg.N = none) (g : List ℚ → ℚ)
    (bet : List ℚ → Except Err (List XR))
    (hest : ∀ h : List ℚ, h ≠ [] → bet h = .ok ((params g h).map XR.fin))
    (hg0 : ∀ h : List ℚ, 0 ≤ g h) (hg1 : ∀ h : List ℚ, g h * cfg.t ≤ 1)
    (ht0 : 0 < cfg.t) (htu : cfg.t < cfg.u)
    (hat : 0 ≤ cfg.atol) (hat2 : cfg.atol < 1 / 2) (hrt : 0 ≤ cfg.rtol)
    (alpha : ℚ) (ha0 : 0 < alpha) (ha1 : alpha < 1)
    (L : List (ℚ × ℚ)) (hL : IsLaw cfg.u L) (hmean : lawMean L ≤ cfg.t) (n : Nat) :
    hitIID L (reportedLastB cfg bet alpha) n [] ≤ alpha := by
  have h := process_ville_iid betQ cfg.u cfg.t g L hL
    (fun h' a' _ ha0' hau' => betQ_nonneg _ _ _ ht0 ha0' (hg0 h') (hg1 h'))
    (fun h' _ => betQ_super_iid cfg.t (g h') (hg0 h') L hL hmean)
    (reportedLastB cfg bet alpha) (1 / alpha) (by positivity)
    (reported_implies_value_iid_betting cfg hN g bet hest hg0 hg1 ht0 htu hat hat2 hrt alpha ha0 ha1) n
  simpa using h

/-! ### shipped instances -/

/-- **C01 for ALPHA with the default (fixed-alternative) estimator, independent draws** -/
theorem C01_iid_alpha_fixed (cfg : Cfg) (hN : cfg.N = none)
    (ht0 : 0 < cfg.t) (htu : cfg.t < cfg.u)
    (hat : 0 ≤ cfg.atol) (hat2 : cfg.atol < 1 / 2) (hrt : 0 ≤ cfg.rtol)
    (alpha : ℚ) (ha0 : 0 < alpha) (ha1 : alpha < 1)
    (L : List (ℚ × ℚ)) (hL : IsLaw cfg.u L) (hmean : lawMean L ≤ cfg.t) (n : Nat) :
    hitIID L (reportedLast cfg (fixedAlternativeMean cfg) alpha) n [] ≤ alpha := by
  refine C01_iid_alpha cfg hN (gFixedAlt cfg) (fixedAlternativeMean cfg) ?_ ht0 htu hat hat2 hrt alpha ha0 ha1
    L hL hmean n
  intro h hne
  unfold fixedAlternativeMean
  have hs := sjm_ok cfg.N (cfg.kw.eta.getD (cfg.u * (1 - eps))) h hne
    (by intro k hk; rw [hN] at hk; cases hk)
  simp only [hs, bind, Except.bind, pure, Except.pure]
  rw [nullMeans_params]
  unfold params gFixedAlt
  simp only [List.map_map]
  rfl

/-- **C01 for the betting martingale with a fixed bet `0 ≤ lam ≤ 1/u`, independent draws** -/
theorem C01_iid_betting_fixed (cfg : Cfg) (hN : cfg.N = none) (lam : ℚ)
    (hlam : cfg.kw.lam = some lam) (hl0 : 0 ≤ lam) (hl1 : lam * cfg.u ≤ 1)
    (ht0 : 0 < cfg.t) (htu : cfg.t < cfg.u)
    (hat : 0 ≤ cfg.atol) (hat2 : cfg.atol < 1 / 2) (hrt : 0 ≤ cfg.rtol)
    (alpha : ℚ) (ha0 : 0 < alpha) (ha1 : alpha < 1)
    (L : List (ℚ × ℚ)) (hL : IsLaw cfg.u L) (hmean : lawMean L ≤ cfg.t) (n : Nat) :
    hitIID L (reportedLastB cfg (fixedBet cfg) alpha) n [] ≤ alpha := by
  refine C01_iid_betting cfg hN (fun _ => lam) (fixedBet cfg) ?_ (fun _ => hl0) (fun _ => by nlinarith)
    ht0 htu hat hat2 hrt alpha ha0 ha1 L hL hmean n
  intro h _
  unfold fixedBet
  rw [hlam]
  simp only
  congr 1
  exact map_const_params lam h h rfl

end Shangrla.C01
