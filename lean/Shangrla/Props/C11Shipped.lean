/-
  C11 for the SHIPPED estimators and bets, through the dispatch `Shangrla.NM.run` that the driver
  executes: `run sqrtF cfg (.alpha e)` for `e ∈ {fixedAlt, shrinkTrunc, optimalComparison}` and
  `run sqrtF cfg (.betting b)` for `b ∈ {fixed, agrapa}` return a well-formed `(p, history)`
  (`Shangrla.C11.WellFormed`), under explicit guards on the configuration and the sample only.

  * ALPHA: instance of `wellformed_alpha` (C11Mart.lean); the estimators return one finite value per
    observation (`NMRange.*_all_fin`, `optimalComparison_eq`).
  * betting: the generic `wellformed_betting` asks for `OkWalk okBet`, i.e. `l * m ≤ 1` wherever
    `0 < m`, also where the null mean `m` exceeds `u`.  The shipped `fixed_bet` with `lam ≤ 1/u` does
    not satisfy that for `m > u` (and `agrapa` may return NaN where `m = 0`, `c_j = 0`), but neither
    matters: the masks overwrite every term whose null mean is outside `(0,u)`, and a null mean strictly
    inside `(0,u)` has only such null means before it.  So the instance is proved from the shared core
    `finish_wellformed` with the predicate `okBetIn` (a finite bet in `[0, 1/m]` wherever `0 < m < u`),
    which is what `C13.bet_range` delivers.  No existing theorem is weakened.
-/
import Shangrla.Props.C11Mart
import Shangrla.Props.C13

namespace Shangrla.C11
open Shangrla Shangrla.NM XR

/-! ### ALPHA -/

/-- guards on the attributes read by the estimator `e` (nothing for `fixed_alternative_mean`) -/
structure AlphaRunGuard (cfg : Cfg) (e : Estim) : Prop where
  d_pos : e = .shrinkTrunc → 0 < cfg.dV
  f_nonneg : e = .shrinkTrunc → 0 ≤ cfg.fV
  minsd_pos : e = .shrinkTrunc → 0 < cfg.minsdV
  u_ne_one : e = .optimalComparison → cfg.u ≠ 1

/-- every shipped estimator returns one finite value per observation -/
theorem estim_all_fin (sqrtF : Rat → Rat) (hs : C13.SqrtOK sqrtF) (cfg : Cfg) (e : Estim) (x : List Rat)
    (hne : x ≠ []) (hN : ∀ n, cfg.N = some n → x.length ≤ n) (hg : AlphaRunGuard cfg e) :
    ∃ eta0, estim sqrtF cfg e x = .ok eta0 ∧ eta0.length = x.length ∧
      ∀ v ∈ eta0, ∃ q : Rat, v = .fin q := by
  cases e with
  | fixedAlt => exact NMRange.fixedAlternativeMean_all_fin cfg x hne hN
  | shrinkTrunc =>
    exact NMRange.shrinkTrunc_all_fin sqrtF hs.pos cfg x hne hN (hg.d_pos rfl) (hg.f_nonneg rfl)
      (hg.minsd_pos rfl)
  | optimalComparison =>
    refine ⟨_, NMRange.optimalComparison_eq cfg x (hg.u_ne_one rfl), by simp, ?_⟩
    intro v hv
    exact ⟨_, (List.mem_replicate.1 hv).2⟩

theorem wellformed_run_alpha_fixed (sqrtF : Rat → Rat) (cfg : Cfg) (x : List Rat)
    (hne : x ≠ []) (hN : ∀ n, cfg.N = some n → x.length ≤ n)
    (hx : ∀ a ∈ x, 0 ≤ a ∧ a ≤ cfg.u) (hat : 0 ≤ cfg.atol) (hrt : 0 ≤ cfg.rtol) :
    ∃ r, run sqrtF cfg (.alpha .fixedAlt) x = .ok r ∧ WellFormed cfg.randomOrder x.length r := by
  obtain ⟨eta0, h1, h2, h3⟩ := NMRange.fixedAlternativeMean_all_fin cfg x hne hN
  exact wellformed_alpha cfg (fixedAlternativeMean cfg) x eta0 hne hN hx hat hrt h1 h2 h3

theorem wellformed_run_alpha_shrink (sqrtF : Rat → Rat) (hs : C13.SqrtOK sqrtF) (cfg : Cfg) (x : List Rat)
    (hne : x ≠ []) (hN : ∀ n, cfg.N = some n → x.length ≤ n)
    (hx : ∀ a ∈ x, 0 ≤ a ∧ a ≤ cfg.u) (hat : 0 ≤ cfg.atol) (hrt : 0 ≤ cfg.rtol)
    (hd : 0 < cfg.dV) (hf : 0 ≤ cfg.fV) (hmin : 0 < cfg.minsdV) :
    ∃ r, run sqrtF cfg (.alpha .shrinkTrunc) x = .ok r ∧ WellFormed cfg.randomOrder x.length r := by
  obtain ⟨eta0, h1, h2, h3⟩ := NMRange.shrinkTrunc_all_fin sqrtF hs.pos cfg x hne hN hd hf hmin
  exact wellformed_alpha cfg (shrinkTrunc sqrtF cfg) x eta0 hne hN hx hat hrt h1 h2 h3

theorem wellformed_run_alpha_optimal (sqrtF : Rat → Rat) (cfg : Cfg) (x : List Rat)
    (hne : x ≠ []) (hN : ∀ n, cfg.N = some n → x.length ≤ n)
    (hx : ∀ a ∈ x, 0 ≤ a ∧ a ≤ cfg.u) (hat : 0 ≤ cfg.atol) (hrt : 0 ≤ cfg.rtol) (hu : cfg.u ≠ 1) :
    ∃ r, run sqrtF cfg (.alpha .optimalComparison) x = .ok r ∧ WellFormed cfg.randomOrder x.length r := by
  refine wellformed_alpha cfg (optimalComparison cfg) x _ hne hN hx hat hrt
    (NMRange.optimalComparison_eq cfg x hu) (by simp) ?_
  intro v hv
  exact ⟨_, (List.mem_replicate.1 hv).2⟩

/-- **C11 for `alpha_mart` with every shipped estimator**, through the dispatch `run`: for every
configuration, every square root that is non-negative and positive on positive arguments, every
non-empty sample of values in `[0,u]` no longer than the population, non-negative tolerances and the
guards of `AlphaRunGuard` (`d > 0`, `f ≥ 0`, `minsd > 0` for `shrink_trunc`; `u ≠ 1` for
`optimal_comparison`, which raises `ZeroDivisionError` otherwise), the test returns a well-formed
`(p, history)`. -/
theorem wellformed_run_alpha (sqrtF : Rat → Rat) (hs : C13.SqrtOK sqrtF) (cfg : Cfg) (e : Estim)
    (x : List Rat) (hne : x ≠ []) (hN : ∀ n, cfg.N = some n → x.length ≤ n)
    (hx : ∀ a ∈ x, 0 ≤ a ∧ a ≤ cfg.u) (hat : 0 ≤ cfg.atol) (hrt : 0 ≤ cfg.rtol)
    (hg : AlphaRunGuard cfg e) :
    ∃ r, run sqrtF cfg (.alpha e) x = .ok r ∧ WellFormed cfg.randomOrder x.length r := by
  obtain ⟨eta0, h1, h2, h3⟩ := estim_all_fin sqrtF hs cfg e x hne hN hg
  exact wellformed_alpha cfg (estim sqrtF cfg e) x eta0 hne hN hx hat hrt h1 h2 h3

/-! non-vacuity: with replacement, `u = 1 + 2^-40`, all defaults (`C13.cfgB`), sample `0, 0, 1, 1/2`:
every hypothesis holds for each of the three estimators -/

theorem xA_in_range_B : ∀ a ∈ C13.xA, 0 ≤ a ∧ a ≤ C13.cfgB.u := by
  intro a ha
  simp only [C13.xA, List.mem_cons, List.not_mem_nil, or_false] at ha
  rcases ha with rfl | rfl | rfl | rfl <;> norm_num [C13.cfgB]

theorem alphaRunGuard_B (e : Estim) : AlphaRunGuard C13.cfgB e := by
  refine ⟨fun _ => ?_, fun _ => ?_, fun _ => ?_, fun _ => ?_⟩ <;>
    norm_num [C13.cfgB, Cfg.dV, Cfg.fV, Cfg.minsdV]

example (e : Estim) : ∃ r, run sqrtRat C13.cfgB (.alpha e) C13.xA = .ok r ∧ WellFormed true 4 r :=
  wellformed_run_alpha sqrtRat C13.sqrtRat_ok C13.cfgB e C13.xA C13.xA_ne (C13.lenB C13.xA)
    xA_in_range_B (by norm_num [C13.cfgB, eps]) (by norm_num [C13.cfgB]) (alphaRunGuard_B e)

/-- without replacement from a population of 5 (`C13.cfgA`), `shrink_trunc` -/
example : ∃ r, run sqrtRat C13.cfgA (.alpha .shrinkTrunc) C13.xA = .ok r ∧ WellFormed true 4 r := by
  refine wellformed_run_alpha sqrtRat C13.sqrtRat_ok C13.cfgA .shrinkTrunc C13.xA C13.xA_ne C13.lenA
    ?_ (by norm_num [C13.cfgA, eps]) (by norm_num [C13.cfgA]) ?_
  · intro a ha
    simp only [C13.xA, List.mem_cons, List.not_mem_nil, or_false] at ha
    rcases ha with rfl | rfl | rfl | rfl <;> norm_num [C13.cfgA]
  · refine ⟨fun _ => ?_, fun _ => ?_, fun _ => ?_, fun h => by cases h⟩ <;>
      norm_num [C13.cfgA, Cfg.dV, Cfg.fV, Cfg.minsdV]

/-! ### betting -/

/-- what `betting_mart` really needs of a bet: wherever the null mean is strictly inside `(0,u)` it is a
finite number in `[0, 1/m]` (elsewhere the masks overwrite the term, so anything — even NaN — will do) -/
def okBetIn (u : Rat) (m _a : Rat) (e : XR) : Prop :=
  0 < m → m < u → ∃ l : Rat, e = .fin l ∧ 0 ≤ l ∧ l * m ≤ 1

theorem okBet_okBetIn (u m a : Rat) (e : XR) (h : okBet m a e) : okBetIn u m a e := by
  obtain ⟨l, rfl, h0, h1⟩ := h
  intro hm0 _
  exact ⟨l, rfl, h0, h1 hm0⟩

theorem betIn_fac_good (u : Rat) : ∀ m a e, okBetIn u m a e → 0 < m → m < u → 0 ≤ a → a ≤ u →
    ∃ q : Rat, 0 ≤ q ∧ betFactorX m a e = .fin q := by
  intro m a e h hm0 hmu ha0 _
  obtain ⟨l, rfl, hl0, hl1⟩ := h hm0 hmu
  refine ⟨1 + l * (a - m), ?_, ?_⟩
  · nlinarith [mul_nonneg hl0 ha0]
  · unfold betFactorX
    simp [XR.fin_mul, XR.fin_add]

/-- from an entrywise description (entry `i` of the parameters is acceptable for entry `i` of the null
means) to `OkWalk` -/
theorem okWalk_of_entries (ok : Rat → Rat → XR → Prop) (u : Rat) (N : Option Nat) (t : Rat) :
    ∀ (x : List Rat) (es : List XR) (S : Rat) (j : Nat), es.length = x.length →
      (∀ a ∈ x, 0 ≤ a ∧ a ≤ u) →
      (∀ (i : Nat) (m : Rat), (nullMeansFrom N t S j x)[i]? = some m →
        ∃ e, es[i]? = some e ∧ ∀ a, ok m a e) →
      OkWalk ok u N t S j (x.zip es) := by
  intro x
  induction x with
  | nil => intro es S j _ _ _; simp [OkWalk]
  | cons a x ih =>
    intro es S j hlen hx hes
    cases es with
    | nil => simp at hlen
    | cons e es =>
      simp only [List.length_cons, Nat.add_right_cancel_iff] at hlen
      simp only [List.zip_cons_cons, OkWalk]
      refine ⟨?_, (hx a (by simp)).1, (hx a (by simp)).2, ?_⟩
      · obtain ⟨e', he', hok⟩ := hes 0 (mu N t S j) (by simp [nullMeansFrom])
        simp only [List.getElem?_cons_zero, Option.some.injEq] at he'
        subst he'
        exact hok a
      · refine ih es _ _ hlen (fun b hb => hx b (by simp [hb])) ?_
        intro i m hm
        have := hes (i + 1) m (by simpa [nullMeansFrom] using hm)
        simpa using this

/-- `betting_mart` is well-formed for every bet function that returns, wherever the null mean is strictly
inside `(0,u)`, a finite bet in `[0, 1/m]` (a weaker requirement than `wellformed_betting`'s `okBet`) -/
theorem wellformed_betting_in (cfg : Cfg) (bet : List Rat → Except Err (List XR)) (x : List Rat)
    (lam : List XR) (hne : x ≠ []) (hN : ∀ n, cfg.N = some n → x.length ≤ n)
    (hat : 0 ≤ cfg.atol) (hrt : 0 ≤ cfg.rtol)
    (hbet : bet x = .ok lam) (hlen : lam.length = x.length)
    (hok : OkWalk (okBetIn cfg.u) cfg.u cfg.N cfg.t 0 1 (x.zip lam)) :
    ∃ r, bettingMart cfg bet x = .ok r ∧ WellFormed cfg.randomOrder x.length r := by
  obtain ⟨terms, ht, hw⟩ := bettingTerms_eq cfg bet x lam hne hN hbet hlen
  refine ⟨finishMart cfg (nullMeansFrom cfg.N cfg.t 0 1 x, xsum x, terms), ?_, ?_⟩
  · unfold bettingMart
    rw [ht]; rfl
  · exact finish_wellformed cfg betFactorX (okBetIn cfg.u) (betIn_fac_good cfg.u) x lam hne hN hat hrt
      hlen hok _ _ _ hw

/-- both shipped bets return (`fixed_bet` needs the attribute `lam`) -/
theorem bet_returns (sqrtF : Rat → Rat) (cfg : Cfg) (b : Bet) (x : List Rat) (hne : x ≠ [])
    (hlam : b = .fixed → cfg.kw.lam ≠ none) : ∃ l, bet sqrtF cfg b x = .ok l := by
  cases b with
  | fixed =>
    cases h : cfg.kw.lam with
    | none => exact absurd h (hlam rfl)
    | some lam => exact ⟨_, NMRange.fixedBet_eq cfg x lam h⟩
  | agrapa => exact ⟨_, NMRange.agrapa_eq sqrtF cfg x hne⟩

/-- **C11 for `betting_mart` with every shipped bet**, through the dispatch `run`: for every
configuration, every admissible square root, every non-empty sample of values in `[0,u]` no longer
than the population, non-negative tolerances, the documented parameter ranges `C13.BetGuard`
(`0 ≤ lam ≤ 1/u`, `0 ≤ cG0 ≤ cGmax ≤ 1`, `cGgrow ≥ 0`) and, for `fixed_bet`, the attribute `lam` being
set (the constructor sets it whenever no bet is passed; `fixed_bet` raises otherwise), the test returns a
well-formed `(p, history)`. -/
theorem wellformed_run_betting (sqrtF : Rat → Rat) (hs : C13.SqrtOK sqrtF) (cfg : Cfg) (b : Bet)
    (x : List Rat) (hne : x ≠ []) (hN : ∀ n, cfg.N = some n → x.length ≤ n)
    (hx : ∀ a ∈ x, 0 ≤ a ∧ a ≤ cfg.u) (hat : 0 ≤ cfg.atol) (hrt : 0 ≤ cfg.rtol)
    (hg : C13.BetGuard cfg) (hlam : b = .fixed → cfg.kw.lam ≠ none) :
    ∃ r, run sqrtF cfg (.betting b) x = .ok r ∧ WellFormed cfg.randomOrder x.length r := by
  obtain ⟨lam, hl⟩ := bet_returns sqrtF cfg b x hne hlam
  obtain ⟨hlen, hrange⟩ := C13.bet_range sqrtF hs cfg x b hne hN hg lam hl
  refine wellformed_betting_in cfg (bet sqrtF cfg b) x lam hne hN hat hrt hl hlen ?_
  refine okWalk_of_entries (okBetIn cfg.u) cfg.u cfg.N cfg.t x lam 0 1 hlen hx ?_
  intro i m hm
  have hi : i < lam.length := by
    rw [hlen]; simpa using NMRange.lt_length_of_getElem? hm
  refine ⟨lam[i], List.getElem?_eq_getElem hi, ?_⟩
  intro _ hm0 hmu
  obtain ⟨q, hq, hq0, hq1⟩ := hrange i m hm hm0 (le_of_lt hmu)
  rw [List.getElem?_eq_getElem hi, Option.some.injEq] at hq
  refine ⟨q, hq, hq0, ?_⟩
  have := mul_le_mul_of_nonneg_right hq1 (le_of_lt hm0)
  rwa [div_mul_cancel₀ 1 (ne_of_gt hm0)] at this

/-! non-vacuity: the constructor's defaults (`C13.cfgF`: `N = 5`, `u = 1`, `t = 1/2`, `lam = 1/2`),
sample `0, 0, 1, 1/2`: every hypothesis holds for both bets -/

theorem betGuard_F : C13.BetGuard C13.cfgF := by
  refine ⟨?_, ?_, ?_, ?_, ?_⟩
  · intro lam h
    have : lam = 1 / 2 := by
      have h' : some (1 / 2 : Rat) = some lam := h
      injection h' with h'; exact h'.symm
    subst this; norm_num [C13.cfgF, Cfg.init]
  all_goals norm_num [C13.cfgF, Cfg.init, Cfg.c0V, Cfg.cmV, Cfg.cgV, eps]

example (b : Bet) : ∃ r, run sqrtRat C13.cfgF (.betting b) C13.xA = .ok r ∧ WellFormed true 4 r := by
  refine wellformed_run_betting sqrtRat C13.sqrtRat_ok C13.cfgF b C13.xA C13.xA_ne ?_ ?_
    (by norm_num [C13.cfgF, Cfg.init, eps]) (by norm_num [C13.cfgF, Cfg.init]) betGuard_F ?_
  · intro n h; cases h; decide
  · intro a ha
    simp only [C13.xA, List.mem_cons, List.not_mem_nil, or_false] at ha
    rcases ha with rfl | rfl | rfl | rfl <;> norm_num [C13.cfgF, Cfg.init]
  · intro _ h; cases h

/-! ### why not `wellformed_betting` itself

`OkWalk okBet` (the hypothesis of the generic `wellformed_betting`) is NOT met by the shipped `fixed_bet`
on every guarded input: where the null mean exceeds `u` the bet `lam = 1/u` has `lam * m > 1`.  The
hypothesis is only stronger than needed (the term is masked there), the conclusion is unaffected. -/

/-- `N = 2`, `u = 1`, `t = 3/4`, `lam = 1/u = 1`: after one zero the null mean is `3/2 > u` -/
def cfgOver : Cfg := { N := some 2, u := 1, t := 3 / 4, randomOrder := true, kw := { lam := some 1 } }

theorem fixedBet_not_okBet :
    ∃ lam, fixedBet cfgOver [0, 0] = .ok lam ∧
      ¬ OkWalk okBet cfgOver.u cfgOver.N cfgOver.t 0 1 (([0, 0] : List Rat).zip lam) := by
  refine ⟨[.fin 1, .fin 1], rfl, ?_⟩
  simp only [List.zip_cons_cons, OkWalk, okBet]
  rintro ⟨_, _, _, ⟨l, hl, _, h⟩, _⟩
  have hl1 : l = 1 := by injection hl with hl; exact hl.symm
  subst hl1
  have := h (by norm_num [cfgOver, mu])
  norm_num [cfgOver, mu] at this

end Shangrla.C11
