/-
  C02 / contest level — the assertion list of a plurality / approval contest covers EVERY (winner, loser) pair.

  `Assorter.pluralityPairs` is the literal model of the two loops of `Assertion.make_plurality_assertions`
  (Audit.py) with the dict keyed by `winr + " v " + losr`.  Before the repair of finding F30 a pair whose key was
  already taken by another pair silently replaced it (candidates `a`, `a v b`, `b v c`, `c`, winners `a`, `a v b`:
  4 pairs, 3 assertions, none comparing `a` with `b v c`); the repaired code raises ValueError.  Theorems: whenever
  the constructor returns, its list contains an entry for every pair of a reported winner and a reported loser, every
  entry is such a pair under its own name, and names are not repeated; it raises exactly when two DIFFERENT pairs
  have the same name.  This discharges, for the model of the constructor, the hypothesis `hall` of the contest-level
  risk limits (Props/RiskLimitOutcome.lean).
-/
import Shangrla.Model.Assorter

namespace Shangrla.C02
open Shangrla Shangrla.Assorter

abbrev Entry := String × String × String

/-- the name the constructor gives to a pair -/
def pairKey (w l : String) : String := w ++ " v " ++ l

/-- every entry is stored under its own name, and no name occurs twice -/
def PairsInv (acc : List Entry) : Prop :=
  (∀ e ∈ acc, e.1 = pairKey e.2.1 e.2.2) ∧ acc.Pairwise (fun a b => a.1 ≠ b.1)

theorem step_ok {acc acc' : List Entry} {w l : String} (hI : PairsInv acc)
    (h : pluralityPairsStep acc w l = .ok acc') :
    PairsInv acc' ∧ (∀ e ∈ acc, e ∈ acc') ∧ (pairKey w l, w, l) ∈ acc' ∧
    (∀ e ∈ acc', e ∈ acc ∨ e = (pairKey w l, w, l)) := by
  unfold pluralityPairsStep at h
  simp only at h
  cases hf : acc.find? (fun e => e.1 == w ++ " v " ++ l) with
  | some e =>
    rw [hf] at h
    simp only at h
    split at h
    · rename_i hc
      cases h
      have hmem := List.mem_of_find?_eq_some hf
      have hkey : e.1 = w ++ " v " ++ l := by
        have := List.find?_some hf
        simpa using this
      have hw : e.2.1 = w ∧ e.2.2 = l := by simpa using hc
      refine ⟨hI, fun _ h => h, ?_, fun e' h' => Or.inl h'⟩
      have : e = (pairKey w l, w, l) := by
        obtain ⟨a, b, c⟩ := e
        simp only at hkey hw
        simp [pairKey, hkey, hw.1, hw.2]
      rw [← this]; exact hmem
    · cases h
  | none =>
    rw [hf] at h
    cases h
    have hnone : ∀ e ∈ acc, e.1 ≠ pairKey w l := by
      intro e he heq
      have := List.find?_eq_none.1 hf e he
      simp [pairKey] at heq
      simp [heq] at this
    refine ⟨⟨?_, ?_⟩, fun e he => List.mem_append_left _ he, List.mem_append_right _ (List.mem_singleton.2 rfl), ?_⟩
    · intro e he
      rcases List.mem_append.1 he with he | he
      · exact hI.1 e he
      · simp only [List.mem_singleton] at he; subst he; rfl
    · rw [List.pairwise_append]
      refine ⟨hI.2, by simp, ?_⟩
      intro a ha b hb
      simp only [List.mem_singleton] at hb; subst hb
      exact hnone a ha
    · intro e he
      rcases List.mem_append.1 he with he | he
      · exact Or.inl he
      · simp only [List.mem_singleton] at he; exact Or.inr he

theorem row_ok (w : String) : ∀ (ls : List String) (acc acc' : List Entry), PairsInv acc →
    pluralityPairsRow w ls acc = .ok acc' →
    PairsInv acc' ∧ (∀ e ∈ acc, e ∈ acc') ∧ (∀ l ∈ ls, (pairKey w l, w, l) ∈ acc') ∧
    (∀ e ∈ acc', e ∈ acc ∨ ∃ l ∈ ls, e = (pairKey w l, w, l)) := by
  intro ls
  induction ls with
  | nil =>
    intro acc acc' hI h
    simp only [pluralityPairsRow] at h
    cases h
    exact ⟨hI, fun _ h => h, (fun _ h => nomatch h), fun e he => Or.inl he⟩
  | cons l ls ih =>
    intro acc acc' hI h
    simp only [pluralityPairsRow] at h
    cases hs : pluralityPairsStep acc w l with
    | error e => rw [hs] at h; cases h
    | ok acc1 =>
      rw [hs] at h
      obtain ⟨s1, s2, s3, s4⟩ := step_ok hI hs
      obtain ⟨r1, r2, r3, r4⟩ := ih acc1 acc' s1 h
      refine ⟨r1, fun e he => r2 e (s2 e he), ?_, ?_⟩
      · intro l' hl'
        simp only [List.mem_cons] at hl'
        rcases hl' with rfl | hl'
        · exact r2 _ s3
        · exact r3 l' hl'
      · intro e he
        rcases r4 e he with h1 | ⟨l', hl', rfl⟩
        · rcases s4 e h1 with h2 | rfl
          · exact Or.inl h2
          · exact Or.inr ⟨l, by simp, rfl⟩
        · exact Or.inr ⟨l', by simp [hl'], rfl⟩

theorem from_ok (L : List String) : ∀ (ws : List String) (acc acc' : List Entry), PairsInv acc →
    pluralityPairsFrom L ws acc = .ok acc' →
    PairsInv acc' ∧ (∀ e ∈ acc, e ∈ acc') ∧ (∀ w ∈ ws, ∀ l ∈ L, (pairKey w l, w, l) ∈ acc') ∧
    (∀ e ∈ acc', e ∈ acc ∨ ∃ w ∈ ws, ∃ l ∈ L, e = (pairKey w l, w, l)) := by
  intro ws
  induction ws with
  | nil =>
    intro acc acc' hI h
    simp only [pluralityPairsFrom] at h
    cases h
    exact ⟨hI, fun _ h => h, (fun _ h => nomatch h), fun e he => Or.inl he⟩
  | cons w ws ih =>
    intro acc acc' hI h
    simp only [pluralityPairsFrom] at h
    cases hr : pluralityPairsRow w L acc with
    | error e => rw [hr] at h; cases h
    | ok acc1 =>
      rw [hr] at h
      obtain ⟨s1, s2, s3, s4⟩ := row_ok w L acc acc1 hI hr
      obtain ⟨r1, r2, r3, r4⟩ := ih acc1 acc' s1 h
      refine ⟨r1, fun e he => r2 e (s2 e he), ?_, ?_⟩
      · intro w' hw' l hl
        simp only [List.mem_cons] at hw'
        rcases hw' with rfl | hw'
        · exact r2 _ (s3 l hl)
        · exact r3 w' hw' l hl
      · intro e he
        rcases r4 e he with h1 | ⟨w', hw', l, hl, rfl⟩
        · rcases s4 e h1 with h2 | ⟨l, hl, rfl⟩
          · exact Or.inl h2
          · exact Or.inr ⟨w, by simp, l, hl, rfl⟩
        · exact Or.inr ⟨w', by simp [hw'], l, hl, rfl⟩

/-- **Completeness of the assertion list.**  Whenever `make_plurality_assertions` returns, its dict holds, for EVERY
reported winner `w` and EVERY reported loser `l`, an assertion named `w v l` with winner `w` and loser `l`. -/
theorem pluralityPairs_complete (W L : List String) (ps : List Entry) (h : pluralityPairs W L = .ok ps) :
    ∀ w ∈ W, ∀ l ∈ L, (pairKey w l, w, l) ∈ ps :=
  (from_ok L W [] ps ⟨(fun _ h => nomatch h), List.Pairwise.nil⟩ h).2.2.1

/-- every entry is a (winner, loser) pair under its own name, and no name is used twice -/
theorem pluralityPairs_sound (W L : List String) (ps : List Entry) (h : pluralityPairs W L = .ok ps) :
    (∀ e ∈ ps, e.2.1 ∈ W ∧ e.2.2 ∈ L ∧ e.1 = pairKey e.2.1 e.2.2) ∧ ps.Pairwise (fun a b => a.1 ≠ b.1) := by
  obtain ⟨h1, _, _, h4⟩ := from_ok L W [] ps ⟨(fun _ h => nomatch h), List.Pairwise.nil⟩ h
  refine ⟨?_, h1.2⟩
  intro e he
  rcases h4 e he with h' | ⟨w, hw, l, hl, rfl⟩
  · cases h'
  · exact ⟨hw, hl, rfl⟩

/-- the constructor refuses only a genuine clash: if no two different pairs share a name, it returns -/
theorem pluralityPairs_ok_of_injective (W L : List String)
    (hinj : ∀ w ∈ W, ∀ l ∈ L, ∀ w' ∈ W, ∀ l' ∈ L, pairKey w l = pairKey w' l' → w = w' ∧ l = l') :
    ∃ ps, pluralityPairs W L = .ok ps := by
  -- generalised: from any accumulator whose entries are pairs of W × L under their own names
  have stepOK : ∀ (acc : List Entry) (w l : String), w ∈ W → l ∈ L →
      (∀ e ∈ acc, e.2.1 ∈ W ∧ e.2.2 ∈ L ∧ e.1 = pairKey e.2.1 e.2.2) →
      ∃ acc', pluralityPairsStep acc w l = .ok acc' ∧
        (∀ e ∈ acc', e.2.1 ∈ W ∧ e.2.2 ∈ L ∧ e.1 = pairKey e.2.1 e.2.2) := by
    intro acc w l hw hl hacc
    unfold pluralityPairsStep
    simp only
    cases hf : acc.find? (fun e => e.1 == w ++ " v " ++ l) with
    | none =>
      refine ⟨_, rfl, ?_⟩
      intro e he
      rcases List.mem_append.1 he with he | he
      · exact hacc e he
      · simp only [List.mem_singleton] at he; subst he; exact ⟨hw, hl, rfl⟩
    | some e =>
      have hmem := List.mem_of_find?_eq_some hf
      have hkey : e.1 = w ++ " v " ++ l := by
        have := List.find?_some hf
        simpa using this
      obtain ⟨e1, e2, e3⟩ := hacc e hmem
      have := hinj e.2.1 e1 e.2.2 e2 w hw l hl (by rw [← e3, hkey]; rfl)
      simp only [this.1, this.2, beq_self_eq_true, Bool.and_self, if_true]
      exact ⟨acc, rfl, hacc⟩
  have rowOK : ∀ (w : String), w ∈ W → ∀ (ls : List String), (∀ l ∈ ls, l ∈ L) → ∀ (acc : List Entry),
      (∀ e ∈ acc, e.2.1 ∈ W ∧ e.2.2 ∈ L ∧ e.1 = pairKey e.2.1 e.2.2) →
      ∃ acc', pluralityPairsRow w ls acc = .ok acc' ∧
        (∀ e ∈ acc', e.2.1 ∈ W ∧ e.2.2 ∈ L ∧ e.1 = pairKey e.2.1 e.2.2) := by
    intro w hw ls
    induction ls with
    | nil => intro _ acc hacc; exact ⟨acc, rfl, hacc⟩
    | cons l ls ih =>
      intro hls acc hacc
      obtain ⟨acc1, h1, h2⟩ := stepOK acc w l hw (hls l (by simp)) hacc
      obtain ⟨acc2, h3, h4⟩ := ih (fun l' hl' => hls l' (by simp [hl'])) acc1 h2
      exact ⟨acc2, by simp only [pluralityPairsRow, h1]; exact h3, h4⟩
  have fromOK : ∀ (ws : List String), (∀ w ∈ ws, w ∈ W) → ∀ (acc : List Entry),
      (∀ e ∈ acc, e.2.1 ∈ W ∧ e.2.2 ∈ L ∧ e.1 = pairKey e.2.1 e.2.2) →
      ∃ acc', pluralityPairsFrom L ws acc = .ok acc' := by
    intro ws
    induction ws with
    | nil => intro _ acc _; exact ⟨acc, rfl⟩
    | cons w ws ih =>
      intro hws acc hacc
      obtain ⟨acc1, h1, h2⟩ := rowOK w (hws w (by simp)) L (fun _ h => h) acc hacc
      obtain ⟨acc2, h3⟩ := ih (fun w' hw' => hws w' (by simp [hw'])) acc1 h2
      exact ⟨acc2, by simp only [pluralityPairsFrom, h1]; exact h3⟩
  exact fromOK W (fun _ h => h) [] (fun _ h => nomatch h)

/-! ### Non-vacuity and the F30 witness -/

-- an ordinary contest: one entry per pair, in loop order
example : pluralityPairs ["Ann", "Bo"] ["Cy", "Di"] =
    .ok [("Ann v Cy", "Ann", "Cy"), ("Ann v Di", "Ann", "Di"), ("Bo v Cy", "Bo", "Cy"), ("Bo v Di", "Bo", "Di")] := by
  rfl
-- a candidate listed twice is harmless (the same pair under the same name)
example : pluralityPairs ["Ann", "Ann"] ["Cy"] = .ok [("Ann v Cy", "Ann", "Cy")] := by rfl
-- finding F30: pairs (a, b v c) and (a v b, c) are both named "a v b v c": the repaired constructor refuses
example : pluralityPairs ["a", "a v b"] ["b v c", "c"] = .error .ValueError := by rfl
-- `pluralityPairs_complete` applies to the first example
example : ("Bo v Cy", "Bo", "Cy") ∈
    [("Ann v Cy", "Ann", "Cy"), ("Ann v Di", "Ann", "Di"), ("Bo v Cy", "Bo", "Cy"), ("Bo v Di", "Bo", "Di")] :=
  pluralityPairs_complete ["Ann", "Bo"] ["Cy", "Di"] _ (by rfl) "Bo" (by simp) "Cy" (by simp)

end Shangrla.C02
